(** Proofs about Fmt/VpkNullStr.v: the reader shapes accepted by [reader_ok] are the model reader [read_cstr] of Fmt/VpkDir.v on
    every input; round trip of every representable string of any length; the one-block reader is refuted for every block size. *)
From Coq Require Import List NArith Bool Lia.
From SV Require Import Fmt.VpkDir Fmt.VpkDirProofs SM.Vpk SM.VpkProofs Fmt.VpkNullStr.
Import ListNotations.
Open Scope N_scope.

Definition lift (acc : bytes) (x : option (bytes * bytes)) : option (bytes * bytes) :=
  match x with Some (s, r) => Some (acc ++ s, r) | None => None end.

Lemma lift_nil x : lift [] x = x.
Proof. destruct x as [[s r]|]; reflexivity. Qed.

Lemma lift_lift a b x : lift a (lift b x) = lift (a ++ b) x.
Proof. destruct x as [[s r]|]; cbn; [now rewrite app_assoc|reflexivity]. Qed.

Lemma rev_rev_append (c racc : bytes) : rev (rev_append c racc) = rev racc ++ c.
Proof. now rewrite rev_append_rev, rev_app_distr, rev_involutive. Qed.

(** ---- one byte at a time ---- *)
Lemma accum_loop_1 : forall bs fuel racc, (length bs < fuel)%nat ->
  accum_loop fuel 1 racc bs = lift (rev racc) (read_cstr bs).
Proof.
  induction bs as [|b r IH]; intros fuel racc Hf; (destruct fuel as [|f]; [cbn in Hf; lia|]).
  - reflexivity.
  - cbn [accum_loop firstn skipn read_cstr bytes_eqb]. rewrite andb_true_r.
    destruct (b =? 0) eqn:E.
    + cbn. now rewrite app_nil_r.
    + rewrite IH by (cbn in Hf; lia). rewrite rev_rev_append.
      destruct (read_cstr r) as [[s r']|]; cbn; [|reflexivity].
      now rewrite <- app_assoc.
Qed.

(** ---- blocks ---- *)
Lemma find0_some : forall bs n e, find0 (firstn n bs) = Some e ->
  read_cstr bs = Some (firstn e bs, skipn (S e) bs).
Proof.
  induction bs as [|b r IH]; intros n e H.
  - destruct n; discriminate.
  - destruct n as [|n]; [discriminate|]. cbn [firstn find0] in H. cbn [read_cstr].
    destruct (b =? 0).
    + injection H as <-. reflexivity.
    + destruct (find0 (firstn n r)) as [e'|] eqn:F; [|discriminate]. injection H as <-.
      rewrite (IH _ _ F). reflexivity.
Qed.

Lemma find0_none : forall bs n, find0 (firstn n bs) = None ->
  read_cstr bs = lift (firstn n bs) (read_cstr (skipn n bs)).
Proof.
  induction bs as [|b r IH]; intros n H.
  - destruct n; reflexivity.
  - destruct n as [|n].
    + cbn [firstn skipn]. now rewrite lift_nil.
    + cbn [firstn find0] in H. cbn [read_cstr firstn skipn].
      destruct (b =? 0); [discriminate|].
      destruct (find0 (firstn n r)) eqn:F; [discriminate|].
      rewrite (IH _ F). destruct (read_cstr (skipn n r)) as [[s r']|]; reflexivity.
Qed.

Lemma block_loop_ok : forall fuel n bs racc, (0 < n)%nat -> (length bs < fuel)%nat ->
  block_loop fuel n racc bs = lift (rev racc) (read_cstr bs).
Proof.
  induction fuel as [|f IH]; intros n bs racc Hn Hf; [lia|].
  cbn [block_loop]. destruct (find0 (firstn n bs)) as [e|] eqn:F.
  - now rewrite (find0_some _ _ _ F).
  - rewrite (find0_none _ _ F). destruct (firstn n bs) as [|x c] eqn:C.
    + destruct bs as [|b r]; [now rewrite skipn_nil|]. destruct n; [lia|discriminate].
    + assert (length (skipn n bs) < f)%nat.
      { assert (length (firstn n bs) + length (skipn n bs) = length bs)%nat
          by (rewrite <- app_length, firstn_skipn; reflexivity).
        rewrite C in H. cbn in H. lia. }
      rewrite IH by assumption. now rewrite rev_rev_append, lift_lift.
Qed.

(** The accepted reader shapes are the model reader, on every input (well-formed or not). *)
Theorem reader_ok_is_read_cstr r : reader_ok r = true -> forall bs, read_cstr_r r bs = read_cstr bs.
Proof.
  destruct r as [n|n|n|n]; cbn [reader_ok]; intros H bs; [|discriminate| |discriminate].
  - apply N.eqb_eq in H. subst n. unfold read_cstr_r. change (N.to_nat 1) with 1%nat.
    rewrite accum_loop_1 by lia. apply lift_nil.
  - apply N.ltb_lt in H. unfold read_cstr_r. rewrite block_loop_ok by lia. apply lift_nil.
Qed.

Lemma ncodec_ok_parts k : ncodec_ok k = true ->
  reader_ok (nc_reader k) = true /\ nc_term k = [0] /\ nc_blank_r k = [32] /\ nc_blank_w k = [32; 0].
Proof.
  unfold ncodec_ok. intros H.
  apply andb_prop in H as [H _]. apply andb_prop in H as [H _]. apply andb_prop in H as [H Hw].
  apply andb_prop in H as [H Hb]. apply andb_prop in H as [Hr Ht].
  apply bytes_eqb_eq in Ht, Hb, Hw. rewrite Ht, Hb in Hw. auto.
Qed.

(** With [ncodec_ok], both functions are the ones the directory codec Fmt/VpkDir.v is defined and proved with. *)
Theorem ncodec_ok_is_model k : ncodec_ok k = true ->
  (forall s, write_cstr_k k s = write_cstr s) /\ (forall bs, next_str_k k bs = next_str bs).
Proof.
  intros H. destruct (ncodec_ok_parts _ H) as (Hr & Ht & Hb & Hw). split.
  - intros [|a s]; unfold write_cstr_k, write_cstr; now rewrite ?Hw, ?Ht.
  - intros bs. unfold next_str_k, next_str. rewrite (reader_ok_is_read_cstr _ Hr), Hb.
    destruct (read_cstr bs) as [[s r]|]; [|reflexivity].
    destruct s as [|a [|b s]]; cbn [bytes_eqb]; try reflexivity.
    + rewrite andb_true_r. destruct (a =? 32); reflexivity.
    + now rewrite andb_false_r.
Qed.

(** Round trip of one string: every representable string (no NUL, bytes < 256, not the single space), of any length, followed by
    anything. *)
Theorem nullstr_roundtrip k : ncodec_ok k = true -> forall s rest, str_ok s = true ->
  next_str_k k (write_cstr_k k s ++ rest) = Some (Some s, rest).
Proof.
  intros H s rest Hs. destruct (ncodec_ok_is_model _ H) as [Hw Hn]. rewrite Hw, Hn. now apply next_str_write.
Qed.

Theorem nullstr_end k : ncodec_ok k = true -> forall rest, next_str_k k (0 :: rest) = Some (None, rest).
Proof. intros H rest. destruct (ncodec_ok_is_model _ H) as [_ Hn]. now rewrite Hn. Qed.

Lemma write_cstr_k_len k : ncodec_ok k = true -> forall s, (1 <= length (write_cstr_k k s))%nat.
Proof. intros H s. destruct (ncodec_ok_is_model _ H) as [Hw _]. rewrite Hw. apply write_cstr_len. Qed.

(** Round trip of a whole section: the generator yields exactly the strings written, in order, and leaves the file just after
    the section's terminator. *)
Lemma iter_k_section k : ncodec_ok k = true -> forall l rest fuel, forallb str_ok l = true ->
  (length l < fuel)%nat -> iter_k fuel k (write_section_k k l ++ rest) = Some (l, rest).
Proof.
  intros H. induction l as [|s l IH]; intros rest fuel Hl Hf; (destruct fuel as [|f]; [cbn in Hf; lia|]).
  - unfold write_section_k. cbn [flat_map app iter_k]. now rewrite (nullstr_end _ H).
  - cbn [forallb] in Hl. apply andb_prop in Hl as [Hs Hl].
    unfold write_section_k in *. cbn [flat_map iter_k]. rewrite <- !app_assoc.
    rewrite (nullstr_roundtrip _ H _ _ Hs). rewrite app_assoc. rewrite IH by (cbn in Hf; try assumption; lia). reflexivity.
Qed.

Theorem nullstr_section_roundtrip k : ncodec_ok k = true -> forall l rest, forallb str_ok l = true ->
  iter_nullstr_k k (write_section_k k l ++ rest) = Some (l, rest).
Proof.
  intros H l rest Hl. unfold iter_nullstr_k. apply iter_k_section; try assumption.
  rewrite app_length. unfold write_section_k. rewrite app_length. cbn [length].
  enough (length l <= length (flat_map (write_cstr_k k) l))%nat by lia.
  clear Hl. induction l as [|s l IH]; cbn [flat_map length]; [lia|].
  rewrite app_length. pose proof (write_cstr_k_len _ H s). lia.
Qed.

(** ---- refutations ---- *)
Lemma find0_nonzero s : forallb (fun b => negb (b =? 0)) s = true -> find0 s = None.
Proof.
  induction s as [|b s IH]; cbn; [reflexivity|]. intros H. apply andb_prop in H as [Hb Hs].
  destruct (b =? 0); [discriminate|]. now rewrite IH.
Qed.

(** A reader that looks at one block of [n] bytes only: every NUL-free string of [n] or more bytes, which the writer accepts and the
    model reader reads, makes it raise — for every block size (seeded fault c13_4 is [n = 256]). *)
Theorem block_reader_refuted n s rest :
  forallb (fun b => negb (b =? 0)) s = true -> (N.to_nat n <= length s)%nat ->
  read_cstr_r (RBlock n) (s ++ 0 :: rest) = None.
Proof.
  intros Hs Hn. unfold read_cstr_r, block_once.
  rewrite firstn_app. replace (N.to_nat n - length s)%nat with 0%nat by lia. cbn [firstn]. rewrite app_nil_r.
  rewrite find0_nonzero; [reflexivity|].
  rewrite <- (firstn_skipn (N.to_nat n) s) in Hs. rewrite forallb_app in Hs. now apply andb_prop in Hs as [Hs _].
Qed.

Example block_256_refuted :
  let s := repeat 97 256 in
  str_ok s = true /\ next_str (write_cstr s ++ [7]) = Some (Some s, [7])
  /\ next_str_k (ncodec_block 256) (write_cstr_k (ncodec_block 256) s ++ [7]) = None
  /\ ncodec_ok (ncodec_block 256) = false
  /\ next_str_k (ncodec_block 256) (write_cstr_k (ncodec_block 256) (repeat 97 255) ++ [7]) = Some (Some (repeat 97 255), [7]).
Proof. vm_compute. repeat split; reflexivity. Qed.

(** Reading two bytes at a time in the accumulate shape never sees a lone NUL inside the file. *)
Example accum_2_refuted :
  read_cstr [97; 0; 98; 0] = Some ([97], [98; 0]) /\ read_cstr_r (RAccum 2) [97; 0; 98; 0] = None
  /\ reader_ok (RAccum 2) = false /\ reader_ok (RAccum 0) = false.
Proof. vm_compute. repeat split; reflexivity. Qed.

(** Non-vacuity: the pinned shape and a looping block reader satisfy the premises. *)
Example ncodec_pinned_ok : ncodec_ok ncodec_pinned = true
  /\ reader_ok (RBlockLoop 256) = true
  /\ iter_nullstr_k ncodec_pinned (write_section_k ncodec_pinned [[116; 120; 116]; []; repeat 101 300] ++ [1; 2])
     = Some ([[116; 120; 116]; []; repeat 101 300], [1; 2]).
Proof. vm_compute. repeat split; reflexivity. Qed.

(** Seeded c13_6: blocks of 128 in an inner loop, rewind relative to the first block with the index found in the last one.  A string
    of 127 characters is read and the file left after its terminator; for a string of 128 characters the string is still right but the
    file is left at position 1 — inside the string — so everything after it is misread.  Not accepted by [reader_ok]. *)
Theorem nullstr_block_rel_refuted :
  let s127 := repeat 97 127 in let s128 := repeat 97 128 in
  reader_ok (RBlockLoopRel 128) = false
  /\ read_cstr_r (RBlockLoopRel 128) (s127 ++ 0 :: [7; 8]) = Some (s127, [7; 8])
  /\ read_cstr_r (RBlockLoopRel 128) (s128 ++ 0 :: [7; 8]) = Some (s128, repeat 97 127 ++ 0 :: [7; 8])
  /\ read_cstr_r (RBlockLoop 128) (s128 ++ 0 :: [7; 8]) = Some (s128, [7; 8]).
Proof. vm_compute. repeat split; reflexivity. Qed.
