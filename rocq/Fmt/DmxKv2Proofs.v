(** C14 — proofs about the KeyValues2 model (Fmt/DmxKv2.v): the reference decision tables, the tokenizer run over the
    writer's lexemes (composing C02's [quoted_embedding]), and the token-level parser. *)
From Coq Require Import NArith List Bool Lia PeanoNat.
From SV Require Import Text.Str Text.Prog Text.Escape Text.EscapeProofs Text.Tokenizer Fmt.DmxKv2.
Import ListNotations.
Open Scope N_scope.

(** * Part 1: decision tables *)
Lemma raction_eqb_eq a b : raction_eqb a b = true -> a = b.
Proof. destruct a, b; cbn; congruence. Qed.
Lemma oaction_eqb_eq a b : oaction_eqb a b = true -> a = b.
Proof. destruct a as [a|], b as [b|]; cbn; try congruence. intros H. f_equal. now apply raction_eqb_eq. Qed.

Theorem rtable_ok_sound t : rtable_ok t = true -> forall n s r, decide t n s r = Some (ref_spec n s r).
Proof.
  intros H n s r. unfold rtable_ok in H. rewrite forallb_forall in H.
  specialize (H (n, s, r)). cbv beta iota in H. apply oaction_eqb_eq. apply H.
  destruct n, s, r; cbn; tauto.
Qed.
Theorem rtables_agree_sound a b : rtables_agree a b = true -> forall n s r, decide a n s r = decide b n s r.
Proof.
  intros H n s r. unfold rtables_agree in H. rewrite forallb_forall in H.
  specialize (H (n, s, r)). cbv beta iota in H. apply oaction_eqb_eq. apply H.
  destruct n, s, r; cbn; tauto.
Qed.
Theorem reference_tables_example :
  rtable_ok pinned_rtable = true /\ rtables_agree pinned_rtable pinned_rtable = true.
Proof. split; reflexivity. Qed.
(** Without [or child.is_stub] a stub that is not a root is written inline (as a fake element). *)
Theorem stub_inline_refuted :
  rtable_ok no_stub_rtable = false /\ rtables_agree pinned_rtable no_stub_rtable = false /\
  decide no_stub_rtable false true false = Some AInline.
Proof. repeat split; reflexivity. Qed.

(** * Part 2a: small facts *)
Lemma str_eqb_eq : forall a b, str_eqb a b = true -> a = b.
Proof.
  induction a as [|x a IH]; intros [|y b] H; cbn [str_eqb] in H; try discriminate; [reflexivity|].
  apply andb_prop in H. destruct H as [H1 H2]. apply N.eqb_eq in H1. apply IH in H2. now subst.
Qed.
Lemma str_eqb_refl : forall a, str_eqb a a = true.
Proof. induction a as [|x a IH]; [reflexivity|]. cbn [str_eqb]. now rewrite N.eqb_refl. Qed.
Lemma str_eqb_neq a b : a <> b -> str_eqb a b = false.
Proof. intros H. destruct (str_eqb a b) eqn:E; [|reflexivity]. now apply str_eqb_eq in E. Qed.
Lemma tok_eqb_refl t : tok_eqb t t = true.
Proof. unfold tok_eqb. apply N.eqb_refl. Qed.
Lemma tok_eqb_eq a b : tok_eqb a b = true -> a = b.
Proof. unfold tok_eqb. intros H. apply N.eqb_eq in H. destruct a, b; cbn in H; try discriminate; reflexivity. Qed.

Lemma esc_char_length T ml c : (1 <= length (esc_char T ml c))%nat.
Proof. unfold esc_char. destruct (mem c (excl T ml)); [cbn; lia|]. destruct (rlookup c (esc_table T)); cbn; lia. Qed.
Lemma escape_length T ml s : (length s <= length (escape T ml s))%nat.
Proof.
  induction s as [|c s IH]; [cbn; lia|]. unfold escape in *. cbn [flat_map length]. rewrite app_length.
  pose proof (esc_char_length T ml c). lia.
Qed.

(** * Part 2b: the tokenizer over the writer's lexemes *)
Section Lex.
Variable T : tables.
Variable o : opts.
Hypothesis HT : kv2_tables_ok T = true.
Hypothesis Ho : kv2_opts_ok o = true.

Definition blanks (w : str) : bool := forallb (fun c => (c =? TAB) || (c =? SP)) w.
(** a lexeme the writer may emit: blanks before it, and raw texts are texts that escape_text leaves alone *)
Definition lexeme_ok (l : lexeme) : bool :=
  blanks (fst l) && match snd l with LRaw s => str_eqb (escape T false s) s | _ => true end.

Lemma HT_parts :
  tbl_ok T false = true /\
  lookup DQ (operators T) = None /\ lookup CR (operators T) = None /\ lookup LF (operators T) = None /\
  lookup TAB (operators T) = None /\ lookup SP (operators T) = None /\
  lookup LBRACK (operators T) = None /\ lookup RBRACK (operators T) = None /\
  lookup LBRACE (operators T) = Some BRACE_OPEN /\ lookup RBRACE (operators T) = Some BRACE_CLOSE /\
  lookup COMMAC (operators T) = Some COMMA.
Proof.
  pose proof HT as H. unfold kv2_tables_ok in H.
  apply andb_prop in H. destruct H as [H Hc]. apply andb_prop in H. destruct H as [H Hb].
  apply andb_prop in H. destruct H as [H Ha]. apply andb_prop in H. destruct H as [Hok Hn].
  cbn [forallb] in Hn. repeat (apply andb_prop in Hn; destruct Hn as [? Hn]).
  assert (Hnone : forall c, is_none (lookup c (operators T)) = true -> lookup c (operators T) = None).
  { intros c. destruct (lookup c (operators T)); [discriminate|reflexivity]. }
  assert (Hop : forall c k, op_is T c k = true -> lookup c (operators T) = Some k).
  { intros c k. unfold op_is. destruct (lookup c (operators T)) as [k'|]; [|discriminate]. intros E. apply tok_eqb_eq in E. now subst. }
  repeat split; auto.
Qed.
Lemma Ho_parts : allow_escapes o = true /\ string_bracket o = false.
Proof.
  pose proof Ho as H. unfold kv2_opts_ok in H. apply andb_prop in H. destruct H as [H1 H2].
  split; [exact H1|]. now apply negb_true_iff in H2.
Qed.

(** a pending LF after a CR is swallowed *)
Lemma get_token_pending_lf f line l :
  run_flat (get_token T o (S f) line true) (LF :: l) = run_flat (get_token T o f line false) l.
Proof.
  destruct HT_parts as (_ & _ & _ & Hlf & _). cbn [run_flat get_token fnext keep]. rewrite Hlf. reflexivity.
Qed.
Lemma get_token_blank f line lcr c l : ((c =? TAB) || (c =? SP)) = true ->
  run_flat (get_token T o (S f) line lcr) (c :: l) = run_flat (get_token T o f line false) l.
Proof.
  destruct HT_parts as (_ & _ & _ & _ & Htab & Hsp & _). intros Hc.
  apply orb_prop in Hc. destruct Hc as [E|E]; apply N.eqb_eq in E; subst c;
    cbn [run_flat get_token fnext keep]; [rewrite Htab|rewrite Hsp]; reflexivity.
Qed.
Lemma get_token_blanks : forall w f line lcr l, blanks w = true ->
  run_flat (get_token T o (length w + S f) line lcr) (w ++ l)
  = run_flat (get_token T o (S f) line (match w with [] => lcr | _ => false end)) l.
Proof.
  induction w as [|c w IH]; intros f line lcr l Hw; [reflexivity|].
  cbn [blanks forallb] in Hw. apply andb_prop in Hw. destruct Hw as [Hc Hw].
  cbn [length app plus]. rewrite get_token_blank by exact Hc. rewrite IH by exact Hw. now destruct w.
Qed.

Definition pre (lcr : bool) : str := if lcr then [LF] else [].
Definition lcr_after (t : ltok) : bool := match t with LNl => true | _ => false end.
(** what one [_get_token] call returns for a token text at the head of the input, and what is left *)
Lemma get_token_ltok t f line rest :
  match t with LRaw s => str_eqb (escape T false s) s = true | _ => True end ->
  (length (ltok_text T t) < S f)%nat ->
  exists line', run_flat (get_token T o (S f) line false) (ltok_text T t ++ rest)
                = (RTok (fst (ltok_tok t)) (snd (ltok_tok t)) line' (lcr_after t), match t with LNl => LF :: rest | _ => rest end).
Proof.
  destruct HT_parts as (Hok & Hdq & Hcr & Hlf & Htab & Hsp & Hlb & Hrb & Hbo & Hbc & Hco).
  destruct Ho_parts as (Hesc & Hsb).
  assert (Hq : forall s, (length (DQ :: escape T false s ++ [DQ]) < S f)%nat ->
            run_flat (get_token T o (S f) line false) ((DQ :: escape T false s ++ [DQ]) ++ rest)
            = (RTok STRING s (line + raw_lfs T false s) false, rest)).
  { intros s Hlen. cbn [app]. rewrite <- app_assoc. cbn [app].
    rewrite (get_token_quote T o f line false); [|unfold dq_not_operator; now rewrite Hdq].
    rewrite (quoted_embedding T o Hesc false Hok s f [] line rest); [reflexivity|].
    cbn [length] in Hlen. rewrite app_length in Hlen. cbn [length] in Hlen. pose proof (escape_length T false s). lia. }
  intros Hraw Hlen. destruct t as [s|s| | | | | |]; cbn [ltok_text ltok_tok fst snd lcr_after] in *.
  - eexists. apply Hq. exact Hlen.
  - apply str_eqb_eq in Hraw. pose proof (Hq s) as Hq'. rewrite Hraw in Hq'. eexists. apply Hq'. exact Hlen.
  - eexists. cbn [app run_flat get_token fnext keep]. rewrite Hcr. reflexivity.
  - eexists. cbn [app run_flat get_token fnext keep]. rewrite Hbo. reflexivity.
  - eexists. cbn [app run_flat get_token fnext keep]. rewrite Hbc. reflexivity.
  - eexists. cbn [app run_flat get_token fnext keep]. rewrite Hlb. cbn. rewrite Hsb. reflexivity.
  - eexists. cbn [app run_flat get_token fnext keep]. rewrite Hrb. cbn. rewrite Hsb. reflexivity.
  - eexists. cbn [app run_flat get_token fnext keep]. rewrite Hco. reflexivity.
Qed.

Lemma ltok_text_nonempty t : (1 <= length (ltok_text T t))%nat.
Proof. destruct t; cbn [ltok_text length]; lia. Qed.

(** one lexeme, with the pending LF of a preceding CR LF *)
Lemma get_token_lexeme w t F line lcr rest : lexeme_ok (w, t) = true ->
  (length (pre lcr ++ w ++ ltok_text T t) + 1 <= F)%nat ->
  exists line', run_flat (get_token T o F line lcr) (pre lcr ++ w ++ ltok_text T t ++ rest)
                = (RTok (fst (ltok_tok t)) (snd (ltok_tok t)) line' (lcr_after t), pre (lcr_after t) ++ rest).
Proof.
  intros Hl HF. unfold lexeme_ok in Hl. cbn [fst snd] in Hl. apply andb_prop in Hl. destruct Hl as [Hw Hraw].
  rewrite !app_length in HF. pose proof (ltok_text_nonempty t) as Hne.
  assert (Hmain : forall f lcr0, (length w + length (ltok_text T t) + 1 <= f)%nat -> (lcr0 = false \/ w <> []) ->
            exists line', run_flat (get_token T o f line lcr0) (w ++ ltok_text T t ++ rest)
              = (RTok (fst (ltok_tok t)) (snd (ltok_tok t)) line' (lcr_after t), pre (lcr_after t) ++ rest)).
  { intros f lcr0 Hf Hl0.
    replace f with (length w + S (f - length w - 1))%nat by lia.
    rewrite get_token_blanks by exact Hw.
    assert (E : match w with [] => lcr0 | _ => false end = false).
    { destruct w; [destruct Hl0 as [->|Hl0]; [reflexivity|congruence]|reflexivity]. }
    rewrite E.
    destruct (get_token_ltok t (f - length w - 1) line rest) as [line' Hr].
    - destruct t; try exact I. exact Hraw.
    - lia.
    - exists line'. rewrite Hr. f_equal. now destruct t. }
  destruct lcr; cbn [pre app length] in *.
  - destruct F as [|f]; [lia|]. rewrite get_token_pending_lf. apply Hmain; [lia|now left].
  - apply Hmain; [lia|now left].
Qed.

Lemma render_lex_cons l ls : render_lex T (l :: ls) = fst l ++ ltok_text T (snd l) ++ render_lex T ls.
Proof. unfold render_lex. cbn [flat_map]. now rewrite <- app_assoc. Qed.

(** The whole text: every lexeme gives exactly its token, in order; then EOF. *)
Theorem lex_all_lexemes : forall ls, forallb lexeme_ok ls = true ->
  forall n F line lcr, (length ls < n)%nat -> (length (pre lcr ++ render_lex T ls) + 2 <= F)%nat ->
  lex_all T o n F line lcr (pre lcr ++ render_lex T ls) = Some (toks_of ls).
Proof.
  induction ls as [|[w t] ls IH]; intros Hok n F line lcr Hn HF.
  - destruct n as [|n]; [cbn in Hn; lia|]. cbn [render_lex flat_map toks_of map]. rewrite app_nil_r.
    cbn [lex_all]. destruct lcr; cbn [pre] in *.
    + destruct F as [|[|f]]; [cbn in HF; lia|cbn in HF; lia|]. rewrite get_token_pending_lf. reflexivity.
    + destruct F as [|f]; [cbn in HF; lia|]. reflexivity.
  - cbn [forallb] in Hok. apply andb_prop in Hok. destruct Hok as [Hl Hls].
    destruct n as [|n]; [cbn in Hn; lia|]. cbn [lex_all]. rewrite render_lex_cons. cbn [fst snd].
    rewrite render_lex_cons in HF. cbn [fst snd] in HF. rewrite !app_length in HF.
    destruct (get_token_lexeme w t F line lcr (render_lex T ls) Hl) as [line' Hr].
    { rewrite !app_length. lia. }
    rewrite Hr.
    assert (Hrec : lex_all T o n F line' (lcr_after t) (pre (lcr_after t) ++ render_lex T ls) = Some (toks_of ls)).
    { apply IH; [exact Hls|cbn in Hn; lia|]. rewrite app_length.
      assert (length (pre (lcr_after t)) <= length (ltok_text T t))%nat by (destruct t; cbn; lia). lia. }
    cbn [toks_of map snd]. destruct t; cbn [ltok_tok fst snd]; rewrite Hrec; reflexivity.
Qed.

Lemma render_lex_length ls : (length ls <= length (render_lex T ls))%nat.
Proof.
  induction ls as [|[w t] ls IH]; [cbn; lia|]. rewrite render_lex_cons. cbn [fst snd length]. rewrite !app_length.
  pose proof (ltok_text_nonempty t). lia.
Qed.

Theorem tokenize_lexemes ls : forallb lexeme_ok ls = true -> tokenize T o (render_lex T ls) = Some (toks_of ls).
Proof.
  intros Hok. unfold tokenize. pose proof (render_lex_length ls).
  apply (lex_all_lexemes ls Hok _ _ 1 false); cbn [pre app]; lia.
Qed.
End Lex.

(** * Part 2c: the parser over the writer's tokens *)
Section Parse.
Variable T : tables.
Variable fold : str -> str.
Variable vtnames : list str.
Hypothesis Hvt : vtnames_ok T fold vtnames = true.

Notation tS v := (STRING, v) (only parsing).
Definition tNL : tok * str := (NEWLINE, [LF]).
Definition tBO : tok * str := (BRACE_OPEN, [LBRACE]).
Definition tBC : tok * str := (BRACE_CLOSE, [RBRACE]).
Definition tKO : tok * str := (BRACK_OPEN, [LBRACK]).
Definition tKC : tok * str := (BRACK_CLOSE, [RBRACK]).
Definition tCO : tok * str := (COMMA, [COMMAC]).

Definition nls (l : tl) : bool := forallb (fun x : tok * str => tok_eqb (fst x) NEWLINE) l.

Lemma skip_nl_app p l : nls p = true -> skip_nl (p ++ l) = skip_nl l.
Proof.
  induction p as [|[k v] p IH]; intros H; [reflexivity|]. cbn [nls forallb fst] in H. apply andb_prop in H.
  destruct H as [H1 H2]. cbn [app skip_nl]. rewrite H1. now apply IH.
Qed.
Lemma expect_app p want l : nls p = true -> tok_eqb NEWLINE want = false -> expect want (p ++ l) = expect want l.
Proof.
  intros Hp Hw. induction p as [|[k v] p IH]; [reflexivity|]. cbn [nls forallb fst] in Hp. apply andb_prop in Hp.
  destruct Hp as [H1 H2]. cbn [app expect]. apply tok_eqb_eq in H1. subst k. rewrite Hw. cbn. now apply IH.
Qed.

Lemma vt_facts t : mem_str t vtnames = true -> vtname_ok T fold t = true.
Proof.
  intros H. unfold mem_str in H. apply existsb_exists in H. destruct H as [x [Hin Hx]]. apply str_eqb_eq in Hx. subst x.
  pose proof Hvt as H. unfold vtnames_ok in H. repeat (apply andb_prop in H; destruct H as [H ?]).
  rewrite forallb_forall in H. now apply H.
Qed.
Lemma vt_globals : mem_str s_element vtnames = true /\ mem_str s_string vtnames = true /\
  fold s_elementid = s_elementid /\ fold s_string = s_string.
Proof.
  pose proof Hvt as H. unfold vtnames_ok in H. repeat (apply andb_prop in H; destruct H as [H ?]).
  repeat split; try assumption; now apply str_eqb_eq.
Qed.
Lemma vtname_parts t : vtname_ok T fold t = true ->
  fold t = t /\ fold (t ++ s_array) = t ++ s_array /\ ends_with t s_array = false /\
  str_eqb t s_elementid = false /\ str_eqb (t ++ s_array) s_elementid = false.
Proof.
  intros H. unfold vtname_ok in H. repeat (apply andb_prop in H; destruct H as [H ?]).
  repeat split; try (now apply str_eqb_eq); now apply negb_true_iff.
Qed.

Lemma ends_with_app t s : ends_with (t ++ s) s = true.
Proof.
  induction t as [|c t IH]; cbn [app].
  - destruct s; cbn [ends_with]; rewrite str_eqb_refl; reflexivity.
  - cbn [ends_with]. rewrite IH. apply orb_true_r.
Qed.
Lemma strip_array t : firstn (length (t ++ s_array) - 6) (t ++ s_array) = t.
Proof.
  rewrite app_length. change (length s_array) with 6%nat. replace (length t + 6 - 6)%nat with (length t + 0)%nat by lia.
  rewrite firstn_app_2. cbn [firstn]. apply app_nil_r.
Qed.

(** ** element-valued and plain items *)
Lemma toks_of_app a b : toks_of (a ++ b) = toks_of a ++ toks_of b.
Proof. apply map_app. Qed.

Definition sep (its : list kitem) : list lexeme :=
  match its with [] => [([], LNl)] | _ => [([], LComma); ([], LNl)] end.
Lemma lex_items_cons it its : lex_items (it :: its) = lex_ref T2 it ++ sep its ++ lex_items its.
Proof. destruct its; cbn [lex_items sep]; [now rewrite app_nil_r|reflexivity]. Qed.

Lemma skip_comma_sep (its : list kitem) X : (match its with [] => exists r, X = tKC :: r | _ => True end) ->
  exists p, nls p = true /\ skip_comma (toks_of (sep its) ++ X) = p ++ X.
Proof.
  destruct its; intros H.
  - destruct H as [r ->]. exists []. split; reflexivity.
  - exists [tNL]. split; reflexivity.
Qed.

Lemma array_items : forall its is_elem acc p rest n, nls p = true -> forallb (item_ok T is_elem) its = true ->
  (length its < n)%nat ->
  array_loop n is_elem acc (p ++ toks_of (lex_items its) ++ tKC :: rest) = Some (rev acc ++ its, rest).
Proof.
  induction its as [|it its IH]; intros is_elem acc p rest n Hp Hok Hn.
  - destruct n as [|n]; [lia|]. cbn [lex_items toks_of map app array_loop]. rewrite skip_nl_app by exact Hp.
    cbn. now rewrite app_nil_r.
  - destruct n as [|n]; [cbn in Hn; lia|]. cbn [forallb] in Hok. apply andb_prop in Hok. destruct Hok as [Hit Hits].
    rewrite lex_items_cons, !toks_of_app, <- !app_assoc.
    set (X := toks_of (lex_items its) ++ tKC :: rest).
    destruct (skip_comma_sep its X) as [p' [Hp' Hsk]].
    { destruct its; [|exact I]. exists rest. reflexivity. }
    cbn [array_loop]. rewrite skip_nl_app by exact Hp.
    assert (Hlen : (length its < n)%nat) by (cbn in Hn; lia).
    destruct it as [s| |u]; cbn [item_ok] in Hit.
    + (* plain string *)
      apply negb_true_iff in Hit. subst is_elem. cbn [lex_ref toks_of map app ltok_tok snd skip_nl tok_eqb tok_tag N.eqb].
      cbn -[skip_comma array_loop toks_of X]. rewrite Hsk. subst X.
      rewrite (IH false (KStr s :: acc) p' rest n Hp' Hits Hlen). cbn [rev]. now rewrite <- app_assoc.
    + subst is_elem. cbn [lex_ref toks_of map app ltok_tok snd skip_nl].
      cbn -[skip_comma array_loop toks_of X]. rewrite Hsk. subst X.
      rewrite (IH true (KNull :: acc) p' rest n Hp' Hits Hlen). cbn [rev]. now rewrite <- app_assoc.
    + apply andb_prop in Hit. destruct Hit as [-> Hu]. unfold blank_free_uuid in Hu. apply andb_prop in Hu.
      destruct Hu as [_ Hne]. cbn [lex_ref toks_of map app ltok_tok snd skip_nl].
      cbn -[skip_comma array_loop toks_of X ref_of]. rewrite Hsk.
      assert (Er : ref_of u = KRef u) by (destruct u; [discriminate|reflexivity]). rewrite Er. subst X.
      rewrite (IH true (KRef u :: acc) p' rest n Hp' Hits Hlen). cbn [rev]. now rewrite <- app_assoc.
Qed.

Lemma lex_items_toks_length its : (length its <= length (toks_of (lex_items its)))%nat.
Proof.
  induction its as [|it its IH]; [cbn; lia|]. rewrite lex_items_cons, !toks_of_app, !app_length.
  assert (1 <= length (toks_of (lex_ref T2 it)))%nat by (destruct it; cbn; lia). cbn [length] in *. lia.
Qed.

(** ** one attribute *)
Lemma attr_parts a : attr_ok T vtnames a = true ->
  mem_str (ka_type a) vtnames = true /\ str_eqb (ka_name a) s_name = false /\
  forallb (item_ok T (is_elem_type (ka_type a))) (ka_items a) = true /\
  (ka_arr a = true \/ exists it, ka_items a = [it]).
Proof.
  intros H. unfold attr_ok in H. repeat (apply andb_prop in H; destruct H as [H ?]).
  repeat split; try assumption; [now apply negb_true_iff|].
  destruct (ka_arr a); [now left|right]. cbn [orb] in *.
  destruct (ka_items a) as [|it [|? ?]]; try discriminate. now exists it.
Qed.

(** the tokens of an attribute: name, type keyword, value tokens, newline; and [read_value] on the value tokens *)
Lemma attr_tokens a : attr_ok T vtnames a = true ->
  exists typetxt vt,
    toks_of (lex_attr a) = (STRING, ka_name a) :: (STRING, typetxt) :: vt ++ [tNL] /\
    fold typetxt = typetxt /\ str_eqb typetxt s_elementid = false /\
    forall rest, read_value vtnames (ka_name a) typetxt (vt ++ tNL :: rest) = Some (a, tNL :: rest).
Proof.
  intros Hok. destruct (attr_parts a Hok) as (Hmem & Hname & Hitems & Hshape).
  destruct (vtname_parts _ (vt_facts _ Hmem)) as (Hf & Hfa & Hend & Hne & Hnea).
  destruct a as [name typ arr items]. cbn [ka_name ka_type ka_arr ka_items] in *.
  destruct arr.
  - (* array *)
    exists (typ ++ s_array), (tNL :: tKO :: tNL :: toks_of (lex_items items) ++ [tKC]).
    unfold lex_attr. cbn [ka_arr ka_name ka_type ka_items].
    split; [|split; [exact Hfa|split; [exact Hnea|]]].
    + rewrite !toks_of_app. cbn [toks_of map app ltok_tok snd]. unfold tNL, tKO, tKC. rewrite <- !app_assoc. reflexivity.
    + intros rest. unfold read_value. rewrite ends_with_app, strip_array, Hmem.
      cbn [app expect tok_eqb tok_tag N.eqb tNL tKO fst]. cbn -[array_loop toks_of].
      rewrite <- app_assoc. cbn [app].
      change (tNL :: toks_of (lex_items items) ++ tKC :: tNL :: rest) with ([tNL] ++ toks_of (lex_items items) ++ tKC :: tNL :: rest).
      rewrite (array_items items (is_elem_type typ) [] [tNL] (tNL :: rest)); [reflexivity|reflexivity|exact Hitems|].
      rewrite !app_length. cbn [length]. pose proof (lex_items_toks_length items). lia.
  - (* scalar *)
    destruct Hshape as [Hd|[it Hit]]; [discriminate|]. subst items. cbn [forallb] in Hitems. apply andb_prop in Hitems.
    destruct Hitems as [Hit _]. unfold lex_attr. cbn [ka_arr ka_name ka_type ka_items].
    destruct (is_elem_type typ) eqn:Ee.
    + assert (typ = s_element) by (now apply str_eqb_eq). subst typ.
      destruct it as [s| |u]; cbn [item_ok] in Hit; try discriminate.
      * exists s_element, [(STRING, [])]. split; [reflexivity|split; [exact Hf|split; [exact Hne|]]].
        intros rest. unfold read_value. rewrite Hend, Hmem, Ee. reflexivity.
      * cbn [andb] in Hit. unfold blank_free_uuid in Hit. apply andb_prop in Hit. destruct Hit as [_ Hnz].
        exists s_element, [(STRING, u)]. split; [reflexivity|split; [exact Hf|split; [exact Hne|]]].
        intros rest. unfold read_value. rewrite Hend, Hmem, Ee. cbn [app expect tok_eqb tok_tag N.eqb].
        cbn -[ref_of]. assert (Er : ref_of u = KRef u) by (destruct u; [discriminate|reflexivity]). now rewrite Er.
    + destruct it as [s| |u]; cbn [item_ok negb] in Hit; try discriminate.
      exists typ, [(STRING, s)]. split; [reflexivity|split; [exact Hf|split; [exact Hne|]]].
      intros rest. unfold read_value. rewrite Hend, Hmem, Ee. reflexivity.
Qed.

Lemma body_skip_nls : forall p n id name acc l, nls p = true ->
  body_loop fold vtnames (length p + n) id name acc (p ++ l) = body_loop fold vtnames n id name acc l.
Proof.
  induction p as [|[k v] p IH]; intros n id name acc l Hp; [reflexivity|].
  cbn [nls forallb fst] in Hp. apply andb_prop in Hp. destruct Hp as [H1 H2]. apply tok_eqb_eq in H1. subst k.
  cbn [length plus app body_loop]. cbn [tok_eqb tok_tag N.eqb]. cbn -[body_loop]. now apply IH.
Qed.

Lemma body_attrs : forall attrs acc id name p rest n, nls p = true -> forallb (attr_ok T vtnames) attrs = true ->
  (length (p ++ toks_of (flat_map lex_attr attrs) ++ tBC :: rest) <= n)%nat ->
  body_loop fold vtnames n id name acc (p ++ toks_of (flat_map lex_attr attrs) ++ tBC :: rest)
  = Some (id, name, rev acc ++ attrs, rest).
Proof.
  induction attrs as [|a attrs IH]; intros acc id name p rest n Hp Hok Hn.
  - rewrite app_length in Hn. cbn [flat_map toks_of map app length] in *.
    replace n with (length p + S (n - length p - 1))%nat by lia. rewrite body_skip_nls by exact Hp.
    cbn [body_loop tBC tok_eqb tok_tag N.eqb]. cbn. now rewrite app_nil_r.
  - cbn [forallb] in Hok. apply andb_prop in Hok. destruct Hok as [Ha Has].
    destruct (attr_tokens a Ha) as (typetxt & vt & Htoks & Hfold & Hnid & Hread).
    destruct (attr_parts a Ha) as (_ & Hname & _).
    cbn [flat_map]. rewrite toks_of_app, Htoks, <- !app_assoc. cbn [app].
    rewrite !app_length in Hn. cbn [flat_map] in Hn. rewrite toks_of_app, Htoks in Hn.
    rewrite !app_length in Hn. cbn [length] in Hn. rewrite !app_length in Hn. cbn [length] in Hn.
    replace n with (length p + S (n - length p - 1))%nat by lia. rewrite body_skip_nls by exact Hp.
    cbn [body_loop]. cbn [tok_eqb tok_tag N.eqb]. cbn -[body_loop read_value str_eqb s_id s_name s_elementid toks_of].
    rewrite Hfold, Hnid, andb_false_r, Hname.
    rewrite <- app_assoc. cbn [app]. rewrite Hread.
    change (tNL :: toks_of (flat_map lex_attr attrs) ++ tBC :: rest) with ([tNL] ++ toks_of (flat_map lex_attr attrs) ++ tBC :: rest).
    rewrite (IH (a :: acc) id name [tNL] rest); [cbn [rev]; now rewrite <- app_assoc|reflexivity|exact Has|].
    rewrite !app_length. cbn [length]. lia.
Qed.

(** ** one element *)
Definition id_toks (e : kelem) : tl :=
  match ke_id e with Some u => [(STRING, s_id); (STRING, s_elementid); (STRING, u); tNL] | None => [] end.
Lemma elem_toks e : toks_of (lex_elem e) =
  (STRING, ke_type e) :: tNL :: tBO :: tNL :: id_toks e ++
  [(STRING, s_name); (STRING, s_string); (STRING, ke_name e); tNL] ++ toks_of (flat_map lex_attr (ke_attrs e)) ++ [tBC].
Proof.
  unfold lex_elem, id_toks. rewrite !toks_of_app. destruct (ke_id e); reflexivity.
Qed.

Definition body_toks (e : kelem) (rest : tl) : tl :=
  tNL :: id_toks e ++ [(STRING, s_name); (STRING, s_string); (STRING, ke_name e); tNL] ++
  toks_of (flat_map lex_attr (ke_attrs e)) ++ tBC :: rest.
Lemma elem_toks_rest e rest : toks_of (lex_elem e) ++ rest = (STRING, ke_type e) :: tNL :: tBO :: body_toks e rest.
Proof. rewrite elem_toks. unfold body_toks. cbn [app]. repeat (rewrite <- app_assoc; cbn [app]). reflexivity. Qed.
Lemma body_toks_length e rest : (length rest + 6 <= length (body_toks e rest))%nat.
Proof. unfold body_toks. cbn [length app]. repeat (rewrite app_length; cbn [length]). lia. Qed.

Lemma body_elem e rest n : elem_ok T vtnames e = true -> (length (body_toks e rest) <= n)%nat ->
  body_loop fold vtnames n None [] [] (body_toks e rest) = Some (ke_id e, ke_name e, ke_attrs e, rest).
Proof.
  unfold body_toks.
  intros Hok Hn. unfold elem_ok in Hok. apply andb_prop in Hok. destruct Hok as [_ Hattrs].
  destruct vt_globals as (_ & _ & Hfe & Hfs).
  assert (Htail : forall id m, (length ([tNL] ++ toks_of (flat_map lex_attr (ke_attrs e)) ++ tBC :: rest) <= m)%nat ->
            body_loop fold vtnames m id (ke_name e) [] ([tNL] ++ toks_of (flat_map lex_attr (ke_attrs e)) ++ tBC :: rest)
            = Some (id, ke_name e, ke_attrs e, rest)).
  { intros id m Hm. rewrite (body_attrs (ke_attrs e) [] id (ke_name e) [tNL] rest m); [reflexivity|reflexivity|exact Hattrs|exact Hm]. }
  unfold id_toks in *. destruct (ke_id e) as [u|].
  - cbn [app length] in Hn. rewrite !app_length in Hn. cbn [length] in Hn.
    do 4 (destruct n as [|n]; [lia|]).
    cbn [app body_loop tNL]. cbn [tok_eqb tok_tag N.eqb]. cbn -[body_loop str_eqb s_id s_name s_elementid s_string toks_of].
    rewrite Hfe, !str_eqb_refl. cbn [andb]. cbn -[body_loop str_eqb s_id s_name s_elementid s_string toks_of].
    rewrite Hfs. change (str_eqb s_name s_id) with false. cbn [andb]. rewrite !str_eqb_refl.
    apply Htail. rewrite !app_length. cbn [length]. lia.
  - cbn [app length] in Hn. rewrite !app_length in Hn. cbn [length] in Hn.
    do 2 (destruct n as [|n]; [lia|]).
    cbn [app body_loop tNL]. cbn [tok_eqb tok_tag N.eqb]. cbn -[body_loop str_eqb s_id s_name s_elementid s_string toks_of].
    rewrite Hfs. change (str_eqb s_name s_id) with false. cbn [andb]. rewrite !str_eqb_refl.
    apply Htail. rewrite !app_length. cbn [length]. lia.
Qed.

(** ** the document *)
Definition chunk (x : kelem) : tl := tNL :: toks_of (lex_elem x) ++ [tNL].
Lemma chunks_toks es : toks_of (flat_map (fun x => ([], LNl) :: lex_elem x ++ [([], LNl)]) es) = flat_map chunk es.
Proof.
  induction es as [|x es IH]; [reflexivity|]. cbn [flat_map]. rewrite toks_of_app, IH. f_equal.
  unfold chunk. change (([], LNl) :: lex_elem x ++ [([], LNl)]) with ([([], LNl)] ++ lex_elem x ++ [([], LNl)]).
  rewrite !toks_of_app. reflexivity.
Qed.
Lemma doc_toks e es : toks_of (lex_doc (e :: es)) = toks_of (lex_elem e) ++ tNL :: flat_map chunk es.
Proof. unfold lex_doc. rewrite !toks_of_app, chunks_toks. reflexivity. Qed.

Lemma doc_skip_nls : forall p n acc l, nls p = true ->
  doc_loop fold vtnames (length p + n) acc (p ++ l) = doc_loop fold vtnames n acc l.
Proof.
  induction p as [|[k v] p IH]; intros n acc l Hp; [reflexivity|].
  cbn [nls forallb fst] in Hp. apply andb_prop in Hp. destruct Hp as [H1 H2]. apply tok_eqb_eq in H1. subst k.
  cbn [length plus app doc_loop]. cbn [tok_eqb tok_tag N.eqb]. cbn -[doc_loop]. now apply IH.
Qed.

Lemma doc_elems : forall es e acc p n, nls p = true -> elem_ok T vtnames e = true ->
  forallb (elem_ok T vtnames) es = true ->
  (length (p ++ toks_of (lex_elem e) ++ tNL :: flat_map chunk es) <= n)%nat ->
  doc_loop fold vtnames n acc (p ++ toks_of (lex_elem e) ++ tNL :: flat_map chunk es) = Some (rev acc ++ e :: es).
Proof.
  induction es as [|e2 es IH]; intros e acc p n Hp He Hes Hn; rewrite elem_toks_rest in *;
    rewrite app_length in Hn; cbn [length] in Hn.
  - cbn [flat_map] in *. pose proof (body_toks_length e [tNL]) as Hbl. cbn [length] in Hbl.
    replace n with (length p + S (n - length p - 1))%nat by lia. rewrite doc_skip_nls by exact Hp.
    cbn [doc_loop]. cbn [tok_eqb tok_tag N.eqb]. cbn -[doc_loop body_loop body_toks].
    rewrite (body_elem e [tNL]); [|exact He|lia].
    destruct e as [ty id nm attrs]. cbn [ke_type ke_id ke_name ke_attrs].
    remember (n - length p - 1)%nat as m eqn:Em. destruct m as [|[|m]]; [lia|lia|].
    cbn. reflexivity.
  - cbn [forallb] in Hes. apply andb_prop in Hes. destruct Hes as [He2 Hes].
    pose proof (body_toks_length e (tNL :: flat_map chunk (e2 :: es))) as Hbl2. cbn [length] in Hbl2.
    replace n with (length p + S (n - length p - 1))%nat by lia. rewrite doc_skip_nls by exact Hp.
    cbn [doc_loop]. cbn [tok_eqb tok_tag N.eqb]. cbn -[doc_loop body_loop body_toks chunk flat_map].
    rewrite (body_elem e (tNL :: flat_map chunk (e2 :: es))); [|exact He|lia].
    destruct e as [ty id nm attrs]. cbn [ke_type ke_id ke_name ke_attrs].
    cbn [flat_map]. unfold chunk at 1. cbn [app]. rewrite <- app_assoc. cbn [app].
    change (tNL :: tNL :: toks_of (lex_elem e2) ++ tNL :: flat_map chunk es)
      with ([tNL; tNL] ++ toks_of (lex_elem e2) ++ tNL :: flat_map chunk es).
    rewrite (IH e2 ({| ke_type := ty; ke_id := id; ke_name := nm; ke_attrs := attrs |} :: acc) [tNL; tNL]);
      [cbn [rev]; now rewrite <- app_assoc|reflexivity|exact He2|exact Hes|].
    cbn [flat_map] in Hn, Hbl2. unfold chunk at 1 in Hbl2. cbn [app length] in Hbl2. rewrite <- app_assoc in Hbl2. cbn [app] in Hbl2.
    cbn [app length]. lia.
Qed.

Theorem parse_tokens_doc d : doc_ok T vtnames d = true -> parse_tokens fold vtnames (toks_of (lex_doc d)) = Some d.
Proof.
  intros H. unfold doc_ok in H. apply andb_prop in H. destruct H as [Hne Hall].
  destruct d as [|e es]; [discriminate|]. cbn [forallb] in Hall. apply andb_prop in Hall. destruct Hall as [He Hes].
  unfold parse_tokens. rewrite doc_toks.
  exact (doc_elems es e [] [] _ eq_refl He Hes (Nat.le_succ_diag_r _)).
Qed.
End Parse.

(** * Part 2d: the text round trip of the flat layout *)
Section Roundtrip.
Variable T : tables.
Variable o : opts.
Variable fold : str -> str.
Variable vtnames : list str.
Hypothesis HT : kv2_tables_ok T = true.
Hypothesis Ho : kv2_opts_ok o = true.
Hypothesis Hvt : vtnames_ok T fold vtnames = true.

Lemma forallb_flat_map' {A B} (f : B -> bool) (g : A -> list B) l :
  forallb f (flat_map g l) = forallb (fun x => forallb f (g x)) l.
Proof. induction l as [|x l IH]; [reflexivity|]. cbn [flat_map forallb]. now rewrite forallb_app, IH. Qed.

Lemma literals_ok :
  literal_ok T s_element = true /\ literal_ok T s_elementid = true /\ literal_ok T s_id = true /\
  literal_ok T s_name = true /\ literal_ok T s_string = true /\ literal_ok T [] = true.
Proof.
  pose proof Hvt as H. unfold vtnames_ok in H. repeat (apply andb_prop in H; destruct H as [H ?]).
  match goal with Hl : forallb (literal_ok T) _ = true |- _ => cbn [forallb] in Hl;
    repeat (apply andb_prop in Hl; destruct Hl as [? Hl]) end.
  repeat split; assumption.
Qed.

Lemma lex_ref_ok w it is_elem : blanks w = true -> item_ok T is_elem it = true ->
  forallb (lexeme_ok T) (lex_ref w it) = true.
Proof.
  destruct literals_ok as (Hel & _ & _ & _ & _ & Hnil). intros Hw Hit.
  destruct it as [s| |u]; cbn [lex_ref forallb]; unfold lexeme_ok; cbn [fst snd]; rewrite ?Hw; cbn [andb blanks forallb].
  - reflexivity.
  - unfold literal_ok in Hel, Hnil. now rewrite Hel, Hnil.
  - cbn [item_ok] in Hit. apply andb_prop in Hit. destruct Hit as [_ Hu]. unfold blank_free_uuid in Hu.
    apply andb_prop in Hu. destruct Hu as [Hu _]. unfold literal_ok in Hel, Hu. now rewrite Hel, Hu.
Qed.

Lemma lex_items_ok its is_elem : forallb (item_ok T is_elem) its = true -> forallb (lexeme_ok T) (lex_items its) = true.
Proof.
  induction its as [|it its IH]; intros H; [reflexivity|]. cbn [forallb] in H. apply andb_prop in H. destruct H as [Hit Hits].
  rewrite lex_items_cons, !forallb_app, (lex_ref_ok T2 it is_elem eq_refl Hit), (IH Hits). now destruct its.
Qed.

Lemma lex_attr_ok a : attr_ok T vtnames a = true -> forallb (lexeme_ok T) (lex_attr a) = true.
Proof.
  intros Hok. destruct (attr_parts T vtnames a Hok) as (Hmem & _ & Hitems & Hshape).
  pose proof (vt_facts T fold vtnames Hvt _ Hmem) as Hv. unfold vtname_ok in Hv.
  repeat (apply andb_prop in Hv; destruct Hv as [Hv ?]).
  destruct a as [name typ arr items]. cbn [ka_name ka_type ka_arr ka_items] in *. unfold lex_attr. cbn [ka_name ka_type ka_arr ka_items].
  destruct arr.
  - cbn [app forallb]. rewrite forallb_app, (lex_items_ok items _ Hitems). unfold lexeme_ok. cbn [fst snd forallb blanks andb].
    match goal with He : str_eqb (escape T false (typ ++ s_array)) (typ ++ s_array) = true |- _ => now rewrite He end.
  - destruct Hshape as [Hd|[it ->]]; [discriminate|]. cbn [forallb] in Hitems. apply andb_prop in Hitems. destruct Hitems as [Hit _].
    destruct (is_elem_type typ) eqn:Ee.
    + cbn [forallb]. rewrite forallb_app, (lex_ref_ok [SP] it true eq_refl Hit). reflexivity.
    + destruct it; cbn [item_ok negb] in Hit; try discriminate. unfold lexeme_ok. cbn [fst snd forallb blanks andb].
      match goal with He : str_eqb (escape T false typ) typ = true |- _ => now rewrite He end.
Qed.

Lemma lex_elem_ok e : elem_ok T vtnames e = true -> forallb (lexeme_ok T) (lex_elem e) = true.
Proof.
  destruct literals_ok as (Hel & Heid & Hid & Hnm & Hst & Hnil). unfold literal_ok in *.
  intros H. unfold elem_ok in H. apply andb_prop in H. destruct H as [Hu Hattrs].
  unfold lex_elem. rewrite !forallb_app, forallb_flat_map'.
  assert (Ha : forallb (fun x => forallb (lexeme_ok T) (lex_attr x)) (ke_attrs e) = true).
  { rewrite forallb_forall in Hattrs. apply forallb_forall. intros a Ha. apply lex_attr_ok. now apply Hattrs. }
  rewrite Ha. unfold lexeme_ok. cbn [fst snd forallb blanks andb]. rewrite Hnm, Hst. cbn [andb].
  destruct (ke_id e) as [u|]; [|reflexivity]. unfold blank_free_uuid in Hu. apply andb_prop in Hu. destruct Hu as [Hu _].
  unfold literal_ok in Hu. cbn [fst snd forallb blanks andb]. now rewrite Hid, Heid, Hu.
Qed.

Lemma lex_doc_ok d : doc_ok T vtnames d = true -> forallb (lexeme_ok T) (lex_doc d) = true.
Proof.
  intros H. unfold doc_ok in H. apply andb_prop in H. destruct H as [_ Hall]. destruct d as [|e es]; [reflexivity|].
  cbn [forallb] in Hall. apply andb_prop in Hall. destruct Hall as [He Hes].
  unfold lex_doc. rewrite !forallb_app, (lex_elem_ok e He), forallb_flat_map'. cbn [forallb andb].
  rewrite forallb_forall in Hes. apply forallb_forall. intros x Hx. cbn [forallb]. rewrite forallb_app, (lex_elem_ok x (Hes x Hx)). reflexivity.
Qed.

(** The text [export_kv2(flat=True)] writes for a document (after the header line), run through the tokenizer and
    the parser of [parse_kv2], gives back the document: element types, ids and names, attribute names (escaped:
    any string), order, type keywords, scalar / array shape, the value strings in order, NULL and UUID references. *)
Theorem kv2_flat_roundtrip_gen : forall d, doc_ok T vtnames d = true ->
  parse_text T o fold vtnames (render_doc T d) = Some d.
Proof.
  intros d Hd. unfold parse_text, render_doc.
  rewrite (tokenize_lexemes T o HT Ho (lex_doc d) (lex_doc_ok d Hd)).
  exact (parse_tokens_doc T fold vtnames Hvt d Hd).
Qed.

(** Attribute-line level, as a corollary for one-element documents: every attribute comes back. *)
Corollary kv2_tokens_roundtrip_gen : forall d, doc_ok T vtnames d = true ->
  tokenize T o (render_doc T d) = Some (toks_of (lex_doc d)).
Proof. intros d Hd. exact (tokenize_lexemes T o HT Ho (lex_doc d) (lex_doc_ok d Hd)). Qed.
End Roundtrip.

(** * Part 3: the element graph (fix-up pass) *)
Lemma last_index_none u : forall ids base, existsb (str_eqb u) ids = false -> last_index u ids base = None.
Proof.
  induction ids as [|x r IH]; intros base H; [reflexivity|]. cbn [existsb] in H. apply orb_false_iff in H. destruct H as [H1 H2].
  cbn [last_index]. now rewrite IH, H1.
Qed.
Lemma last_index_nth : forall ids i base, nodup_str ids = true -> (i < length ids)%nat ->
  last_index (nth i ids []) ids base = Some (base + i)%nat.
Proof.
  induction ids as [|x r IH]; intros i base Hn Hi; [cbn in Hi; lia|].
  cbn [nodup_str] in Hn. apply andb_prop in Hn. destruct Hn as [Hx Hr]. apply negb_true_iff in Hx.
  destruct i as [|i]; cbn [nth last_index].
  - rewrite (last_index_none x r (S base) Hx), str_eqb_refl. f_equal. lia.
  - cbn [length] in Hi. rewrite (IH i (S base) Hr) by lia. f_equal. lia.
Qed.

Lemma all_ids_flatten ids g : all_ids (map (flat_elem ids) g) = Some (map ge_id g).
Proof. induction g as [|e g IH]; [reflexivity|]. cbn [map all_ids flat_elem ke_id]. now rewrite IH. Qed.

(** The fix-up pass inverts the writer's replacement of element references by UUID text: sharing, cycles (a
    reference is an index, whatever it points to), NULL and stubs are kept. *)
Theorem link_flatten g : graph_ok g = true -> link (flatten g) = Some g.
Proof.
  intros H. unfold graph_ok in H. apply andb_prop in H. destruct H as [Hnd Hall].
  unfold link, flatten. rewrite all_ids_flatten. f_equal. set (ids := map ge_id g) in *.
  rewrite map_map. rewrite <- (map_id g) at 2. apply map_ext_in. intros e He.
  rewrite forallb_forall in Hall. specialize (Hall e He).
  destruct e as [ty id nm attrs]. cbn [flat_elem ke_type ke_id ke_name ke_attrs ge_type ge_id ge_name ge_attrs] in *.
  f_equal. rewrite map_map. rewrite <- (map_id attrs) at 2. apply map_ext_in. intros a Ha.
  rewrite forallb_forall in Hall. specialize (Hall a Ha).
  destruct a as [an at_ arr its]. unfold link_attr, flat_attr. cbn [ka_name ka_type ka_arr ka_items ga_name ga_type ga_arr ga_items] in *.
  f_equal. rewrite map_map. rewrite <- (map_id its) at 2. apply map_ext_in. intros it Hit.
  rewrite forallb_forall in Hall. specialize (Hall it Hit).
  destruct it as [s|[i| |u]]; cbn [flat_item link_item gitem_ok] in *; try reflexivity.
  - apply Nat.ltb_lt in Hall. now rewrite (last_index_nth ids i 0 Hnd Hall).
  - apply negb_true_iff in Hall. now rewrite (last_index_none u ids 0 Hall).
Qed.

(** Text and graph together: the flat-layout text of a graph, tokenized, parsed and linked, is the graph. *)
Theorem kv2_flat_graph_roundtrip_gen (T : tables) (o : opts) (fold : str -> str) (vtnames : list str) :
  kv2_tables_ok T = true -> kv2_opts_ok o = true -> vtnames_ok T fold vtnames = true ->
  forall g, graph_ok g = true -> doc_ok T vtnames (flatten g) = true ->
  match parse_text T o fold vtnames (render_doc T (flatten g)) with Some d => link d | None => None end = Some g.
Proof.
  intros HT Ho Hvt g Hg Hd. rewrite (kv2_flat_roundtrip_gen T o fold vtnames HT Ho Hvt _ Hd). now apply link_flatten.
Qed.

Example kv2_graph_example :
  graph_ok ex_gdoc && doc_ok pinned_tables pinned_vtnames (flatten ex_gdoc) = true.
Proof. vm_compute. reflexivity. Qed.
(** With a duplicated id a reference resolves to the later element: ids must be distinct. *)
Example kv2_duplicate_id_refuted :
  let g := [ {| ge_type := [65]; ge_id := [120]; ge_name := []; ge_attrs :=
                 [ {| ga_name := [114]; ga_type := s_element; ga_arr := false; ga_items := [GRef (GElem 0)] |} ] |};
             {| ge_type := [66]; ge_id := [120]; ge_name := []; ge_attrs := [] |} ] in
  graph_ok g = false /\ link (flatten g) <> Some g.
Proof. split; [reflexivity|vm_compute; discriminate]. Qed.

(** The premises are satisfiable (hand copy of the pinned tables), and the example document parses back by computation. *)
Example kv2_premises_example :
  kv2_tables_ok pinned_tables && kv2_opts_ok pinned_kv2_opts && vtnames_ok pinned_tables (fun s => s) pinned_vtnames &&
  doc_ok pinned_tables pinned_vtnames ex_kdoc = true.
Proof. vm_compute. reflexivity. Qed.
Example kv2_example_parses :
  parse_text pinned_tables pinned_kv2_opts (fun s => s) pinned_vtnames (render_doc pinned_tables ex_kdoc) = Some ex_kdoc.
Proof. vm_compute. reflexivity. Qed.
(** The escape condition matters: a name written without escape_text (as a raw lexeme) that contains a quote does not
    come back (the defect class of the unescaped attribute name, repaired in round 1). *)
Example kv2_raw_name_refuted :
  tokenize pinned_tables pinned_kv2_opts (render_lex pinned_tables [([], LRaw [97; 34; 98]); ([], LNl)])
  <> Some (toks_of [([], LRaw [97; 34; 98]); ([], LNl)]).
Proof. vm_compute. discriminate. Qed.
