(** C15 — model of the per-pixel VTF codecs of [srctools._py_vtf_readwrite].

    Every uncompressed [load_F]/[save_F] is, per pixel, a tuple of integer expressions over the bytes of the
    other representation: [save_F] gives [bpp] stored bytes as expressions over the channels r,g,b,a
    (variables 0..3); [load_F] gives the 4 channels as expressions over the stored bytes (variables 0..bpp-1).
    The slice-copy codecs ([data[2::4] = view_pix[0::4]] ...) are the special case "variable or constant".
    translate/c15_pixel.py regenerates these tuples from the Python source into Gen/PixelCodecs_gen.v.

    The expression language is exactly the subset used by the source:
    [&], [|], [<<], [>>] by literal amounts, [(x + y + z) // 3], and [A if c & 2^k else B].
    Python integers are unbounded, so [eval] is over [N] with no wrap-around.

    [sym] is a symbolic evaluator computing, for one bit of an expression, where that bit comes from
    (constant 0/1, or bit i of an atom).  It is proved sound in VtfPixelExprProofs.v, which turns statements
    quantified over ALL 2^32 pixels into closed boolean computations ([bits_equiv]) that the kernel runs.
    Executable definitions only; proofs are in VtfPixelExprProofs.v. *)
From Coq Require Import NArith List Bool.
Import ListNotations.
Open Scope N_scope.

Inductive expr :=
| EVar (v : nat)                           (* r,g,b,a = 0..3   or   stored byte k *)
| EConst (n : N)
| EAnd (a b : expr)
| EOr (a b : expr)
| EShl (a : expr) (k : N)
| EShr (a : expr) (k : N)
| ETest (c : expr) (k : N) (a b : expr)    (* [a if c & (1 << k) else b] *)
| EAvg3 (a b c : expr).                    (* [(a + b + c) // 3] *)

Definition env := list N.
Definition lookup (rho : env) (v : nat) : N := nth v rho 0.

Fixpoint eval (rho : env) (e : expr) : N :=
  match e with
  | EVar v => lookup rho v
  | EConst n => n
  | EAnd a b => N.land (eval rho a) (eval rho b)
  | EOr a b => N.lor (eval rho a) (eval rho b)
  | EShl a k => N.shiftl (eval rho a) k
  | EShr a k => N.shiftr (eval rho a) k
  | ETest c k a b => if N.testbit (eval rho c) k then eval rho a else eval rho b
  | EAvg3 a b c => (eval rho a + eval rho b + eval rho c) / 3
  end.

(** Substitution of a tuple of expressions for the variables (composition of two codec directions). *)
Fixpoint subst (s : list expr) (e : expr) : expr :=
  match e with
  | EVar v => nth v s (EConst 0)
  | EConst n => EConst n
  | EAnd a b => EAnd (subst s a) (subst s b)
  | EOr a b => EOr (subst s a) (subst s b)
  | EShl a k => EShl (subst s a) k
  | EShr a k => EShr (subst s a) k
  | ETest c k a b => ETest (subst s c) k (subst s a) (subst s b)
  | EAvg3 a b c => EAvg3 (subst s a) (subst s b) (subst s c)
  end.

Fixpoint expr_eqb (x y : expr) : bool :=
  match x, y with
  | EVar v, EVar w => Nat.eqb v w
  | EConst n, EConst m => N.eqb n m
  | EAnd a b, EAnd c d | EOr a b, EOr c d => expr_eqb a c && expr_eqb b d
  | EShl a k, EShl c l | EShr a k, EShr c l => expr_eqb a c && N.eqb k l
  | ETest c k a b, ETest c' k' a' b' => expr_eqb c c' && N.eqb k k' && expr_eqb a a' && expr_eqb b b'
  | EAvg3 a b c, EAvg3 a' b' c' => expr_eqb a a' && expr_eqb b b' && expr_eqb c c'
  | _, _ => false
  end.

(** All variables of [e] are below [n]. *)
Fixpoint vars_below (n : nat) (e : expr) : bool :=
  match e with
  | EVar v => Nat.ltb v n
  | EConst _ => true
  | EAnd a b | EOr a b => vars_below n a && vars_below n b
  | EShl a _ | EShr a _ => vars_below n a
  | ETest c _ a b => vars_below n c && vars_below n a && vars_below n b
  | EAvg3 a b c => vars_below n a && vars_below n b && vars_below n c
  end.

(** * Symbolic bits *)
Inductive sbit := SZ | SO | SB (e : expr) (i : N).   (* 0, 1, bit i of the value of e *)

Definition interp (rho : env) (s : sbit) : bool :=
  match s with SZ => false | SO => true | SB e i => N.testbit (eval rho e) i end.

Definition sbit_eqb (x y : sbit) : bool :=
  match x, y with
  | SZ, SZ | SO, SO => true
  | SB e i, SB f j => expr_eqb e f && N.eqb i j
  | _, _ => false
  end.

Definition s_and (x y : sbit) : option sbit :=
  match x, y with
  | SZ, _ | _, SZ => Some SZ
  | SO, s | s, SO => Some s
  | _, _ => if sbit_eqb x y then Some x else None
  end.

Definition s_or (x y : sbit) : option sbit :=
  match x, y with
  | SO, _ | _, SO => Some SO
  | SZ, s | s, SZ => Some s
  | _, _ => if sbit_eqb x y then Some x else None
  end.

(** Bit [i] of [e], assuming every variable holds a byte. [None]: not expressible (never for the codecs). *)
Fixpoint sym (e : expr) (i : N) : option sbit :=
  match e with
  | EVar v => Some (if i <? 8 then SB (EVar v) i else SZ)
  | EConst n => Some (if N.testbit n i then SO else SZ)
  | EAnd a b => match sym a i, sym b i with Some x, Some y => s_and x y | _, _ => None end
  | EOr a b => match sym a i, sym b i with Some x, Some y => s_or x y | _, _ => None end
  | EShl a k => if i <? k then Some SZ else sym a (i - k)
  | EShr a k => sym a (i + k)
  | ETest c k a b =>
      match sym c k with
      | Some SZ => sym b i
      | Some SO => sym a i
      | Some s => match sym a i, sym b i with
                  | Some x, Some y => if sbit_eqb x y then Some x
                                      else match x, y with SO, SZ => Some s | _, _ => None end
                  | _, _ => None
                  end
      | None => None
      end
  | EAvg3 a b c => if expr_eqb a b && expr_eqb b c then sym a i      (* (x + x + x) // 3 = x *)
                   else Some (SB (EAvg3 a b c) i)                   (* opaque atom *)
  end.

(** Every bit of [e] at an index >= [n] is zero (value < 2^n), for byte-valued variables. *)
Fixpoint zero_above (e : expr) (n : N) : bool :=
  match e with
  | EVar _ => 8 <=? n
  | EConst c => c <? 2 ^ n
  | EAnd a b => zero_above a n || zero_above b n
  | EOr a b => zero_above a n && zero_above b n
  | EShl a k => (k <=? n) && zero_above a (n - k)
  | EShr a k => zero_above a (n + k)
  | ETest _ _ a b => zero_above a n && zero_above b n
  | EAvg3 a b c => zero_above a n && zero_above b n && zero_above c n
  end.

Definition Nrange (n : nat) : list N := map N.of_nat (seq 0 n).

(** [e1] and [e2] have the same value for all byte-valued variables: same symbolic bit at every index
    below [W], no bits at or above [W]. *)
Definition bits_equiv (W : nat) (e1 e2 : expr) : bool :=
  forallb (fun i => match sym e1 i, sym e2 i with Some x, Some y => sbit_eqb x y | _, _ => false end) (Nrange W)
  && zero_above e1 (N.of_nat W) && zero_above e2 (N.of_nat W).

Fixpoint list_equiv (W : nat) (l1 l2 : list expr) : bool :=
  match l1, l2 with
  | [], [] => true
  | a :: r1, b :: r2 => bits_equiv W a b && list_equiv W r1 r2
  | _, _ => false
  end.

(** * Codecs *)
Record codec := { bpp : nat; save_e : list expr; load_e : list expr }.

Definition run (es : list expr) (rho : env) : list N := map (eval rho) es.
(** [comp outer inner]: first [inner], then [outer]. *)
Definition comp (outer inner : list expr) : list expr := map (subst inner) outer.

Definition bytes (l : list N) : Prop := Forall (fun x => x < 256) l.
Definition bytesb (l : list N) : bool := forallb (fun x => x <? 256) l.

Definition wf (c : codec) : bool :=
  Nat.eqb (length (save_e c)) (bpp c) && Nat.eqb (length (load_e c)) 4
  && forallb (vars_below 4) (save_e c) && forallb (vars_below (bpp c)) (load_e c).

Definition in_byte_range (es : list expr) : bool := forallb (fun e => zero_above e 8) es.

Definition WBITS : nat := 16.

(** "load after save is the quantisation [q]", with every stored value a legal byte. *)
Definition rt_ok (c : codec) (q : list expr) : bool :=
  wf c && in_byte_range (save_e c) && list_equiv WBITS (comp (load_e c) (save_e c)) q.

(** "save after load is [canon]" on stored bytes, every loaded channel a legal byte, and [canon] leaves what
    [save] produces unchanged; together: storing the loaded pixels again changes nothing. *)
Definition sf_ok (c : codec) (canon : list expr) : bool :=
  wf c && in_byte_range (save_e c) && in_byte_range (load_e c)
  && list_equiv WBITS (comp (save_e c) (load_e c)) canon
  && list_equiv WBITS (comp canon (save_e c)) (save_e c).

(** * Documented quantisations (the specification side) *)
Definition vR := EVar 0. Definition vG := EVar 1. Definition vB := EVar 2. Definition vA := EVar 3.

(** "packed by dropping LSBs" / "duplicating the MSB to fill the remaining space": keep the top [n] bits
    of the byte and replicate them into the vacated low bits. *)
Definition quant (n : N) (x : N) : N :=
  let t := N.shiftl (N.shiftr x (8 - n)) (8 - n) in N.lor t (N.shiftr t n).
Definition quant_e (n : N) (x : expr) : expr :=
  let t := EShl (EShr x (8 - n)) (8 - n) in EOr t (EShr t n).
(** one bit of alpha: 255 when the top bit is set, else 0 *)
Definition alpha1 (x : N) : N := if N.testbit x 7 then 255 else 0.
Definition alpha1_e (x : expr) : expr := ETest x 7 (EConst 255) (EConst 0).
Definition grey (r g b : N) : N := (r + g + b) / 3.
Definition grey_e : expr := EAvg3 vR vG vB.

Definition spec_565 : list expr := [quant_e 5 vR; quant_e 6 vG; quant_e 5 vB; EConst 255].
Definition spec_565_rb_swapped : list expr := [quant_e 5 vB; quant_e 6 vG; quant_e 5 vR; EConst 255].
Definition spec_4444 : list expr := [quant_e 4 vR; quant_e 4 vG; quant_e 4 vB; quant_e 4 vA].
Definition spec_5551 : list expr := [quant_e 5 vR; quant_e 5 vG; quant_e 5 vB; alpha1_e vA].
Definition spec_x5551 : list expr := [quant_e 5 vR; quant_e 5 vG; quant_e 5 vB; EConst 255].
Definition spec_i8 : list expr := [grey_e; grey_e; grey_e; EConst 255].
Definition spec_ia88 : list expr := [grey_e; grey_e; grey_e; vA].
(** 8 bits per used channel: the used channels unchanged, the others at their documented defaults *)
Definition spec_rgba : list expr := [vR; vG; vB; vA].
Definition spec_rgb : list expr := [vR; vG; vB; EConst 255].
Definition spec_a8 : list expr := [EConst 0; EConst 0; EConst 0; vA].
Definition spec_uv88 : list expr := [vR; vG; EConst 0; EConst 255].

(** canonical stored forms *)
Definition ident (n : nat) : list expr := map EVar (seq 0 n).
Definition canon_x5551 : list expr := [EVar 0; EAnd (EVar 1) (EConst 127)].        (* the X bit is written as 0 *)
Definition canon_bgrx8888 : list expr := [EVar 0; EVar 1; EVar 2; EConst 0].       (* the X byte is written as 0 *)

(** * The 565 codec exactly as in the pinned tree (for the refutation witness; independent of Gen) *)
Definition upsample_p (bits : N) (d : expr) : expr := EOr d (EShr d bits).
Definition pinned_decomp565 (a b : expr) : expr * expr * expr :=
  (upsample_p 5 (EShl (EAnd a (EConst 31)) 3),
   upsample_p 6 (EOr (EShl (EAnd b (EConst 7)) 5) (EShr (EAnd a (EConst 224)) 3)),
   upsample_p 5 (EAnd b (EConst 248))).
Definition pinned_compress565 (r g b : expr) : expr * expr :=
  (EOr (EAnd (EShl g 3) (EConst 224)) (EShr b 3), EOr (EAnd r (EConst 248)) (EShr g 5)).
Definition pinned_rgb565 : codec :=
  {| bpp := 2;
     save_e := let '(x, y) := pinned_compress565 vR vG vB in [x; y];
     load_e := let '(r, g, b) := pinned_decomp565 (EVar 0) (EVar 1) in [r; g; b; EConst 255] |}.
Definition pinned_bgr565 : codec :=
  {| bpp := 2;
     save_e := let '(x, y) := pinned_compress565 vB vG vR in [x; y];
     load_e := let '(b, g, r) := pinned_decomp565 (EVar 0) (EVar 1) in [r; g; b; EConst 255] |}.
