(** C06, round 3: the object level ("vmf_lite").  For every class of the VMF object graph, Gen/VmfLite_gen.v lists
    (translate/c06_lite.py) the keyvalue lines its export method writes with the attributes each value is computed from,
    and the keys its parse method looks up with the attributes each looked-up value flows into (through locals, containers,
    the constructor).  Definitions only; proofs are in Fmt/VmfLiteProofs.v. *)
From Coq Require Import List String Bool.
Import ListNotations.
Open Scope string_scope.

Record lentry := mk_le {
  le_block : string;         (* enclosing block *)
  le_key : string;           (* literal text of the key, lower case *)
  le_dyn : bool;             (* the key has a computed part (row<y>, replace<NN>, arbitrary entity keys): a key family *)
  le_attrs : list string     (* writer: attributes the value is computed from; reader: attributes the value flows into *)
}.

Record liteclass := mk_liteclass {
  lc_name : string;
  lc_written : list lentry;
  lc_read : list lentry;
  lc_kids_written : list string;   (* attributes holding child objects that are exported by their own export method *)
  lc_kids_read : list string       (* attributes filled with objects built by another parse method *)
}.

Definition smem (a : string) (l : list string) : bool := existsb (String.eqb a) l.
Definition subset (l1 l2 : list string) : bool := forallb (fun a => smem a l2) l1.
Definition same_key (b k : string) (e : lentry) : bool := (String.eqb (le_block e) b && String.eqb (le_key e) k)%bool.
Definition find_entry (b k : string) (l : list lentry) : option lentry := find (same_key b k) l.

Fixpoint keys_distinct (l : list lentry) : bool :=
  match l with
  | [] => true
  | e :: r => (negb (existsb (same_key (le_block e) (le_key e)) r) && keys_distinct r)%bool
  end.

(** A written line with a literal key is paired when the reader looks that key up in the same block and the value flows
    into exactly the attributes it was computed from. *)
Definition entry_paired (rd : list lentry) (w : lentry) : bool :=
  (le_dyn w ||
   match le_attrs w with
   | [] => true
   | _ => match find_entry (le_block w) (le_key w) rd with
          | Some r => negb (le_dyn r) && subset (le_attrs w) (le_attrs r) && subset (le_attrs r) (le_attrs w)
          | None => false
          end
   end)%bool.

Definition lite_paired (c : liteclass) : bool :=
  (forallb (entry_paired (lc_read c)) (lc_written c) && keys_distinct (lc_written c)
   && negb (Nat.eqb (List.length (lc_written c)) 0))%bool.

(** Every attribute the reader fills (from a key or with child objects) is written by the writer (under some key, or by
    exporting the child objects): no attribute is forgotten by the writer. *)
Definition lite_attrs_written (c : liteclass) : bool :=
  subset (flat_map le_attrs (lc_read c) ++ lc_kids_read c) (flat_map le_attrs (lc_written c) ++ lc_kids_written c).

(** Model of one block level: the writer emits one line per literal entry; the text of a line is any function [enc] of the
    entry and of the object restricted to the entry's attributes ([o] is only consulted through [le_attrs]). *)
Section Model.
  Variable V T : Type.
  Definition obj := string -> V.
  Variable enc : lentry -> list V -> T.

  Definition line_of (o : obj) (w : lentry) : (string * string) * T :=
    ((le_block w, le_key w), enc w (map o (le_attrs w))).
  Definition export_lines (c : liteclass) (o : obj) : list ((string * string) * T) :=
    map (line_of o) (filter (fun w => negb (le_dyn w)) (lc_written c)).

  Fixpoint llookup (b k : string) (l : list ((string * string) * T)) : option T :=
    match l with
    | [] => None
    | ((b', k'), t) :: r => if (String.eqb b' b && String.eqb k' k)%bool then Some t else llookup b k r
    end.
End Model.
