(** [VPK.load_dirfile] as a program read from the source (Gen/VpkDirProg_gen.v [g_rprog], translate/c13_dirprog.py): the statements after
    the directory file is opened, in order — header fields, the two checks, the version-2 fields that are read and ignored, the mark
    `header_len = tell() + tree_length`, three nested loops over `iter_nullstr`, what the innermost body does with an entry (unpack,
    the two sentinel rewrites, the terminator check, the preload read inside the FileInfo construction), the early exit after an
    extension block, footer_data.  [rexec] runs such a program on the bytes of a file; VpkDirReadProofs.v shows that every program
    accepted by [rprog_ok] is [dec_file_v] of Fmt/VpkDirV2.v (hence [dec_file] of the round-trip theorem on version-1 files) on every
    input, well-formed or not. *)
From Coq Require Import List NArith Bool.
From SV Require Import Fmt.VpkDir Fmt.VpkDirProg.
Import ListNotations.
Open Scope N_scope.

Inductive rhfield := RSig | RVer | RLen.
Inductive rop :=
| RHdr (fs : list (rhfield * N))       (* a, b, c = struct_read(fmt, file) *)
| RCheckSig                            (* if vpk_sig != VPK_SIG: raise *)
| RCheckVer (vs : list N)              (* if version not in vs: raise *)
| RSetVer                              (* self.version = version *)
| RSkipV2 (minv : N) (ws : list N)     (* if version >= minv: struct_read(fmt, file), values unused *)
| RMark                                (* header_len = file.tell() + tree_length *)
| RExitIfOneLeft                       (* if file.tell() + 1 == header_len: file.read(1); break *)
| RFooter.                             (* self.footer_data = file.read() *)
Inductive fop :=
| FEntry (fs : list (fval * N))        (* crc, ... = entry.unpack(file.read(entry.size)) *)
| FIdxSentinel                         (* if arch_ind == DIR_ARCH_INDEX: arch_ind = None *)
| FZeroLen                             (* if arch_len == 0: offset = 0 *)
| FCheckTerm                           (* if end != 0xffff: raise *)
| FStore.                              (* dir_dict[file] = FileInfo(self, directory, file, ext, crc, arch_ind, offset, arch_len, file.read(index_len)) *)

Record rprog := mkRProg {
  r_before : list rop;
  r_nest_ok : bool;      (* the loops read ext, folder, file name with iter_nullstr(file) in this nesting, and the entry is stored under [ext][folder][name] *)
  r_ext_pre : list rop; r_dir_pre : list rop;
  r_file_body : list fop;
  r_dir_post : list rop; r_ext_post : list rop;
  r_after : list rop }.

Record rst := mkR { r_rest : bytes; r_sig : N; r_ver : N; r_tlen : N; r_flen : N; r_acc : list (key * info); r_foot : bytes;
                    r_break : bool; r_version : N }.
Definition upd (s : rst) (acc : list (key * info)) (rest : bytes) : rst :=
  mkR rest (r_sig s) (r_ver s) (r_tlen s) (r_flen s) acc (r_foot s) (r_break s) (r_version s).

Record frame := mkFr { f_rest : bytes; f_crc : N; f_plen : N; f_ai : N; f_off : N; f_alen : N; f_term : N; f_idx : option N; f_out : option info }.

Definition rdw (w : N) (bs : bytes) : option (N * bytes) := if w =? 4 then rd32 bs else if w =? 2 then rd16 bs else None.

Section exec.
  Variable c : dcfg.

  Fixpoint rhdr (fs : list (rhfield * N)) (s : rst) : option rst :=
    match fs with
    | [] => Some s
    | (f, w) :: r =>
        match rdw w (r_rest s) with
        | None => None
        | Some (v, rest) =>
            rhdr r (match f with
                    | RSig => mkR rest v (r_ver s) (r_tlen s) (r_flen s) (r_acc s) (r_foot s) (r_break s) (r_version s)
                    | RVer => mkR rest (r_sig s) v (r_tlen s) (r_flen s) (r_acc s) (r_foot s) (r_break s) (r_version s)
                    | RLen => mkR rest (r_sig s) (r_ver s) v (r_flen s) (r_acc s) (r_foot s) (r_break s) (r_version s)
                    end)
        end
    end.
  Fixpoint rskip (ws : list N) (bs : bytes) : option bytes :=
    match ws with [] => Some bs | w :: r => match rdw w bs with Some (_, rest) => rskip r rest | None => None end end.

  Definition rop_step (s : rst) (o : rop) : option rst :=
    match o with
    | RHdr fs => rhdr fs s
    | RCheckSig => if r_sig s =? c_sig c then Some s else None
    | RCheckVer vs => if existsb (N.eqb (r_ver s)) vs then Some s else None
    | RSetVer => Some (mkR (r_rest s) (r_sig s) (r_ver s) (r_tlen s) (r_flen s) (r_acc s) (r_foot s) (r_break s) (r_ver s))
    | RSkipV2 minv ws => if minv <=? r_ver s then match rskip ws (r_rest s) with Some rest => Some (upd s (r_acc s) rest) | None => None end else Some s
    | RMark => Some (mkR (r_rest s) (r_sig s) (r_ver s) (r_tlen s) (len (r_rest s)) (r_acc s) (r_foot s) (r_break s) (r_version s))
      (* file.tell() + 1 == header_len, with header_len = (position at the mark) + tree_length: exactly one byte of the tree is left *)
    | RExitIfOneLeft => if len (r_rest s) + r_tlen s =? r_flen s + 1
                        then Some (mkR (tl (r_rest s)) (r_sig s) (r_ver s) (r_tlen s) (r_flen s) (r_acc s) (r_foot s) true (r_version s))
                        else Some s
    | RFooter => Some (mkR [] (r_sig s) (r_ver s) (r_tlen s) (r_flen s) (r_acc s) (r_rest s) (r_break s) (r_version s))
    end.
  Fixpoint orun (ops : list rop) (s : rst) : option rst :=
    match ops with [] => Some s | o :: r => match rop_step s o with Some s' => orun r s' | None => None end end.

  Fixpoint fentry (fs : list (fval * N)) (fr : frame) : option frame :=
    match fs with
    | [] => Some fr
    | (f, w) :: r =>
        match rdw w (f_rest fr) with
        | None => None
        | Some (v, rest) =>
            fentry r (match f with
                      | ECrc => mkFr rest v (f_plen fr) (f_ai fr) (f_off fr) (f_alen fr) (f_term fr) (f_idx fr) (f_out fr)
                      | EPreLen => mkFr rest (f_crc fr) v (f_ai fr) (f_off fr) (f_alen fr) (f_term fr) (f_idx fr) (f_out fr)
                      | EIdx => mkFr rest (f_crc fr) (f_plen fr) v (f_off fr) (f_alen fr) (f_term fr) (Some v) (f_out fr)
                      | EOff => mkFr rest (f_crc fr) (f_plen fr) (f_ai fr) v (f_alen fr) (f_term fr) (f_idx fr) (f_out fr)
                      | EArchLen => mkFr rest (f_crc fr) (f_plen fr) (f_ai fr) (f_off fr) v (f_term fr) (f_idx fr) (f_out fr)
                      | ETerm => mkFr rest (f_crc fr) (f_plen fr) (f_ai fr) (f_off fr) (f_alen fr) v (f_idx fr) (f_out fr)
                      end)
        end
    end.
  Definition fop_step (fr : frame) (o : fop) : option frame :=
    match o with
    | FEntry fs => fentry fs fr
    | FIdxSentinel => Some (mkFr (f_rest fr) (f_crc fr) (f_plen fr) (f_ai fr) (f_off fr) (f_alen fr) (f_term fr)
                                 (if f_ai fr =? c_dir_index c then None else f_idx fr) (f_out fr))
    | FZeroLen => Some (mkFr (f_rest fr) (f_crc fr) (f_plen fr) (f_ai fr) (if f_alen fr =? 0 then 0 else f_off fr) (f_alen fr) (f_term fr) (f_idx fr) (f_out fr))
    | FCheckTerm => if f_term fr =? c_term c then Some fr else None
    | FStore => Some (mkFr (skipn (N.to_nat (f_plen fr)) (f_rest fr)) (f_crc fr) (f_plen fr) (f_ai fr) (f_off fr) (f_alen fr) (f_term fr) (f_idx fr)
                           (Some (mkInfo (f_crc fr) (firstn (N.to_nat (f_plen fr)) (f_rest fr)) (f_idx fr) (f_off fr) (f_alen fr))))
    end.
  Fixpoint frun (ops : list fop) (fr : frame) : option frame :=
    match ops with [] => Some fr | o :: r => match fop_step fr o with Some fr' => frun r fr' | None => None end end.
  Definition frame0 (rest : bytes) : frame := mkFr rest 0 0 0 0 0 0 None None.

  Section loops.
    Variable p : rprog.

    Fixpoint rfiles (fuel : nat) (ext dir : bytes) (s : rst) : option rst :=
      match fuel with O => None | S f =>
        match next_str (r_rest s) with
        | None => None
        | Some (None, r) => Some (upd s (r_acc s) r)
        | Some (Some name, r) =>
            match frun (r_file_body p) (frame0 r) with
            | None => None
            | Some fr => match f_out fr with
                         | None => None      (* an iteration that stores nothing: outside what the interpreter follows *)
                         | Some i => rfiles f ext dir (upd s (r_acc s ++ [((ext, dir, name), i)]) (f_rest fr))
                         end
            end
        end
      end.

    Fixpoint rdirs (fuel : nat) (ext : bytes) (s : rst) : option rst :=
      match fuel with O => None | S f =>
        match next_str (r_rest s) with
        | None => None
        | Some (None, r) => Some (upd s (r_acc s) r)
        | Some (Some dir, r) =>
            obind (orun (r_dir_pre p) (upd s (r_acc s) r)) (fun s1 =>
            obind (rfiles (S (length (r_rest s1))) ext dir s1) (fun s2 =>
            obind (orun (r_dir_post p) s2) (fun s3 => rdirs f ext s3)))
        end
      end.

    (** `break` (set by RExitIfOneLeft) leaves the extension loop; the interpreter gives it this meaning in [r_ext_post] only *)
    Fixpoint rexts (fuel : nat) (s : rst) : option rst :=
      match fuel with O => None | S f =>
        match next_str (r_rest s) with
        | None => None
        | Some (None, r) => Some (upd s (r_acc s) r)
        | Some (Some ext, r) =>
            obind (orun (r_ext_pre p) (upd s (r_acc s) r)) (fun s1 =>
            obind (rdirs (S (length (r_rest s1))) ext s1) (fun s2 =>
            obind (orun (r_ext_post p) s2) (fun s3 =>
            if r_break s3 then Some (mkR (r_rest s3) (r_sig s3) (r_ver s3) (r_tlen s3) (r_flen s3) (r_acc s3) (r_foot s3) false (r_version s3))
            else rexts f s3)))
        end
      end.

    (** (VPK.version, entries in file order, footer_data); [None] = load_dirfile raises *)
    Definition rexec (bs : bytes) : option (N * list (key * info) * bytes) :=
      obind (orun (r_before p) (mkR bs 0 0 0 0 [] [] false 1)) (fun s1 =>
      obind (rexts (S (length (r_rest s1))) s1) (fun s2 =>
      obind (orun (r_after p) s2) (fun s3 => Some (r_version s3, r_acc s3, r_foot s3)))).
  End loops.
End exec.

Definition rprog_pinned : rprog :=
  mkRProg [RHdr [(RSig, 4); (RVer, 4); (RLen, 4)]; RCheckSig; RCheckVer [1; 2]; RSetVer; RSkipV2 2 [4; 4; 4; 4]; RMark] true
          [] []
          [FEntry entry_fields_pinned; FIdxSentinel; FZeroLen; FCheckTerm; FStore]
          [] [RExitIfOneLeft]
          [RFooter].

Definition rhfield_eq_dec (a b : rhfield) : {a = b} + {a <> b}. Proof. decide equality. Defined.
Definition rop_eq_dec (a b : rop) : {a = b} + {a <> b}.
Proof.
  decide equality; try apply N.eq_dec; try (apply list_eq_dec; apply N.eq_dec);
    apply list_eq_dec; intros [x1 n1] [x2 n2]; decide equality; try apply N.eq_dec; apply rhfield_eq_dec.
Defined.
Definition fop_eq_dec (a b : fop) : {a = b} + {a <> b}.
Proof. decide equality. apply list_eq_dec; intros [x1 n1] [x2 n2]; decide equality; try apply N.eq_dec; apply fval_eq_dec. Defined.
Definition rprog_eq_dec (a b : rprog) : {a = b} + {a <> b}.
Proof. decide equality; try apply Bool.bool_dec; try (apply list_eq_dec; apply rop_eq_dec); apply list_eq_dec; apply fop_eq_dec. Defined.
Definition rprog_ok (p : rprog) : bool := if rprog_eq_dec p rprog_pinned then true else false.

(** nearby wrong shapes *)
(* the version-2 fields are not skipped (own mutation N7 of round 2 seeks back instead) *)
Definition rprog_no_v2_skip : rprog :=
  mkRProg [RHdr [(RSig, 4); (RVer, 4); (RLen, 4)]; RCheckSig; RCheckVer [1; 2]; RSetVer; RMark] true [] [] (r_file_body rprog_pinned) [] [RExitIfOneLeft] [RFooter].
(* header_len taken before the version-2 fields are read *)
Definition rprog_mark_before_v2 : rprog :=
  mkRProg [RHdr [(RSig, 4); (RVer, 4); (RLen, 4)]; RCheckSig; RCheckVer [1; 2]; RSetVer; RMark; RSkipV2 2 [4; 4; 4; 4]] true [] [] (r_file_body rprog_pinned) [] [RExitIfOneLeft] [RFooter].
(* the sentinel rewrite of the archive index forgotten *)
Definition rprog_no_idx_sentinel : rprog :=
  mkRProg (r_before rprog_pinned) true [] [] [FEntry entry_fields_pinned; FZeroLen; FCheckTerm; FStore] [] [RExitIfOneLeft] [RFooter].
(* the early exit forgotten: harmless for files write_dirfile produces (the loop ends at the final NUL), kept as an accepted-by-meaning example *)
Definition rprog_no_early_exit : rprog :=
  mkRProg (r_before rprog_pinned) true [] [] (r_file_body rprog_pinned) [] [] [RFooter].
