(** C06, round 4: the composed statement of the property over arbitrary generated objects (proof; the statement is
    repeated in Props/C06.v as [c06_property]).  Axiom-free. *)
From Coq Require Import NArith ZArith List String Bool.
From SV Require Import KV.KvBase KV.KvLex KV.KvParse KV.KvSym KV.KvRoundtrip.
From SV Require Import Fmt.VmfText Fmt.VmfTextProofs Fmt.VmfBlocks Fmt.VmfBlocksProofs.
From SV Require Import Fmt.VmfLite Fmt.VmfLiteProofs Fmt.VmfIds Fmt.VmfIdsProofs Fmt.VmfTree Fmt.VmfTreeProofs Fmt.VmfSets Fmt.VmfSetsProofs
  Fmt.VmfViewport Fmt.VmfViewportProofs.
Import ListNotations.

Lemma whole_property :
  forall nums progs (P : parsecfg) (ctbl : list liteclass) classes mans sites (kinds : list string) loops tiers vtbl vinv
         (V T : Type) (dflt : V) (enc : lentry -> list V -> T) (dec : lentry -> T -> V),
  table_ok nums progs = true -> pcfg_ok P = true ->
  codecs_invert V T enc dec ctbl ->
  (forall k, In k kinds -> kind_ok classes mans sites k = true) ->
  member_loops_ok loops = true ->
  vp_ok tiers vtbl vinv = true ->
  (forall fuel fn e text kvs flag_on, env_ok nums e ->
     run (fun_lookup progs) fuel (fun_lookup progs fn) [] e = Some (text, kvs) -> doc_names_ok kvs = true ->
     parse_kv P vmf_E flag_on text = POk kvs)
  /\ (forall x : otree V, wf V ctbl x ->
        parse_t V T dflt dec ctbl (export_t V T dflt enc ctbl x) = x /\
        export_t V T dflt enc ctbl (parse_t V T dflt dec ctbl (export_t V T dflt enc ctbl x)) = export_t V T dflt enc ctbl x)
  /\ (forall k, In k kinds -> exists m p, In m mans /\ im_attr m = k /\ assoc_s (im_preserve m) classes = Some p /\
        forall d o, (0 <= d)%Z -> id_get p o d = AKeep)
  /\ (forall l, In l loops -> ml_sorted l = true) /\
     (forall s1 s2 : list Z, NoDup s1 -> NoDup s2 -> same_set s1 s2 -> write_members true s1 = write_members true s2)
  /\ (forall t1 r, tiers = t1 :: r -> forall a u v, in_tier t1 u = false -> in_tier t1 v = false ->
        vp_read tiers vinv (vp_write vtbl a u v) = Some (a, u, v)).
Proof.
  intros nums progs P ctbl classes mans sites kinds loops tiers vtbl vinv V T dflt enc dec Ht Hp Hc Hk Hl Hv.
  split; [intros; eapply table_text_parses; eauto|].
  split; [intros x Hx; split; [apply tree_roundtrip; assumption|apply tree_fixed_point; assumption]|].
  split.
  { intros k Hin. destruct (kind_ok_sound classes mans sites k (Hk k Hin)) as [m [p [H1 [H2 [H3 [H4 _]]]]]]. exists m, p. auto. }
  split; [apply member_loops_ok_sound; exact Hl|].
  split; [exact members_canonical|].
  intros t1 r E a u v Hu Hv'. eapply vp_roundtrip; eauto.
Qed.
