(** C15 — proofs about the frame order and the side lists (Fmt/VtfSides.v). *)
From Coq Require Import ZArith NArith List Bool Arith Lia.
From SV Require Import Fmt.VtfLayout Fmt.VtfContainer Fmt.VtfContainerProofs Fmt.VtfSides.
Import ListNotations.
Local Open Scope nat_scope.

Lemma lvar_eqb_eq : forall a b, lvar_eqb a b = true -> a = b.
Proof. destruct a, b; cbn; intros; congruence. Qed.
Lemma lorder_eqb_eq : forall a b, lorder_eqb a b = true -> a = b.
Proof.
  induction a as [|x a IH]; destruct b as [|y b]; cbn; intros H; try discriminate; [reflexivity|].
  apply andb_prop in H. destruct H as [H1 H2]. apply lvar_eqb_eq in H1. apply IH in H2. congruence.
Qed.

(** save() and read() walk the same sides, whatever version the object was made for and whatever version is written. *)
Theorem sides_agree : forall c, sides_ok c = true ->
  forall envmap object written depth, save_sides c envmap object written depth = read_sides c envmap written depth.
Proof.
  intros c H envmap object written depth. unfold sides_ok in H. apply andb_prop in H. destruct H as [H _].
  unfold save_sides, read_sides. destruct (sd_save c); [|discriminate]. destruct (sd_read c); reflexivity.
Qed.

Lemma Forall2_map_r : forall (A B C : Type) (P : A -> C -> Prop) (f : B -> C) (la : list A) (lb : list B),
  Forall2 P la (map f lb) -> Forall2 (fun a b => P a (f b)) la lb.
Proof.
  intros A B C P f la lb. revert la. induction lb as [|b lb IH]; intros la H; inversion H; subst; constructor; auto.
Qed.

(** Every frame of a written file is read back: if the two loop nests have the same order and the side list is taken
    from the version written, then for every (frame, side, mipmap) read() visits, the bytes at the offset it records,
    of the size it computes for that level, are exactly the bytes save() produced for that key - for any object
    version, written version, number of frames / levels, depth, cubemap or not, any contents and any prefix
    (header, resources, thumbnail). *)
Theorem written_frames_read_back : forall c so ro, sides_ok c = true -> lorder_eqb so ro = true ->
  forall envmap object written depth mips frames (content : key -> list N) (size : nat -> nat) (pre : list N),
    (forall k, List.length (content k) = size (k_mip k)) ->
    Forall (fun ok => slice (pre ++ written_image so mips frames (save_sides c envmap object written depth) content)
                            (fst ok) (size (k_mip (snd ok))) = content (snd ok))
           (read_table ro mips frames (read_sides c envmap written depth) size (List.length pre)).
Proof.
  intros c so ro Hc Ho envmap object written depth mips frames content size pre Hsz.
  apply lorder_eqb_eq in Ho. subst ro. rewrite (sides_agree c Hc). unfold written_image, read_table.
  set (ks := walk so mips frames (read_sides c envmap written depth) key0).
  pose proof (frames_read_back (map content ks) pre) as H.
  rewrite map_map in H.
  replace (map (fun x => List.length (content x)) ks) with (map (fun k => size (k_mip k)) ks) in H
    by (apply map_ext; intros; symmetry; apply Hsz).
  apply Forall2_map_r in H.
  revert H. generalize (offsets (List.length pre) (map (fun k => size (k_mip k)) ks)).
  generalize (pre ++ List.concat (map content ks)). intros img offs H.
  induction H as [|o k offs' ks' Hk _ IH]; cbn [combine]; constructor; auto.
  cbn [fst snd]. rewrite <- Hsz. exact Hk.
Qed.

(** the good order visits every key of the ranges *)
Theorem good_order_covers : forall mips frames sides f s m, f < frames -> In s sides -> m < mips ->
  In {| k_frame := f; k_side := s; k_mip := m |} (walk good_order mips frames sides key0).
Proof.
  intros mips frames sides f s m Hf Hs Hm. unfold good_order. cbn [walk].
  apply in_flat_map. exists m. split; [apply in_rev; rewrite rev_involutive; apply in_seq; lia|].
  apply in_flat_map. exists f. split; [apply in_seq; lia|].
  apply in_flat_map. exists s. split; [exact Hs|]. cbn. left. reflexivity.
Qed.

Example sides_ok_inhabited : sides_ok good_sidescfg = true /\ sphere_rule_ok good_sidescfg = true
  /\ save_sides good_sidescfg true 4 5 1 = [0; 1; 2; 3; 4; 5] /\ save_sides good_sidescfg true 5 4 1 = [0; 1; 2; 3; 4; 5; 6].
Proof. vm_compute. repeat split; reflexivity. Qed.

(** toy contents: the block of key (f, s, m) is the single byte 100 f + 10 s + m *)
Definition toy_content (k : key) : list N := [N.of_nat (100 * k_frame k + 10 * k_side k + k_mip k)].
Definition what_read_gets (so ro : list lvar) (c : sidescfg) (object written : Z) (frames : nat) : list (key * list N) :=
  map (fun ok => (snd ok, slice (written_image so 1 frames (save_sides c true object written 1) toy_content) (fst ok) 1))
      (read_table ro 1 frames (read_sides c true written 1) (fun _ => 1) 0).

(** the tree before the repair (side list of the OBJECT's version): a 7.4 cubemap with two frames written as 7.5 -
    read() finds the sphere map of frame 0 (byte 60) where it expects side 0 of frame 1 (byte 100) *)
Theorem object_version_sides_refuted :
  sides_ok pinned_sidescfg = false
  /\ nth_error (what_read_gets good_order good_order pinned_sidescfg 4 5 2) 6
     = Some ({| k_frame := 1; k_side := 0; k_mip := 0 |}, [60%N]).
Proof. vm_compute. split; reflexivity. Qed.

(** read() walking sides in the outer loop and frames in the inner one (the shape of a seeded fault) while save() walks
    frames outside: with two frames, side 1 of frame 0 is handed the block of side 0 of frame 1 *)
Theorem face_major_read_refuted :
  lorder_eqb good_order [VMipRev; VSide; VFrame] = false
  /\ nth_error (what_read_gets good_order [VMipRev; VSide; VFrame] good_sidescfg 5 5 2) 1
     = Some ({| k_frame := 1; k_side := 0; k_mip := 0 |}, [10%N]).
Proof. vm_compute. split; reflexivity. Qed.
