From Coq Require Import NArith List Bool Lia.
From SV Require Import Fmt.VmfTok.
Import ListNotations.
Open Scope N_scope.

Lemma plain_not_ws c : tk_plain c = true -> tk_ws c = false.
Proof. unfold tk_plain. intros H. apply negb_true_iff in H. apply orb_false_iff in H. destruct H as [H _]. apply orb_false_iff in H. tauto. Qed.
Lemma plain_not_open c : tk_plain c = true -> is_open c = false.
Proof. unfold tk_plain. intros H. apply negb_true_iff in H. apply orb_false_iff in H. destruct H as [H _]. apply orb_false_iff in H. tauto. Qed.
Lemma plain_not_close c : tk_plain c = true -> is_close c = false.
Proof. unfold tk_plain. intros H. apply negb_true_iff in H. apply orb_false_iff in H. tauto. Qed.

Lemma tok_ok_inv t : tok_ok t = true -> t <> [] /\ forallb tk_plain t = true.
Proof. unfold tok_ok. intros H. apply andb_true_iff in H. destruct H as [H1 H2]. split; [|exact H2]. destruct t; [discriminate|congruence]. Qed.

Definition nows (t : list N) : bool := forallb (fun c => negb (tk_ws c)) t.
Lemma plain_nows t : forallb tk_plain t = true -> nows t = true.
Proof. unfold nows. rewrite !forallb_forall. intros H c Hc. rewrite (plain_not_ws c (H c Hc)). reflexivity. Qed.

(** a run of non-space characters is accumulated *)
Lemma split_aux_nows t : nows t = true -> forall cur rest,
  split_ws_aux cur (t ++ rest) = split_ws_aux (rev t ++ cur) rest.
Proof.
  induction t as [|c t IH]; intros H cur rest; [reflexivity|].
  cbn [nows forallb] in H. apply andb_true_iff in H. destruct H as [Hc Ht]. apply negb_true_iff in Hc.
  cbn [app split_ws_aux]. rewrite Hc. rewrite IH by exact Ht.
  cbn [rev]. rewrite <- app_assoc. reflexivity.
Qed.

Lemma split_ws_join_nows l : forallb (fun t => negb (match t with [] => true | _ => false end) && nows t) l = true -> split_ws (join_sp l) = l.
Proof.
  unfold split_ws. induction l as [|t r IH]; intros H; [reflexivity|].
  cbn [forallb] in H. apply andb_true_iff in H. destruct H as [Ht Hr]. apply andb_true_iff in Ht. destruct Ht as [Hne Hp].
  assert (t <> []) as Hne' by (destruct t; [discriminate|congruence]).
  destruct r as [|t' r'].
  - cbn [join_sp]. rewrite <- (app_nil_r t) at 1. rewrite split_aux_nows by exact Hp. cbn [split_ws_aux].
    rewrite app_nil_r. destruct (rev t) eqn:E; [|rewrite <- E, rev_involutive; reflexivity].
    exfalso. apply Hne'. rewrite <- (rev_involutive t), E. reflexivity.
  - change (join_sp (t :: t' :: r')) with (t ++ 32 :: join_sp (t' :: r')).
    rewrite split_aux_nows by exact Hp. rewrite app_nil_r. cbn [split_ws_aux]. change (tk_ws 32) with true. cbn iota.
    destruct (rev t) eqn:E; [exfalso; apply Hne'; rewrite <- (rev_involutive t), E; reflexivity|].
    rewrite <- E, rev_involutive. f_equal. apply IH. exact Hr.
Qed.

Lemma split_ws_join l : forallb tok_ok l = true -> split_ws (join_sp l) = l.
Proof.
  intros H. apply split_ws_join_nows. rewrite forallb_forall in *. intros t Ht. specialize (H t Ht).
  destruct (tok_ok_inv t H) as [Hne Hp]. rewrite (plain_nows t Hp). destruct t; [congruence|reflexivity].
Qed.

Lemma lstrip_ws_plain t rest : t <> [] -> forallb tk_plain t = true -> lstrip_ws (t ++ rest) = t ++ rest.
Proof. destruct t as [|c t]; [congruence|]. intros _ H. cbn [forallb] in H. apply andb_true_iff in H. destruct H as [Hc _]. cbn [app lstrip_ws]. rewrite (plain_not_ws c Hc). reflexivity. Qed.

(** the text of three number tokens, bare or wrapped in one pair of brackets, is taken apart into the three tokens *)
Definition tk_wrap (o c : option N) (s : list N) : list N :=
  (match o with Some x => [x] | None => [] end) ++ s ++ (match c with Some x => [x] | None => [] end).
Definition tk_wrap_ok (o c : option N) : bool :=
  (match o with Some x => is_open x | None => true end) && (match c with Some x => is_close x | None => true end).

Lemma join3_shape x y z : vec_text x y z = x ++ 32 :: y ++ 32 :: z.
Proof. reflexivity. Qed.

Lemma last_plain z : tok_ok z = true -> exists z0 c, z = z0 ++ [c] /\ tk_plain c = true.
Proof.
  intros H. destruct (tok_ok_inv z H) as [Hne Hp]. destruct (exists_last Hne) as [z0 [c E]]. exists z0, c. split; [exact E|].
  rewrite E in Hp. rewrite forallb_app in Hp. apply andb_true_iff in Hp. destruct Hp as [_ Hc]. cbn in Hc. rewrite andb_true_r in Hc. exact Hc.
Qed.

Lemma strip_id s a r r' b : s = a :: r -> s = r' ++ [b] -> tk_ws a = false -> tk_ws b = false -> strip_ws s = s.
Proof.
  intros E1 E2 Ha Hb. unfold strip_ws.
  assert (lstrip_ws s = s) as L1 by (rewrite E1; cbn [lstrip_ws]; rewrite Ha; reflexivity).
  rewrite L1. rewrite E2 at 1. rewrite rev_app_distr. cbn [rev app lstrip_ws]. rewrite Hb.
  change (b :: rev r') with (rev [b] ++ rev r'). rewrite <- rev_app_distr, rev_involutive. symmetry. exact E2.
Qed.
Lemma drop_close_snoc s b : is_close b = true -> drop_close (s ++ [b]) = s.
Proof. intros H. unfold drop_close. rewrite rev_app_distr. cbn [rev app]. rewrite H. apply rev_involutive. Qed.
Lemma drop_close_plain s c : is_close c = false -> drop_close (s ++ [c]) = s ++ [c].
Proof.
  intros H. unfold drop_close. rewrite rev_app_distr. cbn [rev app]. rewrite H.
  change (c :: rev s) with (rev [c] ++ rev s). rewrite <- rev_app_distr. apply rev_involutive.
Qed.
Lemma open_not_ws a : is_open a = true -> tk_ws a = false.
Proof.
  unfold is_open, tk_ws. intros H. repeat (apply orb_true_iff in H; destruct H as [H|H]); apply N.eqb_eq in H; subst; reflexivity.
Qed.
Lemma close_not_ws a : is_close a = true -> tk_ws a = false.
Proof.
  unfold is_close, tk_ws. intros H. repeat (apply orb_true_iff in H; destruct H as [H|H]); apply N.eqb_eq in H; subst; reflexivity.
Qed.

Theorem vec_text_roundtrip x y z o c : tok_ok x = true -> tok_ok y = true -> tok_ok z = true -> tk_wrap_ok o c = true ->
  parse_vec (tk_wrap o c (vec_text x y z)) = Some (x, y, z).
Proof.
  intros Hx Hy Hz Hw. unfold parse_vec.
  assert (split_ws (vec_text x y z) = [x; y; z]) as Hs.
  { apply split_ws_join. cbn [forallb]. rewrite Hx, Hy, Hz. reflexivity. }
  assert (drop_close (drop_open (strip_ws (tk_wrap o c (vec_text x y z)))) = vec_text x y z) as Hd; [|rewrite Hd, Hs; reflexivity].
  destruct (tok_ok_inv x Hx) as [Hxne Hxp]. destruct (last_plain z Hz) as [z0 [cz [Ez Hcz]]].
  destruct x as [|cx x']; [congruence|]. cbn [forallb] in Hxp. apply andb_true_iff in Hxp. destruct Hxp as [Hcx _].
  unfold tk_wrap_ok in Hw. apply andb_true_iff in Hw. destruct Hw as [Ho Hc].
  remember (vec_text (cx :: x') y z) as body eqn:Eb.
  assert (exists b0, body = cx :: b0) as [b0 Eb0] by (rewrite Eb, join3_shape; eexists; reflexivity).
  assert (exists b1, body = b1 ++ [cz]) as [b1 Eb1].
  { exists ((cx :: x') ++ 32 :: y ++ 32 :: z0). rewrite Eb, join3_shape, Ez. rewrite <- !app_assoc. cbn [app]. rewrite <- !app_assoc. reflexivity. }
  pose proof (plain_not_ws cx Hcx) as Wcx. pose proof (plain_not_ws cz Hcz) as Wcz.
  unfold tk_wrap. destruct o as [a|]; destruct c as [b|]; cbn [app].
  - rewrite (strip_id (a :: body ++ [b]) a (body ++ [b]) (a :: body) b); [|reflexivity|reflexivity|apply open_not_ws; exact Ho|apply close_not_ws; exact Hc].
    cbn [drop_open]. rewrite Ho. apply drop_close_snoc. exact Hc.
  - rewrite app_nil_r.
    rewrite (strip_id (a :: body) a body (a :: b1) cz); [|reflexivity|rewrite Eb1; reflexivity|apply open_not_ws; exact Ho|exact Wcz].
    cbn [drop_open]. rewrite Ho. rewrite Eb1. apply drop_close_plain. apply plain_not_close. exact Hcz.
  - rewrite (strip_id (body ++ [b]) cx (b0 ++ [b]) body b); [|rewrite Eb0; reflexivity|reflexivity|exact Wcx|apply close_not_ws; exact Hc].
    rewrite Eb0 at 1. cbn [app drop_open]. rewrite (plain_not_open cx Hcx).
    change (cx :: b0 ++ [b]) with ((cx :: b0) ++ [b]). rewrite <- Eb0. apply drop_close_snoc. exact Hc.
  - rewrite app_nil_r.
    rewrite (strip_id body cx b0 b1 cz); [|exact Eb0|exact Eb1|exact Wcx|exact Wcz].
    rewrite Eb0 at 1. cbn [drop_open]. rewrite (plain_not_open cx Hcx). rewrite <- Eb0.
    rewrite Eb1. apply drop_close_plain. apply plain_not_close. exact Hcz.
Qed.

(** "[x y z offset] scale" is taken apart into its five number tokens, in order *)
Theorem uv_text_roundtrip a b c d e : forallb tok_ok [a; b; c; d; e] = true ->
  uv_parse (uv_text [a; b; c; d; e]) = Some [a; b; c; d; e].
Proof.
  intros H. cbn [forallb] in H. repeat (apply andb_true_iff in H; destruct H as [?H H]).
  rename H0 into Ha, H1 into Hb, H2 into Hc, H3 into Hd, H4 into He.
  destruct (tok_ok_inv a Ha) as [Hane Hap]. destruct (last_plain d Hd) as [d0 [cd [Ed Hcd]]].
  unfold uv_parse.
  assert (uv_text [a; b; c; d; e] = join_sp [LBR :: a; b; c; d ++ [RBR]; e]) as E.
  { unfold uv_text. cbn [join_sp]. cbn [app]. f_equal. repeat (rewrite <- ?app_assoc; cbn [app]). reflexivity. }
  rewrite E. rewrite split_ws_join_nows.
  - f_equal. f_equal.
    + destruct a as [|ca a']; [congruence|]. cbn [forallb] in Hap. apply andb_true_iff in Hap. destruct Hap as [Hca _].
      cbn [lstrip_c]. rewrite N.eqb_refl. cbn [lstrip_c].
      assert (ca =? LBR = false) as Hn.
      { apply plain_not_open in Hca. unfold is_open in Hca. destruct (ca =? LBR) eqn:E'; [|reflexivity].
        change LBR with 91 in E'. rewrite E' in Hca. rewrite !orb_true_r in Hca. discriminate. }
      rewrite Hn. reflexivity.
    + f_equal. f_equal. f_equal. unfold rstrip_c. rewrite rev_app_distr. cbn [rev app lstrip_c]. rewrite N.eqb_refl.
      rewrite Ed. rewrite rev_app_distr. cbn [rev app lstrip_c].
      assert (cd =? RBR = false) as Hn.
      { apply plain_not_close in Hcd. unfold is_close in Hcd. destruct (cd =? RBR) eqn:E'; [|reflexivity].
        change RBR with 93 in E'. rewrite E' in Hcd. rewrite !orb_true_r in Hcd. discriminate. }
      rewrite Hn. change (cd :: rev d0) with (rev [cd] ++ rev d0). rewrite <- rev_app_distr, rev_involutive. reflexivity.
  - cbn [forallb]. rewrite !andb_true_r.
    destruct (tok_ok_inv b Hb) as [Hbne Hbp]. destruct (tok_ok_inv c Hc) as [Hcne Hcp]. destruct (tok_ok_inv d Hd) as [Hdne Hdp].
    destruct (tok_ok_inv e He) as [Hene Hep].
    rewrite (plain_nows b Hbp), (plain_nows c Hcp), (plain_nows e Hep).
    assert (nows (LBR :: a) = true) as N1 by (unfold nows; cbn [forallb]; change (tk_ws LBR) with false; cbn [negb andb]; apply (plain_nows a Hap)).
    assert (nows (d ++ [RBR]) = true) as N2.
    { unfold nows. rewrite forallb_app. fold (nows d). rewrite (plain_nows d Hdp). reflexivity. }
    rewrite N1, N2. destruct b; [congruence|]. destruct c; [congruence|]. destruct e; [congruence|]. destruct d; [congruence|]. reflexivity.
Qed.

(** Necessary: a token containing a space does not survive. *)
Theorem vec_token_with_space_refuted : parse_vec (vec_text [49; 32; 50] [51] [52]) <> Some ([49; 32; 50], [51], [52]).
Proof. vm_compute. discriminate. Qed.
Example vec_text_example : parse_vec (tk_wrap (Some 40) (Some 41) (vec_text [45; 49; 46; 53] [48] [49; 101; 43; 48; 54])) = Some ([45; 49; 46; 53], [48], [49; 101; 43; 48; 54]).
Proof. vm_compute. reflexivity. Qed.
