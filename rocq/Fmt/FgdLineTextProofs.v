(** C16 — the character level (Fmt/LongString.v) joined to the token level (Fmt/FgdLine.v): the STRING tokens that
    the sections written by _write_longstring denote, and the keyvalue line built from them. *)
From Coq Require Import List NArith Arith Bool Lia.
From SV Require Import Fmt.LongString Fmt.LongStringProofs Fmt.FgdLine Fmt.FgdLineProofs.
Import ListNotations.
Open Scope N_scope.

(** the value of the STRING token of one written section: Tokenizer._handle_string on the characters between the quotes *)
Definition section_value (t : esc_table) (sec : LongString.str) : LongString.str :=
  match run t Plain sec with Some (_, o) => o | None => [] end.
(** the STRING tokens of a text as _write_longstring writes it (one per '+' section) *)
Definition token_sections (t : esc_table) (excl : list N) (cfg : ls_cfg) (ext : bool) (text : LongString.str) : list LongString.str :=
  map (section_value t) (sections cfg (fgd_escape t excl ext text)).

Lemma forall2_values t secs outs : Forall2 (fun s o => run t Plain s = Some (Plain, o)) secs outs -> map (section_value t) secs = outs.
Proof. induction 1 as [|s o secs outs Hs _ IH]; [reflexivity|]. cbn [map]. unfold section_value at 1. rewrite Hs, IH. reflexivity. Qed.

(** every section is a complete string body (the automaton ends outside an escape), there is at least one, and the
    token values concatenate to the text *)
Theorem token_sections_spec t excl : table_ok t excl = true -> forall cfg ext text, cfg_ok cfg = true ->
  (ext = false -> std_safe text = true) ->
  token_sections t excl cfg ext text <> []
  /\ List.concat (token_sections t excl cfg ext text) = text
  /\ Forall (fun sec => exists o, run t Plain sec = Some (Plain, o)) (sections cfg (fgd_escape t excl ext text)).
Proof.
  intros Ht cfg ext text Hcfg Hsafe. destruct (escape_read t excl Ht ext text Hsafe) as [Hrun Hcr].
  set (e := fgd_escape t excl ext text) in *.
  destruct (sections_ok t cfg Hcfg (S (length e)) true e text ltac:(lia) Hcr Hrun) as [[outs [HF Hc]] _].
  fold (sections cfg e) in HF. unfold token_sections. fold e. rewrite (forall2_values t _ _ HF).
  split; [|split; [exact Hc|]].
  - pose proof (sections_nonempty cfg e Hcfg) as Hne. inversion HF; subst; [congruence|discriminate].
  - clear Hc. induction HF as [|s o secs outs Hs _ IH]; constructor; eauto.
Qed.

Section KvText.
Variable tag_norm : FgdLine.str -> FgdLine.str.
Variable tags_valid : list FgdLine.str -> bool.
Variable vt : Type.
Variable vt_text : vt -> FgdLine.str.
Variable vt_lookup : FgdLine.str -> option (bool * vt).
Variables vt_is_bool vt_is_flags vt_is_choices : vt -> bool.
Variable dec : N -> FgdLine.str.
Variable undec : FgdLine.str -> option N.
Variable pow2 : N -> bool.
Variable lcfg : line_cfg.
Hypothesis vt_lookup_text : forall v, vt_lookup (vt_text v) = Some (false, v).
Hypothesis two_colons : colons_before_desc_without_default lcfg = 2%nat.
Variable t : esc_table.
Variable excl : list N.
Hypothesis table : table_ok t excl = true.
Variable cfg : ls_cfg.
Hypothesis cfg_good : cfg_ok cfg = true.

(** A keyvalue line whose display name and description are written by _write_longstring (any length, any characters
    in the extended syntax; without quote, backslash and CR in the plain syntax): the parser returns exactly the
    display name and the description that were given to the writer. *)
Theorem kv_line_text_roundtrip label custom name tags ty ro rep disp dflt desc rest :
  (custom = false -> std_safe disp = true /\ std_safe desc = true) ->
  let k := mk_kvl vt name tags ty ro rep (token_sections t excl cfg custom disp) dflt (token_sections t excl cfg custom desc) NoList in
  tags_wf tag_norm tags_valid tags -> vt_is_flags ty = false -> vt_is_choices ty = false ->
  yes_no vt vt_is_bool ty (default_written vt vt_is_bool lcfg k) = default_written vt vt_is_bool lcfg k -> ends_line rest ->
  kv_parse tag_norm tags_valid vt vt_lookup vt_is_bool vt_is_flags vt_is_choices dec undec pow2 name
    (List.tl (kv_toks vt vt_text vt_is_bool vt_is_flags dec lcfg label custom k) ++ rest)
  = Some (mk_kvl vt name (seen_tags custom tags) ty ro rep [disp] (default_written vt vt_is_bool lcfg k) [desc] NoList, rest).
Proof.
  intros Hsafe k Ht Hf Hc Hy He.
  assert (Hd : forall x, (custom = false -> std_safe x = true) -> token_sections t excl cfg custom x <> []
                          /\ List.concat (token_sections t excl cfg custom x) = x).
  { intros x Hx. destruct (token_sections_spec t excl table cfg custom x cfg_good Hx) as [H1 [H2 _]]. auto. }
  destruct (Hd disp (fun E => proj1 (Hsafe E))) as [Hd1 Hd2]. destruct (Hd desc (fun E => proj2 (Hsafe E))) as [_ Hs2].
  pose proof (kv_plain_roundtrip tag_norm tags_valid vt vt_text vt_lookup vt_is_bool vt_is_flags vt_is_choices dec undec pow2 lcfg
                vt_lookup_text two_colons label custom k rest Ht Hf Hc eq_refl Hd1 Hy He) as H.
  change (l_name vt k) with name in H. rewrite H. unfold kv_norm. subst k. cbn [l_name l_tags l_type l_ro l_report l_disp l_desc].
  rewrite Hd2, Hs2. reflexivity.
Qed.
End KvText.
