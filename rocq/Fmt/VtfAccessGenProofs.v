(** C15 — the address-map theorems instantiated with the objects regenerated from the source
    (Gen/VtfAccess_gen.v: census of the uses of <frame>._data; Gen/VtfLayout_gen.v: rejection tests and offset
    formulas of Frame.__getitem__/__setitem__). *)
From Coq Require Import ZArith List Bool String Lia.
From SV Require Import Fmt.VtfLayout Fmt.VtfLayoutProofs Fmt.VtfAccess Fmt.VtfAccessProofs Fmt.VtfGenProofs
  Gen.VtfLayout_gen Gen.VtfAccess_gen.
Import ListNotations.
Open Scope Z_scope.

(** Every path of the census agrees with every other one, and with frame[x, y] / frame[x, y] = p:
    the same coordinates are accepted - exactly those of the frame - and the same bytes are addressed. *)
Theorem gen_every_pixel_path_agrees :
  pixel_offsets_spec -> forallb path_ok gen_paths = true -> bounds_exact getitem_reject = true -> bounds_exact setitem_reject = true ->
  forall w h,
    (forall p q, In p gen_paths -> In q gen_paths -> forall f g (b : buf) x y c v,
        path_accepts p w h f x y c = path_accepts q w h g x y c
        /\ (path_accepts p w h f x y c = true ->
            bget (bset b (path_off p w h f x y c) v) (path_off q w h g x y c) = v
            /\ forall x' y' c', path_accepts q w h g x' y' c' = true -> (x', y', c') <> (x, y, c) ->
                 bget (bset b (path_off p w h f x y c) v) (path_off q w h g x' y' c') = bget b (path_off q w h g x' y' c')))
    /\ (forall p, In p gen_paths -> forall f x y c, 0 <= c < 4 ->
          (rejects getitem_reject x y w h = false <-> path_accepts p w h f x y c = true)
          /\ (rejects setitem_reject x y w h = false <-> path_accepts p w h f x y c = true)
          /\ path_off p w h f x y c = getitem_off x y w h + c
          /\ path_off p w h f x y c = setitem_off x y w h + c
          /\ (path_accepts p w h f x y c = true -> 0 <= path_off p w h f x y c < 4 * w * h)).
Proof.
  intros [gen_getitem_off_spec gen_setitem_off_spec] Hp Hg Hs w h. rewrite forallb_forall in Hp. split.
  - intros p q Ip Iq f g b x y c v. exact (paths_agree p q (Hp p Ip) (Hp q Iq) w h f g b x y c v).
  - intros p Ip f x y c Hc.
    destruct (item_and_path_agree getitem_reject p Hg (Hp p Ip) w h f x y c Hc) as [A1 O1].
    destruct (item_and_path_agree setitem_reject p Hs (Hp p Ip) w h f x y c Hc) as [A2 O2].
    rewrite gen_getitem_off_spec, gen_setitem_off_spec.
    destruct (path_address_map p (Hp p Ip) w h f x y c) as [A O].
    split; [exact A1|]. split; [exact A2|]. split; [exact O1|]. split; [exact O2|].
    intros Acc. rewrite O. rewrite A in Acc. exact (canon_in_buffer w h x y c Acc).
Qed.

(** Every allocation of a pixel array makes exactly 4 * width * height bytes. *)
Theorem gen_every_allocation_has_4wh_bytes :
  forallb (fun a => alloc_ok 4 (snd a)) gen_allocs = true ->
  forall a, In a gen_allocs -> forall w h f, prod_val (snd a) w h f = 4 * w * h.
Proof. intros H a Ia w h f. rewrite forallb_forall in H. exact (alloc_size 4 (snd a) (H a Ia) w h f). Qed.

(** Every frame-to-frame copy of a whole pixel array happens exactly between frames of equal width and equal height. *)
Theorem gen_every_frame_copy_is_between_equal_sizes :
  forallb (fun g => copy_guard_ok (snd g)) gen_copy_guards = true ->
  forall g, In g gen_copy_guards -> forall w h w' h', guard_rejects (snd g) w h w' h' = false <-> (w = w' /\ h = h').
Proof. intros H g Ig w h w' h'. rewrite forallb_forall in H. exact (copy_guard_exact (snd g) (H g Ig) w h w' h'). Qed.


(** Every site that addresses the frame table builds the key (frame, side-or-depth, mipmap): a frame stored by one site
    (VTF.__init__, VTF.read) is the frame every other site (save, compute_mipmaps, get) finds for the same triple. *)
Theorem gen_every_frame_key_agrees :
  forallb (fun k => key_ok (snd k)) gen_key_sites = true ->
  forall p q, In p gen_key_sites -> In q gen_key_sites ->
  forall f s m o o', key_of (snd p) f s m o = [f; s; m] /\ key_of (snd q) f s m o' = key_of (snd p) f s m o.
Proof.
  intros H p q Ip Iq f s m o o'. rewrite forallb_forall in H. exact (key_sites_agree (snd p) (snd q) (H p Ip) (H q Iq) f s m o o').
Qed.
