(** The main overlay record of bsp.py: 3 values, an array of OVERLAY_FACE_COUNT face indexes, 22 floats, unpacked as one
    block by the reader and taken apart by position; written as four pack calls.  translate/c11_overlayrec.py reads the
    label of every position on both sides (Gen/BspGlue_gen.v: [overlay_record]); [overlay_rec_ok] is the obligation.
    Executable definitions only. *)
From Coq Require Import List String NArith ZArith Bool PeanoNat.
From SV Require Import Bin.LE Bin.Struct Fmt.BspFormatsSpec Fmt.BspRecords.
Import ListNotations.
Open Scope string_scope.
Open Scope list_scope.

(** reader: labels before the face array, label of the face array, labels after it; then the same for the writer *)
Definition overlay_rec := (list slot * slot * list slot * (list slot * slot * list slot))%type.

Definition overlay_rec_ok (reader : string) (count : nat) (o : overlay_rec) : bool :=
  let '(rh, rf, rt, (wh, wf, wt)) := o in
  match parse_fmt reader with
  | Some r =>
      slots_eqb rh wh && strs_eqb rf wf && slots_eqb rt wt && wf_fmt r &&
      negb (Nat.eqb (List.length rf) 0) &&
      forallb (fun s : slot => negb (Nat.eqb (List.length s) 0)) (rh ++ rt) &&
      Nat.eqb (nvalues r) (List.length rh + count + List.length rt)
  | None => false
  end.

(** What the writer's block is for [n] faces: the padding after the array, seen through the reader's format, is
    [count - n] zero integers. *)
Definition overlay_values (field : slot -> value) (h t : list slot) (faces : list Z) (count : nat) : list value :=
  map field h ++ map VInt faces ++ repeat (VInt 0) (count - List.length faces) ++ map field t.
