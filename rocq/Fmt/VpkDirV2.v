(** VPK version 2 directory files on the reading side (vpk.py [load_dirfile]): the header has four more '<I' fields
    (data_size, ext_md5_size, dir_md5_size, sig_size) which are read and ignored; the tree length counts from after them;
    everything after the tree is [footer_data].  ([write_dirfile] refuses version 2 before touching the file.)
    [dec_file_v] extends [VpkDir.dec_file] to both versions and also returns [VPK.version]. *)
From Coq Require Import List NArith Bool Lia.
From SV Require Import Fmt.VpkDir Fmt.VpkDirProofs.
Import ListNotations.
Open Scope N_scope.

Section v2.
  Variable c : dcfg.

  Definition tag (v : N) (o : option (list (key * info) * bytes)) : option (N * list (key * info) * bytes) :=
    match o with Some (es, f) => Some (v, es, f) | None => None end.

  Definition dec_file_v (bs : bytes) : option (N * list (key * info) * bytes) :=
    match rd32 bs with None => None | Some (sig, r1) =>
    match rd32 r1 with None => None | Some (ver, r2) =>
    match rd32 r2 with None => None | Some (tlen, r3) =>
      if negb (sig =? c_sig c) then None
      else if ver =? 1 then tag 1 (dec_exts c (S (length r3)) (len r3) tlen r3)
      else if ver =? 2 then
        match rd32 r3 with None => None | Some (_, r4) =>
        match rd32 r4 with None => None | Some (_, r5) =>
        match rd32 r5 with None => None | Some (_, r6) =>
        match rd32 r6 with None => None | Some (_, r7) =>
          tag 2 (dec_exts c (S (length r7)) (len r7) tlen r7)
        end end end end
      else None
    end end end.

  (** the version-2 file with the same tree and trailing bytes as [enc_file] would write for version 1 *)
  Definition enc_file_v2 (t : tree) (h1 h2 h3 h4 : N) (footer : bytes) : option bytes :=
    let tb := enc_tree c t in
    if fits32 (c_sig c) && tree_fits c t && fits32 (len tb)
    then Some (le32 (c_sig c) ++ le32 2 ++ le32 (len tb) ++ le32 h1 ++ le32 h2 ++ le32 h3 ++ le32 h4 ++ tb ++ footer)
    else None.

  (** [dec_file_v] agrees with [dec_file] on everything [dec_file] accepts (version 1) *)
  Lemma dec_file_v_v1 bs es f : dec_file c bs = Some (es, f) -> dec_file_v bs = Some (1, es, f).
  Proof.
    unfold dec_file, dec_file_v. destruct (rd32 bs) as [[sig r1]|]; [|discriminate].
    destruct (rd32 r1) as [[ver r2]|]; [|discriminate]. destruct (rd32 r2) as [[tlen r3]|]; [|discriminate].
    destruct (sig =? c_sig c); cbn [andb negb]; [|discriminate]. destruct (ver =? 1); [|discriminate].
    intros ->. reflexivity.
  Qed.

  (** the four extra header fields are skipped: a version-2 file decodes to exactly what the version-1 file with the same
      tree length, tree and trailing bytes decodes to *)
  Lemma dec_file_v2_header_skipped sig tlen h1 h2 h3 h4 rest :
    sig < 4294967296 -> tlen < 4294967296 -> h1 < 4294967296 -> h2 < 4294967296 -> h3 < 4294967296 -> h4 < 4294967296 ->
    dec_file_v (le32 sig ++ le32 2 ++ le32 tlen ++ le32 h1 ++ le32 h2 ++ le32 h3 ++ le32 h4 ++ rest)
    = tag 2 (dec_file c (le32 sig ++ le32 1 ++ le32 tlen ++ rest)).
  Proof.
    intros Hs Ht H1 H2 H3 H4. unfold dec_file_v, dec_file.
    rewrite !rd32_le32 by lia. cbn [N.eqb Pos.eqb].
    rewrite ?rd32_le32 by lia.
    destruct (sig =? c_sig c); cbn [negb andb]; reflexivity.
  Qed.

  (** round trip for version 2: the entries and the trailing block come back, whatever the four fields hold *)
  Theorem dirtree_roundtrip_v2 : dcfg_ok c = true -> forall t h1 h2 h3 h4 footer b,
    h1 < 4294967296 -> h2 < 4294967296 -> h3 < 4294967296 -> h4 < 4294967296 ->
    wf_tree c t -> enc_file_v2 t h1 h2 h3 h4 footer = Some b ->
    dec_file_v b = Some (2, nmap (flat_tree t), footer).
  Proof.
    intros Hc t h1 h2 h3 h4 footer b H1 H2 H3 H4 Hwf. unfold enc_file_v2. cbv zeta.
    destruct (fits32 (c_sig c) && tree_fits c t && fits32 (len (enc_tree c t))) eqn:E; [|discriminate].
    intros Hb. apply (f_equal (fun o => match o with Some x => x | None => [] end)) in Hb. cbv beta iota in Hb. subst b.
    pose proof E as E'. apply andb_prop in E' as [E' Hl]. apply andb_prop in E' as [Hs _].
    unfold fits32 in Hs, Hl. apply N.ltb_lt in Hs, Hl.
    rewrite dec_file_v2_header_skipped by assumption.
    assert (enc_file c t footer = Some (le32 (c_sig c) ++ le32 1 ++ le32 (len (enc_tree c t)) ++ enc_tree c t ++ footer)) as Ev1
      by (unfold enc_file; cbv zeta; rewrite E; reflexivity).
    rewrite (dirtree_roundtrip c Hc _ _ _ Hwf Ev1). reflexivity.
  Qed.
End v2.
