(** C06, round 4: proofs about the ID-manager decision lists of Fmt/VmfIds.v (axiom-free). *)
From Coq Require Import List String Bool ZArith Lia ZifyBool.
From SV Require Import Fmt.VmfIds.
Import ListNotations.
Open Scope Z_scope.

Lemma cmp_le_sem c d k : cmp_le (le_of d) c k = cmp_sem c d k.
Proof. destruct c; unfold cmp_le, cmp_sem, le_of; lia. Qed.

Lemma guard_ext o le1 le2 g :
  (forall k, In k (guard_consts g) -> le1 k = le2 k) -> guard_le o le1 g = guard_le o le2 g.
Proof.
  induction g as [c k|a IHa b IHb|a IHa b IHb|a IHa| |]; cbn [guard_le guard_consts]; intros H; trivial.
  - assert (E1 : le1 k = le2 k) by (apply H; cbn; auto).
    assert (E2 : le1 (k - 1) = le2 (k - 1)) by (apply H; cbn; auto).
    destruct c; unfold cmp_le; rewrite ?E1, ?E2; reflexivity.
  - rewrite IHa, IHb; trivial; intros; apply H; apply in_or_app; auto.
  - rewrite IHa, IHb; trivial; intros; apply H; apply in_or_app; auto.
  - rewrite IHa; trivial.
Qed.

Lemma prog_ext o le1 le2 p :
  (forall k, In k (prog_consts p) -> le1 k = le2 k) -> prog_act o le1 p = prog_act o le2 p.
Proof.
  induction p as [|[g a] r IH]; cbn [prog_act]; intros H; trivial.
  unfold prog_consts in H; cbn [flat_map fst] in H.
  rewrite (guard_ext o le1 le2 g) by (intros; apply H; apply in_or_app; auto).
  rewrite IH; trivial. intros; apply H; apply in_or_app; auto.
Qed.

Lemma In_test_points t cs : In t (test_points cs) <-> In t cs \/ exists c, In c cs /\ t = Z.succ c.
Proof.
  unfold test_points. rewrite in_app_iff, in_map_iff. split.
  - intros [H|[c [E H]]]; [left; trivial|right; exists c; auto].
  - intros [H|[c [H E]]]; [left; trivial|right; exists c; auto].
Qed.

(** Between two neighbouring constants nothing changes: every ID has a representative among the test points that compares
    in the same way with every constant. *)
Lemma rep_exists cs : forall c0 d, exists t, In t (test_points (c0 :: cs)) /\
  forall c, In c (c0 :: cs) -> (t <=? c) = (d <=? c).
Proof.
  induction cs as [|c1 r IH]; intros c0 d.
  - destruct (Z_le_gt_dec d c0).
    + exists c0. split; [apply In_test_points; left; cbn; auto|]. intros c [<-|[]]. lia.
    + exists (Z.succ c0). split; [apply In_test_points; right; exists c0; cbn; auto|]. intros c [<-|[]]. lia.
  - destruct (IH c1 d) as [t' [Ht' Hag]].
    destruct (Bool.bool_dec (t' <=? c0) (d <=? c0)) as [E|NE].
    + exists t'. split.
      * apply In_test_points in Ht'. apply In_test_points.
        destruct Ht' as [H|[c [H ->]]]; [left; right; trivial|right; exists c; split; [right; trivial|reflexivity]].
      * intros c [<-|H]; auto.
    + destruct (Z_le_gt_dec d c0).
      * exists c0. split; [apply In_test_points; left; cbn; auto|].
        intros c [<-|H]; [lia|]. specialize (Hag c H). lia.
      * exists (Z.succ c0). split; [apply In_test_points; right; exists c0; cbn; auto|].
        intros c [<-|H]; [lia|]. specialize (Hag c H). lia.
Qed.

Lemma keeps_ext p o le1 le2 :
  (forall k, In k (-1 :: prog_consts p) -> le1 k = le2 k) -> keeps_or_negative p o le1 = keeps_or_negative p o le2.
Proof.
  intros H. unfold keeps_or_negative. rewrite (H (-1)) by (cbn; auto).
  rewrite (prog_ext o le1 le2 p); trivial. intros; apply H; cbn; auto.
Qed.

(** Soundness: a decision list that passes [nid_ok] returns the requested ID for every natural number, whatever the opaque
    conditions. *)
Theorem nid_ok_sound p : nid_ok p = true -> forall d o, 0 <= d -> id_get p o d = AKeep.
Proof.
  intros Hok d o Hd. unfold nid_ok in Hok. rewrite forallb_forall in Hok.
  destruct (rep_exists (prog_consts p) (-1) d) as [t [Ht Hag]].
  specialize (Hok t Ht). apply andb_true_iff in Hok. destruct Hok as [H1 H2].
  assert (E : forall o', keeps_or_negative p o' (le_of d) = keeps_or_negative p o' (le_of t)).
  { intros o'. apply keeps_ext. intros k Hk. unfold le_of. rewrite (Hag k Hk). reflexivity. }
  assert (K : keeps_or_negative p o (le_of d) = true) by (rewrite E; destruct o; assumption).
  unfold keeps_or_negative in K. apply orb_true_iff in K. destruct K as [K|K]; [unfold le_of in K; lia|].
  unfold id_get. destruct (prog_act o (le_of d) p); [reflexivity|discriminate K].
Qed.

(** Completeness: a decision list that fails [nid_ok] renumbers some natural number (a test point is the witness). *)
Theorem nid_ok_complete p : nid_ok p = false -> exists d o, 0 <= d /\ id_get p o d = AOther.
Proof.
  intros H. unfold nid_ok in H.
  assert (E : existsb (fun t => negb (keeps_or_negative p true (le_of t) && keeps_or_negative p false (le_of t)))
                      (test_points (-1 :: prog_consts p)) = true).
  { induction (test_points (-1 :: prog_consts p)) as [|t r IH]; cbn in *; [discriminate|].
    destruct (keeps_or_negative p true (le_of t) && keeps_or_negative p false (le_of t)); cbn in *; auto. }
  apply existsb_exists in E. destruct E as [t [_ Ht]].
  apply negb_true_iff, andb_false_iff in Ht.
  assert (W : forall o, keeps_or_negative p o (le_of t) = false -> 0 <= t /\ id_get p o t = AOther).
  { intros o K. unfold keeps_or_negative in K. apply orb_false_iff in K. destruct K as [K1 K2]. split; [unfold le_of in K1; lia|].
    unfold id_get. destruct (prog_act o (le_of t) p); [discriminate K2|reflexivity]. }
  destruct Ht as [K|K]; [exists t, true|exists t, false]; apply W; exact K.
Qed.

(** The comparisons of a decision list are the integer comparisons (so [id_get] is the method's decision). *)
Theorem guard_le_cmp o d c k : guard_le o (le_of d) (GCmp c k) = cmp_sem c d k.
Proof. apply cmp_le_sem. Qed.

(** Per kind of ID: if the obligation [kind_ok] holds for a manager attribute then the class a VMF gets for it under
    preserve_ids has a program that keeps every natural number, some constructor asks that manager, and every constructor
    that asks it stores the manager's answer as the ID. *)
Theorem kind_ok_sound classes mans sites attr : kind_ok classes mans sites attr = true ->
  exists m p, In m mans /\ im_attr m = attr /\ assoc_s (im_preserve m) classes = Some p /\
    (forall d o, 0 <= d -> id_get p o d = AKeep) /\
    (exists s, In s sites /\ is_manager s = attr) /\
    (forall s, In s sites -> is_manager s = attr -> is_stores_result s = true).
Proof.
  unfold kind_ok. destruct (find _ mans) as [m|] eqn:F; [|discriminate].
  apply find_some in F. destruct F as [Hin Hm]. apply String.eqb_eq in Hm.
  intros H. apply andb_true_iff in H. destruct H as [H H3]. apply andb_true_iff in H. destruct H as [H1 H2].
  unfold manager_keeps in H1. destruct (assoc_s (im_preserve m) classes) as [p|] eqn:A; [|discriminate].
  exists m, p. repeat split; trivial.
  - apply nid_ok_sound; exact H1.
  - apply existsb_exists in H2. destruct H2 as [s [Hs E]]. exists s. split; trivial. apply String.eqb_eq; exact E.
  - intros s Hs E. rewrite forallb_forall in H3. specialize (H3 s Hs). apply orb_true_iff in H3. destruct H3 as [K|K]; trivial.
    apply negb_true_iff in K. apply String.eqb_neq in K. contradiction.
Qed.

(** The method of the pinned tree, the seeded shape ([desired > 0]: keep), and the ordinary IDMan. *)
Definition ex_nullid : idprog := [(GCmp CEq (-1), AOther); (GTrue, AKeep)].
Definition ex_positive_only : idprog := [(GCmp CGt 0, AKeep); (GTrue, AOther)].
Definition ex_idman : idprog := [(GAnd (GCmp CGt 0) (GNot GOpaque), AKeep); (GTrue, AOther)].

Theorem ex_nullid_ok : nid_ok ex_nullid = true /\ id_get ex_nullid true 0 = AKeep /\ id_get ex_nullid true (-1) = AOther.
Proof. vm_compute. repeat split. Qed.
Theorem positive_only_refuted : nid_ok ex_positive_only = false /\ id_get ex_positive_only true 0 = AOther /\
  id_get ex_positive_only true 1 = AKeep.
Proof. vm_compute. repeat split. Qed.
Theorem idman_not_preserving : nid_ok ex_idman = false /\ id_get ex_idman true 5 = AOther /\ id_get ex_idman false 5 = AKeep.
Proof. vm_compute. repeat split. Qed.
