(** Proofs for Fmt/BspFlagSplit.v: parts that tile the bits of an integer are put together again by the reader. *)
From Coq Require Import List NArith Bool PeanoNat Lia.
From SV Require Import Fmt.BspFlagSplit.
Import ListNotations.
Open Scope N_scope.

Lemma shifts_eqb_eq : forall a b, shifts_eqb a b = true -> a = b.
Proof.
  induction a as [|x a IH]; intros [|y b] H; try discriminate; [reflexivity|].
  cbn in H. apply andb_prop in H. destruct H as [H1 H2]. apply N.eqb_eq in H1. subst. f_equal. apply IH. exact H2.
Qed.

Lemma split_read_cons : forall v p ps,
  split_read (split_write v (p :: ps)) (map fst (p :: ps)) =
  N.lor (N.shiftl (fpart_val v p) (fst p)) (split_read (split_write v ps) (map fst ps)).
Proof. reflexivity. Qed.

Lemma parts_from_recombine : forall parts s v, parts_from s parts = true ->
  split_read (split_write v parts) (map fst parts) = N.shiftl (N.shiftr v s) s.
Proof.
  induction parts as [|[s1 m1] rest IH]; intros s v H; [discriminate|].
  destruct rest as [|[s2 m2] rest'].
  - cbn [parts_from] in H. destruct m1 as [m|]; [discriminate|]. apply N.eqb_eq in H. subst s1.
    cbn. unfold fpart_val. cbn. apply N.lor_0_r.
  - cbn [parts_from] in H. destruct m1 as [m|]; [|discriminate].
    apply andb_prop in H. destruct H as [H Hrest]. apply andb_prop in H. destruct H as [H Hm]. apply andb_prop in H. destruct H as [Hs Hlt].
    apply N.eqb_eq in Hs. apply N.ltb_lt in Hlt. apply N.eqb_eq in Hm. subst s1 m.
    rewrite split_read_cons. unfold fpart_val at 1. cbn [fst snd].
    rewrite (IH s2 v Hrest).
    apply N.bits_inj. intro n. rewrite N.lor_spec.
    destruct (N.lt_ge_cases n s) as [Hn|Hn].
    + rewrite !N.shiftl_spec_low by lia. reflexivity.
    + rewrite (N.shiftl_spec_high' _ _ _ Hn). rewrite (N.shiftl_spec_high' (N.shiftr v s) _ _ Hn).
      rewrite N.land_spec, !N.shiftr_spec'. replace (n - s + s) with n by lia.
      destruct (N.lt_ge_cases n s2) as [Hn2|Hn2].
      * rewrite N.shiftl_spec_low by lia. rewrite N.ones_spec_low by lia. rewrite andb_true_r, orb_false_r. reflexivity.
      * rewrite (N.shiftl_spec_high' _ _ _ Hn2). rewrite N.shiftr_spec'. replace (n - s2 + s2) with n by lia.
        rewrite N.ones_spec_high by lia. rewrite andb_false_r. reflexivity.
Qed.

Theorem split_roundtrip : forall parts shifts, split_ok parts shifts = true ->
  forall v, split_read (split_write v parts) shifts = v.
Proof.
  intros parts shifts H v. unfold split_ok in H. apply andb_prop in H. destruct H as [H1 H2].
  apply shifts_eqb_eq in H2. subst shifts. rewrite (parts_from_recombine parts 0 v H1).
  rewrite N.shiftr_0_r, N.shiftl_0_r. reflexivity.
Qed.

(** the secondary part masked to one byte: bit 16 is lost *)
Theorem split_masked_high_part_refuted :
  split_ok [(0, Some 255); (8, Some 255)] [0; 8] = false /\
  split_read (split_write 65537 [(0, Some 255); (8, Some 255)]) [0; 8] = 1 /\
  split_ok [(0, Some 255); (8, None)] [0; 8] = true /\
  split_read (split_write 65537 [(0, Some 255); (8, None)]) [0; 8] = 65537.
Proof. vm_compute. repeat split; reflexivity. Qed.

Theorem bool_code_roundtrip : forall c, bool_code_ok c = true -> forall b, bool_code_read c (bool_code_write c b) = b.
Proof.
  intros [[wt wf] rc] H b. cbn in *. apply andb_prop in H. destruct H as [H1 H2]. destruct b; [exact H1|].
  apply negb_true_iff in H2. exact H2.
Qed.
Theorem bool_code_swapped_refuted : bool_code_ok (2, 3, 3) = false /\ bool_code_read (2, 3, 3) (bool_code_write (2, 3, 3) true) = false.
Proof. vm_compute. split; reflexivity. Qed.
