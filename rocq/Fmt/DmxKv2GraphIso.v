(** C14 — "the same graph" made explicit for the nested KeyValues2 layout.  Two graphs whose flat documents are
    permutations of each other are isomorphic: the map [sigma] that sends index [i] of [g] to the index in [g'] of the
    element with the same id is injective, and element [sigma i] of [g'] is element [i] of [g] with every element
    reference [j] replaced by [sigma j] — same type, id, name, attributes in order with their types and shapes, strings,
    NULL and stubs untouched.  The graph the fix-up pass of [parse_kv2] builds is a graph ([graph_ok]: references in range,
    unresolved ids stay stubs) whenever no id was registered twice.  Composed with the root rule / block tree / text
    theorems: the graph read back from the nested layout is isomorphic to the exported one, and the isomorphism fixes the
    exported element. *)
From Coq Require Import NArith List Bool Lia PeanoNat Permutation.
From SV Require Import Text.Str Text.Escape Text.Tokenizer Fmt.DmxKv2 Fmt.DmxKv2Proofs Fmt.DmxKv2Nested Fmt.DmxKv2NestedProofs
  Fmt.DmxKv2Graph Fmt.DmxKv2GraphProofs Fmt.DmxKv2GraphUnique Fmt.DmxKv2GraphLink Fmt.DmxKv2GraphWhole Fmt.DmxPropertyKv2.
Import ListNotations.
Open Scope nat_scope.

(** * Renumbering *)
Definition ren_item (s : nat -> nat) (it : gitem) : gitem :=
  match it with GRef (GElem i) => GRef (GElem (s i)) | _ => it end.
Definition ren_attr (s : nat -> nat) (a : gattr) : gattr :=
  {| ga_name := ga_name a; ga_type := ga_type a; ga_arr := ga_arr a; ga_items := map (ren_item s) (ga_items a) |}.
Definition ren_elem (s : nat -> nat) (e : gelem) : gelem :=
  {| ge_type := ge_type e; ge_id := ge_id e; ge_name := ge_name e; ge_attrs := map (ren_attr s) (ge_attrs e) |}.

(** [s] is an isomorphism from [g] onto [g']: same number of elements, injective on the indexes of [g], and element
    [s i] of [g'] is element [i] of [g] with its references renumbered by [s] *)
Definition graph_iso (s : nat -> nat) (g g' : gdoc) : Prop :=
  length g' = length g /\
  (forall i, i < length g -> s i < length g' /\ nth (s i) g' dflt_gelem = ren_elem s (nth i g dflt_gelem)) /\
  (forall i j, i < length g -> j < length g -> s i = s j -> i = j).

(** index of the first occurrence *)
Fixpoint idx (u : str) (l : list str) : nat :=
  match l with [] => 0 | x :: r => if str_eqb u x then 0 else S (idx u r) end.

(** the renumbering by id *)
Definition by_id (g g' : gdoc) (i : nat) : nat := idx (nth i (ids g) []) (ids g').

Lemma idx_in u l : In u l -> idx u l < length l /\ nth (idx u l) l [] = u.
Proof.
  induction l as [|x r IH]; intros H; [destruct H|]. cbn [idx]. destruct (str_eqb u x) eqn:E.
  - apply str_eqb_eq in E. subst x. cbn [length nth]. split; [lia|reflexivity].
  - destruct H as [H|H]; [subst x; rewrite str_eqb_refl in E; discriminate|].
    destruct (IH H) as [A B]. cbn [length nth]. split; [lia|exact B].
Qed.

Lemma nth_ids' (h : gdoc) j : nth j (ids h) [] = ge_id (nth j h dflt_gelem).
Proof. unfold ids. exact (map_nth ge_id h dflt_gelem j). Qed.

Lemma ids_length (h : gdoc) : length (ids h) = length h.
Proof. unfold ids. apply map_length. Qed.

Lemma ids_of_flatten (h : gdoc) : map id_text (flatten h) = ids h.
Proof. unfold flatten, ids. rewrite map_map. apply map_ext. intros e. reflexivity. Qed.

Lemma existsb_str_in u l : existsb (str_eqb u) l = true <-> In u l.
Proof.
  split; intros H.
  - apply existsb_exists in H. destruct H as [x [Hx E]]. apply str_eqb_eq in E. now subst x.
  - apply existsb_exists. exists u. split; [assumption|apply str_eqb_refl].
Qed.

(** * Graphs with permuted flat documents are isomorphic *)
Section Iso.
Variables g g' : gdoc.
Hypothesis Hg : graph_ok g = true.
Hypothesis Hg' : graph_ok g' = true.
Hypothesis Hp : Permutation (flatten g') (flatten g).

Notation s := (by_id g g').

Lemma ids_perm : Permutation (ids g') (ids g).
Proof. rewrite <- !ids_of_flatten. now apply Permutation_map. Qed.

Lemma nodup_g : NoDup (ids g).
Proof. exact (proj1 (graph_ok_parts g Hg)). Qed.
Lemma nodup_g' : NoDup (ids g').
Proof. exact (proj1 (graph_ok_parts g' Hg')). Qed.

Lemma s_spec i : i < length g -> s i < length g' /\ nth (s i) (ids g') [] = nth i (ids g) [].
Proof.
  intros Hi. assert (Hin : In (nth i (ids g) []) (ids g')).
  { apply (Permutation_in _ (Permutation_sym ids_perm)). apply nth_In. now rewrite ids_length. }
  destruct (idx_in _ _ Hin) as [A B]. rewrite ids_length in A. split; assumption.
Qed.

Lemma item_iso it it' : gitem_ok (ids g) it = true -> gitem_ok (ids g') it' = true ->
  flat_item (ids g') it' = flat_item (ids g) it -> it' = ren_item s it.
Proof.
  intros A B E. destruct it as [t|[k| |u]]; destruct it' as [t'|[k'| |u']]; cbn [flat_item] in E; try discriminate E.
  - injection E as ->. reflexivity.
  - (* element / element *)
    cbn [gitem_ok] in A, B. apply Nat.ltb_lt in A. apply Nat.ltb_lt in B. rewrite ids_length in A.
    injection E as E. destruct (s_spec k A) as [L N]. cbn [ren_item]. do 2 f_equal.
    apply (proj1 (NoDup_nth (ids g') []) nodup_g'); [assumption|now rewrite ids_length|]. now rewrite N.
  - (* element / stub: the id of an element of [g] is an id of [g'] *)
    exfalso. cbn [gitem_ok] in A, B. apply Nat.ltb_lt in A. injection E as E. apply negb_true_iff in B.
    assert (In u' (ids g')).
    { apply (Permutation_in _ (Permutation_sym ids_perm)). rewrite E. now apply nth_In. }
    apply existsb_str_in in H. congruence.
  - reflexivity.
  - (* stub / element *)
    exfalso. cbn [gitem_ok] in A, B. apply Nat.ltb_lt in B. injection E as E. apply negb_true_iff in A.
    assert (In u (ids g)).
    { apply (Permutation_in _ ids_perm). rewrite <- E. now apply nth_In. }
    apply existsb_str_in in H. congruence.
  - injection E as ->. reflexivity.
Qed.

Lemma items_iso : forall its its', forallb (gitem_ok (ids g)) its = true -> forallb (gitem_ok (ids g')) its' = true ->
  map (flat_item (ids g')) its' = map (flat_item (ids g)) its -> its' = map (ren_item s) its.
Proof.
  induction its as [|it its IH]; intros [|it' its'] A B E; cbn [map] in E; try discriminate E; [reflexivity|].
  cbn [forallb] in A, B. apply andb_prop in A. apply andb_prop in B. destruct A as [A1 A2]. destruct B as [B1 B2].
  injection E as E1 E2. cbn [map]. f_equal; [now apply item_iso|now apply IH].
Qed.

Definition attrs_okb (l : list str) (attrs : list gattr) : bool := forallb (fun a => forallb (gitem_ok l) (ga_items a)) attrs.

Lemma attrs_iso : forall attrs attrs', attrs_okb (ids g) attrs = true -> attrs_okb (ids g') attrs' = true ->
  map (flat_attr (ids g')) attrs' = map (flat_attr (ids g)) attrs -> attrs' = map (ren_attr s) attrs.
Proof.
  unfold attrs_okb.
  induction attrs as [|a attrs IH]; intros [|a' attrs'] A B E; cbn [map] in E; try discriminate E; [reflexivity|].
  cbn [forallb] in A, B. apply andb_prop in A. apply andb_prop in B. destruct A as [A1 A2]. destruct B as [B1 B2].
  destruct a as [an at_ arr its]. destruct a' as [an' at_' arr' its']. unfold flat_attr at 1 3 in E.
  cbn [ga_name ga_type ga_arr ga_items] in *. injection E as -> -> -> E1 E2. cbn [map]. f_equal; [|now apply IH].
  unfold ren_attr. cbn [ga_name ga_type ga_arr ga_items]. f_equal. now apply items_iso.
Qed.

Lemma elem_iso e e' : attrs_okb (ids g) (ge_attrs e) = true -> attrs_okb (ids g') (ge_attrs e') = true ->
  flat_elem (ids g') e' = flat_elem (ids g) e -> e' = ren_elem s e.
Proof.
  intros A B E. destruct e as [ty id nm attrs]. destruct e' as [ty' id' nm' attrs']. unfold flat_elem in E. unfold ren_elem.
  cbn [ge_type ge_id ge_name ge_attrs] in *. injection E as -> -> -> E. f_equal. now apply attrs_iso.
Qed.

Lemma graph_ok_attrs (h : gdoc) e : graph_ok h = true -> In e h -> attrs_okb (ids h) (ge_attrs e) = true.
Proof.
  unfold graph_ok. intros H He. apply andb_prop in H. destruct H as [_ H]. rewrite forallb_forall in H. exact (H e He).
Qed.

Theorem perm_graph_iso : graph_iso s g g'.
Proof.
  split; [|split].
  - apply Permutation_length in Hp. unfold flatten in Hp. now rewrite !map_length in Hp.
  - intros i Hi. destruct (s_spec i Hi) as [L N]. split; [exact L|].
    assert (Hin : In (flat_elem (ids g) (nth i g dflt_gelem)) (flatten g')).
    { apply (Permutation_in _ (Permutation_sym Hp)). unfold flatten. apply in_map. now apply nth_In. }
    unfold flatten in Hin. apply in_map_iff in Hin. destruct Hin as [e' [E He']].
    destruct (In_nth g' e' dflt_gelem He') as [j [Lj Ej]].
    assert (Hid : ge_id e' = ge_id (nth i g dflt_gelem)).
    { apply (f_equal ke_id) in E. cbn [flat_elem ke_id] in E. now injection E. }
    assert (j = s i).
    { apply (proj1 (NoDup_nth (ids g') []) nodup_g'); [now rewrite ids_length|now rewrite ids_length|].
      rewrite N, !nth_ids', Ej. exact Hid. }
    subst j. rewrite Ej. apply elem_iso; [|now apply graph_ok_attrs|exact E].
    apply graph_ok_attrs; [exact Hg|now apply nth_In].
  - intros i j Hi Hj E. destruct (s_spec i Hi) as [_ Ni]. destruct (s_spec j Hj) as [_ Nj].
    apply (ids_inj g nodup_g i j Hi Hj). now rewrite <- Ni, <- Nj, E.
Qed.

End Iso.

(** the isomorphism fixes the exported element when both graphs list it first *)
Lemma by_id_head (g g' : gdoc) : g' <> [] -> ge_id (nth 0 g' dflt_gelem) = ge_id (nth 0 g dflt_gelem) -> by_id g g' 0 = 0.
Proof.
  intros Hne E. unfold by_id. rewrite nth_ids', <- E. destruct g' as [|e' r]; [contradiction|].
  cbn [ids map nth idx]. unfold ids. cbn [map idx]. now rewrite str_eqb_refl.
Qed.

(** the identity is an isomorphism only between equal graphs: [graph_iso] leaves no freedom besides the numbering *)
Lemma ren_item_id it : ren_item (fun i => i) it = it.
Proof. destruct it as [t|[k| |u]]; reflexivity. Qed.
Lemma ren_elem_id e : ren_elem (fun i => i) e = e.
Proof.
  destruct e as [ty id nm attrs]. unfold ren_elem. cbn [ge_type ge_id ge_name ge_attrs]. f_equal.
  rewrite <- (map_id attrs) at 2. apply map_ext. intros [an at_ arr its]. unfold ren_attr. cbn [ga_name ga_type ga_arr ga_items]. f_equal.
  rewrite <- (map_id its) at 2. apply map_ext. apply ren_item_id.
Qed.
Theorem graph_iso_identity g g' : graph_iso (fun i => i) g g' -> g' = g.
Proof.
  intros [Hl [Hs _]]. apply (nth_ext g' g dflt_gelem dflt_gelem Hl). intros n Hn. rewrite Hl in Hn.
  destruct (Hs n Hn) as [_ E]. now rewrite E, ren_elem_id.
Qed.

(** * The graph the fix-up pass builds is a graph *)
Lemma last_index_bound u : forall l base i, last_index u l base = Some i -> i < base + length l.
Proof.
  induction l as [|x r IH]; intros base i H; [discriminate|]. cbn [last_index] in H.
  destruct (last_index u r (S base)) as [j|] eqn:E.
  - injection H as <-. apply IH in E. cbn [length]. lia.
  - destruct (str_eqb u x); [|discriminate]. injection H as <-. cbn [length]. lia.
Qed.
Lemma last_index_none_inv u : forall l base, last_index u l base = None -> existsb (str_eqb u) l = false.
Proof.
  induction l as [|x r IH]; intros base H; [reflexivity|]. cbn [last_index] in H.
  destruct (last_index u r (S base)) as [j|] eqn:E; [discriminate|]. destruct (str_eqb u x) eqn:Ex; [discriminate|].
  cbn [existsb]. rewrite Ex. cbn [orb]. exact (IH (S base) E).
Qed.
Lemma link_item_ok l it : gitem_ok l (link_item l it) = true.
Proof.
  destruct it as [t| |u]; cbn [link_item gitem_ok]; try reflexivity.
  destruct (last_index u l 0) as [i|] eqn:E; cbn [gitem_ok].
  - apply Nat.ltb_lt. apply last_index_bound in E. lia.
  - apply negb_true_iff. exact (last_index_none_inv u l 0 E).
Qed.

Theorem link_graph_ok d g0 : link d = Some g0 -> NoDup (map id_text d) -> graph_ok g0 = true.
Proof.
  unfold link. destruct (all_ids d) as [l|] eqn:E; [|discriminate]. intros H Hn. injection H as <-.
  assert (Hl : map id_text d = l).
  { pose proof (all_ids_spec d l E) as Hids. clear E Hn. revert l Hids.
    induction d as [|e d IH]; intros l Hids; destruct l as [|u l]; try discriminate; [reflexivity|].
    cbn [map] in Hids |- *. injection Hids as He Hd. unfold id_text at 1. rewrite He. f_equal. now apply IH. }
  unfold graph_ok. rewrite map_map. cbn [ge_id]. change (map (fun x : kelem => match ke_id x with Some u => u | None => [] end) d) with (map id_text d).
  rewrite Hl. rewrite <- Hl at 1. rewrite (NoDup_nodup_str _ Hn). cbn [andb].
  apply forallb_forall. intros e He. apply in_map_iff in He. destruct He as [k [<- _]]. cbn [ge_attrs].
  apply forallb_forall. intros a Ha. apply in_map_iff in Ha. destruct Ha as [ka [<- _]]. unfold link_attr. cbn [ga_items].
  apply forallb_forall. intros it Hit. apply in_map_iff in Hit. destruct Hit as [ki [<- _]]. apply link_item_ok.
Qed.

(** * The whole property for the nested layout, with the isomorphism *)
Theorem c14_property_kv2_iso_gen :
  forall (T : tables) (o : opts) (fold : str -> str) (vtnames : list str) (c : rootcfg),
    kv2_tables_ok T = true -> kv2_opts_ok o = true -> vtnames_ok T fold vtnames = true -> root_rule_ok c = true ->
    forall g : gdoc, graph_ok g = true -> doc_ok T vtnames (flatten g) = true -> g <> [] -> (forall j, j < length g -> reach g j) ->
      exists d g',
        nest_doc g (is_root fold vtnames c false g) false = Some d /\
        parsen_text T o fold vtnames (rendern_doc T d) = Some d /\
        link (unnest d) = Some g' /\ graph_ok g' = true /\
        graph_iso (by_id g g') g g' /\ by_id g g' 0 = 0.
Proof.
  intros T o fold vtnames c HT Ho Hv Hc g Hg Hdoc Hne Hreach.
  destruct (c14_property_kv2_gen T o fold vtnames c HT Ho Hv Hc g Hg Hdoc Hne Hreach) as [_ [d [Hd [Hparse [Honce [Hperm [[rest Hhead] [[g' [Hlink Hflat]] _]]]]]]]].
  exists d, g'. assert (Hok : graph_ok g' = true).
  { apply (link_graph_ok (unnest d) g' Hlink). apply nodup_str_NoDup. exact Honce. }
  split; [exact Hd|]. split; [exact Hparse|]. split; [exact Hlink|]. split; [exact Hok|]. split.
  - apply (perm_graph_iso g g' Hg Hok). now rewrite Hflat.
  - assert (Hne' : g' <> []).
    { intros E0. subst g'. unfold flatten in Hflat. cbn [map] in Hflat. rewrite Hhead in Hflat. discriminate Hflat. }
    apply (by_id_head g g' Hne').
    rewrite Hhead in Hflat. destruct g' as [|e' r']; [contradiction|]. unfold flatten in Hflat. cbn [map] in Hflat.
    cbn [nth]. injection Hflat. intros. congruence.
Qed.

(** example: the graph read back from the nested text of [ex_graph] lists the elements in the order of the blocks
    (0, 2, 3, 1) and the renumbering by id is not the identity *)
Example iso_example :
  match nest_doc ex_graph (ex_isroot pinned_rootcfg ex_graph) false with
  | Some d => match link (unnest d) with
              | Some g' => (map (by_id ex_graph g') [0; 1; 2; 3], graph_ok g', negb (Nat.eqb (by_id ex_graph g' 1) 1))
              | None => ([], false, false)
              end
  | None => ([], false, false)
  end = ([0; 3; 1; 2], true, true).
Proof. vm_compute. reflexivity. Qed.

(** * An executable test of [graph_iso] (run by the check on the graphs the real parser returns) *)
Fixpoint list_eqb {A} (f : A -> A -> bool) (a b : list A) : bool :=
  match a, b with [], [] => true | x :: a', y :: b' => f x y && list_eqb f a' b' | _, _ => false end.
Definition gref_eqb (a b : gref) : bool :=
  match a, b with GElem i, GElem j => Nat.eqb i j | GNull, GNull => true | GStub u, GStub v => str_eqb u v | _, _ => false end.
Definition gitem_eqb (a b : gitem) : bool :=
  match a, b with GStr x, GStr y => str_eqb x y | GRef r, GRef q => gref_eqb r q | _, _ => false end.
Definition gattr_eqb (a b : gattr) : bool :=
  str_eqb (ga_name a) (ga_name b) && str_eqb (ga_type a) (ga_type b) && Bool.eqb (ga_arr a) (ga_arr b) && list_eqb gitem_eqb (ga_items a) (ga_items b).
Definition gelem_eqb (a b : gelem) : bool :=
  str_eqb (ge_type a) (ge_type b) && str_eqb (ge_id a) (ge_id b) && str_eqb (ge_name a) (ge_name b) && list_eqb gattr_eqb (ge_attrs a) (ge_attrs b).
Fixpoint nat_nodup (l : list nat) : bool :=
  match l with [] => true | x :: r => negb (existsb (Nat.eqb x) r) && nat_nodup r end.
Definition graph_iso_b (s : nat -> nat) (g g' : gdoc) : bool :=
  Nat.eqb (length g') (length g) &&
  forallb (fun i => Nat.ltb (s i) (length g') && gelem_eqb (nth (s i) g' dflt_gelem) (ren_elem s (nth i g dflt_gelem))) (seq 0 (length g)) &&
  nat_nodup (map s (seq 0 (length g))).

Lemma list_eqb_eq {A} (f : A -> A -> bool) : (forall x y, f x y = true -> x = y) -> forall a b, list_eqb f a b = true -> a = b.
Proof.
  intros Hf. induction a as [|x a IH]; intros [|y b] H; cbn [list_eqb] in H; try discriminate; [reflexivity|].
  apply andb_prop in H. destruct H as [H1 H2]. f_equal; [now apply Hf|now apply IH].
Qed.
Lemma gitem_eqb_eq a b : gitem_eqb a b = true -> a = b.
Proof.
  destruct a as [x|[i| |u]]; destruct b as [y|[j| |v]]; cbn [gitem_eqb gref_eqb]; intros H; try discriminate; try reflexivity.
  - apply str_eqb_eq in H. now subst.
  - apply Nat.eqb_eq in H. now subst.
  - apply str_eqb_eq in H. now subst.
Qed.
Lemma gattr_eqb_eq a b : gattr_eqb a b = true -> a = b.
Proof.
  destruct a as [n t r l]; destruct b as [n' t' r' l']. unfold gattr_eqb. cbn [ga_name ga_type ga_arr ga_items]. intros H.
  apply andb_prop in H. destruct H as [H H4]. apply andb_prop in H. destruct H as [H H3]. apply andb_prop in H. destruct H as [H1 H2].
  apply str_eqb_eq in H1. apply str_eqb_eq in H2. apply Bool.eqb_prop in H3. apply (list_eqb_eq _ gitem_eqb_eq) in H4. now subst.
Qed.
Lemma gelem_eqb_eq a b : gelem_eqb a b = true -> a = b.
Proof.
  destruct a as [t i n l]; destruct b as [t' i' n' l']. unfold gelem_eqb. cbn [ge_type ge_id ge_name ge_attrs]. intros H.
  apply andb_prop in H. destruct H as [H H4]. apply andb_prop in H. destruct H as [H H3]. apply andb_prop in H. destruct H as [H1 H2].
  apply str_eqb_eq in H1. apply str_eqb_eq in H2. apply str_eqb_eq in H3. apply (list_eqb_eq _ gattr_eqb_eq) in H4. now subst.
Qed.
Lemma nat_nodup_NoDup l : nat_nodup l = true -> NoDup l.
Proof.
  induction l as [|x l IH]; intros H; [constructor|]. cbn [nat_nodup] in H. apply andb_prop in H. destruct H as [Hx Hl].
  constructor; [|now apply IH]. intros Hin. apply negb_true_iff in Hx.
  assert (existsb (Nat.eqb x) l = true) by (apply existsb_exists; exists x; split; [assumption|apply Nat.eqb_refl]). congruence.
Qed.

Theorem graph_iso_b_sound s g g' : graph_iso_b s g g' = true -> graph_iso s g g'.
Proof.
  unfold graph_iso_b. intros H. apply andb_prop in H. destruct H as [H H3]. apply andb_prop in H. destruct H as [H1 H2].
  apply Nat.eqb_eq in H1. rewrite forallb_forall in H2. apply nat_nodup_NoDup in H3. split; [exact H1|split].
  - intros i Hi. specialize (H2 i). rewrite in_seq in H2. specialize (H2 ltac:(lia)). apply andb_prop in H2. destruct H2 as [A B].
    apply Nat.ltb_lt in A. apply gelem_eqb_eq in B. split; assumption.
  - intros i j Hi Hj E.
    assert (Li : i < length (map s (seq 0 (length g)))) by (now rewrite map_length, seq_length).
    assert (Lj : j < length (map s (seq 0 (length g)))) by (now rewrite map_length, seq_length).
    apply (proj1 (NoDup_nth (map s (seq 0 (length g))) 0) H3 i j Li Lj).
    rewrite !(nth_indep _ 0 (s 0)) by assumption. rewrite !map_nth, !seq_nth by assumption. exact E.
Qed.

Example graph_iso_b_example :
  match nest_doc ex_graph (ex_isroot pinned_rootcfg ex_graph) false with
  | Some d => match link (unnest d) with Some g' => graph_iso_b (by_id ex_graph g') ex_graph g' | None => false end
  | None => false
  end = true /\
  (* a reference redirected to another element is not an isomorphic graph *)
  graph_iso_b (by_id ex_shared ex_shared) ex_shared ex_shared = true /\
  graph_iso_b (by_id ex_shared [nth 0 ex_shared dflt_gelem; {| ge_type := [85%N]; ge_id := [98%N]; ge_name := [];
      ge_attrs := [ {| ga_name := [107%N]; ga_type := s_element; ga_arr := false; ga_items := [GRef (GElem 0)] |} ] |}])
    ex_shared [nth 0 ex_shared dflt_gelem; {| ge_type := [85%N]; ge_id := [98%N]; ge_name := [];
      ge_attrs := [ {| ga_name := [107%N]; ga_type := s_element; ga_arr := false; ga_items := [GRef (GElem 0)] |} ] |}] = false.
Proof. vm_compute. repeat split. Qed.
