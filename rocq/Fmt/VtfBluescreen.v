(** C15 — the two "bluescreen" codecs RGB888_BLUESCREEN / BGR888_BLUESCREEN of [srctools._py_vtf_readwrite] (round 4).

    They store three bytes per pixel and key transparency on one colour:
    [save]: a pixel whose alpha is below 128 is stored as pure blue (0, 0, 255), any other pixel as its (r, g, b);
    [load]: a stored pure blue gives the transparent black pixel (0, 0, 0, 0), anything else (r, g, b, 255).
    Their per-pixel code is an [if] statement on [alpha < 128] resp. [r == g == 0 and b == 255], which is outside the
    single-bit symbolic evaluator of VtfPixelExpr.v ([sym] cannot decide 24-bit case distinctions), so the round-trip law
    is proved here by hand for a hand-written codec over the same expression language, and the codec regenerated from
    the source (translate/c15_pixel.py: the [if] is translated into [ETest] chains of exactly this shape) is compared
    with it by [codec_eqb] in the kernel (instance obligation).  For byte values [x < 128] is "bit 7 is clear" and
    [x == c] is "all eight bits agree with c": [eq_byte]. *)
From Coq Require Import NArith List Bool.
From SV Require Import Fmt.VtfPixelExpr.
Import ListNotations.
Open Scope N_scope.

(** [yes] if the low [k] bits of the byte [x] are those of the constant [c], else [no]: bit k-1 is tested outermost *)
Fixpoint eq_chain (x : expr) (c : N) (k : nat) (yes no : expr) : expr :=
  match k with
  | O => yes
  | S k' => if N.testbit c (N.of_nat k')
            then ETest x (N.of_nat k') (eq_chain x c k' yes no) no
            else ETest x (N.of_nat k') no (eq_chain x c k' yes no)
  end.
Definition eq_byte (x : expr) (c : N) (yes no : expr) : expr := eq_chain x c 8 yes no.

(** value-level reading of the chain *)
Fixpoint agree (v c : N) (k : nat) : bool :=
  match k with
  | O => true
  | S k' => Bool.eqb (N.testbit v (N.of_nat k')) (N.testbit c (N.of_nat k')) && agree v c k'
  end.

(** [stored byte 0 == c0 and byte 1 == c1 and byte 2 == c2 ? yes : no]: the tests nested in the order of the bytes *)
Definition is_key (c0 c1 c2 : N) (yes no : expr) : expr :=
  eq_byte (EVar 0) c0 (eq_byte (EVar 1) c1 (eq_byte (EVar 2) c2 yes no) no) no.

(** the hand-written codec; [bgr = false]: stored as r, g, b; [bgr = true]: stored as b, g, r.
    The key colour is pure blue: (0, 0, 255) in r, g, b order. *)
Definition bs_save (bgr : bool) : list expr :=
  let r := ETest vA 7 vR (EConst 0) in let g := ETest vA 7 vG (EConst 0) in let b := ETest vA 7 vB (EConst 255) in
  if bgr then [b; g; r] else [r; g; b].
Definition bs_load (bgr : bool) : list expr :=
  let r := EVar (if bgr then 2 else 0)%nat in let g := EVar 1 in let b := EVar (if bgr then 0 else 2)%nat in
  let key := if bgr then is_key 255 0 0 else is_key 0 0 255 in
  [key (EConst 0) r; key (EConst 0) g; key (EConst 0) b; key (EConst 0) (EConst 255)].
Definition bs_codec (bgr : bool) : codec := {| bpp := 3; save_e := bs_save bgr; load_e := bs_load bgr |}.

Fixpoint exprs_eqb (l1 l2 : list expr) : bool :=
  match l1, l2 with
  | [], [] => true
  | a :: r1, b :: r2 => expr_eqb a b && exprs_eqb r1 r2
  | _, _ => false
  end.
Definition codec_eqb (c d : codec) : bool :=
  Nat.eqb (bpp c) (bpp d) && exprs_eqb (save_e c) (save_e d) && exprs_eqb (load_e c) (load_e d).
(** the boolean premise about a generated codec *)
Definition bs_ok (bgr : bool) (c : codec) : bool := codec_eqb c (bs_codec bgr).

(** the documented behaviour: what a pixel looks like after save and load *)
Definition bluescreen_q (r g b a : N) : list N :=
  if a <? 128 then [0; 0; 0; 0]
  else if (r =? 0) && (g =? 0) && (b =? 255) then [0; 0; 0; 0]
  else [r; g; b; 255].
(** what is stored for a pixel, in r, g, b order *)
Definition bluescreen_stored (r g b a : N) : list N := if a <? 128 then [0; 0; 255] else [r; g; b].
Definition in_order (bgr : bool) (l : list N) : list N := if bgr then rev l else l.

(** a wrong shape for the refutation: the alpha test on bit 6 (alpha < 64 ... not "below 128") *)
Definition bs_save_bit6 : list expr := [ETest vA 6 vR (EConst 0); ETest vA 6 vG (EConst 0); ETest vA 6 vB (EConst 255)].
