(* TextLines.v -- what a text writer writes with one `file.write(template)`, as a list of self-delimiting items
   regenerated from the source (Gen/TextFields_gen.v: snd_lines, from sndscript.Sound.export): whitespace, newline,
   braces, quoted literal, quoted raw field, quoted escaped field, bare keyword + the delimiter written after it,
   bare field + the delimiter written after it.  `render` is the written text for given field values, `toks` the
   tokens the reader must see.  Definitions only; the lemma is in TextLinesProofs.v. *)
From Coq Require Import List NArith Bool.
From SV Require Import KV.KvBase KV.KvLex KV.KvSym Fmt.TextFields.
Import ListNotations.
Open Scope N_scope.

Inductive titem :=
| IWs (s : str)              (* spaces / tabs *)
| IInd                       (* the run-time indent `{indent}` of the writer: any whitespace *)
| INl                        (* \n *)
| IBO | IBC                  (* { } *)
| IQLit (s : str)            (* "literal" *)
| IQRaw                      (* "{x}" *)
| IQEsc                      (* "{escape_text(x)}" *)
| IWord (w : str) (d : char) (* keyword followed by the delimiter d (space, tab or newline) *)
| IBare (d : char).          (* {x} outside quotes, followed by the delimiter d *)

Definition delim_ok (d : char) : bool := (d =? SP) || (d =? TAB) || (d =? LF).
Definition dtoks (d : char) : list tok := if d =? LF then [TNL] else [].
Definition dline (d : char) (l : N) : N := if d =? LF then l + 1 else l.

(** a bare word: not empty, no delimiter of the bare mode, does not start a comment / directive / BOM *)
Definition word_ok (w : str) : bool :=
  match w with
  | [] => false
  | h :: t => negb (bare_disallowed h) && negb (h =? 47) && negb (h =? 35) && negb (h =? 65279)
              && forallb (fun c => negb (bare_disallowed c)) t
  end.

Fixpoint render (E : escfg) (ind : str) (its : list titem) (vs : list str) : str :=
  match its with
  | [] => []
  | IWs s :: r => s ++ render E ind r vs
  | IInd :: r => ind ++ render E ind r vs
  | INl :: r => [LF] ++ render E ind r vs
  | IBO :: r => [123] ++ render E ind r vs
  | IBC :: r => [125] ++ render E ind r vs
  | IQLit s :: r => (DQ :: s ++ [DQ]) ++ render E ind r vs
  | IQRaw :: r => match vs with v :: vs' => (DQ :: v ++ [DQ]) ++ render E ind r vs' | [] => [] end
  | IQEsc :: r => match vs with v :: vs' => (DQ :: escape E v ++ [DQ]) ++ render E ind r vs' | [] => [] end
  | IWord w d :: r => (w ++ [d]) ++ render E ind r vs
  | IBare d :: r => match vs with v :: vs' => (v ++ [d]) ++ render E ind r vs' | [] => [] end
  end.

Fixpoint toks (its : list titem) (vs : list str) : list tok :=
  match its with
  | [] => []
  | IWs _ :: r | IInd :: r => toks r vs
  | INl :: r => [TNL] ++ toks r vs
  | IBO :: r => [TBO] ++ toks r vs
  | IBC :: r => [TBC] ++ toks r vs
  | IQLit s :: r => [TStr s] ++ toks r vs
  | IQRaw :: r | IQEsc :: r => match vs with v :: vs' => [TStr v] ++ toks r vs' | [] => [] end
  | IWord w d :: r => (TStr w :: dtoks d) ++ toks r vs
  | IBare d :: r => match vs with v :: vs' => (TStr v :: dtoks d) ++ toks r vs' | [] => [] end
  end.

Fixpoint lines (its : list titem) (l : N) : N :=
  match its with
  | [] => l
  | INl :: r => lines r (l + 1)
  | IWord _ d :: r | IBare d :: r => lines r (dline d l)
  | _ :: r => lines r l
  end.

Fixpoint items_ok (its : list titem) : bool :=
  match its with
  | [] => true
  | IWs s :: r => ws_only s && items_ok r
  | IQLit s :: r => raw_safe s && items_ok r
  | IWord w d :: r => word_ok w && delim_ok d && items_ok r
  | IBare d :: r => delim_ok d && items_ok r
  | _ :: r => items_ok r
  end.

(** one value per field; a raw quoted field holds no quote / backslash / line break, a bare field is a bare word *)
Fixpoint vals_ok (its : list titem) (vs : list str) : bool :=
  match its with
  | [] => match vs with [] => true | _ => false end
  | IQRaw :: r => match vs with v :: vs' => raw_safe v && vals_ok r vs' | [] => false end
  | IQEsc :: r => match vs with _ :: vs' => vals_ok r vs' | [] => false end
  | IBare _ :: r => match vs with v :: vs' => word_ok v && vals_ok r vs' | [] => false end
  | _ :: r => vals_ok r vs
  end.

Definition n_fields (its : list titem) : nat :=
  length (filter (fun i => match i with IQRaw | IQEsc | IBare _ => true | _ => false end) its).
