(** The NUL-terminated string codec of the VPK directory tree as it is written in vpk.py: [_write_nullstring] (writer) and the
    generator [iter_nullstr] (reader), over a description of their code shape that the translator reads from the source
    (Gen/VpkNullStr_gen.v, [g_ncodec]).

    The tree stores every extension, folder path and file stem as one such string of unbounded length.  [Fmt/VpkDir.v] models the
    reader as [read_cstr] (take bytes up to the next NUL, whatever their number); here the *loop shape* of the reader is a parameter,
    so that "reads strings of every length" becomes a statement about today's source ([ncodec_ok g_ncodec], an instance obligation)
    instead of a modelling assumption.  A file is the list of bytes from the current position on; [tell]/[seek] become list suffixes.
    Executable definitions only; proofs are in VpkNullStrProofs.v. *)
From Coq Require Import List NArith Bool.
From SV Require Import Fmt.VpkDir SM.Vpk.
Import ListNotations.
Open Scope N_scope.

(** How one string is taken off the file.
    - [RAccum n]:  [chars = bytearray()], then repeatedly [c = file.read(n)]: [c == b'\x00'] completes the string, [c == b''] raises
      (EOF), anything else is appended to [chars].  (vpk.py today: [RAccum 1].)
    - [RBlock n]:  [start = file.tell(); block = file.read(n); end = block.find(b'\x00')]; not found raises; otherwise
      [file.seek(start + end + 1)] and the string is [block[:end]].  One block only.
    - [RBlockLoop n]: as [RBlock], but a block without NUL is appended to [chars] and the next block is read; an empty block raises. *)
Inductive nreader :=
| RAccum (n : N)
| RBlock (n : N)
| RBlockLoop (n : N)
| RBlockLoopRel (n : N).   (* blocks in an inner loop, [start] taken once before the first block, then [seek(start + end + 1)] with [end]
                              relative to the LAST block: right only when the terminator is in the first block (seeded c13_6) *)

(** [bytes.find(b'\x00')] *)
Fixpoint find0 (b : bytes) : option nat :=
  match b with
  | [] => None
  | x :: r => if x =? 0 then Some O else match find0 r with Some e => Some (S e) | None => None end
  end.

(** Result: (the string, the rest of the file after the position the reader leaves); [None] = the reader raises.
    The buffer [chars] is kept in reverse ([racc]) so that the model runs in linear time on long strings. *)
Fixpoint accum_loop (fuel n : nat) (racc bs : bytes) : option (bytes * bytes) :=
  match fuel with O => None | S f =>
    let c := firstn n bs in
    if bytes_eqb c [0] then Some (rev racc, skipn n bs)
    else match c with [] => None | _ => accum_loop f n (rev_append c racc) (skipn n bs) end
  end.

Definition block_once (n : nat) (bs : bytes) : option (bytes * bytes) :=
  match find0 (firstn n bs) with None => None | Some e => Some (firstn e bs, skipn (S e) bs) end.

Fixpoint block_loop (fuel n : nat) (racc bs : bytes) : option (bytes * bytes) :=
  match fuel with O => None | S f =>
    let c := firstn n bs in
    match find0 c with
    | Some e => Some (rev racc ++ firstn e bs, skipn (S e) bs)
    | None => match c with [] => None | _ => block_loop f n (rev_append c racc) (skipn n bs) end
    end
  end.

(** as [block_loop], but the position left is [start + end + 1] counted from where the first block began ([orig]) *)
Fixpoint block_loop_rel (fuel n : nat) (racc bs orig : bytes) : option (bytes * bytes) :=
  match fuel with O => None | S f =>
    let c := firstn n bs in
    match find0 c with
    | Some e => Some (rev racc ++ firstn e bs, skipn (S e) orig)
    | None => match c with [] => None | _ => block_loop_rel f n (rev_append c racc) (skipn n bs) orig end
    end
  end.

(** Every iteration that continues consumed at least one byte, so [S (length bs)] iterations are always enough. *)
Definition read_cstr_r (r : nreader) (bs : bytes) : option (bytes * bytes) :=
  match r with
  | RAccum n => accum_loop (S (length bs)) (N.to_nat n) [] bs
  | RBlock n => block_once (N.to_nat n) bs
  | RBlockLoop n => block_loop (S (length bs)) (N.to_nat n) [] bs
  | RBlockLoopRel n => block_loop_rel (S (length bs)) (N.to_nat n) [] bs bs
  end.

(** The shapes that read a string of every length: one byte at a time, or blocks of any positive size in a loop. *)
Definition reader_ok (r : nreader) : bool :=
  match r with RAccum n => n =? 1 | RBlock _ => false | RBlockLoop n => 0 <? n | RBlockLoopRel _ => false end.

(** Both functions.  [nc_term]: what the writer appends to a non-empty string; [nc_blank_w]: what it writes for the empty string;
    [nc_blank_r]: the string the reader turns into the empty string; [nc_dispatch]: the reader's three-way dispatch was recognised as
    "that string -> yield '', the empty string -> return (end of section), anything else -> yield it";
    [nc_same_codec]: [str.encode] in the writer and [bytes.decode] in the reader name the same codec and error handler. *)
Record ncodec := { nc_reader : nreader; nc_term : bytes; nc_blank_w : bytes; nc_blank_r : bytes;
                   nc_dispatch : bool; nc_same_codec : bool }.

Definition write_cstr_k (k : ncodec) (s : bytes) : bytes :=
  match s with [] => nc_blank_w k | _ => s ++ nc_term k end.

(** One step of the generator: [Some (None, r)] = end of section, [Some (Some s, r)] = yields [s]. *)
Definition next_str_k (k : ncodec) (bs : bytes) : option (option bytes * bytes) :=
  match read_cstr_r (nc_reader k) bs with
  | None => None
  | Some (s, r) => if bytes_eqb s (nc_blank_r k) then Some (Some [], r)
                   else match s with [] => Some (None, r) | _ => Some (Some s, r) end
  end.

(** The whole generator, run to its end: the strings it yields and the rest of the file. *)
Fixpoint iter_k (fuel : nat) (k : ncodec) (bs : bytes) : option (list bytes * bytes) :=
  match fuel with O => None | S f =>
    match next_str_k k bs with
    | None => None
    | Some (None, r) => Some ([], r)
    | Some (Some s, r) => match iter_k f k r with Some (l, r') => Some (s :: l, r') | None => None end
    end
  end.
Definition iter_nullstr_k (k : ncodec) (bs : bytes) : option (list bytes * bytes) := iter_k (S (length bs)) k bs.

(** What the writer emits for a section: every string, then the empty string's single NUL. *)
Definition write_section_k (k : ncodec) (l : list bytes) : bytes := flat_map (write_cstr_k k) l ++ [0].

Definition ncodec_ok (k : ncodec) : bool :=
  reader_ok (nc_reader k) && bytes_eqb (nc_term k) [0] && bytes_eqb (nc_blank_r k) [32]
  && bytes_eqb (nc_blank_w k) (nc_blank_r k ++ nc_term k) && nc_dispatch k && nc_same_codec k.

(** vpk.py as pinned, and the shape of seeded fault c13_4, for the examples and refutations. *)
Definition ncodec_pinned : ncodec :=
  {| nc_reader := RAccum 1; nc_term := [0]; nc_blank_w := [32; 0]; nc_blank_r := [32]; nc_dispatch := true; nc_same_codec := true |}.
Definition ncodec_block (n : N) : ncodec :=
  {| nc_reader := RBlock n; nc_term := [0]; nc_blank_w := [32; 0]; nc_blank_r := [32]; nc_dispatch := true; nc_same_codec := true |}.

(** For the correspondence (checks/c13.py): compare with what the implementation yielded. *)
Fixpoint blist_eqb (a b : list bytes) : bool :=
  match a, b with [], [] => true | x :: a', y :: b' => bytes_eqb x y && blist_eqb a' b' | _, _ => false end.
Definition check_nullstr (k : ncodec) (bs : bytes) (ex : option (list bytes * N)) : bool :=
  match iter_nullstr_k k bs, ex with
  | None, None => true
  | Some (l, r), Some (l', n) => blist_eqb l l' && (len r =? n)
  | _, _ => false
  end.
Definition check_wcstr (k : ncodec) (s out : bytes) : bool := bytes_eqb (write_cstr_k k s) out.
