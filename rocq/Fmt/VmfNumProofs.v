(** C06, round 3: proofs about Fmt/VmfNum.v (axiom-free). *)
From Coq Require Import ZArith NArith List String Bool Lia ZifyBool.
From SV Require Import Fmt.VmfText Fmt.VmfTextProofs Fmt.VmfNum.
Import ListNotations.
Open Scope Z_scope.

Lemma p10_pos p : 0 < p10 p.
Proof. unfold p10. apply Z.pow_pos_nonneg; lia. Qed.

Lemma p10_ge6 p : (6 <= p)%nat -> 10 ^ 6 <= p10 p.
Proof. intros H. unfold p10. apply Z.pow_le_mono_r; lia. Qed.

(** A format that [meets] a class keeps every number within that class. *)
Theorem meets_sound f c : meets f c = true ->
  forall m d wn wd, 0 < d -> 0 < wd -> writes f m d wn wd -> within c m d wn wd.
Proof.
  intros Hm m d wn wd Hd Hwd Hw.
  assert (Hex : wn * d = m * wd -> within c m d wn wd).
  { intros E. destruct c; cbn [within]; [exact E| |]; replace (wn * d - m * wd) with 0 by lia; cbn [Z.abs]; nia. }
  destruct f as [| | |p|p]; cbn [writes] in Hw; try (apply Hex; exact Hw).
  - (* FmtF *)
    destruct c; cbn [meets] in Hm; try discriminate. apply Nat.leb_le in Hm.
    destruct Hw as [-> ->]. cbn [within].
    pose proof (round_he_error (m * p10 p) d Hd) as H.
    pose proof (p10_ge6 p Hm) as H6. pose proof (p10_pos p) as Hp.
    set (r := round_he (m * p10 p) d) in *. set (P := p10 p) in *.
    assert (2 * 10 ^ 6 * Z.abs (r * d - m * P) <= 10 ^ 6 * d) by lia.
    assert (10 ^ 6 * d <= d * P) by nia. lia.
  - (* FmtG *)
    destruct c; cbn [meets] in Hm; try discriminate. apply Nat.leb_le in Hm.
    cbn [within]. destruct Hw as [[-> ->]|(sn & sd & Hsn & Hsd & Hx & -> & ->)]; [cbn; lia|].
    pose proof (round_he_error (m * sd) (d * sn) ltac:(nia)) as H.
    set (r := round_he (m * sd) (d * sn)) in *.
    assert (H5 : 10 ^ 5 <= 10 ^ (Z.of_nat p - 1)) by (apply Z.pow_le_mono_r; lia).
    replace (r * sn * d - m * sd) with (r * (d * sn) - m * sd) by ring.
    assert (2 * 10 ^ 5 * Z.abs (r * (d * sn) - m * sd) <= 10 ^ 5 * (d * sn)) by lia.
    assert (10 ^ 5 * (d * sn) <= 10 ^ (Z.of_nat p - 1) * (sn * d)) by nia.
    lia.
Qed.

(** ... for every number of every field of a generated table. *)
Theorem field_meets_sound b k i c l : field_meets b k i c l = true ->
  (exists f, In f l /\ nf_block f = b /\ nf_key f = k /\ nf_idx f = i) /\
  forall f, In f l -> nf_block f = b -> nf_key f = k -> nf_idx f = i ->
  forall x, In x (nf_fmts f) -> forall m d wn wd, 0 < d -> 0 < wd -> writes x m d wn wd -> within c m d wn wd.
Proof.
  unfold field_meets. intros H. apply andb_true_iff in H. destruct H as [Hne Hall].
  assert (Hat : forall f, nf_at b k i f = true <-> nf_block f = b /\ nf_key f = k /\ nf_idx f = i).
  { intros f. unfold nf_at. rewrite !andb_true_iff, !String.eqb_eq, N.eqb_eq. tauto. }
  split.
  - destruct (filter (nf_at b k i) l) as [|f r] eqn:E; [discriminate|].
    assert (Hin : In f (filter (nf_at b k i) l)) by (rewrite E; left; reflexivity).
    apply filter_In in Hin. destruct Hin as [Hin Hf]. exists f. split; [exact Hin|]. apply Hat. exact Hf.
  - intros f Hin Hb Hk Hi x Hx. rewrite forallb_forall in Hall.
    assert (Hf : In f (filter (nf_at b k i) l)) by (apply filter_In; split; [exact Hin|apply Hat; auto]).
    specialize (Hall f Hf). rewrite forallb_forall in Hall. apply meets_sound. apply Hall. exact Hx.
Qed.

Theorem all_fields_meet_sound req l : all_fields_meet req l = true ->
  forall f, In f l -> forall x, In x (nf_fmts f) ->
  forall m d wn wd, 0 < d -> 0 < wd -> writes x m d wn wd -> within (req f) m d wn wd.
Proof.
  unfold all_fields_meet. intros H f Hf x Hx. rewrite forallb_forall in H. specialize (H f Hf).
  rewrite forallb_forall in H. apply meets_sound. apply H. exact Hx.
Qed.

(** The table [meets] is tight: the false entries are really false. *)
(* six decimals are not six significant digits: 1/30 is written 0.033333 *)
Theorem f6_not_sig6 : exists m d wn wd, 0 < d /\ 0 < wd /\ writes (FmtF 6) m d wn wd /\ ~ within PSig6 m d wn wd.
Proof. exists 1, 30, 33333, (10 ^ 6). repeat split; try lia; try reflexivity. cbn. lia. Qed.
(* six significant digits are not six decimals: 1234567.5 is written 1.23457e+06 *)
Theorem g6_not_abs6 : exists m d wn wd, 0 < d /\ 0 < wd /\ writes (FmtG 6) m d wn wd /\ ~ within PAbs6 m d wn wd.
Proof.
  exists 2469135, 2, 1234570, 1. repeat split; try lia.
  - right. exists 10, 1. repeat split; try lia; reflexivity.
  - cbn. lia.
Qed.
(* five decimals are not within 5e-7: 0.0000049 is written 0 *)
Theorem f5_not_abs6 : exists m d wn wd, 0 < d /\ 0 < wd /\ writes (FmtF 5) m d wn wd /\ ~ within PAbs6 m d wn wd.
Proof. exists 49, (10 ^ 7), 0, (10 ^ 5). repeat split; try lia; try reflexivity. cbn. lia. Qed.
(* five significant digits are not six *)
Theorem g5_not_sig6 : exists m d wn wd, 0 < d /\ 0 < wd /\ writes (FmtG 5) m d wn wd /\ ~ within PSig6 m d wn wd.
Proof.
  exists 100004, 1, 100000, 1. repeat split; try lia.
  - right. exists 10, 1. repeat split; try lia; reflexivity.
  - cbn. lia.
Qed.
Theorem f6_not_exact : exists m d wn wd, 0 < d /\ 0 < wd /\ writes (FmtF 6) m d wn wd /\ ~ within PExact m d wn wd.
Proof. exists 1, 3, 333333, (10 ^ 6). repeat split; try lia; try reflexivity. cbn. lia. Qed.

(** Non-vacuity: 1/3 written with six decimals. *)
Example writes_f6_third : writes (FmtF 6) 1 3 333333 (10 ^ 6) /\ within PAbs6 1 3 333333 (10 ^ 6).
Proof. split; [split; reflexivity|cbn; lia]. Qed.
Example writes_g6_big : writes (FmtG 6) 2469135 2 1234570 1 /\ within PSig6 2469135 2 1234570 1.
Proof. split; [right; exists 10, 1; repeat split; try lia; reflexivity|cbn; lia]. Qed.
