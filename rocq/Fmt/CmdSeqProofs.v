(** Proofs about the command-sequence model (Fmt/CmdSeq.v). *)
From Coq Require Import List NArith ZArith Bool Arith Lia ZifyBool.
Import ListNotations.
From SV Require Import Fmt.CmdSeq.
Open Scope N_scope.


(** ** little endian *)
Lemma de32_le32 : forall n, n < 4294967296 ->
  de32 (n mod 256) ((n / 256) mod 256) ((n / 65536) mod 256) ((n / 16777216) mod 256) = n.
Proof.
  intros n H. unfold de32.
  replace (n / 65536) with (n / 256 / 256) by (rewrite N.div_div by lia; reflexivity).
  replace (n / 16777216) with (n / 256 / 256 / 256) by (rewrite !N.div_div by lia; reflexivity).
  pose proof (N.div_mod n 256 ltac:(lia)) as H0.
  pose proof (N.div_mod (n / 256) 256 ltac:(lia)) as H1.
  pose proof (N.div_mod (n / 256 / 256) 256 ltac:(lia)) as H2.
  assert (H3 : n / 256 / 256 / 256 < 256).
  { rewrite !N.div_div by lia. apply N.div_lt_upper_bound; lia. }
  rewrite (N.mod_small (n / 256 / 256 / 256) 256) by exact H3.
  generalize dependent (n / 256 / 256 / 256). generalize dependent (n / 256 / 256 mod 256).
  generalize dependent (n / 256 / 256). generalize dependent (n / 256 mod 256).
  generalize dependent (n / 256). generalize dependent (n mod 256). intros. lia.
Qed.

Lemma rd_u32_le32 : forall n r, n < 4294967296 -> rd_u32 (le32 n ++ r) = Some (n, r).
Proof. intros n r H. unfold le32, rd_u32. cbn [app]. rewrite de32_le32 by exact H. reflexivity. Qed.

Lemma le32_length : forall n, length (le32 n) = 4%nat.
Proof. reflexivity. Qed.

Local Opaque le32.

(** ** readers *)
Lemma firstn_len_app {A} : forall (a r : list A), firstn (length a) (a ++ r) = a.
Proof. induction a; intros; cbn; [reflexivity | now rewrite IHa]. Qed.
Lemma skipn_len_app {A} : forall (a r : list A), skipn (length a) (a ++ r) = r.
Proof. induction a; intros; cbn; [reflexivity | now rewrite IHa]. Qed.

Lemma rd_bytes_app : forall a r n, length a = n -> rd_bytes n (a ++ r) = Some (a, r).
Proof.
  intros a r n <-. unfold rd_bytes. rewrite app_length.
  replace (length a <=? length a + length r)%nat with true by (symmetry; apply Nat.leb_le; lia).
  now rewrite firstn_len_app, skipn_len_app.
Qed.

Lemma zeros_length : forall k, length (zeros k) = k.
Proof. intros. apply repeat_length. Qed.

(** ** struct: unpack inverts pack *)
Lemma unpack_pack : forall fmt off vals b r,
  pack off fmt vals = Some b -> unpack off fmt (b ++ r) = Some (vals, r).
Proof.
  induction fmt as [|f fmt IH]; intros off vals b r H.
  - destruct vals; [|discriminate]. injection H as <-. reflexivity.
  - destruct f; destruct vals as [|v vals]; try discriminate; destruct v; try discriminate; cbn [pack] in H.
    + destruct (b0 <? 256); [|discriminate].
      destruct (pack (off + 1) fmt vals) eqn:E; [|discriminate]. injection H as <-.
      cbn [unpack app]. now rewrite (IH _ _ _ r E).
    + destruct (i <? 4294967296) eqn:Hi; [|discriminate].
      destruct (pack (off + pad4 off + 4) fmt vals) eqn:E; [|discriminate]. injection H as <-.
      cbn [unpack]. rewrite <- app_assoc.
      rewrite (rd_bytes_app (zeros (pad4 off)) _ (pad4 off) (zeros_length _)).
      rewrite <- app_assoc. rewrite rd_u32_le32 by (apply N.ltb_lt; exact Hi).
      now rewrite (IH _ _ _ r E).
    + destruct (length s =? n)%nat eqn:Hn; [|discriminate]. apply Nat.eqb_eq in Hn.
      destruct (pack (off + n) fmt vals) eqn:E; [|discriminate]. injection H as <-.
      cbn [unpack]. rewrite <- app_assoc. rewrite (rd_bytes_app s _ n Hn).
      now rewrite (IH _ _ _ r E).
Qed.

(** ** strings *)
Definition str_ok (w : nat) (s : list N) : Prop := (length s <= w)%nat /\ Forall (fun c => 0 < c /\ c < 128) s.

Lemma str_okb_ok : forall w s, str_okb w s = true -> str_ok w s.
Proof.
  intros w s H. unfold str_okb in H. apply andb_true_iff in H. destruct H as [H1 H2]. split.
  - now apply Nat.leb_le.
  - apply Forall_forall. intros c Hc. rewrite forallb_forall in H2. specialize (H2 c Hc). lia.
Qed.

Lemma str_ok_ascii : forall w s, str_ok w s -> asciib s = true.
Proof.
  intros w s [_ H]. unfold asciib. apply forallb_forall. intros c Hc.
  rewrite Forall_forall in H. specialize (H c Hc). lia.
Qed.

Lemma pad_string_ok : forall w s, str_ok w s -> pad_string s w = Some (s ++ zeros (w - length s)).
Proof.
  intros w s H. unfold pad_string. rewrite (str_ok_ascii w s H).
  destruct H as [H _]. apply Nat.leb_le in H. now rewrite H.
Qed.

Lemma pad_length : forall w s, (length s <= w)%nat -> length (s ++ zeros (w - length s)) = w.
Proof. intros. rewrite app_length, zeros_length. lia. Qed.

Lemma upto_nul_pad : forall s k, Forall (fun c => 0 < c /\ c < 128) s -> upto_nul (s ++ zeros k) = s.
Proof.
  induction s as [|c s IH]; intros k H.
  - destruct k; reflexivity.
  - inversion H as [|? ? Hc Hs]; subst. cbn [app upto_nul].
    replace (c =? 0) with false by lia. now rewrite IH.
Qed.

Lemma strip_pad : forall w s k, str_ok w s -> strip_cstring (s ++ zeros k) = Some s.
Proof.
  intros w s k H. unfold strip_cstring. rewrite (upto_nul_pad s k (proj2 H)).
  now rewrite (str_ok_ascii w s H).
Qed.

Lemma n2b_b2n : forall b, n2b (b2n b) = b.
Proof. destruct b; reflexivity. Qed.

(** ** one command *)
Lemma lookup_specials : forall c v nm, specials_okb c = true -> lookup v (c_specials c) = Some nm ->
  v <> 0 /\ v < 4294967296 /\ str_ok (c_exe_w c) nm.
Proof.
  intros c v nm H. unfold specials_okb in H. induction (c_specials c) as [|[k x] l IH]; [discriminate|].
  cbn [forallb fst snd] in H. apply andb_true_iff in H. destruct H as [Hk Hl].
  cbn [lookup]. destruct (v =? k) eqn:E.
  - intros [= <-]. apply N.eqb_eq in E. subst k.
    apply andb_true_iff in Hk. destruct Hk as [Hk Hs]. apply andb_true_iff in Hk. destruct Hk as [Hk1 Hk2].
    repeat split; [lia | lia | apply str_okb_ok in Hs; apply Hs | apply str_okb_ok in Hs; apply Hs].
  - auto.
Qed.

Lemma fmt_eqb_eq : forall a b, fmt_eqb a b = true -> a = b.
Proof.
  induction a as [|x a IH]; destruct b as [|y b]; cbn [fmt_eqb]; intro H; try discriminate; [reflexivity|].
  apply andb_true_iff in H. destruct H as [H1 H2]. rewrite (IH b H2). f_equal.
  destruct x, y; cbn in H1; try discriminate; try reflexivity. apply Nat.eqb_eq in H1. now subst.
Qed.

Lemma fmt_v2_shape_eq : forall c, fmt_v2_shape c = true ->
  c_fmt_v2 c = [FB; FI; FS (c_exe_w c); FS (c_args_w c); FI; FI; FS (c_ens_w c); FI; FI].
Proof. intros c H. now apply fmt_eqb_eq. Qed.

Definition cmd_ok (c : cfg) (x : cmd) : Prop := cmd_okb c x = true.

Lemma pack_cmd_some : forall a b e exe_p args_p ens_p en sp chk pw nw,
  length exe_p = a -> length args_p = b -> length ens_p = e ->
  en < 256 -> sp < 4294967296 -> chk < 4294967296 -> pw < 4294967296 -> nw < 4294967296 ->
  exists bytes, bytes <> [] /\
    pack 0 [FB; FI; FS a; FS b; FI; FI; FS e; FI; FI]
      [VB en; VI sp; VS exe_p; VS args_p; VI 1; VI chk; VS ens_p; VI pw; VI nw] = Some bytes.
Proof.
  intros a b e exe_p args_p ens_p en sp chk pw nw Ha Hb He Hen Hsp Hchk Hpw Hnw.
  cbn [pack].
  replace (en <? 256) with true by lia.
  replace (sp <? 4294967296) with true by lia.
  replace (chk <? 4294967296) with true by lia.
  replace (pw <? 4294967296) with true by lia.
  replace (nw <? 4294967296) with true by lia.
  replace (1 <? 4294967296) with true by reflexivity.
  rewrite Ha, Hb, He, !Nat.eqb_refl. cbn [option_map].
  eexists. split; [|reflexivity]. discriminate.
Qed.

Theorem cmd_roundtrip : forall c x, cfg_okb c = true -> cmd_ok c x ->
  exists b, b <> [] /\ write_cmd c x = Some b /\ forall r, parse_cmd c (c_fmt_v2 c) (b ++ r) = Some (x, r).
Proof.
  intros c x Hc Hx. unfold cfg_okb in Hc. apply andb_true_iff in Hc. destruct Hc as [Hc Hver].
  apply andb_true_iff in Hc. destruct Hc as [Hshape Hspec].
  pose proof (fmt_v2_shape_eq c Hshape) as Hfmt.
  unfold cmd_ok, cmd_okb in Hx. apply andb_true_iff in Hx. destruct Hx as [Hx Hens].
  apply andb_true_iff in Hx. destruct Hx as [Hexe Hargs].
  apply str_okb_ok in Hargs.
  destruct x as [ex ar en ens pw nw]. cbn [exe args enabled ensure_file use_proc_win no_wait] in *.
  (* the (special, exe text) pair *)
  assert (Hse : exists sp txt, (match ex with
                 | ExeSpecial v => option_map (fun nm => (v, nm)) (lookup v (c_specials c))
                 | ExeStr s => Some (0, s) end) = Some (sp, txt)
              /\ sp < 4294967296 /\ str_ok (c_exe_w c) txt
              /\ (if sp =? 0 then option_map ExeStr (strip_cstring (txt ++ zeros (c_exe_w c - length txt)))
                  else match lookup sp (c_specials c) with Some _ => Some (ExeSpecial sp) | None => None end) = Some ex).
  { destruct ex as [s|v].
    - apply str_okb_ok in Hexe. exists 0, s.
      split; [reflexivity|]. split; [lia|]. split; [exact Hexe|].
      cbn. now rewrite (strip_pad _ _ _ Hexe).
    - destruct (lookup v (c_specials c)) as [nm|] eqn:El; [|discriminate].
      destruct (lookup_specials c v nm Hspec El) as (Hv0 & Hv & Hnm).
      exists v, nm.
      split; [reflexivity|]. split; [exact Hv|]. split; [exact Hnm|].
      replace (v =? 0) with false by lia. now rewrite El. }
  destruct Hse as (sp & txt & Ese & Hsp & Htxt & Hexe_back).
  (* ensure file *)
  assert (Hen : exists chk ens_p, (match ens with
                 | Some e => option_map (fun p => (1, p)) (pad_string e (c_ens_w c))
                 | None => Some (0, zeros (c_ens_w c)) end) = Some (chk, ens_p)
              /\ chk < 4294967296 /\ length ens_p = c_ens_w c
              /\ (if chk =? 0 then Some None else option_map Some (strip_cstring ens_p)) = Some ens).
  { destruct ens as [e|].
    - apply str_okb_ok in Hens. exists 1, (e ++ zeros (c_ens_w c - length e)).
      rewrite (pad_string_ok _ _ Hens).
      split; [reflexivity|]. split; [lia|]. split; [apply pad_length, Hens|].
      cbn. now rewrite (strip_pad _ _ _ Hens).
    - exists 0, (zeros (c_ens_w c)).
      split; [reflexivity|]. split; [lia|]. split; [apply zeros_length | reflexivity]. }
  destruct Hen as (chk & ens_p & Een & Hchk & Hlen_ens & Hens_back).
  destruct (pack_cmd_some (c_exe_w c) (c_args_w c) (c_ens_w c)
              (txt ++ zeros (c_exe_w c - length txt)) (ar ++ zeros (c_args_w c - length ar)) ens_p
              (b2n en) sp chk (b2n pw) (b2n nw)) as (bytes & Hne & Hpack);
    try (destruct en; cbn; lia); try (destruct pw; cbn; lia); try (destruct nw; cbn; lia);
    try apply pad_length; try apply Htxt; try apply Hargs; try assumption.
  exists bytes. split; [exact Hne|]. split.
  - unfold write_cmd. cbn [exe args enabled ensure_file use_proc_win no_wait].
    rewrite Ese. cbn [obind fst snd]. rewrite (pad_string_ok _ _ Htxt). cbn [obind].
    rewrite (pad_string_ok _ _ Hargs). cbn [obind]. rewrite Een. cbn [obind fst snd].
    rewrite Hfmt. exact Hpack.
  - intros r. unfold parse_cmd. rewrite Hfmt. rewrite (unpack_pack _ _ _ _ r Hpack).
    cbn [obind fst snd]. rewrite Hexe_back. cbn [obind]. rewrite Hens_back. cbn [obind].
    rewrite (strip_pad _ _ _ Hargs). cbn [obind]. now rewrite !n2b_b2n.
Qed.

(** ** command lists *)
Lemma lenN_cons {A} : forall (x : A) l, lenN (x :: l) = lenN l + 1.
Proof. intros. unfold lenN. cbn [length]. lia. Qed.

Lemma cmds_roundtrip : forall c l, cfg_okb c = true -> Forall (cmd_ok c) l ->
  exists b, (length l <= length b)%nat /\ write_cmds c l = Some b /\
    forall fuel r, (length l <= fuel)%nat -> parse_cmds fuel c (c_fmt_v2 c) (lenN l) (b ++ r) = Some (l, r).
Proof.
  intros c l Hc. induction l as [|x l IH]; intros Hl.
  - exists []. repeat split; [cbn; lia|]. intros fuel r _. destruct fuel; reflexivity.
  - inversion Hl as [|? ? Hx Hl']; subst. destruct (IH Hl') as (bl & Hlen & Hw & Hp).
    destruct (cmd_roundtrip c x Hc Hx) as (bx & Hne & Hwx & Hpx).
    exists (bx ++ bl). split; [|split].
    + rewrite app_length. destruct bx; [congruence|]. cbn [length]. lia.
    + cbn [write_cmds]. rewrite Hwx. cbn [obind]. rewrite Hw. reflexivity.
    + intros fuel r Hf. destruct fuel as [|f]; [cbn in Hf; lia|].
      cbn [parse_cmds]. rewrite lenN_cons. replace (lenN l + 1 =? 0) with false by lia.
      rewrite <- app_assoc. rewrite Hpx. cbn [obind fst snd].
      replace (lenN l + 1 - 1) with (lenN l) by lia.
      rewrite Hp by (cbn in Hf; lia). reflexivity.
Qed.

(** ** sequences *)
Definition seq_ok (c : cfg) (s : list N * list cmd) : Prop :=
  str_ok (c_name_w c) (fst s) /\ lenN (snd s) < 4294967296 /\ Forall (cmd_ok c) (snd s).

Lemma seqs_roundtrip : forall c l, cfg_okb c = true -> Forall (seq_ok c) l ->
  exists b, (length l <= length b)%nat /\ write_seqs c l = Some b /\
    forall fuel r, (length l <= fuel)%nat -> parse_seqs fuel c (c_fmt_v2 c) (lenN l) (b ++ r) = Some (l, r).
Proof.
  intros c l Hc. induction l as [|[name cmds] l IH]; intros Hl.
  - exists []. repeat split; [cbn; lia|]. intros fuel r _. destruct fuel; reflexivity.
  - inversion Hl as [|? ? Hx Hl']; subst. destruct (IH Hl') as (bl & Hlen & Hw & Hp).
    destruct Hx as (Hname & Hcnt & Hcmds). cbn [fst snd] in *.
    destruct (cmds_roundtrip c cmds Hc Hcmds) as (bc & Hlc & Hwc & Hpc).
    exists ((name ++ zeros (c_name_w c - length name)) ++ le32 (lenN cmds) ++ bc ++ bl). split; [|split].
    + rewrite !app_length, le32_length. cbn [length]. lia.
    + cbn [write_seqs]. rewrite (pad_string_ok _ _ Hname). cbn [obind].
      replace (lenN cmds <? 4294967296) with true by lia. cbn [obind].
      rewrite Hwc. cbn [obind]. rewrite Hw. reflexivity.
    + intros fuel r Hf. destruct fuel as [|f]; [cbn in Hf; lia|].
      cbn [parse_seqs]. rewrite lenN_cons. replace (lenN l + 1 =? 0) with false by lia.
      rewrite <- app_assoc.
      rewrite (rd_bytes_app _ _ (c_name_w c) (pad_length _ _ (proj1 Hname))). cbn [obind fst snd].
      rewrite (strip_pad _ _ _ Hname). cbn [obind].
      rewrite <- app_assoc. rewrite rd_u32_le32 by exact Hcnt. cbn [obind fst snd].
      rewrite <- !app_assoc. rewrite Hpc.
      2:{ rewrite !app_length, le32_length. lia. }
      cbn [obind fst snd]. replace (lenN l + 1 - 1) with (lenN l) by lia.
      rewrite Hp by (cbn in Hf; lia). reflexivity.
Qed.

(** ** dict *)
Lemma str_eqb_eq : forall a b, str_eqb a b = true <-> a = b.
Proof.
  induction a as [|x a IH]; destruct b as [|y b]; cbn; split; intro H; try discriminate; try reflexivity.
  - apply andb_true_iff in H. destruct H as [H1 H2]. apply N.eqb_eq in H1. apply IH in H2. now subst.
  - injection H as -> ->. rewrite N.eqb_refl. cbn. now apply IH.
Qed.

Lemma nodupb_NoDup : forall l, nodupb l = true -> NoDup l.
Proof.
  induction l as [|x l IH]; intro H; [constructor|].
  cbn [nodupb] in H. apply andb_true_iff in H. destruct H as [H1 H2]. constructor; [|auto].
  intro Hin. apply negb_true_iff in H1. assert (existsb (str_eqb x) l = true); [|congruence].
  apply existsb_exists. exists x. split; [exact Hin | now apply str_eqb_eq].
Qed.

Lemma dict_set_fresh : forall k v d, ~ In k (map fst d) -> dict_set k v d = d ++ [(k, v)].
Proof.
  induction d as [|[k' v'] d IH]; intro H; [reflexivity|].
  cbn [dict_set]. destruct (str_eqb k k') eqn:E.
  - apply str_eqb_eq in E. subst. exfalso. apply H. now left.
  - cbn [app]. rewrite IH; [reflexivity|]. intro Hin. apply H. now right.
Qed.

Lemma dict_of_nodup_gen : forall l acc, NoDup (map fst acc ++ map fst l) ->
  fold_left (fun d kv => dict_set (fst kv) (snd kv) d) l acc = acc ++ l.
Proof.
  induction l as [|[k v] l IH]; intros acc H; [now rewrite app_nil_r|].
  cbn [fold_left fst snd]. rewrite dict_set_fresh.
  - rewrite IH; [now rewrite <- app_assoc|].
    rewrite map_app. cbn [map fst]. rewrite <- app_assoc. exact H.
  - cbn [map fst] in H. apply NoDup_remove_2 in H. intro Hin. apply H. apply in_or_app. now left.
Qed.

Lemma dict_of_nodup : forall l, NoDup (map fst l) -> dict_of l = l.
Proof. intros l H. unfold dict_of. now rewrite dict_of_nodup_gen. Qed.

(** ** whole file *)
Definition repr_ok (c : cfg) (v : seqs) : Prop :=
  lenN v < 4294967296 /\ Forall (seq_ok c) v /\ NoDup (map fst v).

Lemma repr_okb_ok : forall c v, repr_okb c v = true -> repr_ok c v.
Proof.
  intros c v H. unfold repr_okb in H. apply andb_true_iff in H. destruct H as [H H3].
  apply andb_true_iff in H. destruct H as [H1 H2]. split; [lia|]. split; [|now apply nodupb_NoDup].
  apply Forall_forall. intros s Hs. rewrite forallb_forall in H2. specialize (H2 s Hs).
  apply andb_true_iff in H2. destruct H2 as [H2 Hc]. apply andb_true_iff in H2. destruct H2 as [Hn Hl].
  split; [now apply str_okb_ok|]. split; [lia|].
  apply Forall_forall. intros x Hx. rewrite forallb_forall in Hc. exact (Hc x Hx).
Qed.

Lemma str_eqb_refl : forall a, str_eqb a a = true.
Proof. intro a. now apply str_eqb_eq. Qed.

Theorem file_roundtrip : forall c v, cfg_okb c = true -> repr_ok c v ->
  exists b, write c v = Some b /\ parse c b = Some v.
Proof.
  intros c v Hc (Hn & Hs & Hd).
  destruct (seqs_roundtrip c v Hc Hs) as (b & Hlen & Hw & Hp).
  exists (c_header c ++ le32 (c_version_bits c) ++ le32 (lenN v) ++ b). split.
  - unfold write. replace (lenN v <? 4294967296) with true by lia. cbn [obind]. rewrite Hw. reflexivity.
  - unfold parse. rewrite (rd_bytes_app _ _ _ eq_refl). cbn [obind fst snd].
    rewrite str_eqb_refl. cbn [obind].
    assert (Hv : version_selects_v2 c = true).
    { unfold cfg_okb in Hc. apply andb_true_iff in Hc. apply Hc. }
    unfold version_selects_v2 in Hv. apply andb_true_iff in Hv. destruct Hv as [Hv1 Hv2].
    rewrite rd_u32_le32 by lia. cbn [obind fst snd].
    apply negb_true_iff in Hv2. rewrite Hv2.
    rewrite rd_u32_le32 by exact Hn. cbn [obind fst snd].
    specialize (Hp (S (length (c_header c ++ le32 (c_version_bits c) ++ le32 (lenN v) ++ b))) []).
    rewrite app_nil_r in Hp. rewrite Hp.
    2:{ rewrite !app_length, !le32_length. lia. }
    cbn [obind fst]. now rewrite dict_of_nodup.
Qed.

Theorem second_generation : forall c v b v', cfg_okb c = true -> repr_ok c v ->
  write c v = Some b -> parse c b = Some v' -> write c v' = Some b.
Proof.
  intros c v b v' Hc Hv Hw Hp. destruct (file_roundtrip c v Hc Hv) as (b' & Hw' & Hp').
  rewrite Hw in Hw'. injection Hw' as <-. rewrite Hp in Hp'. injection Hp' as ->. exact Hw.
Qed.

(** what the reader makes of the four ways a string can fail to be representable *)
Example nul_truncates : strip_cstring ([97; 0; 98] ++ zeros 3) = Some [97].
Proof. reflexivity. Qed.
Example too_long_rejected : pad_string [97; 98; 99] 2 = None.
Proof. reflexivity. Qed.
Example non_ascii_rejected : pad_string [233] 4 = None.
Proof. reflexivity. Qed.
