(** C14 — the KeyValues2 model instantiated with what is regenerated from the source on every run: the tokenizer
    tables of tokenizer.py (Gen/EscTables_gen.v through Text/TokGen.v, C02's translator), the keyword arguments of the
    [Tokenizer(...)] call in [parse_kv2] and the [ValueType] values (Gen/DmxCodes_gen.v). *)
From Coq Require Import NArith List Bool String.
From SV Require Import Text.Str Text.Escape Text.Tokenizer Text.TokGen Fmt.DmxKv2 Gen.DmxCodes_gen.
Import ListNotations.

Fixpoint kwarg (n : string) (l : list (string * bool)) (d : bool) : bool :=
  match l with
  | [] => d
  | (k, v) :: r => if String.eqb k n then v else kwarg n r d
  end.
(** the tokenizer's default options (from [Tokenizer.__init__]) overridden by the call's keywords *)
Definition gen_kv2_opts : opts := {|
  string_bracket := kwarg "string_bracket" gen_kv2_tok_kwargs (string_bracket default_opts);
  string_parens := kwarg "string_parens" gen_kv2_tok_kwargs (string_parens default_opts);
  allow_escapes := kwarg "allow_escapes" gen_kv2_tok_kwargs (allow_escapes default_opts);
  allow_star_comments := kwarg "allow_star_comments" gen_kv2_tok_kwargs (allow_star_comments default_opts);
  preserve_comments := kwarg "preserve_comments" gen_kv2_tok_kwargs (preserve_comments default_opts);
  colon_operator := kwarg "colon_operator" gen_kv2_tok_kwargs (colon_operator default_opts);
  plus_operator := kwarg "plus_operator" gen_kv2_tok_kwargs (plus_operator default_opts) |}.
(** [str.casefold]: character by character, from the table of the running CPython *)
Definition gen_fold (s : str) : str := flat_map gen_casefold s.

Definition gen_parse_text : str -> option kdoc := parse_text gen_tables gen_kv2_opts gen_fold gen_vtnames.
Definition gen_render_doc : kdoc -> str := render_doc gen_tables.

(** the parts of [vtnames_ok], named *)
Definition kv2_type_keywords_stable : bool := forallb (vtname_ok gen_tables gen_fold) gen_vtnames.
Definition kv2_element_and_string_are_types : bool :=
  mem_str s_element gen_vtnames && mem_str s_string gen_vtnames && negb (mem_str s_elementid gen_vtnames).
Definition kv2_literals_need_no_escape : bool :=
  forallb (literal_ok gen_tables) [s_element; s_elementid; s_id; s_name; s_string; []] &&
  str_eqb (gen_fold s_elementid) s_elementid && str_eqb (gen_fold s_string) s_string.
