From Coq Require Import List String Bool PeanoNat.
From SV Require Import Bin.Struct Bin.StructProofs Fmt.BspFormatsSpec Fmt.BspFormatsProofs Fmt.BspRecordsProofs Fmt.BspSpriteDict.
Import ListNotations.

(** Every class that goes through the dictionary: both sides name the same attribute component in every slot, use one
    well-formed format with exactly that many values, and for ANY assignment of values to the components that fits the
    format the entry is read back slot by slot. *)
Theorem sprite_dict_roundtrip : forall wf rf entries, sprite_dict_ok (wf, rf) entries = true ->
  forall c w r, In (c, w, r) entries ->
  w = r /\ exists f, parse_fmt wf = Some f /\ parse_fmt rf = Some f /\ nvalues f = List.length w /\
  forall field : string -> value, fits f (map field w) = true ->
    exists bs, pack f (map field w) = Some bs /\ unpack f bs = Some (map field r).
Proof.
  intros wf rf entries H c w r Hin. unfold sprite_dict_ok in H. apply andb_prop in H. destruct H as [_ H].
  rewrite forallb_forall in H. specialize (H _ Hin). cbn [fst snd] in H. unfold sprite_entry_ok in H.
  apply andb_prop in H. destruct H as [H Hf]. apply andb_prop in H. destruct H as [He _]. apply strs_eqb_eq in He. subst r.
  split; [reflexivity|]. destruct (parse_fmt wf) as [f|]; [|discriminate]. destruct (parse_fmt rf) as [g|]; [|discriminate].
  apply andb_prop in Hf. destruct Hf as [Hf Hn]. apply andb_prop in Hf. destruct Hf as [Hfg Hw]. apply fmt_eqb_eq in Hfg. subst g.
  exists f. split; [reflexivity|]. split; [reflexivity|]. split; [apply Nat.eqb_eq; exact Hn|].
  intros field Hfit. exact (unpack_pack f (map field w) Hw Hfit).
Qed.

Theorem sprite_dict_swapped_refuted :
  sprite_dict_ok ("<8f", "<8f")%string [("S", ["a.0"; "a.1"; "b.0"; "b.1"], ["b.0"; "b.1"; "a.0"; "a.1"])]%string = false /\
  sprite_dict_ok ("<4f", "<4f")%string [("S", ["a.0"; "a.1"; "b.0"; "b.1"], ["a.0"; "a.1"; "b.0"; "b.1"])]%string = true.
Proof. split; vm_compute; reflexivity. Qed.
