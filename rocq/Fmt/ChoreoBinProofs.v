(* ChoreoBinProofs.v -- raw fields, records and counted lists of records are read back exactly. *)
From Coq Require Import List NArith Bool Arith Lia.
From SV Require Import Fmt.ChoreoBin.
Import ListNotations.
Open Scope N_scope.

Lemma pow256_succ k : 256 ^ N.of_nat (S k) = 256 * 256 ^ N.of_nat k.
Proof. rewrite Nat2N.inj_succ, N.pow_succ_r'. reflexivity. Qed.

Lemma rd_le w : forall v r, v < 256 ^ N.of_nat w -> rd_n w (le_n w v ++ r) = Some (v, r).
Proof.
  induction w as [|k IH]; intros v r H.
  - cbn in *. assert (v = 0) by lia. subst. reflexivity.
  - rewrite pow256_succ in H. cbn [le_n rd_n app].
    rewrite IH.
    + f_equal. f_equal. pose proof (N.div_mod v 256 ltac:(lia)). lia.
    + apply N.div_lt_upper_bound; lia.
Qed.

Theorem consume_emit : forall ws vals b r, emit ws vals = Some b -> consume ws (b ++ r) = Some (vals, r).
Proof.
  induction ws as [|w ws IH]; intros [|v vals] b r H; cbn [emit] in H; try discriminate.
  - injection H as <-. reflexivity.
  - destruct (N.ltb_spec v (256 ^ N.of_nat w)) as [Hv|]; [|discriminate].
    destruct (emit ws vals) as [b'|] eqn:E; [|discriminate]. injection H as <-.
    cbn [consume]. rewrite <- app_assoc, (rd_le w v _ Hv), (IH _ _ r E). reflexivity.
Qed.

Lemma consume_all ws : forall recs b r, emit_all ws recs = Some b ->
  consume_n (length recs) ws (b ++ r) = Some (recs, r).
Proof.
  induction recs as [|x t IH]; intros b r H; cbn [emit_all] in H.
  - injection H as <-. reflexivity.
  - destruct (emit ws x) as [a|] eqn:Ea; [|discriminate].
    destruct (emit_all ws t) as [c|] eqn:Ec; [|discriminate]. injection H as <-.
    cbn [length consume_n]. rewrite <- app_assoc, (consume_emit _ _ _ _ Ea), (IH c r eq_refl). reflexivity.
Qed.

Theorem consume_counted_emit cw ws recs b r : emit_counted cw ws recs = Some b ->
  consume_counted cw ws (b ++ r) = Some (recs, r).
Proof.
  unfold emit_counted, consume_counted. intros H.
  destruct (N.ltb_spec (N.of_nat (length recs)) (256 ^ N.of_nat cw)) as [Hn|]; [|discriminate].
  destruct (emit_all ws recs) as [c|] eqn:Ec; [|discriminate]. injection H as <-.
  rewrite <- app_assoc, (rd_le cw _ _ Hn), Nat2N.id. apply consume_all. exact Ec.
Qed.

(** non-vacuity: a ramp of two samples '<fB' behind a one-byte count, and a tag list '<hH' *)
Example ex_ramp : emit_counted 1 [4; 1]%nat [[1065353216; 255]; [0; 7]]
                  = Some [2; 0; 0; 128; 63; 255; 0; 0; 0; 0; 7].
Proof. vm_compute. reflexivity. Qed.
Example ex_too_many : emit_counted 1 [1]%nat (repeat [0] 256) = None.
Proof. vm_compute. reflexivity. Qed.

(* ------------------------------------------------------------------ *)
(** * Layouts: the decoder inverts the encoder, for every layout *)

Lemma oapp_Some a b c : oapp a b = Some c -> exists x y, a = Some x /\ b = Some y /\ c = x ++ y.
Proof. destruct a as [x|], b as [y|]; cbn; try discriminate. intros [= <-]. eauto. Qed.

Lemma dec_items_enc (fe : bval -> option (list N)) (fd : list N -> option (bval * list N)) :
  (forall v b r, fe v = Some b -> fd (b ++ r) = Some (v, r)) ->
  forall items b r, enc_items fe items = Some b -> dec_items (length items) fd (b ++ r) = Some (items, r).
Proof.
  intros H. induction items as [|x t IH]; intros b r E; cbn [enc_items] in E.
  - injection E as <-. reflexivity.
  - apply oapp_Some in E as (bx & bt & Ex & Et & ->).
    cbn [length dec_items]. rewrite <- app_assoc, (H _ _ _ Ex), (IH _ r Et). reflexivity.
Qed.

Theorem dec_enc : forall l env v b r, enc l env v = Some b -> dec l env (b ++ r) = Some (v, r).
Proof.
  induction l as [|ws k IHk|ws k IHk|cw item IHi k IHk|item IHi k IHk|s key yes IHy no IHn|c body IHb k IHk];
    intros env v b r E.
  - destruct v; cbn [enc] in E; try discriminate. injection E as <-. reflexivity.
  - destruct v as [|vals kv| | |]; cbn [enc] in E; try discriminate.
    apply oapp_Some in E as (x & y & Ex & Ey & ->).
    cbn [dec]. rewrite <- app_assoc, (consume_emit _ _ _ _ Ex), (IHk _ _ _ r Ey). reflexivity.
  - destruct v as [|vals kv| | |]; cbn [enc] in E; try discriminate.
    apply oapp_Some in E as (x & y & Ex & Ey & ->).
    cbn [dec]. rewrite <- app_assoc, (consume_emit _ _ _ _ Ex), (IHk _ _ _ r Ey). reflexivity.
  - destruct v as [| |items kv| |]; cbn [enc] in E; try discriminate.
    destruct (N.ltb_spec (N.of_nat (length items)) (256 ^ N.of_nat cw)) as [Hn|]; [|discriminate].
    apply oapp_Some in E as (x & y & Ex & Ey & ->). injection Ex as <-.
    apply oapp_Some in Ey as (bi & bk & Ei & Ek & ->).
    cbn [dec]. rewrite <- !app_assoc, (rd_le cw _ _ Hn), Nat2N.id.
    rewrite (dec_items_enc (enc item []) (dec item []) (fun v b r => IHi [] v b r) _ _ _ Ei).
    rewrite (IHk _ _ _ r Ek). reflexivity.
  - destruct v as [| | |o kv|]; cbn [enc] in E; try discriminate. destruct o as [iv|].
    + apply oapp_Some in E as (x & y & Ex & Ey & ->). injection Ex as <-.
      apply oapp_Some in Ey as (bi & bk & Ei & Ek & ->).
      cbn [dec app]. change (1 =? 0) with false. cbv iota.
      rewrite <- app_assoc, (IHi _ _ _ _ Ei), (IHk _ _ _ r Ek). reflexivity.
    + apply oapp_Some in E as (x & y & Ex & Ey & ->). injection Ex as <-.
      cbn [dec app]. change (0 =? 0) with true. cbv iota. rewrite (IHk _ _ _ r Ey). reflexivity.
  - cbn [enc dec] in *. destruct (sel_val s env =? key); [apply IHy|apply IHn]; exact E.
  - destruct v as [| | | |bv kv]; cbn [enc] in E; try discriminate.
    apply oapp_Some in E as (x & y & Ex & Ey & ->).
    cbn [dec]. rewrite <- app_assoc, (IHb _ _ _ _ Ex), (IHk _ _ _ r Ey). reflexivity.
Qed.

(** second generation: what the decoder returns re-encodes to the same bytes *)
Corollary enc_dec_enc l env v b v' r : enc l env v = Some b -> dec l env (b ++ r) = Some (v', r) -> enc l env v' = Some b.
Proof. intros E D. rewrite (dec_enc _ _ _ _ r E) in D. injection D as <-. exact E. Qed.

(** non-vacuity: a Gesture event with a ramp sample, a relative tag and one flex track with a direction track,
    in a scene (type numbers as in the pinned tree: Gesture 6, Loop 12, Speak 5) *)
Definition ex_flex : bval :=
  BS (BN [3; 3; 0; 1065353216] (BL [BN [0; 255; 0] BE] (BL [BN [1056964608; 7; 513] BE; BN [0; 0; 0] BE] BE))) BE.
Definition ex_event : bval :=
  BN [6; 1; 0; 1073741824; 2; 0; 0]
    (BS (BL [BN [1065353216; 128] BE] BE)
      (BN [1; 0]
        (BS (BL [BN [4; 200] BE] BE) (BS (BL [] BE) (BS (BL [BN [5; 4096] BE] BE) (BS (BL [] BE)
          (BN [1069547520] (BO (Some (BN [6; 7] BE)) (BL [ex_flex] BE))))))))).
Definition ex_scene : bval :=
  BN [1684240994; 4; 123456] (BL [BS ex_event BE] (BL [] (BS (BL [] BE) (BN [0] BE)))).
Example ex_scene_encodes :
  match enc (scene_lay 6 12 5) [] ex_scene with
  | Some b => length b = 98%nat /\ dec (scene_lay 6 12 5) [] b = Some (ex_scene, [])
  | None => False
  end.
Proof. vm_compute. split; reflexivity. Qed.

(** the layouts take exactly the 12 / 2 / 1 paths of the pinned tree *)
Example ex_event_paths : length (paths_of (event_lay 6 12 5)) = 12%nat /\ length (paths_of flex_lay) = 2%nat.
Proof. split; reflexivity. Qed.

(** refuted: the marker written twice (the repaired relative-tag defect): the reader's widths 1,2,2 on the writer's
    1,1,2,2 bytes give other values and leave bytes over *)
Example double_marker_refuted :
  match emit [1; 1; 2; 2]%nat [1; 1; 5; 9] with
  | Some b => consume [1; 2; 2]%nat b = Some ([1; 1281; 2304], [0])
  | None => False
  end /\ paths_eqb [[TW 1; TW 1; TW 2; TW 2]] [[TW 1; TW 2; TW 2]] = false.
Proof. split; vm_compute; reflexivity. Qed.
