(** C16 — the type text of keyvalue and input/output lines: what KVDef._parse / IODef._parse make of the text between the
    parentheses, and what KVDef.export / IODef.export write there.

    The parsers compute a few string expressions from the raw token text (strip, casefold, drop a leading '*'), look one
    of them up in VALUE_TYPE_LOOKUP and, with ignore_unknown_valuetype=True, keep another one as the custom type name.
    translate/c16_fgd.py reads this part of both functions off the source by symbolic execution into a [tprog] (every
    string that is compared, looked up or stored is an [sexpr] over the raw token text); the table is VALUE_TYPE_LOOKUP
    as the module builds it (key -> ValueTypes.value of the member).

    Hand model ([spec_kv], [spec_io]): known names are matched case-insensitively and exported canonically, unknown
    names are kept verbatim.  Fmt/FgdTypeTextProofs.v proves that every generated program that passes the named boolean
    obligations equals the hand model on ALL inputs, and the round-trip statements about the hand model. *)
From Coq Require Import List NArith Arith Bool.
From SV Require Import Fmt.FgdLine.
Import ListNotations.
Open Scope N_scope.

Inductive sexpr := SRaw | SStrip (e : sexpr) | SFold (e : sexpr) | STail (e : sexpr).
Inductive tprog :=
  | PLookup (key fallback : sexpr)                         (* try: T = VALUE_TYPE_LOOKUP[key]  except KeyError: T = fallback *)
  | PIfEq (e : sexpr) (lit member : str) (rest : tprog)    (* if e == lit: T = <member>  else: rest *)
  | PIfStar (e : sexpr) (thn els : tprog).                 (* if e.startswith('*'): report = True; thn  else: els *)
(** a type as the object model holds it: a ValueTypes member (named by its canonical text, `.value`) or a custom name *)
Inductive ty := Known (c : str) | Custom (s : str).

Definition STAR : N := 42.
Definition starts_star (s : str) : bool := match s with c :: _ => c =? STAR | [] => false end.
Fixpoint assoc (k : str) (tab : list (str * str)) : option str :=
  match tab with [] => None | (a, b) :: r => if str_eqb k a then Some b else assoc k r end.
Definition EHANDLE : str := [101; 104; 97; 110; 100; 108; 101].

Fixpoint sexpr_eqb (a b : sexpr) : bool :=
  match a, b with
  | SRaw, SRaw => true
  | SStrip x, SStrip y | SFold x, SFold y | STail x, STail y => sexpr_eqb x y
  | _, _ => false
  end.
Fixpoint has_fold (e : sexpr) : bool :=
  match e with SRaw => false | SFold _ => true | SStrip x | STail x => has_fold x end.
Fixpoint unfold (e : sexpr) : sexpr :=
  match e with SRaw => SRaw | SFold x => unfold x | SStrip x => SStrip (unfold x) | STail x => STail (unfold x) end.

Section TypeText.
Variable fold : str -> str.             (* str.casefold *)
Variable tab : list (str * str).        (* VALUE_TYPE_LOOKUP: key -> canonical text of the member *)

Fixpoint seval (e : sexpr) (raw : str) : str :=
  match e with
  | SRaw => raw
  | SStrip x => strip (seval x raw)
  | SFold x => fold (seval x raw)
  | STail x => tl (seval x raw)
  end.
(** (reportable, type) with ignore_unknown_valuetype=True; without the option [Custom] is where the parser raises *)
Fixpoint trun (p : tprog) (raw : str) : bool * ty :=
  match p with
  | PLookup k f => (false, match assoc (seval k raw) tab with Some c => Known c | None => Custom (seval f raw) end)
  | PIfEq e lit m rest => if str_eqb (seval e raw) lit then (false, Known m) else trun rest raw
  | PIfStar e thn els => if starts_star (seval e raw) then (true, snd (trun thn raw)) else trun els raw
  end.

(** * Hand model *)
Definition classify (s : str) : ty := match assoc (fold s) tab with Some c => Known c | None => Custom s end.
Definition spec_kv (raw : str) : bool * ty :=
  let s := strip raw in if starts_star s then (true, classify (tl s)) else (false, classify s).
Definition spec_io (special : str) (raw : str) : bool * ty :=
  let s := strip raw in if str_eqb s EHANDLE then (false, Known special) else (false, classify s).

(** what the writers put between the parentheses *)
Definition kv_type_text (t : ty) : str := match t with Known c => c | Custom s => s end.
Definition io_type_text (io_text : str -> str) (t : ty) : str := match t with Known c => io_text c | Custom s => s end.

(** * Obligations on a generated program *)
(** a look-up whose key is the folded [base] and whose fall-back is [base] itself, untouched *)
Definition lookup_ok (k f base : sexpr) : bool :=
  has_fold k && sexpr_eqb (unfold k) base && sexpr_eqb f base.
Definition fallback_verbatim (p : tprog) : bool :=
  (fix go (p : tprog) : bool :=
     match p with
     | PLookup _ f => negb (has_fold f)
     | PIfEq _ _ _ r => go r
     | PIfStar _ a b => go a && go b
     end) p.
Definition kv_prog_ok (p : tprog) : bool :=
  match p with
  | PIfStar e (PLookup k1 f1) (PLookup k2 f2) =>
      sexpr_eqb e (SStrip SRaw) && lookup_ok k1 f1 (STail (SStrip SRaw)) && lookup_ok k2 f2 (SStrip SRaw)
  | _ => false
  end.
Definition io_prog_ok (special : str) (p : tprog) : bool :=
  match p with
  | PIfEq e lit m (PLookup k f) =>
      sexpr_eqb e (SStrip SRaw) && str_eqb lit EHANDLE && str_eqb m special && lookup_ok k f (SStrip SRaw)
  | _ => false
  end.

(** every canonical text is a stripped key of the table that does not start with '*' and looks up to itself *)
Definition canon_ok (c : str) : bool :=
  str_eqb (strip c) c && negb (starts_star c) && match assoc (fold c) tab with Some c' => str_eqb c' c | None => false end.
Definition tab_ok : bool := forallb (fun kv => canon_ok (snd kv)) tab.
End TypeText.

(** the nearby wrong shape: fold first, then look up and fall back to the folded text *)
Definition fold_first_prog : tprog := PLookup (SFold (SStrip SRaw)) (SFold (SStrip SRaw)).
Definition LOCALE_ID : str := [76; 111; 99; 97; 108; 101; 95; 73; 68].
Definition fold_fallback_breaks : bool :=
  match trun lower [] fold_first_prog (kv_type_text (Custom LOCALE_ID)) with
  | (_, Custom s) => negb (str_eqb s LOCALE_ID)
  | _ => true
  end.

(** * I/O type decay.  [decay_tab]: VALUE_TO_IO_DECAY as canonical text -> canonical text; [special]: the members IODef.export
    writes as a literal (`boolean` -> `bool`); every other member is written as the canonical text of its decayed member. *)
Definition assoc_default (k : str) (tab : list (str * str)) : str := match assoc k tab with Some v => v | None => k end.
Definition io_decay_of (decay_tab : list (str * str)) (c : str) : str := assoc_default c decay_tab.
Definition io_text_of (decay_tab special : list (str * str)) (c : str) : str :=
  match assoc c special with Some t => t | None => io_decay_of decay_tab c end.
(** for one member: what is written reads back as the decayed member, and the decayed member is written the same way *)
Definition io_member_ok (fold : str -> str) (tab : list (str * str)) (sp : str) (decay_tab special : list (str * str)) (c : str) : bool :=
  match spec_io fold tab sp (io_text_of decay_tab special c) with
  | (false, Known d) => str_eqb d (io_decay_of decay_tab c)
                        && str_eqb (io_text_of decay_tab special (io_decay_of decay_tab c)) (io_text_of decay_tab special c)
  | _ => false
  end.
Definition io_decay_ok (fold : str -> str) (tab : list (str * str)) (sp : str) (decay_tab special : list (str * str)) : bool :=
  forallb (fun kv => io_member_ok fold tab sp decay_tab special (fst kv)) decay_tab.
