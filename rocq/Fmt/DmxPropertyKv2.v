(** C14 — the whole property for the KeyValues2 form, composed from the parts: element graph -> blocks (flat: every
    element a top-level block; nested: the root rule and inline blocks) -> text -> tokens -> blocks -> the elements the
    reader registers -> references resolved by id. *)
From Coq Require Import NArith List Bool Lia PeanoNat Permutation.
From SV Require Import Text.Str Text.Escape Text.Tokenizer Fmt.DmxKv2 Fmt.DmxKv2Proofs Fmt.DmxKv2Nested Fmt.DmxKv2NestedProofs
  Fmt.DmxKv2Graph Fmt.DmxKv2GraphProofs Fmt.DmxKv2GraphUnique Fmt.DmxKv2GraphWhole.
Import ListNotations.
Open Scope nat_scope.

Theorem c14_property_kv2_gen :
  forall (T : tables) (o : opts) (fold : str -> str) (vtnames : list str) (c : rootcfg),
    kv2_tables_ok T = true -> kv2_opts_ok o = true -> vtnames_ok T fold vtnames = true -> root_rule_ok c = true ->
    forall g : gdoc, graph_ok g = true -> doc_ok T vtnames (flatten g) = true -> g <> [] -> (forall j, j < length g -> reach g j) ->
      (* flat layout: text -> document -> graph *)
      match parse_text T o fold vtnames (render_doc T (flatten g)) with Some d => link d | None => None end = Some g /\
      (* nested layout: the tree of blocks the root rule gives is carried by the text, every element is in it exactly once,
         the exported one first, and the elements the reader registers are those of the flat document, whose references
         resolve to the graph *)
      exists d, nest_doc g (is_root fold vtnames c false g) false = Some d /\
        parsen_text T o fold vtnames (rendern_doc T d) = Some d /\
        written_once d = true /\
        Permutation (unnest d) (flatten g) /\
        (exists rest, unnest d = flat_elem (ids g) (nth 0 g dflt_gelem) :: rest) /\
        (exists g', link (unnest d) = Some g' /\ flatten g' = unnest d) /\
        link (flatten g) = Some g.
Proof.
  intros T o fold vtnames c HT Ho Hv Hc g Hg Hdoc Hne Hreach. split.
  - now apply kv2_flat_graph_roundtrip_gen.
  - destruct (nest_total g fold vtnames c Hc Hg) as [d H]. exists d. split; [exact H|].
    pose proof (nest_ndoc_ok g T fold vtnames c Hc Hdoc d Hne H) as Hok.
    destruct (nest_is_flatten_permuted g fold vtnames c Hc Hg d Hne Hreach H) as [Hp Hr].
    repeat split.
    + now apply kv2_nested_roundtrip_gen.
    + apply (nest_written_once g fold vtnames c Hc Hg d H).
    + exact Hp.
    + exact Hr.
    + apply (nest_reader_graph g fold vtnames c d H).
    + now apply link_flatten.
Qed.

(** satisfiable: the example graph (sharing, self reference, cycle through an inline block, stub, NULL) *)
Lemma c14_property_kv2_example :
  kv2_tables_ok pinned_tables && kv2_opts_ok pinned_kv2_opts && vtnames_ok pinned_tables (fun s => s) pinned_vtnames &&
  root_rule_ok pinned_rootcfg && graph_ok ex_graph && doc_ok pinned_tables pinned_vtnames (flatten ex_graph) = true /\
  (forall j, j < length ex_graph -> reach ex_graph j).
Proof.
  split; [vm_compute; reflexivity|].
  assert (R0 : reach ex_graph 0) by constructor.
  assert (R1 : reach ex_graph 1) by (eapply (reach_step ex_graph 0 1); [exact R0|cbn; left; reflexivity|cbn; left; reflexivity]).
  assert (R2 : reach ex_graph 2) by (eapply (reach_step ex_graph 0 2); [exact R0|cbn; left; reflexivity|cbn; right; left; reflexivity]).
  assert (R3 : reach ex_graph 3) by (eapply (reach_step ex_graph 2 3); [exact R2|cbn; left; reflexivity|cbn; left; reflexivity]).
  intros j Hj. cbn in Hj. destruct j as [|[|[|[|j]]]]; try assumption. lia.
Qed.
