(** C15 — address maps of the pixel access paths of a VTF frame (round 4).

    A frame of width [w] and height [h] keeps its pixels in ONE flat byte array of length [4*w*h], row major:
    channel [c] of the pixel at column [x] of row [y] is byte [4*(y*w + x) + c].  Every way the library lets a
    user (or one of its own helpers) look at that array has its own idea of which coordinates exist and where they
    live:

    - [frame[x, y]] / [frame[x, y] = p]: a rejection test and an offset formula (Fmt/VtfLayout.v, section Bounds);
    - the buffer protocol ([memoryview(frame)], numpy): [memoryview(_data).cast('B', shape)], a C-contiguous
      three-dimensional view whose index [(i, j, k)] is accepted iff it lies inside [shape] and addresses
      [(i * shape[1] + j) * shape[2] + k];
    - [to_PIL()]: [frombuffer('RGBA', size, _data, 'raw', 'RGBA', 0, 1)] - PIL's raw decoder with stride 0 and
      orientation 1 reads pixel (x, y) of an image of [size = (columns, rows)] at [(y * columns + x) * 4];
    - [to_tkinter()]: a binary PPM whose header names (columns, rows) and whose raster is filled from byte
      [4 * offset + k] for [offset = y * columns + x];
    - [to_wx_image()/to_wx_bitmap()]: a wx image constructed with (columns, rows) and filled the same way;
    - the codecs ([_format_funcs.load/save]) and [scale_down], which are handed [_data] together with a
      (width, height) pair and walk it as [height] rows of [width] pixels.

    All of them are instances of one description: a [pathdesc] says which quantity the path uses as the number of
    ROWS, which as the number of COLUMNS, and how many bytes it takes per pixel.  The descriptions are regenerated
    from vtf.py / _py_vtf_readwrite.py on every run (Gen/VtfAccess_gen.v: a census of every use of [<frame>._data]).
    [path_ok] is the boolean premise: rows = the frame's height, columns = its width, 4 bytes per pixel. *)
From Coq Require Import ZArith List Bool String.
From SV Require Import Fmt.VtfLayout.
Import ListNotations.
Open Scope Z_scope.

(** what a path uses as one of its dimensions *)
Inductive dimt :=
| DW                (* the width of the frame whose pixel array is accessed *)
| DH                (* its height *)
| DK (k : Z)        (* a literal *)
| DForeign.         (* anything else: a dimension of another object, an expression the translator cannot name *)

Definition dimt_eqb (a b : dimt) : bool :=
  match a, b with
  | DW, DW | DH, DH | DForeign, DForeign => true
  | DK u, DK v => Z.eqb u v
  | _, _ => false
  end.

Record pathdesc := { p_name : string; p_rows : dimt; p_cols : dimt; p_chan : dimt }.

(** [f] stands for the value of a foreign dimension: the statements below quantify over it *)
Definition dim_val (d : dimt) (w h f : Z) : Z :=
  match d with DW => w | DH => h | DK k => k | DForeign => f end.

Definition in_range (i n : Z) : bool := (0 <=? i) && (i <? n).

(** index (y, x, c) of the C-contiguous view of shape (rows, cols, chan) *)
Definition path_accepts (p : pathdesc) (w h f : Z) (x y c : Z) : bool :=
  in_range y (dim_val (p_rows p) w h f) && in_range x (dim_val (p_cols p) w h f) && in_range c (dim_val (p_chan p) w h f).
Definition path_off (p : pathdesc) (w h f : Z) (x y c : Z) : Z :=
  (y * dim_val (p_cols p) w h f + x) * dim_val (p_chan p) w h f + c.

(** the one address map every path must have *)
Definition inside (w h : Z) (x y c : Z) : bool := in_range y h && in_range x w && in_range c 4.
Definition canon_off (w : Z) (x y c : Z) : Z := 4 * (y * w + x) + c.

Definition path_ok (p : pathdesc) : bool :=
  dimt_eqb (p_rows p) DH && dimt_eqb (p_cols p) DW && dimt_eqb (p_chan p) (DK 4).

(** the shape of seeded fault c15_6: rows and columns exchanged *)
Definition transposed_path : pathdesc := {| p_name := "transposed"; p_rows := DW; p_cols := DH; p_chan := DK 4 |}.
Definition good_path : pathdesc := {| p_name := "good"; p_rows := DH; p_cols := DW; p_chan := DK 4 |}.

(** * the flat pixel array as a function from offsets to bytes *)
Definition buf := Z -> Z.
Definition bget (b : buf) (o : Z) : Z := b o.
Definition bset (b : buf) (o v : Z) : buf := fun i => if Z.eqb i o then v else b i.

(** * number of pixels allocated: a product of factors *)
Definition prod_val (fs : list dimt) (w h f : Z) : Z := fold_right (fun d acc => dim_val d w h f * acc) 1 fs.
Fixpoint count_dim (d : dimt) (fs : list dimt) : nat :=
  match fs with [] => O | a :: r => (if dimt_eqb a d then S (count_dim d r) else count_dim d r) end.
Fixpoint const_prod (fs : list dimt) : Z :=
  match fs with [] => 1 | DK k :: r => k * const_prod r | _ :: r => const_prod r end.
(** exactly one factor width, one factor height, constants multiplying to [k], nothing foreign *)
Definition alloc_ok (k : Z) (fs : list dimt) : bool :=
  Nat.eqb (count_dim DW fs) 1 && Nat.eqb (count_dim DH fs) 1 && Nat.eqb (count_dim DForeign fs) 0 && Z.eqb (const_prod fs) k.

(** * the size test of copy_from(Frame): a disjunction of "my dimension <> the source's dimension" *)
Inductive gside := GSelfW | GSelfH | GSrcW | GSrcH.
Definition gside_eqb (a b : gside) : bool :=
  match a, b with GSelfW, GSelfW | GSelfH, GSelfH | GSrcW, GSrcW | GSrcH, GSrcH => true | _, _ => false end.
Definition gside_val (s : gside) (w h w' h' : Z) : Z :=
  match s with GSelfW => w | GSelfH => h | GSrcW => w' | GSrcH => h' end.
(** one disjunct: the two named quantities differ *)
Definition gatom := (gside * gside)%type.
Definition gatom_eval (a : gatom) (w h w' h' : Z) : bool := negb (Z.eqb (gside_val (fst a) w h w' h') (gside_val (snd a) w h w' h')).
Definition guard_rejects (g : list gatom) (w h w' h' : Z) : bool := existsb (fun a => gatom_eval a w h w' h') g.
Definition gatom_is (a : gatom) (s t : gside) : bool :=
  (gside_eqb (fst a) s && gside_eqb (snd a) t) || (gside_eqb (fst a) t && gside_eqb (snd a) s).
Definition gatom_sound (a : gatom) : bool := gatom_is a GSelfW GSrcW || gatom_is a GSelfH GSrcH.
(** compares width with width and height with height, both present, nothing else *)
Definition copy_guard_ok (g : list gatom) : bool :=
  existsb (fun a => gatom_is a GSelfW GSrcW) g && existsb (fun a => gatom_is a GSelfH GSrcH) g && forallb gatom_sound g.

(** * item paths: the rejection test rejects nothing inside the frame *)
Definition atom_sound (a : atom) : bool :=
  atom_eqb a (BX, CLt, BZero) || atom_eqb a (BX, CGe, BWidth) || atom_eqb a (BY, CLt, BZero) || atom_eqb a (BY, CGe, BHeight).
Definition bounds_exact (ds : list atom) : bool := bounds_ok ds && forallb atom_sound ds.

(** * the frame table: every site that addresses [_frames] builds the key (frame, side-or-depth, mipmap) *)
Inductive krole := KFrame | KSide | KMip | KOther.
Definition krole_eqb (a b : krole) : bool :=
  match a, b with KFrame, KFrame | KSide, KSide | KMip, KMip | KOther, KOther => true | _, _ => false end.
Fixpoint kroles_eqb (l1 l2 : list krole) : bool :=
  match l1, l2 with [], [] => true | a :: r1, b :: r2 => krole_eqb a b && kroles_eqb r1 r2 | _, _ => false end.
Definition key_ok (rs : list krole) : bool := kroles_eqb rs [KFrame; KSide; KMip].
(** the key a site builds for frame [f], side/depth [s], mipmap [m] ([o]: whatever else it puts there) *)
Definition kval (r : krole) (f s m o : Z) : Z := match r with KFrame => f | KSide => s | KMip => m | KOther => o end.
Definition key_of (rs : list krole) (f s m o : Z) : list Z := map (fun r => kval r f s m o) rs.

(** * VTF.clear_mipmaps(after=a): which levels are erased.  [c] is the comparison [mipmap c after] read from the source. *)
Definition clears (c : cmp) (after m : Z) : bool := cmpZ c m after.
Definition clear_after_ok (c : cmp) : bool := cmp_eqb c CGt.
