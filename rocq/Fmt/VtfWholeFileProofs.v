(** C15 — the whole VTF container: [decode_file] reads back what [encode_file] wrote (Fmt/VtfContainer.v).
    Composition of the per-site theorems of VtfContainerProofs.v: signature, version record, header with the patched
    header size, depth, resource directory (inline entries, out-of-line entries with their data blocks, the fixed
    LOW/HIGH entries, the particle sheet), padding before 7.3, and the offsets of the thumbnail and of the first frame;
    then with Fmt/VtfSidesProofs.v: every frame VTF.read visits gets the bytes VTF.save produced for it. *)
From Coq Require Import NArith ZArith List Bool String Arith Lia.
From SV Require Import Bin.LE Bin.Struct Bin.StructProofs Fmt.VtfLayout Fmt.VtfContainer Fmt.VtfContainerProofs Fmt.VtfWholeFile
  Fmt.VtfSides Fmt.VtfSidesProofs.
Import ListNotations.
Local Open Scope nat_scope.
(** * option plumbing *)
Lemma opt_app_Some : forall a b l, opt_app a b = Some l -> exists x y, a = Some x /\ b = Some y /\ l = x ++ y.
Proof. intros [x|] [y|] l H; cbn in H; try discriminate. inversion H. eauto. Qed.

Lemma opt_concat_cons : forall x r l, opt_concat (x :: r) = Some l ->
  exists a b, x = Some a /\ opt_concat r = Some b /\ l = a ++ b.
Proof. intros x r l H. cbn [opt_concat] in H. apply opt_app_Some in H. exact H. Qed.

Lemma opt_concat_app : forall a b, opt_concat (a ++ b) = opt_app (opt_concat a) (opt_concat b).
Proof.
  induction a as [|x a IH]; intros b.
  - cbn. destruct (opt_concat b); reflexivity.
  - cbn [app opt_concat]. rewrite IH. destruct x, (opt_concat a), (opt_concat b); cbn; rewrite ?app_assoc; reflexivity.
Qed.

(** * one record at an offset *)
Lemma read_at_packed : forall f vals bs pre post file off, wf_fmt f = true -> fits f vals = true -> pack f vals = Some bs ->
  file = pre ++ bs ++ post -> off = List.length pre -> read_at f file off = Some vals.
Proof.
  intros f vals bs pre post file off Hw Hf Hp -> ->. destruct (unpack_pack _ _ Hw Hf) as (bs' & Hp' & Hu).
  rewrite Hp in Hp'. inversion Hp'; subst bs'. unfold read_at. rewrite <- (pack_length _ _ _ Hp), slice_app. exact Hu.
Qed.

(** * the directory *)

Lemma read_entries_packed : forall F es eb pre post, wf_fmt (f_entry F) = true -> forallb (entry_fits F) es = true ->
  opt_concat (map (pack_e F) es) = Some eb ->
  read_entries F (pre ++ eb ++ post) (List.length pre) (List.length es) = Some es.
Proof.
  intros F es. induction es as [|e es IH]; intros eb pre post Hw Hf Hp; [reflexivity|].
  cbn [map] in Hp. apply opt_concat_cons in Hp. destruct Hp as (a & b & Ha & Hb & ->).
  cbn [forallb] in Hf. apply andb_prop in Hf. destruct Hf as [Hf1 Hf2].
  destruct e as [[id fl] x]. cbn [pack_e] in Ha. cbn [entry_fits] in Hf1.
  cbn [List.length read_entries].
  rewrite (read_at_packed _ _ _ pre (b ++ post) _ _ Hw Hf1 Ha) by (rewrite <- ?app_assoc; reflexivity).
  replace (pre ++ (a ++ b) ++ post) with ((pre ++ a) ++ b ++ post) by (rewrite <- !app_assoc; reflexivity).
  replace (List.length pre + calcsize (f_entry F)) with (List.length (pre ++ a))
    by (rewrite app_length, (pack_length _ _ _ Ha); reflexivity).
  rewrite (IH b (pre ++ a) post Hw Hf2 Hb). reflexivity.
Qed.


Lemma skipn_S_tl : forall (A : Type) n (l : list A), skipn (S n) l = skipn n (tl l).
Proof. intros A n [|x l]; cbn; [destruct n; reflexivity|reflexivity]. Qed.

Lemma res_entries_abs : forall F G rs offs,
  res_entries F G rs offs = (opt_concat (map (pack_e F) (abs_entries G rs offs)), skipn (List.length (data_of rs)) offs).
Proof.
  intros F G rs. induction rs as [|[[id fl] [x|d]] rs IH]; intros offs.
  - reflexivity.
  - cbn [res_entries abs_entries map opt_concat pack_e]. rewrite IH. reflexivity.
  - cbn [res_entries abs_entries map opt_concat pack_e]. rewrite IH.
    unfold data_of. cbn [flat_map snd app List.length]. rewrite skipn_S_tl. reflexivity.
Qed.

Lemma abs_entries_length : forall G rs offs, List.length (abs_entries G rs offs) = List.length rs.
Proof. intros G rs. induction rs as [|[[id fl] [x|d]] rs IH]; intros offs; cbn [abs_entries List.length]; auto. Qed.

Lemma abs_entries_ids : forall (P : list N -> Prop) G rs offs,
  Forall (fun r => P (fst (fst r))) rs -> Forall (fun e : dentry => P (fst (fst e))) (abs_entries G rs offs).
Proof.
  intros P G rs. induction rs as [|[[id fl] [x|d]] rs IH]; intros offs H; cbn [abs_entries]; [constructor| |];
    inversion H; subst; constructor; auto.
Qed.

(** * data blocks *)
Lemma block_length : forall F d blk, block F d = Some blk -> List.length blk = calcsize (f_len F) + List.length d.
Proof.
  intros F d blk H. unfold block in H. apply opt_app_Some in H. destruct H as (x & y & Hx & Hy & ->).
  inversion Hy; subst y. rewrite app_length, (pack_length _ _ _ Hx). reflexivity.
Qed.

Lemma blocks_read_back : forall F, wf_fmt (f_len F) = true -> calcsize (f_len F) = 4 ->
  forall ds bb pre post,
    forallb (fun d => fits (f_len F) [VInt (Z.of_nat (List.length d))]) ds = true ->
    opt_concat (map (block F) ds) = Some bb ->
    Forall2 (fun o d => read_block F (pre ++ bb ++ post) o = Some d)
            (offsets (List.length pre) (map (fun d => 4 + List.length d) ds)) ds
    /\ List.length bb = list_sum (map (fun d => 4 + List.length d) ds).
Proof.
  intros F Hw H4 ds. induction ds as [|d ds IH]; intros bb pre post Hf Hp.
  - cbn in Hp. inversion Hp. split; [constructor|reflexivity].
  - cbn [map] in Hp. apply opt_concat_cons in Hp. destruct Hp as (blk & rest & Hb & Hr & ->).
    cbn [forallb] in Hf. apply andb_prop in Hf. destruct Hf as [Hf1 Hf2].
    pose proof (block_length _ _ _ Hb) as Hl. rewrite H4 in Hl.
    cbn [map offsets list_sum]. split.
    + constructor.
      * rewrite <- app_assoc. apply (block_read_back F d pre (rest ++ post) blk Hw Hf1 Hb).
      * destruct (IH rest (pre ++ blk) post Hf2 Hr) as [IH1 _].
        rewrite app_length, Hl in IH1. rewrite <- !app_assoc in IH1. rewrite <- app_assoc. exact IH1.
    + destruct (IH rest pre post Hf2 Hr) as [_ IH2]. rewrite app_length, Hl, IH2. reflexivity.
Qed.

(** * what the reader makes of a directory entry *)

Lemma dec_abs : forall F G bs, flags_ok G = true -> forall rs offs,
  Forall (fun r => (0 <= snd (fst r) < 256)%Z) rs ->
  Forall2 (fun o d => read_block F bs o = Some d) (firstn (List.length (data_of rs)) offs) (data_of rs) ->
  map (dec_e F G bs) (abs_entries G rs offs) = map (fun r => Some (norm r)) rs.
Proof.
  intros F G bs HG rs. induction rs as [|[[id fl] [x|d]] rs IH]; intros offs Hfl Hb; [reflexivity| |].
  - inversion Hfl as [|? ? Hf Hfl']; subst. cbn [fst snd] in Hf.
    destruct (flags_roundtrip G HG fl Hf) as (_ & Hi & _ & Ht & _).
    cbn [abs_entries map dec_e norm]. rewrite Ht, Hi. f_equal. apply IH; assumption.
  - inversion Hfl as [|? ? Hf Hfl']; subst. cbn [fst snd] in Hf.
    destruct (flags_roundtrip G HG fl Hf) as (Ho & _ & Ht & _).
    unfold data_of in Hb. cbn [flat_map snd app List.length] in Hb. fold (data_of rs) in Hb.
    destruct offs as [|o offs]; cbn [firstn] in Hb; inversion Hb as [|? ? ? ? Hrd Hb']; subst.
    cbn [abs_entries map dec_e norm hd tl]. rewrite Ht, Nat2Z.id, Hrd, Ho. f_equal. apply IH; assumption.
Qed.

(** * list plumbing *)
Lemma filter_none : forall (A : Type) (p : A -> bool) l, Forall (fun x => p x = false) l -> filter p l = [].
Proof. intros A p l H. induction H as [|x l Hx _ IH]; cbn [filter]; [reflexivity|]. rewrite Hx. exact IH. Qed.
Lemma filter_all : forall (A : Type) (p : A -> bool) l, Forall (fun x => p x = true) l -> filter p l = l.
Proof. intros A p l H. induction H as [|x l Hx _ IH]; cbn [filter]; [reflexivity|]. rewrite Hx, IH. reflexivity. Qed.
Lemma find_app_none : forall (A : Type) (p : A -> bool) l1 l2, Forall (fun x => p x = false) l1 -> find p (l1 ++ l2) = find p l2.
Proof. intros A p l1 l2 H. induction H as [|x l Hx _ IH]; cbn [find app]; [reflexivity|]. rewrite Hx. exact IH. Qed.
Lemma find_none : forall (A : Type) (p : A -> bool) l, Forall (fun x => p x = false) l -> find p l = None.
Proof. intros A p l H. induction H as [|x l Hx _ IH]; cbn [find]; [reflexivity|]. rewrite Hx. exact IH. Qed.
Lemma existsb_map_Some : forall (A : Type) (l : list A),
  existsb (fun r : option A => match r with None => true | _ => false end) (map Some l) = false.
Proof. induction l; cbn; auto. Qed.
Lemma flat_map_map_Some : forall (A : Type) (l : list A),
  flat_map (fun r : option A => match r with Some x => [x] | None => [] end) (map Some l) = l.
Proof. induction l; cbn; [reflexivity|]. f_equal. assumption. Qed.
Lemma Forall_impl' : forall (A : Type) (P Q : A -> Prop) l, (forall x, P x -> Q x) -> Forall P l -> Forall Q l.
Proof. intros A P Q l H HP. induction HP; constructor; auto. Qed.

(** * the whole file, version 7.3 and later *)

Lemma encode73 : forall F G v, (3 <= v_minor v)%Z ->
  encode_file F G v =
  opt_concat [Some MAGIC; pack (f_version F) [VInt 7; VInt (v_minor v)];
              pack (f_header F) (set_header_size (v_header v) (hs73 F v)); pack (f_depth F) [VInt (v_depth v)];
              opt_app (pack (f_count F) [VInt (Z.of_nat (n_res v))]) (opt_concat (map (pack_e F) (all_entries F G v)));
              opt_concat (map (block F) (res_blocks v)); Some (v_low v); Some (List.concat (v_high v))].
Proof.
  intros F G v Hm. destruct v as [m hd0 dp rs sh lo hi]. cbn [v_minor] in Hm. unfold encode_file. cbn [v_minor].
  replace (3 <=? m)%Z with true by (symmetry; apply Z.leb_le; lia).
  replace (2 <=? m)%Z with true by (symmetry; apply Z.leb_le; lia).
  cbv zeta. rewrite res_entries_abs. unfold all_entries, sheet_entry.
  rewrite map_app, opt_concat_app.
  destruct sh; reflexivity.
Qed.

Lemma filters_dir : forall (A : list dentry) lx hx (S : list dentry),
  Forall (fun e : dentry => user_id (fst (fst e)) = true) A ->
  (S = [] \/ exists sx, S = [(ID_SHEET, 0%Z, sx)]) ->
  let es := A ++ [(ID_LOW, 0%Z, lx); (ID_HIGH, 0%Z, hx)] ++ S in
  filter (fun e : dentry => bytes_eqb (fst (fst e)) ID_LOW) es = [(ID_LOW, 0%Z, lx)]
  /\ filter (fun e : dentry => bytes_eqb (fst (fst e)) ID_HIGH) es = [(ID_HIGH, 0%Z, hx)]
  /\ filter (fun e : dentry => negb (bytes_eqb (fst (fst e)) ID_LOW || bytes_eqb (fst (fst e)) ID_HIGH)) es = A ++ S.
Proof.
  intros A lx hx S HA HS es. subst es. rewrite !filter_app.
  assert (H1 : filter (fun e : dentry => bytes_eqb (fst (fst e)) ID_LOW) A = []).
  { apply filter_none. eapply Forall_impl'; [|exact HA]. intros e He. unfold user_id in He. cbv beta in He.
    destruct (bytes_eqb (fst (fst e)) ID_LOW); [discriminate|reflexivity]. }
  assert (H2 : filter (fun e : dentry => bytes_eqb (fst (fst e)) ID_HIGH) A = []).
  { apply filter_none. eapply Forall_impl'; [|exact HA]. intros e He. unfold user_id in He. cbv beta in He.
    destruct (bytes_eqb (fst (fst e)) ID_LOW), (bytes_eqb (fst (fst e)) ID_HIGH); try discriminate; reflexivity. }
  assert (H3 : filter (fun e : dentry => negb (bytes_eqb (fst (fst e)) ID_LOW || bytes_eqb (fst (fst e)) ID_HIGH)) A = A).
  { apply filter_all. eapply Forall_impl'; [|exact HA]. intros e He. unfold user_id in He. cbv beta in He.
    destruct (bytes_eqb (fst (fst e)) ID_LOW), (bytes_eqb (fst (fst e)) ID_HIGH); try discriminate; reflexivity. }
  rewrite H1, H2, H3. destruct HS as [-> | [sx ->]]; repeat split; reflexivity.
Qed.

Lemma forallb_Forall : forall (A : Type) (p : A -> bool) l, forallb p l = true -> Forall (fun x => p x = true) l.
Proof. intros A p l H. rewrite forallb_forall in H. apply Forall_forall. exact H. Qed.

Lemma Forall2_app_split : forall (A B : Type) (R : A -> B -> Prop) l l1' l2',
  Forall2 R l (l1' ++ l2') -> Forall2 R (firstn (List.length l1') l) l1' /\ Forall2 R (skipn (List.length l1') l) l2'.
Proof.
  intros A B R l l1'. revert l. induction l1' as [|b l1' IH]; intros l l2' H.
  - cbn. split; [constructor|exact H].
  - cbn [app] in H. inversion H; subst. cbn [List.length firstn skipn]. destruct (IH _ _ H4) as [H5 H6]. split; [constructor; assumption|assumption].
Qed.

(** [decode_file] on a file written by [encode_file], 7.3 and later: the reader gets the version, the header values
    with the real header size, the depth, every resource of the caller in order (flags with bit 2 normalised: set for
    inline values, cleared for data blocks; data blocks byte for byte), the particle sheet, and the offsets of the
    thumbnail and of the first frame - which are exactly where [v_low] and the frames are. *)
Theorem whole_file_73 : forall F G v low_size file,
  fmts_wf F = true -> flags_ok G = true -> (3 <= v_minor v)%Z -> vfile_fits F G v = true ->
  encode_file F G v = Some file ->
  decode_file F G low_size file
  = Some (v_minor v, set_header_size (v_header v) (hs73 F v), v_depth v, map norm (v_res v), v_sheet v, low_off73 F v, high_off73 F v)
  /\ exists pre, file = pre ++ v_low v ++ List.concat (v_high v) /\ List.length pre = low_off73 F v.
Proof.
  intros F G v low_size file HW HG Hm HF Henc.
  unfold fmts_wf in HW. repeat (apply andb_prop in HW; destruct HW as [HW ?]).
  rename HW into Wv, H into L4, H0 into Wl, H1 into We, H2 into Wc, H3 into Wd, H4 into Wh. apply Nat.eqb_eq in L4.
  unfold vfile_fits in HF. repeat (apply andb_prop in HF; destruct HF as [HF ?]).
  rename HF into Fv, H into Fu, H0 into Fb, H1 into Fe, H2 into Fc, H3 into Fd, H4 into Fh.
  rewrite (encode73 F G v Hm) in Henc.
  apply opt_concat_cons in Henc. destruct Henc as (mg & r1 & E0 & Henc & ->). inversion E0; subst mg; clear E0.
  apply opt_concat_cons in Henc. destruct Henc as (vb & r2 & Ev & Henc & ->).
  apply opt_concat_cons in Henc. destruct Henc as (hb & r3 & Eh & Henc & ->).
  apply opt_concat_cons in Henc. destruct Henc as (db & r4 & Ed & Henc & ->).
  apply opt_concat_cons in Henc. destruct Henc as (dirb & r5 & Edir & Henc & ->).
  apply opt_concat_cons in Henc. destruct Henc as (blkb & r6 & Eblk & Henc & ->).
  apply opt_concat_cons in Henc. destruct Henc as (lowb & r7 & El & Henc & ->). inversion El; subst lowb; clear El.
  apply opt_concat_cons in Henc. destruct Henc as (highb & r8 & Ehi & Henc & ->). inversion Ehi; subst highb; clear Ehi.
  cbn [opt_concat] in Henc. inversion Henc; subst r8; clear Henc. rewrite app_nil_r.
  apply opt_app_Some in Edir. destruct Edir as (cb & eb & Ec & Ee & ->).
  pose proof (pack_length _ _ _ Ev) as Lv. pose proof (pack_length _ _ _ Eh) as Lh.
  pose proof (pack_length _ _ _ Ed) as Ld. pose proof (pack_length _ _ _ Ec) as Lc.
  assert (Hn : List.length (all_entries F G v) = n_res v).
  { unfold all_entries, sheet_entry, n_res. rewrite !app_length, abs_entries_length. destruct (v_sheet v); cbn [List.length]; lia. }
  (* the user's entries have user ids and byte flags *)
  apply forallb_Forall in Fu.
  assert (Uid : Forall (fun r : list N * Z * resval => user_id (fst (fst r)) = true) (v_res v)).
  { eapply Forall_impl'; [|exact Fu]. intros r Hr. cbv beta in Hr. apply andb_prop in Hr. destruct Hr as [Hr _].
    apply andb_prop in Hr. destruct Hr as [Hr _]. exact Hr. }
  assert (Ufl : Forall (fun r : list N * Z * resval => (0 <= snd (fst r) < 256)%Z) (v_res v)).
  { eapply Forall_impl'; [|exact Fu]. intros r Hr. cbv beta in Hr. apply andb_prop in Hr. destruct Hr as [Hr H2].
    apply andb_prop in Hr. destruct Hr as [_ H1]. apply Z.leb_le in H1. apply Z.ltb_lt in H2. lia. }
  (* length of the directory bytes *)
  assert (Le : List.length eb = n_res v * calcsize (f_entry F)).
  { rewrite <- Hn. clear - Ee. revert eb Ee. induction (all_entries F G v) as [|e es IH]; intros eb Ee.
    - inversion Ee. reflexivity.
    - cbn [map] in Ee. apply opt_concat_cons in Ee. destruct Ee as (a & b & Ha & Hb & ->).
      destruct e as [[id fl] x]. cbn [pack_e] in Ha. rewrite app_length, (pack_length _ _ _ Ha), (IH _ Hb). cbn [List.length]. lia. }
  set (P := MAGIC ++ vb ++ hb ++ db ++ cb ++ eb).
  assert (LP : List.length P = hs73 F v).
  { unfold P, hs73. rewrite !app_length, Lv, Lh, Ld, Lc, Le. cbn [MAGIC List.length]. lia. }
  set (file := MAGIC ++ vb ++ hb ++ db ++ (cb ++ eb) ++ blkb ++ v_low v ++ List.concat (v_high v)).
  assert (Efile : file = P ++ blkb ++ v_low v ++ List.concat (v_high v)).
  { unfold file, P. rewrite <- !app_assoc. reflexivity. }
  destruct (blocks_read_back F Wl L4 (res_blocks v) blkb P (v_low v ++ List.concat (v_high v)) Fb Eblk) as [RB LB].
  rewrite <- Efile, LP in RB. fold (block_offs F v) in RB.
  split.
  2:{ exists (P ++ blkb). split; [rewrite Efile, <- app_assoc; reflexivity|].
      rewrite app_length, LP, LB. reflexivity. }
  unfold decode_file.
  replace (slice file 0 4) with MAGIC by (symmetry; apply (slice_app [] MAGIC)).
  replace (bytes_eqb MAGIC [86%N; 84%N; 70%N; 0%N]) with true by reflexivity. cbn [negb].
  rewrite (read_at_packed _ _ _ MAGIC (hb ++ db ++ (cb ++ eb) ++ blkb ++ v_low v ++ List.concat (v_high v)) file 4 Wv Fv Ev eq_refl eq_refl).
  cbv beta iota.
  rewrite (read_at_packed _ _ _ (MAGIC ++ vb) (db ++ (cb ++ eb) ++ blkb ++ v_low v ++ List.concat (v_high v)) file _ Wh Fh Eh)
    by (unfold file; rewrite <- ?app_assoc; try reflexivity; rewrite app_length, Lv; reflexivity).
  replace (2 <=? v_minor v)%Z with true by (symmetry; apply Z.leb_le; lia).
  replace (3 <=? v_minor v)%Z with true by (symmetry; apply Z.leb_le; lia).
  rewrite (read_at_packed _ _ _ (MAGIC ++ vb ++ hb) ((cb ++ eb) ++ blkb ++ v_low v ++ List.concat (v_high v)) file _ Wd Fd Ed)
    by (unfold file; rewrite <- ?app_assoc; try reflexivity; rewrite !app_length, Lv, Lh; cbn [MAGIC List.length]; lia).
  cbn [option_map hd getZ].
  rewrite (read_at_packed _ _ _ (MAGIC ++ vb ++ hb ++ db) (eb ++ blkb ++ v_low v ++ List.concat (v_high v)) file _ Wc Fc Ec)
    by (unfold file; rewrite <- ?app_assoc; try reflexivity; rewrite !app_length, Lv, Lh, Ld; cbn [MAGIC List.length]; lia).
  cbv beta iota. rewrite Nat2Z.id, <- Hn.
  replace file with ((MAGIC ++ vb ++ hb ++ db ++ cb) ++ eb ++ blkb ++ v_low v ++ List.concat (v_high v))
    by (unfold file; rewrite <- !app_assoc; reflexivity).
  replace (4 + calcsize (f_version F) + calcsize (f_header F) + calcsize (f_depth F) + calcsize (f_count F))
    with (List.length (MAGIC ++ vb ++ hb ++ db ++ cb)) by (rewrite !app_length, Lv, Lh, Ld, Lc; cbn [MAGIC List.length]; lia).
  rewrite (read_entries_packed F _ eb _ _ We Fe Ee).
  replace ((MAGIC ++ vb ++ hb ++ db ++ cb) ++ eb ++ blkb ++ v_low v ++ List.concat (v_high v)) with file
    by (unfold file; rewrite <- !app_assoc; reflexivity).
  (* the three filters *)
  assert (HA : Forall (fun e : dentry => user_id (fst (fst e)) = true) (abs_entries G (v_res v) (block_offs F v))).
  { apply (abs_entries_ids (fun id => user_id id = true)). exact Uid. }
  assert (HS : sheet_entry F v = [] \/ exists sx, sheet_entry F v = [(ID_SHEET, 0%Z, sx)]).
  { unfold sheet_entry. destruct (v_sheet v); [right; eexists; reflexivity|left; reflexivity]. }
  destruct (filters_dir _ (Z.of_nat (low_off73 F v)) (Z.of_nat (high_off73 F v)) _ HA HS) as (Fl1 & Fl2 & Fl3).
  unfold all_entries. rewrite Fl1, Fl2, Fl3. clear Fl1 Fl2 Fl3.
  (* decoding the entries *)
  change (map (fun e : list N * Z * Z => let '(id, fl, x) := e in
                 if ft_eval (fl_test G) fl
                 then match read_block F file (Z.to_nat x) with Some dta => Some (id, fl, RData dta) | None => None end
                 else Some (id, fl, RInline x)) (abs_entries G (v_res v) (block_offs F v) ++ sheet_entry F v))
    with (map (dec_e F G file) (abs_entries G (v_res v) (block_offs F v) ++ sheet_entry F v)).
  rewrite map_app.
  assert (RBs : Forall2 (fun o d => read_block F file o = Some d) (block_offs F v)
                        (data_of (v_res v) ++ match v_sheet v with Some d => [d] | None => [] end)) by exact RB.
  apply Forall2_app_split in RBs. destruct RBs as [RB1 RB2].
  rewrite (dec_abs F G file HG (v_res v) (block_offs F v) Ufl RB1).
  assert (T0 : ft_eval (fl_test G) 0 = true).
  { destruct (flags_roundtrip G HG 0%Z ltac:(lia)) as (Ho & _ & Ht & _). rewrite Ho in Ht. exact Ht. }
  cbn [snd fst]. rewrite !Nat2Z.id.
  unfold sheet_entry. destruct (v_sheet v) as [sd|].
  - inversion RB2 as [|o ? ? ? Hrd Hnil Eo]; subst. symmetry in Eo. 
    cbn [map dec_e]. rewrite T0, Nat2Z.id. cbn [hd]. rewrite Hrd.
    replace (map (fun r => Some (norm r)) (v_res v) ++ [Some (ID_SHEET, 0%Z, RData sd)])
      with (map Some (map norm (v_res v) ++ [(ID_SHEET, 0%Z, RData sd)])) by (rewrite map_app, map_map; reflexivity).
    rewrite existsb_map_Some, flat_map_map_Some.
    assert (NS : Forall (fun r : list N * Z * resval => bytes_eqb (fst (fst r)) ID_SHEET = false) (map norm (v_res v))).
    { apply Forall_forall. intros r Hr. apply in_map_iff in Hr. destruct Hr as ([[id fl] x] & <- & Hin).
      rewrite Forall_forall in Uid. specialize (Uid _ Hin). cbn [fst] in Uid. unfold user_id in Uid.
      destruct x; cbn [norm fst]; destruct (bytes_eqb id ID_LOW), (bytes_eqb id ID_HIGH), (bytes_eqb id ID_SHEET); try discriminate; reflexivity. }
    rewrite (find_app_none _ _ _ _ NS). rewrite filter_app.
    rewrite (filter_all _ (fun r : list N * Z * resval => negb (bytes_eqb (fst (fst r)) ID_SHEET)) (map norm (v_res v)))
      by (eapply Forall_impl'; [|exact NS]; intros r Hr; cbv beta in Hr; rewrite Hr; reflexivity).
    cbn. rewrite app_nil_r. reflexivity.
  - cbn [map]. rewrite app_nil_r.
    replace (map (fun r => Some (norm r)) (v_res v)) with (map Some (map norm (v_res v))) by (rewrite map_map; reflexivity).
    rewrite existsb_map_Some, flat_map_map_Some.
    assert (NS : Forall (fun r : list N * Z * resval => bytes_eqb (fst (fst r)) ID_SHEET = false) (map norm (v_res v))).
    { apply Forall_forall. intros r Hr. apply in_map_iff in Hr. destruct Hr as ([[id fl] x] & <- & Hin).
      rewrite Forall_forall in Uid. specialize (Uid _ Hin). cbn [fst] in Uid. unfold user_id in Uid.
      destruct x; cbn [norm fst]; destruct (bytes_eqb id ID_LOW), (bytes_eqb id ID_HIGH), (bytes_eqb id ID_SHEET); try discriminate; reflexivity. }
    rewrite (find_none _ _ _ NS).
    rewrite (filter_all _ (fun r : list N * Z * resval => negb (bytes_eqb (fst (fst r)) ID_SHEET)) (map norm (v_res v)))
      by (eapply Forall_impl'; [|exact NS]; intros r Hr; cbv beta in Hr; rewrite Hr; reflexivity).
    reflexivity.
Qed.

(** * the whole file before 7.3: no resource directory, 15 bytes of padding, depth only from 7.2 *)

Lemma encode_old : forall F G v, (v_minor v < 3)%Z ->
  encode_file F G v =
  opt_concat [Some MAGIC; pack (f_version F) [VInt 7; VInt (v_minor v)];
              pack (f_header F) (set_header_size (v_header v) (hs_old F v));
              (if (2 <=? v_minor v)%Z then pack (f_depth F) [VInt (v_depth v)] else Some []);
              Some (repeat 0%N 15); Some []; Some (v_low v); Some (List.concat (v_high v))].
Proof.
  intros F G v Hm. destruct v as [m hd0 dp rs sh lo hi]. cbn [v_minor] in Hm. unfold encode_file, hs_old. cbn [v_minor].
  replace (3 <=? m)%Z with false by (symmetry; apply Z.leb_gt; lia).
  cbv zeta. rewrite res_entries_abs. reflexivity.
Qed.

Theorem whole_file_pre73 : forall F G v file,
  fmts_wf F = true -> (v_minor v < 3)%Z -> vfile_fits_old F v = true ->
  encode_file F G v = Some file ->
  decode_file F G (List.length (v_low v)) file
  = Some (v_minor v, set_header_size (v_header v) (hs_old F v), v_depth v, [], None, hs_old F v, hs_old F v + List.length (v_low v))
  /\ exists pre, file = pre ++ v_low v ++ List.concat (v_high v) /\ List.length pre = hs_old F v.
Proof.
  intros F G v file HW Hm HF Henc.
  unfold fmts_wf in HW. repeat (apply andb_prop in HW; destruct HW as [HW ?]).
  rename HW into Wv, H3 into Wd, H4 into Wh. clear H H0 H1 H2.
  unfold vfile_fits_old in HF. repeat (apply andb_prop in HF; destruct HF as [HF ?]).
  rename HF into Fv, H into Dep, H0 into Hne, H1 into Fd, H2 into Fh.
  rewrite (encode_old F G v Hm) in Henc. remember (repeat 0%N 15) as pad15 eqn:Hpad in Henc.
  apply opt_concat_cons in Henc. destruct Henc as (mg & r1 & E0 & Henc & ->). inversion E0; subst mg; clear E0.
  apply opt_concat_cons in Henc. destruct Henc as (vb & r2 & Ev & Henc & ->).
  apply opt_concat_cons in Henc. destruct Henc as (hb & r3 & Eh & Henc & ->).
  apply opt_concat_cons in Henc. destruct Henc as (db & r4 & Ed & Henc & ->).
  apply opt_concat_cons in Henc. destruct Henc as (pad & r5 & Epad & Henc & ->). inversion Epad; subst pad; clear Epad.
  apply opt_concat_cons in Henc. destruct Henc as (nb & r6 & Enb & Henc & ->). inversion Enb; subst nb; clear Enb.
  apply opt_concat_cons in Henc. destruct Henc as (lowb & r7 & El & Henc & ->). inversion El; subst lowb; clear El.
  apply opt_concat_cons in Henc. destruct Henc as (highb & r8 & Ehi & Henc & ->). inversion Ehi; subst highb; clear Ehi.
  cbn [opt_concat] in Henc. inversion Henc; subst r8; clear Henc. rewrite app_nil_r. cbn [app].
  pose proof (pack_length _ _ _ Ev) as Lv. pose proof (pack_length _ _ _ Eh) as Lh.
  assert (Ld : List.length db = if (2 <=? v_minor v)%Z then calcsize (f_depth F) else 0).
  { destruct (2 <=? v_minor v)%Z; [apply (pack_length _ _ _ Ed)|inversion Ed; reflexivity]. }
  set (file := MAGIC ++ vb ++ hb ++ db ++ pad15 ++ v_low v ++ List.concat (v_high v)).
  assert (Hhd : exists r, set_header_size (v_header v) (hs_old F v) = VInt (Z.of_nat (hs_old F v)) :: r).
  { destruct (v_header v) as [|x r]; [discriminate|]. exists r. reflexivity. }
  destruct Hhd as (hr & Hhd).
  split.
  2:{ exists (MAGIC ++ vb ++ hb ++ db ++ pad15). split; [unfold file; rewrite <- !app_assoc; reflexivity|].
      unfold hs_old. rewrite !app_length, Lv, Lh, Ld, Hpad, repeat_length. cbn [MAGIC List.length]. lia. }
  unfold decode_file.
  replace (slice file 0 4) with MAGIC by (symmetry; apply (slice_app [] MAGIC)).
  replace (bytes_eqb MAGIC [86%N; 84%N; 70%N; 0%N]) with true by reflexivity. cbn [negb].
  rewrite (read_at_packed _ _ _ MAGIC (hb ++ db ++ pad15 ++ v_low v ++ List.concat (v_high v)) file 4 Wv Fv Ev eq_refl eq_refl).
  cbv beta iota.
  rewrite (read_at_packed _ _ _ (MAGIC ++ vb) (db ++ pad15 ++ v_low v ++ List.concat (v_high v)) file _ Wh Fh Eh)
    by (unfold file; rewrite <- ?app_assoc; try reflexivity; rewrite app_length, Lv; reflexivity).
  replace (3 <=? v_minor v)%Z with false by (symmetry; apply Z.leb_gt; lia).
  rewrite Hhd. cbn [hd getZ]. rewrite Nat2Z.id.
  destruct (2 <=? v_minor v)%Z eqn:E2.
  - rewrite (read_at_packed _ _ _ (MAGIC ++ vb ++ hb) (pad15 ++ v_low v ++ List.concat (v_high v)) file _ Wd Fd Ed)
      by (unfold file; rewrite <- ?app_assoc; try reflexivity; rewrite !app_length, Lv, Lh; cbn [MAGIC List.length]; lia).
    cbn [option_map hd getZ]. reflexivity.
  - cbn [orb] in Dep. apply Z.eqb_eq in Dep. rewrite Dep. reflexivity.
Qed.


(** * container + frames: the whole file *)
(** A file written by save() for version 7.3+: the image part is the frames in the order of save()'s loop nest over the
    sides of the version written.  Then (1) [decode_file] returns the metadata, resources, sheet and the two offsets as
    in [whole_file_73]; (2) the thumbnail is at the offset returned; (3) for every (frame, side, mipmap) read() visits
    - it walks ITS loop nest over the sides of the version found in the file, starting at the offset returned - the bytes
    at the offset it records, of the size it computes for that level, are the bytes save() produced for that key. *)
Theorem whole_file_with_frames_73 : forall F G v low_size file c so ro,
  fmts_wf F = true -> flags_ok G = true -> (3 <= v_minor v)%Z -> vfile_fits F G v = true ->
  sides_ok c = true -> lorder_eqb so ro = true ->
  forall envmap object depth mips frames (content : key -> list N) (size : nat -> nat),
    (forall k, List.length (content k) = size (k_mip k)) ->
    v_high v = map content (walk so mips frames (save_sides c envmap object (v_minor v) depth) key0) ->
    encode_file F G v = Some file ->
    decode_file F G low_size file
    = Some (v_minor v, set_header_size (v_header v) (hs73 F v), v_depth v, map norm (v_res v), v_sheet v, low_off73 F v, high_off73 F v)
    /\ slice file (low_off73 F v) (List.length (v_low v)) = v_low v
    /\ Forall (fun ok => slice file (fst ok) (size (k_mip (snd ok))) = content (snd ok))
              (read_table ro mips frames (read_sides c envmap (v_minor v) depth) size (high_off73 F v)).
Proof.
  intros F G v low_size file c so ro HW HG Hm HF Hc Ho envmap object depth mips frames content size Hsz Hhigh Henc.
  destruct (whole_file_73 F G v low_size file HW HG Hm HF Henc) as (Hdec & pre & Hfile & Hlen).
  split; [exact Hdec|]. split.
  - rewrite Hfile, <- Hlen. apply slice_app.
  - pose proof (written_frames_read_back c so ro Hc Ho envmap object (v_minor v) depth mips frames content size (pre ++ v_low v) Hsz) as H.
    unfold written_image in H. rewrite <- Hhigh in H. rewrite app_length, Hlen in H. fold (high_off73 F v) in H.
    rewrite <- app_assoc, <- Hfile in H. exact H.
Qed.

(** the same before 7.3 (no directory: read() computes the offsets from the header size and the thumbnail size) *)
Theorem whole_file_with_frames_pre73 : forall F G v file c so ro,
  fmts_wf F = true -> (v_minor v < 3)%Z -> vfile_fits_old F v = true ->
  sides_ok c = true -> lorder_eqb so ro = true ->
  forall envmap object depth mips frames (content : key -> list N) (size : nat -> nat),
    (forall k, List.length (content k) = size (k_mip k)) ->
    v_high v = map content (walk so mips frames (save_sides c envmap object (v_minor v) depth) key0) ->
    encode_file F G v = Some file ->
    decode_file F G (List.length (v_low v)) file
    = Some (v_minor v, set_header_size (v_header v) (hs_old F v), v_depth v, [], None, hs_old F v, hs_old F v + List.length (v_low v))
    /\ slice file (hs_old F v) (List.length (v_low v)) = v_low v
    /\ Forall (fun ok => slice file (fst ok) (size (k_mip (snd ok))) = content (snd ok))
              (read_table ro mips frames (read_sides c envmap (v_minor v) depth) size (hs_old F v + List.length (v_low v))).
Proof.
  intros F G v file c so ro HW Hm HF Hc Ho envmap object depth mips frames content size Hsz Hhigh Henc.
  destruct (whole_file_pre73 F G v file HW Hm HF Henc) as (Hdec & pre & Hfile & Hlen).
  split; [exact Hdec|]. split.
  - rewrite Hfile, <- Hlen. apply slice_app.
  - pose proof (written_frames_read_back c so ro Hc Ho envmap object (v_minor v) depth mips frames content size (pre ++ v_low v) Hsz) as H.
    unfold written_image in H. rewrite <- Hhigh in H. rewrite app_length, Hlen in H.
    rewrite <- app_assoc, <- Hfile in H. exact H.
Qed.

(** * the hypotheses are satisfiable; the shapes of faults are refuted *)
Example whole_file_inhabited :
  fmts_wf std_fmts = true /\ vfile_fits std_fmts good_flagcfg (ex_file 4) = true /\ vfile_fits_old std_fmts (ex_file 2) = true
  /\ option_map (@List.length N) (encode_file std_fmts good_flagcfg (ex_file 4)) = Some 144
  /\ option_map (@List.length N) (encode_file std_fmts good_flagcfg (ex_file 2)) = Some 88
  /\ option_map (decode_file std_fmts good_flagcfg 2) (encode_file std_fmts good_flagcfg (ex_file 4))
     = Some (Some (4%Z, set_header_size ex_header 120, 1%Z,
                   [([67; 82; 67]%N, 66%Z, RInline 305419896); ([75; 86; 68]%N, 64%Z, RData [1; 2; 3; 4; 5]%N)],
                   Some [9; 8; 7]%N, 136, 138)).
Proof. vm_compute. repeat split; reflexivity. Qed.

(** the seeded shape `res.flags & 2` for out-of-line entries (the `~` lost): the data resource with flags 0x42 is stored
    with flags 2, so the reader takes the OFFSET of its data block (120) for the value *)
Theorem whole_file_masked_flags_refuted :
  flags_ok masked_flagcfg = false
  /\ option_map (fun r => match r with Some (_, _, _, res, _, _, _) => res | None => [] end)
       (option_map (decode_file std_fmts masked_flagcfg 2) (encode_file std_fmts masked_flagcfg (ex_file 4)))
     = Some [([67; 82; 67]%N, 66%Z, RInline 305419896); ([75; 86; 68]%N, 2%Z, RInline 120)].
Proof. vm_compute. split; reflexivity. Qed.

(** * where save() records the offsets: the order of today's events passes, the shapes of two faults do not *)
Example save_events_inhabited : save_events_ok good_save_events = true.
Proof. vm_compute. reflexivity. Qed.
(** the thumbnail offset recorded after the thumbnail was written; a data-block offset recorded after its length *)
Theorem late_offsets_refuted : low_high_ok late_low_events = false /\ set_then_block res_key late_block_events = false.
Proof. vm_compute. split; reflexivity. Qed.

(** * every fitting file can be written *)
Lemma pack_fits : forall f vals, wf_fmt f = true -> fits f vals = true -> exists bs, pack f vals = Some bs.
Proof. intros f vals Hw Hf. destruct (unpack_pack _ _ Hw Hf) as (bs & Hp & _). eauto. Qed.

Lemma pack_entries_total : forall F es, wf_fmt (f_entry F) = true -> forallb (entry_fits F) es = true ->
  exists eb, opt_concat (map (pack_e F) es) = Some eb.
Proof.
  intros F es Hw. induction es as [|[[id fl] x] es IH]; intros Hf; [exists []; reflexivity|].
  cbn [forallb] in Hf. apply andb_prop in Hf. destruct Hf as [H1 H2]. cbn [entry_fits] in H1.
  destruct (pack_fits _ _ Hw H1) as (a & Ha). destruct (IH H2) as (b & Hb).
  exists (a ++ b). cbn [map opt_concat pack_e]. rewrite Ha, Hb. reflexivity.
Qed.

Lemma blocks_total : forall F ds, wf_fmt (f_len F) = true ->
  forallb (fun d => fits (f_len F) [VInt (Z.of_nat (List.length d))]) ds = true ->
  exists bb, opt_concat (map (block F) ds) = Some bb.
Proof.
  intros F ds Hw. induction ds as [|d ds IH]; intros Hf; [exists []; reflexivity|].
  cbn [forallb] in Hf. apply andb_prop in Hf. destruct Hf as [H1 H2].
  destruct (pack_fits _ _ Hw H1) as (a & Ha). destruct (IH H2) as (b & Hb).
  exists ((a ++ d) ++ b). cbn [map opt_concat]. unfold block at 1. rewrite Ha, Hb. reflexivity.
Qed.

Theorem encode_total_73 : forall F G v, fmts_wf F = true -> (3 <= v_minor v)%Z -> vfile_fits F G v = true ->
  exists file, encode_file F G v = Some file.
Proof.
  intros F G v HW Hm HF.
  unfold fmts_wf in HW. repeat (apply andb_prop in HW; destruct HW as [HW ?]).
  unfold vfile_fits in HF. repeat (apply andb_prop in HF; destruct HF as [HF ?]).
  rewrite (encode73 F G v Hm).
  destruct (pack_fits _ _ HW HF) as (vb & Ev). destruct (pack_fits _ _ H4 H10) as (hb & Eh).
  destruct (pack_fits _ _ H3 H9) as (db & Ed). destruct (pack_fits _ _ H2 H8) as (cb & Ec).
  destruct (pack_entries_total F _ H1 H7) as (eb & Ee). destruct (blocks_total F _ H0 H6) as (bb & Eb).
  cbn [opt_concat]. rewrite Ev, Eh, Ed, Ec, Ee, Eb. cbn [opt_app]. eexists. reflexivity.
Qed.

Theorem encode_total_pre73 : forall F G v, fmts_wf F = true -> (v_minor v < 3)%Z -> vfile_fits_old F v = true ->
  exists file, encode_file F G v = Some file.
Proof.
  intros F G v HW Hm HF.
  unfold fmts_wf in HW. repeat (apply andb_prop in HW; destruct HW as [HW ?]).
  unfold vfile_fits_old in HF. repeat (apply andb_prop in HF; destruct HF as [HF ?]).
  rewrite (encode_old F G v Hm).
  destruct (pack_fits _ _ HW HF) as (vb & Ev). destruct (pack_fits _ _ H4 H8) as (hb & Eh).
  destruct (pack_fits _ _ H3 H7) as (db & Ed).
  cbn [opt_concat]. rewrite Ev, Eh. destruct (2 <=? v_minor v)%Z; [rewrite Ed|]; cbn [opt_app]; eexists; reflexivity.
Qed.
