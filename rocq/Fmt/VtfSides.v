(** C15 — which (frame, side/depth, mipmap) blocks a VTF file contains and in which order:
    the loop nests of [VTF.save] / [VTF.read] and the side list [VTF._depth_range] (vtf.py).
    A cubemap has six sides from version 7.5 on and a seventh (the sphere map) before; [save(version=...)] may write
    another version than the one the object was made for, and the reader walks the sides of the version IT FINDS IN THE
    FILE.  [sidescfg] is what translate/c15_pixel.py reads from the source: the comparison that selects the side list,
    the two lists, which minor version save() hands to _depth_range (the one it writes, or the object's), which one
    read() uses, and what save() does for a side the object does not have.
    Executable definitions only; proofs are in VtfSidesProofs.v. *)
From Coq Require Import ZArith NArith List Bool.
From SV Require Import Fmt.VtfLayout Fmt.VtfContainer.
Import ListNotations.

Inductive lvar := VMipRev | VFrame | VSide.
Definition lvar_eqb (a b : lvar) : bool :=
  match a, b with VMipRev, VMipRev | VFrame, VFrame | VSide, VSide => true | _, _ => false end.
Fixpoint lorder_eqb (a b : list lvar) : bool :=
  match a, b with [] , [] => true | x :: a', y :: b' => lvar_eqb x y && lorder_eqb a' b' | _, _ => false end.

Record key := { k_frame : nat; k_side : nat; k_mip : nat }.

(** the keys visited by a loop nest (outermost loop first); [for data_mipmap in reversed(range(mipmap_count))],
    [for frame_ind in range(frame_count)], [for depth_or_cube in depth_seq] *)
Fixpoint walk (order : list lvar) (mips frames : nat) (sides : list nat) (k : key) : list key :=
  match order with
  | [] => [k]
  | VMipRev :: r => flat_map (fun m => walk r mips frames sides {| k_frame := k_frame k; k_side := k_side k; k_mip := m |}) (rev (seq 0 mips))
  | VFrame :: r => flat_map (fun f => walk r mips frames sides {| k_frame := f; k_side := k_side k; k_mip := k_mip k |}) (seq 0 frames)
  | VSide :: r => flat_map (fun s => walk r mips frames sides {| k_frame := k_frame k; k_side := s; k_mip := k_mip k |}) sides
  end.
Definition key0 : key := {| k_frame := 0; k_side := 0; k_mip := 0 |}.
Definition good_order : list lvar := [VMipRev; VFrame; VSide].

(** which minor version selects the side list *)
Inductive minor_src := MWritten   (* the version being written / found in the file *)
                     | MObject.   (* the version attribute of the object *)
Record sidescfg := {
  sd_cmp : cmp; sd_threshold : Z;        (* `if <minor> OP threshold` in _depth_range *)
  sd_then : list nat; sd_else : list nat;(* sides (indexes of CubeSide) returned by the two branches *)
  sd_save : minor_src;                   (* save(): argument of _depth_range *)
  sd_read : minor_src;                   (* read(): MWritten = the version unpacked from the file *)
  sd_missing_blank : bool;               (* save() writes a blank frame of the level's size for a side the object lacks *)
}.
Definition sides_of (c : sidescfg) (envmap : bool) (minor : Z) (depth : nat) : list nat :=
  if envmap then (if cmpZ (sd_cmp c) minor (sd_threshold c) then sd_then c else sd_else c) else seq 0 depth.
Definition pick (s : minor_src) (written object : Z) : Z := match s with MWritten => written | MObject => object end.
(** sides save() writes when the object has version [object] and the file gets version [written];
    sides read() walks: the object it builds has the version of the file *)
Definition save_sides (c : sidescfg) (envmap : bool) (object written : Z) (depth : nat) : list nat :=
  sides_of c envmap (pick (sd_save c) written object) depth.
Definition read_sides (c : sidescfg) (envmap : bool) (file_minor : Z) (depth : nat) : list nat :=
  sides_of c envmap (pick (sd_read c) file_minor file_minor) depth.

Definition minor_src_eqb (a b : minor_src) : bool := match a, b with MWritten, MWritten | MObject, MObject => true | _, _ => false end.
Definition sides_ok (c : sidescfg) : bool := minor_src_eqb (sd_save c) MWritten && sd_missing_blank c.
(** the format: six sides from 7.5 on, the sphere map (side 6) as the seventh before *)
Definition sphere_rule_ok (c : sidescfg) : bool :=
  cmp_eqb (sd_cmp c) CGe && Z.eqb (sd_threshold c) 5
  && forallb (fun p => Nat.eqb (fst p) (snd p)) (combine (sd_then c) (seq 0 6)) && Nat.eqb (length (sd_then c)) 6
  && forallb (fun p => Nat.eqb (fst p) (snd p)) (combine (sd_else c) (seq 0 7)) && Nat.eqb (length (sd_else c)) 7.

Definition good_sidescfg : sidescfg :=
  {| sd_cmp := CGe; sd_threshold := 5; sd_then := seq 0 6; sd_else := seq 0 7; sd_save := MWritten; sd_read := MWritten; sd_missing_blank := true |}.
(** the tree before the round-3 repair: save() asked _depth_range() for the sides of the object's own version *)
Definition pinned_sidescfg : sidescfg :=
  {| sd_cmp := CGe; sd_threshold := 5; sd_then := seq 0 6; sd_else := seq 0 7; sd_save := MObject; sd_read := MWritten; sd_missing_blank := false |}.

(** the image part of the file as save() writes it, and the (offset, key) pairs read() records *)
Definition written_image (order : list lvar) (mips frames : nat) (sides : list nat) (content : key -> list N) : list N :=
  List.concat (map content (walk order mips frames sides key0)).
Definition read_table (order : list lvar) (mips frames : nat) (sides : list nat) (size : nat -> nat) (start : nat) : list (nat * key) :=
  let ks := walk order mips frames sides key0 in
  combine (offsets start (map (fun k => size (k_mip k)) ks)) ks.
