(** Proofs about the keyed tables of the C20 writers, on top of C11's Fmt/BspDedupProofs.v (imported, not edited). *)
From Coq Require Import List String NArith Bool PeanoNat Lia.
Import ListNotations.
From SV Require Import Fmt.BspDedup Fmt.BspDedupProofs Fmt.C20KeyTables.
Open Scope string_scope.
Open Scope list_scope.

(** Every table of a census that passes [tables_ok]: for any initial content and any sequence of requested objects (whose
    identifying attributes are [fields], whose identity determines them, and whose values are pairwise distinct under the
    transformations the reader itself applies), the record found under the number handed out for an object is that object's. *)
Theorem keyed_table_roundtrip : forall (ts : list dedup_table) name adm fields k tr l xs,
  tables_ok ts = true -> In (name, adm, fields, k) ts ->
  (forall v, tr "" v = v) ->
  (forall o, In o (l ++ xs) -> map fst (snd o) = fields) ->
  (forall o o', In o (l ++ xs) -> In o' (l ++ xs) -> fst o = fst o' -> o = o') ->
  (forall t, In t adm -> forall o o' f v v', In o (l ++ xs) -> In o' (l ++ xs) ->
     assoc_f f (snd o) = Some v -> assoc_f f (snd o') = Some v' -> tr t v = tr t v' -> v = v') ->
  forall s' is, dd_run (key_sem tr k) keyval_eqb (dd_init (key_sem tr k) l) xs = (s', is) ->
  Forall2 (fun o i => read_back (fst s') i = Some (snd o)) xs is /\ exists ext, fst s' = l ++ ext.
Proof.
  intros ts name adm fields k tr l xs Hts Hin Htr Hf Hid Hadm s' is H.
  unfold tables_ok in Hts. rewrite forallb_forall in Hts. specialize (Hts _ Hin). cbn in Hts.
  exact (dedup_key_roundtrip adm fields k tr l xs Hts Htr Hf Hid Hadm s' is H).
Qed.

(** A class whose comparison methods pass [kcmp_ok]: objects the dict treats as equal also hash equal (so the dict finds
    them), for any interpretation of the transformations. *)
Lemma assoc_map_eq : forall (fs : list ftr) (tr : string -> N -> N) (r r' : list (string * N)) f t,
  In (f, t) fs ->
  map (fun ft : ftr => option_map (tr (snd ft)) (assoc_f (fst ft) r)) fs =
  map (fun ft : ftr => option_map (tr (snd ft)) (assoc_f (fst ft) r')) fs ->
  option_map (tr t) (assoc_f f r) = option_map (tr t) (assoc_f f r').
Proof.
  intros fs tr r r' f t Hin E. exact (map_eq_pointwise _ _ _ _ _ E (f, t) Hin).
Qed.

Theorem class_equal_objects_hash_equal : forall eq ne hash tr (o o' : obj),
  kcmp_ok (CFields eq ne hash) = true -> (forall v, tr "" v = v) ->
  key_sem tr (KFields eq) o = key_sem tr (KFields eq) o' ->
  key_sem tr (KFields hash) o = key_sem tr (KFields hash) o'.
Proof.
  intros eq ne hash tr o o' Hok Htr E. cbn [kcmp_ok] in Hok.
  apply andb_prop in Hok. destruct Hok as [Hok _]. apply andb_prop in Hok. destruct Hok as [Hok _].
  apply andb_prop in Hok. destruct Hok as [_ Hh].
  cbn [key_sem] in *. injection E as E. f_equal.
  apply map_ext_in. intros [f t] Hin. cbn [fst snd].
  unfold hash_follows_eq in Hh. rewrite forallb_forall in Hh. specialize (Hh _ Hin).
  apply existsb_exists in Hh. destruct Hh as ([g u] & Hg & Hc). cbn [fst snd] in Hc.
  apply andb_prop in Hc. destruct Hc as [Hfg Hu]. apply String.eqb_eq in Hfg. subst g.
  pose proof (assoc_map_eq eq tr (snd o) (snd o') f u Hg E) as Ep.
  apply orb_prop in Hu. destruct Hu as [Hu|Hu]; apply String.eqb_eq in Hu; subst u; [exact Ep|].
  destruct (assoc_f f (snd o)) as [v|], (assoc_f f (snd o')) as [v'|]; cbn [option_map] in *; try discriminate; [|reflexivity].
  injection Ep as Ep. rewrite !Htr in Ep. subst v'. reflexivity.
Qed.

(** The class of seeded fault: [Bone.__eq__] / [__hash__] through [name.casefold()].  The comparison methods are consistent
    with each other ([kcmp_ok]), but the key no longer determines the name the reader keys bones by: the obligation is false,
    and the table gives "Weapon" and "weapon" one number, under which the reader finds "Weapon". *)
Definition bone_casefold : kcmp := CFields [("name", "casefold")] [("name", "casefold")] [("name", "casefold")].
Definition bone_exact : kcmp := CFields [("name", "")] [("name", "")] [("name", "")].
Theorem bone_key_casefold_refuted :
  kcmp_ok bone_casefold = true /\ kcmp_exact bone_casefold = false /\
  dedup_ok ("smd.Mesh.export:bone_indexes", [], ["name"], keyspec_of_class bone_casefold) = false /\
  (let k := key_sem tr_case (keyspec_of_class bone_casefold) in
   let '(s, is) := dd_run k keyval_eqb (dd_init k []) [bone_Weapon; bone_weapon] in
   is = [0; 0]%nat /\ read_back (fst s) 0 = Some (snd bone_Weapon) /\ snd bone_Weapon <> snd bone_weapon) /\
  kcmp_ok bone_exact = true /\ kcmp_exact bone_exact = true /\
  dedup_ok ("smd.Mesh.export:bone_indexes", [], ["name"], keyspec_of_class bone_exact) = true /\
  (let k := key_sem tr_case (keyspec_of_class bone_exact) in
   let '(s, is) := dd_run k keyval_eqb (dd_init k []) [bone_Weapon; bone_weapon; bone_Weapon] in
   is = [0; 1; 0]%nat /\ read_back (fst s) 1 = Some (snd bone_weapon)).
Proof. vm_compute. repeat split; try reflexivity. discriminate. Qed.

(** [__eq__] folds case, [__hash__] does not: equal objects with different hashes, the dict may or may not find them. *)
Theorem hash_finer_than_eq_refuted :
  kcmp_ok (CFields [("name", "casefold")] [("name", "casefold")] [("name", "")]) = false /\
  kcmp_ok (CFields [("name", "")] [("name", "")] [("name", "casefold")]) = true.
Proof. vm_compute. split; reflexivity. Qed.

(** The string pool keyed by the casefolded string: "Alyx" and "alyx" share an index. *)
Theorem pool_key_casefold_refuted :
  dedup_ok ("choreo.save_scenes_image_sync:add_to_pool", [], ["<value>"], KFields [("<value>", "casefold")]) = false /\
  dedup_ok ("choreo.save_scenes_image_sync:add_to_pool", [], ["<value>"], KValue) = true /\
  dedup_ok ("particles.Particle.export:name_to_elem", ["casefold"], ["name"], KFields [("name", "casefold")]) = true /\
  dedup_ok ("particles.Particle.export:name_to_elem", ["casefold"], ["name"], KFields [("name", "strip+casefold")]) = false.
Proof. vm_compute. repeat split; reflexivity. Qed.

(** Non-vacuity of [keyed_table_roundtrip]: a census with the bone table, and a run. *)
Example ex_bone_table_ok :
  tables_ok [("smd.Mesh.export:bone_indexes", [], ["name"], keyspec_of_class bone_exact)] = true.
Proof. reflexivity. Qed.
