(** C06, round 4: the round trip of a whole object tree, by induction over the containment tree (axiom-free). *)
From Coq Require Import List String Bool.
From SV Require Import Fmt.VmfLite Fmt.VmfLiteProofs Fmt.VmfTree.
Import ListNotations.
Open Scope string_scope.

Lemma paired_find c : lite_paired c = true ->
  forall w, In w (lc_written c) -> le_dyn w = false -> le_attrs w <> [] ->
  exists r, find_entry (le_block w) (le_key w) (lc_read c) = Some r.
Proof.
  unfold lite_paired. intros H w Hw Hd Hne.
  apply andb_true_iff in H. destruct H as [H _]. apply andb_true_iff in H. destruct H as [H _].
  rewrite forallb_forall in H. specialize (H w Hw). unfold entry_paired in H. rewrite Hd in H. cbn [orb] in H.
  destruct (le_attrs w) as [|a0 l0]; [congruence|].
  destruct (find_entry (le_block w) (le_key w) (lc_read c)) as [r|]; [exists r; reflexivity|discriminate].
Qed.

Lemma paired_distinct c : lite_paired c = true -> keys_distinct (lc_written c) = true.
Proof.
  unfold lite_paired. intros H. apply andb_true_iff in H. destruct H as [H _]. apply andb_true_iff in H. destruct H as [_ H]. exact H.
Qed.

Lemma is_scalar_spec w : is_scalar w = true -> le_dyn w = false /\ le_attrs w = [scalar_attr w].
Proof.
  unfold is_scalar, scalar_attr. intros H. apply andb_true_iff in H. destruct H as [H1 H2]. apply negb_true_iff in H1.
  split; [exact H1|]. destruct (le_attrs w) as [|a [|b l]]; try discriminate. reflexivity.
Qed.

Section TreeProofs.
  Variables V T : Type.
  Variable dflt : V.
  Variable enc : lentry -> list V -> T.
  Variable dec : lentry -> T -> V.
  Variable tbl : list liteclass.

  Notation otree := (otree V).
  Notation dtree := (dtree T).
  Notation export_t := (export_t V T dflt enc tbl).
  Notation parse_t := (parse_t V T dflt dec tbl).
  Notation wf := (wf V tbl).

  Fixpoint otree_ind2 (P : otree -> Prop)
      (H : forall a c fs ks, Forall P ks -> P (ONode V a c fs ks)) (x : otree) : P x :=
    match x with
    | ONode _ a c fs ks =>
        H a c fs ks ((fix go (l : list otree) : Forall P l :=
                        match l with [] => Forall_nil P | k :: r => Forall_cons k (otree_ind2 P H k) (go r) end) ks)
    end.

  Lemma cls_of_In c lc : cls_of tbl c = Some lc -> In lc tbl.
  Proof. unfold cls_of. intros H. apply find_some in H. tauto. Qed.

  Lemma d_attr_export x : d_attr T (export_t x) = o_attr V x.
  Proof. destruct x as [a c fs ks]. cbn [export_t]. destruct (cls_of tbl c); reflexivity. Qed.
  Lemma o_attr_parse d : o_attr V (parse_t d) = d_attr T d.
  Proof. destruct d as [a c ls ks]. cbn [parse_t]. destruct (cls_of tbl c); reflexivity. Qed.

  (** An association list with distinct keys that lists the keys [map g l] in order is the list of (key, value looked up). *)
  Lemma assoc_rebuild {A} (g : A -> string) (l : list A) : forall fs : list (string * V),
    map fst fs = map g l -> NoDup (map fst fs) -> forall full, (forall a v, In (a, v) fs -> fs_get V dflt a full = v) ->
    map (fun w => (g w, fs_get V dflt (g w) full)) l = fs.
  Proof.
    induction l as [|w r IH]; intros [|[a v] fs] E ND full Hf; cbn in *; try discriminate; [reflexivity|].
    injection E as E1 E2. apply NoDup_cons_iff in ND. destruct ND as [Hn ND'].
    f_equal.
    - rewrite <- E1. f_equal. apply Hf. left; reflexivity.
    - apply IH; auto.
  Qed.

  Lemma assoc_NoDup (fs : list (string * V)) : NoDup (map fst fs) -> forall a v, In (a, v) fs -> fs_get V dflt a fs = v.
  Proof.
    induction fs as [|[a' v'] r IH]; intros ND a v Hin; [destruct Hin|]. destruct Hin as [E|Hin]; cbn [fs_get].
    - injection E as -> ->. rewrite String.eqb_refl. reflexivity.
    - cbn [map fst] in ND. apply NoDup_cons_iff in ND. destruct ND as [Hn ND'].
      destruct (String.eqb a' a) eqn:Ea.
      + apply String.eqb_eq in Ea. subst. exfalso. apply Hn. apply in_map_iff. exists (a, v). auto.
      + apply IH; auto.
  Qed.

  Hypothesis Hcodec : codecs_invert V T enc dec tbl.

  (** One scalar line of a paired class: what the reader makes of the exported lines is the attribute's value. *)
  Lemma read_scalar_export lc (o : obj V) w : In lc tbl -> lite_paired lc = true -> In w (scalars lc) ->
    read_scalar V T dflt dec lc (export_lines V T enc lc o) w = (scalar_attr w, o (scalar_attr w)).
  Proof.
    intros Hin Hp Hw. unfold scalars in Hw. pose proof Hw as Hw0. apply filter_In in Hw. destruct Hw as [Hw Hs].
    apply is_scalar_spec in Hs. destruct Hs as [Hd Ha].
    destruct (paired_find lc Hp w Hw Hd) as [r Hr]; [rewrite Ha; discriminate|].
    unfold read_scalar. rewrite Hr. pose proof (find_entry_some _ _ _ _ Hr) as [_ [Hb Hk]]. rewrite Hb, Hk.
    unfold export_lines. rewrite (llookup_export_lines V T enc o (lc_written lc) w (paired_distinct lc Hp) Hw Hd).
    rewrite Ha. cbn [map]. rewrite (Hcodec lc w r (o (scalar_attr w)) Hin Hw0 Hr). reflexivity.
  Qed.

  (** The whole tree: export then parse gives the object back -- every scalar attribute of every node, the class of every
      node, and the children in order under the same attributes. *)
  Theorem tree_roundtrip x : wf x -> parse_t (export_t x) = x.
  Proof.
    induction x as [a c fs ks IH] using otree_ind2. cbn [VmfTree.wf].
    intros [lc [Hc [Hp [Hfs [Hnd Hks]]]]].
    cbn [VmfTree.export_t]. rewrite Hc. cbn [VmfTree.parse_t]. rewrite Hc.
    pose proof (cls_of_In c lc Hc) as Hin.
    f_equal.
    - rewrite (map_ext_in _ (fun w => (scalar_attr w, fs_get V dflt (scalar_attr w) fs))).
      + apply assoc_rebuild; auto. apply assoc_NoDup; exact Hnd.
      + intros w Hw. apply (read_scalar_export lc (fun at_ => fs_get V dflt at_ fs) w Hin Hp Hw).
    - clear Hfs Hnd. induction ks as [|k r IHr]; [reflexivity|].
      destruct Hks as [[Hkw [Hkr Hwf]] Hrest]. inversion IH as [|? ? Hk Hr]; subst.
      cbn [map filter]. rewrite d_attr_export. apply smem_In in Hkw. rewrite Hkw.
      cbn [map filter]. rewrite (Hk Hwf). apply smem_In in Hkr. rewrite Hkr. f_equal. apply IHr; assumption.
  Qed.

  (** Hence the second export is the first one (the fixed point at the level of blocks and lines). *)
  Corollary tree_fixed_point x : wf x -> export_t (parse_t (export_t x)) = export_t x.
  Proof. intros H. rewrite (tree_roundtrip x H). reflexivity. Qed.
End TreeProofs.

(** Non-vacuity and necessity: a two-class table Solid > Side. *)
Definition ex_side : liteclass := mk_liteclass "Side"
  [mk_le "side" "id" false ["id"]; mk_le "side" "material" false ["mat"]]
  [mk_le "side" "id" false ["id"]; mk_le "side" "material" false ["mat"]] [] [].
Definition ex_solid : liteclass := mk_liteclass "Solid"
  [mk_le "solid" "id" false ["id"]] [mk_le "solid" "id" false ["id"]] ["sides"] ["sides"].
(* the reader does not build the sides *)
Definition ex_solid_deaf : liteclass := mk_liteclass "Solid"
  [mk_le "solid" "id" false ["id"]] [mk_le "solid" "id" false ["id"]] ["sides"] [].

Definition ex_tree : otree nat :=
  ONode nat "" "Solid" [("id", 0)] [ONode nat "sides" "Side" [("id", 0); ("mat", 7)] []; ONode nat "sides" "Side" [("id", 5); ("mat", 8)] []].
Definition tree_ex_enc (w : lentry) (l : list nat) : nat := hd 0 l + 1.
Definition tree_ex_dec (r : lentry) (t : nat) : nat := t - 1.

Theorem tree_example :
  parse_t nat nat 0 tree_ex_dec [ex_solid; ex_side] (export_t nat nat 0 tree_ex_enc [ex_solid; ex_side] ex_tree) = ex_tree /\
  chain_ok [ex_solid; ex_side] [(("Solid", "sides"), "Side")] ["Solid"; "Side"] = true.
Proof. vm_compute. split; reflexivity. Qed.

Theorem tree_children_not_read_refuted :
  parse_t nat nat 0 tree_ex_dec [ex_solid_deaf; ex_side] (export_t nat nat 0 tree_ex_enc [ex_solid_deaf; ex_side] ex_tree)
    = ONode nat "" "Solid" [("id", 0)] [] /\
  chain_ok [ex_solid_deaf; ex_side] [(("Solid", "sides"), "Side")] ["Solid"; "Side"] = false.
Proof. vm_compute. split; reflexivity. Qed.

Lemma ex_tree_wf : wf nat [ex_solid; ex_side] ex_tree.
Proof.
  cbn. exists ex_solid. repeat split; try reflexivity; try (left; reflexivity).
  - constructor; [intros []|constructor].
  - exists ex_side. repeat split; try reflexivity. repeat constructor; cbn; intuition discriminate.
  - exists ex_side. repeat split; try reflexivity. repeat constructor; cbn; intuition discriminate.
Qed.

(** Meaning of the per-edge obligation: exactly the facts [wf] asks for at a child held in attribute [a] of a [p] object. *)
Theorem edge_ok_sound tbl p a c : edge_ok tbl ((p, a), c) = true ->
  exists lp lcc, cls_of tbl p = Some lp /\ cls_of tbl c = Some lcc /\ lite_paired lp = true /\ lite_paired lcc = true /\
    In a (lc_kids_written lp) /\ In a (lc_kids_read lp).
Proof.
  unfold edge_ok, cls_of.
  destruct (find (fun lc => lc_name lc =? p) tbl) as [lp|]; [|discriminate].
  destruct (find (fun lc => lc_name lc =? c) tbl) as [lcc|]; [|discriminate].
  intros H. apply andb_true_iff in H. destruct H as [H H4]. apply andb_true_iff in H. destruct H as [H H3].
  apply andb_true_iff in H. destruct H as [H1 H2].
  exists lp, lcc. repeat split; trivial; apply smem_In; assumption.
Qed.
