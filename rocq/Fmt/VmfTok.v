(** C06, round 3: the text of number groups.  Vec / Angle values are written as "x y z" (wrapped by the line template in
    "(...)" or "[...]"), texture axes as "[x y z offset] scale"; Vec.from_str (math.parse_vec_str) and UVAxis.parse take them
    apart with str.strip / str.split() / lstrip / rstrip.  Number texts are non-empty and contain neither white space nor
    brackets (digits, sign, point, exponent).  Definitions only; proofs in Fmt/VmfTokProofs.v. *)
From Coq Require Import NArith List Bool.
Import ListNotations.
Open Scope N_scope.

Definition tk_ws (c : N) : bool := (c =? 32) || (c =? 9) || (c =? 10) || (c =? 13) || (c =? 11) || (c =? 12).
Definition is_open (c : N) : bool := (c =? 40) || (c =? 123) || (c =? 91) || (c =? 60).     (* ( { [ < *)
Definition is_close (c : N) : bool := (c =? 41) || (c =? 125) || (c =? 93) || (c =? 62).    (* ) } ] > *)
Definition tk_plain (c : N) : bool := negb (tk_ws c || is_open c || is_close c).
Definition tok_ok (t : list N) : bool := negb (match t with [] => true | _ => false end) && forallb tk_plain t.

(** str.split() without argument: runs of white space separate, leading/trailing white space is dropped. *)
Fixpoint split_ws_aux (cur : list N) (s : list N) : list (list N) :=
  match s with
  | [] => match cur with [] => [] | _ => [rev cur] end
  | c :: r => if tk_ws c then match cur with [] => split_ws_aux [] r | _ => rev cur :: split_ws_aux [] r end
              else split_ws_aux (c :: cur) r
  end.
Definition split_ws (s : list N) : list (list N) := split_ws_aux [] s.

Fixpoint join_sp (l : list (list N)) : list N :=
  match l with [] => [] | [t] => t | t :: r => t ++ 32 :: join_sp r end.

(** str.strip() *)
Fixpoint lstrip_ws (s : list N) : list N := match s with c :: r => if tk_ws c then lstrip_ws r else s | [] => [] end.
Definition strip_ws (s : list N) : list N := rev (lstrip_ws (rev (lstrip_ws s))).
Fixpoint lstrip_c (c : N) (s : list N) : list N := match s with x :: r => if x =? c then lstrip_c c r else s | [] => [] end.
Definition rstrip_c (c : N) (s : list N) : list N := rev (lstrip_c c (rev s)).

(** math.parse_vec_str on a string: strip; drop one opening bracket at the front and one closing bracket at the end;
    split(); exactly three parts. *)
Definition drop_open (s : list N) : list N := match s with c :: r => if is_open c then r else s | [] => [] end.
Definition drop_close (s : list N) : list N := rev (match rev s with c :: r => if is_close c then r else c :: r | [] => [] end).
Definition parse_vec (s : list N) : option (list N * list N * list N) :=
  match split_ws (drop_close (drop_open (strip_ws s))) with
  | [x; y; z] => Some (x, y, z)
  | _ => None
  end.
Definition vec_text (x y z : list N) : list N := join_sp [x; y; z].

(** UVAxis.__str__ / UVAxis.parse, with the field order as generated: [wr] lists, for each of the five written positions,
    the field printed there; [rd] lists, for each field, the index of the split part it is read from.  The first part loses
    leading '[', the part before the bracket loses trailing ']'. *)
Definition LBR : N := 91.
Definition RBR : N := 93.
Definition uv_text (f : list (list N)) : list N :=
  match f with
  | [a; b; c; d; e] => LBR :: join_sp [a; b; c; d] ++ RBR :: 32 :: e
  | _ => []
  end.
Definition uv_parse (s : list N) : option (list (list N)) :=
  match split_ws s with
  | a :: b :: c :: d :: e :: _ => Some [lstrip_c LBR a; b; c; rstrip_c RBR d; e]      (* further parts are ignored *)
  | _ => None
  end.
