(** C06, round 3: displacement flags.  The file stores the collision bits inverted, through two module-level tables
    (_DISP_COLL_TO_FLAG on export, _DISP_FLAG_TO_COLL on parse), and the subdivision bit under its own key.
    Gen/VmfFlags_gen.v holds (translate/c06_lite.py): what the two written lines "flags" / "subdiv" contain for every value
    of DispFlag (the interpolated expressions of the writer, evaluated on each of the flag values), the table the reader
    indexes with the number found under "flags" (today's value of the module constant), and the bit it sets when "subdiv"
    is true.  Definitions only; proofs in Fmt/VmfFlagsProofs.v. *)
From Coq Require Import NArith List Bool.
Import ListNotations.
Open Scope N_scope.

Section Flags.
  Variable written : list (N * bool).   (* flag value f -> (number under "flags", "subdiv" is "1") *)
  Variable t2c : list N.                (* number under "flags" -> flag value *)
  Variable sub : N.                     (* bit or-ed in when "subdiv" is true *)

  Definition flags_write (f : N) : option (N * bool) := nth_error written (N.to_nat f).
  (** disp_flags = t2c[int(flags)];  if bool(subdiv): disp_flags |= sub *)
  Definition flags_read (p : N * bool) : option N :=
    match nth_error t2c (N.to_nat (fst p)) with Some c => Some (N.lor c (if snd p then sub else 0)) | None => None end.

  Definition flag_ok (f : N) : bool :=
    match flags_write f with
    | Some p => match flags_read p with Some g => g =? f | None => false end
    | None => false
    end.
  (** every one of the [n] flag values survives *)
  Definition flags_tables_ok (n : nat) : bool :=
    (forallb flag_ok (map N.of_nat (seq 0 n)) && Nat.eqb (List.length written) n)%bool.
End Flags.
