(** C06, round 4: the planar axis of a 2D viewport (Strata2DViewport).  In the file a 2D viewport is one vector whose planar
    axis holds a marker (+-65536) and whose other two coordinates are u and v.  Gen/VmfViewport_gen.v holds, read from
    vmf.py / math.py: for each axis the three slots the writer's template fills (marker constant, u, v), the tiers of marker
    values the reader tries in order, and the table that maps the chosen axis to the axes of u and v (Vec.INV_AXIS).
    The reader's loop (first tier with a hit decides; two hits in one tier are an error) is modelled by [vp_choose] and tied
    by correspondence.  Coordinates are integers here: only equality with the markers matters.  Proofs in Fmt/VmfViewportProofs.v. *)
From Coq Require Import List Bool ZArith.
Import ListNotations.
Open Scope Z_scope.

Inductive ax := AX | AY | AZ.
Definition ax_eqb (a b : ax) : bool := match a, b with AX, AX | AY, AY | AZ, AZ => true | _, _ => false end.
Definition vec3 := (Z * Z * Z)%type.
Definition getc (p : vec3) (a : ax) : Z := let '(x, y, z) := p in match a with AX => x | AY => y | AZ => z end.

Inductive slot := SMark (m : Z) | SU | SV.
Definition slots := (slot * slot * slot)%type.
Definition slot_val (u v : Z) (s : slot) : Z := match s with SMark m => m | SU => u | SV => v end.
Definition vp_write (tbl : ax -> slots) (a : ax) (u v : Z) : vec3 :=
  let '(s1, s2, s3) := tbl a in (slot_val u v s1, slot_val u v s2, slot_val u v s3).

Definition in_tier (t : list Z) (z : Z) : bool := existsb (Z.eqb z) t.
Definition hits (t : list Z) (p : vec3) : list ax := filter (fun a => in_tier t (getc p a)) [AX; AY; AZ].
Fixpoint vp_choose (tiers : list (list Z)) (p : vec3) : option ax :=
  match tiers with
  | [] => None
  | t :: r => match hits t p with [] => vp_choose r p | [a] => Some a | _ => None end
  end.
Definition vp_read (tiers : list (list Z)) (inv : ax -> ax * ax) (p : vec3) : option (ax * Z * Z) :=
  match vp_choose tiers p with
  | Some a => let '(ua, va) := inv a in Some (a, getc p ua, getc p va)
  | None => None
  end.

Definition slot_at (s : slots) (a : ax) : slot := let '(s1, s2, s3) := s in match a with AX => s1 | AY => s2 | AZ => s3 end.
Definition is_mark_in (t : list Z) (s : slot) : bool := match s with SMark m => in_tier t m | _ => false end.
Definition is_u (s : slot) : bool := match s with SU => true | _ => false end.
Definition is_v (s : slot) : bool := match s with SV => true | _ => false end.

(** The obligation: the first tier is the set of markers; for every axis the writer puts a marker of that tier into the
    axis' own coordinate, u into the coordinate the reader takes u from, v into the one it takes v from. *)
Definition axis_ok (t1 : list Z) (tbl : ax -> slots) (inv : ax -> ax * ax) (a : ax) : bool :=
  let '(ua, va) := inv a in
  (is_mark_in t1 (slot_at (tbl a) a) && is_u (slot_at (tbl a) ua) && is_v (slot_at (tbl a) va)
   && negb (ax_eqb ua a) && negb (ax_eqb va a) && negb (ax_eqb ua va))%bool.
(** ... and the first tier holds nothing but markers the writer really writes (a zero in it would make every viewport with a
    zero coordinate unreadable: the theorem's side condition must be the format's limit, not more). *)
Definition written_marker (tbl : ax -> slots) (z : Z) : bool :=
  existsb (fun a => match slot_at (tbl a) a with SMark m => Z.eqb m z | _ => false end) [AX; AY; AZ].
Definition vp_ok (tiers : list (list Z)) (tbl : ax -> slots) (inv : ax -> ax * ax) : bool :=
  match tiers with
  | t1 :: _ => (axis_ok t1 tbl inv AX && axis_ok t1 tbl inv AY && axis_ok t1 tbl inv AZ && forallb (written_marker tbl) t1)%bool
  | [] => false
  end.
