(* VmtQuoteProofs.v -- over the tokenizer model of KV/KvLex.v (bare-string mode, the same loop for every Tokenizer
   configuration without the colon / plus operators): a string that [needs_quotes] lets through is read back as one
   bare string, and a whole parameter line is read back as name, value, newline.  The quoted branch is the raw quoted
   field of Fmt/TextFieldsProofs.v ([raw_safe]: no quote, backslash, line break -- the model un-escapes, Material.parse
   does not, so for the real reader the backslash restriction is not needed). *)
From Coq Require Import List NArith Bool Lia.
From SV Require Import KV.KvBase KV.KvLex KV.KvSym KV.KvLexProofs Fmt.TextFields Fmt.TextFieldsProofs Fmt.VmtQuote.
Import ListNotations.
Open Scope N_scope.

Lemma mem_kvlex_delims c : bare_disallowed c = mem c kvlex_delims.
Proof. reflexivity. Qed.

Lemma okb_disallowed cfg c : nq_okb cfg = true -> bare_disallowed c = true -> mem c (nq_disallowed cfg) = true.
Proof.
  intros H Hc. unfold nq_okb in H. apply andb_true_iff in H as [_ H]. rewrite forallb_forall in H.
  rewrite mem_kvlex_delims in Hc. unfold mem in Hc. apply existsb_exists in Hc as [d [Hin Hd]].
  apply N.eqb_eq in Hd. subst d. apply H. exact Hin.
Qed.

Definition all_bare (v : str) : bool := forallb (fun c => negb (bare_disallowed c)) v.

Lemma not_needs_all_bare cfg v : nq_okb cfg = true -> needs_quotes cfg v = false -> v <> [] /\ all_bare v = true.
Proof.
  intros Hok H. destruct v as [|h t].
  - cbn in H. unfold nq_okb in Hok. rewrite H in Hok. discriminate.
  - split; [discriminate|]. cbn [needs_quotes] in H. apply orb_false_iff in H as [_ H].
    unfold all_bare. apply forallb_forall. intros c Hin. apply negb_true_iff.
    destruct (bare_disallowed c) eqn:E; [|reflexivity].
    assert (existsb (fun x => mem x (nq_disallowed cfg)) (h :: t) = true).
    { apply existsb_exists. exists c. split; [exact Hin | apply okb_disallowed; assumption]. }
    congruence.
Qed.

(** the bare loop: characters that are not delimiters accumulate *)
Lemma bare_run E w : all_bare w = true -> forall acc l cr rest,
  lex_run E (mkL (MBare acc) l cr) (w ++ rest) = lex_run E (mkL (MBare (rev w ++ acc)) l cr) rest.
Proof.
  induction w as [|c w IH]; intros H acc l cr rest; [reflexivity|].
  cbn [all_bare forallb] in H. apply andb_true_iff in H as [Hc Hw]. apply negb_true_iff in Hc.
  cbn [app]. erewrite lex_run_cons.
  2:{ unfold lstep; cbn [l_mode l_line l_cr]. rewrite Hc. reflexivity. }
  rewrite tcons_nil, (IH Hw). cbn [rev]. rewrite <- app_assoc. reflexivity.
Qed.

(** a first character that starts a bare string *)
Definition starts_bare (l : N) (h : char) : bool :=
  negb (bare_disallowed h) && negb (h =? 47) && negb (h =? 35) && negb ((h =? 65279) && (l =? 1)).

Lemma norm_step_bare l h : starts_bare l h = true -> norm_step l false h = SOk (mkL (MBare [h]) l false) [].
Proof.
  unfold starts_bare. rewrite !andb_true_iff, !negb_true_iff. intros [[[Hb H47] H35] Hbom].
  pose proof Hb as Hb'. unfold bare_disallowed, mem in Hb. cbn [existsb] in Hb. rewrite !orb_false_iff in Hb.
  destruct Hb as (q34 & q39 & q123 & q125 & q59 & q44 & q61 & q91 & q93 & q40 & q41 & q13 & q10 & q9 & q32 & _).
  unfold norm_step. unfold CR, LF, SP, TAB, DQ in *.
  rewrite q123, q125, q61, q44, q13, q10, q32, q9, H47, q34, q91, q40, Hbom, q93, q41, H35, Hb'. reflexivity.
Qed.

Lemma lstep_norm E l c : lstep E (norm l) c = norm_step l false c.
Proof. reflexivity. Qed.

Lemma bare_then E l h t d out l' : all_bare t = true -> starts_bare l h = true -> bare_disallowed d = true ->
  norm_step l false d = SOk (norm l') out ->
  lexes E l ((h :: t) ++ [d]) (TStr (h :: t) :: out) l'.
Proof.
  intros Ht Hst Hd Hn rest. rewrite <- app_assoc. cbn [app].
  erewrite lex_run_cons by (rewrite lstep_norm; apply norm_step_bare; exact Hst).
  rewrite tcons_nil, (bare_run E t Ht). cbn [app].
  erewrite lex_run_cons.
  2:{ unfold lstep; cbn [l_mode l_line l_cr]. rewrite Hd, Hn. cbn [prepend]. reflexivity. }
  rewrite rev_app_distr, rev_involutive. reflexivity.
Qed.

Lemma needs_false_starts cfg l h t : nq_okb cfg = true -> l <> 1 -> needs_quotes cfg (h :: t) = false ->
  starts_bare l h = true /\ all_bare t = true.
Proof.
  intros Hok Hl H. destruct (not_needs_all_bare cfg (h :: t) Hok H) as [_ Hall].
  cbn [all_bare forallb] in Hall. apply andb_true_iff in Hall as [Hh Ht]. split; [|exact Ht].
  cbn [needs_quotes] in H. apply orb_false_iff in H as [Hlead _].
  unfold nq_okb in Hok. rewrite !andb_true_iff in Hok. destruct Hok as [[[_ H47] H35] _].
  unfold starts_bare. rewrite Hh. cbn [andb].
  assert (A : (h =? 47) = false).
  { destruct (h =? 47) eqn:E; [|reflexivity]. apply N.eqb_eq in E. subst h. congruence. }
  assert (B : (h =? 35) = false).
  { destruct (h =? 35) eqn:E; [|reflexivity]. apply N.eqb_eq in E. subst h. congruence. }
  rewrite A, B. apply N.eqb_neq in Hl. rewrite Hl, andb_false_r. reflexivity.
Qed.

(** a name or value written by quote_on_demand, followed by the space / line feed the writer puts after it *)
Definition value_ok (cfg : nqcfg) (v : str) : bool := if needs_quotes cfg v then raw_safe v else true.

Lemma on_demand_sp E cfg l v : nq_okb cfg = true -> l <> 1 -> value_ok cfg v = true ->
  lexes E l (quote_on_demand cfg v ++ [SP]) [TStr v] l.
Proof.
  intros Hok Hl Hv. unfold quote_on_demand, value_ok in *. destruct (needs_quotes cfg v) eqn:Hn.
  - change [TStr v] with ([TStr v] ++ []). apply lexes_app with (l1 := l).
    + apply lexes_raw_quoted. exact Hv.
    + apply lexes_ws1. reflexivity.
  - destruct v as [|h t]; [destruct (not_needs_all_bare cfg [] Hok Hn) as [C _]; congruence|].
    destruct (needs_false_starts cfg l h t Hok Hl Hn) as [Hs Ht].
    apply (bare_then E l h t SP [] l Ht Hs); reflexivity.
Qed.

Lemma on_demand_lf E cfg l v : nq_okb cfg = true -> l <> 1 -> value_ok cfg v = true ->
  lexes E l (quote_on_demand cfg v ++ [LF]) [TStr v; TNL] (l + 1).
Proof.
  intros Hok Hl Hv. unfold quote_on_demand, value_ok in *. destruct (needs_quotes cfg v) eqn:Hn.
  - change [TStr v; TNL] with ([TStr v] ++ [TNL]). apply lexes_app with (l1 := l).
    + apply lexes_raw_quoted. exact Hv.
    + apply lexes_lf.
  - destruct v as [|h t]; [destruct (not_needs_all_bare cfg [] Hok Hn) as [C _]; congruence|].
    destruct (needs_false_starts cfg l h t Hok Hl Hn) as [Hs Ht].
    apply (bare_then E l h t LF [TNL] (l + 1) Ht Hs); reflexivity.
Qed.

(** a string the decision lets through unquoted is read back as that one string (followed by a space) *)
Theorem bare_reads_back E cfg l v : nq_okb cfg = true -> l <> 1 -> needs_quotes cfg v = false ->
  lexes E l (v ++ [SP]) [TStr v] l.
Proof.
  intros Hok Hl Hn. pose proof (on_demand_sp E cfg l v Hok Hl) as H. unfold quote_on_demand, value_ok in H.
  rewrite Hn in H. apply H. reflexivity.
Qed.

(** the whole parameter line: tab, name, space, value, line feed -> name, value, newline *)
Theorem param_line_reads_back E cfg l name value : nq_okb cfg = true -> l <> 1 ->
  value_ok cfg name = true -> value_ok cfg value = true ->
  lexes E l (param_line cfg name value) [TStr name; TStr value; TNL] (l + 1).
Proof.
  intros Hok Hl Hn Hv. unfold param_line.
  change [TStr name; TStr value; TNL] with ([] ++ [TStr name] ++ [TStr value; TNL]).
  apply lexes_app with (l1 := l); [apply lexes_ws1; reflexivity|].
  rewrite app_assoc. apply lexes_app with (l1 := l).
  - apply on_demand_sp; assumption.
  - apply on_demand_lf; assumption.
Qed.

(** * Non-vacuity and refuted variants *)
Definition ref_nq : nqcfg := mkNq true [47; 35] kvlex_delims.
Example ref_nq_ok : nq_okb ref_nq = true. Proof. reflexivity. Qed.
Example ex_param_line :
  lex_all ex_escfg ([97; 10] ++ param_line ref_nq [36; 98] [120; 47; 121; 32; 122])
  = ([TStr [97]; TNL; TStr [36; 98]; TStr [120; 47; 121; 32; 122]; TNL], None).
Proof. vm_compute. reflexivity. Qed.

(** the decision of the pinned tree (before the repair): no test for a leading '/' -- a value "//x" written bare is a comment *)
Definition no_slash_nq : nqcfg := mkNq true [35] kvlex_delims.
Example leading_slash_refuted :
  nq_okb no_slash_nq = false
  /\ fst (lex_all ex_escfg ([97; 10] ++ param_line no_slash_nq [36; 98] [47; 47; 120])) = [TStr [97]; TNL; TStr [36; 98]; TNL].
Proof. split; vm_compute; reflexivity. Qed.
(** a delimiter missing from the table: a value with a comma is split *)
Definition no_comma_nq : nqcfg := mkNq true [47; 35] [34; 39; 123; 125; 59; 61; 91; 93; 40; 41; 13; 10; 9; 32].
Example missing_delimiter_refuted :
  nq_okb no_comma_nq = false
  /\ fst (lex_all ex_escfg ([97; 10] ++ param_line no_comma_nq [36; 98] [49; 44; 50])) <> [TStr [97]; TNL; TStr [36; 98]; TStr [49; 44; 50]; TNL].
Proof. split; vm_compute; [reflexivity | discriminate]. Qed.

(** * The whole file of a parameter-only material *)
(** the shader is written bare on line 1: it has to be a bare string there (not empty, no delimiter, no leading '/', '#', BOM) *)
Definition shader_ok (s : str) : bool := match s with [] => false | h :: t => starts_bare 1 h && all_bare t end.
Definition params_ok (cfg : nqcfg) (ps : list (str * str)) : bool :=
  forallb (fun p => value_ok cfg (fst p) && value_ok cfg (snd p)) ps.

Lemma params_read_back E cfg ps : nq_okb cfg = true -> params_ok cfg ps = true -> forall l, 2 <= l ->
  lexes E l (params_text cfg ps) (param_tokens ps) (l + N.of_nat (length ps)).
Proof.
  intros Hok. induction ps as [|[n v] ps IH]; intros Hps l Hl.
  - cbn [params_text param_tokens flat_map length N.of_nat]. rewrite N.add_0_r. apply lexes_nil.
  - cbn [params_ok forallb fst snd] in Hps. apply andb_true_iff in Hps as [Hnv Hps]. apply andb_true_iff in Hnv as [Hn Hv].
    cbn [params_text param_tokens flat_map fst snd].
    change (TStr n :: TStr v :: TNL :: flat_map (fun p => [TStr (fst p); TStr (snd p); TNL]) ps)
      with ([TStr n; TStr v; TNL] ++ param_tokens ps).
    replace (l + N.of_nat (length ((n, v) :: ps))) with ((l + 1) + N.of_nat (length ps)) by (cbn [length]; lia).
    apply lexes_app with (l1 := l + 1).
    + apply param_line_reads_back; try assumption. lia.
    + apply IH; [exact Hps | lia].
Qed.

Lemma shader_line E s : shader_ok s = true -> lexes E 1 (s ++ [LF]) [TStr s; TNL] 2.
Proof.
  destruct s as [|h t]; [discriminate|]. cbn [shader_ok]. intros H. apply andb_true_iff in H as [Hs Ht].
  apply (bare_then E 1 h t LF [TNL] 2 Ht Hs); reflexivity.
Qed.

(** every material with a bare shader name and parameters the quoting decision can handle: the written file is lexed,
    without error, to exactly shader / { / the (name, value) pairs in order / } *)
Theorem vmt_file_reads_back E cfg shader ps : nq_okb cfg = true -> shader_ok shader = true -> params_ok cfg ps = true ->
  lex_all E (vmt_file cfg shader ps) = (vmt_tokens shader ps, None).
Proof.
  intros Hok Hs Hps. apply lexes_all with (l' := 3 + N.of_nat (length ps) + 1). unfold vmt_file, vmt_tokens.
  change (shader ++ [LF; TAB; 123; LF] ++ params_text cfg ps ++ [TAB; 125; LF])
    with (shader ++ [LF] ++ [TAB] ++ [123] ++ [LF] ++ params_text cfg ps ++ [TAB] ++ [125] ++ [LF]).
  rewrite (app_assoc shader [LF]).
  change ([TStr shader; TNL; TBO; TNL] ++ param_tokens ps ++ [TBC; TNL])
    with ([TStr shader; TNL] ++ [] ++ [TBO] ++ [TNL] ++ param_tokens ps ++ [] ++ [TBC] ++ [TNL]).
  apply lexes_app with (l1 := 2); [apply shader_line; exact Hs|].
  apply lexes_app with (l1 := 2); [apply lexes_ws1; reflexivity|].
  apply lexes_app with (l1 := 2); [apply lexes_bo|].
  apply lexes_app with (l1 := 3); [apply (lexes_lf E 2)|].
  apply lexes_app with (l1 := 3 + N.of_nat (length ps)); [apply params_read_back; try assumption; lia|].
  apply lexes_app with (l1 := 3 + N.of_nat (length ps)); [apply lexes_ws1; reflexivity|].
  apply lexes_app with (l1 := 3 + N.of_nat (length ps)); [apply lexes_bc|].
  apply lexes_lf.
Qed.

(** the token stream determines the material: two parameter-only materials with the same tokens are the same *)
Lemma param_tokens_inj ps qs : param_tokens ps ++ [TBC; TNL] = param_tokens qs ++ [TBC; TNL] -> ps = qs.
Proof.
  revert qs. induction ps as [|[n v] ps IH]; intros [|[n' v'] qs] H; cbn [param_tokens flat_map fst snd app] in H.
  - reflexivity.
  - discriminate.
  - discriminate.
  - injection H as -> -> H. f_equal. apply IH. exact H.
Qed.

Theorem vmt_file_determines_material cfg s1 p1 s2 p2 : nq_okb cfg = true ->
  shader_ok s1 = true -> params_ok cfg p1 = true -> shader_ok s2 = true -> params_ok cfg p2 = true ->
  vmt_file cfg s1 p1 = vmt_file cfg s2 p2 -> s1 = s2 /\ p1 = p2.
Proof.
  intros Hok Hs1 Hp1 Hs2 Hp2 Heq.
  pose proof (vmt_file_reads_back ex_escfg cfg s1 p1 Hok Hs1 Hp1) as H1.
  pose proof (vmt_file_reads_back ex_escfg cfg s2 p2 Hok Hs2 Hp2) as H2.
  rewrite Heq, H2 in H1. assert (Ht : vmt_tokens s2 p2 = vmt_tokens s1 p1) by congruence.
  unfold vmt_tokens in Ht. cbn [app] in Ht. inversion Ht as [[Hs Hp]].
  split; [reflexivity|]. symmetry. apply param_tokens_inj. exact Hp.
Qed.

Example ex_vmt_file :
  shader_ok [97; 98] = true /\ params_ok ref_nq [([36; 98], [120; 32; 121]); ([47; 99], [])] = true
  /\ vmt_file ref_nq [97; 98] [([36; 98], [120; 32; 121]); ([47; 99], [])]
     = [97; 98; 10; 9; 123; 10;  9; 36; 98; 32; 34; 120; 32; 121; 34; 10;  9; 34; 47; 99; 34; 32; 34; 34; 10;  9; 125; 10].
Proof. repeat split; vm_compute; reflexivity. Qed.
(** a shader name with a space is not a bare string: the file is read as two strings on the first line *)
Example shader_with_space_refuted :
  shader_ok [97; 32; 98] = false
  /\ fst (lex_all ex_escfg (vmt_file ref_nq [97; 32; 98] [])) <> vmt_tokens [97; 32; 98] [].
Proof. split; vm_compute; [reflexivity | discriminate]. Qed.
