(** C06, round 3: which formatter writes every number of a VMF, and the precision each formatter keeps.
    [numfmt] mirrors the formatters found in vmf.py / math.py by translate/c06_vmf.py (Gen/VmfNumFmt_gen.v lists, for
    every number of every written keyvalue line, the formats of its components); [pclass] is the precision the
    property demands of a field.  Definitions only; proofs are in Fmt/VmfNumProofs.v. *)
From Coq Require Import ZArith NArith List String Bool.
From SV Require Import Fmt.VmfText.
Import ListNotations.
Open Scope Z_scope.

Inductive numfmt :=
| FmtInt             (* str(int) *)
| FmtFlag            (* '1' / '0' *)
| FmtRepr            (* repr(float): the shortest decimal text that reads back as the same double *)
| FmtF (p : nat)     (* '%.pf' (format_float then strips zeros: the same number) *)
| FmtG (p : nat).    (* '%.pg': p significant digits *)

Inductive pclass :=
| PExact             (* the text denotes the number itself *)
| PAbs6              (* within 5e-7 absolutely: coordinates, texture axes *)
| PSig6.             (* within six significant digits (5e-6 relatively): face rotation, output delay, multiblend *)

Definition p10 (p : nat) : Z := 10 ^ Z.of_nat p.

(** The number x = m/d (d > 0; every finite double is such a rational) is written as text denoting w = wn/wd.
    [FmtG p] rounds half-even at a scale s = sn/sd with 10^(p-1) * s <= |x| (for '%g' s = 10^(e-p+1), 10^e <= |x|; any
    scale that small is allowed here, which makes the statements below stronger); 0 is written as 0. *)
Definition writes (f : numfmt) (m d wn wd : Z) : Prop :=
  match f with
  | FmtInt | FmtFlag | FmtRepr => wn * d = m * wd
  | FmtF p => wd = p10 p /\ wn = round_he (m * p10 p) d
  | FmtG p => (m = 0 /\ wn = 0) \/
              exists sn sd, 0 < sn /\ 0 < sd /\ 10 ^ (Z.of_nat p - 1) * (sn * d) <= Z.abs m * sd /\
                            wn = round_he (m * sd) (d * sn) * sn /\ wd = sd
  end.

(** |w - x| within the class, cross-multiplied. *)
Definition within (c : pclass) (m d wn wd : Z) : Prop :=
  match c with
  | PExact => wn * d = m * wd
  | PAbs6 => 2 * 10 ^ 6 * Z.abs (wn * d - m * wd) <= d * wd
  | PSig6 => 2 * 10 ^ 5 * Z.abs (wn * d - m * wd) <= Z.abs m * wd
  end.

Definition meets (f : numfmt) (c : pclass) : bool :=
  match f, c with
  | (FmtInt | FmtFlag | FmtRepr), _ => true
  | FmtF p, PAbs6 => (6 <=? p)%nat
  | FmtG p, PSig6 => (6 <=? p)%nat
  | _, _ => false
  end.

(** One number of one written keyvalue line. *)
Record numfield := mk_numfield {
  nf_fn : string;          (* writer method *)
  nf_block : string;       (* enclosing block *)
  nf_key : string;         (* literal text of the key, lower case *)
  nf_idx : N;              (* index of the number within the value *)
  nf_fmts : list numfmt    (* formats of its components *)
}.

Definition nf_at (b k : string) (i : N) (f : numfield) : bool :=
  (String.eqb (nf_block f) b && String.eqb (nf_key f) k && N.eqb (nf_idx f) i)%bool.

(** Every writer of the number at (block, key, index) uses only formats that meet the class -- and there is one. *)
Definition field_meets (b k : string) (i : N) (c : pclass) (l : list numfield) : bool :=
  let hits := filter (nf_at b k i) l in
  (negb (Nat.eqb (List.length hits) 0) && forallb (fun f => forallb (fun x => meets x c) (nf_fmts f)) hits)%bool.

Definition all_fields_meet (req : numfield -> pclass) (l : list numfield) : bool :=
  forallb (fun f => forallb (fun x => meets x (req f)) (nf_fmts f)) l.
