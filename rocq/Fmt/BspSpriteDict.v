(** C11: the sprite dictionary of the detail-prop lump - eight floats per entry; which attribute component travels in which
    slot is read from the writer (`add_sprite(prop.A + prop.B + ...)`) and from the reader (targets of struct_read, regrouped,
    taken apart again, handed to the constructor) by translate/c11_spritedict.py. *)
From Coq Require Import List String Bool PeanoNat.
From SV Require Import Bin.Struct Fmt.BspFormatsSpec.
Import ListNotations.

Fixpoint str_in (x : string) (l : list string) : bool := match l with [] => false | y :: r => String.eqb x y || str_in x r end.
Fixpoint strs_nodup (l : list string) : bool := match l with [] => true | x :: r => negb (str_in x r) && strs_nodup r end.

(** class, slots as written, slots as read *)
Definition sprite_entry := (string * list string * list string)%type.

Definition sprite_entry_ok (wf rf : string) (e : sprite_entry) : bool :=
  let '(_, w, r) := e in
  strs_eqb w r && strs_nodup w &&
  match parse_fmt wf, parse_fmt rf with
  | Some f, Some g => fmt_eqb f g && wf_fmt f && Nat.eqb (nvalues f) (List.length w)
  | _, _ => false
  end.

Definition sprite_dict_ok (fmts : string * string) (entries : list sprite_entry) : bool :=
  negb (Nat.eqb (List.length entries) 0) && forallb (sprite_entry_ok (fst fmts) (snd fmts)) entries.
