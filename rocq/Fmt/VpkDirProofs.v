(** Proofs about the VPK directory codec (Fmt/VpkDir.v): load_dirfile inverts write_dirfile. *)
From Coq Require Import List NArith ZArith Bool Lia ZifyBool.
From SV Require Import Fmt.VpkDir.
Import ListNotations.
Open Scope N_scope.

Ltac Zify.zify_post_hook ::= Z.to_euclidean_division_equations.

Lemma len_app a b : len (a ++ b) = len a + len b.
Proof. unfold len. rewrite app_length. lia. Qed.
Lemma len_cons x a : len (x :: a) = 1 + len a.
Proof. unfold len. cbn [length]. lia. Qed.
Lemma len_nil_inv a : len a = 0 -> a = [].
Proof. destruct a; [reflexivity|]. unfold len. cbn [length]. lia. Qed.

Lemma rd16_le16 n r : n < 65536 -> rd16 (le16 n ++ r) = Some (n, r).
Proof.
  intros H. unfold le16, rd16. cbn [app]. f_equal. f_equal. lia.
Qed.
Lemma rd32_le32 n r : n < 4294967296 -> rd32 (le32 n ++ r) = Some (n, r).
Proof.
  intros H. unfold le32, rd32. cbn [app]. f_equal. f_equal. lia.
Qed.

Lemma firstn_len_app (a b : bytes) : firstn (N.to_nat (len a)) (a ++ b) = a.
Proof.
  unfold len. rewrite Nat2N.id, firstn_app, firstn_all, Nat.sub_diag. cbn. apply app_nil_r.
Qed.
Lemma skipn_len_app (a b : bytes) : skipn (N.to_nat (len a)) (a ++ b) = b.
Proof.
  unfold len. rewrite Nat2N.id, skipn_app, skipn_all, Nat.sub_diag. reflexivity.
Qed.

(** ---- null-terminated strings ---- *)
Lemma read_cstr_app s r :
  forallb (fun b => negb (b =? 0) && (b <? 256)) s = true -> read_cstr (s ++ 0 :: r) = Some (s, r).
Proof.
  induction s as [|b s IH]; intros H; cbn [app read_cstr].
  - reflexivity.
  - cbn [forallb] in H. apply andb_prop in H as [Hb Hs]. apply andb_prop in Hb as [Hb _].
    destruct (b =? 0); [discriminate|]. now rewrite (IH Hs).
Qed.

Lemma next_str_write s r : str_ok s = true -> next_str (write_cstr s ++ r) = Some (Some s, r).
Proof.
  unfold str_ok. intros H. apply andb_prop in H as [Hs Hsp].
  destruct s as [|a s].
  - reflexivity.
  - unfold write_cstr, next_str. rewrite <- app_assoc. cbn [app]. change (a :: s ++ 0 :: r) with ((a :: s) ++ 0 :: r).
    rewrite (read_cstr_app _ _ Hs). destruct s as [|b s]; [|reflexivity].
    destruct (a =? 32); [discriminate|reflexivity].
Qed.

Lemma next_str_end r : next_str (0 :: r) = Some (None, r).
Proof. reflexivity. Qed.

Lemma write_cstr_len s : (1 <= length (write_cstr s))%nat.
Proof. destruct s; cbn; [lia|]. rewrite app_length. cbn. lia. Qed.

Section codec.
  Variable c : dcfg.
  Hypothesis Hc : dcfg_ok c = true.

  Definition idx_wf (i : info) : Prop := forall x, iidx i = Some x -> x <> c_dir_index c.
  Definition wf_files (fs : list (bytes * info)) : Prop :=
    Forall (fun f => str_ok (fst f) = true /\ idx_wf (snd f)) fs.
  Definition files_fit (fs : list (bytes * info)) : bool := forallb (fun f => entry_fits c (snd f)) fs.
  Definition dirs_fit (ds : list (bytes * list (bytes * info))) : bool := forallb (fun d => files_fit (snd d)) ds.
  Definition wf_dirs (ds : list (bytes * list (bytes * info))) : Prop :=
    Forall (fun d => str_ok (fst d) = true /\ wf_files (snd d)) ds.
  Definition wf_tree (t : tree) : Prop :=
    Forall (fun e => str_ok (fst e) = true /\ wf_dirs (snd e)) t.

  Lemma dec_enc_entry i r :
    entry_fits c i = true -> idx_wf i -> dec_entry c (enc_entry c i ++ r) = Some (norm_info i, r).
  Proof.
    unfold entry_fits, fits16, fits32. intros H Hi.
    repeat (apply andb_prop in H as [H ?]).
    unfold enc_entry, dec_entry. rewrite <- !app_assoc.
    rewrite rd32_le32 by lia. rewrite rd16_le16 by lia. rewrite rd16_le16 by lia.
    rewrite rd32_le32 by lia. rewrite rd32_le32 by lia. rewrite rd16_le16 by lia.
    rewrite N.eqb_refl, firstn_len_app, skipn_len_app. unfold norm_info. f_equal. f_equal. f_equal.
    unfold idx_code. destruct (iidx i) as [x|] eqn:E.
    - destruct (N.eqb_spec x (c_dir_index c)); [exfalso; now apply (Hi x)|reflexivity].
    - now rewrite N.eqb_refl.
  Qed.

  Definition files_body (fs : list (bytes * info)) : bytes :=
    flat_map (fun f => write_cstr (fst f) ++ enc_entry c (snd f)) fs.
  Definition dirs_body (ds : list (bytes * list (bytes * info))) : bytes :=
    flat_map (fun d => match snd d with [] => [] | _ => write_cstr (fst d) ++ enc_files c (snd d) end) ds.
  Definition exts_body (t : tree) : bytes :=
    flat_map (fun e => match snd e with [] => [] | _ => write_cstr (fst e) ++ enc_dirs c (snd e) end) t.

  Definition flat_files (e d : bytes) (fs : list (bytes * info)) : list (key * info) :=
    map (fun f => ((e, d, fst f), snd f)) fs.
  Definition flat_dirs (e : bytes) (ds : list (bytes * list (bytes * info))) : list (key * info) :=
    flat_map (fun d => flat_files e (fst d) (snd d)) ds.
  Definition nmap (l : list (key * info)) : list (key * info) := map (fun e => (fst e, norm_info (snd e))) l.

  Lemma nmap_app a b : nmap (a ++ b) = nmap a ++ nmap b.
  Proof. apply map_app. Qed.

  Lemma dec_enc_files e d fs : forall fuel r,
    wf_files fs -> files_fit fs = true -> (length (files_body fs) < fuel)%nat ->
    dec_files c fuel e d (files_body fs ++ 0 :: r) = Some (nmap (flat_files e d fs), r).
  Proof.
    induction fs as [|f fs IH]; intros fuel r Hwf Hft Hf.
    - destruct fuel; [lia|]. reflexivity.
    - inversion Hwf as [|? ? (Hs & Hidx) Hwf']; subst.
      cbn [files_fit forallb] in Hft. apply andb_prop in Hft as [Hfit Hft].
      unfold files_body in *. cbn [flat_map] in *. rewrite !app_length in Hf.
      pose proof (write_cstr_len (fst f)).
      destruct fuel; [lia|]. cbn [dec_files].
      rewrite <- !app_assoc. rewrite (next_str_write _ _ Hs).
      rewrite (dec_enc_entry _ _ Hfit Hidx).
      rewrite IH by (auto; lia). reflexivity.
  Qed.

  Lemma files_body_len fs : (length (files_body fs) <= length (enc_files c fs))%nat.
  Proof. unfold enc_files, files_body. rewrite app_length. lia. Qed.

  Lemma dec_enc_dirs e ds : forall fuel r,
    wf_dirs ds -> dirs_fit ds = true -> (length (dirs_body ds) < fuel)%nat ->
    dec_dirs c fuel e (dirs_body ds ++ 0 :: r) = Some (nmap (flat_dirs e ds), r).
  Proof.
    induction ds as [|d ds IH]; intros fuel r Hwf Hft Hf.
    - destruct fuel; [lia|]. reflexivity.
    - inversion Hwf as [|? ? (Hs & Hfs) Hwf']; subst.
      cbn [dirs_fit forallb] in Hft. apply andb_prop in Hft as [Hfit Hft].
      unfold dirs_body, flat_dirs in *. cbn [flat_map] in *.
      destruct (snd d) as [|f0 fs0] eqn:Ed.
      + cbn [app flat_files map]. apply IH; auto.
      + rewrite !app_length in Hf. pose proof (write_cstr_len (fst d)).
        destruct fuel; [lia|]. cbn [dec_dirs].
        rewrite <- !app_assoc. rewrite (next_str_write _ _ Hs).
        unfold enc_files. fold (files_body (f0 :: fs0)). rewrite <- !app_assoc. cbn [app].
        rewrite dec_enc_files; [|assumption|assumption|rewrite app_length; lia].
        rewrite IH; [|assumption|assumption|].
        * now rewrite nmap_app.
        * lia.
  Qed.

  Lemma exts_body_nil_flat t : exts_body t = [] -> flat_tree t = [].
  Proof.
    induction t as [|e t IH]; intros H; [reflexivity|].
    unfold exts_body, flat_tree in *. cbn [flat_map] in *.
    destruct (snd e) eqn:Ee.
    - cbn [flat_map app]. apply IH, H.
    - apply app_eq_nil in H as [H _]. pose proof (write_cstr_len (fst e)).
      apply (f_equal (@length N)) in H. rewrite app_length in H. cbn [length] in H. lia.
  Qed.

  Lemma flat_tree_cons e t : flat_tree (e :: t) = flat_dirs (fst e) (snd e) ++ flat_tree t.
  Proof. reflexivity. Qed.

  Lemma exts_body_cons e t :
    exts_body (e :: t) = match snd e with [] => [] | _ => write_cstr (fst e) ++ enc_dirs c (snd e) end ++ exts_body t.
  Proof. reflexivity. Qed.

  Lemma dec_enc_exts t : forall fuel flen tlen footer,
    wf_tree t -> tree_fits c t = true -> (length (exts_body t) < fuel)%nat -> flen + 1 = tlen + (len footer + 1) ->
    dec_exts c fuel flen tlen (exts_body t ++ 0 :: footer) = Some (nmap (flat_tree t), footer).
  Proof.
    induction t as [|e t IH]; intros fuel flen tlen footer Hwf Hft Hf Hl.
    - destruct fuel; [lia|]. reflexivity.
    - inversion Hwf as [|? ? (Hs & Hds) Hwf']; subst.
      cbn [tree_fits forallb] in Hft. apply andb_prop in Hft as [Hfit Hft].
      rewrite flat_tree_cons. rewrite exts_body_cons in *.
      destruct (snd e) as [|d0 ds0] eqn:Ee.
      + cbn [app flat_dirs flat_map]. apply IH; auto.
      + rewrite !app_length in Hf. pose proof (write_cstr_len (fst e)).
        destruct fuel; [lia|]. cbn [dec_exts].
        rewrite <- !app_assoc. rewrite (next_str_write _ _ Hs).
        unfold enc_dirs. fold (dirs_body (d0 :: ds0)). rewrite <- !app_assoc. cbn [app].
        rewrite dec_enc_dirs; [|assumption|exact Hfit|rewrite app_length; lia].
        destruct (len (exts_body t ++ 0 :: footer) + tlen =? flen + 1) eqn:Eq.
        * apply N.eqb_eq in Eq. rewrite len_app, len_cons in Eq.
          assert (exts_body t = []) as E0 by (apply len_nil_inv; lia).
          rewrite E0. cbn [app tl]. rewrite (exts_body_nil_flat _ E0), app_nil_r. reflexivity.
        * rewrite IH; [|assumption|assumption| |assumption].
          -- now rewrite nmap_app.
          -- lia.
  Qed.

  (** load_dirfile (write_dirfile (tree, footer)) = (entries in written order, offsets normalised; footer) *)
  Theorem dirtree_roundtrip t footer b :
    wf_tree t -> enc_file c t footer = Some b ->
    dec_file c b = Some (nmap (flat_tree t), footer).
  Proof.
    intros Hwf. unfold enc_file. unfold dcfg_ok in Hc.
    apply andb_prop in Hc as [Hc1 Hterm]. apply andb_prop in Hc1 as [Hsig Hdi].
    destruct (fits32 (c_sig c) && tree_fits c t && fits32 (len (enc_tree c t))) eqn:E; [|discriminate].
    intros Hb. replace b with (le32 (c_sig c) ++ le32 1 ++ le32 (len (enc_tree c t)) ++ enc_tree c t ++ footer) by congruence.
    clear Hb. apply andb_prop in E as [E Hlen]. apply andb_prop in E as [E Hfits]. unfold fits32 in *.
    unfold dec_file. rewrite rd32_le32 by lia. rewrite rd32_le32 by lia. rewrite rd32_le32 by lia.
    rewrite !N.eqb_refl. cbn [andb].
    unfold enc_tree. fold (exts_body t). rewrite <- !app_assoc. cbn [app].
    apply dec_enc_exts; [assumption|assumption|rewrite app_length; cbn [length]; lia|].
    rewrite !len_app, !len_cons. change (len []) with 0. lia.
  Qed.
End codec.
