(** Model of the name resolution of [srctools.vpk]: [_get_file_parts] (string, 2-tuple and 3-tuple forms ->
    (folder, name, extension)) and [_join_file_parts].  Names are byte strings (ASCII / surrogateescape).
    [os.path.normpath] is a parameter of [file_parts]; [posix_normpath] is an executable model of
    posixpath.normpath used when the model is run against the implementation. *)
From Coq Require Import List NArith Bool.
From SV Require Import Fmt.VpkDir SM.Vpk.
Import ListNotations.
Open Scope N_scope.

Inductive nameform := NStr (s : bytes) | NPair (d f : bytes) | NTriple (d n e : bytes).

(** split at the last occurrence of [c] (str.rsplit(c, 1) / rfind) *)
Fixpoint rsplit1 (c : N) (s : bytes) : option (bytes * bytes) :=
  match s with
  | [] => None
  | x :: r => match rsplit1 c r with
              | Some (a, b) => Some (x :: a, b)
              | None => if x =? c then Some ([], r) else None
              end
  end.
Fixpoint rstrip (c : N) (s : bytes) : bytes :=
  match s with
  | [] => []
  | x :: r => match rstrip c r with
              | [] => if x =? c then [] else [x]
              | r' => x :: r'
              end
  end.

(** posixpath.split *)
Definition split_path (s : bytes) : bytes * bytes :=
  match rsplit1 47 s with
  | None => ([], s)
  | Some (a, b) => let head := a ++ [47] in
                   (if forallb (fun x => x =? 47) head then head else rstrip 47 head, b)
  end.

Definition split_ext (fn ext : bytes) : bytes * bytes :=
  match ext with
  | [] => match rsplit1 46 fn with Some (a, b) => (a, b) | None => (fn, []) end
  | _ => (fn, ext)
  end.

Section names.
  Variable normpath : bytes -> bytes.

  (** os.path.normpath(path.replace('\\', '/')).replace('\\', '/').rstrip('/'), '.' -> '' *)
  Definition unbackslash (p : bytes) : bytes := map (fun b => if b =? 92 then 47 else b) p.
  Definition norm_dir (p : bytes) : bytes :=
    let q := rstrip 47 (unbackslash (normpath (unbackslash p))) in
    match q with [46] => [] | _ => q end.

  (** _get_file_parts (without relative_to); the result is the model key (ext, folder, name) *)
  Definition file_parts (f : nameform) : key :=
    let '(p, fn, ext) := match f with
                         | NStr s => let '(h, t) := split_path s in (h, t, [])
                         | NPair d f => (d, f, [])
                         | NTriple d n e => (d, n, e)
                         end in
    let '(n, e) := split_ext fn ext in (e, norm_dir p, n).
End names.

(** _join_file_parts on a key *)
Definition join_parts (k : key) : bytes :=
  let '(e, d, n) := k in
  d ++ (match d with [] => [] | _ => [47] end) ++ n ++ (match e with [] => [] | _ => [46] end) ++ e.

(** ---- posixpath.normpath ---- *)
Fixpoint split_on (c : N) (s : bytes) : list bytes :=
  match s with
  | [] => [[]]
  | x :: r => if x =? c then [] :: split_on c r
              else match split_on c r with h :: t => (x :: h) :: t | [] => [[x]] end
  end.
Definition dotdot : bytes := [46; 46].
Fixpoint norm_comps (init : bool) (comps : list bytes) (st : list bytes) : list bytes :=
  match comps with
  | [] => rev st
  | c :: r =>
      if match c with [] => true | _ => false end || bytes_eqb c [46] then norm_comps init r st
      else if negb (bytes_eqb c dotdot)
              || (negb init && match st with [] => true | _ => false end)
              || match st with top :: _ => bytes_eqb top dotdot | [] => false end
           then norm_comps init r (c :: st)
           else match st with _ :: st' => norm_comps init r st' | [] => norm_comps init r st end
  end.
Fixpoint join_slash (l : list bytes) : bytes :=
  match l with [] => [] | [x] => x | x :: r => x ++ [47] ++ join_slash r end.
Definition posix_normpath (p : bytes) : bytes :=
  match p with
  | [] => [46]
  | _ =>
    let init : list N := match p with
                | 47 :: 47 :: 47 :: _ => [47]
                | 47 :: 47 :: _ => [47; 47]
                | 47 :: _ => [47]
                | _ => []
                end in
    let r := init ++ join_slash (norm_comps (match init with [] => false | _ => true end) (split_on 47 p) []) in
    match r with [] => [46] | _ => r end
  end.
