(** Proofs about the visibility row size expression and the rows of the visibility lump. *)
From Coq Require Import ZArith List Bool Lia.
From SV Require Import Bin.RLE Bin.RLEProofs Fmt.BspVisRow.
Import ListNotations.
Open Scope Z_scope.

Lemma div_slope_some : forall so c s', div_slope so c = Some s' ->
  exists s, so = Some s /\ 0 < c /\ s = c * s'.
Proof.
  intros so c s' H. destruct so as [s|]; [|discriminate]. cbn [div_slope] in H.
  destruct (0 <? c) eqn:Ec; [|discriminate]. destruct (s mod c =? 0) eqn:Em; [|discriminate].
  cbn [andb] in H. injection H as <-. apply Z.ltb_lt in Ec. apply Z.eqb_eq in Em.
  exists s. split; [reflexivity|]. split; [exact Ec|].
  pose proof (Z.div_mod s c ltac:(lia)). lia.
Qed.

Lemma floor_shift : forall x c q k, 0 < c -> (x + c * q * k) / c = x / c + q * k.
Proof. intros. replace (x + c * q * k) with (x + (q * k) * c) by lia. apply Z.div_add. lia. Qed.

Lemma ceil_shift : forall x c q k, 0 < c -> - ((- (x + c * q * k)) / c) = - ((- x) / c) + q * k.
Proof.
  intros. replace (- (x + c * q * k)) with (- x + (- (q * k)) * c) by lia.
  rewrite Z.div_add by lia. lia.
Qed.

Theorem slope_sound : forall e s, slope e = Some s -> forall n k, reval e (n + 8 * k) = reval e n + s * k.
Proof.
  induction e as [|c|a IHa b IHb|a IHa b IHb|a IHa|a IHa c|a IHa c|a IHa k0|a IHa c]; intros s H n k; cbn [slope] in H; cbn [reval].
  - injection H as <-. reflexivity.
  - injection H as <-. lia.
  - destruct (slope a) as [x|]; [|discriminate]. destruct (slope b) as [y|]; [|discriminate]. injection H as <-.
    rewrite (IHa x eq_refl), (IHb y eq_refl). lia.
  - destruct (slope a) as [x|]; [|discriminate]. destruct (slope b) as [y|]; [|discriminate]. injection H as <-.
    rewrite (IHa x eq_refl), (IHb y eq_refl). lia.
  - destruct (slope a) as [x|]; [|discriminate]. cbn [option_map] in H. injection H as <-. rewrite (IHa x eq_refl). lia.
  - destruct (slope a) as [x|]; [|discriminate]. cbn [option_map] in H. injection H as <-. rewrite (IHa x eq_refl). lia.
  - apply div_slope_some in H. destruct H as (x & Ex & Hc & ->). rewrite (IHa _ Ex).
    apply floor_shift. exact Hc.
  - destruct (0 <=? k0) eqn:Ek; [|discriminate]. apply Z.leb_le in Ek.
    apply div_slope_some in H. destruct H as (x & Ex & Hc & ->). rewrite (IHa _ Ex).
    rewrite !Z.shiftr_div_pow2 by exact Ek. apply floor_shift. exact Hc.
  - apply div_slope_some in H. destruct H as (x & Ex & Hc & ->). rewrite (IHa _ Ex).
    apply ceil_shift. exact Hc.
Qed.

(** The decision procedure is sound for every cluster count. *)
Theorem rowsize_all : forall e, rowsize_ok e = true -> forall n, 0 <= n -> reval e n = ceil8Z n.
Proof.
  intros e H n Hn. unfold rowsize_ok in H. destruct (slope e) as [s|] eqn:Es; [|discriminate].
  apply andb_prop in H. destruct H as [H1 H]. apply Z.eqb_eq in H1. subst s.
  pose proof (Z.div_mod n 8 ltac:(lia)) as Dm. pose proof (Z.mod_pos_bound n 8 ltac:(lia)) as Hr.
  set (q := n / 8) in *. set (r := n mod 8) in *.
  replace n with (r + 8 * q) by lia. rewrite (slope_sound e 1 Es).
  assert (C : ceil8Z (r + 8 * q) = ceil8Z r + 1 * q).
  { unfold ceil8Z. replace (r + 8 * q + 7) with (r + 7 + q * 8) by lia. rewrite Z.div_add by lia. lia. }
  rewrite C. f_equal.
  cbn [forallb] in H. repeat (apply andb_prop in H; let H' := fresh "H" in destruct H as [H' H]).
  assert (Cases : r = 0 \/ r = 1 \/ r = 2 \/ r = 3 \/ r = 4 \/ r = 5 \/ r = 6 \/ r = 7) by lia.
  repeat (destruct Cases as [-> | Cases]; [apply Z.eqb_eq; assumption|]). subst r. rewrite Cases. apply Z.eqb_eq. assumption.
Qed.

Lemma ceil8_Z : forall n : nat, ceil8Z (Z.of_nat n) = Z.of_nat (ceil8 n).
Proof.
  intros n. unfold ceil8Z, ceil8. rewrite Nat2Z.inj_div, Nat2Z.inj_add. reflexivity.
Qed.

Theorem rowsize_is_ceil8 : forall e, rowsize_ok e = true -> forall n : nat, reval e (Z.of_nat n) = Z.of_nat (ceil8 n).
Proof. intros e H n. rewrite <- ceil8_Z. apply rowsize_all; [exact H | lia]. Qed.

(** Both forms used by the source today are accepted, the seeded variant is refuted at 0 and at every multiple of 8. *)
Example rowsize_ceil_div_ok : rowsize_ok (RCeilDiv RVar 8) = true.
Proof. vm_compute. reflexivity. Qed.
Example rowsize_add7_shr3_ok : rowsize_ok (RShr (RAdd RVar (RConst 7)) 3) = true.
Proof. vm_compute. reflexivity. Qed.
Example rowsize_shr3_plus1_refuted :
  rowsize_ok (RAdd (RShr RVar 3) (RConst 1)) = false /\
  reval (RAdd (RShr RVar 3) (RConst 1)) 8 = 2 /\ ceil8Z 8 = 1 /\
  firstn 3 (rowsize_witnesses (RAdd (RShr RVar 3) (RConst 1))) = [0; 8; 16].
Proof. vm_compute. repeat split; reflexivity. Qed.

(** * Rows in the lump: every row is found again through its stored offset *)
Theorem vis_rows_roundtrip : forall w rows hdr,
  Forall (fun r => List.length r = w) rows ->
  map (fun off => rle_decode (Some w) off (hdr ++ flat_map rle_encode rows)) (vis_offsets (List.length hdr) rows) = map Some rows.
Proof.
  intros w rows. induction rows as [|r rs IH]; intros hdr Hall; [reflexivity|].
  inversion Hall as [|? ? Hr Hrs]; subst. cbn [vis_offsets map flat_map]. f_equal.
  - apply rle_roundtrip_in_lump.
  - specialize (IH (hdr ++ rle_encode r) Hrs). rewrite app_length in IH. rewrite <- app_assoc in IH. exact IH.
Qed.

(** The lump as a whole: the writer insists on rows of [ew(count)] bytes, the reader decodes [er(count)] bytes
    at every stored offset; when both expressions pass [rowsize_ok] every row comes back. *)
Theorem visibility_roundtrip : forall er ew (n : nat) hdr rows,
  rowsize_ok er = true -> rowsize_ok ew = true ->
  Forall (fun r => Z.of_nat (List.length r) = reval ew (Z.of_nat n)) rows ->
  map (fun off => rle_decode (Some (Z.to_nat (reval er (Z.of_nat n)))) off (hdr ++ flat_map rle_encode rows))
      (vis_offsets (List.length hdr) rows) = map Some rows.
Proof.
  intros er ew n hdr rows Hr Hw Hall.
  rewrite (rowsize_is_ceil8 er Hr n), Nat2Z.id. apply vis_rows_roundtrip.
  eapply Forall_impl; [|exact Hall]. cbn beta. intros r E. rewrite (rowsize_is_ceil8 ew Hw n) in E. lia.
Qed.
