(** C16 — proofs about Fmt/LongString.v: the reader inverts the writer for every text. *)
From Coq Require Import List NArith Arith Bool Lia.
From SV Require Import Fmt.LongString.
Import ListNotations.
Open Scope N_scope.

(** * Small facts *)
Lemma memN_true c l : memN c l = true <-> In c l.
Proof.
  induction l as [|x r IH]; cbn [memN In]; [split; [discriminate|tauto]|].
  rewrite orb_true_iff, IH, N.eqb_eq. tauto.
Qed.
Lemma memN_false c l : memN c l = false <-> ~ In c l.
Proof. rewrite <- memN_true. destruct (memN c l); split; congruence. Qed.
Lemma memN_app c a b : memN c (a ++ b) = memN c a || memN c b.
Proof. induction a as [|x r IH]; cbn [memN app]; [reflexivity|]. rewrite IH, orb_assoc. reflexivity. Qed.

Lemma nth_error_firstn_Some {A} (l : list A) n k x : nth_error (firstn n l) k = Some x -> nth_error l k = Some x.
Proof.
  revert n k. induction l as [|y r IH]; intros [|n] [|k]; cbn; try discriminate; auto. apply IH.
Qed.
Lemma firstn_S_nth {A} (l : list A) k x : nth_error l k = Some x -> firstn (S k) l = firstn k l ++ [x].
Proof.
  revert k. induction l as [|y r IH]; intros [|k]; cbn; try discriminate.
  - intros [= ->]. reflexivity.
  - intros H. f_equal. apply IH, H.
Qed.

(** * rfind *)
Lemma rfind2_aux_spec a b l : forall i best r,
  rfind2_aux a b l i best = Some r ->
  best = Some r \/ (exists k, r = (i + k)%nat /\ nth_error l k = Some a /\ nth_error l (S k) = Some b).
Proof.
  induction l as [|x t IH]; intros i best r; cbn [rfind2_aux]; [auto|].
  destruct t as [|y t']; [auto|].
  intros H. apply IH in H. destruct H as [H|[k [-> [Ha Hb]]]].
  - destruct ((x =? a) && (y =? b)) eqn:E; [|auto].
    apply andb_true_iff in E. destruct E as [Ex Ey]. apply N.eqb_eq in Ex, Ey. subst x y.
    injection H as <-. right. exists 0%nat. cbn. split; [lia|auto].
  - right. exists (S k). cbn [nth_error]. split; [lia|auto].
Qed.
Lemma rfind2_spec a b l r : rfind2 a b l = Some r -> nth_error l r = Some a /\ nth_error l (S r) = Some b.
Proof.
  intros H. apply rfind2_aux_spec in H. destruct H as [H|[k [-> H]]]; [discriminate|exact H].
Qed.

Lemma rfind1_aux_spec a l : forall i best r,
  rfind1_aux a l i best = Some r -> best = Some r \/ (exists k, r = (i + k)%nat /\ nth_error l k = Some a).
Proof.
  induction l as [|x t IH]; intros i best r; cbn [rfind1_aux]; [auto|].
  intros H. apply IH in H. destruct H as [H|[k [-> Ha]]].
  - destruct (x =? a) eqn:E; [|auto]. apply N.eqb_eq in E. subst x. injection H as <-.
    right. exists 0%nat. cbn. split; [lia|auto].
  - right. exists (S k). cbn [nth_error]. split; [lia|auto].
Qed.
Lemma rfind1_spec a l r : rfind1 a l = Some r -> nth_error l r = Some a.
Proof. intros H. apply rfind1_aux_spec in H. destruct H as [H|[k [-> H]]]; [discriminate|exact H]. Qed.

(** * The string automaton *)
Section Reader.
Variable t : esc_table.

Lemma run_app q a b :
  run t q (a ++ b) =
  match run t q a with
  | Some (q1, o1) => match run t q1 b with Some (q2, o2) => Some (q2, o1 ++ o2) | None => None end
  | None => None
  end.
Proof.
  revert q. induction a as [|c r IH]; intros q; cbn [run app].
  - destruct (run t q b) as [[q2 o2]|]; reflexivity.
  - destruct (step t q c) as [|q' out]; [reflexivity|]. rewrite IH.
    destruct (run t q' r) as [[q1 o1]|]; [|reflexivity].
    destruct (run t q1 b) as [[q2 o2]|]; [|reflexivity]. rewrite app_assoc. reflexivity.
Qed.

Lemma run_prefix q a b x : run t q (a ++ b) = Some x -> exists q1 o1, run t q a = Some (q1, o1).
Proof. rewrite run_app. destruct (run t q a) as [[q1 o1]|]; [eauto|discriminate]. Qed.

(** after any character other than a backslash or a carriage return the automaton is in the plain state *)
Lemma step_plain q c q' out : step t q c = Go q' out -> c <> BSLASH -> c <> CR -> q' = Plain.
Proof.
  unfold step. intros H Hb Hc.
  assert (Eb : (c =? BSLASH) = false) by (apply N.eqb_neq; exact Hb).
  assert (Ec : (c =? CR) = false) by (apply N.eqb_neq; exact Hc).
  destruct q.
  - destruct (c =? QUOTE); [discriminate|]. rewrite Ec in H. destruct (c =? LF); [congruence|]. rewrite Eb in H. congruence.
  - destruct (c =? LF); [congruence|]. destruct (char_of_sym t c); congruence.
  - destruct (c =? QUOTE); [discriminate|]. rewrite Ec in H. destruct (c =? LF); [congruence|]. rewrite Eb in H. congruence.
Qed.

Lemma run_last_plain q a c q' o : run t q (a ++ [c]) = Some (q', o) -> c <> BSLASH -> c <> CR -> q' = Plain.
Proof.
  rewrite run_app. destruct (run t q a) as [[q1 o1]|]; [|discriminate]. cbn [run].
  destruct (step t q1 c) as [|q2 out] eqn:E; [discriminate|]. intros [= <- _] Hb Hc. eapply step_plain; eauto.
Qed.

(** runs of backslashes toggle between Plain and Esc *)
Lemma run_bs k :
  (exists o, run t Plain (repeat BSLASH k) = Some (if Nat.even k then Plain else Esc, o)) /\
  (exists o, run t Esc (repeat BSLASH k) = Some (if Nat.even k then Esc else Plain, o)).
Proof.
  induction k as [|k [[o1 H1] [o2 H2]]].
  - cbn. eauto.
  - rewrite Nat.even_succ, <- Nat.negb_even. cbn [repeat run].
    assert (Hp : step t Plain BSLASH = Go Esc []) by reflexivity.
    assert (He : exists out, step t Esc BSLASH = Go Plain out).
    { unfold step. replace (BSLASH =? LF) with false by reflexivity. destruct (char_of_sym t BSLASH); eauto. }
    destruct He as [out He]. rewrite Hp, He, H1, H2.
    destruct (Nat.even k); cbn [negb]; eauto.
Qed.

(** decomposition of a string into a part not ending in a backslash and its trailing backslashes *)
Lemma trailing_bs_rev_decomp m :
  exists pre, rev m = pre ++ repeat BSLASH (trailing_bs_rev m) /\ (pre = [] \/ exists p c, pre = p ++ [c] /\ c <> BSLASH).
Proof.
  induction m as [|x r [pre [E H]]]; cbn [trailing_bs_rev rev].
  - exists []. cbn. auto.
  - destruct (x =? BSLASH) eqn:Ex.
    + apply N.eqb_eq in Ex. subst x. exists pre. split; [|exact H].
      rewrite E. rewrite <- app_assoc. f_equal. cbn [repeat].
      clear. induction (trailing_bs_rev r) as [|n IH]; cbn; [reflexivity|]. f_equal. exact IH.
    + apply N.eqb_neq in Ex. exists (rev r ++ [x]). cbn [repeat]. rewrite app_nil_r. split; [reflexivity|].
      right. exists (rev r), x. auto.
Qed.
Lemma trailing_bs_decomp l :
  exists pre, l = pre ++ repeat BSLASH (trailing_bs l) /\ (pre = [] \/ exists p c, pre = p ++ [c] /\ c <> BSLASH).
Proof.
  unfold trailing_bs. destruct (trailing_bs_rev_decomp (rev l)) as [pre H]. rewrite rev_involutive in H. eauto.
Qed.

Lemma trailing_bs_app_bs l : trailing_bs (l ++ [BSLASH]) = S (trailing_bs l).
Proof. unfold trailing_bs. rewrite rev_app_distr. reflexivity. Qed.

(** state after a CR-free prefix whose number of trailing backslashes is even *)
Lemma run_even_bs a q o :
  run t Plain a = Some (q, o) -> memN CR a = false -> q = if Nat.even (trailing_bs a) then Plain else Esc.
Proof.
  intros Hrun Hcr. destruct (trailing_bs_decomp a) as [pre [E Hpre]].
  set (k := trailing_bs a) in *. rewrite E in Hrun. rewrite run_app in Hrun.
  destruct (run t Plain pre) as [[q1 o1]|] eqn:R1; [|discriminate].
  assert (q1 = Plain).
  { destruct Hpre as [->|[p [c [-> Hc]]]].
    - cbn in R1. congruence.
    - eapply run_last_plain; [exact R1|exact Hc|].
      intros ->. rewrite E, !memN_app in Hcr. cbn in Hcr. rewrite orb_true_r in Hcr. discriminate. }
  subst q1. destruct (run_bs k) as [[o2 H2] _]. rewrite H2 in Hrun. congruence.
Qed.

(** * The joined-string reader on the writer's output *)
Lemma rj_run q b q' o r :
  run t q b = Some (q', o) ->
  rj t (InStr q) (b ++ r) = match rj t (InStr q') r with Some v => Some (o ++ v) | None => None end.
Proof.
  revert q o. induction b as [|c b IH]; intros q o; cbn [run app].
  - intros [= -> <-]. destruct (rj t (InStr q') r); reflexivity.
  - cbn [rj]. destruct (step t q c) as [|q1 out]; [discriminate|].
    destruct (run t q1 b) as [[q2 o2]|] eqn:R; [|discriminate]. intros [= -> <-].
    rewrite (IH _ _ R). destruct (rj t (InStr q') r); [rewrite app_assoc|]; reflexivity.
Qed.

Lemma rj_close r : rj t (InStr Plain) (QUOTE :: r) = rj t After r.
Proof. reflexivity. Qed.

Lemma rj_plus_blanks indent r : all_blank indent = true -> rj t AfterPlus (indent ++ r) = rj t AfterPlus r.
Proof.
  induction indent as [|c i IH]; cbn [all_blank forallb app]; [reflexivity|].
  intros H. apply andb_true_iff in H. destruct H as [Hc Hi]. cbn [rj]. rewrite Hc. cbn [orb]. apply IH, Hi.
Qed.

Lemma rj_joiner indent r : all_blank indent = true ->
  rj t After ((JOINER ++ indent) ++ QUOTE :: r) = rj t (InStr Plain) r.
Proof.
  intros H. unfold JOINER. cbn [app rj]. replace (blank SPACE) with true by reflexivity.
  replace (blank PLUS) with false by reflexivity. replace (PLUS =? PLUS) with true by reflexivity.
  replace (blank LF || (LF =? LF)) with true by reflexivity.
  rewrite rj_plus_blanks by exact H. cbn [rj].
  replace (blank QUOTE || (QUOTE =? LF)) with false by reflexivity. reflexivity.
Qed.

Lemma join_cons2 sep (x y : str) r : join sep (x :: y :: r) = x ++ sep ++ join sep (y :: r).
Proof. reflexivity. Qed.
Lemma write_sections_head indent s secs : exists w, write_sections indent (s :: secs) = QUOTE :: w.
Proof.
  unfold write_sections. cbn [map]. destruct (map quote secs) as [|y r].
  - cbn [join]. unfold quote. cbn [app]. eauto.
  - rewrite join_cons2. unfold quote at 1. cbn [app]. eauto.
Qed.

Lemma rj_sections indent tail : all_blank indent = true -> stops t tail = true ->
  forall secs outs, Forall2 (fun s o => run t Plain s = Some (Plain, o)) secs outs -> secs <> [] ->
  read_joined t (write_sections indent secs ++ tail) = Some (concat outs).
Proof.
  intros Hind Hstop secs outs HF Hne.
  assert (Hstop' : rj t After tail = Some []).
  { revert Hstop. unfold stops. destruct (rj t After tail) as [[|]|]; intros; first [reflexivity|discriminate]. }
  revert Hne. induction HF as [|s o secs outs Hs HF IH]; intros Hne; [exfalso; apply Hne; reflexivity|]. clear Hne.
  destruct secs as [|s2 secs].
  - inversion HF; subst. unfold write_sections. cbn [map join concat]. unfold quote. cbn [app read_joined].
    replace (QUOTE =? QUOTE) with true by reflexivity.
    rewrite <- app_assoc. rewrite (rj_run _ _ _ _ _ Hs). cbn [app]. rewrite rj_close, Hstop'. reflexivity.
  - assert (IH' : read_joined t (write_sections indent (s2 :: secs) ++ tail) = Some (concat outs)) by (apply IH; congruence).
    clear IH. destruct (write_sections_head indent s2 secs) as [w HW].
    assert (E : write_sections indent (s :: s2 :: secs) = quote s ++ (JOINER ++ indent) ++ write_sections indent (s2 :: secs)).
    { unfold write_sections. cbn [map]. apply join_cons2. }
    rewrite E, HW in *. clear E HW. unfold quote. cbn [app read_joined concat] in *.
    replace (QUOTE =? QUOTE) with true in * by reflexivity.
    rewrite <- !app_assoc. rewrite (rj_run _ _ _ _ _ Hs). cbn [app]. rewrite rj_close.
    rewrite (app_assoc JOINER indent). rewrite rj_joiner by exact Hind. rewrite IH'. reflexivity.
Qed.

(** * Safe cuts *)
Lemma cut_after_char rem k c q s :
  run t Plain rem = Some (q, s) -> nth_error rem k = Some c -> c <> BSLASH -> c <> CR ->
  exists o, run t Plain (firstn (S k) rem) = Some (Plain, o).
Proof.
  intros Hrun Hk Hb Hc. rewrite <- (firstn_skipn (S k) rem) in Hrun.
  apply run_prefix in Hrun. destruct Hrun as [q1 [o1 R]]. exists o1.
  rewrite (firstn_S_nth _ _ _ Hk) in R |- *. rewrite R. f_equal. f_equal. eapply run_last_plain; eauto.
Qed.



Lemma memN_nth_neq c l k x : memN c l = false -> nth_error l k = Some x -> x <> c.
Proof.
  intros H Hk ->. apply memN_false in H. apply H. eapply nth_error_In; eauto.
Qed.

Lemma nth_error_lt {A} (l : list A) k x : nth_error l k = Some x -> (k < length l)%nat.
Proof. intros H. apply nth_error_Some. congruence. Qed.

Lemma firstn_removelast_bs (l : list N) n : (0 < n)%nat -> (n <= length l)%nat ->
  Nat.odd (trailing_bs (firstn n l)) = true -> firstn n l = firstn (n - 1) l ++ [BSLASH].
Proof.
  intros Hn Hl Hodd. destruct n as [|n]; [lia|]. replace (S n - 1)%nat with n by lia.
  destruct (nth_error l n) as [x|] eqn:E; [|apply nth_error_None in E; lia].
  rewrite (firstn_S_nth _ _ _ E) in *. f_equal. f_equal.
  destruct (N.eq_dec x BSLASH) as [->|Hx]; [reflexivity|].
  exfalso. unfold trailing_bs in Hodd. rewrite rev_app_distr in Hodd. cbn [rev app trailing_bs_rev] in Hodd.
  apply N.eqb_neq in Hx. rewrite Hx in Hodd. discriminate.
Qed.

Lemma In_firstn' {A} (x : A) n l : In x (firstn n l) -> In x l.
Proof. revert n. induction l as [|y r IH]; intros [|n]; cbn; try tauto. intros [H|H]; eauto. Qed.
Lemma memN_firstn c n l : memN c l = false -> memN c (firstn n l) = false.
Proof. rewrite !memN_false. intros H Hin. apply H. eapply In_firstn'; eauto. Qed.
Lemma In_skipn' {A} (x : A) n l : In x (skipn n l) -> In x l.
Proof. revert n. induction l as [|y r IH]; intros [|n]; cbn; try tauto. intros H; eauto. Qed.
Lemma memN_skipn c n l : memN c l = false -> memN c (skipn n l) = false.
Proof. rewrite !memN_false. intros H Hin. apply H. eapply In_skipn'; eauto. Qed.

Definition fallback_pos (cfg : ls_cfg) (w : str) : nat :=
  match rfind1 SPACE w with
  | Some i => (i + 1)%nat
  | None => if cut_guard cfg && Nat.odd (trailing_bs w) then (limit cfg - 1)%nat else limit cfg
  end.

Lemma fallback_safe cfg rem q s :
  (2 <= limit cfg)%nat -> cut_guard cfg = true ->
  (limit cfg < length rem)%nat -> memN CR rem = false -> run t Plain rem = Some (q, s) ->
  let p := fallback_pos cfg (firstn (limit cfg) rem) in
  (1 <= p <= limit cfg)%nat /\ exists o, run t Plain (firstn p rem) = Some (Plain, o).
Proof.
  intros Hlim Hguard Hlen Hcr Hrun. unfold fallback_pos. set (w := firstn (limit cfg) rem).
  assert (Hw : length w = limit cfg) by (unfold w; rewrite firstn_length; lia).
  destruct (rfind1 SPACE w) as [j|] eqn:E1.
  - apply rfind1_spec in E1. pose proof (nth_error_lt _ _ _ E1) as Hj. apply nth_error_firstn_Some in E1.
    replace (j + 1)%nat with (S j) by lia. split; [lia|].
    eapply cut_after_char; [exact Hrun|exact E1|discriminate|discriminate].
  - rewrite Hguard. cbn [andb].
    destruct (Nat.odd (trailing_bs w)) eqn:Eo.
    + split; [lia|].
      pose proof (firstn_removelast_bs rem (limit cfg) ltac:(lia) ltac:(lia) Eo) as Ew. fold w in Ew.
      assert (Hpre : exists q1 o1, run t Plain (firstn (limit cfg - 1) rem) = Some (q1, o1)).
      { rewrite <- (firstn_skipn (limit cfg - 1) rem) in Hrun. eapply run_prefix; eauto. }
      destruct Hpre as [q1 [o1 R]]. exists o1. rewrite R. f_equal. f_equal.
      rewrite (run_even_bs _ _ _ R (memN_firstn _ _ _ Hcr)).
      rewrite Ew, trailing_bs_app_bs, Nat.odd_succ in Eo. rewrite Eo. reflexivity.
    + split; [lia|].
      assert (Hpre : exists q1 o1, run t Plain w = Some (q1, o1)).
      { unfold w. rewrite <- (firstn_skipn (limit cfg) rem) in Hrun. eapply run_prefix; eauto. }
      destruct Hpre as [q1 [o1 R]]. exists o1. fold w. rewrite R. f_equal. f_equal.
      rewrite (run_even_bs _ _ _ R (memN_firstn _ _ _ Hcr)). rewrite <- Nat.negb_odd, Eo. reflexivity.
Qed.

(** every cut chosen by the writer lies at a point where the reader is in its plain state *)
Lemma split_pos_safe cfg rem q s :
  cfg_ok cfg = true -> (limit cfg < length rem)%nat -> memN CR rem = false -> run t Plain rem = Some (q, s) ->
  (1 <= split_pos cfg rem <= limit cfg)%nat /\ exists o, run t Plain (firstn (split_pos cfg rem) rem) = Some (Plain, o).
Proof.
  intros Hcfg Hlen Hcr Hrun. unfold cfg_ok in Hcfg.
  repeat (apply andb_true_iff in Hcfg; destruct Hcfg as [Hcfg ?]).
  apply Nat.leb_le in Hcfg. match goal with H : (1 <=? min_nl cfg)%nat = true |- _ => apply Nat.leb_le in H; rename H into Hmin end.
  pose proof (fallback_safe cfg rem q s Hcfg ltac:(assumption) Hlen Hcr Hrun) as Hfb. cbn zeta in Hfb.
  unfold split_pos. fold (fallback_pos cfg (firstn (limit cfg) rem)).
  set (w := firstn (limit cfg) rem) in *.
  assert (Hw : length w = limit cfg) by (unfold w; rewrite firstn_length; lia).
  destruct (rfind2 BSLASH LOWER_N w) as [i|] eqn:E2.
  - apply rfind2_spec in E2. destruct E2 as [_ Hn]. pose proof (nth_error_lt _ _ _ Hn) as Hi.
    apply nth_error_firstn_Some in Hn.
    destruct (min_nl cfg <? i + 2)%nat eqn:Em; [|exact Hfb].
    replace (i + 2)%nat with (S (S i)) by lia. split; [lia|].
    eapply cut_after_char; [exact Hrun|exact Hn|discriminate|discriminate].
  - replace (min_nl cfg <? 1)%nat with false by (symmetry; apply Nat.ltb_ge; lia). exact Hfb.
Qed.


(** * The section loop *)
Definition sec_props (cfg : ls_cfg) (secs : list str) (rem s : str) : Prop :=
  (exists outs, Forall2 (fun sec o => run t Plain sec = Some (Plain, o)) secs outs /\ concat outs = s)
  /\ Forall (fun sec => (length sec <= limit cfg)%nat /\ memN CR sec = false) secs
  /\ concat secs = rem.

Lemma sections_ok cfg : cfg_ok cfg = true -> forall fuel first rem s,
  (length rem < fuel)%nat -> memN CR rem = false -> run t Plain rem = Some (Plain, s) ->
  sec_props cfg (sections_fuel fuel cfg first rem) rem s.
Proof.
  intros Hcfg. induction fuel as [|f IH]; intros first rem s Hlen Hcr Hrun; [lia|].
  cbn [sections_fuel]. destruct (limit cfg <? length rem)%nat eqn:El.
  - apply Nat.ltb_lt in El.
    destruct (split_pos_safe cfg rem Plain s Hcfg El Hcr Hrun) as [Hp [o1 R1]].
    set (p := split_pos cfg rem) in *.
    pose proof Hrun as Hrun'. rewrite <- (firstn_skipn p rem) in Hrun'. rewrite run_app, R1 in Hrun'.
    destruct (run t Plain (skipn p rem)) as [[q2 o2]|] eqn:R2; [|discriminate].
    injection Hrun' as -> <-.
    assert (Hlen2 : (length (skipn p rem) < f)%nat) by (rewrite skipn_length; lia).
    destruct (IH false (skipn p rem) o2 Hlen2 (memN_skipn _ _ _ Hcr) R2) as [[outs [HF Hc]] [HB Hcat]].
    split; [|split].
    + exists (o1 :: outs). split; [constructor; assumption|]. cbn [concat]. rewrite Hc. reflexivity.
    + constructor; [|exact HB]. split; [rewrite firstn_length; lia|apply memN_firstn, Hcr].
    + cbn [concat]. rewrite Hcat. apply firstn_skipn.
  - apply Nat.ltb_ge in El.
    destruct (nonempty rem || (first && empty_quotes cfg)) eqn:En.
    + split; [|split].
      * exists [s]. split; [constructor; [exact Hrun|constructor]|]. cbn. apply app_nil_r.
      * constructor; [auto|constructor].
      * cbn. apply app_nil_r.
    + apply orb_false_iff in En. destruct En as [En _]. destruct rem; [|discriminate].
      cbn in Hrun. injection Hrun as <-.
      split; [|split]; [exists []; split; [constructor|reflexivity]|constructor|reflexivity].
Qed.

Lemma sections_nonempty cfg e : cfg_ok cfg = true -> sections cfg e <> [].
Proof.
  intros Hcfg. unfold cfg_ok in Hcfg. repeat (apply andb_true_iff in Hcfg; destruct Hcfg as [Hcfg ?]).
  unfold sections. cbn [sections_fuel]. destruct (limit cfg <? length e)%nat; [discriminate|].
  match goal with H : empty_quotes cfg = true |- _ => rewrite H end. cbn [andb]. rewrite orb_true_r. discriminate.
Qed.

(** * Escaping is inverted by the string automaton *)
Lemma run_flat_map (f : N -> str) s :
  (forall c, In c s -> run t Plain (f c) = Some (Plain, [c]) /\ memN CR (f c) = false) ->
  run t Plain (flat_map f s) = Some (Plain, s) /\ memN CR (flat_map f s) = false.
Proof.
  induction s as [|c r IH]; intros H; cbn [flat_map]; [auto|].
  destruct (H c (or_introl eq_refl)) as [Hr Hc]. destruct IH as [IHr IHc]; [intros; apply H; right; assumption|].
  rewrite run_app, Hr, IHr, memN_app, Hc, IHc. auto.
Qed.

Lemma sym_of_char_in c sym : forall tb, sym_of_char tb c = Some sym -> In sym (map fst tb).
Proof.
  induction tb as [|[s0 c0] r IH]; cbn [sym_of_char map fst]; [discriminate|].
  destruct (c0 =? c); [intros [= ->]; left; reflexivity|intros H; right; apply IH, H].
Qed.
Lemma sym_char_inv c sym : forall tb, nodupN (map fst tb) = true -> sym_of_char tb c = Some sym -> char_of_sym tb sym = Some c.
Proof.
  induction tb as [|[s0 c0] r IH]; cbn [sym_of_char char_of_sym map fst nodupN]; [discriminate|].
  intros Hnd H. apply andb_true_iff in Hnd. destruct Hnd as [Hnot Hnd]. apply negb_true_iff in Hnot.
  destruct (c0 =? c) eqn:Ec.
  - injection H as ->. rewrite N.eqb_refl. apply N.eqb_eq in Ec. congruence.
  - pose proof (sym_of_char_in _ _ _ H) as Hin. destruct (s0 =? sym) eqn:Es; [|apply IH; assumption].
    apply N.eqb_eq in Es. subst s0. apply memN_false in Hnot. contradiction.
Qed.

End Reader.

Section Escape.
Variables (t : esc_table) (excl : list N).
Hypothesis Hok : table_ok t excl = true.

Lemma table_facts :
  nodupN (map fst t) = true /\ memN LF (map fst t) = false /\ memN CR (map fst t) = false
  /\ escaped_by t excl QUOTE = true /\ escaped_by t excl BSLASH = true /\ escaped_by t excl CR = true
  /\ char_of_sym t LOWER_N = Some LF.
Proof.
  pose proof Hok as H. unfold table_ok in H. repeat (apply andb_true_iff in H; destruct H as [H ?]).
  repeat match goal with X : negb _ = true |- _ => apply negb_true_iff in X end.
  repeat split; try assumption.
  destruct (char_of_sym t LOWER_N) as [c|]; [|discriminate].
  match goal with X : (c =? LF) = true |- _ => apply N.eqb_eq in X; congruence end.
Qed.

Lemma escaped_by_neq c x : escaped_by t excl x = true ->
  (memN c excl = true \/ sym_of_char t c = None) -> c <> x.
Proof.
  unfold escaped_by. intros H Hc ->. apply andb_true_iff in H. destruct H as [H1 H2].
  apply negb_true_iff in H1. destruct Hc as [Hc|Hc]; [congruence|]. rewrite Hc in H2. discriminate.
Qed.

Lemma step_plain_ordinary c : c <> QUOTE -> c <> BSLASH -> c <> CR -> step t Plain c = Go Plain [c].
Proof.
  intros Hq Hb Hc. unfold step. apply N.eqb_neq in Hq, Hb, Hc. rewrite Hq, Hc.
  destruct (c =? LF) eqn:El; [apply N.eqb_eq in El; subst; reflexivity|]. rewrite Hb. reflexivity.
Qed.

Lemma esc_unit_ext_ok c :
  run t Plain (esc_unit_ext t excl c) = Some (Plain, [c]) /\ memN CR (esc_unit_ext t excl c) = false.
Proof.
  destruct table_facts as [Hnd [Hlf [Hcr [Hq [Hb [Hc Hn]]]]]].
  unfold esc_unit_ext.
  assert (Hplain : (memN c excl = true \/ sym_of_char t c = None) ->
            run t Plain [c] = Some (Plain, [c]) /\ memN CR [c] = false).
  { intros Hcase. pose proof (escaped_by_neq c _ Hq Hcase). pose proof (escaped_by_neq c _ Hb Hcase).
    pose proof (escaped_by_neq c _ Hc Hcase) as Hncr.
    cbn [run]. rewrite step_plain_ordinary by assumption. split; [reflexivity|].
    cbn [memN]. rewrite orb_false_r. apply N.eqb_neq. congruence. }
  destruct (memN c excl) eqn:Ex; [apply Hplain; auto|].
  destruct (sym_of_char t c) as [sym|] eqn:Es; [|apply Hplain; auto].
  pose proof (sym_of_char_in _ _ _ Es) as Hin. pose proof (sym_char_inv c sym t Hnd Es) as Hinv.
  assert (sym <> LF) by (intros ->; apply memN_false in Hlf; contradiction).
  assert (sym <> CR) by (intros ->; apply memN_false in Hcr; contradiction).
  cbn [run]. replace (step t Plain BSLASH) with (Go Esc []) by reflexivity.
  unfold step. replace (sym =? LF) with false by (symmetry; apply N.eqb_neq; assumption). rewrite Hinv.
  split; [reflexivity|]. cbn [memN]. replace (BSLASH =? CR) with false by reflexivity.
  replace (sym =? CR) with false by (symmetry; apply N.eqb_neq; assumption). reflexivity.
Qed.

Lemma esc_unit_std_ok c : c <> QUOTE -> c <> BSLASH -> c <> CR ->
  run t Plain (esc_unit_std c) = Some (Plain, [c]) /\ memN CR (esc_unit_std c) = false.
Proof.
  destruct table_facts as [_ [_ [_ [_ [_ [_ Hn]]]]]].
  intros Hq Hb Hc. unfold esc_unit_std. destruct (c =? LF) eqn:El.
  - apply N.eqb_eq in El. subst c. cbn [run]. replace (step t Plain BSLASH) with (Go Esc []) by reflexivity.
    unfold step. replace (LOWER_N =? LF) with false by reflexivity. rewrite Hn. split; reflexivity.
  - replace (c =? QUOTE) with false by (symmetry; apply N.eqb_neq; assumption).
    cbn [run]. rewrite step_plain_ordinary by assumption. split; [reflexivity|].
    cbn [memN]. rewrite orb_false_r. apply N.eqb_neq. congruence.
Qed.

Lemma escape_read ext text : (ext = false -> std_safe text = true) ->
  run t Plain (fgd_escape t excl ext text) = Some (Plain, text) /\ memN CR (fgd_escape t excl ext text) = false.
Proof.
  intros Hsafe. unfold fgd_escape. destruct ext.
  - apply run_flat_map. intros c _. apply esc_unit_ext_ok.
  - apply run_flat_map. intros c Hin. specialize (Hsafe eq_refl). unfold std_safe in Hsafe.
    rewrite forallb_forall in Hsafe. specialize (Hsafe c Hin). apply negb_true_iff in Hsafe.
    apply orb_false_iff in Hsafe. destruct Hsafe as [Hs Hcr]. apply orb_false_iff in Hs. destruct Hs as [Hq Hb].
    apply N.eqb_neq in Hq, Hb, Hcr. apply esc_unit_std_ok; assumption.
Qed.

(** * Main results *)
Theorem longstring_roundtrip cfg ext indent text tail :
  cfg_ok cfg = true -> all_blank indent = true -> stops t tail = true ->
  (ext = false -> std_safe text = true) ->
  read_joined t (write_longstring t excl cfg ext indent text ++ tail) = Some text.
Proof.
  intros Hcfg Hind Hstop Hsafe. destruct (escape_read ext text Hsafe) as [Hrun Hcr].
  unfold write_longstring. set (e := fgd_escape t excl ext text) in *.
  destruct (sections_ok t cfg Hcfg (S (length e)) true e text ltac:(lia) Hcr Hrun) as [[outs [HF Hc]] _].
  fold (sections cfg e) in HF.
  rewrite (rj_sections t indent tail Hind Hstop _ _ HF (sections_nonempty cfg e Hcfg)). rewrite Hc. reflexivity.
Qed.

Theorem longstring_sections cfg ext text :
  cfg_ok cfg = true -> (ext = false -> std_safe text = true) ->
  let secs := sections cfg (fgd_escape t excl ext text) in
  secs <> [] /\ concat secs = fgd_escape t excl ext text
  /\ Forall (fun sec => (length sec <= limit cfg)%nat /\ section_closed sec = true) secs.
Proof.
  intros Hcfg Hsafe. destruct (escape_read ext text Hsafe) as [Hrun Hcr].
  set (e := fgd_escape t excl ext text) in *. cbn zeta.
  destruct (sections_ok t cfg Hcfg (S (length e)) true e text ltac:(lia) Hcr Hrun) as [[outs [HF Hc]] [HB Hcat]].
  fold (sections cfg e) in HF, HB, Hcat.
  split; [apply sections_nonempty, Hcfg|]. split; [exact Hcat|].
  clear Hc Hcat. induction HF as [|sec o secs outs Hs HF IH]; [constructor|].
  inversion HB as [|? ? [Hl Hc] HB']; subst. constructor; [|apply IH, HB'].
  split; [exact Hl|]. unfold section_closed. pose proof (run_even_bs t sec Plain o Hs Hc) as E.
  destruct (Nat.even (trailing_bs sec)); [reflexivity|discriminate].
Qed.

End Escape.

(** * What goes wrong without the two repaired branches *)
Lemma empty_text_writes_nothing t excl cfg ext indent :
  empty_quotes cfg = false -> write_longstring t excl cfg ext indent [] = [].
Proof.
  intros H. unfold write_longstring, sections. replace (fgd_escape t excl ext []) with (@nil N) by (destruct ext; reflexivity).
  cbn [length sections_fuel]. replace (limit cfg <? 0)%nat with false by (symmetry; apply Nat.ltb_ge; lia).
  rewrite H. reflexivity.
Qed.
Lemma nothing_is_unreadable t tail : (forall r, tail <> QUOTE :: r) -> read_joined t ([] ++ tail) = None.
Proof.
  intros H. cbn [app]. destruct tail as [|c r]; [reflexivity|]. cbn [read_joined].
  destruct (c =? QUOTE) eqn:E; [|reflexivity]. apply N.eqb_eq in E. subst c. exfalso. eapply H; reflexivity.
Qed.
