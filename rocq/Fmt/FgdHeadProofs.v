(** C16 — proofs about Fmt/FgdHead.v: the header of an entity definition, as written, is read back. *)
From Coq Require Import List NArith Arith Bool Lia.
From SV Require Import Fmt.FgdBin Fmt.FgdBinProofs Fmt.FgdLine Fmt.FgdHead.
Import ListNotations.
Open Scope N_scope.

(** * strings *)
Lemma str_eqb_refl a : str_eqb a a = true.
Proof. induction a as [|x a IH]; [reflexivity|]. cbn [str_eqb]. rewrite N.eqb_refl. exact IH. Qed.
Lemma str_eqb_eq a : forall b, str_eqb a b = true -> a = b.
Proof.
  induction a as [|x a IH]; intros [|y b] E; cbn [str_eqb] in E; try discriminate; [reflexivity|].
  apply andb_true_iff in E. destruct E as [E1 E2]. apply N.eqb_eq in E1. f_equal; [exact E1|apply IH; exact E2].
Qed.
Lemma str_mem_false x l : ~ In x l -> str_mem x l = false.
Proof.
  induction l as [|y l IH]; intros Hn; [reflexivity|]. cbn [str_mem].
  destruct (str_eqb x y) eqn:E.
  - exfalso. apply Hn. left. symmetry. apply str_eqb_eq. exact E.
  - cbn [orb]. apply IH. intros Hi. apply Hn. right. exact Hi.
Qed.

(** * `', '.join(args)` read back by split(',') + strip *)
Definition spaced (l : list str) : list str := match l with [] => [] | x :: r => x :: map (cons 32) r end.
Lemma join_cs_blank y r : 32 :: join_cs (y :: r) = join_sep COMMA (map (cons 32) (y :: r)).
Proof.
  revert y. induction r as [|z r IH]; intros y; [reflexivity|].
  change (join_cs (y :: z :: r)) with (y ++ COMMA :: 32 :: join_cs (z :: r)).
  change (map (cons 32) (y :: z :: r)) with ((32 :: y) :: map (cons 32) (z :: r)).
  change (join_sep COMMA ((32 :: y) :: map (cons 32) (z :: r)))
    with ((32 :: y) ++ COMMA :: join_sep COMMA (map (cons 32) (z :: r))).
  rewrite <- IH. reflexivity.
Qed.
Lemma join_cs_sep l : join_cs l = join_sep COMMA (spaced l).
Proof.
  destruct l as [|x [|y r]]; [reflexivity|reflexivity|].
  change (join_cs (x :: y :: r)) with (x ++ COMMA :: 32 :: join_cs (y :: r)).
  change (spaced (x :: y :: r)) with (x :: map (cons 32) (y :: r)).
  change (join_sep COMMA (x :: map (cons 32) (y :: r))) with (x ++ COMMA :: join_sep COMMA (map (cons 32) (y :: r))).
  rewrite join_cs_blank. reflexivity.
Qed.
Lemma strip_blank y : strip y = y -> strip (32 :: y) = y.
Proof. intros E. unfold strip. cbn [lstrip]. change (blankc 32) with true. cbn iota. exact E. Qed.
Lemma map_strip_blank r : Forall (fun a => strip a = a) r -> map strip (map (cons 32) r) = r.
Proof. induction 1 as [|y r Hy _ IH]; [reflexivity|]. cbn [map]. rewrite strip_blank by exact Hy. rewrite IH. reflexivity. Qed.
Lemma spaced_nocomma l : Forall (fun a => mem_N COMMA a = false) l -> Forall (fun a => mem_N COMMA a = false) (spaced l).
Proof.
  intros Hl. destruct l as [|x r]; [constructor|]. inversion Hl as [|? ? Hx Hr]; subst. cbn [spaced]. constructor; [exact Hx|].
  clear Hx Hl. induction Hr as [|y r Hy _ IH]; [constructor|]. cbn [map]. constructor; [|exact IH].
  cbn [mem_N]. rewrite Hy. reflexivity.
Qed.
Theorem paren_args_join0 l : args_ok l -> paren_args (join_cs l) = l.
Proof.
  intros [Hl Hne]. unfold paren_args. rewrite join_cs_sep.
  destruct l as [|x r].
  - reflexivity.
  - assert (Hc : Forall (fun a => mem_N COMMA a = false) (x :: r)).
    { eapply Forall_impl; [|exact Hl]. intros a [Ha _]. exact Ha. }
    assert (Hs : Forall (fun a => strip a = a) (x :: r)).
    { eapply Forall_impl; [|exact Hl]. intros a [_ Ha]. exact Ha. }
    rewrite split_join; [|cbn [spaced]; congruence|apply spaced_nocomma; exact Hc].
    cbn [spaced map]. inversion Hs as [|? ? Hx Hr]; subst. rewrite Hx, map_strip_blank by exact Hr.
    destruct r as [|y r]; [|reflexivity].
    destruct x; [exfalso; apply Hne; reflexivity|reflexivity].
Qed.
Lemma arg_ok_args_ok l : Forall arg_ok l -> args_ok l.
Proof.
  intros Hl. split.
  - eapply Forall_impl; [|exact Hl]. intros a [_ Ha]. exact Ha.
  - intros E. subst l. inversion Hl as [|? ? [Hne _] _]; subst. congruence.
Qed.
Theorem paren_args_join l : Forall arg_ok l -> paren_args (join_cs l) = l.
Proof. intros Hl. apply paren_args_join0. apply arg_ok_args_ok. exact Hl. Qed.
(** the one exception, exactly: a sole blank argument (and no argument) are both written `()` and read as no argument *)
Lemma paren_args_sole_blank : paren_args (join_cs [[]]) = [] /\ paren_args (join_cs []) = [].
Proof. split; reflexivity. Qed.
(** every generated configuration of today's shape computes [paren_args] *)
Theorem paren_args_with_is_model c : args_cfg_ok c = true -> forall s, paren_args_with c s = paren_args s.
Proof.
  destruct c as [sep st f cl]. unfold args_cfg_ok. cbn [ac_sep ac_strip ac_filter ac_clear_sole].
  intros E s. apply andb_true_iff in E. destruct E as [E Ec]. apply andb_true_iff in E. destruct E as [E Ef].
  apply andb_true_iff in E. destruct E as [Es Est]. apply N.eqb_eq in Es. subst sep st cl.
  destruct f; try discriminate. reflexivity.
Qed.
(** ... hence reads back what the writer wrote, blank arguments included *)
Corollary paren_args_with_roundtrip c : args_cfg_ok c = true -> forall l, args_ok l -> paren_args_with c (join_cs l) = l.
Proof. intros Hc l Hl. rewrite paren_args_with_is_model by exact Hc. apply paren_args_join0. exact Hl. Qed.

Lemma add_bases_nodup l : forall bs, NoDup (bs ++ l) -> add_bases bs l = bs ++ l.
Proof.
  induction l as [|a l IH]; intros bs Hn; [symmetry; apply app_nil_r|].
  cbn [add_bases]. rewrite str_mem_false.
  - rewrite IH; rewrite <- app_assoc; [reflexivity|exact Hn].
  - apply NoDup_remove_2 in Hn. intros Hi. apply Hn. apply in_or_app. left. exact Hi.
Qed.

Section Proofs.
Variable H : Type.
Variable known : str -> bool.
Variable hparse : str -> list str -> option H.
Variable hunknown : str -> list str -> H.
Hypothesis known_base : known KW_BASE = true.
Hypothesis unknown_aliasof : known KW_ALIASOF = false.

Local Notation head_loop := (head_loop H known hparse hunknown).
Local Notation head_flush := (head_flush H hparse hunknown).
Local Notation head_read := (head_read H known hparse hunknown).
Local Notation form_ok := (form_ok H known hparse hunknown).

(** * the description *)
Lemma desc_more secs : secs <> [] -> forall d tail, d <> [] ->
  desc_loop (Some d) true (str_toks secs ++ tail) = desc_loop (Some (d ++ secs)) false tail.
Proof.
  induction secs as [|x [|y r] IH]; intros Hne d tail Hd; [congruence|reflexivity|].
  change (str_toks (x :: y :: r)) with (TStr x :: TPlus :: TNl :: str_toks (y :: r)).
  cbn [app desc_loop option_map].
  destruct (d ++ [x]) as [|z dz] eqn:E; [destruct d; discriminate|]. rewrite <- E.
  cbn [desc_loop]. rewrite IH; [|congruence|rewrite E; congruence].
  rewrite <- app_assoc. reflexivity.
Qed.
Lemma desc_written secs rest :
  desc_loop None false (match secs with [] => [] | _ => TColon :: str_toks secs end ++ [TNl; TBrOpen] ++ rest)
  = Some (concat secs, rest).
Proof.
  destruct secs as [|x [|y r]]; [reflexivity| |].
  - cbn. rewrite app_nil_r. reflexivity.
  - change (str_toks (x :: y :: r)) with (TStr x :: TPlus :: TNl :: str_toks (y :: r)).
    cbn [app desc_loop]. rewrite desc_more; [|congruence|congruence]. reflexivity.
Qed.

(** * the helpers *)
Definition pend : Type := option (str * H).
Definition pn (p : pend) : option str := option_map fst p.
Definition fl (p : pend) : list H := match p with Some (_, h) => [h] | None => [] end.
Definition pend_ok (p : pend) : Prop :=
  match p with Some (n, h) => known n = true /\ special n = false /\ hparse n [] = Some h | None => True end.
Fixpoint G (forms : list hform) (hs2 : list H) (p : pend) (hs : list H) : pend * list H :=
  match forms, hs2 with
  | HBare n :: fs, h :: r => G fs r (Some (n, h)) (hs ++ fl p)
  | HCall _ _ :: fs, h :: r => G fs r None (hs ++ fl p ++ [h])
  | _, _ => (p, hs)
  end.
Lemma G_all forms hs2 : Forall2 form_ok forms hs2 -> forall p hs,
  snd (G forms hs2 p hs) ++ fl (fst (G forms hs2 p hs)) = hs ++ fl p ++ hs2 /\ (pend_ok p -> pend_ok (fst (G forms hs2 p hs))).
Proof.
  induction 1 as [|f h fs r Hf _ IH]; intros p hs.
  - cbn [G fst snd]. rewrite app_nil_r. split; [reflexivity|auto].
  - destruct f as [n|n args]; cbn [G].
    + destruct (IH (Some (n, h)) (hs ++ fl p)) as [E Hp]. split.
      * rewrite E. cbn [fl]. rewrite <- !app_assoc. reflexivity.
      * intros _. apply Hp. exact Hf.
    + destruct (IH None (hs ++ fl p ++ [h])) as [E Hp]. split.
      * rewrite E. cbn [fl]. rewrite <- !app_assoc. reflexivity.
      * intros _. apply Hp. exact I.
Qed.
Lemma special_parts n : special n = false ->
  str_eqb n KW_BASE = false /\ str_eqb n KW_AUTOVIS = false /\ str_eqb n KW_ALIASOF = false.
Proof.
  unfold special. intros E. apply orb_false_iff in E. destruct E as [E E3]. apply orb_false_iff in E. tauto.
Qed.
(** a pending helper without arguments is added when the next name arrives *)
Lemma loop_name p : pend_ok p -> forall n al bs hs r,
  head_loop (pn p) None al bs hs (TStr n :: r)
  = if known n then head_loop (Some n) None al bs (hs ++ fl p) r else head_loop None (Some n) al bs (hs ++ fl p) r.
Proof.
  intros Hp n al bs hs r. destruct p as [[n0 h0]|]; cbn [pn option_map fst fl head_loop].
  - destruct Hp as [_ [_ Hh]]. rewrite Hh. unfold set_name. destruct (known n); reflexivity.
  - rewrite app_nil_r. unfold set_name. destruct (known n); reflexivity.
Qed.
Lemma loop_forms forms hs2 : Forall2 form_ok forms hs2 -> forall p hs al bs tail, pend_ok p ->
  head_loop (pn p) None al bs hs (concat (map helper_toks forms) ++ tail)
  = head_loop (pn (fst (G forms hs2 p hs))) None al bs (snd (G forms hs2 p hs)) tail.
Proof.
  induction 1 as [|f h fs r Hf _ IH]; intros p hs al bs tail Hp; [reflexivity|].
  cbn [map concat]. rewrite <- app_assoc.
  destruct f as [n|n args]; cbn [helper_toks app G].
  - destruct Hf as [Hk [Hs Hh]]. cbn [head_loop]. fold (pn p).
    change (head_loop (pn p) None al bs hs (TStr n :: concat (map helper_toks fs) ++ tail)
            = head_loop (pn (fst (G fs r (Some (n, h)) (hs ++ fl p)))) None al bs (snd (G fs r (Some (n, h)) (hs ++ fl p))) tail).
    rewrite loop_name by exact Hp. rewrite Hk.
    rewrite <- (IH (Some (n, h)) (hs ++ fl p) al bs tail); [reflexivity|]. repeat split; assumption.
  - destruct Hf as [Ha [Hs Hh]]. destruct (special_parts n Hs) as [Hb [Hv Hal]].
    change (head_loop (pn p) None al bs hs (TNl :: TStr n :: TParen (join_cs args) :: concat (map helper_toks fs) ++ tail)
            = head_loop (pn (fst (G fs r None (hs ++ fl p ++ [h])))) None al bs (snd (G fs r None (hs ++ fl p ++ [h]))) tail).
    cbn [head_loop]. fold (pn p).
    change (head_loop (pn p) None al bs hs (TStr n :: TParen (join_cs args) :: concat (map helper_toks fs) ++ tail)
            = head_loop (pn (fst (G fs r None (hs ++ fl p ++ [h])))) None al bs (snd (G fs r None (hs ++ fl p ++ [h]))) tail).
    rewrite loop_name by exact Hp.
    destruct (known n) eqn:Hk; cbn [head_loop]; rewrite paren_args_join0 by exact Ha.
    + rewrite Hb, Hv, Hh. rewrite orb_false_r. rewrite <- app_assoc.
      apply (IH None (hs ++ fl p ++ [h]) al bs tail). exact I.
    + rewrite Hal. cbn iota. rewrite orb_false_r. rewrite Hh. rewrite <- app_assoc.
      apply (IH None (hs ++ fl p ++ [h]) al bs tail). exact I.
Qed.

(** * the whole header *)
Definition bases_ok (bases : list str) : Prop := Forall arg_ok bases /\ NoDup bases.
Theorem head_roundtrip custom alias bases forms hidden hs cls secs rest :
  bases_ok bases -> Forall2 form_ok forms hs -> strip cls = cls ->
  head_read (head_toks custom alias bases forms hidden cls secs ++ rest)
  = Some (mk_head H (match bases with [] => false | _ => alias && custom end) bases hs cls (concat secs), rest).
Proof.
  intros [Hb Hnd] Hf Hc. unfold head_read, head_toks.
  set (tail := (match forms with [] => if hidden then [TNl] else [] | _ => [TNl] end
                ++ TEq :: TStr cls :: match secs with [] => [] | _ => TColon :: str_toks secs end ++ [TNl; TBrOpen]) ++ rest).
  assert (Hloop : forall al bs,
    head_loop None None al bs [] (concat (map helper_toks forms) ++ tail)
    = Some (pn (fst (G forms hs None [])), None, al, bs, snd (G forms hs None []),
            TStr cls :: match secs with [] => [] | _ => TColon :: str_toks secs end ++ [TNl; TBrOpen] ++ rest)).
  { intros al bs. change (@None str) with (pn None) at 1. rewrite (loop_forms forms hs Hf None [] al bs tail I).
    unfold tail. destruct forms; [destruct hidden|]; cbn [app head_loop]; rewrite <- ?app_assoc; reflexivity. }
  destruct (G_all forms hs Hf None []) as [EG HG]. specialize (HG I). cbn [fl app] in EG.
  assert (Hflush : head_flush (pn (fst (G forms hs None []))) None (snd (G forms hs None [])) = Some hs).
  { destruct (fst (G forms hs None [])) as [[n h]|]; cbn [pn option_map fst head_flush fl] in *.
    - destruct HG as [_ [Hs Hh]]. destruct (special_parts n Hs) as [E1 [E2 _]]. rewrite E1, E2, Hh. cbn [orb]. rewrite EG. reflexivity.
    - rewrite app_nil_r in EG. rewrite EG. reflexivity. }
  assert (Hrest : forall al bs,
    match head_loop None None al bs [] (concat (map helper_toks forms) ++ tail) with
    | None => None
    | Some (ht, hc, al0, bs0, hs0, r) =>
        match head_flush ht hc hs0 with
        | None => None
        | Some hs' => match skip_nl r with
                      | TStr c :: r' => match desc_loop None false r' with
                                        | Some (d, r'') => Some (mk_head H al0 bs0 hs' (strip c) d, r'')
                                        | None => None end
                      | _ => None end
        end
    end = Some (mk_head H al bs hs cls (concat secs), rest)).
  { intros al bs. rewrite Hloop, Hflush. cbn [skip_nl]. rewrite desc_written, Hc. reflexivity. }
  assert (Etoks : (match bases with [] => [] | _ => [TStr (if alias && custom then KW_ALIASOF else KW_BASE); TParen (join_cs bases)] end
                   ++ concat (map helper_toks forms) ++ match forms with [] => if hidden then [TNl] else [] | _ => [TNl] end
                   ++ TEq :: TStr cls :: match secs with [] => [] | _ => TColon :: str_toks secs end ++ [TNl; TBrOpen]) ++ rest
                  = match bases with [] => [] | _ => [TStr (if alias && custom then KW_ALIASOF else KW_BASE); TParen (join_cs bases)] end
                    ++ concat (map helper_toks forms) ++ tail).
  { unfold tail. rewrite <- !app_assoc. reflexivity. }
  rewrite Etoks. clear Etoks.
  destruct bases as [|b0 bases'].
  - cbn [app]. apply Hrest.
  - set (bases := b0 :: bases') in *. cbn [app].
    destruct (alias && custom).
    + cbn [head_loop]. unfold set_name. rewrite unknown_aliasof. cbn [head_loop].
      rewrite paren_args_join by exact Hb. rewrite str_eqb_refl. cbn iota.
      change (str_eqb KW_BASE KW_BASE) with true. cbn iota. cbn [orb].
      rewrite (add_bases_nodup bases []) by exact Hnd. cbn [app].
      apply Hrest.
    + cbn [head_loop]. unfold set_name. rewrite known_base. cbn [head_loop].
      rewrite paren_args_join by exact Hb.
      change (str_eqb KW_BASE KW_BASE) with true. cbn iota. cbn [orb].
      rewrite (add_bases_nodup bases []) by exact Hnd. cbn [app].
      apply Hrest.
Qed.
End Proofs.
