(** Proofs about the entity lump: when the writer's template escapes keys, values and the text fields of outputs,
    every list of well-formed entities is read back exactly. *)
From Coq Require Import NArith List Bool PeanoNat Lia.
From SV Require Import Fmt.VmfText Fmt.VmfTextProofs Fmt.BspEntLump.
Import ListNotations.
Open Scope N_scope.

(** * The scanner consumes input *)
Lemma hs_shorter_n : forall n inp acc b s r, (List.length inp <= n)%nat -> hs acc b inp = Some (s, r) ->
  (List.length r < List.length inp)%nat.
Proof.
  induction n as [|n IH]; intros inp acc b s r Hn H.
  - destruct inp; [discriminate | cbn [List.length] in Hn; lia].
  - destruct inp as [|c inp]; [discriminate|]. cbn [List.length] in Hn |- *. cbn [hs] in H.
    destruct (c =? DQ). { injection H as _ <-. lia. }
    destruct (c =? CR). { apply IH in H; [lia|lia]. }
    destruct (c =? LF). { destruct b; apply IH in H; lia. }
    destruct (c =? BS).
    + destruct inp as [|e inp]; [discriminate|]. cbn [List.length] in Hn |- *.
      destruct (e =? LF). { apply IH in H; lia. }
      destruct (lookup e esc_table); apply IH in H; lia.
    + apply IH in H; lia.
Qed.
Lemma scan_shorter : forall inp s r, scan_quoted inp = Some (s, r) -> (List.length r < List.length inp)%nat.
Proof. intros inp s r H. eapply hs_shorter_n; [apply Nat.le_refl | exact H]. Qed.

Lemma skip_ws_le : forall l, (List.length (skip_ws l) <= List.length l)%nat.
Proof. induction l as [|c l IH]; cbn [skip_ws List.length]; [lia|]. destruct (is_ws c); cbn [List.length]; lia. Qed.

Section WithNumbers.
Variable float_ok int_ok : list char -> bool.
Notation loop := (ent_read_loop float_ok int_ok).
Notation wf := (item_wf float_ok int_ok).

(** Any fuel above the length of the input gives the same result. *)
Lemma fuel_irrelevant : forall f inp cur done, (List.length inp < f)%nat ->
  forall f2, (List.length inp < f2)%nat -> loop f inp cur done = loop f2 inp cur done.
Proof.
  induction f as [|f IH]; intros inp cur done H f2 H2; [lia|].
  destruct f2 as [|f2]; [lia|]. cbn [ent_read_loop].
  destruct inp as [|c r]; [reflexivity|]. cbn [List.length] in H, H2.
  destruct (c =? LBRACE). { destruct cur; [reflexivity|]. apply IH; lia. }
  destruct (c =? RBRACE). { destruct cur; [|reflexivity]. apply IH; lia. }
  destruct (is_ws c). { apply IH; lia. }
  destruct (c =? NUL); [reflexivity|].
  destruct (c =? DQ); [|reflexivity].
  destruct (scan_quoted r) as [[k r1]|] eqn:E1; [|reflexivity].
  apply scan_shorter in E1. pose proof (skip_ws_le r1) as L1.
  assert (Body : forall its,
    match skip_ws r1 with
    | q :: r2 => if q =? DQ then match scan_quoted r2 with
                                 | Some (v, r3) => match classify float_ok int_ok k v with
                                                   | Some it => loop f r3 (Some (it :: its)) done | None => None end
                                 | None => None end else None
    | [] => None end =
    match skip_ws r1 with
    | q :: r2 => if q =? DQ then match scan_quoted r2 with
                                 | Some (v, r3) => match classify float_ok int_ok k v with
                                                   | Some it => loop f2 r3 (Some (it :: its)) done | None => None end
                                 | None => None end else None
    | [] => None end).
  { intros its. destruct (skip_ws r1) as [|q r2]; [reflexivity|]. cbn [List.length] in L1.
    destruct (q =? DQ); [|reflexivity]. destruct (scan_quoted r2) as [[v r3]|] eqn:E2; [|reflexivity].
    apply scan_shorter in E2. destruct (classify float_ok int_ok k v); [|reflexivity]. apply IH; lia. }
  destruct k as [|k0 k]; [destruct cur; [apply Body | reflexivity]|].
  destruct k0; [destruct k; [reflexivity | destruct cur; [apply Body | reflexivity]] | destruct k; (destruct cur; [apply Body | reflexivity])].
Qed.

Definition R (inp : list char) cur done := loop (S (List.length inp)) inp cur done.
Lemma to_R : forall f inp cur done, (List.length inp < f)%nat -> loop f inp cur done = R inp cur done.
Proof. intros. unfold R. apply fuel_irrelevant; lia. Qed.

(** * Decoding what the template wrote *)
Lemma hs_render : forall m s acc rest, escaped m = true ->
  hs acc false (render m s ++ rest) = hs (rev s ++ acc) false rest.
Proof. intros m s acc rest H. destruct m; [discriminate | apply hs_escape | apply hs_escape]. Qed.

Definition field_ok (m : emode) (f : list char) : bool := match m with Raw => plain f | _ => true end.
Lemma hs_field : forall m s acc rest, field_ok m s = true ->
  hs acc false (render m s ++ rest) = hs (rev s ++ acc) false rest.
Proof. intros m s acc rest H. destruct m; [apply hs_plain; exact H | apply hs_escape | apply hs_escape]. Qed.

Fixpoint fields_ok (ms : list emode) (fs : list (list char)) : bool :=
  match ms, fs with
  | [], [] => true
  | m :: ms', f :: fs' => field_ok m f && fields_ok ms' fs'
  | _, _ => false
  end.

Lemma hs_join : forall sep, plain_char sep = true -> forall ms fs, fields_ok ms fs = true ->
  forall acc rest, hs acc false (join sep (render_all ms fs) ++ rest) = hs (rev (join sep fs) ++ acc) false rest.
Proof.
  intros sep Hsep. induction ms as [|m ms IH]; intros [|f fs] H acc rest; cbn [fields_ok] in H; try discriminate; [reflexivity|].
  apply andb_prop in H. destruct H as [Hf Hr]. cbn [render_all].
  destruct ms as [|m2 ms]; destruct fs as [|f2 fs]; cbn [fields_ok] in Hr; try discriminate.
  - cbn [render_all join]. apply hs_field. exact Hf.
  - specialize (IH (f2 :: fs) Hr). cbn [render_all] in IH |- *.
    change (join sep (render m f :: render m2 f2 :: render_all ms fs))
      with (render m f ++ sep :: join sep (render m2 f2 :: render_all ms fs)).
    change (join sep (f :: f2 :: fs)) with (f ++ sep :: join sep (f2 :: fs)).
    rewrite <- app_assoc, hs_field by exact Hf. cbn [app]. rewrite plain_char_step by exact Hsep.
    rewrite IH. rewrite rev_app_distr. cbn [rev]. rewrite <- !app_assoc. reflexivity.
Qed.

Lemma scan_field : forall s rest, hs (rev s) false (DQ :: rest) = Some (s, rest).
Proof. intros. cbn [hs]. rewrite N.eqb_refl. rewrite rev_involutive. reflexivity. Qed.

(** * Splitting the value of an output *)
Lemma split_aux_field : forall sep x cur rest, sep_free sep x = true ->
  split_aux sep cur (x ++ rest) = split_aux sep (rev x ++ cur) rest.
Proof.
  intros sep. induction x as [|c x IH]; intros cur rest H; [reflexivity|].
  unfold sep_free, has in H. cbn [existsb] in H. rewrite negb_orb in H. apply andb_prop in H. destruct H as [Hc Hx].
  apply negb_true_iff in Hc. cbn [app split_aux]. rewrite N.eqb_sym in Hc. rewrite Hc.
  rewrite IH by exact Hx. cbn [rev]. rewrite <- app_assoc. reflexivity.
Qed.
Lemma split_join : forall sep fs cur, fs <> [] -> forallb (sep_free sep) fs = true ->
  split_aux sep cur (join sep fs) = match fs with [] => [] | f :: r => (rev cur ++ f) :: r end.
Proof.
  intros sep. induction fs as [|f fs IH]; intros cur Hne H; [congruence|].
  cbn [forallb] in H. apply andb_prop in H. destruct H as [Hf Hr].
  destruct fs as [|f2 fs].
  - cbn [join]. rewrite <- (app_nil_r f) at 1. rewrite split_aux_field by exact Hf. cbn [split_aux].
    rewrite rev_app_distr, rev_involutive. reflexivity.
  - change (join sep (f :: f2 :: fs)) with (f ++ sep :: join sep (f2 :: fs)).
    rewrite split_aux_field by exact Hf. cbn [split_aux]. rewrite N.eqb_refl.
    rewrite (IH [] ltac:(discriminate) Hr). cbn [rev app]. rewrite rev_app_distr, rev_involutive. reflexivity.
Qed.

Lemma has_join_sep : forall sep a b r, has sep (join sep (a :: b :: r)) = true.
Proof.
  intros. change (join sep (a :: b :: r)) with (a ++ sep :: join sep (b :: r)). unfold has.
  rewrite existsb_app. cbn [existsb]. rewrite N.eqb_refl. rewrite orb_true_r. reflexivity.
Qed.
Lemma has_app : forall c a b, has c (a ++ b) = has c a || has c b.
Proof. intros. unfold has. apply existsb_app. Qed.
Lemma count_app : forall c a b, count c (a ++ b) = (count c a + count c b)%nat.
Proof. intros. unfold count. rewrite filter_app, app_length. reflexivity. Qed.
Lemma has_cons : forall c x l, has c (x :: l) = (c =? x) || has c l.
Proof. reflexivity. Qed.
Lemma count_cons : forall c x l, count c (x :: l) = ((if (c =? x)%N then 1 else 0) + count c l)%nat.
Proof. intros. unfold count. cbn [filter]. destruct (c =? x); reflexivity. Qed.
Lemma count_free : forall c a, sep_free c a = true -> count c a = O.
Proof.
  intros c. induction a as [|x a IH]; intros H; [reflexivity|]. unfold sep_free, has in H. cbn [existsb] in H.
  rewrite negb_orb in H. apply andb_prop in H. destruct H as [Hx Ha]. apply negb_true_iff in Hx.
  unfold count. cbn [filter]. rewrite Hx. apply IH. exact Ha.
Qed.
Lemma has_free : forall c a, sep_free c a = true -> has c a = false.
Proof. intros c a H. unfold sep_free in H. apply negb_true_iff in H. exact H. Qed.

(** classification of what an output line decodes to *)
Lemma classify_out : forall sep n t i p d m, (sep = ESC \/ sep = COMMA) -> wf sep (IOut n [t; i; p; d; m]) = true ->
  classify float_ok int_ok n (join sep [t; i; p; d; m]) = Some (IOut n [t; i; p; d; m]).
Proof.
  intros sep n t i p d m Hsep H. cbn [item_wf] in H.
  apply andb_prop in H. destruct H as [H Hnn]. apply andb_prop in H. destruct H as [H Him].
  apply andb_prop in H. destruct H as [H Hfd]. apply andb_prop in H. destruct H as [H Hpm].
  apply andb_prop in H. destruct H as [H Hpd]. apply andb_prop in H. destruct H as [Hs He].
  unfold classify. destruct Hsep as [-> | ->].
  - rewrite has_join_sep. unfold split. rewrite split_join by (discriminate || exact Hs). cbn [rev app].
    rewrite Hfd, Him. reflexivity.
  - cbn [forallb] in He, Hs.
    apply andb_prop in He. destruct He as [E1 He]. apply andb_prop in He. destruct He as [E2 He].
    apply andb_prop in He. destruct He as [E3 He]. apply andb_prop in He. destruct He as [E4 He].
    apply andb_prop in He. destruct He as [E5 _].
    assert (Hs' := Hs).
    apply andb_prop in Hs. destruct Hs as [C1 Hs]. apply andb_prop in Hs. destruct Hs as [C2 Hs].
    apply andb_prop in Hs. destruct Hs as [C3 Hs]. apply andb_prop in Hs. destruct Hs as [C4 Hs].
    apply andb_prop in Hs. destruct Hs as [C5 _].
    assert (E : has ESC (join COMMA [t; i; p; d; m]) = false).
    { cbn [join]. repeat (rewrite has_app || rewrite has_cons).
      rewrite !has_free by assumption. reflexivity. }
    rewrite E.
    assert (C : count COMMA (join COMMA [t; i; p; d; m]) = 4%nat).
    { cbn [join]. repeat (rewrite count_app || rewrite count_cons).
      rewrite !count_free by assumption. reflexivity. }
    rewrite C. cbn [Nat.eqb]. unfold split. rewrite split_join by (discriminate || (cbn [forallb]; exact Hs')). cbn [rev app].
    rewrite Hfd, Him. reflexivity.
Qed.
End WithNumbers.

Section Roundtrip.
Variable float_ok int_ok : list char -> bool.
Notation loop := (ent_read_loop float_ok int_ok).
Notation wf := (item_wf float_ok int_ok).
Notation RR := (R float_ok int_ok).

Lemma loop_lf : forall f r cur done, loop (S f) (LF :: r) cur done = loop f r cur done.
Proof. reflexivity. Qed.
Lemma loop_lbrace : forall f r done, loop (S f) (LBRACE :: r) None done = loop f r (Some []) done.
Proof. reflexivity. Qed.
Lemma loop_rbrace : forall f r its done, loop (S f) (RBRACE :: r) (Some its) done = loop f r None (rev its :: done).
Proof. reflexivity. Qed.
Lemma skip_sp_dq : forall r, skip_ws (SP :: DQ :: r) = DQ :: r.
Proof. reflexivity. Qed.

Definition not_nul (k : list char) : bool := negb (match k with [0] => true | _ => false end).

Lemma loop_dq : forall f r k r1 v r3 it its done, scan_quoted r = Some (k, SP :: DQ :: r1) -> not_nul k = true ->
  scan_quoted r1 = Some (v, r3) -> classify float_ok int_ok k v = Some it ->
  loop (S f) (DQ :: r) (Some its) done = loop f r3 (Some (it :: its)) done.
Proof.
  intros f r k r1 v r3 it its done Hk Hn Hv Hc. cbn [ent_read_loop].
  change (DQ =? LBRACE) with false. change (DQ =? RBRACE) with false. change (is_ws DQ) with false.
  change (DQ =? NUL) with false. change (DQ =? DQ) with true. cbn iota. rewrite Hk.
  assert (Go : match skip_ws (SP :: DQ :: r1) with
               | q :: r2 => if q =? DQ then match scan_quoted r2 with
                                            | Some (v, r3) => match classify float_ok int_ok k v with
                                                              | Some it => loop f r3 (Some (it :: its)) done | None => None end
                                            | None => None end else None
               | [] => None end = loop f r3 (Some (it :: its)) done).
  { rewrite skip_sp_dq. change (DQ =? DQ) with true. cbn iota. rewrite Hv, Hc. reflexivity. }
  unfold not_nul in Hn. apply negb_true_iff in Hn.
  destruct k as [|k0 k]; [exact Go|]. destruct k0; [destruct k; [discriminate | exact Go] | destruct k; exact Go].
Qed.

Lemma line_app : forall k v rest, line k v ++ rest = DQ :: (k ++ DQ :: SP :: DQ :: (v ++ DQ :: LF :: rest)).
Proof. intros. unfold line. cbn [app]. rewrite <- !app_assoc. cbn [app]. rewrite <- !app_assoc. reflexivity. Qed.

Lemma read_line : forall k' v' k v it its done rest,
  (forall rest', scan_quoted (k' ++ DQ :: rest') = Some (k, rest')) ->
  (forall rest', scan_quoted (v' ++ DQ :: rest') = Some (v, rest')) ->
  not_nul k = true -> classify float_ok int_ok k v = Some it ->
  RR (line k' v' ++ rest) (Some its) done = RR rest (Some (it :: its)) done.
Proof.
  intros k' v' k v it its done rest Hk Hv Hn Hc. rewrite line_app. unfold R at 1. cbn [List.length].
  rewrite (loop_dq _ _ k _ v (LF :: rest) it its done (Hk _) Hn (Hv _) Hc).
  rewrite to_R by (rewrite !app_length; cbn [List.length]; rewrite !app_length; cbn [List.length]; lia).
  unfold R at 1. cbn [List.length]. rewrite loop_lf. apply to_R. lia.
Qed.

Lemma scan_rendered : forall m s rest, escaped m = true -> scan_quoted (render m s ++ DQ :: rest) = Some (s, rest).
Proof.
  intros m s rest H. unfold scan_quoted. rewrite hs_render by exact H. rewrite app_nil_r. apply scan_field.
Qed.

Lemma read_item : forall c sep it its done rest, entcfg_ok c = true -> (sep = ESC \/ sep = COMMA) -> wf sep it = true ->
  RR (write_item c sep it ++ rest) (Some its) done = RR rest (Some (it :: its)) done.
Proof.
  intros [[[km vm] nm] fms] sep it its done rest Hc Hsep Hwf. unfold entcfg_ok in Hc.
  apply andb_prop in Hc. destruct Hc as [Hc Ho]. apply andb_prop in Hc. destruct Hc as [Hkm Hvm].
  cbn [entcfg_key_escaped] in Hkm. cbn [entcfg_value_escaped] in Hvm. cbn [entcfg_output_ok] in Ho.
  apply andb_prop in Ho. destruct Ho as [Hnm Hf].
  destruct it as [k v | n fs]; cbn [write_item].
  - cbn [item_wf] in Hwf. apply andb_prop in Hwf. destruct Hwf as [Hwf Hn]. apply andb_prop in Hwf. destruct Hwf as [He Hcm].
    apply (read_line (render km k) (render vm v) k v).
    + intros. apply scan_rendered. exact Hkm.
    + intros. apply scan_rendered. exact Hvm.
    + exact Hn.
    + unfold classify. apply negb_true_iff in He. rewrite He. apply negb_true_iff in Hcm. rewrite Hcm. reflexivity.
  - destruct fms as [|tm [|im [|pm [|dm [|mm [|]]]]]]; try discriminate.
    apply andb_prop in Hf. destruct Hf as [Hf Hmm]. apply andb_prop in Hf. destruct Hf as [Hf Hdm].
    apply andb_prop in Hf. destruct Hf as [Hf Hpm]. apply andb_prop in Hf. destruct Hf as [Htm Him].
    destruct dm; try discriminate. destruct mm; try discriminate.
    destruct fs as [|t [|i [|p [|d [|m [|]]]]]]; try discriminate.
    assert (Hwf' := Hwf). cbn [item_wf] in Hwf.
    apply andb_prop in Hwf. destruct Hwf as [Hwf Hnn]. apply andb_prop in Hwf. destruct Hwf as [Hwf _].
    apply andb_prop in Hwf. destruct Hwf as [Hwf _]. apply andb_prop in Hwf. destruct Hwf as [Hwf Hplm].
    apply andb_prop in Hwf. destruct Hwf as [_ Hpld].
    apply (read_line (render nm n) (join sep (render_all [tm; im; pm; Raw; Raw] [t; i; p; d; m])) n (join sep [t; i; p; d; m])).
    + intros. apply scan_rendered. exact Hnm.
    + intros. unfold scan_quoted. rewrite hs_join.
      * rewrite app_nil_r. apply scan_field.
      * destruct Hsep as [-> | ->]; reflexivity.
      * cbn [fields_ok field_ok]. rewrite Hpld, Hplm.
        destruct tm; try discriminate; destruct im; try discriminate; destruct pm; try discriminate; reflexivity.
    + exact Hnn.
    + apply classify_out; assumption.
Qed.

Lemma read_items : forall c sep its acc done rest, entcfg_ok c = true -> (sep = ESC \/ sep = COMMA) ->
  forallb (wf sep) its = true ->
  RR (flat_map (write_item c sep) its ++ rest) (Some acc) done = RR rest (Some (rev its ++ acc)) done.
Proof.
  intros c sep. induction its as [|it its IH]; intros acc done rest Hc Hsep H; [reflexivity|].
  cbn [forallb] in H. apply andb_prop in H. destruct H as [Hi Hr].
  cbn [flat_map]. rewrite <- app_assoc. rewrite read_item by assumption. rewrite IH by assumption.
  cbn [rev]. rewrite <- app_assoc. reflexivity.
Qed.

Lemma read_ent : forall c sep its done rest, entcfg_ok c = true -> (sep = ESC \/ sep = COMMA) ->
  forallb (wf sep) its = true ->
  RR (write_ent c sep its ++ rest) None done = RR rest None (its :: done).
Proof.
  intros c sep its done rest Hc Hsep H. unfold write_ent. rewrite <- !app_assoc. cbn [app].
  unfold R at 1. cbn [List.length]. rewrite loop_lbrace, loop_lf. rewrite to_R by lia.
  rewrite read_items by assumption. rewrite app_nil_r.
  unfold R at 1. cbn [app List.length]. rewrite loop_rbrace, loop_lf. rewrite rev_involutive. apply to_R. lia.
Qed.

Lemma read_ents : forall c sep ents done, entcfg_ok c = true -> (sep = ESC \/ sep = COMMA) ->
  forallb (forallb (wf sep)) ents = true ->
  RR (flat_map (write_ent c sep) ents ++ [NUL]) None done = Some (rev done ++ ents).
Proof.
  intros c sep. induction ents as [|e ents IH]; intros done Hc Hsep H.
  - cbn [flat_map app]. rewrite app_nil_r. reflexivity.
  - cbn [forallb] in H. apply andb_prop in H. destruct H as [He Hr].
    cbn [flat_map]. rewrite <- app_assoc. rewrite read_ent by assumption. rewrite IH by assumption.
    cbn [rev]. rewrite <- app_assoc. reflexivity.
Qed.

(** The entity lump as a whole. *)
Theorem ent_lump_roundtrip : forall c sep ents, entcfg_ok c = true -> (sep = ESC \/ sep = COMMA) ->
  forallb (forallb (wf sep)) ents = true ->
  ent_read float_ok int_ok (write_ents c sep ents) = Some ents.
Proof.
  intros c sep ents Hc Hsep H. unfold ent_read, write_ents. fold (RR (flat_map (write_ent c sep) ents ++ [NUL]) None []).
  rewrite read_ents by assumption. reflexivity.
Qed.
End Roundtrip.

(** A key written verbatim (the pinned tree) is not read back: a quote ends the key early, backslash-n becomes a
    line feed. *)
Definition ok_all (_ : list char) := true.
Theorem ent_raw_key_refuted :
  ent_read ok_all ok_all (write_ents (Raw, EscML, EscS, [EscS; EscS; EscML; Raw; Raw]) ESC [[IKV [97; 34; 98] [120]]]) = None /\
  ent_read ok_all ok_all (write_ents (Raw, EscML, EscS, [EscS; EscS; EscML; Raw; Raw]) ESC [[IKV [97; 92; 110; 98] [120]]])
    = Some [[IKV [97; 10; 98] [120]]].
Proof. vm_compute. split; reflexivity. Qed.
(** Not values of the format (hypotheses of the theorem are necessary): a comma inside a field of a comma-separated
    output turns the line into a plain keyvalue; a plain value with exactly four commas and numeric tails is read as an output. *)
Example ent_comma_in_param_is_not_an_output :
  ent_read ok_all ok_all (write_ents (EscS, EscML, EscS, [EscS; EscS; EscML; Raw; Raw]) COMMA [[IOut [79] [[116]; [105]; [112; 44; 113]; [49]; [49]]]])
  = Some [[IKV [79] [116; 44; 105; 44; 112; 44; 113; 44; 49; 44; 49]]].
Proof. vm_compute. reflexivity. Qed.
