(** C16 — the keyword that opens an entity definition (`@PointClass`, `@BaseClass`, ...) and the top-level dispatch of
    FGD.parse_file.

    Writer (EntityDef.export): '@' + type.value.title().replace("class", "Class").
    Reader (FGD.parse_file): the STRING token is casefolded, compared with the directive keywords in program order
    (@include, @mapsize, @materialexclusion, @autovisgroup, @snippet), and every other token that starts with '@' is looked up
    in EntityTypes by the text after the '@'.

    translate/c16_fgd.py reads the directive literals in order, the normalisation of the token, the final look-up and the writer's
    chain of str methods off the source; the kinds are the members of EntityTypes.  The domain is finite (8 kinds), so the round
    trip of every kind is one boolean over the generated objects. *)
From Coq Require Import List NArith Arith Bool.
From SV Require Import Fmt.FgdLine.
Import ListNotations.
Open Scope N_scope.

Definition is_lower (c : N) : bool := (97 <=? c) && (c <=? 122).
Definition is_upper (c : N) : bool := (65 <=? c) && (c <=? 90).
Definition up (c : N) : N := if is_lower c then c - 32 else c.
Definition low (c : N) : N := if is_upper c then c + 32 else c.
(** str.title() on ASCII: the first letter of every run of letters in upper case, the other letters in lower case *)
Fixpoint title_aux (in_word : bool) (s : str) : str :=
  match s with
  | [] => []
  | c :: r => if is_lower c || is_upper c then (if in_word then low c else up c) :: title_aux true r else c :: title_aux false r
  end.
Definition title (s : str) : str := title_aux false s.
(** str.replace(a, b), leftmost non-overlapping occurrences ([a] non-empty) *)
Fixpoint replace_fuel (fuel : nat) (a b s : str) : str :=
  match fuel with
  | O => s
  | S f => match s with
           | [] => []
           | c :: r => match prefix a s with
                       | Some rest => match a with [] => s | _ => b ++ replace_fuel f a b rest end
                       | None => c :: replace_fuel f a b r
                       end
           end
  end.
Definition replace (a b s : str) : str := replace_fuel (S (length s)) a b s.

Inductive wop := WTitle | WReplace (a b : str) | WLower | WUpper.
Definition wapply (o : wop) (s : str) : str :=
  match o with WTitle => title s | WReplace a b => replace a b s | WLower => lower s | WUpper => map up s end.
Definition AT : N := 64.
(** what the writer puts in front of the definition for the kind with value [v] *)
Definition kind_written (ops : list wop) (v : str) : str := AT :: fold_left (fun s o => wapply o s) ops v.

Inductive kw := KDirective (d : str) | KKind (v : str) | KError.
Definition kw_eqb (a b : kw) : bool :=
  match a, b with KDirective x, KDirective y | KKind x, KKind y => str_eqb x y | KError, KError => true | _, _ => false end.
(** FGD.parse_file on a top-level STRING token; [folded]: the token is casefolded before it is compared and looked up *)
Definition kw_dispatch (folded : bool) (directives kinds : list str) (tok : str) : kw :=
  let t := if folded then lower tok else tok in
  if existsb (str_eqb t) directives then KDirective t
  else match t with
       | c :: r => if c =? AT then (if existsb (str_eqb r) kinds then KKind r else KError) else KError
       | [] => KError
       end.

(** every kind's keyword, as written, is read back as that kind *)
Definition kinds_read_back (folded : bool) (directives kinds : list str) (ops : list wop) : bool :=
  forallb (fun v => kw_eqb (kw_dispatch folded directives kinds (kind_written ops v)) (KKind v)) kinds.
