(* VmtBlocksProofs.v -- proofs for Fmt/VmtBlocks.v (C20, round 5). *)
From Coq Require Import List NArith Bool Lia.
From SV Require Import KV.KvBase KV.KvLex KV.KvSym KV.KvLexProofs Fmt.TextFields Fmt.TextFieldsProofs Fmt.TextLines Fmt.TextLinesProofs Fmt.VmtQuote
  Fmt.VmtQuoteProofs Fmt.VmtBlocks.
Import ListNotations.
Open Scope N_scope.

(** induction over keyvalues trees with the children as a [Forall] *)
Fixpoint kvt_rect' (P : kvt -> Prop) (Hl : forall n v, P (KLeaf n v)) (Hn : forall n cs, Forall P cs -> P (KNode n cs)) (t : kvt) : P t :=
  match t with
  | KLeaf n v => Hl n v
  | KNode n cs => Hn n cs ((fix go (l : list kvt) : Forall P l :=
                              match l with [] => Forall_nil P | x :: r => Forall_cons x (kvt_rect' P Hl Hn x) (go r) end) cs)
  end.

Lemma ws_only_app a b : ws_only a = true -> ws_only b = true -> ws_only (a ++ b) = true.
Proof. unfold ws_only. intros Ha Hb. rewrite forallb_app, Ha, Hb. reflexivity. Qed.

Lemma bcfg_okb_split c : bcfg_okb c = true ->
  items_ok (b_open c) = true /\ items_ok (b_close c) = true /\ items_ok (b_leaf c) = true /\ items_ok (b_prox_open c) = true /\
  items_ok (b_prox_close c) = true /\ ws_only (b_step c) = true /\ ws_only (b_top c) = true /\ ws_only (b_prox_ind c) = true /\
  vals_ok (b_close c) [] = true /\ vals_ok (b_prox_open c) [] = true /\ vals_ok (b_prox_close c) [] = true.
Proof. unfold bcfg_okb. rewrite !andb_true_iff. tauto. Qed.

Section Proofs.
Variable E : escfg.
Variable c : bcfg.
Hypothesis HE : esc_ok E = true.
Hypothesis Hc : bcfg_okb c = true.

(** one block, at any indent and line: what _write_block writes is lexed as exactly the tokens of its templates, children included *)
Lemma block_lexes : forall t ind l, ws_only ind = true -> tree_ok c t = true ->
  exists l', lexes E l (write_block E c ind t) (block_toks c t) l'.
Proof.
  destruct (bcfg_okb_split c Hc) as (Ho & Hcl & Hlf & _ & _ & Hst & _ & _ & Hvc & _ & _).
  induction t as [n v | n cs IH] using kvt_rect'; intros ind l Hind Hok.
  - cbn [write_block block_toks tree_ok] in *. eexists. apply items_lex; assumption.
  - cbn [write_block block_toks tree_ok] in *. apply andb_true_iff in Hok as [Hok Hcv]. apply andb_true_iff in Hok as [Hov Hcs].
    assert (Hkids : forall l1, exists l2, lexes E l1 (flat_map (write_block E c (ind ++ b_step c)) cs) (flat_map (block_toks c) cs) l2).
    { clear Hov Hcv. induction cs as [|x r IHr]; intros l1.
      - exists l1. apply lexes_nil.
      - cbn [forallb] in Hcs. apply andb_true_iff in Hcs as [Hx Hr]. inversion IH as [|? ? IHx IHrest]; subst.
        destruct (IHx (ind ++ b_step c) l1 (ws_only_app _ _ Hind Hst) Hx) as (la & Ha).
        destruct (IHr IHrest Hr la) as (lb & Hb). exists lb. cbn [flat_map]. eapply lexes_app; eassumption. }
    destruct (Hkids (lines (b_open c) l)) as (l2 & Hk).
    eexists. eapply lexes_app; [apply items_lex; assumption|]. eapply lexes_app; [exact Hk|]. apply items_lex; assumption.
Qed.

Lemma blocks_lexes : forall ts ind l, ws_only ind = true -> forallb (tree_ok c) ts = true ->
  exists l', lexes E l (blocks_text E c ind ts) (flat_map (block_toks c) ts) l'.
Proof.
  induction ts as [|x r IH]; intros ind l Hind Hok.
  - exists l. apply lexes_nil.
  - cbn [forallb] in Hok. apply andb_true_iff in Hok as [Hx Hr]. destruct (block_lexes x ind l Hind Hx) as (la & Ha).
    destruct (IH ind la Hind Hr) as (lb & Hb). exists lb. unfold blocks_text. cbn [flat_map]. eapply lexes_app; eassumption.
Qed.

Lemma proxies_lexes : forall ps l, forallb (tree_ok c) ps = true -> exists l', lexes E l (proxies_text E c ps) (proxies_toks c ps) l'.
Proof.
  destruct (bcfg_okb_split c Hc) as (_ & _ & _ & Hpo & Hpc & _ & _ & Hpi & _ & Hvo & Hvc).
  intros [|p ps] l Hok.
  - exists l. apply lexes_nil.
  - unfold proxies_text, proxies_toks. destruct (blocks_lexes (p :: ps) (b_prox_ind c) (lines (b_prox_open c) l) Hpi Hok) as (l2 & H2).
    eexists. eapply lexes_app; [apply items_lex; try assumption; reflexivity|]. eapply lexes_app; [exact H2|].
    apply items_lex; try assumption; reflexivity.
Qed.

(** the whole file of a material with parameters, sub-blocks and proxies: read without error as exactly shader / { / the parameter
    pairs / the tokens of the blocks / the Proxies frame with its blocks / } *)
Theorem vmt_file_b_reads_back : forall q shader ps blocks proxies, nq_okb q = true -> shader_ok shader = true -> params_ok q ps = true ->
  forallb (tree_ok c) blocks = true -> forallb (tree_ok c) proxies = true ->
  lex_all E (vmt_file_b E c q shader ps blocks proxies) = (vmt_tokens_b c shader ps blocks proxies, None).
Proof.
  destruct (bcfg_okb_split c Hc) as (_ & _ & _ & _ & _ & _ & Htop & _).
  intros q shader ps blocks proxies Hq Hs Hps Hb Hp.
  destruct (blocks_lexes blocks (b_top c) (3 + N.of_nat (length ps)) Htop Hb) as (l1 & H1).
  destruct (proxies_lexes proxies l1 Hp) as (l2 & H2).
  apply lexes_all with (l' := l2 + 1). unfold vmt_file_b, vmt_tokens_b.
  change (shader ++ [LF; TAB; 123; LF] ++ params_text q ps ++ blocks_text E c (b_top c) blocks ++ proxies_text E c proxies ++ [TAB; 125; LF])
    with (shader ++ [LF] ++ [TAB] ++ [123] ++ [LF] ++ params_text q ps ++ blocks_text E c (b_top c) blocks ++ proxies_text E c proxies ++ [TAB] ++ [125] ++ [LF]).
  rewrite (app_assoc shader [LF]).
  change ([TStr shader; TNL; TBO; TNL] ++ param_tokens ps ++ flat_map (block_toks c) blocks ++ proxies_toks c proxies ++ [TBC; TNL])
    with ([TStr shader; TNL] ++ [] ++ [TBO] ++ [TNL] ++ param_tokens ps ++ flat_map (block_toks c) blocks ++ proxies_toks c proxies ++ [] ++ [TBC] ++ [TNL]).
  apply lexes_app with (l1 := 2); [apply shader_line; exact Hs|].
  apply lexes_app with (l1 := 2); [apply lexes_ws1; reflexivity|].
  apply lexes_app with (l1 := 2); [apply lexes_bo|].
  apply lexes_app with (l1 := 3); [apply (lexes_lf E 2)|].
  apply lexes_app with (l1 := 3 + N.of_nat (length ps)); [apply params_read_back; try assumption; lia|].
  apply lexes_app with (l1 := l1); [exact H1|].
  apply lexes_app with (l1 := l2); [exact H2|].
  apply lexes_app with (l1 := l2); [apply lexes_ws1; reflexivity|].
  apply lexes_app with (l1 := l2); [apply lexes_bc|].
  apply lexes_lf.
Qed.
End Proofs.

(** * The shape of the tokens: layout items produce none *)
Lemma toks_strip : forall its vs, toks its vs = toks (strip its) vs.
Proof.
  induction its as [|i r IH]; intros vs; [reflexivity|].
  destruct i; cbn [strip filter is_layout negb toks]; fold (strip r); try (rewrite IH; reflexivity);
    destruct vs; try reflexivity; rewrite IH; reflexivity.
Qed.

Ltac next_item H its :=
  let i := fresh "i" in let r := fresh "r" in
  destruct its as [|i r]; [discriminate H|]; destruct i; try discriminate H.

Lemma open_shape_toks its n : open_shape its = true -> toks its [n] = [TStr n; TNL; TBO; TNL].
Proof.
  intros H. rewrite toks_strip. unfold open_shape in H. destruct (strip its) as [|i1 r1]; [discriminate|]. destruct i1; try discriminate.
  destruct r1 as [|i2 r2]; [discriminate|]. destruct i2; try discriminate. destruct r2 as [|i3 r3]; [discriminate|]. destruct i3; try discriminate.
  destruct r3 as [|i4 r4]; [discriminate|]. destruct i4; try discriminate. destruct r4; [reflexivity|discriminate].
Qed.
Lemma close_shape_toks its : close_shape its = true -> toks its [] = [TBC; TNL].
Proof.
  intros H. rewrite toks_strip. unfold close_shape in H. destruct (strip its) as [|i1 r1]; [discriminate|]. destruct i1; try discriminate.
  destruct r1 as [|i2 r2]; [discriminate|]. destruct i2; try discriminate. destruct r2; [reflexivity|discriminate].
Qed.
Lemma leaf_shape_toks its n v : leaf_shape its = true -> toks its [n; v] = [TStr n; TStr v; TNL].
Proof.
  intros H. rewrite toks_strip. unfold leaf_shape in H. destruct (strip its) as [|i1 r1]; [discriminate|]. destruct i1; try discriminate.
  destruct r1 as [|i2 r2]; [discriminate|]. destruct i2; try discriminate. destruct r2 as [|i3 r3]; [discriminate|]. destruct i3; try discriminate.
  destruct r3; [reflexivity|discriminate].
Qed.
Lemma prox_word_toks its w : prox_word its = Some w -> toks its [] = [TNL; TStr w; TNL; TBO; TNL].
Proof.
  intros H. rewrite toks_strip. unfold prox_word in H. destruct (strip its) as [|i1 r1]; [discriminate|]. destruct i1; try discriminate.
  destruct r1 as [|i2 r2]; [discriminate|]. destruct i2; try discriminate. destruct r2 as [|i3 r3]; [discriminate|]. destruct i3; try discriminate.
  destruct r3 as [|i4 r4]; [discriminate|]. destruct i4; try discriminate. destruct r4; [|discriminate].
  destruct (d =? LF) eqn:Hd; [|discriminate]. injection H as <-. apply N.eqb_eq in Hd. subst d. reflexivity.
Qed.

Lemma flat_map_Forall_ext {A B} (f g : A -> list B) l : Forall (fun x => f x = g x) l -> flat_map f l = flat_map g l.
Proof. induction 1 as [|x r Hx _ IH]; [reflexivity|]. cbn [flat_map]. now rewrite Hx, IH. Qed.

(** for a configuration of the expected shape the written tokens are the canonical token stream of the tree *)
Theorem block_toks_canonical c : bcfg_shape_okb c = true -> forall t, block_toks c t = kv_toks t.
Proof.
  unfold bcfg_shape_okb. rewrite !andb_true_iff. intros ((((Ho & Hcl) & Hlf) & _) & _).
  induction t as [n v | n cs IH] using kvt_rect'; cbn [block_toks kv_toks].
  - apply leaf_shape_toks; assumption.
  - rewrite (open_shape_toks _ n Ho), (close_shape_toks _ Hcl), (flat_map_Forall_ext _ _ _ IH). reflexivity.
Qed.

Theorem proxies_toks_canonical c : bcfg_shape_okb c = true -> exists w, prox_word (b_prox_open c) = Some w /\
  forall ps, proxies_toks c ps = match ps with [] => [] | _ => [TNL; TStr w; TNL; TBO; TNL] ++ flat_map kv_toks ps ++ [TBC; TNL] end.
Proof.
  intros H. pose proof (block_toks_canonical c H) as Hb. unfold bcfg_shape_okb in H. rewrite !andb_true_iff in H.
  destruct H as ((((_ & _) & _) & Hpc) & Hw). destruct (prox_word (b_prox_open c)) as [w|] eqn:Hpw; [|discriminate].
  exists w. split; [reflexivity|]. intros [|p ps]; [reflexivity|]. unfold proxies_toks.
  rewrite (prox_word_toks _ w Hpw), (close_shape_toks _ Hpc). f_equal. f_equal. apply flat_map_Forall_ext. apply Forall_forall. intros x _. apply Hb.
Qed.

(** * The reader's side at token level: a recursive-descent reader gives the trees back *)
Definition reads (ts : list tok) (res : list kvt) (r : list tok) : Prop :=
  exists f0, forall f, (f0 <= f)%nat -> read_blocks f ts = Some (res, r).

Lemma reads_close st : reads ([TBC; TNL] ++ st) [] st.
Proof. exists 1%nat. intros [|f] Hf; [lia|]. reflexivity. Qed.

Lemma reads_tree : forall t st sibs r, reads st sibs r -> reads (kv_toks t ++ st) (t :: sibs) r.
Proof.
  induction t as [n v | n cs IH] using kvt_rect'; intros st sibs r (f0 & H0).
  - exists (S f0). intros [|f] Hf; [lia|]. cbn [kv_toks app read_blocks]. rewrite H0 by lia. reflexivity.
  - assert (Hk : reads (flat_map kv_toks cs ++ [TBC; TNL] ++ st) cs st).
    { clear H0. induction cs as [|x rest IHr].
      - apply reads_close.
      - inversion IH as [|? ? IHx IHrest]; subst. cbn [flat_map]. rewrite <- app_assoc. apply IHx. apply IHr. exact IHrest. }
    destruct Hk as (f1 & H1). exists (S (Nat.max f0 f1)). intros [|f] Hf; [lia|].
    cbn [kv_toks]. rewrite <- !app_assoc. cbn [app read_blocks]. rewrite H1 by lia. rewrite H0 by lia. reflexivity.
Qed.

(** a list of blocks up to its closing brace: exactly the trees, and what follows the brace is left *)
Theorem read_blocks_kv : forall ts st, reads (flat_map kv_toks ts ++ [TBC; TNL] ++ st) ts st.
Proof.
  induction ts as [|x r IH]; intros st.
  - apply reads_close.
  - cbn [flat_map]. rewrite <- app_assoc. apply reads_tree. apply IH.
Qed.

(** hence the tokens determine the trees *)
Corollary kv_toks_determine_blocks : forall ts1 ts2 st, flat_map kv_toks ts1 ++ [TBC; TNL] ++ st = flat_map kv_toks ts2 ++ [TBC; TNL] ++ st -> ts1 = ts2.
Proof.
  intros ts1 ts2 st Heq. destruct (read_blocks_kv ts1 st) as (f1 & H1). destruct (read_blocks_kv ts2 st) as (f2 & H2).
  specialize (H1 (Nat.max f1 f2) ltac:(lia)). specialize (H2 (Nat.max f1 f2) ltac:(lia)). rewrite Heq in H1. rewrite H1 in H2. now injection H2.
Qed.

(** * Non-vacuity and refuted variants *)
Example ref_bcfg_ok : bcfg_okb ref_bcfg = true /\ bcfg_shape_okb ref_bcfg = true.
Proof. split; reflexivity. Qed.
Definition ex_tree : kvt := KNode [97] [KLeaf [98] [99; 92; 100]; KNode [101] []].
Example ex_block_text :
  write_block ex_escfg ref_bcfg [9] ex_tree
  = [9; 34; 97; 34; 10; 9; 9; 123; 10;  9; 9; 34; 98; 34; 32; 34; 99; 92; 100; 34; 10;  9; 9; 34; 101; 34; 10; 9; 9; 9; 123; 10; 9; 9; 9; 125; 10;  9; 9; 125; 10].
Proof. reflexivity. Qed.
(** a leaf template that forgets the quotes around the value: not of the shape (a value with a space would be split) *)
Example leaf_without_quotes_refuted :
  bcfg_shape_okb (mkB (b_open ref_bcfg) (b_close ref_bcfg) [IInd; IQRaw; IWs [32]; IBare 10] [9] [9] (b_prox_open ref_bcfg) (b_prox_close ref_bcfg) [9; 9]) = false.
Proof. reflexivity. Qed.
(** a close template without the brace: the configuration is rejected, and the tokens of a block with children no longer close *)
Example close_without_brace_refuted :
  bcfg_shape_okb (mkB (b_open ref_bcfg) [IInd; INl] (b_leaf ref_bcfg) [9] [9] (b_prox_open ref_bcfg) (b_prox_close ref_bcfg) [9; 9]) = false.
Proof. reflexivity. Qed.
