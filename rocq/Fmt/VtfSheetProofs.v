(** C15 — the particle-sheet resource: [read_sheet] reads back what [make_sheet] wrote (Fmt/VtfContainer.v),
    for both sheet versions, any number of sequences and frames. *)
From Coq Require Import NArith ZArith List Bool String Arith Lia.
From SV Require Import Bin.LE Bin.Struct Bin.StructProofs Fmt.VtfContainer Fmt.VtfContainerProofs Fmt.VtfWholeFile Fmt.VtfWholeFileProofs.
Import ListNotations.
Local Open Scope nat_scope.

Lemma read_tex_at : forall S t tb p q file off, wf_fmt (s_tex S) = true -> tex_fits S t = true -> pack_tex S t = Some tb ->
  file = p ++ tb ++ q -> off = List.length p -> read_tex S file off = Some t.
Proof.
  intros S t tb p q file off Hw Hf Hp Hfile Hoff. unfold read_tex.
  rewrite (read_at_packed _ _ _ p q file off Hw Hf Hp Hfile Hoff). cbn [option_map]. rewrite map_map. cbn [getF]. rewrite map_id. reflexivity.
Qed.

Lemma pack_tex_length : forall S t tb, pack_tex S t = Some tb -> List.length tb = calcsize (s_tex S).
Proof. intros S t tb H. apply (pack_length _ _ _ H). Qed.

Section Sheet.
Variable S : sfmts.
Hypothesis Wh : wf_fmt (s_head S) = true.
Hypothesis Wq : wf_fmt (s_seq S) = true.
Hypothesis Wd : wf_fmt (s_dur S) = true.
Hypothesis Wt : wf_fmt (s_tex S) = true.

(** one frame *)
Lemma frame_read_back : forall ver f fb pre post, (ver = 0 \/ ver = 1)%Z -> frame_fits S ver f = true ->
  sheet_frame_bytes S ver f = Some fb ->
  forall k,
  read_frames S ver (pre ++ fb ++ post) (List.length pre) (Datatypes.S k)
  = match read_frames S ver (pre ++ fb ++ post) (List.length pre + List.length fb) k with
    | Some (r, o') => Some (canon_frame ver f :: r, o')
    | None => None
    end.
Proof.
  intros ver f fb pre post Hver Hf Hb k.
  unfold frame_fits in Hf. apply andb_prop in Hf. destruct Hf as [Hf Hlen]. apply andb_prop in Hf. destruct Hf as [Hfd Hft].
  unfold sheet_frame_bytes in Hb. apply opt_app_Some in Hb. destruct Hb as (db & tb & Ed & Et & ->).
  pose proof (pack_length _ _ _ Ed) as Ld.
  cbn [read_frames].
  rewrite (read_at_packed _ _ _ pre (tb ++ post) _ _ Wd Hfd Ed) by (rewrite <- ?app_assoc; reflexivity).
  destruct Hver as [-> | ->].
  - (* version 0: one coordinate *)
    cbn [Z.eqb] in *. destruct f as [dur [|a cs]]; cbn [sf_coords sf_duration List.length Nat.leb] in *; [discriminate|].
    cbn [firstn map] in Et. apply opt_concat_cons in Et. destruct Et as (ab & r0 & Ea & Er & ->). inversion Er; subst r0. rewrite app_nil_r.
    cbn [forallb] in Hft. apply andb_prop in Hft. destruct Hft as [Hfa _].
    pose proof (pack_tex_length _ _ _ Ea) as La.
    rewrite (read_tex_at S a ab (pre ++ db) post _ _ Wt Hfa Ea) by (rewrite <- ?app_assoc; try reflexivity; rewrite app_length, Ld; reflexivity).
    replace (List.length pre + calcsize (s_dur S) + calcsize (s_tex S)) with (List.length pre + List.length (db ++ ab))
      by (rewrite app_length, Ld, La; lia).
    unfold canon_frame. cbn [Z.eqb sf_coords sf_duration]. reflexivity.
  - (* version 1: four coordinates *)
    cbn [Z.eqb] in *. destruct f as [dur cs]. cbn [sf_coords sf_duration] in *.
    destruct cs as [|a [|b [|c [|d [|e cs]]]]]; cbn [List.length Nat.eqb] in Hlen; try discriminate.
    cbn [map] in Et.
    apply opt_concat_cons in Et. destruct Et as (ab & r1 & Ea & Et & ->).
    apply opt_concat_cons in Et. destruct Et as (bb & r2 & Eb & Et & ->).
    apply opt_concat_cons in Et. destruct Et as (cb & r3 & Ec & Et & ->).
    apply opt_concat_cons in Et. destruct Et as (dd & r4 & Edd & Et & ->). inversion Et; subst r4. rewrite app_nil_r.
    cbn [forallb] in Hft. repeat (apply andb_prop in Hft; destruct Hft as [? Hft]).
    pose proof (pack_tex_length _ _ _ Ea) as La. pose proof (pack_tex_length _ _ _ Eb) as Lb.
    pose proof (pack_tex_length _ _ _ Ec) as Lc. pose proof (pack_tex_length _ _ _ Edd) as Ldd.
    rewrite (read_tex_at S a ab (pre ++ db) (bb ++ cb ++ dd ++ post) _ _ Wt H Ea)
      by (rewrite <- ?app_assoc; try reflexivity; rewrite app_length, Ld; reflexivity).
    rewrite (read_tex_at S b bb (pre ++ db ++ ab) (cb ++ dd ++ post) _ _ Wt H0 Eb)
      by (rewrite <- ?app_assoc; try reflexivity; rewrite !app_length, Ld, La; lia).
    rewrite (read_tex_at S c cb (pre ++ db ++ ab ++ bb) (dd ++ post) _ _ Wt H1 Ec)
      by (rewrite <- ?app_assoc; try reflexivity; rewrite !app_length, Ld, La, Lb; lia).
    rewrite (read_tex_at S d dd (pre ++ db ++ ab ++ bb ++ cb) post _ _ Wt H2 Edd)
      by (rewrite <- ?app_assoc; try reflexivity; rewrite !app_length, Ld, La, Lb, Lc; lia).
    replace (List.length pre + calcsize (s_dur S) + 4 * calcsize (s_tex S)) with (List.length pre + List.length (db ++ ab ++ bb ++ cb ++ dd))
      by (rewrite !app_length, Ld, La, Lb, Lc, Ldd; lia).
    unfold canon_frame. cbn [Z.eqb sf_coords sf_duration]. reflexivity.
Qed.

(** the frames of one sequence *)
Lemma frames_read_back_sheet : forall ver, (ver = 0 \/ ver = 1)%Z -> forall fs fb pre post,
  forallb (frame_fits S ver) fs = true -> opt_concat (map (sheet_frame_bytes S ver) fs) = Some fb ->
  read_frames S ver (pre ++ fb ++ post) (List.length pre) (List.length fs) = Some (map (canon_frame ver) fs, List.length pre + List.length fb).
Proof.
  intros ver Hver fs. induction fs as [|f fs IH]; intros fb pre post Hf Hb.
  - cbn in Hb. inversion Hb. cbn [List.length read_frames map]. rewrite Nat.add_0_r. reflexivity.
  - cbn [map] in Hb. apply opt_concat_cons in Hb. destruct Hb as (b1 & b2 & E1 & E2 & ->).
    cbn [forallb] in Hf. apply andb_prop in Hf. destruct Hf as [Hf1 Hf2].
    cbn [List.length]. rewrite <- app_assoc.
    rewrite (frame_read_back ver f b1 pre (b2 ++ post) Hver Hf1 E1 (List.length fs)).
    replace (pre ++ b1 ++ b2 ++ post) with ((pre ++ b1) ++ b2 ++ post) by (rewrite <- app_assoc; reflexivity).
    rewrite <- app_length. rewrite (IH b2 (pre ++ b1) post Hf2 E2). cbn [map]. rewrite !app_length. f_equal. f_equal. lia.
Qed.

Lemma canon_nums : forall ver qs n, existsb (fun q => Z.eqb (sq_num q) n) (map (canon_seq ver) qs) = existsb (fun q => Z.eqb (sq_num q) n) qs.
Proof. intros ver qs n. induction qs as [|q qs IH]; [reflexivity|]. cbn [map existsb canon_seq sq_num]. rewrite IH. reflexivity. Qed.

(** the sequences *)
Lemma seqs_read_back : forall ver, (ver = 0 \/ ver = 1)%Z -> forall qs qb pre post,
  forallb (seq_fits S ver) qs = true -> nums_distinct qs = true -> opt_concat (map (sheet_seq_bytes S ver) qs) = Some qb ->
  read_seqs S ver (pre ++ qb ++ post) (List.length pre) (List.length qs) = Some (map (canon_seq ver) qs).
Proof.
  intros ver Hver qs. induction qs as [|q qs IH]; intros qb pre post Hf Hd Hb; [reflexivity|].
  cbn [map] in Hb. apply opt_concat_cons in Hb. destruct Hb as (b1 & b2 & E1 & E2 & ->).
  cbn [forallb] in Hf. apply andb_prop in Hf. destruct Hf as [Hf1 Hf2].
  cbn [nums_distinct] in Hd. apply andb_prop in Hd. destruct Hd as [Hd1 Hd2].
  unfold seq_fits in Hf1. repeat (apply andb_prop in Hf1; destruct Hf1 as [Hf1 ?]).
  unfold sheet_seq_bytes in E1. apply opt_app_Some in E1. destruct E1 as (hb & fb & Eh & Ef & ->).
  pose proof (pack_length _ _ _ Eh) as Lh.
  cbn [List.length read_seqs].
  rewrite (read_at_packed _ _ _ pre (fb ++ b2 ++ post) _ _ Wq Hf1 Eh) by (rewrite <- ?app_assoc; reflexivity).
  cbv beta iota. rewrite H0, H1. cbn [andb negb]. rewrite Nat2Z.id. rewrite <- !app_assoc.
  replace (pre ++ hb ++ fb ++ b2 ++ post) with ((pre ++ hb) ++ fb ++ (b2 ++ post)) by (rewrite <- !app_assoc; reflexivity).
  replace (List.length pre + calcsize (s_seq S)) with (List.length (pre ++ hb)) by (rewrite app_length, Lh; reflexivity).
  rewrite (frames_read_back_sheet ver Hver (sq_frames q) fb (pre ++ hb) (b2 ++ post) H Ef).
  replace ((pre ++ hb) ++ fb ++ b2 ++ post) with ((pre ++ hb ++ fb) ++ b2 ++ post) by (rewrite <- !app_assoc; reflexivity).
  replace (List.length (pre ++ hb) + List.length fb) with (List.length (pre ++ hb ++ fb)) by (rewrite !app_length; lia).
  rewrite (IH b2 (pre ++ hb ++ fb) post Hf2 Hd2 E2).
  rewrite canon_nums. apply negb_true_iff in Hd1. rewrite Hd1. unfold canon_seq at 2. reflexivity.
Qed.

(** The particle sheet: [read_sheet (make_sheet ver qs)] is [qs] - sequence numbers, clamp flags, total times, frame
    durations and texture coordinates as 32-bit patterns, in order; version 0 stores only the first coordinate of a
    frame and the reader repeats it four times ([canon_seq]). *)
Theorem sheet_roundtrip : forall ver qs bs, sheet_fits S ver qs = true -> make_sheet S ver qs = Some bs ->
  read_sheet S bs = Some (ver, map (canon_seq ver) qs).
Proof.
  intros ver qs bs HF Hm. unfold sheet_fits in HF. repeat (apply andb_prop in HF; destruct HF as [HF ?]).
  assert (Hver : (ver = 0 \/ ver = 1)%Z).
  { apply orb_prop in HF. destruct HF as [E|E]; apply Z.eqb_eq in E; auto. }
  unfold make_sheet in Hm. replace (1 <? ver)%Z with false in Hm by (symmetry; apply Z.ltb_ge; lia).
  apply opt_app_Some in Hm. destruct Hm as (hb & qb & Eh & Eq & ->).
  pose proof (pack_length _ _ _ Eh) as Lh. apply Nat.leb_le in H1.
  unfold read_sheet.
  rewrite (read_at_packed _ _ _ [] qb (hb ++ qb) 0 Wh H2 Eh eq_refl eq_refl).
  replace (1 <? ver)%Z with false by (symmetry; apply Z.ltb_ge; lia).
  replace (64 <? Z.of_nat (List.length qs))%Z with false by (symmetry; apply Z.ltb_ge; lia).
  cbn [orb]. rewrite Nat2Z.id. rewrite <- Lh.
  rewrite <- (app_nil_r qb) at 1.
  rewrite (seqs_read_back ver Hver qs qb hb [] H0 H Eq). reflexivity.
Qed.
End Sheet.

Example sheet_inhabited :
  sfmts_wf std_sfmts = true /\ sheet_fits std_sfmts 1 ex_sheet = true /\ sheet_fits std_sfmts 0 ex_sheet = true
  /\ option_map (read_sheet std_sfmts) (make_sheet std_sfmts 1 ex_sheet) = Some (Some (1%Z, ex_sheet))
  /\ option_map (read_sheet std_sfmts) (make_sheet std_sfmts 0 ex_sheet) = Some (Some (0%Z, map (canon_seq 0) ex_sheet))
  /\ map (canon_seq 0) ex_sheet <> ex_sheet.
Proof. vm_compute. repeat split; try reflexivity. discriminate. Qed.

(** the sheet inside the whole file: what [decode_file] hands to [SheetSequence.from_resource] parses to the sequences *)
Theorem whole_file_sheet_73 : forall F G S v low_size file ver qs sb,
  fmts_wf F = true -> flags_ok G = true -> (3 <= v_minor v)%Z -> vfile_fits F G v = true ->
  sfmts_wf S = true -> sheet_fits S ver qs = true -> make_sheet S ver qs = Some sb -> v_sheet v = Some sb ->
  encode_file F G v = Some file ->
  exists hdr res lo hi, decode_file F G low_size file = Some (v_minor v, hdr, v_depth v, res, Some sb, lo, hi)
                        /\ read_sheet S sb = Some (ver, map (canon_seq ver) qs).
Proof.
  intros F G S v low_size file ver qs sb HW HG Hm HF HS Hfit Hmk Hv Henc.
  destruct (whole_file_73 F G v low_size file HW HG Hm HF Henc) as (Hdec & _).
  unfold sfmts_wf in HS. repeat (apply andb_prop in HS; destruct HS as [HS ?]).
  rewrite Hv in Hdec. do 4 eexists. split; [exact Hdec|].
  apply (sheet_roundtrip S HS H1 H0 H ver qs sb Hfit Hmk).
Qed.
