(** C06 (round 2) — proofs about the field-level glue models (Fmt/VmfFields.v). *)
From Coq Require Import NArith List Bool Lia ZifyBool.
From SV Require Import Fmt.VmfText Fmt.VmfFields.
Import ListNotations.
Open Scope N_scope.

(** * Row keys *)
Lemma in_nrange n : forall y, In y (nrange n) <-> y < N.of_nat n.
Proof.
  induction n as [|n IH]; intros y; cbn [nrange].
  - cbn. lia.
  - rewrite in_app_iff, IH. cbn [In]. lia.
Qed.

(** If the generated reader passes the check for the first [n] rows, it reads the index of every row key the writer
    produces for y < n. *)
Theorem rows_recognised_sound r p n : rows_recognised r p n = true ->
  forall y, y < N.of_nat n -> read_row r (row_key p y) = Some y.
Proof.
  intros H y Hy. unfold rows_recognised in H. rewrite forallb_forall in H.
  specialize (H y (proj2 (in_nrange n y) Hy)).
  destruct (read_row r (row_key p y)) as [y'|]; [|discriminate]. apply N.eqb_eq in H. now subst.
Qed.

Definition ROW : list N := [114; 111; 119].
(** the reader of the repaired tree: startswith('row'), int(name[3:]) *)
Definition pinned_rowreader : rowreader := mk_rowreader ROW 3 1 None None.
Theorem pinned_rowreader_ok : rows_recognised pinned_rowreader ROW 17 = true.
Proof. vm_compute. reflexivity. Qed.
(** a reader that accepts a single digit only cannot see row10..row16 of a power-4 displacement *)
Definition one_digit_rowreader : rowreader := mk_rowreader ROW 3 1 (Some 1%nat) None.
Theorem one_digit_rowreader_refuted :
  rows_recognised one_digit_rowreader ROW 17 = false /\ read_row one_digit_rowreader (row_key ROW 10) = None
  /\ rows_recognised one_digit_rowreader ROW 9 = true.
Proof. vm_compute. repeat split. Qed.

(** a reader that looks keys up in a table of 2**4 names does not know row16, the last row of a power-4 displacement
    (17 rows); powers 1..3 (3, 5, 9 rows) are unaffected *)
Definition table16_rowreader : rowreader := mk_rowreader ROW 3 1 None (Some 16).
Theorem table16_rowreader_refuted :
  rows_recognised table16_rowreader ROW 17 = false /\ read_row table16_rowreader (row_key ROW 16) = None
  /\ rows_recognised table16_rowreader ROW 16 = true /\ rows_recognised table16_rowreader ROW 9 = true.
Proof. vm_compute. repeat split. Qed.

(** * split / join *)
Lemma split_nonempty c s : split_on c s <> [].
Proof.
  induction s as [|x r IH]; cbn [split_on]; [discriminate|].
  destruct (x =? c); [discriminate|]. destruct (split_on c r); discriminate.
Qed.

Lemma split_nohas c s : has c s = false -> split_on c s = [s].
Proof.
  induction s as [|x r IH]; intros H; [reflexivity|].
  cbn [has existsb] in H. apply orb_false_iff in H as [Hx Hr]. cbn [split_on].
  rewrite N.eqb_sym, Hx. unfold has in IH. now rewrite (IH Hr).
Qed.

Lemma split_app c a b : split_on c (a ++ c :: b) = split_on c a ++ split_on c b.
Proof.
  induction a as [|x a IH]; cbn [app split_on].
  - now rewrite N.eqb_refl.
  - destruct (x =? c); [now rewrite IH|]. rewrite IH.
    destruct (split_on c a) as [|h t] eqn:E; [now apply split_nonempty in E|]. reflexivity.
Qed.

Lemma join_split c s : join c (split_on c s) = s.
Proof.
  induction s as [|x r IH]; [reflexivity|]. cbn [split_on].
  destruct (x =? c) eqn:E.
  - apply N.eqb_eq in E. subst. destruct (split_on c r) as [|h t] eqn:E2; [now apply split_nonempty in E2|].
    cbn [join app]. cbn [join] in IH. now rewrite IH.
  - destruct (split_on c r) as [|h t] eqn:E2; [now apply split_nonempty in E2|].
    destruct t as [|h2 t2]; cbn [join app] in *; now rewrite <- IH.
Qed.

Lemma has_app c a b : has c (a ++ b) = has c a || has c b.
Proof. apply existsb_app. Qed.

(** * Output values *)
Theorem out_roundtrip o : outv_ok o = true -> out_parse (out_join o) = Some o.
Proof.
  destruct o as [t i p d ti comma]. unfold outv_ok. cbn [ov_target ov_input ov_params ov_delay ov_times ov_comma].
  intros H. apply andb_true_iff in H as [H Hc].
  repeat (apply andb_true_iff in H as [H ?]).
  repeat match goal with Hx : negb _ = true |- _ => apply negb_true_iff in Hx end.
  unfold out_join, out_parse. cbn [ov_target ov_input ov_params ov_delay ov_times ov_comma join].
  destruct comma.
  - cbn [negb orb] in Hc. repeat (apply andb_true_iff in Hc as [Hc ?]).
    repeat match goal with Hx : negb _ = true |- _ => apply negb_true_iff in Hx end.
    assert (Hesc : has ESC (t ++ COMMA :: i ++ COMMA :: p ++ COMMA :: d ++ COMMA :: ti) = false).
    { unfold has in *. repeat (rewrite existsb_app; cbn [existsb]).
      repeat match goal with Hx : existsb _ _ = false |- _ => rewrite Hx end. reflexivity. }
    rewrite Hesc.
    rewrite (split_app COMMA t), (split_nohas COMMA t) by assumption.
    rewrite (split_app COMMA i), (split_nohas COMMA i) by assumption.
    rewrite (split_app COMMA p). rewrite (split_app COMMA d), (split_nohas COMMA d), (split_nohas COMMA ti) by assumption.
    cbn [app]. rewrite rev_app_distr. cbn [rev app].
    destruct (rev (split_on COMMA p)) as [|x xs] eqn:E.
    + apply (f_equal (@List.length _)) in E. rewrite rev_length in E.
      destruct (split_on COMMA p) eqn:E2; [now apply split_nonempty in E2|discriminate].
    + rewrite <- E, rev_involutive, join_split. reflexivity.
  - assert (Hesc : has ESC (t ++ ESC :: i ++ ESC :: p ++ ESC :: d ++ ESC :: ti) = true).
    { rewrite has_app. cbn [has existsb]. rewrite N.eqb_refl. now rewrite orb_true_r. }
    rewrite Hesc.
    rewrite (split_app ESC t), (split_nohas ESC t) by assumption.
    rewrite (split_app ESC i), (split_nohas ESC i) by assumption.
    rewrite (split_app ESC p), (split_nohas ESC p) by assumption.
    rewrite (split_app ESC d), (split_nohas ESC d), (split_nohas ESC ti) by assumption.
    reflexivity.
Qed.

(** The side condition is necessary: a comma in the target of a comma-form output moves the fields. *)
Theorem out_comma_in_target_refuted :
  let o := mk_outv [97; 44; 98] [105] [] [48] [49] true in out_parse (out_join o) <> Some o.
Proof. vm_compute. discriminate. Qed.
(** ... and ESC inside a comma-form value selects the other form. *)
Theorem out_esc_in_comma_form_refuted :
  let o := mk_outv [97] [105] [27] [48] [49] true in out_parse (out_join o) = None.
Proof. vm_compute. reflexivity. Qed.
(** Extra commas in the parameter of a comma-form output survive. *)
Example out_comma_params_example :
  let o := mk_outv [97] [105] [120; 44; 121; 44; 44] [48] [45; 49] true in
  outv_ok o = true /\ out_parse (out_join o) = Some o.
Proof. vm_compute. split; reflexivity. Qed.

(** * instance:name;command *)
Lemma split1_app c a b : has c a = false -> split1 c (a ++ c :: b) = Some (a, b).
Proof.
  induction a as [|x a IH]; intros H; cbn [app split1].
  - now rewrite N.eqb_refl.
  - cbn [has existsb] in H. apply orb_false_iff in H as [Hx Ha]. rewrite N.eqb_sym, Hx.
    unfold has in IH. now rewrite (IH Ha).
Qed.

Section Names.
  Variable is_inst : list N -> bool.
  Hypothesis is_inst_prefix : forall x, is_inst (inst_prefix ++ x) = true.

  Theorem name_roundtrip_instance i cmd : i <> [] -> has SEMI i = false ->
    parse_name is_inst (exp_name (Some i) cmd) = Some (Some i, cmd).
  Proof.
    intros Hi Hs. destruct i as [|c i]; [congruence|]. unfold exp_name, parse_name.
    rewrite is_inst_prefix. rewrite app_assoc, split1_app.
    - now rewrite skipn_app, (skipn_all2 inst_prefix) by (cbn; lia).
    - rewrite has_app, Hs. reflexivity.
  Qed.

  Theorem name_roundtrip_plain cmd : is_inst cmd = false ->
    parse_name is_inst (exp_name None cmd) = Some (None, cmd).
  Proof. intros H. unfold exp_name, parse_name. now rewrite H. Qed.

  (** an empty instance name is written like no instance name (normalisation accepted by the comparison) *)
  Theorem name_empty_instance cmd : exp_name (Some []) cmd = exp_name None cmd.
  Proof. reflexivity. Qed.
End Names.

(** * Fixups *)
Lemma replace_index_1_99 : forall n, 1 <= n <= 99 -> parse_digits (last_n 2 (REPLACE ++ fmt_index 2 n)) = n.
Proof.
  intros n Hn.
  assert (H : forallb (fun k => parse_digits (last_n 2 (REPLACE ++ fmt_index 2 (N.of_nat k))) =? N.of_nat k) (seq 1 99) = true)
    by (vm_compute; reflexivity).
  rewrite forallb_forall in H. specialize (H (N.to_nat n)). rewrite N2Nat.id in H. apply N.eqb_eq, H, in_seq. lia.
Qed.

Theorem fixup_line_roundtrip f : fixup_ok f = true -> parse_fixup_line 2 (fixup_line 2 f) = f.
Proof.
  destruct f as [[var val] id]. unfold fixup_ok, fixup_line, parse_fixup_line. cbn [fx_id fx_var fx_val fst snd].
  intros H. repeat (apply andb_true_iff in H as [H ?]).
  rewrite replace_index_1_99 by lia.
  change (DOLLAR :: var ++ VmfText.SP :: val) with ((DOLLAR :: var) ++ VmfText.SP :: val).
  rewrite split1_app.
  - destruct var as [|c var]; [discriminate|]. cbn [lstrip]. rewrite N.eqb_refl. cbn [lstrip].
    match goal with Hx : negb (c =? DOLLAR) = true |- _ => apply negb_true_iff in Hx; rewrite Hx end. reflexivity.
  - cbn [has existsb]. match goal with Hx : negb (has _ var) = true |- _ => apply negb_true_iff in Hx; unfold has in Hx; rewrite Hx end.
    reflexivity.
Qed.

Section Fix.
  Variable same_var : list N -> list N -> bool.

  Lemma put_fresh k f : forallb (fun g => negb (same_var (fx_var g) (fx_var f))) k = true -> put same_var k f = k ++ [f].
  Proof.
    induction k as [|g k IH]; intros H; [reflexivity|]. cbn [forallb] in H. apply andb_true_iff in H as [Hg Hk].
    apply negb_true_iff in Hg. cbn [put app]. now rewrite Hg, (IH Hk).
  Qed.

  Lemma init_fold : forall rest used k,
    nodup_ids used rest = true -> forallb (fun f => 0 <? fx_id f) rest = true -> vars_fresh same_var k rest = true ->
    exists used', fold_left (init_step same_var) rest (used, k, []) = (used', k ++ rest, []).
  Proof.
    induction rest as [|f r IH]; intros used k Hn Hp Hv.
    - exists used. now rewrite app_nil_r.
    - cbn [nodup_ids forallb vars_fresh] in *. apply andb_true_iff in Hn as [Hf Hr]. apply andb_true_iff in Hp as [Hp Hpr].
      apply andb_true_iff in Hv as [Hv Hvr]. cbn [fold_left init_step]. rewrite Hp, Hf. cbn [andb].
      rewrite (put_fresh k f Hv). destruct (IH (fx_id f :: used) (k ++ [f]) Hr Hpr Hvr) as [u Hu].
      exists u. rewrite Hu. now rewrite <- app_assoc.
  Qed.

  (** distinct positive indexes of distinctly named variables are kept as they are *)
  Theorem fix_init_keeps l : nodup_ids [] l = true -> forallb (fun f => 0 <? fx_id f) l = true ->
    vars_fresh same_var [] l = true -> fix_init same_var l = l.
  Proof.
    intros Hn Hp Hv. unfold fix_init. destruct (init_fold l [] [] Hn Hp Hv) as [u Hu]. now rewrite Hu.
  Qed.

  (** export then parse of up to 99 fixups with distinct indexes 1..99 and distinct names: same variables, values and
      indexes *)
  Theorem fixups_roundtrip l : fixups_ok l = true -> vars_fresh same_var [] l = true ->
    fix_init same_var (map (parse_fixup_line 2) (map (fixup_line 2) l)) = l.
  Proof.
    intros H Hv. unfold fixups_ok in H. apply andb_true_iff in H as [Hok Hn].
    assert (E : map (parse_fixup_line 2) (map (fixup_line 2) l) = l).
    { rewrite map_map. rewrite <- (map_id l) at 2. apply map_ext_in. intros f Hf.
      rewrite forallb_forall in Hok. now apply fixup_line_roundtrip, Hok. }
    rewrite E. apply fix_init_keeps; [exact Hn| |exact Hv].
    rewrite forallb_forall in *. intros f Hf. specialize (Hok f Hf). unfold fixup_ok in Hok.
    repeat (apply andb_true_iff in Hok as [Hok ?]). lia.
  Qed.
End Fix.

(** a duplicated index is re-assigned the lowest unused one (so the parsed map has distinct indexes again) *)
Example fix_init_duplicate_example :
  fix_init (fun a b => nlist_eqb a b) [([97], [49], 1); ([98], [50], 1); ([99], [51], 0)]
  = [([97], [49], 1); ([98], [50], 2); ([99], [51], 3)].
Proof. vm_compute. reflexivity. Qed.
(** a variable name containing a space does not survive (format limit) *)
Theorem fixup_space_in_name_refuted :
  parse_fixup_line 2 (fixup_line 2 ([97; 32; 98], [118], 1)) <> ([97; 32; 98], [118], 1).
Proof. vm_compute. discriminate. Qed.
