(** The name/extension split of [_get_file_parts] (vpk.py) as a parameter: which occurrence of the separator the
    statement `filename, ext = filename.rsplit('.', 1)` splits at is read from the source (Gen/VpkPlace_gen.v,
    [g_ext_split]); [file_parts_k] is [VpkName.file_parts] over that parameter.  Proofs are in VpkNameProofs.v. *)
From Coq Require Import List NArith Bool.
From SV Require Import Fmt.VpkDir SM.Vpk Fmt.VpkName.
Import ListNotations.
Open Scope N_scope.

Inductive split_kind :=
| SplitLast (c : N)      (* rsplit(c, 1) / rpartition(c), guarded by `c in filename` *)
| SplitFirst (c : N).    (* split(c, 1) / partition(c) *)

(** split at the first occurrence of [c] *)
Fixpoint split1 (c : N) (s : bytes) : option (bytes * bytes) :=
  match s with
  | [] => None
  | x :: r => if x =? c then Some ([], r)
              else match split1 c r with Some (a, b) => Some (x :: a, b) | None => None end
  end.

Definition split_at (k : split_kind) (s : bytes) : option (bytes * bytes) :=
  match k with SplitLast c => rsplit1 c s | SplitFirst c => split1 c s end.

(** `if not ext and c in filename: filename, ext = <split>` *)
Definition split_ext_k (k : split_kind) (fn ext : bytes) : bytes * bytes :=
  match ext with
  | [] => match split_at k fn with Some (a, b) => (a, b) | None => (fn, []) end
  | _ => (fn, ext)
  end.

Definition file_parts_k (normpath : bytes -> bytes) (k : split_kind) (f : nameform) : key :=
  let '(p, fn, ext) := match f with
                       | NStr s => let '(h, t) := split_path s in (h, t, [])
                       | NPair d f => (d, f, [])
                       | NTriple d n e => (d, n, e)
                       end in
  let '(n, e) := split_ext_k k fn ext in (e, norm_dir normpath p, n).

(** the extension is what follows the last '.' *)
Definition split_kind_ok (k : split_kind) : bool := match k with SplitLast c => c =? 46 | SplitFirst _ => false end.
