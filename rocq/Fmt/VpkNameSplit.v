(** The name/extension split of [_get_file_parts] (vpk.py) as a parameter: which occurrence of the separator the
    statement `filename, ext = filename.rsplit('.', 1)` splits at is read from the source (Gen/VpkPlace_gen.v,
    [g_ext_split]); [file_parts_k] is [VpkName.file_parts] over that parameter.  Proofs are in VpkNameProofs.v. *)
From Coq Require Import List NArith Bool.
From SV Require Import Fmt.VpkDir SM.Vpk Fmt.VpkName.
Import ListNotations.
Open Scope N_scope.

Inductive split_kind :=
| SplitLast (c : N)      (* rsplit(c, 1) / rpartition(c), guarded by `c in filename` *)
| SplitFirst (c : N)     (* split(c, 1) / partition(c) *)
| SplitExt.              (* os.path.splitext(filename), the extension taken without its dot *)

(** split at the first occurrence of [c] *)
Fixpoint split1 (c : N) (s : bytes) : option (bytes * bytes) :=
  match s with
  | [] => None
  | x :: r => if x =? c then Some ([], r)
              else match split1 c r with Some (a, b) => Some (x :: a, b) | None => None end
  end.

(** posixpath.splitext, as (root, extension without the dot); [None] = no extension: there is no '.', or the last '.' comes before the
    last '/', or only dots stand between the last '/' (or the start) and the last '.' — a leading-dot name like `.gitignore` has none *)
Definition splitext (s : bytes) : option (bytes * bytes) :=
  match rsplit1 46 s with
  | None => None
  | Some (a, b) =>
      if existsb (N.eqb 47) b then None
      else let base := match rsplit1 47 a with Some (_, t) => t | None => a end in
           if forallb (N.eqb 46) base then None else Some (a, b)
  end.

Definition split_at (k : split_kind) (s : bytes) : option (bytes * bytes) :=
  match k with SplitLast c => rsplit1 c s | SplitFirst c => split1 c s | SplitExt => splitext s end.

(** `if not ext and c in filename: filename, ext = <split>` *)
Definition split_ext_k (k : split_kind) (fn ext : bytes) : bytes * bytes :=
  match ext with
  | [] => match split_at k fn with Some (a, b) => (a, b) | None => (fn, []) end
  | _ => (fn, ext)
  end.

Definition file_parts_k (normpath : bytes -> bytes) (k : split_kind) (f : nameform) : key :=
  let '(p, fn, ext) := match f with
                       | NStr s => let '(h, t) := split_path s in (h, t, [])
                       | NPair d f => (d, f, [])
                       | NTriple d n e => (d, n, e)
                       end in
  let '(n, e) := split_ext_k k fn ext in (e, norm_dir normpath p, n).

(** the extension is what follows the last '.' *)
Definition split_kind_ok (k : split_kind) : bool := match k with SplitLast c => c =? 46 | _ => false end.
