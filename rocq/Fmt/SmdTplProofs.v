From Coq Require Import List NArith Bool Lia.
Import ListNotations.
From SV Require Import Fmt.SmdTpl.

Lemma sep_ok_sound : forall l pending, sep_ok pending l = true ->
  separated l /\
  (pending = true -> forall mid c2 b, l = mid ++ c2 :: b -> is_conv c2 = true ->
     Forall (fun p => is_conv p = false) mid -> Exists (fun p => has_ws p = true) mid).
Proof.
  induction l as [|p r IH]; intros pending H.
  - split.
    + intros a c1 mid c2 b E. destruct a; discriminate.
    + intros _ mid c2 b E. destruct mid; discriminate.
  - cbn [sep_ok] in H. destruct (is_conv p) eqn:Hp.
    + apply andb_true_iff in H. destruct H as [Hpend Hr].
      apply negb_true_iff in Hpend. subst pending.
      destruct (IH true Hr) as [IHs IHp]. split.
      * intros a c1 mid c2 b E Hc1 Hc2 Hmid. destruct a as [|x a].
        -- cbn in E. injection E as -> E. eapply (IHp eq_refl); eauto.
        -- cbn in E. injection E as -> E. eapply IHs; eauto.
      * discriminate.
    + destruct (IH _ H) as [IHs IHp]. split.
      * intros a c1 mid c2 b E Hc1 Hc2 Hmid. destruct a as [|x a].
        -- cbn in E. injection E as -> E. congruence.
        -- cbn in E. injection E as -> E. eapply IHs; eauto.
      * intros -> mid c2 b E Hc2 Hmid. destruct mid as [|x mid].
        -- cbn in E. injection E as -> E. congruence.
        -- cbn in E. injection E as -> E. destruct (has_ws x) eqn:Hw.
           ++ apply Exists_cons_hd. exact Hw.
           ++ apply Exists_cons_tl. inversion Hmid; subst. eapply (IHp eq_refl); eauto.
Qed.

Theorem line_ok_separated : forall l, line_ok l = true -> separated l.
Proof. intros l H. exact (proj1 (sep_ok_sound l false H)). Qed.

Theorem lines_ok_separated : forall ls, forallb line_ok ls = true -> Forall separated ls.
Proof.
  intros ls H. apply Forall_forall. intros l Hl. apply line_ok_separated.
  rewrite forallb_forall in H. auto.
Qed.

(** the boolean is exact: a line that is not [line_ok] has two touching conversions *)
Lemma sep_ok_complete : forall l pending, sep_ok pending l = false ->
  (exists a c1 mid c2 b, l = a ++ c1 :: mid ++ c2 :: b /\ is_conv c1 = true /\ is_conv c2 = true /\
     Forall (fun p => is_conv p = false /\ has_ws p = false) mid)
  \/ (pending = true /\ exists mid c2 b, l = mid ++ c2 :: b /\ is_conv c2 = true /\
     Forall (fun p => is_conv p = false /\ has_ws p = false) mid).
Proof.
  induction l as [|p r IH]; intros pending H; [discriminate|].
  cbn [sep_ok] in H. destruct (is_conv p) eqn:Hp.
  - destruct pending.
    + right. split; [reflexivity|]. exists [], p, r. repeat split; auto.
    + cbn in H. destruct (IH true H) as [(a & c1 & mid & c2 & b & E & H1 & H2 & H3) | (_ & mid & c2 & b & E & H2 & H3)].
      * left. exists (p :: a), c1, mid, c2, b. subst r. repeat split; auto.
      * left. exists [], p, mid, c2, b. subst r. repeat split; auto.
  - destruct (IH _ H) as [(a & c1 & mid & c2 & b & E & H1 & H2 & H3) | (Hpend & mid & c2 & b & E & H2 & H3)].
    + left. exists (p :: a), c1, mid, c2, b. subst r. repeat split; auto.
    + apply andb_true_iff in Hpend. destruct Hpend as [-> Hw]. apply negb_true_iff in Hw.
      right. split; [reflexivity|]. exists (p :: mid), c2, b. subst r. repeat split; auto.
Qed.

Theorem line_not_ok_touching : forall l, line_ok l = false ->
  exists a c1 mid c2 b, l = a ++ c1 :: mid ++ c2 :: b /\ is_conv c1 = true /\ is_conv c2 = true /\
    Forall (fun p => is_conv p = false /\ has_ws p = false) mid.
Proof.
  intros l H. destruct (sep_ok_complete l false H) as [X | [X _]]; [exact X | discriminate].
Qed.

(** the pinned tree's vertex line violates the obligation (known defect: missing space before the link count) *)
Theorem smd_pinned_vertex_line_refuted : line_ok smd_vertex_line_pinned = false.
Proof. vm_compute. reflexivity. Qed.

Example line_ok_satisfiable : line_ok [ConvInt; Lit [32;34]%N; ConvStr; Lit [34;32]%N; ConvInt] = true.
Proof. vm_compute. reflexivity. Qed.
