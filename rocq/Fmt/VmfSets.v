(** C06, round 4: membership sets (visgroup and group membership of entities and brushes).  A Python set has no order of its
    own: iterating it gives its elements in an order that depends on the history of insertions and removals.  The writer
    must therefore put the lines "visgroupid" / "groupid" into a canonical order; the reader collects them into a set again.
    Gen/VmfSets_gen.v lists every loop of an export method over a set-typed attribute with whether it iterates [sorted(...)].
    Definitions only; proofs in Fmt/VmfSetsProofs.v. *)
From Coq Require Import List String Bool ZArith.
Import ListNotations.
Open Scope Z_scope.

Fixpoint insert (x : Z) (l : list Z) : list Z :=
  match l with [] => [x] | y :: r => if x <=? y then x :: l else y :: insert x r end.
Fixpoint isort (l : list Z) : list Z := match l with [] => [] | x :: r => insert x (isort r) end.

(** A set is given by any duplicate-free list of its elements (one of its iteration orders). *)
Definition same_set (a b : list Z) : Prop := forall x, In x a <-> In x b.

(** The lines written for a set: in canonical order, or in the iteration order it happens to have. *)
Definition write_members (canonical : bool) (iteration_order : list Z) : list Z :=
  if canonical then isort iteration_order else iteration_order.

Record memberloop := mk_memberloop { ml_method : string; ml_attr : string; ml_sorted : bool }.
Definition member_loops_ok (l : list memberloop) : bool := forallb ml_sorted l.
Definition loops_of (m : string) (l : list memberloop) : list memberloop := filter (fun x => String.eqb (ml_method x) m) l.
