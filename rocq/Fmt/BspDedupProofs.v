(** A de-duplicating index table hands back, for every requested item, an index whose record is the requested record --
    for every sequence of requests and every initial table -- as soon as the key determines the record.  A key that
    reads only part of the record is refuted by a computed witness. *)
From Coq Require Import List String NArith ZArith Bool PeanoNat Lia.
From SV Require Import Bin.LE Bin.Struct Bin.StructProofs Fmt.BspDedup.
Import ListNotations.
Open Scope string_scope.
Open Scope list_scope.

Section Generic.
  Variables (A K : Type) (key : A -> K) (keq : K -> K -> bool).
  Hypothesis keq_spec : forall a b, keq a b = true <-> a = b.
  Variable U : A -> Prop.            (* the items in play: the initial table and every request *)
  Variable R : A -> A -> Prop.       (* "stored item y stands for requested item x" *)
  Hypothesis R_refl : forall x, R x x.
  Hypothesis key_det : forall x y, U x -> U y -> key y = key x -> R y x.

  Definition dinv (s : dstate A K) : Prop :=
    (forall k i, dlookup keq k (snd s) = Some i -> exists y, nth_error (fst s) i = Some y /\ key y = k) /\
    (forall y, In y (fst s) -> U y).

  Lemma dbuild_inv : forall l pre d,
    (forall k i, dlookup keq k d = Some i -> exists y, nth_error (pre ++ l) i = Some y /\ key y = k) ->
    forall k i, dlookup keq k (dbuild key (List.length pre) l d) = Some i ->
      exists y, nth_error (pre ++ l) i = Some y /\ key y = k.
  Proof.
    induction l as [|x l IH]; intros pre d Hd k i H; cbn [dbuild] in H.
    - auto.
    - replace (pre ++ x :: l) with ((pre ++ [x]) ++ l) in * by (rewrite <- app_assoc; reflexivity).
      apply (IH (pre ++ [x]) ((key x, List.length pre) :: d)).
      + intros k' i' H'. cbn [dlookup] in H'. destruct (keq k' (key x)) eqn:E.
        * injection H' as <-. apply keq_spec in E. subst k'. exists x. split; [|reflexivity].
          rewrite <- app_assoc. cbn [app]. rewrite nth_error_app2 by lia. rewrite Nat.sub_diag. reflexivity.
        * auto.
      + rewrite app_length. cbn [List.length]. replace (List.length pre + 1)%nat with (S (List.length pre)) by lia. exact H.
  Qed.

  Lemma dd_init_inv : forall l, (forall y, In y l -> U y) -> dinv (dd_init key l).
  Proof.
    intros l HU. split; [|exact HU]. intros k i H. unfold dd_init in *. cbn [fst snd] in *.
    apply (dbuild_inv l [] []); [intros ? ? E; discriminate E | exact H].
  Qed.

  Lemma dd_find_sound : forall s x s' i, dinv s -> U x -> dd_find key keq s x = (s', i) ->
    (exists y, nth_error (fst s') i = Some y /\ R y x) /\ dinv s' /\ exists ext, fst s' = fst s ++ ext.
  Proof.
    intros s x s' i [Hd HU] Hx H. unfold dd_find in H. destruct (dlookup keq (key x) (snd s)) as [j|] eqn:E.
    - injection H as <- <-. destruct (Hd _ _ E) as (y & Hy & Hk). split.
      + exists y. split; [exact Hy|]. apply key_det; [exact Hx | apply HU; eapply nth_error_In; exact Hy | exact Hk].
      + split; [split; assumption|]. exists []. rewrite app_nil_r. reflexivity.
    - injection H as <- <-. cbn [fst snd]. split.
      + exists x. split; [|apply R_refl]. rewrite nth_error_app2 by lia. rewrite Nat.sub_diag. reflexivity.
      + split; [split|].
        * intros k' i' H'. cbn [dlookup fst snd] in H'. destruct (keq k' (key x)) eqn:E'.
          -- injection H' as <-. apply keq_spec in E'. subst k'. exists x. split; [|reflexivity]. cbn [fst snd].
             rewrite nth_error_app2 by lia. rewrite Nat.sub_diag. reflexivity.
          -- destruct (Hd _ _ H') as (y & Hy & Hk). exists y. split; [|exact Hk]. cbn [fst snd].
             rewrite nth_error_app1; [exact Hy|]. apply nth_error_Some. rewrite Hy. discriminate.
        * intros y Hy. apply in_app_or in Hy. destruct Hy as [Hy|[<-|[]]]; [apply HU; exact Hy | exact Hx].
        * eexists; reflexivity.
  Qed.

  Lemma dd_run_sound : forall xs s s' is, dinv s -> (forall x, In x xs -> U x) -> dd_run key keq s xs = (s', is) ->
    Forall2 (fun x i => exists y, nth_error (fst s') i = Some y /\ R y x) xs is /\ dinv s' /\ exists ext, fst s' = fst s ++ ext.
  Proof.
    induction xs as [|x r IH]; intros s s' is Hinv HU H; cbn [dd_run] in H.
    - injection H as <- <-. split; [constructor|]. split; [exact Hinv|]. exists []. rewrite app_nil_r. reflexivity.
    - destruct (dd_find key keq s x) as [s1 i] eqn:E1. destruct (dd_run key keq s1 r) as [s2 is2] eqn:E2. injection H as <- <-.
      destruct (dd_find_sound _ _ _ _ Hinv (HU x (or_introl eq_refl)) E1) as ((y & Hy & HR) & Hinv1 & ext1 & Hx1).
      destruct (IH _ _ _ Hinv1 (fun z Hz => HU z (or_intror Hz)) E2) as (Hf & Hinv2 & ext2 & Hx2).
      split; [|split; [exact Hinv2|]].
      + constructor; [|exact Hf]. exists y. split; [|exact HR]. rewrite Hx2. rewrite nth_error_app1; [exact Hy|].
        apply nth_error_Some. rewrite Hy. discriminate.
      + exists (ext1 ++ ext2). rewrite Hx2, Hx1, app_assoc. reflexivity.
  Qed.
End Generic.

(** The table for an arbitrary item type: if equal keys imply that the stored item stands for the requested one
    (relation [R], reflexive), every request is answered by an index holding such an item, and the initial table is kept. *)
Theorem dedup_table_sound : forall (A K : Type) (key : A -> K) (keq : K -> K -> bool) (R : A -> A -> Prop),
  (forall a b, keq a b = true <-> a = b) -> (forall x, R x x) ->
  forall l xs, (forall x y, In x (l ++ xs) -> In y (l ++ xs) -> key y = key x -> R y x) ->
  forall s' is, dd_run key keq (dd_init key l) xs = (s', is) ->
  Forall2 (fun x i => exists y, nth_error (fst s') i = Some y /\ R y x) xs is /\ exists ext, fst s' = l ++ ext.
Proof.
  intros A K key keq R Hk Hr l xs Hdet s' is H.
  destruct (dd_run_sound A K key keq Hk (fun x => In x (l ++ xs)) R Hr Hdet xs (dd_init key l) s' is) as (Hf & _ & Hext).
  - apply dd_init_inv; [exact Hk|]. intros y Hy. apply in_or_app. left. exact Hy.
  - intros x Hx. apply in_or_app. right. exact Hx.
  - exact H.
  - split; [exact Hf | exact Hext].
Qed.

(** * Key specifications *)
Lemma on_eqb_spec : forall a b, on_eqb a b = true <-> a = b.
Proof.
  intros [x|] [y|]; cbn; split; intro H; try discriminate; try reflexivity.
  - apply N.eqb_eq in H. subst. reflexivity.
  - injection H as <-. apply N.eqb_refl.
Qed.
Lemma onl_eqb_spec : forall a b, onl_eqb a b = true <-> a = b.
Proof.
  induction a as [|x a IH]; intros [|y b]; cbn; split; intro H; try discriminate; try reflexivity.
  - apply andb_prop in H. destruct H as [H1 H2]. apply on_eqb_spec in H1. apply IH in H2. subst. reflexivity.
  - injection H as <- <-. apply andb_true_intro. split; [apply on_eqb_spec | apply IH]; reflexivity.
Qed.
Lemma rec_eqb_spec : forall a b, rec_eqb a b = true <-> a = b.
Proof.
  induction a as [|[f x] a IH]; intros [|[g y] b]; cbn; split; intro H; try discriminate; try reflexivity.
  - apply andb_prop in H. destruct H as [H12 H3]. apply andb_prop in H12. destruct H12 as [H1 H2].
    apply String.eqb_eq in H1. apply N.eqb_eq in H2. apply IH in H3. subst. reflexivity.
  - injection H as <- <- <-. rewrite String.eqb_refl, N.eqb_refl. cbn. apply IH. reflexivity.
Qed.
Lemma keyval_eqb_spec : forall a b, keyval_eqb a b = true <-> a = b.
Proof.
  intros [x|x|x] [y|y|y]; cbn; split; intro H; try discriminate.
  - apply N.eqb_eq in H. subst. reflexivity.
  - injection H as <-. apply N.eqb_refl.
  - apply rec_eqb_spec in H. subst. reflexivity.
  - injection H as <-. apply rec_eqb_spec. reflexivity.
  - apply onl_eqb_spec in H. subst. reflexivity.
  - injection H as <-. apply onl_eqb_spec. reflexivity.
Qed.

Lemma nodup_strs_NoDup : forall l, nodup_strs l = true -> NoDup l.
Proof.
  induction l as [|x l IH]; intro H; [constructor|]. cbn in H. apply andb_prop in H. destruct H as [H1 H2].
  constructor; [|apply IH; exact H2]. intro Hin. apply negb_true_iff in H1.
  assert (existsb (String.eqb x) l = true) as E by (apply existsb_exists; exists x; split; [exact Hin | apply String.eqb_refl]).
  rewrite E in H1. discriminate.
Qed.

Lemma assoc_f_in : forall f r, In f (map fst r) -> exists v, assoc_f f r = Some v.
Proof.
  induction r as [|[g v] r IH]; intro H; [destruct H|]. cbn [assoc_f]. destruct (String.eqb f g) eqn:E; [eexists; reflexivity|].
  cbn in H. destruct H as [H|H]; [subst g; rewrite String.eqb_refl in E; discriminate | apply IH; exact H].
Qed.

Lemma rec_ext : forall r r', NoDup (map fst r) -> map fst r = map fst r' ->
  (forall f, In f (map fst r) -> assoc_f f r = assoc_f f r') -> r = r'.
Proof.
  induction r as [|[f v] r IH]; intros [|[g w] r'] Hnd Hm Ha; try discriminate; [reflexivity|].
  cbn in Hm. injection Hm as <- Hm. inversion Hnd as [|? ? Hnot Hnd']; subst.
  assert (v = w) as ->.
  { specialize (Ha f (or_introl eq_refl)). cbn [assoc_f] in Ha. rewrite String.eqb_refl in Ha. injection Ha as ->. reflexivity. }
  f_equal. apply IH; [exact Hnd' | exact Hm|]. intros h Hh. specialize (Ha h (or_intror Hh)). cbn [assoc_f] in Ha.
  destruct (String.eqb h f) eqn:E; [apply String.eqb_eq in E; subst h; contradiction | exact Ha].
Qed.

Lemma map_eq_pointwise : forall (X Y : Type) (F G : X -> Y) l, map F l = map G l -> forall x, In x l -> F x = G x.
Proof.
  induction l as [|a l IH]; intros H x Hx; [destruct Hx|]. cbn in H. injection H as H1 H2.
  destruct Hx as [<-|Hx]; [exact H1 | apply IH; assumption].
Qed.

(** Equal keys, for a key that passes [key_determines], mean equal records. *)
Lemma key_determines_record : forall admitted fields k tr (Uo : obj -> Prop),
  key_determines admitted fields k = true ->
  (forall v, tr "" v = v) ->
  (forall o, Uo o -> map fst (snd o) = fields) ->
  (forall o o', Uo o -> Uo o' -> fst o = fst o' -> o = o') ->
  (forall t, In t admitted -> forall o o' f v v', Uo o -> Uo o' ->
     assoc_f f (snd o) = Some v -> assoc_f f (snd o') = Some v' -> tr t v = tr t v' -> v = v') ->
  forall x y, Uo x -> Uo y -> key_sem tr k y = key_sem tr k x -> snd y = snd x.
Proof.
  intros admitted fields k tr Uo Hk Htr Hf Hid Hadm x y Hx Hy E. destruct k as [| |fs]; cbn [key_sem] in E.
  - injection E as E. rewrite (Hid y x Hy Hx E). reflexivity.
  - injection E as E. exact E.
  - injection E as E. cbn [key_determines] in Hk. apply andb_prop in Hk. destruct Hk as [Hnd Hcov].
    apply nodup_strs_NoDup in Hnd. apply rec_ext.
    + rewrite (Hf y Hy). exact Hnd.
    + rewrite (Hf y Hy), (Hf x Hx). reflexivity.
    + intros f Hin. rewrite (Hf y Hy) in Hin. rewrite forallb_forall in Hcov. specialize (Hcov f Hin).
      apply existsb_exists in Hcov. destruct Hcov as ([g t] & Hft & Hc). cbn [fst snd] in Hc.
      apply andb_prop in Hc. destruct Hc as [Hg Ht]. apply String.eqb_eq in Hg. subst g.
      pose proof (map_eq_pointwise _ _ _ _ _ E (f, t) Hft) as Ep. cbn [fst snd] in Ep.
      destruct (assoc_f_in f (snd y)) as [v Hv]; [rewrite (Hf y Hy); exact Hin|].
      destruct (assoc_f_in f (snd x)) as [w Hw]; [rewrite (Hf x Hx); exact Hin|].
      rewrite Hv, Hw in *. cbn [option_map] in Ep. injection Ep as Ep. f_equal.
      apply orb_prop in Ht. destruct Ht as [Ht|Ht].
      * apply String.eqb_eq in Ht. subst t. rewrite !Htr in Ep. exact Ep.
      * apply existsb_exists in Ht. destruct Ht as (t' & Hin' & Et). apply String.eqb_eq in Et. subst t'.
        exact (Hadm t Hin' y x f v w Hy Hx Hv Hw Ep).
Qed.

(** The whole table: with a key that passes [key_determines], for any initial table and any sequence of requested
    objects of the class, the record stored at the index handed out for an object is that object's record. *)
Theorem dedup_key_roundtrip : forall admitted fields k tr l xs,
  key_determines admitted fields k = true ->
  (forall v, tr "" v = v) ->
  (forall o, In o (l ++ xs) -> map fst (snd o) = fields) ->
  (forall o o', In o (l ++ xs) -> In o' (l ++ xs) -> fst o = fst o' -> o = o') ->
  (forall t, In t admitted -> forall o o' f v v', In o (l ++ xs) -> In o' (l ++ xs) ->
     assoc_f f (snd o) = Some v -> assoc_f f (snd o') = Some v' -> tr t v = tr t v' -> v = v') ->
  forall s' is, dd_run (key_sem tr k) keyval_eqb (dd_init (key_sem tr k) l) xs = (s', is) ->
  Forall2 (fun o i => read_back (fst s') i = Some (snd o)) xs is /\ exists ext, fst s' = l ++ ext.
Proof.
  intros admitted fields k tr l xs Hk Htr Hf Hid Hadm s' is H.
  destruct (dedup_table_sound obj keyval (key_sem tr k) keyval_eqb (fun y x => snd y = snd x) keyval_eqb_spec
              (fun _ => eq_refl) l xs) with (s' := s') (is := is) as [HF Hext].
  - intros x y Hx Hy E. exact (key_determines_record admitted fields k tr (fun o => In o (l ++ xs)) Hk Htr Hf Hid Hadm x y Hx Hy E).
  - exact H.
  - split; [|exact Hext]. clear -HF. induction HF as [|x i xs' is' (y & Hy & HR) _ IH]; constructor; [|exact IH].
    unfold read_back. rewrite Hy. cbn [option_map]. rewrite HR. reflexivity.
Qed.

(** A key that reads only the material name: two texture-data records with one name and different sizes get one
    index, and the second is read back with the size of the first.  With the identity key both get their own record. *)
Definition td_fields : list string := ["mat"; "width"].
Definition td_a : obj := (1%N, [("mat", 7%N); ("width", 512%N)]).
Definition td_b : obj := (2%N, [("mat", 7%N); ("width", 1024%N)]).
Theorem dedup_key_by_name_refuted :
  key_determines [] td_fields (KFields [("mat", "casefold")]) = false /\
  key_determines ["casefold"] td_fields (KFields [("mat", "casefold")]) = false /\
  (let '(s, is) := dd_run (key_sem (fun _ v => v) (KFields [("mat", "casefold")])) keyval_eqb
                          (dd_init (key_sem (fun _ v => v) (KFields [("mat", "casefold")])) []) [td_a; td_b] in
   is = [0; 0]%nat /\ read_back (fst s) 0 = Some (snd td_a) /\ snd td_a <> snd td_b) /\
  (let '(s, is) := dd_run (key_sem (fun _ v => v) KIdentity) keyval_eqb
                          (dd_init (key_sem (fun _ v => v) KIdentity) []) [td_a; td_b; td_a] in
   is = [0; 1; 0]%nat /\ read_back (fst s) 1 = Some (snd td_b)) /\
  key_determines [] td_fields KIdentity = true /\
  key_determines [] td_fields (KFields [("width", ""); ("mat", "")]) = true.
Proof. vm_compute. repeat split; try reflexivity. discriminate. Qed.

(** The reference as it travels through the file: the index handed out by the table is packed into an integer field of the
    referring record ([texinfo.texdata], [face.planenum], ...), unpacked by the reader and used to index the table that was
    written.  If the index fits the field (otherwise struct raises: [pack_rejects]) the referring record gets back the record
    of the object it referred to. *)
Theorem reference_roundtrip : forall admitted fields k tr l xs sg w,
  key_determines admitted fields k = true ->
  (forall v, tr "" v = v) ->
  (forall o, In o (l ++ xs) -> map fst (snd o) = fields) ->
  (forall o o', In o (l ++ xs) -> In o' (l ++ xs) -> fst o = fst o' -> o = o') ->
  (forall t, In t admitted -> forall o o' f v v', In o (l ++ xs) -> In o' (l ++ xs) ->
     assoc_f f (snd o) = Some v -> assoc_f f (snd o') = Some v' -> tr t v = tr t v' -> v = v') ->
  (0 < w)%nat ->
  forall s' is, dd_run (key_sem tr k) keyval_eqb (dd_init (key_sem tr k) l) xs = (s', is) ->
  Forall (fun i => in_range sg w (Z.of_nat i) = true) is ->
  Forall2 (fun o i => exists bs, pack [KInt sg w] [VInt (Z.of_nat i)] = Some bs /\
                                 exists z, unpack [KInt sg w] bs = Some [VInt z] /\ read_back (fst s') (Z.to_nat z) = Some (snd o)) xs is.
Proof.
  intros admitted fields k tr l xs sg w Hk Htr Hf Hid Hadm Hw s' is H Hfit.
  destruct (dedup_key_roundtrip admitted fields k tr l xs Hk Htr Hf Hid Hadm s' is H) as [HF _].
  clear - HF Hfit Hw. induction HF as [|o i xs' is' Hrb _ IH]; [constructor|].
  inversion Hfit as [|? ? Hi Hfit']; subst. constructor; [|apply IH; exact Hfit'].
  destruct (unpack_pack [KInt sg w] [VInt (Z.of_nat i)]) as (bs & Hp & Hu).
  - unfold wf_fmt, wf_kind. cbn [forallb]. apply Nat.ltb_lt in Hw. rewrite Hw. reflexivity.
  - cbn [fits fits1]. rewrite Hi. reflexivity.
  - exists bs. split; [exact Hp|]. exists (Z.of_nat i). split; [exact Hu|]. rewrite Nat2Z.id. exact Hrb.
Qed.
