(** Keyed tables of the secondary-format writers (C20): how the classes used as dict keys compare and hash, and the
    obligation that every writer table keys its objects at least as finely as the format (= the reader) identifies them.

    The table itself is [dd_run] of Fmt/BspDedup.v (C11): look the key up, on a miss hand out the next number and store the
    item; a later item with an equal key gets the number of the FIRST one.  [Mesh.export] numbers bones through
    [dict[Bone, int]]: the key function is not written at the table, it is [Bone.__eq__] / [Bone.__hash__].  [kcmp] is what
    translate/c20_keytables.py reads for a class; [keyspec_of_class] turns it into the [keyspec] the table really uses.
    Executable definitions only; proofs in C20KeyTablesProofs.v. *)
From Coq Require Import List String NArith Bool PeanoNat.
Import ListNotations.
From SV Require Import Fmt.BspDedup.
Open Scope string_scope.
Open Scope list_scope.

Definition ftr := (string * string)%type.      (* attribute, transformation ("" = none, "casefold", "strip+casefold", ...) *)

Inductive kcmp :=
| CIdentity                                     (* no __eq__ / __hash__, attrs eq=False: the object itself *)
| CValue (fields : list string)                 (* attrs frozen: all fields by value *)
| CUnhashable                                   (* __eq__ without __hash__ (attrs define with eq): cannot be a key *)
| CHashOnly (hash : list ftr)                   (* __hash__ alone: comparison stays identity *)
| CFields (eq ne hash : list ftr).              (* hand-written __eq__ / __ne__ / __hash__: what each reads *)

Definition kclass := (string * kcmp)%type.

Definition ftr_eqb (a b : ftr) : bool := String.eqb (fst a) (fst b) && String.eqb (snd a) (snd b).
Definition ftr_mem (a : ftr) (l : list ftr) : bool := existsb (ftr_eqb a) l.
Definition ftr_subset (a b : list ftr) : bool := forallb (fun x => ftr_mem x b) a.

(** [a == b] must imply [hash(a) == hash(b)]: everything hashed is compared, under the same transformation or exactly. *)
Definition hash_follows_eq (eq hash : list ftr) : bool :=
  forallb (fun h : ftr => existsb (fun e : ftr => String.eqb (fst e) (fst h) && (String.eqb (snd e) (snd h) || String.eqb (snd e) "")) eq) hash.

Definition kcmp_ok (c : kcmp) : bool :=
  match c with
  | CIdentity | CValue _ | CHashOnly _ => true
  | CUnhashable => false
  | CFields eq ne hash =>
      negb (match eq with [] => true | _ => false end) && hash_follows_eq eq hash && ftr_subset eq ne && ftr_subset ne eq
  end.
Definition kclass_ok (c : kclass) : bool := kcmp_ok (snd c).

(** The key a dict / set really uses for objects of the class. *)
Definition keyspec_of_class (c : kcmp) : keyspec :=
  match c with
  | CIdentity | CHashOnly _ | CUnhashable => KIdentity
  | CValue fs => KFields (map (fun f => (f, "")) fs)
  | CFields eq _ _ => KFields eq
  end.

(** No comparison method of the class normalises what it reads (case, blanks): two names the file keeps apart stay apart. *)
Definition exact_ftrs (l : list ftr) : bool := forallb (fun x : ftr => String.eqb (snd x) "") l.
Definition kcmp_exact (c : kcmp) : bool :=
  match c with
  | CFields eq ne hash => exact_ftrs eq && exact_ftrs ne      (* a coarser hash changes nothing a program can observe *)
  | _ => true
  end.

Definition class_named (n : string) (cs : list kclass) : option kcmp :=
  option_map snd (find (fun c : kclass => String.eqb n (fst c)) cs).
Definition class_ok_named (cs : list kclass) (n : string) : bool :=
  match class_named n cs with Some c => kcmp_ok c | None => false end.

(** the class compares exactly the attributes [k] (neither identity nor anything coarser): needed where references reach the
    writer as equal-but-not-identical objects ([Bone.__deepcopy__] makes a new object per reference) *)
Definition class_eq_is (cs : list kclass) (n : string) (k : list ftr) : bool :=
  match class_named n cs with
  | Some (CFields eq _ _) => ftr_subset eq k && ftr_subset k eq
  | _ => false
  end.

Definition tables_ok (ts : list dedup_table) : bool := forallb dedup_ok ts.
Definition table_names (ts : list dedup_table) : list string := map (fun t : dedup_table => let '(n, _, _, _) := t in n) ts.
Definition has_table (ts : list dedup_table) (n : string) : bool := existsb (String.eqb n) (table_names ts).

(** The reader keeps apart what differs in [attr] (it keys its result by that attribute, no transformation). *)
Definition reader_key_is (rk : list (string * list ftr)) (prefix : string) (k : list ftr) : bool :=
  existsb (fun e : string * list ftr => String.prefix prefix (fst e) && ftr_subset (snd e) k && ftr_subset k (snd e)) rk.

Definition key_name_exact : list ftr := [("name", "")].
Definition key_value_exact : list ftr := [("<value>", "")].
Definition no_strings (l : list string) : bool := match l with [] => true | _ => false end.
Definition has_class (cs : list kclass) (n : string) : bool := match class_named n cs with Some _ => true | None => false end.

(** A bone as the table sees it: identity and the name (code of the string); [tr_case] folds 1 <-> 2 (a name and its
    other-case twin), everything else is untouched. *)
Definition tr_case (t : string) (v : N) : N :=
  if String.eqb t "" then v else if N.eqb v 2 then 1%N else v.
Definition bone_Weapon : obj := (10%N, [("name", 1%N)]).
Definition bone_weapon : obj := (11%N, [("name", 2%N)]).
