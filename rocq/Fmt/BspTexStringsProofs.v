(** Proofs about the texture name string table: every name is read back at the offset the writer stored for it,
    for any list of NUL-free names that pass the writer's length guard -- including all storage sharing. *)
From Coq Require Import NArith List Bool PeanoNat Lia.
From SV Require Import Fmt.BspTexStrings.
Import ListNotations.
Open Scope N_scope.

Lemma nl_eqb_eq : forall a b, nl_eqb a b = true -> a = b.
Proof.
  induction a as [|x a IH]; intros [|y b] H; cbn [nl_eqb] in H; try discriminate; [reflexivity|].
  apply andb_prop in H. destruct H as [H1 H2]. apply N.eqb_eq in H1. apply IH in H2. subst. reflexivity.
Qed.

Lemma prefix_eqb_firstn : forall p l, prefix_eqb p l = true -> firstn (List.length p) l = p.
Proof.
  induction p as [|x p IH]; intros l H; [reflexivity|]. destruct l as [|y l]; [discriminate|].
  cbn [prefix_eqb] in H. apply andb_prop in H. destruct H as [H1 H2]. apply N.eqb_eq in H1. subst y.
  cbn [List.length firstn]. f_equal. apply IH. exact H2.
Qed.

Lemma find_sub_sound : forall p l i j, find_sub p l i = Some j ->
  exists k, j = (i + k)%nat /\ firstn (List.length p) (skipn k l) = p.
Proof.
  induction l as [|a l IH]; intros i j H; cbn [find_sub] in H.
  - destruct (prefix_eqb p []) eqn:E; [|discriminate]. injection H as <-. exists O. split; [lia|].
    cbn [skipn]. apply prefix_eqb_firstn. exact E.
  - destruct (prefix_eqb p (a :: l)) eqn:E.
    + injection H as <-. exists O. split; [lia|]. cbn [skipn]. apply prefix_eqb_firstn. exact E.
    + apply IH in H. destruct H as (k & -> & F). exists (S k). split; [lia|]. cbn [skipn]. exact F.
Qed.

(** [holds data off s]: at offset [off] the block holds [s] followed by its terminator. *)
Definition holds (data : list N) (off : nat) (s : list N) : Prop :=
  firstn (List.length s + 1) (skipn off data) = s ++ [0].

Lemma holds_app : forall data ext off s, holds data off s -> holds (data ++ ext) off s.
Proof.
  unfold holds. intros data ext off s H. rewrite skipn_app, firstn_app.
  assert (L : (List.length s + 1 <= List.length (skipn off data))%nat).
  { pose proof (f_equal (@List.length N) H) as E. rewrite firstn_length, app_length in E. cbn [List.length] in E. lia. }
  replace (List.length s + 1 - List.length (skipn off data))%nat with O by lia.
  cbn [firstn]. rewrite app_nil_r. exact H.
Qed.

Lemma holds_at_end : forall data s, holds (data ++ s ++ [0]) (List.length data) s.
Proof.
  unfold holds. intros data s. rewrite skipn_app, skipn_all, Nat.sub_diag. cbn [skipn app].
  replace (List.length s + 1)%nat with (List.length (s ++ [0])) by (rewrite app_length; reflexivity).
  apply firstn_all.
Qed.

Lemma Forall2_weaken : forall (A B : Type) (P Q : A -> B -> Prop) l l',
  (forall a b, P a b -> Q a b) -> Forall2 P l l' -> Forall2 Q l l'.
Proof. intros A B P Q l l' H F. induction F; constructor; auto. Qed.

Lemma step_inv : forall names0 data offs name data' offs',
  Forall2 (holds data) offs names0 -> tex_step [0] [0] (data, offs) name = (data', offs') ->
  Forall2 (holds data') offs' (names0 ++ [name]).
Proof.
  intros names0 data offs name data' offs' H E. cbn [tex_step] in E.
  destruct (find_sub (name ++ [0]) data 0) as [i|] eqn:F.
  - injection E as <- <-. apply Forall2_app; [exact H|]. constructor; [|constructor].
    apply find_sub_sound in F. destruct F as (k & -> & F). rewrite app_length in F. cbn [List.length Nat.add] in F.
    unfold holds. exact F.
  - injection E as <- <-. apply Forall2_app.
    + eapply Forall2_weaken; [|exact H]. intros a b. apply holds_app.
    + constructor; [|constructor]. apply holds_at_end.
Qed.

Lemma write_inv : forall names names0 data offs data' offs',
  Forall2 (holds data) offs names0 -> fold_left (tex_step [0] [0]) names (data, offs) = (data', offs') ->
  Forall2 (holds data') offs' (names0 ++ names).
Proof.
  induction names as [|a names IH]; intros names0 data offs data' offs' H E; cbn [fold_left] in E.
  - injection E as <- <-. rewrite app_nil_r. exact H.
  - destruct (tex_step [0] [0] (data, offs) a) as [d o] eqn:S.
    pose proof (step_inv names0 data offs a d o H S) as H'.
    specialize (IH (names0 ++ [a]) d o data' offs' H' E). rewrite <- app_assoc in IH. exact IH.
Qed.

Lemma take_until0_ok : forall s rest fuel, nul_free s = true -> (List.length s < fuel)%nat ->
  take_until0 fuel (s ++ 0 :: rest) = Some s.
Proof.
  induction s as [|a s IH]; intros rest fuel Hn Hl; (destruct fuel as [|fuel]; [cbn [List.length] in Hl; lia|]).
  - reflexivity.
  - cbn [nul_free forallb] in Hn. apply andb_prop in Hn. destruct Hn as [Ha Hs]. apply negb_true_iff in Ha.
    cbn [app take_until0]. rewrite Ha. rewrite IH; [reflexivity | exact Hs | cbn [List.length] in Hl; lia].
Qed.

Lemma holds_read : forall win data off s, holds data off s -> nul_free s = true -> (List.length s < win)%nat ->
  tex_read win data off = Some s.
Proof.
  unfold holds, tex_read. intros win data off s H Hn Hl.
  rewrite <- (firstn_skipn (List.length s + 1) (skipn off data)), H, <- app_assoc. cbn [app].
  apply take_until0_ok; assumption.
Qed.

(** The whole table: whatever names were shared, every one is read back at its stored offset. *)
Theorem texdata_strings_roundtrip : forall ss sa maxlen win names data offs,
  texcfg_ok (ss, sa, maxlen, win) = true ->
  Forall (fun s => nul_free s = true /\ (List.length s <= maxlen)%nat) names ->
  tex_write ss sa names = (data, offs) ->
  map (tex_read win data) offs = map Some names.
Proof.
  intros ss sa maxlen win names data offs Hc Hn E. unfold texcfg_ok in Hc.
  apply andb_prop in Hc. destruct Hc as [Hc Hw]. apply andb_prop in Hc. destruct Hc as [H1 H2].
  cbn [texcfg_search_terminated] in H1. cbn [texcfg_append_terminated] in H2. cbn [texcfg_guard_fits_window] in Hw.
  apply nl_eqb_eq in H1. apply nl_eqb_eq in H2. subst ss sa. apply Nat.ltb_lt in Hw.
  unfold tex_write in E. pose proof (write_inv names [] [] [] data offs (Forall2_nil _) E) as Inv. cbn [app] in Inv.
  clear E. induction Inv as [|off s offs names Hh _ IH]; [reflexivity|].
  inversion Hn as [|? ? [Hz Hl] Hrest]; subst. cbn [map]. f_equal.
  - apply holds_read; [exact Hh | exact Hz | lia].
  - apply IH. exact Hrest.
Qed.

(** Storage really is shared: an identical name and the tail of a longer name are not stored again. *)
Example tex_shares_tail : tex_write [0] [0] [[65; 66; 67]; [66; 67]; [65; 66; 67]] = ([65; 66; 67; 0], [0; 1; 0]%nat).
Proof. vm_compute. reflexivity. Qed.

(** Searching for the bare name (no terminator) is wrong: "AB" then "A" stores one string and both entries read "AB". *)
Theorem texdata_search_without_terminator_refuted :
  tex_write [] [0] [[65; 66]; [65]] = ([65; 66; 0], [0; 0]%nat) /\
  tex_read 128 [65; 66; 0] 0 = Some [65; 66].
Proof. vm_compute. split; reflexivity. Qed.

(** A name with an embedded NUL is not a value of this field: it is stored whole and read back cut (hypothesis
    [nul_free] of the theorem is necessary). *)
Example tex_name_with_nul_is_cut :
  let '(data, offs) := tex_write [0] [0] [[65; 0; 66]] in map (tex_read 128 data) offs = [Some [65]].
Proof. vm_compute. reflexivity. Qed.
