(** The program of load_dirfile means [dec_file_v] (Fmt/VpkDirRead.v, Fmt/VpkDirV2.v). *)
From Coq Require Import List NArith Bool Lia.
From SV Require Import Fmt.VpkDir Fmt.VpkDirProofs Fmt.VpkDirV2 Fmt.VpkDirProg Fmt.VpkDirProgProofs Fmt.VpkDirRead.
Import ListNotations.
Open Scope N_scope.

Section exec.
  Variable c : dcfg.

  Lemma frun_pinned r :
    match frun c (r_file_body rprog_pinned) (frame0 r) with
    | Some fr => match f_out fr with Some i => Some (i, f_rest fr) | None => None end
    | None => None
    end = dec_entry c r.
  Proof.
    unfold dec_entry, frame0.
    cbv beta iota delta [rprog_pinned r_file_body entry_fields_pinned frun fop_step fentry rdw
                         f_rest f_crc f_plen f_ai f_off f_alen f_term f_idx f_out].
    change (4 =? 4) with true. change (2 =? 4) with false. change (2 =? 2) with true. cbv beta iota.
    destruct (rd32 r) as [[crc r1]|]; [|reflexivity].
    destruct (rd16 r1) as [[plen r2]|]; [|reflexivity].
    destruct (rd16 r2) as [[ai r3]|]; [|reflexivity].
    destruct (rd32 r3) as [[off r4]|]; [|reflexivity].
    destruct (rd32 r4) as [[alen r5]|]; [|reflexivity].
    destruct (rd16 r5) as [[term r6]|]; [|reflexivity].
    destruct (term =? c_term c); reflexivity.
  Qed.

  Lemma rfiles_pinned fuel ext dir : forall s,
    rfiles c rprog_pinned fuel ext dir s
    = match dec_files c fuel ext dir (r_rest s) with Some (es, r') => Some (upd s (r_acc s ++ es) r') | None => None end.
  Proof.
    induction fuel as [|f IH]; intros s; [reflexivity|].
    cbn [rfiles dec_files]. destruct (next_str (r_rest s)) as [[[name|] r]|]; [| |reflexivity].
    - pose proof (frun_pinned r) as H.
      destruct (frun c (r_file_body rprog_pinned) (frame0 r)) as [fr|].
      + destruct (f_out fr) as [i|]; rewrite <- H; [|reflexivity].
        rewrite IH. cbn [upd r_rest r_acc].
        destruct (dec_files c f ext dir (f_rest fr)) as [[es r'']|]; [|reflexivity].
        cbn [upd r_sig r_ver r_tlen r_flen r_foot r_break r_version]. now rewrite <- app_assoc.
      + now rewrite <- H.
    - now rewrite app_nil_r.
  Qed.

  Lemma rdirs_pinned fuel ext : forall s,
    rdirs c rprog_pinned fuel ext s
    = match dec_dirs c fuel ext (r_rest s) with Some (es, r') => Some (upd s (r_acc s ++ es) r') | None => None end.
  Proof.
    induction fuel as [|f IH]; intros s; [reflexivity|].
    cbn [rdirs dec_dirs]. destruct (next_str (r_rest s)) as [[[dir|] r]|]; [| |reflexivity].
    - cbn [rprog_pinned r_dir_pre r_dir_post orun obind]. change (r_rest (upd s (r_acc s) r)) with r.
      rewrite rfiles_pinned. change (r_rest (upd s (r_acc s) r)) with r.
      destruct (dec_files c (S (length r)) ext dir r) as [[es r']|]; [|reflexivity].
      cbn [obind]. rewrite IH. cbn [upd r_rest r_acc].
      destruct (dec_dirs c f ext r') as [[es' r'']|]; [|reflexivity].
      cbn [upd r_sig r_ver r_tlen r_flen r_foot r_break r_version]. now rewrite <- app_assoc.
    - now rewrite app_nil_r.
  Qed.

  Lemma rexts_pinned fuel : forall s, r_break s = false ->
    rexts c rprog_pinned fuel s
    = match dec_exts c fuel (r_flen s) (r_tlen s) (r_rest s) with Some (es, r') => Some (upd s (r_acc s ++ es) r') | None => None end.
  Proof.
    induction fuel as [|f IH]; intros s Hb; [reflexivity|].
    cbn [rexts dec_exts]. destruct (next_str (r_rest s)) as [[[ext|] r]|]; [| |reflexivity].
    - cbn [rprog_pinned r_ext_pre r_ext_post orun obind]. change (r_rest (upd s (r_acc s) r)) with r.
      rewrite rdirs_pinned. change (r_rest (upd s (r_acc s) r)) with r.
      destruct (dec_dirs c (S (length r)) ext r) as [[es r']|]; [|reflexivity].
      cbn [obind rop_step upd r_rest r_acc r_sig r_ver r_tlen r_flen r_foot r_break r_version].
      destruct (len r' + r_tlen s =? r_flen s + 1).
      + cbn [obind r_break r_rest r_acc r_sig r_ver r_tlen r_flen r_foot r_version]. unfold upd. now rewrite Hb.
      + cbn [obind r_break upd]. rewrite Hb. rewrite IH by exact Hb. cbn [upd r_rest r_acc r_flen r_tlen r_sig r_ver r_foot r_break r_version].
        destruct (dec_exts c f (r_flen s) (r_tlen s) r') as [[es' r'']|]; [|reflexivity].
        cbn [upd r_sig r_ver r_tlen r_flen r_foot r_break r_version]. now rewrite <- app_assoc.
    - now rewrite app_nil_r.
  Qed.

  Theorem rexec_pinned bs : rexec c rprog_pinned bs = dec_file_v c bs.
  Proof.
    unfold rexec, dec_file_v.
    change (r_before rprog_pinned) with [RHdr [(RSig, 4); (RVer, 4); (RLen, 4)]; RCheckSig; RCheckVer [1; 2]; RSetVer; RSkipV2 2 [4; 4; 4; 4]; RMark].
    change (r_after rprog_pinned) with [RFooter].
    cbn [orun rop_step rhdr rdw N.eqb Pos.eqb r_rest r_sig r_ver r_tlen r_flen r_acc r_foot r_break r_version].
    destruct (rd32 bs) as [[sig r1]|]; [|reflexivity]. cbn [r_rest r_sig r_ver r_tlen r_flen r_acc r_foot r_break r_version rhdr orun rop_step rdw N.eqb Pos.eqb].
    destruct (rd32 r1) as [[ver r2]|]; [|reflexivity]. cbn [r_rest r_sig r_ver r_tlen r_flen r_acc r_foot r_break r_version rhdr orun rop_step rdw N.eqb Pos.eqb].
    destruct (rd32 r2) as [[tlen r3]|]; [|reflexivity].
    cbn [r_rest r_sig r_ver r_tlen r_flen r_acc r_foot r_break r_version rhdr orun rop_step obind existsb].
    destruct (sig =? c_sig c); cbn [negb]; [|reflexivity].
    destruct (ver =? 1) eqn:E1.
    - apply N.eqb_eq in E1. subst ver.
      cbn [orun rop_step obind existsb orb N.eqb Pos.eqb N.leb N.compare Pos.compare Pos.compare_cont upd r_rest r_sig r_ver r_tlen r_flen r_acc r_foot r_break r_version].
      rewrite rexts_pinned by reflexivity. cbn [r_rest r_sig r_ver r_tlen r_flen r_acc r_foot r_break r_version app].
      destruct (dec_exts c (S (length r3)) (len r3) tlen r3) as [[es f]|]; reflexivity.
    - destruct (ver =? 2) eqn:E2.
      + apply N.eqb_eq in E2. subst ver.
        cbn [orun rop_step obind existsb orb N.eqb Pos.eqb N.leb N.compare Pos.compare Pos.compare_cont upd rskip rdw r_rest r_sig r_ver r_tlen r_flen r_acc r_foot r_break r_version].
        destruct (rd32 r3) as [[h1 r4]|]; [|reflexivity]. cbn [rskip rdw N.eqb Pos.eqb].
        destruct (rd32 r4) as [[h2 r5]|]; [|reflexivity]. cbn [rskip rdw N.eqb Pos.eqb].
        destruct (rd32 r5) as [[h3 r6]|]; [|reflexivity]. cbn [rskip rdw N.eqb Pos.eqb].
        destruct (rd32 r6) as [[h4 r7]|]; [|reflexivity].
        cbn [rskip orun rop_step obind upd r_rest r_sig r_ver r_tlen r_flen r_acc r_foot r_break r_version].
        rewrite rexts_pinned by reflexivity. cbn [r_rest r_sig r_ver r_tlen r_flen r_acc r_foot r_break r_version app].
        destruct (dec_exts c (S (length r7)) (len r7) tlen r7) as [[es f]|]; reflexivity.
      + cbn [orun rop_step obind existsb orb r_rest r_sig r_ver r_tlen r_flen r_acc r_foot r_break r_version]. rewrite E1, E2. reflexivity.
  Qed.
End exec.

(** Every program accepted by [rprog_ok] loads exactly what [dec_file_v] decodes (or raises exactly when it fails), on every input. *)
Theorem rprog_ok_is_dec_file_v p : rprog_ok p = true -> forall c bs, rexec c p bs = dec_file_v c bs.
Proof.
  unfold rprog_ok. destruct (rprog_eq_dec p rprog_pinned) as [->|]; [|discriminate]. intros _ c bs. apply rexec_pinned.
Qed.

(** What the translated writer writes, the translated reader reads: for accepted programs, every well-formed tree and footer. *)
Theorem programs_roundtrip wp rp : wprog_ok wp = true -> rprog_ok rp = true -> forall c, dcfg_ok c = true -> forall t footer b,
  wf_tree c t -> wexec c footer wp t = Some b -> rexec c rp b = Some (1, nmap (flat_tree t), footer).
Proof.
  intros Hw Hr c Hc t footer b Hwf Hb.
  rewrite (VpkDirProgProofs.wprog_ok_is_enc_file wp Hw) in Hb. rewrite (rprog_ok_is_dec_file_v rp Hr).
  apply dec_file_v_v1. now apply (dirtree_roundtrip c Hc t footer b).
Qed.

Definition ex_v2 : bytes := le32 1437209140 ++ le32 2 ++ le32 (len (enc_tree VpkDirProgProofs.ex_c VpkDirProgProofs.ex_t)) ++ le32 9 ++ le32 8 ++ le32 7 ++ le32 6
                            ++ enc_tree VpkDirProgProofs.ex_c VpkDirProgProofs.ex_t ++ [5; 6].
Definition ex_dirfile : bytes := match enc_file VpkDirProgProofs.ex_c VpkDirProgProofs.ex_t [5; 6] with Some b => b | None => [] end.

(** The pinned reader is accepted; without the version-2 skip, or with header_len marked before the four fields, a version-2 file is
    not loaded as its version-1 twin; without the sentinel rewrite the entries stored in the directory file come back with archive
    index 32767.  Dropping the early exit changes nothing on this file (the loop ends at the final NUL). *)
Lemma rprogs_computed :
  let want := Some (nmap (flat_tree VpkDirProgProofs.ex_t), [5; 6]) in
  rprog_ok rprog_pinned = true
  /\ rexec VpkDirProgProofs.ex_c rprog_pinned ex_dirfile = Some (1, nmap (flat_tree VpkDirProgProofs.ex_t), [5; 6])
  /\ rexec VpkDirProgProofs.ex_c rprog_pinned ex_v2 = Some (2, nmap (flat_tree VpkDirProgProofs.ex_t), [5; 6])
  /\ rprog_ok rprog_no_v2_skip = false /\ rexec VpkDirProgProofs.ex_c rprog_no_v2_skip ex_v2 <> Some (2, nmap (flat_tree VpkDirProgProofs.ex_t), [5; 6])
  /\ rprog_ok rprog_mark_before_v2 = false
  /\ rprog_ok rprog_no_idx_sentinel = false
  /\ rexec VpkDirProgProofs.ex_c rprog_no_idx_sentinel ex_dirfile <> Some (1, nmap (flat_tree VpkDirProgProofs.ex_t), [5; 6])
  /\ rprog_ok rprog_no_early_exit = false
  /\ rexec VpkDirProgProofs.ex_c rprog_no_early_exit ex_dirfile = Some (1, nmap (flat_tree VpkDirProgProofs.ex_t), [5; 6]).
Proof. vm_compute. repeat split; try reflexivity; intros H; discriminate. Qed.
