(** C15 — soundness of the symbolic bit evaluator of VtfPixelExpr.v and the generic codec theorems.
    Everything here is for ALL byte-valued inputs (no enumeration): the boolean checks [rt_ok]/[sf_ok] are
    closed computations on a codec, and imply the universally quantified round-trip statements. *)
From Coq Require Import NArith Arith List Bool Lia.
From SV Require Import Fmt.VtfPixelExpr.
Import ListNotations.
Open Scope N_scope.

Lemma expr_eqb_eq : forall x y, expr_eqb x y = true -> x = y.
Proof.
  induction x; destruct y; cbn [expr_eqb]; try discriminate; intros H;
  repeat match goal with H : _ && _ = true |- _ => apply andb_true_iff in H; destruct H end;
  repeat match goal with
   | H : Nat.eqb _ _ = true |- _ => apply Nat.eqb_eq in H; subst
   | H : N.eqb _ _ = true |- _ => apply N.eqb_eq in H; subst
   | IH : forall y, expr_eqb ?a y = true -> _, H : expr_eqb ?a _ = true |- _ => apply IH in H; subst
  end; reflexivity.
Qed.

Lemma sbit_eqb_eq : forall x y, sbit_eqb x y = true -> x = y.
Proof.
  destruct x, y; cbn; try discriminate; try reflexivity.
  intros H. apply andb_true_iff in H. destruct H as [H1 H2].
  apply expr_eqb_eq in H1. apply N.eqb_eq in H2. now subst.
Qed.

Lemma lt_pow2_high : forall x n, x < 2 ^ n -> forall i, n <= i -> N.testbit x i = false.
Proof.
  intros x n H i Hi. destruct (N.eq_dec x 0) as [->|Hx]. { apply N.bits_0. }
  apply N.bits_above_log2. apply N.log2_lt_pow2 in H; lia.
Qed.

Lemma high_lt_pow2 : forall x n, (forall i, n <= i -> N.testbit x i = false) -> x < 2 ^ n.
Proof.
  intros x n H.
  assert (E : x = x mod 2 ^ n).
  { apply N.bits_inj. intro i. destruct (N.lt_ge_cases i n).
    - now rewrite N.mod_pow2_bits_low.
    - rewrite N.mod_pow2_bits_high by assumption. now apply H. }
  rewrite E. apply N.mod_lt. apply N.pow_nonzero. discriminate.
Qed.

Lemma lookup_byte : forall rho v, bytes rho -> lookup rho v < 256.
Proof.
  intros rho v H. unfold lookup. destruct (nth_in_or_default v rho 0) as [Hin| ->]; [|reflexivity].
  unfold bytes in H. rewrite Forall_forall in H. now apply H.
Qed.

Lemma s_and_sound : forall rho x y s, s_and x y = Some s -> interp rho x && interp rho y = interp rho s.
Proof.
  intros rho x y s. destruct x, y; cbn; intros H; try (injection H as <-; cbn; auto using andb_true_r, andb_false_r; fail).
  destruct (expr_eqb e e0 && (i =? i0)) eqn:E; [|discriminate]. injection H as <-.
  apply andb_true_iff in E. destruct E as [E1 E2]. apply expr_eqb_eq in E1. apply N.eqb_eq in E2. subst.
  cbn. apply andb_diag.
Qed.

Lemma s_or_sound : forall rho x y s, s_or x y = Some s -> interp rho x || interp rho y = interp rho s.
Proof.
  intros rho x y s. destruct x, y; cbn; intros H; try (injection H as <-; cbn; auto using orb_true_r, orb_false_r; fail).
  destruct (expr_eqb e e0 && (i =? i0)) eqn:E; [|discriminate]. injection H as <-.
  apply andb_true_iff in E. destruct E as [E1 E2]. apply expr_eqb_eq in E1. apply N.eqb_eq in E2. subst.
  cbn. apply orb_diag.
Qed.

Theorem sym_sound : forall rho, bytes rho -> forall e i s,
  sym e i = Some s -> N.testbit (eval rho e) i = interp rho s.
Proof.
  intros rho Hb. induction e; intros i s H; cbn [sym eval] in *.
  - (* EVar *) injection H as <-. destruct (i <? 8) eqn:E; cbn [interp eval]; [reflexivity|].
    apply N.ltb_ge in E. apply (lt_pow2_high _ 8); [|assumption]. apply (lookup_byte rho v Hb).
  - (* EConst *) injection H as <-. destruct (N.testbit n i) eqn:E; cbn; reflexivity.
  - (* EAnd *) destruct (sym e1 i) eqn:E1, (sym e2 i) eqn:E2; try discriminate.
    rewrite N.land_spec, (IHe1 _ _ E1), (IHe2 _ _ E2). now apply s_and_sound.
  - (* EOr *) destruct (sym e1 i) eqn:E1, (sym e2 i) eqn:E2; try discriminate.
    rewrite N.lor_spec, (IHe1 _ _ E1), (IHe2 _ _ E2). now apply s_or_sound.
  - (* EShl *) destruct (i <? k) eqn:E.
    + injection H as <-. apply N.ltb_lt in E. cbn. now apply N.shiftl_spec_low.
    + apply N.ltb_ge in E. rewrite N.shiftl_spec_high' by assumption. now apply IHe.
  - (* EShr *) rewrite N.shiftr_spec'. now apply IHe.
  - (* ETest *) destruct (sym e1 k) as [[| |e' j]|] eqn:Ec; [| | |discriminate].
    + rewrite (IHe1 _ _ Ec). cbn [interp]. now apply IHe3.
    + rewrite (IHe1 _ _ Ec). cbn [interp]. now apply IHe2.
    + destruct (sym e2 i) as [x|] eqn:Ea; [|discriminate]. destruct (sym e3 i) as [y|] eqn:Eb; [|discriminate].
      destruct (sbit_eqb x y) eqn:Exy.
      * injection H as <-. apply sbit_eqb_eq in Exy. subst y.
        destruct (N.testbit (eval rho e1) k); [now apply IHe2 | now apply IHe3].
      * destruct x; try discriminate. destruct y; try discriminate. injection H as <-.
        pose proof (IHe1 _ _ Ec) as Hc. destruct (N.testbit (eval rho e1) k).
        -- rewrite (IHe2 _ _ Ea). cbn [interp] in *. congruence.
        -- rewrite (IHe3 _ _ Eb). cbn [interp] in *. congruence.
  - (* EAvg3 *) destruct (expr_eqb e1 e2 && expr_eqb e2 e3) eqn:E.
    + apply andb_true_iff in E. destruct E as [E1 E2]. apply expr_eqb_eq in E1, E2. subst e2 e3.
      replace (eval rho e1 + eval rho e1 + eval rho e1) with (eval rho e1 * 3) by lia.
      rewrite N.div_mul by discriminate. now apply IHe1.
    + injection H as <-. reflexivity.
Qed.

Theorem zero_above_sound : forall rho, bytes rho -> forall e n,
  zero_above e n = true -> forall i, n <= i -> N.testbit (eval rho e) i = false.
Proof.
  intros rho Hb. induction e; intros m H i Hi; cbn [zero_above eval] in *.
  - apply N.leb_le in H. apply (lt_pow2_high _ 8); [|lia]. apply (lookup_byte rho v Hb).
  - apply N.ltb_lt in H. now apply (lt_pow2_high _ m).
  - rewrite N.land_spec. apply orb_true_iff in H. destruct H as [H|H].
    + now rewrite (IHe1 _ H i Hi).
    + rewrite (IHe2 _ H i Hi). apply andb_false_r.
  - rewrite N.lor_spec. apply andb_true_iff in H. destruct H as [H1 H2].
    now rewrite (IHe1 _ H1 i Hi), (IHe2 _ H2 i Hi).
  - apply andb_true_iff in H. destruct H as [H1 H2]. apply N.leb_le in H1.
    rewrite N.shiftl_spec_high' by lia. apply (IHe _ H2). lia.
  - rewrite N.shiftr_spec'. apply (IHe _ H). lia.
  - apply andb_true_iff in H. destruct H as [H1 H2].
    destruct (N.testbit (eval rho e1) k); [now apply (IHe2 _ H1) | now apply (IHe3 _ H2)].
  - apply andb_true_iff in H. destruct H as [H12 H3]. apply andb_true_iff in H12. destruct H12 as [H1 H2].
    pose proof (high_lt_pow2 _ _ (IHe1 _ H1)). pose proof (high_lt_pow2 _ _ (IHe2 _ H2)).
    pose proof (high_lt_pow2 _ _ (IHe3 _ H3)).
    apply (lt_pow2_high _ m); [|assumption]. apply N.div_lt_upper_bound; [discriminate|lia].
Qed.

Lemma in_Nrange : forall W i, i < N.of_nat W -> In i (Nrange W).
Proof.
  intros W i H. unfold Nrange. rewrite <- (N2Nat.id i). apply in_map. apply in_seq. lia.
Qed.

Theorem bits_equiv_sound : forall rho W e1 e2, bytes rho -> bits_equiv W e1 e2 = true -> eval rho e1 = eval rho e2.
Proof.
  intros rho W e1 e2 Hb H. unfold bits_equiv in H.
  apply andb_true_iff in H. destruct H as [H H2]. apply andb_true_iff in H. destruct H as [H0 H1].
  apply N.bits_inj. intro i. destruct (N.lt_ge_cases i (N.of_nat W)) as [Hi|Hi].
  - rewrite forallb_forall in H0. specialize (H0 i (in_Nrange _ _ Hi)).
    destruct (sym e1 i) as [x|] eqn:E1; [|discriminate]. destruct (sym e2 i) as [y|] eqn:E2; [|discriminate].
    apply sbit_eqb_eq in H0. subst y. now rewrite (sym_sound rho Hb _ _ _ E1), (sym_sound rho Hb _ _ _ E2).
  - now rewrite (zero_above_sound rho Hb _ _ H1 i Hi), (zero_above_sound rho Hb _ _ H2 i Hi).
Qed.

Theorem list_equiv_sound : forall rho W l1 l2, bytes rho -> list_equiv W l1 l2 = true -> run l1 rho = run l2 rho.
Proof.
  intros rho W l1. induction l1 as [|a r IH]; destruct l2 as [|b r2]; cbn; intros Hb H; try discriminate; [reflexivity|].
  apply andb_true_iff in H. destruct H as [H1 H2].
  f_equal; [now apply (bits_equiv_sound rho W) | now apply IH].
Qed.

Lemma eval_subst : forall rho s e, eval rho (subst s e) = eval (run s rho) e.
Proof.
  intros rho s. induction e; cbn [subst eval]; rewrite ?IHe, ?IHe1, ?IHe2, ?IHe3; try reflexivity.
  unfold lookup, run. symmetry. apply (map_nth (eval rho) s (EConst 0) v).
Qed.

Lemma run_comp : forall rho outer inner, run (comp outer inner) rho = run outer (run inner rho).
Proof.
  intros. unfold run at 1 2, comp. rewrite map_map. apply map_ext. intro e. apply eval_subst.
Qed.

Lemma in_byte_range_sound : forall rho es, bytes rho -> in_byte_range es = true -> bytes (run es rho).
Proof.
  intros rho es Hb H. unfold bytes, run. apply Forall_forall. intros x Hx. apply in_map_iff in Hx.
  destruct Hx as [e [<- He]]. unfold in_byte_range in H. rewrite forallb_forall in H.
  change 256 with (2 ^ 8). apply high_lt_pow2. apply (zero_above_sound rho Hb). now apply H.
Qed.

Lemma run_length : forall es rho, length (run es rho) = length es.
Proof. intros. unfold run. apply map_length. Qed.

(** ** load after save = the documented quantisation, for every pixel *)
Theorem rt_sound : forall c q, rt_ok c q = true ->
  forall p, bytes p ->
    run (load_e c) (run (save_e c) p) = run q p
    /\ bytes (run (save_e c) p) /\ length (run (save_e c) p) = bpp c.
Proof.
  intros c q H p Hp. unfold rt_ok in H.
  apply andb_true_iff in H. destruct H as [H Heq]. apply andb_true_iff in H. destruct H as [Hwf Hrange].
  split; [|split].
  - rewrite <- run_comp. now apply (list_equiv_sound p WBITS).
  - now apply in_byte_range_sound.
  - rewrite run_length. unfold wf in Hwf.
    repeat (apply andb_true_iff in Hwf; destruct Hwf as [Hwf ?]). now apply Nat.eqb_eq.
Qed.

(** ** storing what was loaded: save after load = canon on every stored value, and saving a pixel, loading it
    and saving again gives the same stored bytes *)
Theorem sf_sound : forall c canon, sf_ok c canon = true ->
  (forall d, bytes d -> run (save_e c) (run (load_e c) d) = run canon d /\ bytes (run (load_e c) d))
  /\ (forall p, bytes p -> run (save_e c) (run (load_e c) (run (save_e c) p)) = run (save_e c) p).
Proof.
  intros c canon H. unfold sf_ok in H.
  apply andb_true_iff in H. destruct H as [H Hcs]. apply andb_true_iff in H. destruct H as [H Hsl].
  apply andb_true_iff in H. destruct H as [H Hlr]. apply andb_true_iff in H. destruct H as [Hwf Hsr].
  assert (A : forall d, bytes d -> run (save_e c) (run (load_e c) d) = run canon d /\ bytes (run (load_e c) d)).
  { intros d Hd. split.
    - rewrite <- run_comp. now apply (list_equiv_sound d WBITS).
    - now apply in_byte_range_sound. }
  split; [exact A|].
  intros p Hp. pose proof (in_byte_range_sound p _ Hp Hsr) as Hs.
  destruct (A _ Hs) as [E _]. rewrite E. rewrite <- run_comp. now apply (list_equiv_sound p WBITS).
Qed.

(** ** the specification expressions mean what they say *)
Lemma eval_quant_e : forall rho n x, eval rho (quant_e n x) = quant n (eval rho x).
Proof. reflexivity. Qed.
Lemma eval_alpha1_e : forall rho x, eval rho (alpha1_e x) = alpha1 (eval rho x).
Proof. reflexivity. Qed.

Lemma forall_byte : forall P : N -> bool, forallb P (Nrange 256) = true -> forall x, x < 256 -> P x = true.
Proof. intros P H x Hx. rewrite forallb_forall in H. apply H. now apply in_Nrange. Qed.

(** [quant n] keeps the top n bits, is idempotent, stays a byte; 8 bits is the identity
    (complete enumeration of the 256 bytes inside the kernel, for n = 4, 5, 6, 8). *)
Definition quant_props (n : N) (x : N) : bool :=
  (N.shiftr (quant n x) (8 - n) =? N.shiftr x (8 - n)) && (quant n (quant n x) =? quant n x) && (quant n x <? 256).
Lemma quant_facts : forall n, In n [4; 5; 6; 8] -> forall x, x < 256 ->
  N.shiftr (quant n x) (8 - n) = N.shiftr x (8 - n) /\ quant n (quant n x) = quant n x /\ quant n x < 256.
Proof.
  intros n Hn x Hx.
  assert (H : quant_props n x = true).
  { cbn in Hn. destruct Hn as [<-|[<-|[<-|[<-|[]]]]]; revert x Hx; apply forall_byte; vm_compute; reflexivity. }
  unfold quant_props in H. apply andb_true_iff in H. destruct H as [H H3]. apply andb_true_iff in H.
  destruct H as [H1 H2]. apply N.eqb_eq in H1, H2. apply N.ltb_lt in H3. auto.
Qed.
Lemma quant8_id : forall x, x < 256 -> quant 8 x = x.
Proof.
  intros x Hx. apply N.eqb_eq. revert x Hx. apply (forall_byte (fun x => quant 8 x =? x)). vm_compute. reflexivity.
Qed.

(** ** the pinned 565 codecs swap R and B (witness independent of Gen) *)
Lemma pinned_rgb565_swaps : rt_ok pinned_rgb565 spec_565_rb_swapped = true /\ rt_ok pinned_bgr565 spec_565_rb_swapped = true.
Proof. split; vm_compute; reflexivity. Qed.

Lemma pinned_565_refuted :
  exists p, bytes p /\ run (load_e pinned_rgb565) (run (save_e pinned_rgb565) p) <> run spec_565 p
            /\ run (load_e pinned_bgr565) (run (save_e pinned_bgr565) p) <> run spec_565 p
            /\ run (save_e pinned_rgb565) (run (load_e pinned_rgb565) (run (save_e pinned_rgb565) p)) <> run (save_e pinned_rgb565) p.
Proof.
  exists [255; 0; 0; 255]. split.
  - unfold bytes. repeat constructor.
  - repeat split; vm_compute; discriminate.
Qed.

(** ** what the specification tuples compute, as plain functions on numbers *)
Lemma run_spec_565 : forall r g b a, run spec_565 [r; g; b; a] = [quant 5 r; quant 6 g; quant 5 b; 255].
Proof. reflexivity. Qed.
Lemma run_spec_565_rb_swapped : forall r g b a, run spec_565_rb_swapped [r; g; b; a] = [quant 5 b; quant 6 g; quant 5 r; 255].
Proof. reflexivity. Qed.
Lemma run_spec_4444 : forall r g b a, run spec_4444 [r; g; b; a] = [quant 4 r; quant 4 g; quant 4 b; quant 4 a].
Proof. reflexivity. Qed.
Lemma run_spec_5551 : forall r g b a, run spec_5551 [r; g; b; a] = [quant 5 r; quant 5 g; quant 5 b; alpha1 a].
Proof. reflexivity. Qed.
Lemma run_spec_x5551 : forall r g b a, run spec_x5551 [r; g; b; a] = [quant 5 r; quant 5 g; quant 5 b; 255].
Proof. reflexivity. Qed.
Lemma run_spec_i8 : forall r g b a, run spec_i8 [r; g; b; a] = [grey r g b; grey r g b; grey r g b; 255].
Proof. reflexivity. Qed.
Lemma run_spec_ia88 : forall r g b a, run spec_ia88 [r; g; b; a] = [grey r g b; grey r g b; grey r g b; a].
Proof. reflexivity. Qed.
Lemma run_spec_rgba : forall r g b a, run spec_rgba [r; g; b; a] = [r; g; b; a].
Proof. reflexivity. Qed.
Lemma run_spec_rgb : forall r g b a, run spec_rgb [r; g; b; a] = [r; g; b; 255].
Proof. reflexivity. Qed.
Lemma run_spec_a8 : forall r g b a, run spec_a8 [r; g; b; a] = [0; 0; 0; a].
Proof. reflexivity. Qed.
Lemma run_spec_uv88 : forall r g b a, run spec_uv88 [r; g; b; a] = [r; g; 0; 255].
Proof. reflexivity. Qed.
Lemma grey_of_grey : forall v, grey v v v = v.
Proof. intros v. unfold grey. replace (v + v + v) with (v * 3) by lia. apply N.div_mul. discriminate. Qed.
Lemma grey_is_floor_mean : forall r g b, 3 * grey r g b <= r + g + b < 3 * grey r g b + 3.
Proof.
  intros r g b. unfold grey. generalize (r + g + b). intros s.
  pose proof (N.div_mod s 3 ltac:(discriminate)) as H1.
  pose proof (N.mod_lt s 3 ltac:(discriminate)) as H2.
  remember (s / 3) as q. remember (s mod 3) as m. lia.
Qed.
