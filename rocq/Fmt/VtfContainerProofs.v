(** C15 — proofs about the VTF container model (Fmt/VtfContainer.v). *)
From Coq Require Import NArith ZArith List Bool String Arith Lia.
From SV Require Import Bin.LE Bin.Struct Bin.StructProofs Fmt.VtfContainer.
Import ListNotations.
Local Open Scope nat_scope.

Lemma kind_eqb_eq : forall a b, kind_eqb a b = true -> a = b.
Proof.
  destruct a, b; cbn; intros H; try discriminate; try reflexivity.
  - apply andb_prop in H. destruct H as [H1 H2]. apply eqb_prop in H1. apply Nat.eqb_eq in H2. congruence.
  - apply Nat.eqb_eq in H. congruence.
Qed.
Lemma fmt_eqb_eq' : forall a b, fmt_eqb a b = true -> a = b.
Proof.
  induction a as [|x a IH]; destruct b as [|y b]; cbn; intros H; try discriminate; [reflexivity|].
  apply andb_prop in H. destruct H as [H1 H2]. apply kind_eqb_eq in H1. apply IH in H2. congruence.
Qed.
Lemma strs_eqb_eq : forall a b, strs_eqb a b = true -> a = b.
Proof.
  induction a as [|x a IH]; destruct b as [|y b]; cbn; intros H; try discriminate; [reflexivity|].
  apply andb_prop in H. destruct H as [H1 H2]. apply String.eqb_eq in H1. apply IH in H2. congruence.
Qed.

(** One pack/unpack site that passes [site_ok]: every tuple of values that fits the format is written as exactly
    [calcsize] bytes, the reader (which asks for that many bytes) gets the same values back, and it binds them to the
    same field names in the same order. *)
Theorem site_roundtrip : forall s, site_ok s = true ->
  forall vals, fits (fmt_of (w_fmt s)) vals = true ->
  exists bs, pack (fmt_of (w_fmt s)) vals = Some bs
             /\ List.length bs = calcsize (fmt_of (r_fmt s))
             /\ unpack (fmt_of (r_fmt s)) bs = Some vals
             /\ combine (r_fields s) vals = combine (w_fields s) vals
             /\ (r_len s = (-1)%Z \/ r_len s = Z.of_nat (List.length bs)).
Proof.
  intros s H vals Hf. unfold site_ok in H.
  repeat (apply andb_prop in H; destruct H as [H ?]).
  apply fmt_eqb_eq' in H5. apply strs_eqb_eq in H3.
  destruct (unpack_pack _ _ H4 Hf) as (bs & Hp & Hu).
  exists bs. rewrite <- H5. repeat split; auto.
  - apply (pack_length _ _ _ Hp).
  - rewrite H3. reflexivity.
  - apply orb_prop in H0. destruct H0 as [E | E]; apply Z.eqb_eq in E; [left; exact E|right].
    rewrite E, <- H5, (pack_length _ _ _ Hp). reflexivity.
Qed.

(** Blocks laid out one after the other behind a prefix are found again at the running offsets - whatever follows.
    This is what the resource directory (offsets of the data blocks), the thumbnail and the frames rely on: the reader
    computes / is told the same offsets and reads the same number of bytes. *)
Lemma slice_app : forall (pre b post : list N), slice (pre ++ b ++ post) (List.length pre) (List.length b) = b.
Proof.
  intros. unfold slice. rewrite skipn_app, skipn_all, Nat.sub_diag. cbn [skipn app].
  rewrite firstn_app, firstn_all, Nat.sub_diag. cbn [firstn]. apply app_nil_r.
Qed.

Theorem blocks_at_offsets : forall (blocks : list (list N)) (pre post : list N),
  Forall2 (fun off b => slice (pre ++ List.concat blocks ++ post) off (List.length b) = b)
          (offsets (List.length pre) (map (@List.length N) blocks)) blocks.
Proof.
  induction blocks as [|b r IH]; intros pre post; cbn [offsets map List.concat]; constructor.
  - rewrite <- app_assoc. apply slice_app.
  - specialize (IH (pre ++ b) post). rewrite app_length in IH.
    rewrite <- !app_assoc in IH. rewrite <- app_assoc. exact IH.
Qed.

(** The frames: [VTF.read] hands frame k the offset [high_off + sum of the sizes of the frames before it] and its size;
    [VTF.save] wrote the frames in the same order with the same sizes: every frame gets back exactly its own bytes. *)
Corollary frames_read_back : forall (frames : list (list N)) (pre : list N),
  Forall2 (fun off f => slice (pre ++ List.concat frames) off (List.length f) = f)
          (offsets (List.length pre) (map (@List.length N) frames)) frames.
Proof. intros. rewrite <- (app_nil_r (List.concat frames)). apply blocks_at_offsets. Qed.

(** A data block [length (4 bytes)] ++ [data] at offset [off] is read back by [read_block]. *)
Theorem block_read_back : forall F (d pre post blk : list N),
  wf_fmt (f_len F) = true -> fits (f_len F) [VInt (Z.of_nat (List.length d))] = true ->
  block F d = Some blk ->
  read_block F (pre ++ blk ++ post) (List.length pre) = Some d.
Proof.
  intros F d pre post blk Hw Hf Hb. unfold block in Hb.
  destruct (unpack_pack _ _ Hw Hf) as (lb & Hp & Hu). rewrite Hp in Hb. cbn [opt_app] in Hb. inversion Hb; subst blk.
  pose proof (pack_length _ _ _ Hp) as Hl.
  unfold read_block, read_at. rewrite <- Hl at 1. rewrite <- app_assoc.
  rewrite slice_app. rewrite Hu. rewrite Nat2Z.id.
  replace (pre ++ lb ++ d ++ post) with ((pre ++ lb) ++ d ++ post) by (rewrite <- app_assoc; reflexivity).
  rewrite <- Hl, <- app_length. rewrite slice_app. reflexivity.
Qed.

(** A texture coordinate and a frame duration of the particle sheet: 32-bit patterns in, same patterns out. *)
Theorem tex_roundtrip : forall S t, wf_fmt (s_tex S) = true -> fits (s_tex S) (map VFloat t) = true ->
  forall pre post, exists bs, pack_tex S t = Some bs /\ read_tex S (pre ++ bs ++ post) (List.length pre) = Some t.
Proof.
  intros S t Hw Hf pre post. destruct (unpack_pack _ _ Hw Hf) as (bs & Hp & Hu).
  exists bs. split; [exact Hp|]. unfold read_tex, read_at. rewrite <- (pack_length _ _ _ Hp), slice_app, Hu.
  cbn [option_map]. rewrite map_map. cbn [getF]. rewrite map_id. reflexivity.
Qed.

(** ** Resource flags: the three places where bit 0x02 is handled agree.
    For a configuration that passes [flags_ok] (complete enumeration of the one-byte field): an out-of-line resource is
    stored with exactly bit 2 cleared, an inline one with exactly bit 2 set, all other bits as given; the reader's test
    sends the first to its data block and takes the second as the value; the normalised flags are stable (saving what
    was read stores the same byte). *)
Lemma in_all_bytes : forall f, (0 <= f < 256)%Z -> In f all_bytes.
Proof.
  intros f H. unfold all_bytes. apply in_map_iff. exists (Z.to_nat f). split; [lia|].
  apply in_seq. lia.
Qed.

Lemma byte_facts : forallb (fun f =>
    (0 <=? clear2 f)%Z && (clear2 f <? 256)%Z && (0 <=? set2 f)%Z && (set2 f <? 256)%Z
    && Z.eqb (Z.land (clear2 f) 2) 0 && Z.eqb (Z.land (set2 f) 2) 2
    && Z.eqb (clear2 (clear2 f)) (clear2 f) && Z.eqb (set2 (set2 f)) (set2 f)) all_bytes = true.
Proof. vm_compute. reflexivity. Qed.

Theorem flags_roundtrip : forall c, flags_ok c = true -> forall f, (0 <= f < 256)%Z ->
  fl_eval (fl_offset c) f = clear2 f /\ fl_eval (fl_inline c) f = set2 f
  /\ ft_eval (fl_test c) (fl_eval (fl_offset c) f) = true /\ ft_eval (fl_test c) (fl_eval (fl_inline c) f) = false
  /\ (0 <= clear2 f < 256)%Z /\ (0 <= set2 f < 256)%Z
  /\ fl_eval (fl_offset c) (clear2 f) = clear2 f /\ fl_eval (fl_inline c) (set2 f) = set2 f.
Proof.
  intros c H f Hf. unfold flags_ok in H.
  apply andb_prop in H. destruct H as [H _].
  apply andb_prop in H. destruct H as [H H1].
  apply andb_prop in H. destruct H as [H H2].
  unfold offset_flags_ok in H. unfold inline_flags_ok in H2. unfold read_test_ok in H1.
  rewrite forallb_forall in H, H2, H1.
  pose proof byte_facts as BF. rewrite forallb_forall in BF. specialize (BF _ (in_all_bytes _ Hf)).
  cbv beta in BF. rewrite !andb_true_iff in BF. destruct BF as [[[[[[[A1 A2] A3] A4] A5] A6] A7] A8].
  apply Z.leb_le in A1. apply Z.ltb_lt in A2. apply Z.leb_le in A3. apply Z.ltb_lt in A4.
  apply Z.eqb_eq in A5. apply Z.eqb_eq in A6. apply Z.eqb_eq in A7. apply Z.eqb_eq in A8.
  assert (Hc : (0 <= clear2 f < 256)%Z) by lia.
  assert (Hs : (0 <= set2 f < 256)%Z) by lia.
  pose proof (H _ (in_all_bytes _ Hf)) as Ho. apply Z.eqb_eq in Ho.
  pose proof (H2 _ (in_all_bytes _ Hf)) as Hi. apply Z.eqb_eq in Hi.
  pose proof (H1 _ (in_all_bytes _ Hc)) as Tc. apply eqb_prop in Tc.
  pose proof (H1 _ (in_all_bytes _ Hs)) as Ts. apply eqb_prop in Ts.
  pose proof (H _ (in_all_bytes _ Hc)) as Hoc. apply Z.eqb_eq in Hoc.
  pose proof (H2 _ (in_all_bytes _ Hs)) as His. apply Z.eqb_eq in His.
  rewrite Ho, Hi, Tc, Ts, Hoc, His. rewrite A5, A6, A7, A8. repeat split; try reflexivity; lia.
Qed.

Example flags_ok_inhabited : flags_ok good_flagcfg = true.
Proof. vm_compute. reflexivity. Qed.
(** the seeded shape `res.flags & 2` for out-of-line entries: flags 0x40 are stored as 0, and flags 0x42 are stored as 2,
    which the reader takes as an inline value. *)
Theorem masked_flags_refuted :
  flags_ok masked_flagcfg = false
  /\ fl_eval (fl_offset masked_flagcfg) 64 = 0%Z
  /\ ft_eval (fl_test masked_flagcfg) (fl_eval (fl_offset masked_flagcfg) 66) = false.
Proof. vm_compute. repeat split; reflexivity. Qed.
