(** SMD text lines (srctools/smd.py, Mesh.export): every line the exporter can write is a sequence of literal
    byte strings and printf conversions (%i, %.6f, %s).  Gen/SmdTpl_gen.v lists all of them (regenerated from the
    source on every run).  The reader splits each line at whitespace ([bytes.split()]), so two conversions must
    never touch: between any two conversions of one line there has to be a literal containing whitespace. *)
From Coq Require Import List NArith Bool.
Import ListNotations.
Open Scope N_scope.

Inductive piece := Lit (s : list N) | ConvInt | ConvFloat (prec : nat) | ConvStr.
Definition line := list piece.

(** the characters [bytes.split()] / [bytes.strip()] treat as whitespace *)
Definition is_ws (c : N) : bool :=
  (c =? 32) || (c =? 9) || (c =? 10) || (c =? 11) || (c =? 12) || (c =? 13).

Definition is_conv (p : piece) : bool := match p with Lit _ => false | _ => true end.
Definition has_ws (p : piece) : bool := match p with Lit s => existsb is_ws s | _ => false end.

(** [pending] = a conversion has been written and no whitespace since *)
Fixpoint sep_ok (pending : bool) (l : line) : bool :=
  match l with
  | [] => true
  | p :: r => if is_conv p then negb pending && sep_ok true r
              else sep_ok (pending && negb (has_ws p)) r
  end.
Definition line_ok (l : line) : bool := sep_ok false l.

(** the declarative statement: any two conversions with only literals between them have a whitespace literal between them *)
Definition separated (l : line) : Prop :=
  forall a c1 mid c2 b, l = a ++ c1 :: mid ++ c2 :: b ->
    is_conv c1 = true -> is_conv c2 = true -> Forall (fun p => is_conv p = false) mid ->
    Exists (fun p => has_ws p = true) mid.

(** the vertex line of the pinned tree: the link count follows the V coordinate directly *)
Definition smd_vertex_line_pinned : line :=
  [ConvInt; Lit [9]; ConvFloat 6; Lit [32]; ConvFloat 6; Lit [32]; ConvFloat 6; Lit [9]; ConvFloat 6; Lit [32]; ConvFloat 6;
   Lit [32]; ConvFloat 6; Lit [9]; ConvFloat 6; Lit [32]; ConvFloat 6; ConvInt; Lit [32]; ConvInt; Lit [32]; ConvFloat 6].
