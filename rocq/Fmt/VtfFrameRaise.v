(** C15 — what a method of [Frame] (vtf.py) leaves behind when it RAISES half-way and the caller carries on.

    translate/c15_frame.py runs its abstract interpretation of every method body also along the paths that leave the
    method by an exception: every explicit [raise], and every statement that contains a call that can raise (a call of
    [self.load()] contributes the raising paths of [load] itself).  For each of the four abstract pre-states
    (data present?, file source present?) it emits the outcomes reached at these exits, in the vocabulary of the
    effect tables of Fmt/VtfFrameSM.v ([Gen/VtfFrameSM_gen.v]: [gen_raise_tables]).

    [raise_outcome_ok] is the boolean the check discharges for every row of every method ("every store into the two
    slots that changes what the frame shows comes after everything that can raise"): at an exit by exception the frame
    must show, and save() must write, what it showed before - or be left as an explicit [load()] leaves it (a CLEARED
    frame, which has nothing to show, may have been given its blank pixels: this is what every reading access does).
    Executable definitions only; proofs are in VtfFrameRaiseProofs.v. *)
From Coq Require Import List Bool Arith String.
From SV Require Import Fmt.VtfFrameSM.
Import ListNotations.

(** no file source before and after: the data must be what it was; a frame without data stays without or gets the
    blank pixels of [load()] *)
Definition raise_data_ok (d : bool) (dd : dorigin) (m : bool) : bool :=
  negb m &&
  (if d then dorigin_eqb dd DKeep
   else match dd with DKeep | DNoneV | DBlank => true | _ => false end).

Definition raise_outcome_ok (d s : bool) (o : outcome) : bool :=
  let '(dd, m, ss) := o in
  match ss with
  | SSet => false
  | SKeep => if s then true                               (* the file source is still there: the next load() decodes it over whatever [_data] holds *)
             else raise_data_ok d dd m
  | SNoneV => if s then dorigin_eqb dd DFile && negb m    (* the source is gone: only after it was decoded into [_data], untouched since *)
              else raise_data_ok d dd m
  end.

Definition raise_row_ok (r : (bool * bool) * list outcome) : bool :=
  forallb (raise_outcome_ok (fst (fst r)) (snd (fst r))) (snd r).
Definition raise_table_ok (t : efftable) : bool := forallb raise_row_ok t.

(** all four abstract pre-states have a row (a table with a missing row would pass [raise_table_ok] vacuously) *)
Definition four_rows (t : efftable) : bool :=
  list_eqb (fun a b => Bool.eqb (fst a) (fst b) && Bool.eqb (snd a) (snd b)) (map fst t)
           [(false, false); (false, true); (true, false); (true, true)].

Definition raise_tables_ok (ts : list (string * efftable)) : bool :=
  forallb (fun p => four_rows (snd p) && raise_table_ok (snd p)) ts.

Definition raise_table_of (ts : list (string * efftable)) (name : string) : efftable :=
  match find (fun p => String.eqb (fst p) name) ts with Some p => snd p | None => [] end.
(** the named method is in the census, has four rows, and all its raising exits are fine *)
Definition method_raises_cleanly (ts : list (string * efftable)) (name : string) : bool :=
  let t := raise_table_of ts name in four_rows t && raise_table_ok t.

(** Defective shapes.  copy_from() with [self._fileinfo = None] hoisted in front of the validation (seeded fault c15_8):
    at the [raise ValueError] of the size test a lazily read frame has already lost its file source. *)
Definition raise_copy_from_source_dropped_first : efftable :=
  [((false, false), [(DNoneV, false, SNoneV)]); ((false, true), [(DNoneV, false, SNoneV); (DBlank, false, SNoneV)]);
   ((true, false), [(DKeep, false, SNoneV)]); ((true, true), [(DKeep, false, SNoneV)])].
(** load() that forgets the file source before it reads the stream (the tree before the repair of this round): a failed
    read (closed stream, truncated file, format without decoder) leaves a blank frame without source *)
Definition raise_load_source_dropped_first : efftable :=
  [((false, false), []); ((false, true), [(DBlank, false, SNoneV)]);
   ((true, false), []); ((true, true), [(DKeep, false, SNoneV)])].
