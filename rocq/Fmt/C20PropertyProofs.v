(** The composed statement of C20 (round 4): proof.  Statement repeated in Props/C20.v. *)
From Coq Require Import List NArith ZArith Bool Sorted Permutation.
Import ListNotations.
From SV Require Fmt.CmdSeq Fmt.CmdSeqProofs Fmt.ScenesImage Fmt.ScenesImageCfg Fmt.ScenesImageCfgProofs Fmt.SndStacks Fmt.SndStacksProofs
  Fmt.ChoreoBin Fmt.ChoreoBinProofs Fmt.BspDedup Fmt.C20KeyTables Fmt.SmdNumber Fmt.SmdNumberProofs Fmt.ChoreoQuant.
Module CS := Fmt.CmdSeq. Module CSP := Fmt.CmdSeqProofs. Module SI := Fmt.ScenesImage. Module SC := Fmt.ScenesImageCfg.
Module SCP := Fmt.ScenesImageCfgProofs. Module SK := Fmt.SndStacks. Module SKP := Fmt.SndStacksProofs. Module CB := Fmt.ChoreoBin.
Module CBP := Fmt.ChoreoBinProofs. Module DD := Fmt.BspDedup. Module KT := Fmt.C20KeyTables. Module SN := Fmt.SmdNumber.
Module SNP := Fmt.SmdNumberProofs. Module CQ := Fmt.ChoreoQuant.

Theorem property_partial :
  forall (c : CS.cfg) (ic : SC.icfg) (A : Type) (g : list SK.gterm) (ws : list SK.wblock) (ts : list DD.dedup_table) (qs : list CQ.qsite),
  CS.cfg_okb c = true -> SC.icfg_okb ic = true -> SK.guard_okb g = true -> SK.blocks_okb ws = true ->
  KT.tables_ok ts = true -> forallb CQ.all_stable qs = true ->
  (* command sequences: written, read back equal, second generation identical *)
  (forall v, CS.repr_okb c v = true -> exists b, CS.write c v = Some b /\ CS.parse c b = Some v /\
                                                 forall v', CS.parse c b = Some v' -> CS.write c v' = Some b) /\
  (* scenes.image: read back equal (sorted by checksum), for both input forms and any dict keys *)
  (forall is_dict version pool kes, SC.image_ok_w version pool (map snd kes) ->
     exists b, SC.img_save_g ic is_dict version pool kes = Some b /\
       SI.img_parse b = Some (version, pool, map (SI.to_pentry version pool) (SI.sort_by_crc (map snd kes)))) /\
  (* binary scenes: every layout decodes what it encoded *)
  (forall l env v b r, CB.enc l env v = Some b -> CB.dec l env (b ++ r) = Some (v, r)) /\
  (* ... and every stored quantised field is stable *)
  (forall s, In s qs -> forall k, (0 <= k <= CQ.q_max s)%Z -> CQ.quant s (CQ.dequant s k) = Some k) /\
  (* soundscript operator stacks: the value comes back *)
  (forall x : SK.sound A, SK.same_value (SK.parse (fst (SK.export g ws x))) x) /\
  (* SMD: the nodes section reads back as the bones, through a table whose key keeps apart what the reader keeps apart *)
  (forall bs ls, NoDup (map SN.bkey bs) -> SN.number bs = Some ls ->
     exists perm, Permutation perm bs /\ SN.read_nodes [] ls = Some (map SN.bone_rec perm)) /\
  (forall name adm fields k, In (name, adm, fields, k) ts -> DD.key_determines adm fields k = true).
Proof.
  intros c ic A g ws ts qs Hc Hic Hg Hws Hts Hqs.
  refine (conj _ (conj _ (conj _ (conj _ (conj _ (conj _ _)))))).
  - intros v Hv. destruct (CSP.file_roundtrip c v Hc (CSP.repr_okb_ok c v Hv)) as (b & Hw & Hp). exists b. repeat split; try assumption.
    intros v' Hp'. exact (CSP.second_generation c v b v' Hc (CSP.repr_okb_ok c v Hv) Hw Hp').
  - intros is_dict version pool kes Hok. exact (SCP.save_g_roundtrip ic is_dict version pool kes Hic Hok).
  - exact CBP.dec_enc.
  - intros s Hs k Hk. rewrite forallb_forall in Hqs. exact (CQ.quant_dequant s (Hqs s Hs) k Hk).
  - intro x. exact (SKP.parse_export_same_value A g ws x Hg Hws).
  - exact SNP.number_reads_back_distinct.
  - intros name adm fields k Hin. unfold KT.tables_ok in Hts. rewrite forallb_forall in Hts. exact (Hts _ Hin).
Qed.

(** * Round 5: the same with ONE hypothesis, [premises g = true] for the record [g] of regenerated objects (Fmt/C20Property.v), and
    with the layers that had their own statements in round 4: scenes.image with the pool it builds and independence of caller order,
    soundscript export independent of earlier lazy reads, VMT files of parameter-only materials, every structured line of the
    soundscript and choreo text writers, every SMD line. *)
From SV Require Fmt.C20Property Fmt.VmtQuote Fmt.VmtQuoteProofs Fmt.TextLines Fmt.TextLinesProofs Fmt.SmdTpl Fmt.SmdWords
  Fmt.VmtBlocks Fmt.VmtBlocksProofs KV.KvBase KV.KvLex KV.KvSym KV.KvLexProofs.
Module VB := Fmt.VmtBlocks. Module VBP := Fmt.VmtBlocksProofs.
Module P := Fmt.C20Property. Module VQ := Fmt.VmtQuote. Module VQP := Fmt.VmtQuoteProofs. Module TL := Fmt.TextLines.
Module TLP := Fmt.TextLinesProofs. Module ST := Fmt.SmdTpl. Module SW := Fmt.SmdWords.

Lemma premises_split : forall g, P.premises g = true ->
  CS.cfg_okb (P.g_cmdseq g) = true /\ SC.icfg_okb (P.g_image g) = true /\ SK.guard_okb (P.g_snd_guard g) = true /\
  SK.blocks_okb (P.g_snd_blocks g) = true /\ KT.tables_ok (P.g_tables g) = true /\ forallb CQ.all_stable (P.g_quant g) = true /\
  VQ.nq_okb (P.g_vmt_nq g) = true /\ forallb TL.items_ok (P.g_snd_lines g) = true /\ forallb TL.items_ok (P.g_cho_lines g) = true /\
  forallb P.smd_line_okb (P.g_smd_lines g) = true /\ VB.bcfg_okb (P.g_vmt_blocks g) = true /\ VB.bcfg_shape_okb (P.g_vmt_blocks g) = true.
Proof.
  intros g H. unfold P.premises in H. rewrite !andb_true_iff in H. tauto.
Qed.

Theorem property :
  forall g : P.gen_objects, P.premises g = true ->
  (* command sequences: written, read back equal, second generation identical *)
  (forall v, CS.repr_okb (P.g_cmdseq g) v = true -> exists b, CS.write (P.g_cmdseq g) v = Some b /\ CS.parse (P.g_cmdseq g) b = Some v /\
     forall v', CS.parse (P.g_cmdseq g) b = Some v' -> CS.write (P.g_cmdseq g) v' = Some b) /\
  (* scenes.image: read back equal, table sorted by checksum, for both input forms and any dict keys *)
  (forall is_dict version pool kes, SC.image_ok_w version pool (map snd kes) ->
     exists b ps, SC.img_save_g (P.g_image g) is_dict version pool kes = Some b /\
       SI.img_parse b = Some (version, pool, ps) /\ ps = map (SI.to_pentry version pool) (SI.sort_by_crc (map snd kes)) /\
       StronglySorted N.le (map SI.p_crc ps)) /\
  (* ... with the string pool the writer builds itself, every sound comes back as its string *)
  (forall is_dict version pool0 kes, let pool := SC.pool_g (P.g_image g) is_dict pool0 kes in
     SC.image_ok_w version pool (map (SC.resolve pool) (map snd kes)) ->
     exists b, SC.img_save_s (P.g_image g) is_dict version pool0 kes = Some b /\
       SI.img_parse b = Some (version, pool, map (SC.to_pentry_s version) (SC.sort_by SC.s_crc (map snd kes)))) /\
  (* ... and equal images give identical files *)
  (forall d1 d2 version pool0 kes1 kes2, Permutation (map snd kes1) (map snd kes2) -> NoDup (map SC.s_crc (map snd kes1)) ->
     SC.img_save_s (P.g_image g) d1 version pool0 kes1 = SC.img_save_s (P.g_image g) d2 version pool0 kes2) /\
  (* binary scenes: every layout decodes what it encoded, the second generation is identical, every stored quantised field is stable *)
  (forall l env v b r, CB.enc l env v = Some b -> CB.dec l env (b ++ r) = Some (v, r)) /\
  (forall l env v b v' r, CB.enc l env v = Some b -> CB.dec l env (b ++ r) = Some (v', r) -> CB.enc l env v' = Some b) /\
  (forall s, In s (P.g_quant g) -> forall k, (0 <= k <= CQ.q_max s)%Z -> CQ.quant s (CQ.dequant s k) = Some k) /\
  (* soundscript operator stacks: the value comes back, identically the second time, whatever lazy property was read before *)
  (forall (A : Type) (x : SK.sound A), SK.same_value (SK.parse (fst (SK.export (P.g_snd_guard g) (P.g_snd_blocks g) x))) x /\
     fst (SK.export (P.g_snd_guard g) (P.g_snd_blocks g) (SK.parse (fst (SK.export (P.g_snd_guard g) (P.g_snd_blocks g) x))))
       = fst (SK.export (P.g_snd_guard g) (P.g_snd_blocks g) x) /\
     forall ts, fst (SK.export (P.g_snd_guard g) (P.g_snd_blocks g) (SK.touches ts x)) = fst (SK.export (P.g_snd_guard g) (P.g_snd_blocks g) x)) /\
  (* SMD: the nodes section reads back as the bones; every writer table has a key that determines what the reader identifies *)
  (forall bs ls, NoDup (map SN.bkey bs) -> SN.number bs = Some ls ->
     exists perm, Permutation perm bs /\ SN.read_nodes [] ls = Some (map SN.bone_rec perm)) /\
  (forall name adm fields k, In (name, adm, fields, k) (P.g_tables g) -> DD.key_determines adm fields k = true) /\
  (* SMD: every other written line splits at whitespace into exactly its fields; the bone line is read back by the reader's pattern *)
  (forall l, In l (P.g_smd_lines g) ->
     (SW.delim true l = true /\ forall ps, map fst ps = l -> SW.values_wordy ps = true -> SW.words (SW.render ps) = SW.fields ps) \/
     (SW.nodes_line_shape l = true /\ forall a b idx nm par, l = [ST.ConvInt; ST.Lit a; ST.ConvStr; ST.Lit b; ST.ConvInt] ->
        SW.all_digits idx = true -> forallb (fun c => negb (c =? 34)%N) nm = true -> SW.int_text par = true ->
        SW.parse_nodes (SW.render [(ST.ConvInt, idx); (ST.Lit a, []); (ST.ConvStr, nm); (ST.Lit b, []); (ST.ConvInt, par)])
        = Some (idx, nm, par))) /\
  (* VMT (parameter-only materials): the file is read as shader, brace, the pairs in order, brace; the file determines the material *)
  (forall E shader ps, VQP.shader_ok shader = true -> VQP.params_ok (P.g_vmt_nq g) ps = true ->
     KvLex.lex_all E (VQ.vmt_file (P.g_vmt_nq g) shader ps) = (VQ.vmt_tokens shader ps, None)) /\
  (forall s1 p1 s2 p2, VQP.shader_ok s1 = true -> VQP.params_ok (P.g_vmt_nq g) p1 = true -> VQP.shader_ok s2 = true ->
     VQP.params_ok (P.g_vmt_nq g) p2 = true -> VQ.vmt_file (P.g_vmt_nq g) s1 p1 = VQ.vmt_file (P.g_vmt_nq g) s2 p2 -> s1 = s2 /\ p1 = p2) /\
  (* VMT with sub-blocks and proxies: the file is read as shader, brace, the pairs, the canonical tokens of every block (name, brace,
     children, brace / name, value), the Proxies frame with its blocks, brace; and a reader of such tokens gives the trees back *)
  (forall E shader ps blocks proxies, KvSym.esc_ok E = true -> VQP.shader_ok shader = true -> VQP.params_ok (P.g_vmt_nq g) ps = true ->
     forallb (VB.tree_ok (P.g_vmt_blocks g)) blocks = true -> forallb (VB.tree_ok (P.g_vmt_blocks g)) proxies = true ->
     KvLex.lex_all E (VB.vmt_file_b E (P.g_vmt_blocks g) (P.g_vmt_nq g) shader ps blocks proxies)
       = (VB.vmt_tokens_b (P.g_vmt_blocks g) shader ps blocks proxies, None) /\
     (forall t, VB.block_toks (P.g_vmt_blocks g) t = VB.kv_toks t) /\
     (forall st, VBP.reads (flat_map VB.kv_toks blocks ++ [KvBase.TBC; KvBase.TNL] ++ st) blocks st)) /\
  (* soundscripts and text scenes: every structured line the writers can emit is lexed back as its keywords and field values *)
  (forall E ind its vs l, KvSym.esc_ok E = true -> KvSym.ws_only ind = true -> In its (P.g_snd_lines g ++ P.g_cho_lines g) ->
     TL.vals_ok its vs = true -> KvLexProofs.lexes E l (TL.render E ind its vs) (TL.toks its vs) (TL.lines its l)).
Proof.
  intros g H. destruct (premises_split g H) as (Hc & Hic & Hg & Hws & Hts & Hqs & Hnq & Hsl & Hcl & Hsmd & Hvb & Hvs).
  refine (conj _ (conj _ (conj _ (conj _ (conj _ (conj _ (conj _ (conj _ (conj _ (conj _ (conj _ (conj _ (conj _ (conj _ _)))))))))))))).
  - intros v Hv. destruct (CSP.file_roundtrip _ v Hc (CSP.repr_okb_ok _ v Hv)) as (b & Hw & Hp). exists b. repeat split; try assumption.
    intros v' Hp'. exact (CSP.second_generation _ v b v' Hc (CSP.repr_okb_ok _ v Hv) Hw Hp').
  - intros is_dict version pool kes Hok.
    destruct (SCP.save_g_roundtrip _ is_dict version pool kes Hic Hok) as (b & Hs & Hp).
    destruct (SCP.save_g_table_sorted _ is_dict version pool kes Hic Hok) as (b' & ps & Hs' & Hp' & Hsorted & _).
    rewrite Hs in Hs'. injection Hs' as <-. rewrite Hp in Hp'. injection Hp' as <-.
    exists b, (map (SI.to_pentry version pool) (SI.sort_by_crc (map snd kes))). repeat split; assumption.
  - intros is_dict version pool0 kes pool Hok. exact (SCP.save_s_roundtrip _ is_dict version pool0 kes Hic Hok).
  - intros d1 d2 version pool0 kes1 kes2 Hperm Hnd. exact (SCP.save_s_order_independent _ d1 d2 version pool0 kes1 kes2 Hic Hperm Hnd).
  - exact CBP.dec_enc.
  - exact CBP.enc_dec_enc.
  - intros s Hs k Hk. rewrite forallb_forall in Hqs. exact (CQ.quant_dequant s (Hqs s Hs) k Hk).
  - intros A x. split; [|split].
    + exact (SKP.parse_export_same_value A _ _ x Hg Hws).
    + exact (SKP.second_generation_identical A _ _ x Hg Hws).
    + intro ts. exact (SKP.export_observer_independent A _ _ ts x Hg Hws).
  - exact SNP.number_reads_back_distinct.
  - intros name adm fields k Hin. unfold KT.tables_ok in Hts. rewrite forallb_forall in Hts. exact (Hts _ Hin).
  - intros l Hin. rewrite forallb_forall in Hsmd. specialize (Hsmd l Hin). unfold P.smd_line_okb in Hsmd.
    apply orb_true_iff in Hsmd. destruct Hsmd as [Hd | Hn].
    + left. split; [assumption|]. intros ps Hps Hw. apply (SW.delimited_line_splits ps true); [rewrite Hps; assumption | assumption].
    + right. split; [assumption|]. intros a b idx nm par -> Hi Hnm Hpar. exact (SW.nodes_line_reads_back a b idx nm par Hn Hi Hnm Hpar).
  - intros E shader ps Hsh Hps. exact (VQP.vmt_file_reads_back E _ shader ps Hnq Hsh Hps).
  - intros s1 p1 s2 p2 H1 H2 H3 H4 Heq. exact (VQP.vmt_file_determines_material _ s1 p1 s2 p2 Hnq H1 H2 H3 H4 Heq).
  - intros E shader ps blocks proxies HE Hsh Hps Hb Hp. split; [|split].
    + exact (VBP.vmt_file_b_reads_back E _ HE Hvb _ shader ps blocks proxies Hnq Hsh Hps Hb Hp).
    + exact (VBP.block_toks_canonical _ Hvs).
    + intro st. exact (VBP.read_blocks_kv blocks st).
  - intros E ind its vs l HE Hind Hin Hv. apply in_app_or in Hin. destruct Hin as [Hin | Hin].
    + exact (TLP.lines_lex E ind _ HE Hind Hsl its vs l Hin Hv).
    + exact (TLP.lines_lex E ind _ HE Hind Hcl its vs l Hin Hv).
Qed.

(** Non-vacuity: a record of the shape the translators produce for the pinned tree (cmdseq configuration as generated on 2026-09-29,
    the reference configurations of the other models, a few of the generated lines) satisfies [premises].  On every run the check
    discharges [premises] for the record built from the Gen files themselves. *)
From Coq Require Import String.
Definition pinned_cmdseq : CS.cfg := {|
  CS.c_header := [87;111;114;108;100;99;114;97;102;116;32;67;111;109;109;97;110;100;32;83;101;113;117;101;110;99;101;115;13;10;26]%N;
  CS.c_version_bits := 1045220557%N;
  CS.c_thr_num := 3602879701896397%Z; CS.c_thr_log2den := 54%Z; CS.c_thr_strict := true;
  CS.c_name_w := 128;
  CS.c_fmt_v2 := [CS.FB; CS.FI; CS.FS 260; CS.FS 260; CS.FI; CS.FI; CS.FS 260; CS.FI; CS.FI];
  CS.c_fmt_v1 := [CS.FB; CS.FI; CS.FS 260; CS.FS 260; CS.FI; CS.FI; CS.FS 260; CS.FI];
  CS.c_exe_w := 260; CS.c_args_w := 260; CS.c_ens_w := 260;
  CS.c_specials := [(256%N, [67;104;97;110;103;101;32;68;105;114;101;99;116;111;114;121]%N); (257%N, [67;111;112;121;32;70;105;108;101]%N);
                    (258%N, [68;101;108;101;116;101;32;70;105;108;101]%N); (259%N, [82;101;110;97;109;101;32;70;105;108;101]%N)]
|}.
Definition pinned_objects : P.gen_objects := P.mkGen pinned_cmdseq SC.ref_cfg SKP.ref_guard SKP.ref_blocks
  [("choreo.save_scenes_image_sync:add_to_pool", [], ["<value>"], DD.KValue);
   ("particles.Particle.export:name_to_elem", ["casefold"], ["name"], DD.KFields [("name", "casefold")]);
   ("smd.Mesh.export:bone_indexes", [], ["name"], DD.KFields [("name", "")])]%string
  [CQ.site_byte; CQ.site_abs] VQP.ref_nq
  [[TL.IWs [9]; TL.IWord [112; 105; 116; 99; 104] 32; TL.IQRaw; TL.INl]; [TL.IWs [9]; TL.IBC; TL.INl]]%N
  [[TL.IInd; TL.IWord [101; 118; 101; 110; 116] 32; TL.IWord [115; 112; 101; 97; 107] 32; TL.IQEsc; TL.INl]]%N
  [[ST.ConvInt; ST.Lit [32;34]%N; ST.ConvStr; ST.Lit [34;32]%N; ST.ConvInt];
   [ST.ConvInt; ST.Lit [32]%N; ST.ConvFloat 6; ST.Lit [32]%N; ST.ConvFloat 6; ST.Lit [32]%N; ST.ConvFloat 6; ST.Lit [32;32]%N; ST.ConvFloat 6;
    ST.Lit [32]%N; ST.ConvFloat 6; ST.Lit [32]%N; ST.ConvFloat 6];
   [ST.Lit [116;105;109;101;32]%N; ST.ConvInt]; [ST.ConvStr]; [ST.Lit [101;110;100]%N]]
  VB.ref_bcfg.
Example premises_satisfiable : P.premises pinned_objects = true.
Proof. vm_compute. reflexivity. Qed.
(** ... and the premise is not trivially true: the record with the table sorted by the dict key (seeded faults c20_1/3/5/7), with the
    version-2 test by presence (c20_4/8) or with Bone compared through casefold (c20_6) is rejected *)
Example premises_reject_the_seeded_fault_classes :
  P.premises (P.mkGen pinned_cmdseq SC.cfg_dict_key SKP.ref_guard SKP.ref_blocks (P.g_tables pinned_objects) (P.g_quant pinned_objects)
                VQP.ref_nq [] [] [] VB.ref_bcfg) = false /\
  P.premises (P.mkGen pinned_cmdseq SC.ref_cfg SKP.presence_guard SKP.ref_blocks (P.g_tables pinned_objects) (P.g_quant pinned_objects)
                VQP.ref_nq [] [] [] VB.ref_bcfg) = false /\
  P.premises (P.mkGen pinned_cmdseq SC.ref_cfg SKP.ref_guard SKP.ref_blocks
                [("smd.Mesh.export:bone_indexes", [], ["name"], DD.KFields [("name", "casefold")])]%string (P.g_quant pinned_objects)
                VQP.ref_nq [] [] [] VB.ref_bcfg) = false.
Proof. vm_compute. repeat split; reflexivity. Qed.
