(** The composed statement of C20 (round 4): proof.  Statement repeated in Props/C20.v. *)
From Coq Require Import List NArith ZArith Bool Sorted Permutation.
Import ListNotations.
From SV Require Fmt.CmdSeq Fmt.CmdSeqProofs Fmt.ScenesImage Fmt.ScenesImageCfg Fmt.ScenesImageCfgProofs Fmt.SndStacks Fmt.SndStacksProofs
  Fmt.ChoreoBin Fmt.ChoreoBinProofs Fmt.BspDedup Fmt.C20KeyTables Fmt.SmdNumber Fmt.SmdNumberProofs Fmt.ChoreoQuant.
Module CS := Fmt.CmdSeq. Module CSP := Fmt.CmdSeqProofs. Module SI := Fmt.ScenesImage. Module SC := Fmt.ScenesImageCfg.
Module SCP := Fmt.ScenesImageCfgProofs. Module SK := Fmt.SndStacks. Module SKP := Fmt.SndStacksProofs. Module CB := Fmt.ChoreoBin.
Module CBP := Fmt.ChoreoBinProofs. Module DD := Fmt.BspDedup. Module KT := Fmt.C20KeyTables. Module SN := Fmt.SmdNumber.
Module SNP := Fmt.SmdNumberProofs. Module CQ := Fmt.ChoreoQuant.

Theorem property_partial :
  forall (c : CS.cfg) (ic : SC.icfg) (A : Type) (g : list SK.gterm) (ws : list SK.wblock) (ts : list DD.dedup_table) (qs : list CQ.qsite),
  CS.cfg_okb c = true -> SC.icfg_okb ic = true -> SK.guard_okb g = true -> SK.blocks_okb ws = true ->
  KT.tables_ok ts = true -> forallb CQ.all_stable qs = true ->
  (* command sequences: written, read back equal, second generation identical *)
  (forall v, CS.repr_okb c v = true -> exists b, CS.write c v = Some b /\ CS.parse c b = Some v /\
                                                 forall v', CS.parse c b = Some v' -> CS.write c v' = Some b) /\
  (* scenes.image: read back equal (sorted by checksum), for both input forms and any dict keys *)
  (forall is_dict version pool kes, SC.image_ok_w version pool (map snd kes) ->
     exists b, SC.img_save_g ic is_dict version pool kes = Some b /\
       SI.img_parse b = Some (version, pool, map (SI.to_pentry version pool) (SI.sort_by_crc (map snd kes)))) /\
  (* binary scenes: every layout decodes what it encoded *)
  (forall l env v b r, CB.enc l env v = Some b -> CB.dec l env (b ++ r) = Some (v, r)) /\
  (* ... and every stored quantised field is stable *)
  (forall s, In s qs -> forall k, (0 <= k <= CQ.q_max s)%Z -> CQ.quant s (CQ.dequant s k) = Some k) /\
  (* soundscript operator stacks: the value comes back *)
  (forall x : SK.sound A, SK.same_value (SK.parse (fst (SK.export g ws x))) x) /\
  (* SMD: the nodes section reads back as the bones, through a table whose key keeps apart what the reader keeps apart *)
  (forall bs ls, NoDup (map SN.bkey bs) -> SN.number bs = Some ls ->
     exists perm, Permutation perm bs /\ SN.read_nodes [] ls = Some (map SN.bone_rec perm)) /\
  (forall name adm fields k, In (name, adm, fields, k) ts -> DD.key_determines adm fields k = true).
Proof.
  intros c ic A g ws ts qs Hc Hic Hg Hws Hts Hqs.
  refine (conj _ (conj _ (conj _ (conj _ (conj _ (conj _ _)))))).
  - intros v Hv. destruct (CSP.file_roundtrip c v Hc (CSP.repr_okb_ok c v Hv)) as (b & Hw & Hp). exists b. repeat split; try assumption.
    intros v' Hp'. exact (CSP.second_generation c v b v' Hc (CSP.repr_okb_ok c v Hv) Hw Hp').
  - intros is_dict version pool kes Hok. exact (SCP.save_g_roundtrip ic is_dict version pool kes Hic Hok).
  - exact CBP.dec_enc.
  - intros s Hs k Hk. rewrite forallb_forall in Hqs. exact (CQ.quant_dequant s (Hqs s Hs) k Hk).
  - intro x. exact (SKP.parse_export_same_value A g ws x Hg Hws).
  - exact SNP.number_reads_back_distinct.
  - intros name adm fields k Hin. unfold KT.tables_ok in Hts. rewrite forallb_forall in Hts. exact (Hts _ Hin).
Qed.
