(** C06, round 4: canonical order of membership lines (axiom-free). *)
From Coq Require Import List String Bool ZArith Lia Permutation Sorted.
From SV Require Import Fmt.VmfSets.
Import ListNotations.
Open Scope Z_scope.

Lemma insert_perm x l : Permutation (x :: l) (insert x l).
Proof.
  induction l as [|y r IH]; cbn [insert]; [apply Permutation_refl|].
  destruct (x <=? y); [apply Permutation_refl|].
  eapply perm_trans; [apply perm_swap|]. apply perm_skip. exact IH.
Qed.
Lemma isort_perm l : Permutation l (isort l).
Proof.
  induction l as [|x r IH]; cbn [isort]; [apply perm_nil|].
  eapply perm_trans; [apply perm_skip; exact IH|apply insert_perm].
Qed.

Lemma insert_sorted x l : StronglySorted Z.le l -> StronglySorted Z.le (insert x l).
Proof.
  induction 1 as [|y r Hs IH Hall]; cbn [insert].
  - constructor; constructor.
  - destruct (x <=? y) eqn:E.
    + constructor; [constructor; assumption|]. constructor; [lia|].
      rewrite Forall_forall in *. intros z Hz. specialize (Hall z Hz). lia.
    + constructor; [exact IH|]. rewrite Forall_forall in *. intros z Hz.
      apply (Permutation_in _ (Permutation_sym (insert_perm x r))) in Hz. destruct Hz as [<-|Hz]; [lia|auto].
Qed.
Lemma isort_sorted l : StronglySorted Z.le (isort l).
Proof. induction l; cbn [isort]; [constructor|apply insert_sorted; assumption]. Qed.

(** Two sorted lists with the same elements (as multisets) are equal. *)
Lemma sorted_perm_eq l1 : forall l2, StronglySorted Z.le l1 -> StronglySorted Z.le l2 -> Permutation l1 l2 -> l1 = l2.
Proof.
  induction l1 as [|a r1 IH]; intros l2 H1 H2 P.
  - apply Permutation_nil in P. auto.
  - destruct l2 as [|b r2]; [apply Permutation_sym, Permutation_nil in P; discriminate|].
    inversion H1 as [|? ? S1 A1]; subst. inversion H2 as [|? ? S2 A2]; subst.
    assert (a = b).
    { rewrite Forall_forall in A1, A2.
      assert (Hb : In b (a :: r1)) by (apply (Permutation_in _ (Permutation_sym P)); left; reflexivity).
      assert (Ha : In a (b :: r2)) by (apply (Permutation_in _ P); left; reflexivity).
      destruct Hb as [->|Hb]; [reflexivity|]. destruct Ha as [->|Ha]; [reflexivity|].
      specialize (A1 b Hb). specialize (A2 a Ha). lia. }
    subst b. f_equal. apply IH; trivial. apply Permutation_cons_inv with a. exact P.
Qed.

(** The text written for a set in canonical order does not depend on the iteration order: whatever history built the set,
    and whatever order the re-parsed set iterates in, the same lines are written -- the second export repeats the first. *)
Theorem members_canonical s1 s2 : NoDup s1 -> NoDup s2 -> same_set s1 s2 ->
  write_members true s1 = write_members true s2.
Proof.
  intros N1 N2 E. cbn [write_members]. apply sorted_perm_eq; try apply isort_sorted.
  eapply perm_trans; [apply Permutation_sym, isort_perm|]. eapply perm_trans; [|apply isort_perm].
  apply NoDup_Permutation; assumption.
Qed.

(** Nothing is lost or invented: the lines are the elements of the set. *)
Theorem members_content s : same_set (write_members true s) s.
Proof. intros x. cbn [write_members]. split; apply Permutation_in; [apply Permutation_sym|]; apply isort_perm. Qed.

(** Written in iteration order, two histories of the same set give different text. *)
Theorem members_iteration_order_refuted : same_set [8; 1] [1; 8] /\ write_members false [8; 1] <> write_members false [1; 8] /\
  write_members true [8; 1] = write_members true [1; 8].
Proof. split; [intros x; cbn; tauto|]. split; [discriminate|reflexivity]. Qed.

Theorem member_loops_ok_sound l : member_loops_ok l = true -> forall x, In x l -> ml_sorted x = true.
Proof. unfold member_loops_ok. rewrite forallb_forall. auto. Qed.
