(** Proofs about Fmt/BspContainer.v: what the reader recovers from a file the writer produced. *)
From Coq Require Import NArith List Bool Lia Arith.
From SV Require Import Bin.LE Fmt.BspContainer.
Import ListNotations.
Local Open Scope N_scope.

Lemma len_app : forall a b, len (a ++ b) = len a + len b.
Proof. intros. unfold len. rewrite app_length. lia. Qed.

Lemma enc32_len : forall n, length (enc32 n) = 4%nat.
Proof. intros. apply le_enc_length. Qed.
Lemma enc16_len : forall n, length (enc16 n) = 2%nat.
Proof. intros. apply le_enc_length. Qed.

(** The slice at the position where a block was written is the block. *)
Lemma slice_mid : forall pre x post off, N.to_nat off = length pre -> slice off (len x) (pre ++ x ++ post) = x.
Proof.
  intros pre x post off H. unfold slice, len. rewrite H, Nnat.Nat2N.id.
  rewrite skipn_app, skipn_all, Nat.sub_diag. cbn [skipn app].
  rewrite firstn_app, firstn_all, Nat.sub_diag. cbn [firstn]. apply app_nil_r.
Qed.

Lemma get32_mid : forall pre n post pos, N.to_nat pos = length pre -> n < 2 ^ 32 ->
  get32 (pre ++ enc32 n ++ post) pos = n.
Proof.
  intros pre n post pos H Hn. unfold get32.
  replace 4 with (len (enc32 n)) by (unfold len; now rewrite enc32_len).
  rewrite slice_mid by exact H. unfold enc32. apply le_dec_enc. exact Hn.
Qed.

Lemma get16_mid : forall pre n post pos, N.to_nat pos = length pre -> n < 2 ^ 16 ->
  get16 (pre ++ enc16 n ++ post) pos = n.
Proof.
  intros pre n post pos H Hn. unfold get16.
  replace 2 with (len (enc16 n)) by (unfold len; now rewrite enc16_len).
  rewrite slice_mid by exact H. unfold enc16. apply le_dec_enc. exact Hn.
Qed.

Section Proofs.
  Variable compress decompress : list N -> list N.
  Hypothesis lzma_inverse : forall d, decompress (compress d) = d.
  Variable L : layout.

  Notation segment := (segment compress L).
  Notation body := (body compress L).
  Notation offset_of := (offset_of compress L).
  Notation row := (row compress L).
  Notation write := (write compress L).
  Notation rd_row := (rd_row).
  Notation base := (base L).

  (** Payload placement: every lump of the write order is found again at the offset the table records, with
      the recorded length (no gaps, no overlap), whatever precedes and follows the body. *)
  Lemma body_slice : forall c order pos k pre post, In k order -> N.to_nat pos = length pre ->
    let off := offset_of c pos order k in
    slice off (len (segment c off k)) (pre ++ body c pos order ++ post) = segment c off k.
  Proof.
    intros c order. induction order as [|i r IH]; intros pos k pre post Hin Hpos; [destruct Hin|].
    cbn [BspContainer.body BspContainer.offset_of]. destruct (Nat.eqb i k) eqn:E.
    - apply Nat.eqb_eq in E. subst i. cbv zeta. rewrite <- app_assoc. apply slice_mid. exact Hpos.
    - assert (Hin' : In k r). { destruct Hin as [->|H]; [rewrite Nat.eqb_refl in E; discriminate | exact H]. }
      cbv zeta. rewrite <- app_assoc.
      rewrite (app_assoc pre). apply IH; [exact Hin'|].
      rewrite app_length. unfold len. lia.
  Qed.

  Lemma body_bound : forall c order pos k, In k order ->
    let off := offset_of c pos order k in
    pos <= off /\ off + len (segment c off k) <= pos + len (body c pos order).
  Proof.
    intros c order. induction order as [|i r IH]; intros pos k Hin; [destruct Hin|].
    cbn [BspContainer.body BspContainer.offset_of]. destruct (Nat.eqb i k) eqn:E.
    - apply Nat.eqb_eq in E. subst i. cbv zeta. rewrite len_app. lia.
    - assert (Hin' : In k r). { destruct Hin as [->|H]; [rewrite Nat.eqb_refl in E; discriminate | exact H]. }
      cbv zeta. rewrite len_app. specialize (IH (pos + len (segment c pos i)) k Hin'). cbv zeta in IH. lia.
  Qed.

  Lemma row_len : forall c i, length (row c i) = 16%nat.
  Proof.
    intros. unfold BspContainer.row. destruct (c_l4d2 c); repeat rewrite app_length; repeat rewrite enc32_len; reflexivity.
  Qed.

  Lemma rows_len : forall c a n, length (flat_map (row c) (seq a n)) = (16 * n)%nat.
  Proof.
    intros c a n. revert a. induction n as [|n IH]; intros a; cbn [seq flat_map]; [reflexivity|].
    rewrite app_length, row_len, IH. lia.
  Qed.

  Lemma rows_split : forall c n i, (i < n)%nat ->
    flat_map (row c) (seq 0 n) = flat_map (row c) (seq 0 i) ++ row c i ++ flat_map (row c) (seq (S i) (n - S i)).
  Proof.
    intros c n i Hi. replace n with (i + S (n - S i))%nat at 1 by lia.
    rewrite seq_app, flat_map_app. cbn [seq flat_map plus]. reflexivity.
  Qed.

  (** The file as prefix ++ row i ++ rest, with the prefix ending at 8 + 16 i. *)
  Lemma write_row_split : forall c i, (i < nlumps L)%nat -> exists pre post,
    write c = pre ++ row c i ++ post /\ length pre = (8 + 16 * i)%nat.
  Proof.
    intros c i Hi. unfold BspContainer.write. rewrite (rows_split c (nlumps L) i Hi).
    exists (magic_of L (c_version c) ++ enc32 (c_version c) ++ flat_map (row c) (seq 0 i)).
    eexists. split.
    - repeat rewrite <- app_assoc. reflexivity.
    - repeat rewrite app_length. rewrite enc32_len, rows_len.
      unfold magic_of. destruct (c_version c =? vitamin_version L); reflexivity.
  Qed.

  Lemma four_fields : forall pre a b c d post p, N.to_nat p = length pre ->
    a < 2 ^ 32 -> b < 2 ^ 32 -> c < 2 ^ 32 -> d < 2 ^ 32 ->
    let f := pre ++ (enc32 a ++ enc32 b ++ enc32 c ++ enc32 d) ++ post in
    get32 f p = a /\ get32 f (p + 4) = b /\ get32 f (p + 8) = c /\ get32 f (p + 12) = d.
  Proof.
    intros pre a b c d post p Hp Ha Hb Hc Hd f. unfold f. repeat rewrite <- app_assoc. split; [|split; [|split]].
    - apply get32_mid; assumption.
    - rewrite (app_assoc pre). apply get32_mid; [|assumption]. rewrite app_length, enc32_len. lia.
    - rewrite (app_assoc pre), (app_assoc (pre ++ _)). apply get32_mid; [|assumption].
      repeat rewrite app_length. repeat rewrite enc32_len. lia.
    - rewrite (app_assoc pre), (app_assoc (pre ++ _)), (app_assoc ((pre ++ _) ++ _)). apply get32_mid; [|assumption].
      repeat rewrite app_length. repeat rewrite enc32_len. lia.
  Qed.

  (** What the table row of lump [i] says. *)
  Definition row_off (c : container) (i : nat) : N := offset_of c base (worder L) i.
  Definition row_len_ (c : container) (i : nat) : N := len (segment c (row_off c i) i).
  Definition row_ver (c : container) (i : nat) : N := if Nat.eqb i (gidx L) then 0 else l_ver (nth i (c_lumps c) lump0).
  Definition row_four (c : container) (i : nat) : N := if Nat.eqb i (gidx L) then 0 else fourcc L i (nth i (c_lumps c) lump0).

  Lemma rd_row_write : forall c i, (i < nlumps L)%nat ->
    row_off c i < 2 ^ 32 -> row_len_ c i < 2 ^ 32 -> row_ver c i < 2 ^ 32 -> row_four c i < 2 ^ 32 ->
    rd_row (write c) (c_l4d2 c) i = (row_off c i, row_len_ c i, row_ver c i, row_four c i).
  Proof.
    intros c i Hi H1 H2 H3 H4. destruct (write_row_split c i Hi) as (pre & post & Hw & Hpre).
    unfold BspContainer.rd_row. rewrite Hw.
    assert (Hp : N.to_nat (8 + 16 * N.of_nat i) = length pre) by lia.
    unfold BspContainer.row. fold (row_off c i). fold (row_len_ c i). fold (row_ver c i). fold (row_four c i).
    destruct (c_l4d2 c).
    - destruct (four_fields pre (row_ver c i) (row_off c i) (row_len_ c i) (row_four c i) post _ Hp H3 H1 H2 H4) as (A & B & C & D).
      cbv zeta in A, B, C, D. rewrite A, B, C, D. reflexivity.
    - destruct (four_fields pre (row_off c i) (row_len_ c i) (row_ver c i) (row_four c i) post _ Hp H1 H2 H3 H4) as (A & B & C & D).
      cbv zeta in A, B, C, D. rewrite A, B, C, D. reflexivity.
  Qed.

  (** ------------------------------------------------------------------ consequences of well-formedness *)
  Lemma forallbi_nth : forall {A} (p : nat -> A -> bool) (l : list A) (d : A) a i,
    forallbi p a l = true -> (i < length l)%nat -> p (a + i)%nat (nth i l d) = true.
  Proof.
    intros A p l d. induction l as [|x r IH]; intros a i H Hi; [cbn in Hi; lia|].
    cbn [forallbi] in H. apply andb_prop in H. destruct H as [Hx Hr]. destruct i as [|i].
    - now rewrite Nat.add_0_r.
    - cbn [nth]. replace (a + S i)%nat with (S a + i)%nat by lia. apply IH; [exact Hr | cbn in Hi; lia].
  Qed.

  Lemma write_len : forall c, len (write c) = base + len (body c base (worder L)).
  Proof.
    intros c. unfold BspContainer.write. repeat rewrite len_app. unfold len at 1 2 3 4.
    rewrite rows_len. repeat rewrite enc32_len.
    assert (length (magic_of L (c_version c)) = 4%nat) as -> by (unfold magic_of; destruct (_ =? _); reflexivity).
    unfold BspContainer.base. lia.
  Qed.

  Lemma write_body_split : forall c, exists hdr, write c = hdr ++ body c base (worder L) ++ [] /\ N.to_nat base = length hdr.
  Proof.
    intros c. exists (magic_of L (c_version c) ++ enc32 (c_version c) ++ flat_map (row c) (seq 0 (nlumps L)) ++ enc32 (c_rev c)).
    split.
    - unfold BspContainer.write. rewrite app_nil_r. repeat rewrite <- app_assoc. reflexivity.
    - repeat rewrite app_length. rewrite rows_len. repeat rewrite enc32_len.
      assert (length (magic_of L (c_version c)) = 4%nat) as -> by (unfold magic_of; destruct (_ =? _); reflexivity).
      unfold BspContainer.base. lia.
  Qed.

  (** ------------------------------------------------------------------ the game-lump directory *)
  Notation entry := (list N * N * N * N * N)%type.
  Definition enc_entry (e : entry) : list N :=
    match e with (id, fl, ver, off, ln) => rev id ++ enc16 fl ++ enc16 ver ++ enc32 off ++ enc32 ln end.
  Definition entry_ok (e : entry) : Prop :=
    match e with (id, fl, ver, off, ln) => length id = 4%nat /\ fl < 2 ^ 16 /\ ver < 2 ^ 16 /\ off < 2 ^ 32 /\ ln < 2 ^ 32 end.
  Notation gpayload := (gpayload compress).
  Notation gentries := (gentries compress).
  Notation gdata := (gdata compress).
  Notation gblock := (gblock compress).

  (** The directory the writer emits, as a list of entries. *)
  Fixpoint gexp (pos : N) (gs : list glump) : list entry :=
    match gs with
    | [] => []
    | g :: r => (g_id g, g_flags g, g_ver g, pos, len (g_data g))
                :: gexp (pos + len (gpayload g) + (match r with [] => 0 | _ => 1 end)) r
    end.

  Lemma gentries_gexp : forall gs pos, gentries pos gs = flat_map enc_entry (gexp pos gs).
  Proof.
    induction gs as [|g r IH]; intros pos; [reflexivity|].
    cbn [BspContainer.gentries gexp flat_map enc_entry]. rewrite IH. repeat rewrite <- app_assoc. reflexivity.
  Qed.

  Lemma enc_entry_len : forall e, entry_ok e -> length (enc_entry e) = 16%nat.
  Proof.
    intros [[[[id fl] ver] off] ln] (Hid & _). cbn [enc_entry]. repeat rewrite app_length.
    rewrite rev_length, Hid, enc16_len, enc16_len, enc32_len, enc32_len. reflexivity.
  Qed.

  Lemma enc_entries_len : forall es, Forall entry_ok es -> length (flat_map enc_entry es) = (16 * length es)%nat.
  Proof.
    induction es as [|e r IH]; intros H; [reflexivity|]. inversion H; subst.
    cbn [flat_map length]. rewrite app_length, enc_entry_len, IH by assumption. lia.
  Qed.

  Lemma rd_gentry_at : forall pre e post start k, entry_ok e ->
    N.to_nat (start + 4 + 16 * N.of_nat k) = length pre ->
    rd_gentry (pre ++ enc_entry e ++ post) start k = e.
  Proof.
    intros pre [[[[id fl] ver] off] ln] post start k (Hid & Hfl & Hver & Hoff & Hln) Hp.
    unfold BspContainer.rd_gentry. cbn [enc_entry]. repeat rewrite <- app_assoc.
    set (p := start + 4 + 16 * N.of_nat k) in *.
    assert (E1 : slice p 4 (pre ++ rev id ++ enc16 fl ++ enc16 ver ++ enc32 off ++ enc32 ln ++ post) = rev id).
    { replace 4 with (len (rev id)) by (unfold len; now rewrite rev_length, Hid). apply slice_mid. exact Hp. }
    rewrite E1, rev_involutive.
    assert (E2 : get16 (pre ++ rev id ++ enc16 fl ++ enc16 ver ++ enc32 off ++ enc32 ln ++ post) (p + 4) = fl).
    { rewrite (app_assoc pre). apply get16_mid; [|exact Hfl]. rewrite app_length, rev_length, Hid. lia. }
    assert (E3 : get16 (pre ++ rev id ++ enc16 fl ++ enc16 ver ++ enc32 off ++ enc32 ln ++ post) (p + 6) = ver).
    { rewrite (app_assoc pre), (app_assoc (pre ++ _)). apply get16_mid; [|exact Hver].
      repeat rewrite app_length. rewrite rev_length, Hid, enc16_len. lia. }
    assert (E4 : get32 (pre ++ rev id ++ enc16 fl ++ enc16 ver ++ enc32 off ++ enc32 ln ++ post) (p + 8) = off).
    { rewrite (app_assoc pre), (app_assoc (pre ++ _)), (app_assoc ((pre ++ _) ++ _)). apply get32_mid; [|exact Hoff].
      repeat rewrite app_length. rewrite rev_length, Hid, enc16_len, enc16_len. lia. }
    assert (E5 : get32 (pre ++ rev id ++ enc16 fl ++ enc16 ver ++ enc32 off ++ enc32 ln ++ post) (p + 12) = ln).
    { rewrite (app_assoc pre), (app_assoc (pre ++ _)), (app_assoc ((pre ++ _) ++ _)), (app_assoc (((pre ++ _) ++ _) ++ _)).
      apply get32_mid; [|exact Hln]. repeat rewrite app_length. rewrite rev_length, Hid, enc16_len, enc16_len, enc32_len. lia. }
    rewrite E2, E3, E4, E5. reflexivity.
  Qed.

  Lemma rd_gentries : forall es pre post start a, Forall entry_ok es ->
    N.to_nat (start + 4 + 16 * N.of_nat a) = length pre ->
    map (rd_gentry (pre ++ flat_map enc_entry es ++ post) start) (seq a (length es)) = es.
  Proof.
    induction es as [|e r IH]; intros pre post start a Hok Hp; [reflexivity|].
    inversion Hok as [|? ? He Hr]; subst. cbn [length seq map flat_map]. f_equal.
    - rewrite <- app_assoc. apply rd_gentry_at; assumption.
    - rewrite <- app_assoc, (app_assoc pre). apply IH; [exact Hr|].
      rewrite app_length, (enc_entry_len e He). lia.
  Qed.

  (** Reading the payload area back, given the directory the writer emitted. *)
  Lemma rd_games_gexp : forall gs pre post pos, N.to_nat pos = length pre ->
    rd_games decompress (pre ++ gdata gs ++ post) (pos + len (gdata gs)) (gexp pos gs) = gs.
  Proof.
    induction gs as [|g r IH]; intros pre post pos Hp; [reflexivity|].
    cbn [gexp BspContainer.rd_games BspContainer.gdata].
    set (pl := gpayload g). set (sep := match r with [] => [] | _ => [0] end).
    assert (Hsep : len sep = match r with [] => 0 | _ => 1 end) by (unfold sep; destruct r; reflexivity).
    assert (Hstored : match gexp (pos + len pl + match r with [] => 0 | _ => 1 end) r with
                      | (_, _, _, off', _) :: _ => off' - pos - 1
                      | [] => pos + len (pl ++ sep ++ gdata r) - pos
                      end = len pl).
    { destruct r as [|g' r']; cbn [gexp].
      - unfold sep. cbn [BspContainer.gdata]. repeat rewrite len_app. unfold len at 2 3. cbn [length]. lia.
      - lia. }
    rewrite Hstored.
    assert (Hpl : slice pos (len pl) (pre ++ (pl ++ sep ++ gdata r) ++ post) = pl).
    { rewrite <- app_assoc. apply slice_mid. exact Hp. }
    f_equal.
    - destruct g as [id fl ver d]. unfold pl, BspContainer.gpayload, g_comp in *. cbn [g_id g_flags g_ver g_data] in *.
      destruct (N.odd fl).
      + rewrite Hpl, lzma_inverse. reflexivity.
      + rewrite Hpl. reflexivity.
    - replace (pos + len (pl ++ sep ++ gdata r)) with ((pos + len pl + match r with [] => 0 | _ => 1 end) + len (gdata r))
        by (repeat rewrite len_app; rewrite Hsep; lia).
      rewrite <- app_assoc, <- app_assoc, (app_assoc pre), (app_assoc (pre ++ pl)).
      apply IH. repeat rewrite app_length. rewrite <- Hsep. unfold len. lia.
  Qed.

  Lemma gexp_bounds : forall gs pos lim, pos + len (gdata gs) <= lim -> lim < 2 ^ 32 ->
    forallb glump_ok gs = true -> Forall entry_ok (gexp pos gs).
  Proof.
    induction gs as [|g r IH]; intros pos lim Hb Hlim Hok; [constructor|].
    cbn [forallb] in Hok. apply andb_prop in Hok. destruct Hok as [Hg Hr].
    cbn [gexp BspContainer.gdata] in *. repeat rewrite len_app in Hb.
    assert (E : len (match r with [] => [] | _ => [0] end) = match r with [] => 0 | _ => 1 end) by (destruct r; reflexivity).
    constructor.
    - unfold glump_ok in Hg.
      apply andb_prop in Hg. destruct Hg as [Hg G7]. apply andb_prop in Hg. destruct Hg as [Hg G6].
      apply andb_prop in Hg. destruct Hg as [Hg G5]. apply andb_prop in Hg. destruct Hg as [Hg G4].
      apply andb_prop in Hg. destruct Hg as [Hg G3]. apply andb_prop in Hg. destruct Hg as [G1 G2].
      apply Nat.eqb_eq in G1. apply N.ltb_lt in G4, G5, G7. cbn [entry_ok].
      split; [exact G1|]. split; [exact G4|]. split; [exact G5|]. split; lia.
    - apply (IH _ lim); [|exact Hlim | exact Hr]. rewrite E in Hb. lia.
  Qed.

  Lemma gexp_length : forall gs pos, length (gexp pos gs) = length gs.
  Proof. induction gs as [|g r IH]; intros pos; cbn [gexp length]; [reflexivity | now rewrite IH]. Qed.

  Lemma gexp_not_dummy : forall gs pos, forallb glump_ok gs = true ->
    filter (fun e => negb (is_dummy e)) (gexp pos gs) = gexp pos gs.
  Proof.
    induction gs as [|g r IH]; intros pos Hok; [reflexivity|].
    cbn [forallb] in Hok. apply andb_prop in Hok. destruct Hok as [Hg Hr]. cbn [gexp filter is_dummy].
    unfold glump_ok in Hg.
    apply andb_prop in Hg. destruct Hg as [Hg _]. apply andb_prop in Hg. destruct Hg as [Hg _].
    apply andb_prop in Hg. destruct Hg as [Hg _]. apply andb_prop in Hg. destruct Hg as [Hg _].
    apply andb_prop in Hg. destruct Hg as [_ G3]. apply negb_true_iff in G3. rewrite G3. cbn [negb]. now rewrite IH.
  Qed.

  Lemma gentries_len : forall gs pos, forallb glump_ok gs = true -> length (gentries pos gs) = (16 * length gs)%nat.
  Proof.
    induction gs as [|g r IH]; intros pos Hok; [reflexivity|].
    cbn [forallb] in Hok. apply andb_prop in Hok. destruct Hok as [Hg Hr].
    unfold glump_ok in Hg.
    apply andb_prop in Hg. destruct Hg as [Hg _]. apply andb_prop in Hg. destruct Hg as [Hg _].
    apply andb_prop in Hg. destruct Hg as [Hg _]. apply andb_prop in Hg. destruct Hg as [Hg _].
    apply andb_prop in Hg. destruct Hg as [Hg _]. apply andb_prop in Hg. destruct Hg as [G1 _]. apply Nat.eqb_eq in G1.
    cbn [BspContainer.gentries length]. repeat rewrite app_length.
    rewrite rev_length, G1, enc16_len, enc16_len, enc32_len, enc32_len, IH by exact Hr. lia.
  Qed.

  Lemma gblock_len : forall gs start, forallb glump_ok gs = true ->
    len (gblock start gs) = 4 + 16 * (N.of_nat (length gs) + (if dummy_needed gs then 1 else 0)) + len (gdata gs).
  Proof.
    intros gs start Hok. unfold BspContainer.gblock. repeat rewrite len_app. unfold len at 1 2 3.
    rewrite enc32_len, (gentries_len gs _ Hok). destruct (dummy_needed gs).
    - repeat rewrite app_length. rewrite enc32_len. cbn [length]. lia.
    - cbn [length]. lia.
  Qed.

  Lemma body_split : forall c order pos k, In k order -> exists a b,
    body c pos order = a ++ segment c (offset_of c pos order k) k ++ b /\ pos + len a = offset_of c pos order k.
  Proof.
    intros c order. induction order as [|i r IH]; intros pos k Hin; [destruct Hin|].
    cbn [BspContainer.body BspContainer.offset_of]. destruct (Nat.eqb i k) eqn:E.
    - apply Nat.eqb_eq in E. subst i. exists [], (body c (pos + len (segment c pos k)) r). split; [reflexivity|]. unfold len. cbn. lia.
    - assert (Hin' : In k r). { destruct Hin as [->|H]; [rewrite Nat.eqb_refl in E; discriminate | exact H]. }
      destruct (IH (pos + len (segment c pos i)) k Hin') as (a & b & Hb & Ha).
      exists (segment c pos i ++ a), b. split.
      + cbv zeta. rewrite Hb. now rewrite <- app_assoc.
      + rewrite len_app. lia.
  Qed.

  (** The whole game lump: count, directory (with the dummy entry filtered out), payloads. *)
  Lemma gblock_read : forall gs pre post start, N.to_nat start = length pre ->
    forallb glump_ok gs = true ->
    start + 4 + 16 * (N.of_nat (length gs) + 1) + len (gdata gs) < 2 ^ 32 ->
    let f := pre ++ gblock start gs ++ post in
    let cnt := N.to_nat (get32 f start) in
    len (gblock start gs) = 4 + 16 * (N.of_nat (length gs) + (if dummy_needed gs then 1 else 0)) + len (gdata gs) /\
    rd_games decompress f (start + len (gblock start gs))
      (filter (fun e => negb (is_dummy e)) (map (rd_gentry f start) (seq 0 cnt))) = gs.
  Proof.
    intros gs pre post start Hp Hok Hlim f cnt.
    set (dm := dummy_needed gs) in *.
    set (n := N.of_nat (length gs) + (if dm then 1 else 0)) in *.
    set (dstart := start + 4 + 16 * n) in *.
    set (dme := if dm then [([0; 0; 0; 0], 0, 0, dstart + len (gdata gs), 0)] else @nil entry).
    assert (Hn : n <= N.of_nat (length gs) + 1) by (unfold n; destruct dm; lia).
    assert (Hes : Forall entry_ok (gexp dstart gs ++ dme)).
    { apply Forall_app. split.
      - apply (gexp_bounds gs dstart (dstart + len (gdata gs))); [lia | unfold dstart; lia | exact Hok].
      - unfold dme. destruct dm; constructor; [|constructor]. cbn [entry_ok length].
        split; [reflexivity|]. split; [lia|]. split; [lia|]. split; [unfold dstart|]; lia. }
    assert (Hblock : gblock start gs = enc32 n ++ flat_map enc_entry (gexp dstart gs ++ dme) ++ gdata gs).
    { unfold BspContainer.gblock. fold dm. fold n. fold dstart. rewrite gentries_gexp, flat_map_app.
      unfold dme. destruct dm; cbn [flat_map enc_entry app rev]; repeat rewrite <- app_assoc; reflexivity. }
    assert (Hnes : length (gexp dstart gs ++ dme) = N.to_nat n).
    { rewrite app_length, gexp_length. unfold n, dme. destruct dm; cbn [length]; lia. }
    assert (Hlen : len (gblock start gs) = 4 + 16 * n + len (gdata gs)).
    { rewrite Hblock. repeat rewrite len_app. unfold len at 1 2. rewrite enc32_len, (enc_entries_len _ Hes), Hnes. lia. }
    split; [exact Hlen|].
    assert (Hcnt : get32 f start = n).
    { unfold f. rewrite Hblock. repeat rewrite <- app_assoc. apply get32_mid; [exact Hp | lia]. }
    unfold cnt. rewrite Hcnt, <- Hnes.
    assert (Hmap : map (rd_gentry f start) (seq 0 (length (gexp dstart gs ++ dme))) = gexp dstart gs ++ dme).
    { unfold f. rewrite Hblock. repeat rewrite <- app_assoc. rewrite (app_assoc pre).
      apply rd_gentries; [exact Hes|]. rewrite app_length, enc32_len. lia. }
    rewrite Hmap, filter_app, (gexp_not_dummy gs dstart Hok).
    assert (filter (fun e : entry => negb (is_dummy e)) dme = []) as ->.
    { unfold dme. destruct dm; reflexivity. }
    rewrite app_nil_r.
    replace (start + len (gblock start gs)) with (dstart + len (gdata gs)) by (rewrite Hlen; unfold dstart; lia).
    unfold f. rewrite Hblock. repeat rewrite <- app_assoc.
    rewrite (app_assoc pre), (app_assoc (pre ++ _)).
    apply rd_games_gexp. repeat rewrite app_length. rewrite enc32_len, (enc_entries_len _ Hes), Hnes. unfold dstart. lia.
  Qed.

  Section WF.
    Variable c : container.
    Hypothesis LOK : layout_ok L = true.
    Hypothesis WF : wf compress L c = true.

    Lemma lok : (0 < nlumps L)%nat /\ (gidx L < nlumps L)%nat /\ (pak L < nlumps L)%nat /\ gidx L <> pak L /\
      (forall i, (i < nlumps L)%nat -> In i (worder L)) /\ l4d2_version L <> vitamin_version L.
    Proof.
      pose proof LOK as H. unfold layout_ok in H.
      apply andb_prop in H. destruct H as [H H0]. apply andb_prop in H. destruct H as [H H1].
      apply andb_prop in H. destruct H as [H H2]. apply andb_prop in H. destruct H as [H H3].
      apply andb_prop in H. destruct H as [H H4].
      apply Nat.ltb_lt in H. apply Nat.ltb_lt in H4. apply Nat.ltb_lt in H3. apply negb_true_iff in H2. apply Nat.eqb_neq in H2.
      apply negb_true_iff in H0. apply N.eqb_neq in H0.
      split; [exact H|]. split; [exact H4|]. split; [exact H3|]. split; [exact H2|]. split; [|exact H0].
      intros i Hi. rewrite forallb_forall in H1. specialize (H1 i). rewrite in_seq in H1. specialize (H1 ltac:(lia)).
      apply existsb_exists in H1. destruct H1 as [x [Hx He]]. apply Nat.eqb_eq in He. now subst.
    Qed.

    Lemma wf_parts : length (c_lumps c) = nlumps L /\
      (forall i, (i < nlumps L)%nat -> lump_ok L i (nth i (c_lumps c) lump0) = true) /\
      forallb glump_ok (c_games c) = true /\ ids_nodup (c_games c) = true /\
      c_version c < 2 ^ 31 /\ c_rev c < 2 ^ 31 /\
      (c_l4d2 c = true -> c_version c = l4d2_version L /\ l_ver (nth 0 (c_lumps c) lump0) = 0) /\
      len (write c) < 2 ^ 31.
    Proof.
      pose proof WF as H. unfold wf in H.
      apply andb_prop in H. destruct H as [H W8]. apply andb_prop in H. destruct H as [H W7].
      apply andb_prop in H. destruct H as [H W6]. apply andb_prop in H. destruct H as [H W5].
      apply andb_prop in H. destruct H as [H W4]. apply andb_prop in H. destruct H as [H W3].
      apply andb_prop in H. destruct H as [W1 W2].
      apply Nat.eqb_eq in W1. apply N.ltb_lt in W5, W6, W8.
      split; [exact W1|]. split.
      { intros i Hi. rewrite <- W1 in Hi. exact (forallbi_nth (lump_ok L) (c_lumps c) lump0 0 i W2 Hi). }
      split; [exact W3|]. split; [exact W4|]. split; [exact W5|]. split; [exact W6|]. split; [|exact W8].
      intros E. rewrite E in W7. apply andb_prop in W7. destruct W7 as [A B]. apply N.eqb_eq in A, B. auto.
    Qed.

    Lemma row_bounds : forall i, (i < nlumps L)%nat ->
      base <= row_off c i /\ row_off c i + row_len_ c i <= len (write c).
    Proof.
      intros i Hi. destruct lok as (_ & _ & _ & _ & Hin & _).
      pose proof (body_bound c (worder L) base i (Hin i Hi)) as Hb. cbv zeta in Hb.
      rewrite write_len. unfold row_off, row_len_. destruct Hb as [Hb1 Hb2]. split; [exact Hb1 | exact Hb2].
    Qed.

    (** Every lump comes back: version, data (through LZMA when flagged), compressed flag. *)
    Lemma read_lump_roundtrip : forall i, (i < nlumps L)%nat ->
      rd_lump decompress L (write c) (c_l4d2 c) i = nth i (c_lumps c) lump0.
    Proof.
      intros i Hi. destruct lok as (_ & Hg & Hp & Hgp & Hin & _).
      destruct wf_parts as (_ & Hl & _ & _ & _ & _ & _ & Hlen).
      destruct (row_bounds i Hi) as [Hb1 Hb2].
      specialize (Hl i Hi). unfold lump_ok in Hl.
      set (l := nth i (c_lumps c) lump0) in *.
      apply andb_prop in Hl. destruct Hl as [Hl Hk]. apply andb_prop in Hl. destruct Hl as [Hl Hdl].
      apply andb_prop in Hl. destruct Hl as [Hv Hbytes]. apply N.ltb_lt in Hv, Hdl.
      assert (Hver : row_ver c i < 2 ^ 32). { unfold row_ver. fold l. destruct (Nat.eqb i (gidx L)); lia. }
      assert (Hfour : row_four c i < 2 ^ 32).
      { unfold row_four, fourcc. fold l. destruct (Nat.eqb i (gidx L)); [lia|]. destruct (lcomp L i l); lia. }
      unfold BspContainer.rd_lump.
      rewrite (rd_row_write c i Hi ltac:(lia) ltac:(lia) Hver Hfour).
      destruct (write_body_split c) as (hdr & Hw & Hh).
      assert (Hs : slice (row_off c i) (row_len_ c i) (write c) = segment c (row_off c i) i).
      { rewrite Hw. unfold row_off, row_len_. apply (body_slice c (worder L) base i hdr [] (Hin i Hi) Hh). }
      rewrite Hs. unfold row_ver, row_four, BspContainer.segment. fold l.
      destruct (Nat.eqb i (gidx L)) eqn:Eg.
      - (* the game lump placeholder *)
        apply andb_prop in Hk. destruct Hk as [Hk Hd]. apply andb_prop in Hk. destruct Hk as [Hv0 Hc0].
        apply N.eqb_eq in Hv0. apply negb_true_iff in Hc0. destruct l as [v d cp]. cbn [l_ver l_data l_comp] in *.
        destruct d; [|discriminate]. subst. reflexivity.
      - unfold fourcc, payload, lcomp in *. destruct l as [v d cp]. cbn [l_ver l_data l_comp] in *.
        destruct (Nat.eqb i (pak L)) eqn:Ep.
        + apply negb_true_iff in Hk. subst. cbn [andb negb]. reflexivity.
        + cbn [negb]. rewrite andb_true_r. destruct cp; cbn [negb orb] in Hk.
          * destruct d as [|x d]; [discriminate|]. unfold len. cbn [length]. rewrite lzma_inverse.
            assert (0 <? N.of_nat (S (length d)) = true) as -> by (apply N.ltb_lt; lia). reflexivity.
          * reflexivity.
    Qed.

    Lemma read_lumps_roundtrip : map (rd_lump decompress L (write c) (c_l4d2 c)) (seq 0 (nlumps L)) = c_lumps c.
    Proof.
      destruct wf_parts as (Hn & _). rewrite <- Hn.
      erewrite map_ext_in.
      2:{ intros i Hi. rewrite in_seq in Hi. apply read_lump_roundtrip. lia. }
      clear. induction (c_lumps c) as [|x r IH] using rev_ind; [reflexivity|].
      rewrite app_length. cbn [length]. rewrite Nat.add_1_r, seq_S, map_app. cbn [map plus].
      rewrite app_nth2 by lia. rewrite Nat.sub_diag. cbn [nth]. f_equal.
      rewrite <- IH at 2. apply map_ext_in. intros i Hi. rewrite in_seq in Hi. apply app_nth1. lia.
    Qed.

    (** Header fields. *)
    Lemma read_version : get32 (write c) 4 = c_version c.
    Proof.
      destruct wf_parts as (_ & _ & _ & _ & Hv & _). unfold BspContainer.write.
      apply get32_mid; [|lia]. unfold magic_of. destruct (_ =? _); reflexivity.
    Qed.

    Lemma read_rev : get32 (write c) (8 + 16 * N.of_nat (nlumps L)) = c_rev c.
    Proof.
      destruct wf_parts as (_ & _ & _ & _ & _ & Hr & _). unfold BspContainer.write.
      rewrite (app_assoc (magic_of L _)), (app_assoc (magic_of L _ ++ _)). apply get32_mid; [|lia].
      repeat rewrite app_length. rewrite rows_len, enc32_len.
      assert (length (magic_of L (c_version c)) = 4%nat) as -> by (unfold magic_of; destruct (_ =? _); reflexivity). lia.
    Qed.

    Lemma read_magic : slice 0 4 (write c) = magic_of L (c_version c).
    Proof.
      unfold BspContainer.write.
      replace 4 with (len (magic_of L (c_version c))) by (unfold len, magic_of; destruct (_ =? _); reflexivity).
      apply (slice_mid [] (magic_of L (c_version c))). reflexivity.
    Qed.

    (** The L4D2 field order is recognised exactly when the file was written in it. *)
    Lemma read_l4d2 : (get32 (write c) 4 =? l4d2_version L) && (get32 (write c) 8 =? 0) = c_l4d2 c.
    Proof.
      rewrite read_version. destruct lok as (H0 & _).
      destruct wf_parts as (_ & Hl & _ & _ & _ & _ & Hl4 & Hlen).
      destruct (row_bounds 0 H0) as [Hb1 Hb2].
      destruct (write_row_split c 0 H0) as (pre & post & Hw & Hpre).
      assert (Hp : N.to_nat 8 = length pre) by lia.
      specialize (Hl 0%nat H0). unfold lump_ok in Hl.
      apply andb_prop in Hl. destruct Hl as [Hl _]. apply andb_prop in Hl. destruct Hl as [Hl _].
      apply andb_prop in Hl. destruct Hl as [Hv _]. apply N.ltb_lt in Hv.
      assert (Hver : row_ver c 0 < 2 ^ 32). { unfold row_ver. destruct (Nat.eqb 0 (gidx L)); lia. }
      assert (Hfour : row_four c 0 < 2 ^ 32).
      { unfold row_four, fourcc. destruct (Nat.eqb 0 (gidx L)); [lia|]. destruct (lcomp L 0 _); [|lia].
        specialize (wf_parts) as (_ & Hl' & _). specialize (Hl' 0%nat H0). unfold lump_ok in Hl'.
        apply andb_prop in Hl'. destruct Hl' as [Hl' _]. apply andb_prop in Hl'. destruct Hl' as [_ Hd]. apply N.ltb_lt in Hd. lia. }
      rewrite Hw. unfold BspContainer.row. fold (row_off c 0). fold (row_len_ c 0). fold (row_ver c 0). fold (row_four c 0).
      destruct (c_l4d2 c) eqn:E.
      - destruct (Hl4 eq_refl) as [Ev E0].
        destruct (four_fields pre (row_ver c 0) (row_off c 0) (row_len_ c 0) (row_four c 0) post 8 Hp Hver ltac:(lia) ltac:(lia) Hfour) as (A & _).
        cbv zeta in A. rewrite A. rewrite Ev, N.eqb_refl. unfold row_ver. rewrite E0. destruct (Nat.eqb 0 (gidx L)); reflexivity.
      - destruct (four_fields pre (row_off c 0) (row_len_ c 0) (row_ver c 0) (row_four c 0) post 8 Hp ltac:(lia) ltac:(lia) Hver Hfour) as (A & _).
        cbv zeta in A. rewrite A.
        assert (row_off c 0 =? 0 = false) as -> by (apply N.eqb_neq; unfold BspContainer.base in Hb1; lia).
        apply andb_false_r.
    Qed.

    Lemma read_games_roundtrip :
      let f := write c in
      match rd_row f (c_l4d2 c) (gidx L) with
      | (goff, glen, _, _) =>
          rd_games decompress f (goff + glen)
            (filter (fun e => negb (is_dummy e)) (map (rd_gentry f goff) (seq 0 (N.to_nat (get32 f goff))))) = c_games c
      end.
    Proof.
      cbv zeta. destruct lok as (_ & Hg & _ & _ & Hin & _).
      destruct wf_parts as (_ & Hl & Hgok & _ & _ & _ & _ & Hlen).
      destruct (row_bounds (gidx L) Hg) as [Hb1 Hb2].
      assert (Hseg : segment c (row_off c (gidx L)) (gidx L) = gblock (row_off c (gidx L)) (c_games c)).
      { unfold BspContainer.segment. now rewrite Nat.eqb_refl. }
      assert (Hver : row_ver c (gidx L) = 0) by (unfold row_ver; now rewrite Nat.eqb_refl).
      assert (Hfour : row_four c (gidx L) = 0) by (unfold row_four; now rewrite Nat.eqb_refl).
      rewrite (rd_row_write c (gidx L) Hg ltac:(lia) ltac:(lia) ltac:(lia) ltac:(lia)).
      destruct (write_body_split c) as (hdr & Hw & Hh).
      destruct (body_split c (worder L) base (gidx L) (Hin _ Hg)) as (a & b & Hbody & Ha).
      fold (row_off c (gidx L)) in Hbody, Ha. rewrite Hseg in Hbody.
      assert (Hfile : write c = (hdr ++ a) ++ gblock (row_off c (gidx L)) (c_games c) ++ b).
      { rewrite Hw, Hbody, app_nil_r. now repeat rewrite <- app_assoc. }
      assert (Hpre : N.to_nat (row_off c (gidx L)) = length (hdr ++ a)).
      { rewrite app_length. unfold len in Ha. lia. }
      unfold row_len_. rewrite Hseg.
      pose proof (gblock_len (c_games c) (row_off c (gidx L)) Hgok) as Hgl.
      unfold row_len_ in Hb2. rewrite Hseg in Hb2.
      assert (Hlim : row_off c (gidx L) + 4 + 16 * (N.of_nat (length (c_games c)) + 1) + len (gdata (c_games c)) < 2 ^ 32).
      { rewrite Hgl in Hb2. destruct (dummy_needed (c_games c)); lia. }
      pose proof (gblock_read (c_games c) (hdr ++ a) b (row_off c (gidx L)) Hpre Hgok Hlim) as Hr. cbv zeta in Hr.
      rewrite <- Hfile in Hr. exact (proj2 Hr).
    Qed.

    (** The reader recovers exactly the container the writer was given. *)
    Theorem container_roundtrip : read decompress L (write c) = Some c.
    Proof.
      pose proof read_games_roundtrip as Hgames. cbv zeta in Hgames.
      unfold BspContainer.read. cbv zeta.
      rewrite read_magic, read_l4d2, read_version, read_rev, read_lumps_roundtrip.
      destruct lok as (_ & _ & _ & _ & _ & Hne).
      assert (Hm : negb (bytes_eqb (magic_of L (c_version c)) magic_vbsp || bytes_eqb (magic_of L (c_version c)) magic_vitamin) = false
                   /\ bytes_eqb (magic_of L (c_version c)) magic_vitamin && negb (c_version c =? vitamin_version L) = false).
      { unfold magic_of. destruct (c_version c =? vitamin_version L); split; reflexivity. }
      destruct Hm as [-> ->].
      destruct (rd_row (write c) (c_l4d2 c) (gidx L)) as [[[goff glen] gv] gf].
      rewrite Hgames. destruct c; reflexivity.
    Qed.
  End WF.
End Proofs.

(** ---------------------------------------------------------------------- closed instances *)
Example std_layout_ok : layout_ok std_layout = true.
Proof. vm_compute. reflexivity. Qed.

(** A toy invertible "LZMA": prepend a marker byte. *)
Definition ex_compress (d : list N) : list N := 93 :: d.
Definition ex_decompress (z : list N) : list N := tl z.
Lemma ex_lzma_inverse : forall d, ex_decompress (ex_compress d) = d.
Proof. reflexivity. Qed.

Definition ex_sparse (xs : list (nat * lump)) : list lump :=
  map (fun i => match find (fun p => Nat.eqb (fst p) i) xs with Some p => snd p | None => lump0 end) (seq 0 64).
(** L4D2 field order, an LZMA lump, a pakfile, two game lumps of which the last is compressed (dummy entry). *)
Definition ex_container : container :=
  mkC 21 true 4711
      (ex_sparse [(0%nat, mkL 0 [123; 10; 125; 10; 0] true); (1%nat, mkL 2 [1; 2; 3; 4] false); (40%nat, mkL 0 [80; 75; 5; 6] false)])
      [mkG [115; 112; 114; 112] 0 6 [7; 7; 7]; mkG [100; 112; 114; 112] 1 4 [9; 8]].
Example ex_container_wf : wf ex_compress std_layout ex_container = true.
Proof. vm_compute. reflexivity. Qed.
Example ex_container_roundtrip :
  read ex_decompress std_layout (write ex_compress std_layout ex_container) = Some ex_container.
Proof. exact (container_roundtrip ex_compress ex_decompress ex_lzma_inverse std_layout ex_container std_layout_ok ex_container_wf). Qed.
(** 8 + 64*16 + 4 header bytes; the first lump payload starts right behind. *)
Example ex_container_first_offset : get32 (write ex_compress std_layout ex_container) (8 + 4) = 1036.
Proof. vm_compute. reflexivity. Qed.

(** The conditions of [wf] that are not mere range conditions are necessary. *)
(** A lump flagged compressed but empty is written as LZMA data with uncompressed size 0, which the reader takes for
    an uncompressed lump: flag lost, the LZMA wrapper becomes the data. *)
Definition ex_comp_empty : container := mkC 20 false 1 (ex_sparse [(1%nat, mkL 0 [] true)]) [].
Example compressed_empty_lump_refuted :
  wf ex_compress std_layout ex_comp_empty = false /\
  option_map (fun c => nth 1 (c_lumps c) lump0) (read ex_decompress std_layout (write ex_compress std_layout ex_comp_empty))
  = Some (mkL 0 [93] false).
Proof. vm_compute. split; reflexivity. Qed.
(** The compressed flag of the pakfile is dropped by the writer. *)
Definition ex_comp_pak : container := mkC 20 false 1 (ex_sparse [(40%nat, mkL 0 [80; 75] true)]) [].
Example compressed_pakfile_refuted :
  wf ex_compress std_layout ex_comp_pak = false /\
  option_map (fun c => nth 40 (c_lumps c) lump0) (read ex_decompress std_layout (write ex_compress std_layout ex_comp_pak))
  = Some (mkL 0 [80; 75] false).
Proof. vm_compute. split; reflexivity. Qed.
(** The version of the GAME_LUMP table row is always written as 0. *)
Definition ex_game_ver : container := mkC 20 false 1 (ex_sparse [(35%nat, mkL 3 [] false)]) [].
Example game_lump_version_refuted :
  wf ex_compress std_layout ex_game_ver = false /\
  option_map (fun c => nth 35 (c_lumps c) lump0) (read ex_decompress std_layout (write ex_compress std_layout ex_game_ver))
  = Some (mkL 0 [] false).
Proof. vm_compute. split; reflexivity. Qed.
(** An L4D2-order file whose first lump has a non-zero version is not recognised as such by the reader's test
    (version = 21 and the first table field = 0): it would be read in the standard field order, i.e. as garbage. *)
Definition ex_l4d2_ver : container := mkC 21 true 1 (ex_sparse [(0%nat, mkL 1 [65] false)]) [].
Example l4d2_first_version_refuted :
  let f := write ex_compress std_layout ex_l4d2_ver in
  wf ex_compress std_layout ex_l4d2_ver = false /\ c_l4d2 ex_l4d2_ver = true /\
  (get32 f 4 =? l4d2_version std_layout) && (get32 f 8 =? 0) = false.
Proof. vm_compute. repeat split; reflexivity. Qed.
