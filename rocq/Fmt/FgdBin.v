(** C16 — model of the small codecs of srctools._engine_db (binary FGD database):
    order tables (VALUE_TYPE_ORDER / FILE_TYPE_ORDER with their dict-comprehension inverses), the
    "index | 128" byte packings, EntFlags, spawnflag powers, the BinStrDict string dictionary, the
    little-endian 16-bit index and the separator-joined string lists. *)
From Coq Require Import List NArith Arith Bool String.
Import ListNotations.
Open Scope N_scope.

(** * Order tables: VALUE_TYPE_INDEX = {val: ind for ind, val in enumerate(ORDER)} (the LAST occurrence wins) *)
Fixpoint index_last_aux (v : string) (l : list string) (i : nat) (best : option nat) : option nat :=
  match l with
  | [] => best
  | x :: r => index_last_aux v r (S i) (if String.eqb x v then Some i else best)
  end.
Definition index_last (v : string) (l : list string) : option nat := index_last_aux v l 0 None.

Fixpoint mem_str (v : string) (l : list string) : bool :=
  match l with [] => false | x :: r => String.eqb x v || mem_str v r end.

(** every enum member is in the order list, nothing else is, and an index fits in 7 bits *)
Definition order_ok (order all : list string) : bool :=
  forallb (fun v => mem_str v order) all && forallb (fun v => mem_str v all) order && (List.length order <? 128)%nat.

Definition encode_type (order : list string) (v : string) : option nat := index_last v order.
Definition decode_type (order : list string) (i : nat) : option string := nth_error order i.

(** * index | 128  (kv type + readonly, spawnflag power + default, resource type + has-tags) *)
Definition pack_flag7 (idx : N) (flag : bool) : N := N.lor idx (if flag then 128 else 0).
Definition unpack_flag7 (b : N) : N * bool := (N.land b 127, negb (N.land b 128 =? 0)).

(** the three literals the source uses, as read by the translator *)
Definition flag7_consts_ok (set_bit idx_mask test_bit : N) : bool :=
  (set_bit =? 128) && (idx_mask =? 127) && (test_bit =? 128).

(** * EntFlags: type in the low bits, IS_ALIAS above *)
Definition pack_entflags (ty alias_bit : N) (is_alias : bool) : N := N.lor ty (if is_alias then alias_bit else 0).
Definition unpack_entflags (mask alias_bit b : N) : N * bool := (N.land b mask, negb (N.land alias_bit b =? 0)).

Definition entflags_ok (types : list N) (mask alias_bit : N) : bool :=
  forallb (fun ty => (N.land ty mask =? ty) && (N.land alias_bit ty =? 0)) types
  && (N.land alias_bit mask =? 0) && negb (alias_bit =? 0)
  && forallb (fun ty => (ty <? 256) && (N.lor ty alias_bit <? 256)) types.

Fixpoint flag_of_name (n : string) (l : list (string * N)) : option N :=
  match l with [] => None | (x, v) :: r => if String.eqb x n then Some v else flag_of_name n r end.
Fixpoint name_of_flag (v : N) (l : list (string * N)) : option string :=
  match l with [] => None | (x, w) :: r => if w =? v then Some x else name_of_flag v r end.
Fixpoint nodup_N (l : list N) : bool :=
  match l with [] => true | x :: r => negb (existsb (N.eqb x) r) && nodup_N r end.
Fixpoint nodup_str (l : list string) : bool :=
  match l with [] => true | x :: r => negb (mem_str x r) && nodup_str r end.

(** * Spawnflags: the mask 2^p is stored as p *)
Definition pack_spawnflag (mask : N) (default : bool) : N := pack_flag7 (N.log2 mask) default.
Definition unpack_spawnflag (b : N) : N * bool := let '(p, d) := unpack_flag7 b in (N.shiftl 1 p, d).

(** * Little-endian 16-bit string index *)
Definition pack16 (i : N) : N * N := (i mod 256, i / 256).
Definition unpack16 (b : N * N) : N := fst b + 256 * snd b.

(** * BinStrDict *)
Section StrDict.
Variable A : Type.
Variable eqb : A -> A -> bool.

Fixpoint index_first (s : A) (l : list A) : option nat :=
  match l with
  | [] => None
  | x :: r => if eqb x s then Some 0%nat else option_map S (index_first s r)
  end.

(** BinStrDict.__call__: strings of the shared dictionary keep their index, the block's own strings are
    offset by SHARED_STRINGS; None = KeyError. *)
Definition sd_encode (base own : list A) (shared : nat) (s : A) : option nat :=
  match index_first s base with
  | Some i => Some i
  | None => option_map (fun j => (shared + j)%nat) (index_first s own)
  end.
(** make_lookup(file, base + inv_list) *)
Definition sd_decode (base own : list A) (i : nat) : option A := nth_error (base ++ own) i.
End StrDict.

(** * STRING_SEP.join(...) / .split(STRING_SEP) *)
Fixpoint split_aux (sep : N) (s cur : list N) : list (list N) :=
  match s with
  | [] => [rev cur]
  | c :: r => if c =? sep then rev cur :: split_aux sep r [] else split_aux sep r (c :: cur)
  end.
Definition split_sep (sep : N) (s : list N) : list (list N) := split_aux sep s [].
Fixpoint join_sep (sep : N) (l : list (list N)) : list N :=
  match l with
  | [] => []
  | [x] => x
  | x :: r => x ++ sep :: join_sep sep r
  end.
Fixpoint mem_N (c : N) (l : list N) : bool := match l with [] => false | x :: r => (x =? c) || mem_N c r end.
