(** C15 — the life cycle of a [Frame] (vtf.py: class Frame) as a state machine over its two slots
    [_data] (decoded RGBA pixels, or None) and [_fileinfo] (where the stored bytes are in the file, or None),
    and the chain of mipmap levels of one (frame, depth/side) as [VTF.compute_mipmaps] and [VTF.save] treat it.

    What every method does to the two slots is NOT written here: translate/c15_frame.py runs an abstract
    interpretation of each method body of class Frame for the four abstract pre-states
    (data present?, file source present?) and emits one [efftable] per method (Gen/VtfFrameSM_gen.v); the
    check compares them with the tables below ([ideal_*]) in the kernel, one named obligation per method.
    [chaincfg] holds what the translator reads from [compute_mipmaps]/[save]/[rescale_from]
    (guard of the regeneration, whether the parent is loaded first, order of load/encode/write).
    Executable definitions only; proofs are in VtfFrameSMProofs.v. *)
From Coq Require Import List Bool Arith.
Import ListNotations.

(** Where the pixels of [_data] come from after a method ran. *)
Inductive dorigin :=
| DKeep      (* unchanged (and present) *)
| DNoneV     (* None *)
| DBlank     (* freshly allocated blank pixels *)
| DFile      (* decoded from the bytes [_fileinfo] points at *)
| DNew       (* supplied by the caller (fill colour, copy_from source) *)
| DScaled.   (* scale_down of the larger frame's pixels *)
Inductive sorigin := SKeep | SNoneV | SSet.

(** (origin of the data, single texels overwritten afterwards?, file source) *)
Definition outcome := (dorigin * bool * sorigin)%type.
(** rows: (data present, source present) -> the outcomes of all non-raising paths, duplicates removed *)
Definition efftable := list ((bool * bool) * list outcome).

Definition dorigin_eqb (a b : dorigin) : bool :=
  match a, b with
  | DKeep, DKeep | DNoneV, DNoneV | DBlank, DBlank | DFile, DFile | DNew, DNew | DScaled, DScaled => true
  | _, _ => false
  end.
Definition sorigin_eqb (a b : sorigin) : bool :=
  match a, b with SKeep, SKeep | SNoneV, SNoneV | SSet, SSet => true | _, _ => false end.
Definition outcome_eqb (a b : outcome) : bool :=
  let '(d, m, s) := a in let '(d', m', s') := b in dorigin_eqb d d' && Bool.eqb m m' && sorigin_eqb s s'.
Fixpoint list_eqb {A} (eqb : A -> A -> bool) (a b : list A) : bool :=
  match a, b with
  | [], [] => true
  | x :: a', y :: b' => eqb x y && list_eqb eqb a' b'
  | _, _ => false
  end.
Definition row_eqb (a b : (bool * bool) * list outcome) : bool :=
  Bool.eqb (fst (fst a)) (fst (fst b)) && Bool.eqb (snd (fst a)) (snd (fst b)) && list_eqb outcome_eqb (snd a) (snd b).
Definition efftable_eqb (a b : efftable) : bool := list_eqb row_eqb a b.

(** The tables the methods must have.  Rows in the order (F,F) (F,T) (T,F) (T,T); the translator writes
    [DNoneV]/[SNoneV] instead of [DKeep]/[SKeep] where the slot was None before. *)
Definition rows (a b c d : outcome) : efftable :=
  [((false, false), [a]); ((false, true), [b]); ((true, false), [c]); ((true, true), [d])].
(** load(): allocate if needed; with a file source, decode it over the buffer and forget the source. *)
Definition ideal_load : efftable :=
  rows (DBlank, false, SNoneV) (DFile, false, SNoneV) (DKeep, false, SNoneV) (DFile, false, SNoneV).
(** clear() / __init__ *)
Definition ideal_clear : efftable :=
  rows (DNoneV, false, SNoneV) (DNoneV, false, SNoneV) (DNoneV, false, SNoneV) (DNoneV, false, SNoneV).
(** fill(), copy_from(): new pixels, the file source is forgotten *)
Definition ideal_new : efftable :=
  rows (DNew, false, SNoneV) (DNew, false, SNoneV) (DNew, false, SNoneV) (DNew, false, SNoneV).
(** rescale_from(): pixels computed from the larger frame; the FILE SOURCE IS KEPT, so that a frame that is
    only waiting to be read (VTF.read is lazy) is read from the file by the next load() *)
Definition ideal_rescale : efftable :=
  rows (DScaled, false, SNoneV) (DScaled, false, SKeep) (DScaled, false, SNoneV) (DScaled, false, SKeep).
(** __setitem__: load(), then one texel overwritten *)
Definition ideal_setitem : efftable :=
  rows (DBlank, true, SNoneV) (DFile, true, SNoneV) (DKeep, true, SNoneV) (DFile, true, SNoneV).
(** VTF.__exit__: the file source is dropped, the data stays *)
Definition ideal_detach : efftable :=
  rows (DNoneV, false, SNoneV) (DNoneV, false, SNoneV) (DKeep, false, SNoneV) (DKeep, false, SNoneV).

(** A method of Frame that the model does not name behaves like one of the modelled operations. *)
Definition like_a_modelled_op (t : efftable) : bool :=
  efftable_eqb t ideal_load || efftable_eqb t ideal_clear || efftable_eqb t ideal_new
  || efftable_eqb t ideal_rescale || efftable_eqb t ideal_setitem || efftable_eqb t ideal_detach.

(** * Concrete semantics *)
Section Sem.
Variable pix : Type.        (* decoded pixels of one frame *)
Variable fbytes : Type.     (* stored bytes of one frame *)

Record fstate := { f_data : option pix; f_src : option fbytes }.

Definition present {A} (o : option A) : bool := match o with Some _ => true | None => false end.

(** the effect of one outcome; [blank], [filed] (decoded file bytes), [newd], [scaled], [modf] are supplied by the caller *)
Definition apply_outcome (o : outcome) (blank : pix) (decode : fbytes -> pix) (newd scaled : pix) (modf : pix -> pix)
           (st : fstate) : fstate :=
  let '(d, m, s) := o in
  let data := match d with
              | DKeep => f_data st
              | DNoneV => None
              | DBlank => Some blank
              | DFile => match f_src st with Some b => Some (decode b) | None => f_data st end
              | DNew => Some newd
              | DScaled => Some scaled
              end in
  {| f_data := if m then option_map modf data else data;
     f_src := match s with SKeep => f_src st | SNoneV => None | SSet => f_src st end |}.

Definition find_row (t : efftable) (d s : bool) : list outcome :=
  match find (fun r => Bool.eqb (fst (fst r)) d && Bool.eqb (snd (fst r)) s) t with
  | Some r => snd r
  | None => []
  end.

(** run a table (first outcome of the row; the obligations make every row a singleton) *)
Definition run_table (t : efftable) (blank : pix) (decode : fbytes -> pix) (newd scaled : pix) (modf : pix -> pix)
           (st : fstate) : fstate :=
  match find_row t (present (f_data st)) (present (f_src st)) with
  | o :: _ => apply_outcome o blank decode newd scaled modf st
  | [] => st
  end.

(** The operations written directly. *)
Definition or_blank (blank : pix) (o : option pix) : pix := match o with Some d => d | None => blank end.
Definition load (blank : pix) (decode : fbytes -> pix) (st : fstate) : fstate :=
  match f_src st with
  | Some b => {| f_data := Some (decode b); f_src := None |}
  | None => {| f_data := Some (or_blank blank (f_data st)); f_src := None |}
  end.
Definition clear (st : fstate) : fstate := {| f_data := None; f_src := None |}.
Definition set_new (p : pix) (st : fstate) : fstate := {| f_data := Some p; f_src := None |}.
Definition rescale (scaled : pix) (st : fstate) : fstate := {| f_data := Some scaled; f_src := f_src st |}.
Definition setitem (blank : pix) (decode : fbytes -> pix) (modf : pix -> pix) (st : fstate) : fstate :=
  let st' := load blank decode st in {| f_data := option_map modf (f_data st'); f_src := None |}.
Definition detach (st : fstate) : fstate := {| f_data := f_data st; f_src := None |}.

(** What a user sees through [frame[x, y]], [load()], [to_PIL()] ...: the file's pixels while the frame still has its
    file source, else the data, else blank. *)
Definition view (blank : pix) (decode : fbytes -> pix) (st : fstate) : pix :=
  match f_src st with Some b => decode b | None => or_blank blank (f_data st) end.

(** * One chain of mipmap levels in compute_mipmaps() and save() *)
Inductive guard :=
| GDataNone               (* if frm._data is None *)
| GDataNoneAndSrcNone     (* if frm._data is None and frm._fileinfo is None *)
| GAlways
| GOther.
Definition guard_eval (g : guard) (st : fstate) : bool :=
  match g with
  | GDataNone => negb (present (f_data st))
  | GDataNoneAndSrcNone => negb (present (f_data st)) && negb (present (f_src st))
  | GAlways => true
  | GOther => false
  end.

(** statements of the innermost loop of save(), in source order *)
Inductive sstep := SvLoad | SvEncodeIfData | SvEncodeAlways | SvWrite.
Definition sstep_eqb (a b : sstep) : bool :=
  match a, b with
  | SvLoad, SvLoad | SvEncodeIfData, SvEncodeIfData | SvEncodeAlways, SvEncodeAlways | SvWrite, SvWrite => true
  | _, _ => false
  end.

Record chaincfg := {
  cm_loads_level0 : bool;       (* compute_mipmaps: self._frames[f, d, 0].load() before the level loop *)
  cm_guard : guard;             (* which levels are regenerated *)
  cm_from_previous : bool;      (* ... from level mipmap - 1, levels 1 .. mipmap_count - 1 ascending *)
  rs_loads_parent : bool;       (* rescale_from: larger.load() before larger._data is read *)
  sv_computes_first : bool;     (* save: self.compute_mipmaps() before the frame loop *)
  sv_steps : list sstep;        (* save: per frame *)
}.

Variable blank : nat -> pix.           (* blank pixels of level m *)
Variable decode : fbytes -> pix.
Variable encode : pix -> fbytes.
Variable scale : nat -> pix -> pix.    (* level m from the pixels of level m - 1 *)
Variable t_load t_rescale : efftable.  (* the generated tables of load() and rescale_from() *)
Variable cfg : chaincfg.

Definition m_load (m : nat) (st : fstate) : fstate := run_table t_load (blank m) decode (blank m) (blank m) (fun p => p) st.

(** rescale_from(parent) on level m: returns (parent after the call, level m after the call).
    Without [larger.load()] the pixels are taken from whatever [larger._data] holds; None means nothing is scaled. *)
Definition m_rescale (m : nat) (parent st : fstate) : fstate * fstate :=
  let parent' := if rs_loads_parent cfg then m_load (m - 1) parent else parent in
  match f_data parent' with
  | Some pd => (parent', run_table t_rescale (blank m) decode (blank m) (scale m pd) (fun p => p) st)
  | None => (parent', {| f_data := Some (or_blank (blank m) (f_data st)); f_src := f_src st |})
  end.

(** the level loop of compute_mipmaps: [parent] is level m - 1 (already processed), [rest] are levels m, m+1, ... *)
Fixpoint cm_levels (m : nat) (parent : fstate) (rest : list fstate) : list fstate :=
  match rest with
  | [] => [parent]
  | st :: tl =>
      if guard_eval (cm_guard cfg) st
      then let '(parent', st') := m_rescale m parent st in parent' :: cm_levels (S m) st' tl
      else parent :: cm_levels (S m) st tl
  end.
Definition compute_mipmaps (chain : list fstate) : list fstate :=
  match chain with
  | [] => []
  | l0 :: tl => cm_levels 1 (if cm_loads_level0 cfg then m_load 0 l0 else l0) tl
  end.

(** save(): per frame, run the statements; the bytes handed to file.write *)
Fixpoint sv_run (m : nat) (steps : list sstep) (st : fstate) (buf : option fbytes) : option fbytes :=
  match steps with
  | [] => None
  | SvLoad :: r => sv_run m r (m_load m st) buf
  | SvEncodeIfData :: r => sv_run m r st (match f_data st with Some d => Some (encode d) | None => buf end)
  | SvEncodeAlways :: r => sv_run m r st (option_map encode (f_data st))
  | SvWrite :: _ => buf
  end.
Fixpoint sv_levels (m : nat) (chain : list fstate) : list (option fbytes) :=
  match chain with
  | [] => []
  | st :: tl => sv_run m (sv_steps cfg) st None :: sv_levels (S m) tl
  end.
Definition save_chain (chain : list fstate) : list (option fbytes) :=
  sv_levels 0 (if sv_computes_first cfg then compute_mipmaps chain else chain).

(** What must be written for level m: the file's pixels while the level still has its file source, else its
    data, else (cleared) level 0 blank / level m the scaled pixels written for level m - 1. *)
Fixpoint final_pixels (m : nat) (parent : pix) (rest : list fstate) : list pix :=
  match rest with
  | [] => []
  | st :: tl =>
      let p := match f_src st with
               | Some b => decode b
               | None => match f_data st with Some d => d | None => scale m parent end
               end in
      p :: final_pixels (S m) p tl
  end.
Definition final_chain (chain : list fstate) : list pix :=
  match chain with
  | [] => []
  | l0 :: tl => let p0 := view (blank 0) decode l0 in p0 :: final_pixels 1 p0 tl
  end.

(** Histories: operations on the levels of one chain before save() (used by the correspondence of the check: the
    generated tables are run on symbolic pixels and compared with what the implementation writes). *)
Variable t_clear t_fill t_copy t_setitem : efftable.
Inductive cop :=
| CLoad (m : nat) | CClear (m : nat) | CFill (m : nat) (p : pix) | CCopy (m : nat) (p : pix)
| CSet (m : nat) (f : pix -> pix) | CRescale (m : nat) | CCompute | CDetachAll.
Fixpoint upd {A} (l : list A) (m : nat) (f : A -> A) : list A :=
  match l, m with
  | [], _ => []
  | x :: tl, O => f x :: tl
  | x :: tl, S k => x :: upd tl k f
  end.
Definition run_cop (chain : list fstate) (o : cop) : list fstate :=
  match o with
  | CLoad m => upd chain m (m_load m)
  | CClear m => upd chain m (run_table t_clear (blank m) decode (blank m) (blank m) (fun p => p))
  | CFill m p => upd chain m (run_table t_fill (blank m) decode p (blank m) (fun p => p))
  | CCopy m p => upd chain m (run_table t_copy (blank m) decode p (blank m) (fun p => p))
  | CSet m f => upd chain m (run_table t_setitem (blank m) decode (blank m) (blank m) f)
  | CRescale m =>
      match m, nth_error chain (m - 1), nth_error chain m with
      | S k, Some parent, Some st =>
          let '(parent', st') := m_rescale m parent st in upd (upd chain k (fun _ => parent')) m (fun _ => st')
      | _, _, _ => chain
      end
  | CCompute => compute_mipmaps chain
  | CDetachAll => map (fun st => {| f_data := f_data st; f_src := None |}) chain
  end.
Definition run_cops (chain : list fstate) (ops : list cop) : list fstate := fold_left run_cop ops chain.

Definition chain_ok : bool :=
  cm_loads_level0 cfg
  && match cm_guard cfg with GDataNone | GDataNoneAndSrcNone => true | _ => false end
  && cm_from_previous cfg && rs_loads_parent cfg && sv_computes_first cfg
  && (list_eqb sstep_eqb (sv_steps cfg) [SvLoad; SvEncodeIfData; SvWrite]
      || list_eqb sstep_eqb (sv_steps cfg) [SvLoad; SvEncodeAlways; SvWrite]).
End Sem.

Arguments f_data {pix fbytes}.
Arguments f_src {pix fbytes}.
