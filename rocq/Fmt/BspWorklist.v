(** C11: the loops of the lump writers that serialise a table WHILE (or after) references are turned into indexes of that
    same table.  [_lmp_write_nodes] is the decisive one: [add_node = find_or_insert(nodes)] and then [for node in nodes],
    where the body calls [add_node(node.child_neg / child_pos)]: a child that is not in the list yet is APPENDED to the list
    being iterated, and Python's list iterator (an index that is compared with the CURRENT length on every step) reaches it
    later.  The loop is a work-list computation of the closure of the listed roots under the reference relation.  The
    two-phase writers (brush sides, edges, brush models) fill the table in a first loop and serialise it in a second one.

    Objects are keys [N] (identity), the table is [Bin.FindInsert.fi_state] (the model of [find_or_insert] that is tied to
    binformat.py by correspondence), [kids o] are the objects [o] refers to through this table, a record is the object
    together with the indexes its references were turned into.  Executable definitions only; proofs in BspWorklistProofs.v. *)
From Coq Require Import NArith List Bool PeanoNat String.
From SV Require Import Bin.FindInsert.
Import ListNotations.

Definition wrecord := (N * list nat)%type.

Section Worklist.
Variable kids : N -> list N.

(** [for o in table: idx = [add(k) for k in kids(o)]; write(o, idx)] over the LIVE list: position [pos] is compared with
    the current length on every step.  [fuel] bounds the number of steps (the Python loop has no bound of its own); the
    result flag says whether the loop ended by reaching the end of the table. *)
Fixpoint wl_live (fuel : nat) (s : fi_state) (pos : nat) (out : list wrecord) : fi_state * list wrecord * bool :=
  match fuel with
  | O => (s, out, false)
  | S f =>
      match nth_error (items s) pos with
      | None => (s, out, true)
      | Some o => let '(s', idx) := fi_run s (kids o) in wl_live f s' (S pos) (out ++ [(o, idx)])
      end
  end.

(** [for o in list(table): ...]: the objects that were in the table when the loop started. *)
Fixpoint wl_snap (snap : list N) (s : fi_state) (out : list wrecord) : fi_state * list wrecord :=
  match snap with
  | [] => (s, out)
  | o :: r => let '(s', idx) := fi_run s (kids o) in wl_snap r s' (out ++ [(o, idx)])
  end.
End Worklist.

(** What the reader does with the records: record [i] describes object number [i]; a stored index [j] is resolved to
    object number [j] ([nodes[j][0]] in [_lmp_read_nodes]). *)
Definition resolve (out : list wrecord) (j : nat) : option N := option_map fst (nth_error out j).

(** Reachability from the listed roots through the reference relation. *)
Inductive reach (kids : N -> list N) (roots : list N) : N -> Prop :=
| reach_root : forall o, In o roots -> reach kids roots o
| reach_kid : forall p o, reach kids roots p -> In o (kids p) -> reach kids roots o.

(** * The shape of one such loop, as the translator reads it from a writer *)
Inductive iter_kind := ILive | ISnapshot.
(** function, table, how the loop iterates, does the loop body add to the table, is anything added to the table after the loop *)
Definition wl_entry := (string * string * iter_kind * bool * bool)%type.

Definition wl_entry_ok (e : wl_entry) : bool :=
  let '(_, _, k, inside, after) := e in
  negb after && match k with ILive => true | ISnapshot => negb inside end.

(** The loop an entry denotes (nothing added afterwards): a body that does not add to its own table sees no references into it. *)
Definition wl_exec (k : iter_kind) (inside : bool) (kids : N -> list N) (fuel : nat) (s : fi_state) : fi_state * list wrecord * bool :=
  let kd := if inside then kids else (fun _ => []) in
  match k with
  | ILive => wl_live kd fuel s 0 []
  | ISnapshot => let '(s', out) := wl_snap kd (items s) s [] in (s', out, true)
  end.

Definition wl_named (l : list wl_entry) (fn tbl : string) : bool :=
  match find (fun e : wl_entry => let '(f, t, _, _, _) := e in String.eqb f fn && String.eqb t tbl) l with
  | Some e => wl_entry_ok e
  | None => false
  end.

(** * The order in which save() rebuilds the lumps *)
(** [order]: LUMP_REBUILD_ORDER; [edges]: (lump whose writer appends, lump that owns the list appended to).  Every
    appending writer must run strictly before the writer of the list it appends to.  (A writer's OWN list is its parameter -
    the work-list case above; going through [self.<own view>] instead would re-parse the old lump data: such an edge (L, L)
    is rejected.) *)
Fixpoint pos_of (x : string) (l : list string) : option nat :=
  match l with
  | [] => None
  | y :: r => if String.eqb x y then Some O else option_map S (pos_of x r)
  end.
Definition edge_ok (order : list string) (e : string * string) : bool :=
  match pos_of (fst e) order, pos_of (snd e) order with
  | Some i, Some j => (i <? j)%nat
  | _, _ => false
  end.
Definition order_ok (order : list string) (edges : list (string * string)) : bool := forallb (edge_ok order) edges.
