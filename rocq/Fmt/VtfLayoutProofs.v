(** C15 — proofs about the mipmap table and the pixel bounds test (models in VtfLayout.v).
    The mipmap theorems are for ALL power-of-two sizes 2^a x 2^b (induction on min a b), not an enumeration. *)
From Coq Require Import ZArith NArith Arith List Bool Lia.
From SV Require Import Fmt.VtfLayout.
Import ListNotations.

Lemma cmp_eqb_eq : forall a b, cmp_eqb a b = true -> a = b.
Proof. destruct a, b; cbn; congruence. Qed.

(** * Mipmaps *)
Section Mip.
Open Scope N_scope.

Lemma pow2_pos : forall n, 1 <= 2 ^ n.
Proof. intros n. pose proof (N.pow_nonzero 2 n). lia. Qed.

Lemma pow2_S : forall a : nat, 2 ^ N.of_nat (S a) = 2 * 2 ^ N.of_nat a.
Proof. intros a. rewrite Nat2N.inj_succ. apply N.pow_succ_r'. Qed.

Lemma shiftr1_pow2_S : forall a : nat, N.shiftr (2 ^ N.of_nat (S a)) 1 = 2 ^ N.of_nat a.
Proof.
  intros a. rewrite N.shiftr_div_pow2. change (2 ^ 1) with 2. rewrite pow2_S.
  rewrite N.mul_comm. apply N.div_mul. discriminate.
Qed.

Lemma mip_loop_ok_brk : forall cfg, mip_loop_ok cfg = true ->
  (forall w h, brk cfg w h = (w <=? 1) || (h <=? 1)) /\ shr_w cfg = 1 /\ shr_h cfg = 1.
Proof.
  intros cfg H. unfold mip_loop_ok in H.
  apply andb_true_iff in H. destruct H as [H G]. apply andb_true_iff in H. destruct H as [H F].
  apply andb_true_iff in H. destruct H as [H E]. apply andb_true_iff in H. destruct H as [H D].
  apply andb_true_iff in H. destruct H as [H C]. apply andb_true_iff in H. destruct H as [A B].
  apply cmp_eqb_eq in A, C. apply N.eqb_eq in B, D, F, G.
  repeat split; try assumption.
  intros w h. unfold brk. rewrite A, B, C, D, E. reflexivity.
Qed.

(** The loop of [VTF.__init__] on a 2^a x 2^b texture creates exactly the levels 0 .. min a b, level i being
    2^(a-i) x 2^(b-i), and leaves [mip_count] = min a b (the LAST INDEX). For every sufficient fuel. *)
Lemma init_loop_spec : forall cfg, mip_loop_ok cfg = true ->
  forall m a b k fuel, m = Nat.min a b -> (m < fuel)%nat ->
    init_loop cfg fuel k (2 ^ N.of_nat a) (2 ^ N.of_nat b)
    = (map (level_of a b k) (seq 0 (S m)), k + N.of_nat m).
Proof.
  intros cfg Hok. destruct (mip_loop_ok_brk cfg Hok) as [Hbrk [Hsw Hsh]].
  induction m as [|m IH]; intros a b k fuel Hm Hf.
  - destruct fuel as [|f]; [lia|]. cbn [init_loop]. rewrite Hbrk.
    assert (E : (2 ^ N.of_nat a <=? 1) || (2 ^ N.of_nat b <=? 1) = true).
    { destruct a as [|a']; [reflexivity|]. destruct b as [|b']; [apply orb_true_r|]. cbn in Hm. lia. }
    rewrite E. cbn [seq map]. unfold level_of. rewrite !Nat.sub_0_r. change (N.of_nat 0) with 0. rewrite !N.add_0_r. reflexivity.
  - destruct a as [|a']; [cbn in Hm; lia|]. destruct b as [|b']; [cbn in Hm; lia|].
    cbn in Hm. injection Hm as Hm.
    destruct fuel as [|f]; [lia|]. cbn [init_loop]. rewrite Hbrk.
    assert (E : (2 ^ N.of_nat (S a') <=? 1) || (2 ^ N.of_nat (S b') <=? 1) = false).
    { apply orb_false_iff. split; apply N.leb_gt; rewrite pow2_S;
        [pose proof (pow2_pos (N.of_nat a')) | pose proof (pow2_pos (N.of_nat b'))]; lia. }
    rewrite E, Hsw, Hsh, !shiftr1_pow2_S.
    rewrite (IH a' b' (k + 1) f Hm ltac:(lia)).
    f_equal.
    + change (seq 0 (S (S m))) with (0%nat :: seq 1 (S m)). cbn [map]. f_equal.
      * unfold level_of. now rewrite N.add_0_r.
      * rewrite <- seq_shift, map_map. apply map_ext. intros i. unfold level_of.
        rewrite Nat2N.inj_succ. cbn [Nat.sub].
        replace (k + N.succ (N.of_nat i)) with (k + 1 + N.of_nat i) by lia. reflexivity.
    + rewrite Nat2N.inj_succ. lia.
Qed.

Lemma shiftr_pow2 : forall a i : nat, (i <= a)%nat -> N.shiftr (2 ^ N.of_nat a) (N.of_nat i) = 2 ^ N.of_nat (a - i).
Proof.
  intros a i H. rewrite N.shiftr_div_pow2. rewrite Nat2N.inj_sub.
  symmetry. apply N.pow_sub_r; [discriminate|lia].
Qed.

(** What [read] (and [save]) walk for a declared count [mc] <= number of levels: the first [mc] levels with
    the very same sizes, largest index first. *)
Lemma read_levels_spec : forall a b mc, (mc <= S (Nat.min a b))%nat ->
  read_levels (2 ^ N.of_nat a) (2 ^ N.of_nat b) mc = rev (map (level_of a b 0) (seq 0 mc)).
Proof.
  intros a b mc H. unfold read_levels, NrangeL. rewrite <- map_rev, <- map_rev, map_map.
  apply map_ext_in. intros i Hi. apply in_rev in Hi. apply in_seq in Hi.
  unfold level_of. rewrite !shiftr_pow2 by lia. rewrite N.add_0_l.
  rewrite !N.max_l by apply pow2_pos. reflexivity.
Qed.

(** ** mip_table_consistent *)
Theorem mip_table_consistent : forall cfg, mip_loop_ok cfg = true -> mip_count_ok cfg = true ->
  forall a b fuel, (Nat.min a b < fuel)%nat ->
    let '(created, last) := init_loop cfg fuel 0 (2 ^ N.of_nat a) (2 ^ N.of_nat b) in
    created = ideal_levels a b
    /\ declared_count cfg last = N.of_nat (length created)
    /\ read_levels (2 ^ N.of_nat a) (2 ^ N.of_nat b) (length created) = rev created.
Proof.
  intros cfg Hok Hc a b fuel Hf.
  rewrite (init_loop_spec cfg Hok (Nat.min a b) a b 0 fuel eq_refl Hf).
  unfold mip_count_ok in Hc. apply N.eqb_eq in Hc. unfold declared_count. rewrite Hc.
  rewrite map_length, seq_length. repeat split.
  - rewrite Nat2N.inj_succ. lia.
  - now apply read_levels_spec.
Qed.

(** Halved dimensions: each level is half the previous one in both directions. *)
Theorem ideal_levels_halved : forall a b i, (i < Nat.min a b)%nat ->
  2 * 2 ^ N.of_nat (a - S i) = 2 ^ N.of_nat (a - i) /\ 2 * 2 ^ N.of_nat (b - S i) = 2 ^ N.of_nat (b - i).
Proof.
  intros a b i H. split; rewrite <- pow2_S; f_equal; f_equal; lia.
Qed.

(** ** The pinned tree ([count_delta] = 0): the declared count is the last index, so the levels below it are
    written and read back with the right sizes, and exactly the smallest level is never written. *)
Theorem mip_table_pinned : forall cfg, mip_loop_ok cfg = true -> count_delta cfg = 0 ->
  forall a b fuel, (Nat.min a b < fuel)%nat ->
    let '(created, last) := init_loop cfg fuel 0 (2 ^ N.of_nat a) (2 ^ N.of_nat b) in
    created = ideal_levels a b
    /\ declared_count cfg last = N.of_nat (Nat.min a b)
    /\ read_levels (2 ^ N.of_nat a) (2 ^ N.of_nat b) (Nat.min a b) = rev (removelast created).
Proof.
  intros cfg Hok Hc a b fuel Hf.
  rewrite (init_loop_spec cfg Hok (Nat.min a b) a b 0 fuel eq_refl Hf).
  unfold declared_count. rewrite Hc. repeat split.
  - lia.
  - rewrite read_levels_spec by lia. f_equal.
    rewrite seq_S, map_app. cbn [map]. now rewrite removelast_last.
Qed.

Theorem mip_table_pinned_refuted :
  let '(created, last) := init_loop pinned_mipcfg 8 0 1 4 in
  created = [(0, 1, 4)] /\ declared_count pinned_mipcfg last = 0 /\ read_levels 1 4 0 = [].
Proof. vm_compute. auto. Qed.
End Mip.

(** * Bounds *)
Section Bounds.
Open Scope Z_scope.

Lemma bvar_eqb_eq : forall a b, bvar_eqb a b = true -> a = b.
Proof. destruct a, b; cbn; congruence. Qed.
Lemma bbnd_eqb_eq : forall a b, bbnd_eqb a b = true -> a = b.
Proof. destruct a, b; cbn; try congruence. intros H. apply Z.eqb_eq in H. now subst. Qed.
Lemma atom_eqb_eq : forall a b, atom_eqb a b = true -> a = b.
Proof.
  intros [[v c] n] [[v' c'] n']. cbn. intros H.
  apply andb_true_iff in H. destruct H as [H H3]. apply andb_true_iff in H. destruct H as [H1 H2].
  apply bvar_eqb_eq in H1. apply cmp_eqb_eq in H2. apply bbnd_eqb_eq in H3. now subst.
Qed.

Lemma has_not_rejected : forall ds a x y w h, has ds a = true -> rejects ds x y w h = false -> atom_eval a x y w h = false.
Proof.
  intros ds a x y w h Hh Hr. unfold has in Hh. apply existsb_exists in Hh. destruct Hh as [a' [Hin Heq]].
  apply atom_eqb_eq in Heq. subst a'.
  destruct (atom_eval a x y w h) eqn:E; [|reflexivity].
  assert (rejects ds x y w h = true) by (apply existsb_exists; eauto). congruence.
Qed.

(** Every accepted (x, y) is inside the frame, and so are the four bytes of its pixel. *)
Theorem accepted_in_bounds : forall ds, bounds_ok ds = true ->
  forall x y w h, rejects ds x y w h = false ->
    0 <= x < w /\ 0 <= y < h /\ 0 <= pixel_off x y w /\ pixel_off x y w + 4 <= 4 * w * h.
Proof.
  intros ds H x y w h Hr. unfold bounds_ok in H.
  apply andb_true_iff in H. destruct H as [H H4]. apply andb_true_iff in H. destruct H as [H H3].
  apply andb_true_iff in H. destruct H as [H1 H2].
  pose proof (has_not_rejected _ _ _ _ _ _ H1 Hr) as A1. pose proof (has_not_rejected _ _ _ _ _ _ H2 Hr) as A2.
  pose proof (has_not_rejected _ _ _ _ _ _ H3 Hr) as A3. pose proof (has_not_rejected _ _ _ _ _ _ H4 Hr) as A4.
  cbn in A1, A2, A3, A4.
  apply Z.ltb_ge in A1, A3. apply Z.leb_gt in A2, A4.
  unfold pixel_off. repeat split; try lia; nia.
Qed.

(** The pinned test accepts x = width (the pixel of the next row, or one past the end of the buffer) and
    negative coordinates. *)
Theorem pinned_bounds_refuted :
  rejects pinned_bounds 2 1 2 2 = false /\ pixel_off 2 1 2 + 4 > 4 * 2 * 2
  /\ rejects pinned_bounds (-1) 0 2 2 = false /\ pixel_off (-1) 0 2 < 0.
Proof. vm_compute. repeat split; congruence. Qed.
End Bounds.

(** * scale_down *)
Section Scale.
Open Scope Z_scope.

(** What the source's four values have to be (proved of the generated functions in VtfGenProofs.v). *)
Definition scale_spec (c : scalecfg) : Prop :=
  forall sw sh w h, sw = w \/ sw = 2 * w ->
    horiz_off c sw sh w h = (if Z.eqb w sw then 0 else 4)
    /\ per_column c sw sh w h = (if Z.eqb w sw then 1 else 2)
    /\ vert_off c sw sh w h = (if Z.eqb h sh then 0 else 4 * sw)
    /\ per_row c sw sh w h = (if Z.eqb h sh then sw else 2 * sw).

(** Halving both directions: destination texel (x, y) is made from the 2x2 source block at (2x, 2y), and all
    four source texels lie inside the source buffer. *)
Theorem scale_down_block : forall c, scale_spec c ->
  forall w h x y, 0 < w -> 0 < h -> 0 <= x < w -> 0 <= y < h ->
    let sw := 2 * w in let sh := 2 * h in
    src_offsets c sw sh w h x y
    = [texel_off sw (2 * x) (2 * y); texel_off sw (2 * x + 1) (2 * y);
       texel_off sw (2 * x) (2 * y + 1); texel_off sw (2 * x + 1) (2 * y + 1)]
    /\ Forall (fun o => 0 <= o /\ o + 4 <= 4 * sw * sh) (src_offsets c sw sh w h x y).
Proof.
  intros c Hc w h x y Hw Hh Hx Hy sw sh. unfold src_offsets.
  destruct (Hc sw sh w h ltac:(now right)) as [E1 [E2 [E3 E4]]]. rewrite E1, E2, E3, E4.
  assert (Z.eqb w sw = false) as -> by (apply Z.eqb_neq; unfold sw; lia).
  assert (Z.eqb h sh = false) as -> by (apply Z.eqb_neq; unfold sh; lia).
  unfold texel_off. subst sw sh. split.
  - repeat (apply (f_equal2 (@cons Z)); [ring|]). reflexivity.
  - repeat constructor; nia.
Qed.

Lemma terms_eqb_eq : forall a b, terms_eqb a b = true -> a = b.
Proof.
  induction a as [|[x y] a IH]; destruct b as [|[u v] b]; cbn; try discriminate; [reflexivity|].
  unfold terms_eqb. cbn. intros H. apply andb_true_iff in H. destruct H as [Hl H].
  apply andb_true_iff in H. destruct H as [Hh Ht]. apply andb_true_iff in Hh. destruct Hh as [H1 H2].
  apply Bool.eqb_prop in H1, H2. subst. f_equal. apply IH. unfold terms_eqb. now rewrite Hl, Ht.
Qed.

Lemma sum4 : forall (f : Z -> Z) a1 a2 a3 a4 b1 b2 b3 b4, a1 = b1 -> a2 = b2 -> a3 = b3 -> a4 = b4 ->
  f a1 + (f a2 + (f a3 + (f a4 + 0))) = f b1 + f b2 + f b3 + f b4.
Proof. intros; subst; ring. Qed.

(** The bilinear filter writes the floor of the mean of the 2x2 parent block, channel by channel. *)
Theorem bilinear_is_block_mean : forall c terms div, scale_spec c -> terms_eqb terms block_terms = true -> div = 4 ->
  forall src w h x y ch, 0 < w -> 0 < h -> 0 <= x < w -> 0 <= y < h ->
    let sw := 2 * w in let sh := 2 * h in
    bilinear c terms div src sw sh w h x y ch
    = (src (texel_off sw (2 * x) (2 * y) + ch) + src (texel_off sw (2 * x + 1) (2 * y) + ch)
       + src (texel_off sw (2 * x) (2 * y + 1) + ch) + src (texel_off sw (2 * x + 1) (2 * y + 1) + ch)) / 4.
Proof.
  intros c terms div Hc Ht -> src w h x y ch Hw Hh Hx Hy sw sh.
  apply terms_eqb_eq in Ht. subst terms. unfold bilinear, block_terms, term_off. cbn [map fold_right fst snd].
  destruct (Hc sw sh w h ltac:(now right)) as [E1 [E2 [E3 E4]]]. rewrite E1, E2, E3, E4.
  assert (Z.eqb w sw = false) as -> by (apply Z.eqb_neq; unfold sw; lia).
  assert (Z.eqb h sh = false) as -> by (apply Z.eqb_neq; unfold sh; lia).
  unfold texel_off. subst sw sh. f_equal. apply sum4; ring.
Qed.

(** Same size in one direction (never produced by the mip table, but allowed by [rescale_from]). *)
Theorem scale_down_row : forall c, scale_spec c ->
  forall w h x y, 0 < w -> 0 < h -> 0 <= x < w -> 0 <= y < h ->
    let sw := 2 * w in
    src_offsets c sw h w h x y
    = [texel_off sw (2 * x) y; texel_off sw (2 * x + 1) y; texel_off sw (2 * x) y; texel_off sw (2 * x + 1) y].
Proof.
  intros c Hc w h x y Hw Hh Hx Hy sw. unfold src_offsets.
  destruct (Hc sw h w h ltac:(now right)) as [E1 [E2 [E3 E4]]]. rewrite E1, E2, E3, E4.
  assert (Z.eqb w sw = false) as -> by (apply Z.eqb_neq; unfold sw; lia).
  rewrite Z.eqb_refl. unfold texel_off. subst sw.
  repeat (apply (f_equal2 (@cons Z)); [ring|]). reflexivity.
Qed.

Theorem scale_down_column : forall c, scale_spec c ->
  forall w h x y, 0 < w -> 0 < h -> 0 <= x < w -> 0 <= y < h ->
    let sh := 2 * h in
    src_offsets c w sh w h x y
    = [texel_off w x (2 * y); texel_off w x (2 * y); texel_off w x (2 * y + 1); texel_off w x (2 * y + 1)].
Proof.
  intros c Hc w h x y Hw Hh Hx Hy sh. unfold src_offsets.
  destruct (Hc w sh w h ltac:(now left)) as [E1 [E2 [E3 E4]]]. rewrite E1, E2, E3, E4.
  assert (Z.eqb h sh = false) as -> by (apply Z.eqb_neq; unfold sh; lia).
  rewrite Z.eqb_refl. unfold texel_off. subst sh.
  repeat (apply (f_equal2 (@cons Z)); [ring|]). reflexivity.
Qed.
End Scale.
