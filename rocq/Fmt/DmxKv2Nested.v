(** C14 — the *nested* KeyValues2 layout of DMX ([Element.export_kv2(flat=False)], the default): elements that are
    used once are written inline, as a block inside the attribute (or array) that holds them; the others at the top
    level, referenced by UUID.  Same lexeme / tokenizer machinery as Fmt/DmxKv2.v (the flat layout is the special
    case without inline blocks); the writer carries the indentation depth, the parser is the full recursion of
    [_parse_kv2_element] (inline compound elements in scalar attributes and in element arrays).
    Which elements are roots ([use_count], the keyword-type rule) and the fix-up of references across blocks are
    outside this model.  Executable definitions only; proofs are in DmxKv2NestedProofs.v. *)
From Coq Require Import NArith List Bool.
From SV Require Import Text.Str Text.Prog Text.Escape Text.Tokenizer Fmt.DmxKv2.
Import ListNotations.
Open Scope N_scope.

Inductive nelem := NElem (ty : str) (id : option str) (nm : str) (attrs : list nattr)
with nattr := NAttr (an : str) (at_ : str) (arr : bool) (items : list nitem)
with nitem := NStr (s : str) | NNull | NRef (uuid_text : str) | NInline (e : nelem).
Definition ndoc := list nelem.

Definition ne_type (e : nelem) : str := match e with NElem ty _ _ _ => ty end.

(** ** Writer: [_export_kv2(file, indent, roots, encoding, cull_uuid)] with [indent = depth] tabs.  The blanks before
    the first lexeme (the type name) belong to the caller: none at the top level, the array indentation inside an
    array, the space after the attribute name for a scalar attribute. *)
Definition tabs (k : nat) : str := repeat TAB k.
Definition lexn_ref (w : str) (it : nitem) : list lexeme :=
  match it with
  | NStr s => [(w, LQ s)]
  | NNull => [(w, LRaw s_element); ([SP], LRaw [])]
  | NRef u => [(w, LRaw s_element); ([SP], LRaw u)]
  | NInline _ => []
  end.

Fixpoint lexn_elem (w : str) (k : nat) (e : nelem) {struct e} : list lexeme :=
  match e with
  | NElem ty id nm attrs =>
      [(w, LQ ty); ([], LNl); (tabs k, LBraceO); ([], LNl)] ++
      match id with
      | Some u => [(tabs (S k), LRaw s_id); ([SP], LRaw s_elementid); ([SP], LRaw u); ([], LNl)]
      | None => []
      end ++
      [(tabs (S k), LRaw s_name); ([SP], LRaw s_string); ([SP], LQ nm); ([], LNl)] ++
      (fix attrs_lex (l : list nattr) : list lexeme :=
         match l with [] => [] | a :: r => lexn_attr k a ++ attrs_lex r end) attrs ++
      [(tabs k, LBraceC)]
  end
with lexn_attr (k : nat) (a : nattr) {struct a} : list lexeme :=
  match a with
  | NAttr an at_ arr items =>
      if arr then
        [(tabs (S k), LQ an); ([SP], LRaw (at_ ++ s_array)); ([], LNl); (tabs (S k), LBrackO); ([], LNl)] ++
        (fix items_lex (l : list nitem) : list lexeme :=
           match l with
           | [] => []
           | it :: r => lexn_item (tabs (S (S k))) (S (S k)) it ++
                        match r with [] => [([], LNl)] | _ => [([], LComma); ([], LNl)] end ++ items_lex r
           end) items ++
        [(tabs (S k), LBrackC); ([], LNl)]
      else match items with
           | [it] => if is_elem_type at_
                     then (tabs (S k), LQ an) :: lexn_item [SP] (S k) it ++ [([], LNl)]
                     else match it with
                          | NStr v => [(tabs (S k), LQ an); ([SP], LRaw at_); ([SP], LQ v); ([], LNl)]
                          | _ => []
                          end
           | _ => []
           end
  end
with lexn_item (w : str) (k : nat) (it : nitem) {struct it} : list lexeme :=
  match it with
  | NInline e => lexn_elem w k e
  | NStr s => [(w, LQ s)]
  | NNull => [(w, LRaw s_element); ([SP], LRaw [])]
  | NRef u => [(w, LRaw s_element); ([SP], LRaw u)]
  end.

Definition lexn_doc (d : ndoc) : list lexeme :=
  match d with
  | [] => []
  | e :: r => lexn_elem [] 0 e ++ [([], LNl)] ++ flat_map (fun x => ([], LNl) :: lexn_elem [] 0 x ++ [([], LNl)]) r
  end.

Section Nested.
Variable T : tables.
Variable o : opts.
Variable fold : str -> str.
Variable vtnames : list str.

Definition rendern_doc (d : ndoc) : str := render_lex T (lexn_doc d).

Definition nref_of (u : str) : nitem := match u with [] => NNull | _ => NRef u end.

(** ** Parser: [_parse_kv2_element], fuel = one unit per call / loop iteration *)
Fixpoint pn_elem (n : nat) (ty nm0 : str) (l : tl) {struct n} : option (nelem * tl) :=
  match n with
  | O => None
  | S n' =>
      match expect BRACE_OPEN l with                       (* tok.block(name): expect(BRACE_OPEN) *)
      | Some (_, r) =>
          match pn_body n' None nm0 [] r with
          | Some (id, nm, attrs, r2) => Some (NElem ty id nm attrs, r2)
          | None => None
          end
      | None => None
      end
  end
with pn_body (n : nat) (id : option str) (nm : str) (acc : list nattr) (l : tl) {struct n}
  : option (option str * str * list nattr * tl) :=
  match n with
  | O => None
  | S n' =>
      match l with
      | [] => None
      | (k, an) :: r =>
          if tok_eqb k BRACE_CLOSE then Some (id, nm, rev acc, r)
          else if tok_eqb k NEWLINE then pn_body n' id nm acc r
          else if tok_eqb k STRING then
            match expect STRING r with
            | Some (orig, r1) =>
                let typ := fold orig in
                if str_eqb an s_id && str_eqb typ s_elementid then
                  match expect STRING r1, id with
                  | Some (u, r2), None => pn_body n' (Some u) nm acc r2
                  | _, _ => None
                  end
                else if str_eqb an s_name then
                  if str_eqb typ s_string then
                    match expect STRING r1 with
                    | Some (v, r2) => pn_body n' id v acc r2
                    | None => None
                    end
                  else None
                else
                  let is_arr := ends_with typ s_array in
                  let base := if is_arr then firstn (length typ - 6) typ else typ in
                  if mem_str base vtnames then
                    if is_arr then
                      match expect BRACK_OPEN r1 with
                      | Some (_, r2) =>
                          match pn_array n' (is_elem_type base) an [] r2 with
                          | Some (its, r3) => pn_body n' id nm (NAttr an base true its :: acc) r3
                          | None => None
                          end
                      | None => None
                      end
                    else
                      match expect STRING r1 with
                      | Some (v, r2) =>
                          pn_body n' id nm (NAttr an base false [if is_elem_type base then nref_of v else NStr v] :: acc) r2
                      | None => None
                      end
                  else                                       (* an inline compound element *)
                    match pn_elem n' orig an r1 with
                    | Some (e, r2) => pn_body n' id nm (NAttr an s_element false [NInline e] :: acc) r2
                    | None => None
                    end
            | None => None
            end
          else None
      end
  end
with pn_array (n : nat) (is_elem : bool) (an : str) (acc : list nitem) (l : tl) {struct n} : option (list nitem * tl) :=
  match n with
  | O => None
  | S n' =>
      match skip_nl l with
      | [] => None
      | (k, v) :: r =>
          if tok_eqb k BRACK_CLOSE then Some (rev acc, r)
          else if tok_eqb k STRING then
            if is_elem then
              if str_eqb v s_element then
                match expect STRING r with
                | Some (u, r1) => pn_array n' is_elem an (nref_of u :: acc) (skip_comma r1)
                | None => None
                end
              else match pn_elem n' v an r with
                   | Some (e, r1) => pn_array n' is_elem an (NInline e :: acc) (skip_comma r1)
                   | None => None
                   end
            else pn_array n' is_elem an (NStr v :: acc) (skip_comma r)
          else None
      end
  end.

Fixpoint pn_doc (n : nat) (acc : list nelem) (l : tl) : option ndoc :=
  match n with
  | O => None
  | S n' =>
      match l with
      | [] => match acc with [] => None | _ => Some (rev acc) end
      | (k, v) :: r =>
          if tok_eqb k STRING then
            match pn_elem (S (length r)) v [] r with
            | Some (e, r2) => pn_doc n' (e :: acc) r2
            | None => None
            end
          else if tok_eqb k NEWLINE then pn_doc n' acc r
          else None
      end
  end.
Definition parsen_tokens (l : tl) : option ndoc := pn_doc (S (length l)) [] l.
Definition parsen_text (text : str) : option ndoc :=
  match tokenize T o text with Some l => parsen_tokens l | None => None end.

(** ** What the nested layout can carry *)
Fixpoint nelem_ok (top : bool) (e : nelem) {struct e} : bool :=
  match e with
  | NElem ty id nm attrs =>
      (top || negb (type_is_keyword fold vtnames ty)) &&
      match id with Some u => blank_free_uuid T u | None => true end &&
      (fix go (l : list nattr) : bool := match l with [] => true | a :: r => nattr_ok a && go r end) attrs
  end
with nattr_ok (a : nattr) {struct a} : bool :=
  match a with
  | NAttr an at_ arr items =>
      mem_str at_ vtnames && negb (str_eqb an s_name) &&
      (fix go (l : list nitem) : bool := match l with [] => true | it :: r => nitem_ok (is_elem_type at_) it && go r end) items &&
      (arr || Nat.eqb (length items) 1)
  end
with nitem_ok (is_elem : bool) (it : nitem) {struct it} : bool :=
  match it with
  | NStr _ => negb is_elem
  | NNull => is_elem
  | NRef u => is_elem && blank_free_uuid T u
  | NInline e => is_elem && nelem_ok false e
  end.
Definition ndoc_ok (d : ndoc) : bool :=
  negb (match d with [] => true | _ => false end) && forallb (nelem_ok true) d.
End Nested.

(** an example: a root with an inline scalar child (itself holding an inline child in an array), an element array with
    an inline element between a NULL and a reference, and a second root *)
Definition ex_ndoc : ndoc := [
  NElem [84] (Some [97;45;49]) [110;34]
    [ NAttr [99] s_element false
        [NInline (NElem [67;104;105;108;100] None [107]
           [ NAttr [118] [105;110;116] false [NStr [55]];
             NAttr [103] s_element true [NInline (NElem [71] (Some [103;45;51]) [] [])] ])];
      NAttr [97;114;114] s_element true
        [NNull; NInline (NElem [73;110] None [120] [NAttr [115] s_string true [NStr [44]; NStr []]]); NRef [98;45;50]];
      NAttr [110] [105;110;116] false [NStr [53]] ];
  NElem [85] (Some [98;45;50]) [] [NAttr [98] s_element false [NRef [97;45;49]]] ].
