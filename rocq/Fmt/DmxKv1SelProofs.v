(** Proofs about Fmt/DmxKv1Sel.v: with both tests on the casefolded name the generalised converter is [from_kv1], so the
    bridge theorem applies; a reserved-name test on the case-preserved name is refuted (seeded fault c14_4). *)
From Coq Require Import NArith List Bool.
From SV Require Import Fmt.DmxKv1 Fmt.DmxKv1Proofs Fmt.DmxKv1Sel.
Import ListNotations.

Lemma scan_sel_folded : forall fold cfg ch st,
  fold_left (scan_step_sel fold cfg NFolded NFolded) ch st = fold_left (scan_step fold cfg) ch st.
Proof. induction ch as [|c ch IH]; intros st; [reflexivity|]. cbn [fold_left]. rewrite IH. destruct c; reflexivity. Qed.

Theorem from_kv1_sel_folded : forall fold cfg t, from_kv1_sel fold cfg NFolded NFolded t = from_kv1 fold cfg t.
Proof.
  intros fold cfg. induction t as [n v | on ch IH] using kv_ind'; [reflexivity|].
  cbn [from_kv1_sel from_kv1]. rewrite scan_sel_folded.
  assert (E : map (fun c => (c, from_kv1_sel fold cfg NFolded NFolded c)) ch = map (fun c => (c, from_kv1 fold cfg c)) ch).
  { apply map_ext_in. intros c Hin. rewrite Forall_forall in IH. rewrite (IH c Hin). reflexivity. }
  rewrite E. reflexivity.
Qed.

Theorem kv1_bridge_roundtrip_sel : forall fold cfg rs ds,
  kv1_cfg_ok cfg = true -> fold_ok fold cfg -> kv1_sel_ok rs ds = true ->
  forall t, wf_kv t = true -> to_kv1 fold cfg (from_kv1_sel fold cfg rs ds t) = Some t.
Proof.
  intros fold cfg rs ds Hc Hf Hs t Hw. destruct rs; [|discriminate]. destruct ds; [|discriminate].
  rewrite from_kv1_sel_folded. apply kv1_bridge_roundtrip_gen; assumption.
Qed.

(** constants with the real reserved spellings: "name", "subkeys", "value" *)
Definition spelled_cfg : kv1cfg := {|
  t_block := [68; 109]%N; t_leaf := [68; 76]%N; t_root := [68; 82]%N;
  reserved := [c_name; [115; 117; 98; 107; 101; 121; 115]%N]; k_value_w := [118; 97; 108; 117; 101]%N;
  k_subkeys_w := [115; 117; 98; 107; 101; 121; 115]%N;
  k_value_r := [118; 97; 108; 117; 101]%N; k_subkeys_r := [115; 117; 98; 107; 101; 121; 115]%N; k_name_r := c_name |}.
(** block "Entity" { "Name" "Fred" } *)
Definition entity_tree : kv := KBlock (Some [69; 110; 116; 105; 116; 121]%N) [KLeaf [78; 97; 109; 101]%N [70; 114; 101; 100]%N].

Theorem kv1_reserved_test_on_real_name_refuted :
  kv1_cfg_ok spelled_cfg = true /\ wf_kv entity_tree = true /\
  to_kv1 kv_lower spelled_cfg (from_kv1_sel kv_lower spelled_cfg NFolded NFolded entity_tree) = Some entity_tree /\
  (* the test reads real_name: 'Name' is inlined, overwrites the element's own name, the block comes back named "Fred" *)
  to_kv1 kv_lower spelled_cfg (from_kv1_sel kv_lower spelled_cfg NReal NFolded entity_tree)
  = Some (KBlock (Some [70; 114; 101; 100]%N) [KLeaf [78; 97; 109; 101]%N [70; 114; 101; 100]%N]).
Proof. vm_compute. repeat split. Qed.

(** the duplicate test on the case-preserved name: "Key" and "KEY" are both inlined and one of them is lost *)
Definition dup_tree : kv := KBlock (Some [66]%N) [KLeaf [75; 101; 121]%N [49]%N; KLeaf [75; 69; 89]%N [50]%N].
Theorem kv1_duplicate_test_on_real_name_refuted :
  to_kv1 kv_lower spelled_cfg (from_kv1_sel kv_lower spelled_cfg NFolded NFolded dup_tree) = Some dup_tree /\
  to_kv1 kv_lower spelled_cfg (from_kv1_sel kv_lower spelled_cfg NFolded NReal dup_tree) = Some (KBlock (Some [66]%N) [KLeaf [75; 69; 89]%N [50]%N]).
Proof. vm_compute. repeat split. Qed.
