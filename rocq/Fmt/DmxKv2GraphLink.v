(** C14 — the graph the fix-up pass of [parse_kv2] builds ([link]) written out again with references by id is the document
    that was read: [link d] is determined by [d] up to the numbering of its elements.  With [nest_is_flatten_permuted]: the
    graph read from the nested layout and the exported graph have flat documents that are permutations of each other,
    with the same first element — they are the same graph up to the order in which the elements are listed. *)
From Coq Require Import NArith List Bool Lia PeanoNat.
From SV Require Import Text.Str Text.Tokenizer Fmt.DmxKv2 Fmt.DmxKv2Proofs.
Import ListNotations.
Open Scope nat_scope.

Lemma last_index_sound u : forall ids base i, last_index u ids base = Some i -> base <= i /\ nth (i - base) ids [] = u.
Proof.
  induction ids as [|x r IH]; intros base i H; [discriminate|]. cbn [last_index] in H.
  destruct (last_index u r (S base)) as [j|] eqn:E.
  - injection H as <-. destruct (IH (S base) j E) as [Hle Hn]. split; [lia|].
    replace (j - base) with (S (j - S base)) by lia. exact Hn.
  - destruct (str_eqb u x) eqn:Ex; [|discriminate]. injection H as <-. split; [lia|].
    rewrite Nat.sub_diag. cbn [nth]. symmetry. now apply str_eqb_eq.
Qed.

Lemma all_ids_spec : forall d ids, all_ids d = Some ids -> map ke_id d = map Some ids.
Proof.
  induction d as [|e d IH]; intros ids H; [injection H as <-; reflexivity|].
  cbn [all_ids] in H. destruct (ke_id e) as [u|] eqn:Eu; [|discriminate]. destruct (all_ids d) as [l|] eqn:El; [|discriminate].
  injection H as <-. cbn [map]. now rewrite Eu, (IH l eq_refl).
Qed.

Lemma flat_link_item ids it : flat_item ids (link_item ids it) = it.
Proof.
  destruct it as [s| |u]; cbn [link_item flat_item]; try reflexivity.
  destruct (last_index u ids 0) as [i|] eqn:E; cbn [flat_item]; [|reflexivity].
  destruct (last_index_sound u ids 0 i E) as [_ Hn]. rewrite Nat.sub_0_r in Hn. now rewrite Hn.
Qed.

(** the graph the fix-up pass builds, written out again with references by id, is the document that was read: the graph
    [link d] is determined by [d] up to the numbering of its elements *)
Theorem flatten_link d g : link d = Some g -> flatten g = d.
Proof.
  unfold link. destruct (all_ids d) as [ids|] eqn:E; [|discriminate]. intros H. injection H as <-.
  pose proof (all_ids_spec d ids E) as Hids. unfold flatten. rewrite !map_map. cbn [ge_id].
  assert (Hm : map (fun x : kelem => match ke_id x with Some u => u | None => [] end) d = ids).
  { clear E. revert ids Hids. induction d as [|e d IH]; intros ids Hids; destruct ids as [|u ids]; try discriminate; [reflexivity|].
    cbn [map] in Hids |- *. injection Hids as He Hd. rewrite He. f_equal. now apply IH. }
  rewrite Hm. rewrite <- (map_id d) at 2. apply map_ext_in. intros e He.
  unfold flat_elem. cbn [ge_type ge_id ge_name ge_attrs].
  assert (Hid : Some (match ke_id e with Some u => u | None => [] end) = ke_id e).
  { assert (In (ke_id e) (map Some ids)) by (rewrite <- Hids; now apply in_map). apply in_map_iff in H. destruct H as [u [<- _]]. reflexivity. }
  rewrite Hid. destruct e as [ty id nm attrs]. cbn [ke_type ke_id ke_name ke_attrs]. f_equal.
  rewrite map_map. rewrite <- (map_id attrs) at 2. apply map_ext. intros a. unfold flat_attr, link_attr. cbn [ga_name ga_type ga_arr ga_items].
  destruct a as [an at_ arr items]. cbn [ka_name ka_type ka_arr ka_items]. f_equal.
  rewrite map_map. rewrite <- (map_id items) at 2. apply map_ext. apply flat_link_item.
Qed.
