(** C15 — frame-level round trip (Fmt/VtfFrameCodec.v) and its composition with the whole-file theorem. *)
From Coq Require Import NArith ZArith Arith List Bool Lia.
From SV Require Import Fmt.VtfPixelExpr Fmt.VtfPixelExprProofs Fmt.VtfFrameCodec.
Import ListNotations.

Lemma chunks_aux_concat : forall n, (0 < n)%nat -> forall (ls : list (list N)) fuel,
  Forall (fun l => length l = n) ls -> (length ls <= fuel)%nat -> chunks_aux fuel n (concat ls) = ls.
Proof.
  intros n Hn ls. induction ls as [|l r IH]; intros fuel Hl Hf.
  - destruct fuel; reflexivity.
  - inversion Hl as [|? ? Hlen Hr]; subst. destruct fuel as [|f]; [cbn in Hf; lia|].
    cbn [concat chunks_aux]. destruct (l ++ concat r) eqn:E.
    + destruct l; [cbn in Hn; lia | discriminate].
    + rewrite <- E. rewrite firstn_app, firstn_all, Nat.sub_diag, firstn_O, app_nil_r.
      rewrite skipn_app, skipn_all, Nat.sub_diag. cbn [skipn app]. f_equal. apply IH; [assumption | cbn in Hf; lia].
Qed.

Lemma chunks_concat : forall n, (0 < n)%nat -> forall (ls : list (list N)),
  Forall (fun l => length l = n) ls -> chunks n (concat ls) = ls.
Proof.
  intros n Hn ls Hl. unfold chunks. apply chunks_aux_concat; try assumption.
  induction Hl as [|l r Hlen _ IH]; cbn; [lia|]. rewrite app_length. lia.
Qed.

Lemma flat_map_concat_map {A B} (f : A -> list B) (l : list A) : flat_map f l = concat (map f l).
Proof. induction l; cbn; congruence. Qed.

(** Every pixel of a frame that was saved and loaded is the documented quantisation of the pixel that was saved:
    the per-pixel law for a whole frame of any number of pixels. *)
Theorem frame_load_of_save : forall c q, rt_ok c q = true -> (0 < bpp c)%nat ->
  forall ps, Forall bytes ps ->
    decode_frame c (encode_frame c ps) = map (run q) ps
    /\ bytes (encode_frame c ps) /\ length (encode_frame c ps) = (bpp c * length ps)%nat.
Proof.
  intros c q H Hb ps Hps. unfold decode_frame, encode_frame. rewrite flat_map_concat_map.
  assert (L : Forall (fun l => length l = bpp c) (map (fun p => run (save_e c) p) ps)).
  { apply Forall_forall. intros l Hin. apply in_map_iff in Hin. destruct Hin as [p [<- Hp]].
    rewrite Forall_forall in Hps. destruct (rt_sound c q H p (Hps p Hp)) as [_ [_ E]]. exact E. }
  rewrite (chunks_concat (bpp c) Hb _ L). split; [|split].
  - rewrite map_map. apply map_ext_in. intros p Hp. rewrite Forall_forall in Hps.
    destruct (rt_sound c q H p (Hps p Hp)) as [E _]. exact E.
  - unfold bytes. apply Forall_concat. apply Forall_forall. intros l Hin. apply in_map_iff in Hin. destruct Hin as [p [<- Hp]].
    rewrite Forall_forall in Hps. destruct (rt_sound c q H p (Hps p Hp)) as [_ [E _]]. exact E.
  - clear Hps. induction ps as [|p r IH]; cbn; [lia|]. rewrite app_length.
    inversion L as [|? ? Hl Lr]; subst. rewrite (IH Lr). cbn in Hl. rewrite Hl. lia.
Qed.

Lemma decode_encode_raw : forall c q, rt_ok c q = true -> (0 < bpp c)%nat -> forall ps, Forall bytes ps ->
  decode_frame c (encode_frame c ps) = map (fun p => run (load_e c) (run (save_e c) p)) ps.
Proof.
  intros c q H Hb ps Hps. unfold decode_frame, encode_frame. rewrite flat_map_concat_map.
  assert (L : Forall (fun l => length l = bpp c) (map (fun p => run (save_e c) p) ps)).
  { apply Forall_forall. intros l Hin. apply in_map_iff in Hin. destruct Hin as [p [<- Hp]].
    rewrite Forall_forall in Hps. destruct (rt_sound c q H p (Hps p Hp)) as [_ [_ E']]. exact E'. }
  rewrite (chunks_concat (bpp c) Hb _ L). now rewrite map_map.
Qed.

(** Storing the loaded frame again gives the same bytes: a second save/read round trip changes nothing. *)
Theorem frame_stored_fixpoint : forall c q canon, rt_ok c q = true -> sf_ok c canon = true -> (0 < bpp c)%nat ->
  forall ps, Forall bytes ps ->
    encode_frame c (decode_frame c (encode_frame c ps)) = encode_frame c ps.
Proof.
  intros c q canon H Hs Hb ps Hps. rewrite (decode_encode_raw c q H Hb ps Hps). unfold encode_frame.
  rewrite !flat_map_concat_map, map_map. f_equal.
  apply map_ext_in. intros p Hp. rewrite Forall_forall in Hps. destruct (sf_sound c canon Hs) as [_ F]. exact (F p (Hps p Hp)).
Qed.

(** 8 bits per used channel, whole frame: with the identity specification the frame comes back unchanged. *)
Corollary frame_exact : forall c, rt_ok c spec_rgba = true -> (0 < bpp c)%nat ->
  forall ps, Forall bytes ps -> Forall (fun p => length p = 4%nat) ps -> decode_frame c (encode_frame c ps) = ps.
Proof.
  intros c H Hb ps Hps H4. destruct (frame_load_of_save c spec_rgba H Hb ps Hps) as [E _]. rewrite E.
  rewrite <- (map_id ps) at 2. apply map_ext_in. intros p Hp. rewrite Forall_forall in H4. specialize (H4 p Hp).
  destruct p as [|r [|g [|b [|a [|]]]]]; try discriminate. reflexivity.
Qed.

Open Scope N_scope.
Example frame_inhabited :
  let c := {| bpp := 4; save_e := ident 4; load_e := ident 4 |} in
  rt_ok c spec_rgba = true /\ decode_frame c (encode_frame c [[1; 2; 3; 4]; [5; 6; 7; 8]]) = [[1; 2; 3; 4]; [5; 6; 7; 8]].
Proof. vm_compute. split; reflexivity. Qed.
