From Coq Require Import NArith List Bool Lia.
From SV Require Import Fmt.VmfPlane.
Import ListNotations.
Open Scope N_scope.

Lemma split_aux_run p : no_paren p = true -> forall cur rest,
  split_str_aux PSEP 0 cur (p ++ rest) = split_str_aux PSEP 0 (rev p ++ cur) rest.
Proof.
  induction p as [|c p IH]; intros H cur rest; [reflexivity|].
  cbn [no_paren forallb] in H. apply andb_true_iff in H. destruct H as [Hc Hp]. apply negb_true_iff in Hc.
  apply orb_false_iff in Hc. destruct Hc as [_ H41].
  cbn [app split_str_aux]. unfold PSEP at 1. cbn [pl_prefix]. rewrite N.eqb_sym, H41. cbn [andb].
  rewrite IH by exact Hp. cbn [rev]. rewrite <- app_assoc. reflexivity.
Qed.

Lemma split_aux_sep cur rest :
  split_str_aux PSEP 0 cur (PSEP ++ rest) = rev cur :: split_str_aux PSEP 0 [] rest.
Proof. reflexivity. Qed.

Lemma split_aux_end p : no_paren p = true -> forall cur, split_str_aux PSEP 0 cur p = [rev cur ++ p].
Proof.
  intros H cur. rewrite <- (app_nil_r p) at 1. rewrite split_aux_run by exact H. cbn [split_str_aux].
  rewrite rev_app_distr, rev_involutive. reflexivity.
Qed.

Lemma drop_ends_wrap s : drop_ends (40 :: s ++ [41]) = s.
Proof. cbn [drop_ends]. apply removelast_last. Qed.

(** Three texts free of parentheses -- Vec texts are number tokens and spaces -- survive. *)
Theorem plane_text_roundtrip a b c : no_paren a = true -> no_paren b = true -> no_paren c = true ->
  plane_parse (plane_text a b c) = Some (a, b, c).
Proof.
  intros Ha Hb Hc. unfold plane_parse, plane_text.
  replace (40 :: a ++ PSEP ++ b ++ PSEP ++ c ++ [41]) with (40 :: (a ++ PSEP ++ b ++ PSEP ++ c) ++ [41])
    by (rewrite <- !app_assoc; reflexivity).
  rewrite drop_ends_wrap. unfold split_str.
  rewrite split_aux_run by exact Ha. rewrite app_nil_r. rewrite split_aux_sep, rev_involutive.
  rewrite split_aux_run by exact Hb. rewrite app_nil_r. rewrite split_aux_sep, rev_involutive.
  rewrite split_aux_end by exact Hc. reflexivity.
Qed.

Example plane_text_example : plane_parse (plane_text [49; 32; 50; 32; 51] [48; 32; 48; 32; 48] [45; 49; 32; 48; 32; 53])
  = Some ([49; 32; 50; 32; 51], [48; 32; 48; 32; 48], [45; 49; 32; 48; 32; 53]).
Proof. vm_compute. reflexivity. Qed.
(** A parenthesis inside a part breaks it: "1) (2" as first part gives four parts. *)
Theorem plane_paren_in_part_refuted : plane_parse (plane_text [49; 41; 32; 40; 50] [51] [52]) = None.
Proof. vm_compute. reflexivity. Qed.
