(** C14 — sharing survives the nested KeyValues2 layout: every element is written exactly once.  An element that is
    not a root is referred to at most once in the whole graph (the root rule), so it is written inline at most
    once; the blocks are counted level by level (roots, the elements inline in roots, the elements inline in those, ...):
    two levels cannot meet because the holder of an inline element is unique. *)
From Coq Require Import NArith List Bool Lia PeanoNat Permutation.
From SV Require Import Text.Str Text.Tokenizer Fmt.DmxKv2 Fmt.DmxKv2Proofs Fmt.DmxKv2Nested Fmt.DmxKv2Graph Fmt.DmxKv2GraphProofs.
Import ListNotations.
Open Scope nat_scope.

(** * lists *)
Definition disj {A} (a b : list A) : Prop := forall x, In x a -> In x b -> False.

Lemma flat_map_nil_fn {A B} (l : list A) : flat_map (fun _ : A => @nil B) l = [].
Proof. induction l; cbn; auto. Qed.

Lemma flat_map_ext_in' {A B} (f h : A -> list B) l : (forall a, In a l -> f a = h a) -> flat_map f l = flat_map h l.
Proof.
  induction l as [|a l IH]; intros H; [reflexivity|]. cbn [flat_map]. rewrite (H a) by now left.
  rewrite IH; [reflexivity|]. intros b Hb. apply H. now right.
Qed.

Lemma flat_map_flat_map {A B C} (f : B -> list C) (h : A -> list B) l :
  flat_map f (flat_map h l) = flat_map (fun x => flat_map f (h x)) l.
Proof. induction l as [|a l IH]; [reflexivity|]. cbn [flat_map]. now rewrite flat_map_app, IH. Qed.

Lemma perm_cons_flat_map {A} (F : A -> list A) l : Permutation (flat_map (fun i => i :: F i) l) (l ++ flat_map F l).
Proof.
  induction l as [|a l IH]; [constructor|]. cbn [flat_map app]. apply perm_skip.
  transitivity (F a ++ l ++ flat_map F l); [now apply Permutation_app_head|apply Permutation_app_swap_app].
Qed.

Lemma NoDup_app_intro {A} (a b : list A) : NoDup a -> NoDup b -> disj a b -> NoDup (a ++ b).
Proof.
  induction a as [|x a IH]; intros Ha Hb Hd; [assumption|]. inversion Ha as [|? ? Hx Ha']; subst. cbn. constructor.
  - intros Hin. apply in_app_or in Hin. destruct Hin as [Hin|Hin]; [now apply Hx|]. apply (Hd x); [now left|assumption].
  - apply IH; [assumption|assumption|]. intros y Hy1 Hy2. apply (Hd y); [now right|assumption].
Qed.

Lemma NoDup_app_elim {A} (a b : list A) : NoDup (a ++ b) -> NoDup a /\ NoDup b /\ disj a b.
Proof.
  induction a as [|x a IH]; intros H.
  - repeat split; [constructor|assumption|intros y []].
  - cbn in H. inversion H as [|? ? Hx H']; subst. destruct (IH H') as [Ha [Hb Hd]]. repeat split.
    + constructor; [|assumption]. intros Hin. apply Hx. apply in_or_app. now left.
    + assumption.
    + intros y [<-|Hy] Hy2; [apply Hx; apply in_or_app; now right|now apply (Hd y)].
Qed.

Lemma flat_map_parent_unique {A B} (F : A -> list B) : forall M a b x,
  NoDup (flat_map F M) -> In a M -> In b M -> In x (F a) -> In x (F b) -> a = b.
Proof.
  induction M as [|m M IH]; intros a b x Hn Ha Hb Hxa Hxb; [destruct Ha|].
  cbn [flat_map] in Hn. destruct (NoDup_app_elim _ _ Hn) as [_ [Hn2 Hd]].
  destruct Ha as [<-|Ha], Hb as [<-|Hb].
  - reflexivity.
  - exfalso. apply (Hd x Hxa). apply in_flat_map. now exists b.
  - exfalso. apply (Hd x Hxb). apply in_flat_map. now exists a.
  - now apply (IH a b x).
Qed.

Lemma count_flat_map_sub (F : nat -> list nat) x : forall L M, NoDup L -> incl L M ->
  count_occ Nat.eq_dec (flat_map F L) x <= count_occ Nat.eq_dec (flat_map F M) x.
Proof.
  induction L as [|a L IH]; intros M Hn Hi; [cbn; lia|].
  inversion Hn as [|? ? Ha Hn']; subst.
  assert (HaM : In a M) by (apply Hi; now left).
  destruct (in_split _ _ HaM) as [M1 [M2 ->]].
  assert (Hi' : incl L (M1 ++ M2)).
  { intros y Hy. assert (Hy' : In y (M1 ++ a :: M2)) by (apply Hi; now right).
    apply in_app_or in Hy'. apply in_or_app. destruct Hy' as [Hy'|[Hy'|Hy']]; [now left|subst; contradiction|now right]. }
  specialize (IH (M1 ++ M2) Hn' Hi'). rewrite flat_map_app in IH |- *. cbn [flat_map]. rewrite !count_occ_app in IH |- *.
  repeat rewrite count_occ_app. lia.
Qed.

Section Unique.
Variable g : gdoc.
Variable isroot : nat -> bool.
Notation n := (length g).

(** the elements written inline inside the block of element [i], with multiplicity, in the order written *)
Definition kids (i : nat) : list nat :=
  flat_map (fun a => flat_map (item_blocks isroot (fun j => [j])) (ga_items a)) (ge_attrs (nth i g dflt_gelem)).
Definition K (l : list nat) : list nat := flat_map kids l.

Hypothesis Hrange : refs_in_range g.
(** every element that is not a root is referred to at most once *)
Hypothesis HU : NoDup (K (seq 0 n)).

Lemma blocks_kids f i : blocks g isroot (S f) i = i :: flat_map (blocks g isroot f) (kids i).
Proof.
  cbn [blocks]. f_equal. unfold kids. rewrite flat_map_flat_map. apply flat_map_ext. intros a.
  rewrite flat_map_flat_map. apply flat_map_ext. intros it. destruct it as [s|[j| |u]]; cbn [item_blocks flat_map]; try reflexivity.
  destruct (isroot j); cbn [flat_map]; [reflexivity|now rewrite app_nil_r].
Qed.

Lemma kids_spec i x : In x (kids i) ->
  isroot x = false /\ exists a, In a (ge_attrs (nth i g dflt_gelem)) /\ In (GRef (GElem x)) (ga_items a).
Proof.
  unfold kids. intros H. apply in_flat_map in H. destruct H as [a [Ha H]]. apply in_flat_map in H. destruct H as [it [Hit H]].
  destruct it as [s|[j| |u]]; cbn [item_blocks] in H; try destruct H. destruct (isroot j) eqn:Rj; [destruct H|].
  destruct H as [<-|[]]. split; [assumption|]. now exists a.
Qed.
Lemma kids_nonroot i x : In x (kids i) -> isroot x = false.
Proof. intros H. apply (kids_spec i x H). Qed.
Lemma kids_range i x : In x (kids i) -> x < n.
Proof. intros H. destruct (kids_spec i x H) as [_ [a [Ha Hx]]]. exact (Hrange i a x Ha Hx). Qed.

Definition in_range (l : list nat) : Prop := forall x, In x l -> x < n.
Lemma K_range l : in_range (K l).
Proof. intros x H. apply in_flat_map in H. destruct H as [i [_ H]]. now apply (kids_range i). Qed.
Lemma K_nonroot l x : In x (K l) -> isroot x = false.
Proof. intros H. apply in_flat_map in H. destruct H as [i [_ H]]. now apply (kids_nonroot i). Qed.
Lemma in_range_incl l : in_range l -> incl l (seq 0 n).
Proof. intros H x Hx. apply in_seq. specialize (H x Hx). lia. Qed.

Lemma K_nodup l : NoDup l -> in_range l -> NoDup (K l).
Proof.
  intros Hn Hr. apply (NoDup_count_occ Nat.eq_dec). intros x.
  pose proof (count_flat_map_sub kids x l (seq 0 n) Hn (in_range_incl l Hr)) as H1.
  pose proof (proj1 (NoDup_count_occ Nat.eq_dec _) HU x) as H2. unfold K in *. lia.
Qed.

Lemma K_disj a b : in_range a -> in_range b -> disj a b -> disj (K a) (K b).
Proof.
  intros Ha Hb Hd x H1 H2. apply in_flat_map in H1. destruct H1 as [p [Hp H1]]. apply in_flat_map in H2. destruct H2 as [q [Hq H2]].
  assert (p = q).
  { apply (flat_map_parent_unique kids (seq 0 n) p q x HU); try assumption;
    [apply (in_range_incl a Ha p Hp)|apply (in_range_incl b Hb q Hq)]. }
  subst q. now apply (Hd p).
Qed.

(** the levels below a list of blocks, to depth [f] *)
Fixpoint lv_union (f : nat) (l : list nat) : list nat :=
  match f with O => [] | S f' => l ++ lv_union f' (K l) end.

Lemma blocks_levels : forall f l, Permutation (flat_map (blocks g isroot f) l) (lv_union f l).
Proof.
  induction f as [|f IH]; intros l.
  - cbn [lv_union]. replace (flat_map (blocks g isroot 0) l) with (@nil nat); [constructor|].
    symmetry. apply flat_map_nil_fn.
  - cbn [lv_union]. rewrite (flat_map_ext _ _ (blocks_kids f)).
    etransitivity; [apply perm_cons_flat_map|]. apply Permutation_app_head.
    rewrite <- flat_map_flat_map. apply IH.
Qed.

Lemma lv_range : forall f l, in_range l -> in_range (lv_union f l).
Proof.
  induction f as [|f IH]; intros l Hl x Hx; [destruct Hx|]. cbn [lv_union] in Hx. apply in_app_or in Hx.
  destruct Hx as [Hx|Hx]; [now apply Hl|]. apply (IH (K l) (K_range l) x Hx).
Qed.
Lemma lv_nonroot : forall f l, (forall x, In x l -> isroot x = false) -> forall x, In x (lv_union f l) -> isroot x = false.
Proof.
  induction f as [|f IH]; intros l Hl x Hx; [destruct Hx|]. cbn [lv_union] in Hx. apply in_app_or in Hx.
  destruct Hx as [Hx|Hx]; [now apply Hl|]. apply (IH (K l) (K_nonroot l) x Hx).
Qed.

Lemma disj_app_r {A} (a b c : list A) : disj a (b ++ c) <-> disj a b /\ disj a c.
Proof.
  split.
  - intros H. split; intros x H1 H2; apply (H x H1); apply in_or_app; [now left|now right].
  - intros [H1 H2] x Hx Hy. apply in_app_or in Hy. destruct Hy; [now apply (H1 x)|now apply (H2 x)].
Qed.

Lemma lv_shift : forall f a b, in_range a -> in_range b -> disj a (lv_union f b) -> disj (K a) (lv_union f (K b)).
Proof.
  induction f as [|f IH]; intros a b Ha Hb Hd; [intros x _ []|].
  cbn [lv_union] in Hd |- *. apply disj_app_r in Hd. destruct Hd as [Hd1 Hd2]. apply disj_app_r. split.
  - now apply K_disj.
  - apply IH; [assumption|apply K_range|assumption].
Qed.

Lemma lv_nodup : forall f l, NoDup l -> in_range l -> (forall m, disj l (lv_union m (K l))) -> NoDup (lv_union f l).
Proof.
  induction f as [|f IH]; intros l Hn Hr Hd; [constructor|]. cbn [lv_union]. apply NoDup_app_intro.
  - assumption.
  - apply IH; [now apply K_nodup|apply K_range|]. intros m. apply lv_shift; [assumption|apply K_range|apply Hd].
  - apply Hd.
Qed.

(** every element is written at most once *)
Theorem all_blocks_nodup : NoDup (all_blocks g isroot).
Proof.
  unfold all_blocks. apply (Permutation_NoDup (l := lv_union (S n) (root_list g isroot))).
  - symmetry. apply blocks_levels.
  - apply lv_nodup.
    + unfold root_list. apply NoDup_filter. apply seq_NoDup.
    + intros x Hx. unfold root_list in Hx. apply filter_In in Hx. destruct Hx as [Hx _]. apply in_seq in Hx. lia.
    + intros m x H1 H2. unfold root_list in H1. apply filter_In in H1. destruct H1 as [_ R].
      pose proof (lv_nonroot m (K (root_list g isroot)) (K_nonroot _) x H2) as R'. congruence.
Qed.
End Unique.

(** * from the use counts: if every non-root is referred to at most once in the whole graph, [HU] holds *)
Section Counts.
Variable g : gdoc.
Variable isroot : nat -> bool.

Lemma flat_map_seq_nth {B} (F : gelem -> list B) : forall (l : gdoc) (k : nat),
  flat_map (fun i => F (nth (i - k) l dflt_gelem)) (seq k (length l)) = flat_map F l.
Proof.
  induction l as [|e l IH]; intros k; [reflexivity|]. cbn [length seq flat_map]. rewrite Nat.sub_diag. cbn [nth]. f_equal.
  rewrite <- (IH (S k)). apply flat_map_ext_in'. intros i Hi. apply in_seq in Hi.
  replace (i - k) with (S (i - S k)) by lia. reflexivity.
Qed.

Lemma count_kids_item x (it : gitem) :
  count_occ Nat.eq_dec (item_blocks isroot (fun j => [j]) it) x <= count_occ Nat.eq_dec (item_targets it) x.
Proof. destruct it as [s|[j| |u]]; cbn [item_blocks item_targets]; try lia. destruct (isroot j); cbn; [destruct (Nat.eq_dec j x); lia|lia]. Qed.

Lemma count_flat_map_le {A} (F G : A -> list nat) x : (forall a, count_occ Nat.eq_dec (F a) x <= count_occ Nat.eq_dec (G a) x) ->
  forall l, count_occ Nat.eq_dec (flat_map F l) x <= count_occ Nat.eq_dec (flat_map G l) x.
Proof. intros H. induction l as [|a l IH]; [cbn; lia|]. cbn [flat_map]. rewrite !count_occ_app. specialize (H a). lia. Qed.

Lemma count_K x : count_occ Nat.eq_dec (K g isroot (seq 0 (length g))) x <= occ g x.
Proof.
  unfold K, occ, all_targets.
  transitivity (count_occ Nat.eq_dec (flat_map (fun e => flat_map (fun a => flat_map (item_blocks isroot (fun j => [j])) (ga_items a)) (ge_attrs e)) g) x).
  - apply Nat.eq_le_incl. f_equal. rewrite <- (flat_map_seq_nth _ g 0). apply flat_map_ext. intros i. unfold kids. now rewrite Nat.sub_0_r.
  - apply count_flat_map_le. intros e. unfold elem_targets. apply count_flat_map_le. intros a. apply count_flat_map_le. apply count_kids_item.
Qed.

Theorem non_roots_used_once_nodup : (forall j, isroot j = false -> occ g j <= 1) -> NoDup (K g isroot (seq 0 (length g))).
Proof.
  intros H. apply (NoDup_count_occ Nat.eq_dec). intros x. destruct (isroot x) eqn:R.
  - destruct (count_occ Nat.eq_dec (K g isroot (seq 0 (length g))) x) as [|k] eqn:E; [lia|].
    assert (Hin : In x (K g isroot (seq 0 (length g)))) by (apply (count_occ_In Nat.eq_dec); lia).
    unfold K in Hin. apply in_flat_map in Hin. destruct Hin as [i [_ Hin]].
    unfold kids in Hin. apply in_flat_map in Hin. destruct Hin as [a [_ Hin]]. apply in_flat_map in Hin. destruct Hin as [it [_ Hin]].
    destruct it as [s|[j| |u]]; cbn [item_blocks] in Hin; try destruct Hin. destruct (isroot j) eqn:Rj; [destruct Hin|].
    destruct Hin as [<-|[]]. congruence.
  - pose proof (count_K x). specialize (H x R). lia.
Qed.
End Counts.
