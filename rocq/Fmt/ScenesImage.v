(* ScenesImage.v -- executable model of the `scenes.image` (VSIF) container.

   Models, at the container level, the writer `save_scenes_image_sync` and the
   reader `parse_scenes_image` of srctools/choreo.py together with the helpers
   `struct_read`, `read_nullstr`, `read_offset_array` of srctools/binformat.py.

   Conventions
   - a byte is an `N` (intended < 256), a file is a `list N`;
   - all integers in the file are 4-byte little endian and are decoded UNSIGNED
     by [de32]/[rd32].  The Python code uses the signed '<i' for most fields;
     under `image_ok` every such field is < 2^31, so signedness is irrelevant
     there.  For malformed files the reader treats raw values >= 2^31 in
     scene_off, scene_count, data_off and the sound indexes the way Python
     treats the corresponding negative numbers (see the comments below);
     a negative last_speak is returned as its raw unsigned value;
   - the scene payload of an entry is an opaque blob, the LZMA step is
     abstracted away (see Section Codec in ScenesImageProofs.v);
   - the string pool is an input of the writer.

   This file contains definitions only.  All lemmas live in
   ScenesImageProofs.v. *)

From Coq Require Import List NArith ZArith Lia Bool Arith.
Import ListNotations.
Local Open Scope N_scope.

(* ------------------------------------------------------------------ *)
(** * Little-endian 32-bit integers *)

(** The 4 little-endian bytes of [n mod 2^32]. *)
Definition le32 (n : N) : list N :=
  [ n mod 256; (n / 256) mod 256; (n / 65536) mod 256; (n / 16777216) mod 256 ].

(** Cursor-style reader: value of the first four bytes and the remainder;
    [None] when fewer than four bytes remain (Python: struct.error). *)
Definition rd32 (b : list N) : option (N * list N) :=
  match b with
  | b0 :: b1 :: b2 :: b3 :: r =>
      Some (b0 + 256 * b1 + 65536 * b2 + 16777216 * b3, r)
  | _ => None
  end.

Definition de32 (b : list N) : option N :=
  match rd32 b with
  | Some (v, _) => Some v
  | None => None
  end.

(* ------------------------------------------------------------------ *)
(** * Generic helpers *)

Definition lenN {A : Type} (l : list A) : N := N.of_nat (length l).

(** [file.seek(off)] followed by reading: the bytes from absolute offset
    [off].  The guard only avoids building a huge unary number when [off]
    is garbage; [seek file off = skipn (N.to_nat off) file] always holds. *)
Definition seek (file : list N) (off : N) : list N :=
  if off <=? lenN file then skipn (N.to_nat off) file else [].

(** [file.read(n)]: at most [n] bytes; silently fewer at EOF.
    [take n l = firstn (N.to_nat n) l] always holds. *)
Definition take (n : N) (l : list N) : list N :=
  if n <=? lenN l then firstn (N.to_nat n) l else l.

Fixpoint mapM {A B : Type} (f : A -> option B) (l : list A) : option (list B) :=
  match l with
  | [] => Some []
  | a :: t =>
      match f a with
      | None => None
      | Some b =>
          match mapM f t with
          | None => None
          | Some bs => Some (b :: bs)
          end
      end
  end.

(** Read [n] consecutive le32 values. *)
Fixpoint read_ints (n : nat) (l : list N) : option (list N) :=
  match n with
  | O => Some []
  | S k =>
      match rd32 l with
      | None => None
      | Some (v, r) =>
          match read_ints k r with
          | None => None
          | Some vs => Some (v :: vs)
          end
      end
  end.

(* ------------------------------------------------------------------ *)
(** * Entries *)

Record entry := mkEntry {
  e_crc : N;
  e_dur : N;
  e_last : N;
  e_sounds : list N;     (* pool indexes *)
  e_blob : list N
}.

Record pentry := mkPentry {
  p_crc : N;
  p_dur : N;
  p_last : N;
  p_sounds : list (list N);   (* the strings *)
  p_blob : list N
}.

(** Stable insertion sort by [e_crc], ascending: Python
    [scene_list.sort(key=lambda entry: entry.checksum)]. *)
Fixpoint insert_crc (e : entry) (l : list entry) : list entry :=
  match l with
  | [] => [e]
  | h :: t => if e_crc e <=? e_crc h then e :: l else h :: insert_crc e t
  end.

Definition sort_by_crc (es : list entry) : list entry :=
  fold_right insert_crc [] es.

(* ------------------------------------------------------------------ *)
(** * Writer *)

Definition magic : list N := [86; 83; 73; 70].   (* "VSIF" *)

Definition sec_header (version nent npool scene_off : N) : list N :=
  magic ++ le32 version ++ le32 nent ++ le32 npool ++ le32 scene_off.

Definition str_bytes (s : list N) : list N := s ++ [0].

(** Absolute offsets of the pool strings, the first one being at [start]. *)
Fixpoint str_offsets (start : N) (pool : list (list N)) : list N :=
  match pool with
  | [] => []
  | s :: t => start :: str_offsets (start + lenN (str_bytes s)) t
  end.

Definition summary (version : N) (e : entry) : list N :=
  le32 (e_dur e)
  ++ (if version =? 3 then le32 (e_last e) else [])
  ++ le32 (lenN (e_sounds e))
  ++ flat_map le32 (e_sounds e).

(** One raw record of the entry table: (crc, data_off, data_size, summary_off). *)
Definition rawrec : Type := (N * N * N * N)%type.

Definition rec_bytes (r : rawrec) : list N :=
  let '(crc, doff, dsize, soff) := r in
  le32 crc ++ le32 doff ++ le32 dsize ++ le32 soff.

(** The records of [es], the summary of the first entry being at [soff] and
    its blob at [doff]. *)
Fixpoint recs (version : N) (es : list entry) (soff doff : N) : list rawrec :=
  match es with
  | [] => []
  | e :: t =>
      (e_crc e, doff, lenN (e_blob e), soff)
      :: recs version t (soff + lenN (summary version e)) (doff + lenN (e_blob e))
  end.

Definition img_write (version : N) (pool : list (list N)) (es : list entry) : list N :=
  let sorted := sort_by_crc es in
  let npool := lenN pool in
  let nent := lenN sorted in
  let strs := flat_map str_bytes pool in
  let str_start := 20 + 4 * npool in
  let scene_off := str_start + lenN strs in
  let sums := flat_map (summary version) sorted in
  let blobs := flat_map e_blob sorted in
  let soff := scene_off + 16 * nent in
  let doff := soff + lenN sums in
  sec_header version nent npool scene_off
  ++ flat_map le32 (str_offsets str_start pool)
  ++ strs
  ++ flat_map rec_bytes (recs version sorted soff doff)
  ++ sums
  ++ blobs.

(* ------------------------------------------------------------------ *)
(** * Reader *)

(** Bytes up to (excluding) the first 0; [None] when the data (or the fuel)
    runs out first -- Python: "Fell off end of file!". *)
Fixpoint scan0 (fuel : nat) (l : list N) : option (list N) :=
  match fuel with
  | O => None
  | S f =>
      match l with
      | [] => None
      | b :: t =>
          if b =? 0 then Some []
          else match scan0 f t with
               | None => None
               | Some s => Some (b :: s)
               end
      end
  end.

(** [read_nullstr(file, pos)]: offset 0 means the empty string. *)
Definition read_str (file : list N) (off : N) : option (list N) :=
  if off =? 0 then Some [] else scan0 (length file) (seek file off).

Fixpoint read_recs (n : nat) (l : list N) : option (list rawrec) :=
  match n with
  | O => Some []
  | S k =>
      match rd32 l with
      | None => None
      | Some (crc, l1) =>
          match rd32 l1 with
          | None => None
          | Some (doff, l2) =>
              match rd32 l2 with
              | None => None
              | Some (dsize, l3) =>
                  match rd32 l3 with
                  | None => None
                  | Some (soff, l4) =>
                      match read_recs k l4 with
                      | None => None
                      | Some rs => Some ((crc, doff, dsize, soff) :: rs)
                      end
                  end
              end
          end
      end
  end.

(** Summary at the cursor: (duration, last_speak, sound indexes). *)
Definition read_summary (version : N) (l : list N) : option (N * N * list N) :=
  match rd32 l with
  | None => None
  | Some (dur, l1) =>
      match (if version =? 3 then rd32 l1 else Some (dur, l1)) with
      | None => None
      | Some (last, l2) =>
          match rd32 l2 with
          | None => None
          | Some (cnt, l3) =>
              if cnt <=? lenN l3 then
                match read_ints (N.to_nat cnt) l3 with
                | None => None
                | Some idx => Some (dur, last, idx)
                end
              else None
          end
      end
  end.

(** [string_pool[i]]; out of range = failure (IndexError).  The index is
    read with the signed format '<i', so a raw value [i >= 2^31] denotes the
    negative number [i - 2^32], which Python resolves from the END of the
    list when [-len <= i - 2^32]. *)
Definition lookup (pool : list (list N)) (i : N) : option (list N) :=
  if i <? lenN pool then Some (nth (N.to_nat i) pool [])
  else if (4294967296 - lenN pool <=? i) && (i <? 4294967296)
            && (lenN pool <? 2147483648) then
         Some (nth (N.to_nat (i - (4294967296 - lenN pool))) pool [])
       else None.

Definition read_entry (file : list N) (version : N) (pool : list (list N))
    (r : rawrec) : option pentry :=
  let '(crc, doff, dsize, soff) := r in
  match read_summary version (seek file soff) with
  | None => None
  | Some (dur, last, idx) =>
      match mapM (lookup pool) idx with
      | None => None
      | Some snds =>
          (* data_off is signed: [file.seek] of a negative value raises *)
          if 2147483648 <=? doff then None else
          Some (mkPentry crc dur last snds (take dsize (seek file doff)))
      end
  end.

(** The 20-byte header: (version, scene_count, string_count, scene_off, rest). *)
Definition parse_header (file : list N) : option (N * N * N * N * list N) :=
  match file with
  | m0 :: m1 :: m2 :: m3 :: r0 =>
      if (m0 =? 86) && (m1 =? 83) && (m2 =? 73) && (m3 =? 70) then
        match rd32 r0 with
        | None => None
        | Some (version, r1) =>
            match rd32 r1 with
            | None => None
            | Some (nscene, r2) =>
                match rd32 r2 with
                | None => None
                | Some (nstr, r3) =>
                    match rd32 r3 with
                    | None => None
                    | Some (scene_off, r4) =>
                        Some (version, nscene, nstr, scene_off, r4)
                    end
                end
            end
        end
      else None
  | _ => None
  end.

(** Everything after the header.  The two count guards are semantically
    neutral (reading [n] ints needs [4*n] bytes, so a count above the file
    length fails anyway); they only keep [N.to_nat] small. *)
Definition parse_body (file : list N) (version nscene nstr scene_off : N)
    (rest : list N) : option (N * list (list N) * list pentry) :=
  if negb ((version =? 2) || (version =? 3)) then None else
  if negb (nstr <=? lenN file) then None else
  match read_ints (N.to_nat nstr) rest with
  | None => None
  | Some offs =>
      match mapM (read_str file) offs with
      | None => None
      | Some pool =>
          (* scene_off is signed: seeking to a negative offset raises *)
          if 2147483648 <=? scene_off then None else
          (* scene_count is signed: range(negative) is empty *)
          if 2147483648 <=? nscene then Some (version, pool, []) else
          if negb (nscene <=? lenN file) then None else
          match read_recs (N.to_nat nscene) (seek file scene_off) with
          | None => None
          | Some rs =>
              match mapM (read_entry file version pool) rs with
              | None => None
              | Some ps => Some (version, pool, ps)
              end
          end
      end
  end.

Definition img_parse (file : list N) : option (N * list (list N) * list pentry) :=
  match parse_header file with
  | None => None
  | Some (version, nscene, nstr, scene_off, rest) =>
      parse_body file version nscene nstr scene_off rest
  end.

(* ------------------------------------------------------------------ *)
(** * Specification-side definitions *)

(** What the reader is expected to return for a written entry. *)
Definition to_pentry (version : N) (pool : list (list N)) (e : entry) : pentry :=
  mkPentry (e_crc e) (e_dur e)
           (if version =? 3 then e_last e else e_dur e)
           (map (fun i => nth (N.to_nat i) pool []) (e_sounds e))
           (e_blob e).

(** Representability. *)
Definition str_ok (s : list N) : Prop := Forall (fun b => 0 < b /\ b < 256) s.

Definition entry_ok (npool : N) (e : entry) : Prop :=
  e_crc e < 4294967296 /\ e_dur e < 4294967296 /\ e_last e < 4294967296 /\
  Forall (fun i => i < npool) (e_sounds e).

Definition image_ok (version : N) (pool : list (list N)) (es : list entry) : Prop :=
  (version = 2 \/ version = 3) /\
  Forall str_ok pool /\
  Forall (entry_ok (lenN pool)) es /\
  lenN (img_write version pool es) < 2147483648.

Definition str_okb (s : list N) : bool :=
  forallb (fun b => (0 <? b) && (b <? 256)) s.

Definition entry_okb (npool : N) (e : entry) : bool :=
  (e_crc e <? 4294967296) && (e_dur e <? 4294967296) && (e_last e <? 4294967296)
  && forallb (fun i => i <? npool) (e_sounds e).

Definition image_okb (version : N) (pool : list (list N)) (es : list entry) : bool :=
  ((version =? 2) || (version =? 3))
  && forallb str_okb pool
  && forallb (entry_okb (lenN pool)) es
  && (lenN (img_write version pool es) <? 2147483648).

(* ------------------------------------------------------------------ *)
(** * A writer variant that follows DeferredWrites literally

    In the Python writer the table slots (data_off, data_size) and
    (summary_off) are filled through [DeferredWrites] keyed by
    [('data', crc)] / [('summary', crc)].  When two entries share a crc the
    keys collide: [loc[key]] keeps only the LAST slot position, so only the
    last entry of a run of equal crcs gets its slots filled; the earlier
    ones keep the 12 placeholder zero bytes.  [recs_py] models this; it
    coincides with [recs] when no two adjacent (sorted) entries share a crc.
    (Entries given as a dict are keyed by crc, so collisions need the
    iterable form of the argument.) *)

Definition next_same_crc (e : entry) (t : list entry) : bool :=
  match t with
  | [] => false
  | e' :: _ => e_crc e' =? e_crc e
  end.

Fixpoint recs_py (version : N) (es : list entry) (soff doff : N) : list rawrec :=
  match es with
  | [] => []
  | e :: t =>
      (if next_same_crc e t then (e_crc e, 0, 0, 0)
       else (e_crc e, doff, lenN (e_blob e), soff))
      :: recs_py version t (soff + lenN (summary version e)) (doff + lenN (e_blob e))
  end.

Definition img_write_py (version : N) (pool : list (list N)) (es : list entry) : list N :=
  let sorted := sort_by_crc es in
  let npool := lenN pool in
  let nent := lenN sorted in
  let strs := flat_map str_bytes pool in
  let str_start := 20 + 4 * npool in
  let scene_off := str_start + lenN strs in
  let sums := flat_map (summary version) sorted in
  let blobs := flat_map e_blob sorted in
  let soff := scene_off + 16 * nent in
  let doff := soff + lenN sums in
  sec_header version nent npool scene_off
  ++ flat_map le32 (str_offsets str_start pool)
  ++ strs
  ++ flat_map rec_bytes (recs_py version sorted soff doff)
  ++ sums
  ++ blobs.

Fixpoint no_adj_dup (l : list entry) : bool :=
  match l with
  | [] => true
  | e :: t => negb (next_same_crc e t) && no_adj_dup t
  end.

(** No two entries share a crc (checked on the sorted list). *)
Definition crcs_distinctb (es : list entry) : bool := no_adj_dup (sort_by_crc es).
