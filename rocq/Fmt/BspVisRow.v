(** Visibility lump (bsp.py [_lmp_read_visibility] / [_lmp_write_visibility] / [runlength_decode]):
    the integer expression that turns the cluster count into the number of bytes of one PVS/PAS row is
    translated from the source (Gen/BspGlue_gen.v) into the small language below; [rowsize_ok] is a decision
    procedure ("one more byte every eight clusters" + agreement on 0..7) that is sound for ALL cluster counts
    (BspVisRowProofs.v).  Also: the rows of the lump as they lie in the file (back to back, found through the
    offset table).  Executable definitions only. *)
From Coq Require Import ZArith List Bool.
From SV Require Import Bin.RLE.
Import ListNotations.
Open Scope Z_scope.

Inductive rexp :=
| RVar                              (* the cluster count *)
| RConst (c : Z)
| RAdd (a b : rexp)
| RSub (a b : rexp)
| RNeg (a : rexp)
| RMulC (a : rexp) (c : Z)          (* a * c, c a literal *)
| RFloorDiv (a : rexp) (c : Z)      (* a // c *)
| RShr (a : rexp) (k : Z)           (* a >> k *)
| RCeilDiv (a : rexp) (c : Z).      (* math.ceil(a / c): exact quotient rounded up *)

Fixpoint reval (e : rexp) (n : Z) : Z :=
  match e with
  | RVar => n
  | RConst c => c
  | RAdd a b => reval a n + reval b n
  | RSub a b => reval a n - reval b n
  | RNeg a => - reval a n
  | RMulC a c => reval a n * c
  | RFloorDiv a c => reval a n / c          (* Z.div floors for every sign, as Python's // *)
  | RShr a k => Z.shiftr (reval a n) k
  | RCeilDiv a c => - ((- reval a n) / c)
  end.

(** [slope e = Some s]: adding 8 to the cluster count adds exactly [s] to the value, everywhere. *)
Definition div_slope (s : option Z) (c : Z) : option Z :=
  match s with
  | Some s => if (0 <? c) && (s mod c =? 0) then Some (s / c) else None
  | None => None
  end.
Fixpoint slope (e : rexp) : option Z :=
  match e with
  | RVar => Some 8
  | RConst _ => Some 0
  | RAdd a b => match slope a, slope b with Some x, Some y => Some (x + y) | _, _ => None end
  | RSub a b => match slope a, slope b with Some x, Some y => Some (x - y) | _, _ => None end
  | RNeg a => option_map Z.opp (slope a)
  | RMulC a c => option_map (fun s => s * c) (slope a)
  | RFloorDiv a c => div_slope (slope a) c
  | RShr a k => if 0 <=? k then div_slope (slope a) (2 ^ k) else None
  | RCeilDiv a c => div_slope (slope a) c
  end.

Definition ceil8Z (n : Z) : Z := (n + 7) / 8.

Definition rowsize_ok (e : rexp) : bool :=
  match slope e with
  | Some s => (s =? 1) && forallb (fun n => reval e n =? ceil8Z n) [0; 1; 2; 3; 4; 5; 6; 7]
  | None => false
  end.

(** For the report of a failing obligation: the cluster counts below 64 where the expression is wrong. *)
Definition rowsize_witnesses (e : rexp) : list Z :=
  filter (fun n => negb (reval e n =? ceil8Z n)) (map Z.of_nat (seq 0 64)).

(** * Rows in the file *)
(** Offset of every row when the rows are written back to back starting at [base]. *)
Fixpoint vis_offsets (base : nat) (rows : list (list N)) : list nat :=
  match rows with
  | [] => []
  | r :: rs => base :: vis_offsets (base + List.length (rle_encode r)) rs
  end.
