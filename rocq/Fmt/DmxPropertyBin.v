(** C14 — the whole property for the binary form, composed from the parts: the real dicts of the elements (any history of
    the mapping API) -> bytes -> parsed document -> typed values and the dicts the reader builds. *)
From Coq Require Import NArith ZArith QArith List Bool.
From SV Require Import Bin.Struct Fmt.DmxCodes Fmt.DmxBin Fmt.DmxBinProofs Fmt.DmxScalar Fmt.DmxScalarProofs Fmt.DmxTyped Fmt.DmxTypedProofs
  Fmt.DmxMembers Fmt.DmxMembersProofs Fmt.DmxMembersParse Fmt.DmxMembersParseProofs.
Import ListNotations.

Theorem c14_property_binary_gen :
  forall (cenc : enc -> str -> bytes) (cdec : enc -> bytes -> option str) (cfg : dmxcfg) (scfg : scalarcfg) (cc : cntcfg)
         (fold : str -> str) (anorm : N -> N),
    bin_cfg_ok cfg = true -> scalar_cfg_ok scfg = true -> sizes_match_formats scfg cfg = true -> cnt_cfg_ok cc = true ->
    (forall b, (b < ANGLE_360)%N -> anorm b = b) ->
    forall (v : N) (rd : rdoc) (td : tdoc),
      Forall (fun r => keys_nodup (r_members r)) rd -> Forall (fun r => keyed_by_fold fold (r_members r)) rd ->
      tdoc_rep fdiv64 scfg td -> lower_doc fmul64 scfg td = Some (map (abstract cc) rd) ->
      expressible cenc cdec cfg v (map (abstract cc) rd) ->
      exists d, parse_bin cdec cfg v (export_raw cenc cfg cc v rd) = Some d /\
                lift_doc fdiv64 anorm scfg d = Some td /\
                map (parsed_members fold KFolded) d = map (fun r => canonical cc (r_members r)) rd.
Proof.
  intros cenc cdec cfg scfg cc fold anorm Hb Hs Hz Hc Ha v rd td Hk Hf Hrep Hlow Hex.
  destruct (members_bin_reader_roundtrip cenc cdec cfg cc fold Hc Hb v rd Hk Hf Hex) as [d [Hp Hm]].
  exists d. split; [assumption|]. split; [|assumption].
  rewrite (members_bin_roundtrip cenc cdec cfg cc Hc v rd Hb Hk Hex) in Hp. injection Hp as <-.
  destruct (typed_lift_lower fmul64 fdiv64 anorm scfg cfg Hs Hz (std_model_rn64 _) Ha td Hrep) as [d' [Hl [Hlift _]]].
  rewrite Hlow in Hl. injection Hl as <-. assumption.
Qed.

(** satisfiable: the two-element graph of [members_premises_satisfiable] (the root cleared and refilled, the child's name
    popped and set again), as typed values *)
Definition hist_tdoc : tdoc :=
  [ {| te_type := [84]%N; te_name := []; te_uuid := ex_uuid 1%N;
       te_attrs := [ {| ta_name := [65]%N; ta_data := TvFix TInt (Scalar (SvInt 5)) |};
                     {| ta_name := [107]%N; ta_data := TvElem (Scalar (RElem 1)) |} ] |};
    {| te_type := [67]%N; te_name := [108; 97; 116; 101]%N; te_uuid := ex_uuid 2%N;
       te_attrs := [ {| ta_name := [113]%N; ta_data := TvStr (Scalar [115]%N) |} ] |} ].
Example c14_property_binary_example :
  bin_cfg_ok good_cfg = true /\ scalar_cfg_ok pinned_scalar = true /\ sizes_match_formats pinned_scalar good_cfg = true /\
  cnt_cfg_ok good_cnt = true /\
  Forall (fun r => keys_nodup (r_members r)) hist_rdoc /\ Forall (fun r => keyed_by_fold (fun s => s) (r_members r)) hist_rdoc /\
  tdoc_rep fdiv64 pinned_scalar hist_tdoc /\ lower_doc fmul64 pinned_scalar hist_tdoc = Some (map (abstract good_cnt) hist_rdoc) /\
  expressible idenc iddec good_cfg 5 (map (abstract good_cnt) hist_rdoc).
Proof.
  split; [exact good_cfg_ok|]. split; [vm_compute; reflexivity|]. split; [vm_compute; reflexivity|]. split; [exact good_cnt_ok|].
  split. { unfold hist_rdoc. apply Forall_cons; [|apply Forall_cons; [|apply Forall_nil]]; cbn [r_members]; apply history_keys_nodup. }
  split. { unfold hist_rdoc. apply Forall_cons; [|apply Forall_cons; [|apply Forall_nil]]; cbn [r_members]; apply history_keyed; reflexivity. }
  split. { unfold tdoc_rep, hist_tdoc. repeat (constructor; cbn [te_attrs ta_data tval_rep items]); try exact I; try reflexivity. }
  split; [vm_compute; reflexivity|].
  change (map (abstract good_cnt) hist_rdoc) with ltac:(let x := eval vm_compute in (map (abstract good_cnt) hist_rdoc) in exact x).
  solve_expressible.
Qed.
