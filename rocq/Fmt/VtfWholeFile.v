(** C15 — the whole VTF container as one statement: definitions used by VtfWholeFileProofs.v.
    [encode_file] / [decode_file] (Fmt/VtfContainer.v) are the container as VTF.save writes it and VTF.read reads it, with
    the image data as opaque blocks.  Here: the directory entries as abstract triples, what the reader makes of an entry,
    the offsets the writer patches into the file, and the closed boolean side conditions ("every value fits its field").
    Executable definitions only. *)
From Coq Require Import NArith ZArith List Bool String Arith.
From SV Require Import Bin.LE Bin.Struct Fmt.VtfContainer.
Import ListNotations.
Local Open Scope nat_scope.

Notation dentry := (list N * Z * Z)%type.
Definition pack_e (F : cfmts) (e : dentry) : option (list N) := let '(id, fl, x) := e in pack (f_entry F) [VBytes id; VInt fl; VInt x].
Definition entry_fits (F : cfmts) (e : dentry) : bool := let '(id, fl, x) := e in fits (f_entry F) [VBytes id; VInt fl; VInt x].

Definition data_of (rs : list (list N * Z * resval)) : list (list N) :=
  flat_map (fun r => match snd r with RData d => [d] | RInline _ => [] end) rs.
(** the directory entries of the caller's resources as (id, stored flags, stored value) *)
Fixpoint abs_entries (G : flagcfg) (rs : list (list N * Z * resval)) (offs : list nat) : list dentry :=
  match rs with
  | [] => []
  | (id, fl, RInline x) :: r => (id, fl_eval (fl_inline G) fl, x) :: abs_entries G r offs
  | (id, fl, RData _) :: r => (id, fl_eval (fl_offset G) fl, Z.of_nat (hd 0 offs)) :: abs_entries G r (tl offs)
  end.

Definition norm (r : list N * Z * resval) : list N * Z * resval :=
  let '(id, fl, x) := r in match x with RInline _ => (id, set2 fl, x) | RData _ => (id, clear2 fl, x) end.
Definition dec_e (F : cfmts) (G : flagcfg) (bs : list N) (e : dentry) : option (list N * Z * resval) :=
  let '(id, fl, x) := e in
  if ft_eval (fl_test G) fl
  then match read_block F bs (Z.to_nat x) with Some dta => Some (id, fl, RData dta) | None => None end
  else Some (id, fl, RInline x).

Definition MAGIC : list N := [86; 84; 70; 0]%N.
Definition user_id (id : list N) : bool := negb (bytes_eqb id ID_LOW || bytes_eqb id ID_HIGH || bytes_eqb id ID_SHEET).
Definition n_res (v : vfile) : nat := List.length (v_res v) + 2 + (if v_sheet v then 1 else 0).
Definition hs73 (F : cfmts) (v : vfile) : nat :=
  4 + calcsize (f_version F) + calcsize (f_header F) + calcsize (f_depth F) + calcsize (f_count F) + n_res v * calcsize (f_entry F).
Definition block_offs (F : cfmts) (v : vfile) : list nat := offsets (hs73 F v) (map (fun d => 4 + List.length d) (res_blocks v)).
Definition low_off73 (F : cfmts) (v : vfile) : nat := hs73 F v + list_sum (map (fun d => 4 + List.length d) (res_blocks v)).
Definition high_off73 (F : cfmts) (v : vfile) : nat := low_off73 F v + List.length (v_low v).
Definition sheet_entry (F : cfmts) (v : vfile) : list dentry :=
  match v_sheet v with
  | Some _ => [(ID_SHEET, 0%Z, Z.of_nat (hd 0 (skipn (List.length (data_of (v_res v))) (block_offs F v))))]
  | None => []
  end.
(** every entry of the resource directory as (id, stored flags, stored value or offset) *)
Definition all_entries (F : cfmts) (G : flagcfg) (v : vfile) : list dentry :=
  abs_entries G (v_res v) (block_offs F v)
  ++ [(ID_LOW, 0%Z, Z.of_nat (low_off73 F v)); (ID_HIGH, 0%Z, Z.of_nat (high_off73 F v))] ++ sheet_entry F v.
(** everything fits its field: ids are 3 bytes and not one of the reserved ones, flags are a byte, values / offsets /
    lengths are 32-bit, the header values fit the header record *)
Definition vfile_fits (F : cfmts) (G : flagcfg) (v : vfile) : bool :=
  fits (f_version F) [VInt 7; VInt (v_minor v)] && fits (f_header F) (set_header_size (v_header v) (hs73 F v))
  && fits (f_depth F) [VInt (v_depth v)] && fits (f_count F) [VInt (Z.of_nat (n_res v))]
  && forallb (entry_fits F) (all_entries F G v)
  && forallb (fun d => fits (f_len F) [VInt (Z.of_nat (List.length d))]) (res_blocks v)
  && forallb (fun r => user_id (fst (fst r)) && (0 <=? snd (fst r))%Z && (snd (fst r) <? 256)%Z) (v_res v).
Definition fmts_wf (F : cfmts) : bool :=
  wf_fmt (f_version F) && wf_fmt (f_header F) && wf_fmt (f_depth F) && wf_fmt (f_count F) && wf_fmt (f_entry F) && wf_fmt (f_len F)
  && Nat.eqb (calcsize (f_len F)) 4.

Definition hs_old (F : cfmts) (v : vfile) : nat :=
  4 + calcsize (f_version F) + calcsize (f_header F) + (if (2 <=? v_minor v)%Z then calcsize (f_depth F) else 0) + 15.
Definition vfile_fits_old (F : cfmts) (v : vfile) : bool :=
  fits (f_version F) [VInt 7; VInt (v_minor v)] && fits (f_header F) (set_header_size (v_header v) (hs_old F v))
  && fits (f_depth F) [VInt (v_depth v)] && negb (Nat.eqb (List.length (v_header v)) 0)
  && ((2 <=? v_minor v)%Z || Z.eqb (v_depth v) 1).

(** the formats of the container from the pack/unpack sites regenerated from the source (writer side; [site_ok] says
    the reader's format is the same) *)
Definition cfmts_of_sites (version header depth count entry : site) (len : string) : cfmts :=
  {| f_version := fmt_of (w_fmt version); f_header := fmt_of (w_fmt header); f_depth := fmt_of (w_fmt depth);
     f_count := fmt_of (w_fmt count); f_entry := fmt_of (w_fmt entry); f_len := fmt_of len |}.
(** the formats of the pinned tree, for the examples *)
Definition std_fmts : cfmts :=
  {| f_version := fmt_of "<II"; f_header := fmt_of "<IHHIHH4xfff4xfiBiBB"; f_depth := fmt_of "<H"; f_count := fmt_of "<3xI8x";
     f_entry := fmt_of "<3sBI"; f_len := fmt_of "<I" |}.
Definition cfmts_eqb (a b : cfmts) : bool :=
  fmt_eqb (f_version a) (f_version b) && fmt_eqb (f_header a) (f_header b) && fmt_eqb (f_depth a) (f_depth b)
  && fmt_eqb (f_count a) (f_count b) && fmt_eqb (f_entry a) (f_entry b) && fmt_eqb (f_len a) (f_len b).

(** an example file: 7.4, an inline resource with flags 0x40, a data resource with flags 0x42 (bit 2 set by mistake: the
    writer must clear it), a particle sheet of 3 bytes, a 2-byte thumbnail, two frames *)
Definition ex_header : list value :=
  [VInt 0; VInt 4; VInt 2; VInt 16384; VInt 1; VInt 0; VFloat 0; VFloat 1065353216; VFloat 0; VFloat 1065353216;
   VInt 0; VInt 2; VInt 13; VInt 16; VInt 16].
Definition ex_file (minor : Z) : vfile :=
  {| v_minor := minor; v_header := ex_header; v_depth := 1;
     v_res := if (3 <=? minor)%Z then [([67; 82; 67]%N, 64%Z, RInline 305419896); ([75; 86; 68]%N, 66%Z, RData [1; 2; 3; 4; 5]%N)] else [];
     v_sheet := if (3 <=? minor)%Z then Some [9; 8; 7]%N else None; v_low := [200; 201]%N; v_high := [[10; 11; 12; 13]%N; [20; 21]%N] |}.

(** the example file through given formats and flag expressions, as one boolean (an instance obligation of the check
    evaluates it in the kernel on the GENERATED formats and flag expressions) *)
Definition resval_eqb (a b : resval) : bool :=
  match a, b with RInline x, RInline y => Z.eqb x y | RData x, RData y => bytes_eqb x y | _, _ => false end.
Definition res_eqb (a b : list N * Z * resval) : bool :=
  bytes_eqb (fst (fst a)) (fst (fst b)) && Z.eqb (snd (fst a)) (snd (fst b)) && resval_eqb (snd a) (snd b).
Fixpoint list_eqb {A : Type} (e : A -> A -> bool) (a b : list A) : bool :=
  match a, b with [], [] => true | x :: a', y :: b' => e x y && list_eqb e a' b' | _, _ => false end.
Definition ex_roundtrip_ok (F : cfmts) (G : flagcfg) (minor : Z) : bool :=
  let v := ex_file minor in
  match encode_file F G v with
  | Some file =>
      match decode_file F G (List.length (v_low v)) file with
      | Some (m, hdr, d, res, sheet, lo, hi) =>
          Z.eqb m minor && Z.eqb d 1 && list_eqb res_eqb res (map norm (v_res v))
          && match sheet, v_sheet v with Some a, Some b => bytes_eqb a b | None, None => true | _, _ => false end
          && Nat.eqb (lo + List.length (v_low v)) hi && Nat.eqb (hi + List.length (List.concat (v_high v))) (List.length file)
          && bytes_eqb (slice file lo (List.length (v_low v))) (v_low v)
          && bytes_eqb (slice file hi (List.length (List.concat (v_high v)))) (List.concat (v_high v))
      | None => false
      end
  | None => false
  end.
