(** C15 — the whole VTF container as one statement: definitions used by VtfWholeFileProofs.v.
    [encode_file] / [decode_file] (Fmt/VtfContainer.v) are the container as VTF.save writes it and VTF.read reads it, with
    the image data as opaque blocks.  Here: the directory entries as abstract triples, what the reader makes of an entry,
    the offsets the writer patches into the file, and the closed boolean side conditions ("every value fits its field").
    Executable definitions only. *)
From Coq Require Import NArith ZArith List Bool String Arith.
From SV Require Import Bin.LE Bin.Struct Fmt.VtfContainer.
Import ListNotations.
Local Open Scope nat_scope.

Notation dentry := (list N * Z * Z)%type.
Definition pack_e (F : cfmts) (e : dentry) : option (list N) := let '(id, fl, x) := e in pack (f_entry F) [VBytes id; VInt fl; VInt x].
Definition entry_fits (F : cfmts) (e : dentry) : bool := let '(id, fl, x) := e in fits (f_entry F) [VBytes id; VInt fl; VInt x].

Definition data_of (rs : list (list N * Z * resval)) : list (list N) :=
  flat_map (fun r => match snd r with RData d => [d] | RInline _ => [] end) rs.
(** the directory entries of the caller's resources as (id, stored flags, stored value) *)
Fixpoint abs_entries (G : flagcfg) (rs : list (list N * Z * resval)) (offs : list nat) : list dentry :=
  match rs with
  | [] => []
  | (id, fl, RInline x) :: r => (id, fl_eval (fl_inline G) fl, x) :: abs_entries G r offs
  | (id, fl, RData _) :: r => (id, fl_eval (fl_offset G) fl, Z.of_nat (hd 0 offs)) :: abs_entries G r (tl offs)
  end.

Definition norm (r : list N * Z * resval) : list N * Z * resval :=
  let '(id, fl, x) := r in match x with RInline _ => (id, set2 fl, x) | RData _ => (id, clear2 fl, x) end.
Definition dec_e (F : cfmts) (G : flagcfg) (bs : list N) (e : dentry) : option (list N * Z * resval) :=
  let '(id, fl, x) := e in
  if ft_eval (fl_test G) fl
  then match read_block F bs (Z.to_nat x) with Some dta => Some (id, fl, RData dta) | None => None end
  else Some (id, fl, RInline x).

Definition MAGIC : list N := [86; 84; 70; 0]%N.
Definition user_id (id : list N) : bool := negb (bytes_eqb id ID_LOW || bytes_eqb id ID_HIGH || bytes_eqb id ID_SHEET).
Definition n_res (v : vfile) : nat := List.length (v_res v) + 2 + (if v_sheet v then 1 else 0).
Definition hs73 (F : cfmts) (v : vfile) : nat :=
  4 + calcsize (f_version F) + calcsize (f_header F) + calcsize (f_depth F) + calcsize (f_count F) + n_res v * calcsize (f_entry F).
Definition block_offs (F : cfmts) (v : vfile) : list nat := offsets (hs73 F v) (map (fun d => 4 + List.length d) (res_blocks v)).
Definition low_off73 (F : cfmts) (v : vfile) : nat := hs73 F v + list_sum (map (fun d => 4 + List.length d) (res_blocks v)).
Definition high_off73 (F : cfmts) (v : vfile) : nat := low_off73 F v + List.length (v_low v).
Definition sheet_entry (F : cfmts) (v : vfile) : list dentry :=
  match v_sheet v with
  | Some _ => [(ID_SHEET, 0%Z, Z.of_nat (hd 0 (skipn (List.length (data_of (v_res v))) (block_offs F v))))]
  | None => []
  end.
(** every entry of the resource directory as (id, stored flags, stored value or offset) *)
Definition all_entries (F : cfmts) (G : flagcfg) (v : vfile) : list dentry :=
  abs_entries G (v_res v) (block_offs F v)
  ++ [(ID_LOW, 0%Z, Z.of_nat (low_off73 F v)); (ID_HIGH, 0%Z, Z.of_nat (high_off73 F v))] ++ sheet_entry F v.
(** everything fits its field: ids are 3 bytes and not one of the reserved ones, flags are a byte, values / offsets /
    lengths are 32-bit, the header values fit the header record *)
Definition vfile_fits (F : cfmts) (G : flagcfg) (v : vfile) : bool :=
  fits (f_version F) [VInt 7; VInt (v_minor v)] && fits (f_header F) (set_header_size (v_header v) (hs73 F v))
  && fits (f_depth F) [VInt (v_depth v)] && fits (f_count F) [VInt (Z.of_nat (n_res v))]
  && forallb (entry_fits F) (all_entries F G v)
  && forallb (fun d => fits (f_len F) [VInt (Z.of_nat (List.length d))]) (res_blocks v)
  && forallb (fun r => user_id (fst (fst r)) && (0 <=? snd (fst r))%Z && (snd (fst r) <? 256)%Z) (v_res v).
Definition fmts_wf (F : cfmts) : bool :=
  wf_fmt (f_version F) && wf_fmt (f_header F) && wf_fmt (f_depth F) && wf_fmt (f_count F) && wf_fmt (f_entry F) && wf_fmt (f_len F)
  && Nat.eqb (calcsize (f_len F)) 4.

Definition hs_old (F : cfmts) (v : vfile) : nat :=
  4 + calcsize (f_version F) + calcsize (f_header F) + (if (2 <=? v_minor v)%Z then calcsize (f_depth F) else 0) + 15.
Definition vfile_fits_old (F : cfmts) (v : vfile) : bool :=
  fits (f_version F) [VInt 7; VInt (v_minor v)] && fits (f_header F) (set_header_size (v_header v) (hs_old F v))
  && fits (f_depth F) [VInt (v_depth v)] && negb (Nat.eqb (List.length (v_header v)) 0)
  && ((2 <=? v_minor v)%Z || Z.eqb (v_depth v) 1).

(** the formats of the container from the pack/unpack sites regenerated from the source (writer side; [site_ok] says
    the reader's format is the same) *)
Definition cfmts_of_sites (version header depth count entry : site) (len : string) : cfmts :=
  {| f_version := fmt_of (w_fmt version); f_header := fmt_of (w_fmt header); f_depth := fmt_of (w_fmt depth);
     f_count := fmt_of (w_fmt count); f_entry := fmt_of (w_fmt entry); f_len := fmt_of len |}.
(** the formats of the pinned tree, for the examples *)
Definition std_fmts : cfmts :=
  {| f_version := fmt_of "<II"; f_header := fmt_of "<IHHIHH4xfff4xfiBiBB"; f_depth := fmt_of "<H"; f_count := fmt_of "<3xI8x";
     f_entry := fmt_of "<3sBI"; f_len := fmt_of "<I" |}.
Definition cfmts_eqb (a b : cfmts) : bool :=
  fmt_eqb (f_version a) (f_version b) && fmt_eqb (f_header a) (f_header b) && fmt_eqb (f_depth a) (f_depth b)
  && fmt_eqb (f_count a) (f_count b) && fmt_eqb (f_entry a) (f_entry b) && fmt_eqb (f_len a) (f_len b).

(** an example file: 7.4, an inline resource with flags 0x40, a data resource with flags 0x42 (bit 2 set by mistake: the
    writer must clear it), a particle sheet of 3 bytes, a 2-byte thumbnail, two frames *)
Definition ex_header : list value :=
  [VInt 0; VInt 4; VInt 2; VInt 16384; VInt 1; VInt 0; VFloat 0; VFloat 1065353216; VFloat 0; VFloat 1065353216;
   VInt 0; VInt 2; VInt 13; VInt 16; VInt 16].
Definition ex_file (minor : Z) : vfile :=
  {| v_minor := minor; v_header := ex_header; v_depth := 1;
     v_res := if (3 <=? minor)%Z then [([67; 82; 67]%N, 64%Z, RInline 305419896); ([75; 86; 68]%N, 66%Z, RData [1; 2; 3; 4; 5]%N)] else [];
     v_sheet := if (3 <=? minor)%Z then Some [9; 8; 7]%N else None; v_low := [200; 201]%N; v_high := [[10; 11; 12; 13]%N; [20; 21]%N] |}.

(** the example file through given formats and flag expressions, as one boolean (an instance obligation of the check
    evaluates it in the kernel on the GENERATED formats and flag expressions) *)
Definition resval_eqb (a b : resval) : bool :=
  match a, b with RInline x, RInline y => Z.eqb x y | RData x, RData y => bytes_eqb x y | _, _ => false end.
Definition res_eqb (a b : list N * Z * resval) : bool :=
  bytes_eqb (fst (fst a)) (fst (fst b)) && Z.eqb (snd (fst a)) (snd (fst b)) && resval_eqb (snd a) (snd b).
Fixpoint list_eqb {A : Type} (e : A -> A -> bool) (a b : list A) : bool :=
  match a, b with [], [] => true | x :: a', y :: b' => e x y && list_eqb e a' b' | _, _ => false end.
Definition ex_roundtrip_ok (F : cfmts) (G : flagcfg) (minor : Z) : bool :=
  let v := ex_file minor in
  match encode_file F G v with
  | Some file =>
      match decode_file F G (List.length (v_low v)) file with
      | Some (m, hdr, d, res, sheet, lo, hi) =>
          Z.eqb m minor && Z.eqb d 1 && list_eqb res_eqb res (map norm (v_res v))
          && match sheet, v_sheet v with Some a, Some b => bytes_eqb a b | None, None => true | _, _ => false end
          && Nat.eqb (lo + List.length (v_low v)) hi && Nat.eqb (hi + List.length (List.concat (v_high v))) (List.length file)
          && bytes_eqb (slice file lo (List.length (v_low v))) (v_low v)
          && bytes_eqb (slice file hi (List.length (List.concat (v_high v)))) (List.concat (v_high v))
      | None => false
      end
  | None => false
  end.

(** * particle sheets: side conditions and what the reader returns *)
Definition tex_fits (S : sfmts) (t : texcoord) : bool := fits (s_tex S) (map VFloat t).
(** version 1 stores four coordinates per frame, version 0 only the first one *)
Definition frame_fits (S : sfmts) (ver : Z) (f : sheet_frame) : bool :=
  fits (s_dur S) [VFloat (sf_duration f)] && forallb (tex_fits S) (sf_coords f)
  && (if Z.eqb ver 0 then Nat.leb 1 (List.length (sf_coords f)) else Nat.eqb (List.length (sf_coords f)) 4).
Definition canon_frame (ver : Z) (f : sheet_frame) : sheet_frame :=
  if Z.eqb ver 0
  then {| sf_duration := sf_duration f; sf_coords := match sf_coords f with t :: _ => [t; t; t; t] | [] => [] end |}
  else {| sf_duration := sf_duration f; sf_coords := sf_coords f |}.
Definition canon_seq (ver : Z) (q : sheet_seq) : sheet_seq :=
  {| sq_num := sq_num q; sq_clamp := sq_clamp q; sq_total := sq_total q; sq_frames := map (canon_frame ver) (sq_frames q) |}.
Definition seq_fits (S : sfmts) (ver : Z) (q : sheet_seq) : bool :=
  fits (s_seq S) [VInt (sq_num q); VBool (sq_clamp q); VInt (Z.of_nat (List.length (sq_frames q))); VFloat (sq_total q)]
  && (0 <=? sq_num q)%Z && (sq_num q <? 64)%Z && forallb (frame_fits S ver) (sq_frames q).
Fixpoint nums_distinct (qs : list sheet_seq) : bool :=
  match qs with [] => true | q :: r => negb (existsb (fun q' => Z.eqb (sq_num q') (sq_num q)) r) && nums_distinct r end.
Definition sheet_fits (S : sfmts) (ver : Z) (qs : list sheet_seq) : bool :=
  (Z.eqb ver 0 || Z.eqb ver 1) && fits (s_head S) [VInt ver; VInt (Z.of_nat (List.length qs))]
  && Nat.leb (List.length qs) 64 && forallb (seq_fits S ver) qs && nums_distinct qs.
Definition sfmts_wf (S : sfmts) : bool := wf_fmt (s_head S) && wf_fmt (s_seq S) && wf_fmt (s_dur S) && wf_fmt (s_tex S).
Definition std_sfmts : sfmts := {| s_head := fmt_of "<II"; s_seq := fmt_of "<Ixxx?If"; s_dur := fmt_of "<f"; s_tex := fmt_of "<4f" |}.
Definition ex_tex (k : N) : texcoord := [k; k + 1; k + 2; 1065353216]%N.
Definition ex_sheet : list sheet_seq :=
  [{| sq_num := 3; sq_clamp := true; sq_total := 1073741824;
      sq_frames := [{| sf_duration := 1056964608; sf_coords := [ex_tex 10; ex_tex 20; ex_tex 30; ex_tex 40] |};
                    {| sf_duration := 1065353216; sf_coords := [ex_tex 50; ex_tex 60; ex_tex 70; ex_tex 80] |}] |};
   {| sq_num := 0; sq_clamp := false; sq_total := 0; sq_frames := [] |}].
Definition sfmts_of_sites (head seq dur tex : site) : sfmts :=
  {| s_head := fmt_of (w_fmt head); s_seq := fmt_of (w_fmt seq); s_dur := fmt_of (w_fmt dur); s_tex := fmt_of (w_fmt tex) |}.
Definition frame_eqb (a b : sheet_frame) : bool :=
  N.eqb (sf_duration a) (sf_duration b) && list_eqb bytes_eqb (sf_coords a) (sf_coords b).
Definition seq_eqb (a b : sheet_seq) : bool :=
  Z.eqb (sq_num a) (sq_num b) && Bool.eqb (sq_clamp a) (sq_clamp b) && N.eqb (sq_total a) (sq_total b)
  && list_eqb frame_eqb (sq_frames a) (sq_frames b).
(** the example sheet through given formats, as one boolean (instance obligation on the GENERATED formats) *)
Definition ex_sheet_ok (S : sfmts) (ver : Z) : bool :=
  sheet_fits S ver ex_sheet
  && match make_sheet S ver ex_sheet with
     | Some bs => match read_sheet S bs with
                  | Some (v, qs) => Z.eqb v ver && list_eqb seq_eqb qs (map (canon_seq ver) ex_sheet)
                  | None => false
                  end
     | None => false
     end.

(** * where save() records the offsets it patches into the file
    The file-writing events of VTF.save in execution order, regenerated from the source: constant bytes, a packed
    record (its field names), a deferred 4-byte slot, `deferred.set_data(key, file.tell())`, padding, any other
    `file.write` (with the number of loops around it).  [encode_file] puts every offset exactly where the data starts;
    the booleans below say the same about the order of the events. *)
Inductive sev := SvConst | SvPack (fields : list string) | SvDefer (key : string) | SvSet (key : string) | SvPad (n : Z) | SvWrite (depth : nat).
Fixpoint after_set (k : string) (evs : list sev) : option (list sev) :=
  match evs with
  | [] => None
  | SvSet k' :: r => if String.eqb k k' then Some r else after_set k r
  | _ :: r => after_set k r
  end.
Fixpoint before_set (k : string) (evs : list sev) : list sev :=
  match evs with
  | [] => []
  | SvSet k' :: r => if String.eqb k k' then [] else SvSet k' :: before_set k r
  | e :: r => e :: before_set k r
  end.
(** the offset of a data block is recorded right before its 4-byte length and its data are written *)
Definition set_then_block (k : string) (evs : list sev) : bool :=
  match after_set k evs with
  | Some (SvPack f :: SvWrite _ :: _) => strs_eqb f ["block_len"%string]
  | _ => false
  end.
Definition is_frame_write (e : sev) : bool := match e with SvWrite d => Nat.leb 1 d | _ => false end.
(** thumbnail offset, thumbnail, first-frame offset, then nothing but the frames (written inside the loop nest) *)
Definition low_high_ok (evs : list sev) : bool :=
  match after_set "low_res" evs with
  | Some (SvWrite O :: SvSet k :: r) => String.eqb k "high_res" && negb (Nat.eqb (List.length r) 0) && forallb is_frame_write r
  | _ => false
  end.
(** the header size is the position behind the directory / the padding: no offset is recorded earlier, the next thing
    that happens is recording the offset of the first piece of data, and no directory entry, slot or padding follows *)
Definition header_size_ok (evs : list sev) : bool :=
  match after_set "header_size" evs with
  | Some (SvSet k :: post) =>
      forallb (fun e => match e with SvSet _ => false | _ => true end) (before_set "header_size" evs)
      && forallb (fun e => match e with
                           | SvDefer _ | SvPad _ | SvConst => false
                           | SvPack f => negb (existsb (String.eqb "res_flags") f)
                           | _ => true
                           end) post
  | _ => false
  end.
Definition save_events_ok (evs : list sev) : bool :=
  header_size_ok evs && set_then_block "res" evs && set_then_block "particle" evs && low_high_ok evs.
Definition good_save_events : list sev :=
  [SvConst; SvPack ["version_major"; "version_minor"]; SvDefer "header_size"; SvPack ["header_size"; "width"]; SvPack ["depth"];
   SvPack ["num_resources"]; SvPack ["res_id"; "res_flags"]; SvDefer "res"; SvPack ["res_id"; "res_flags"; "res_data"];
   SvPack ["id_low_res"; "res_flags"]; SvDefer "low_res"; SvPack ["id_high_res"; "res_flags"]; SvDefer "high_res";
   SvPack ["id_particle"; "res_flags"]; SvDefer "particle"; SvPad 15; SvSet "header_size";
   SvSet "res"; SvPack ["block_len"]; SvWrite 1; SvSet "particle"; SvPack ["block_len"]; SvWrite 0;
   SvSet "low_res"; SvWrite 0; SvSet "high_res"; SvWrite 3]%string.
(** shapes of faults: the thumbnail offset recorded AFTER the thumbnail was written; a block offset recorded after its length *)
Definition res_key : string := "res"%string.
Definition late_low_events : list sev :=
  [SvDefer "header_size"; SvPad 15; SvSet "header_size"; SvSet "res"; SvPack ["block_len"]; SvWrite 1; SvSet "particle"; SvPack ["block_len"]; SvWrite 0;
   SvWrite 0; SvSet "low_res"; SvSet "high_res"; SvWrite 3]%string.
Definition late_block_events : list sev :=
  [SvDefer "header_size"; SvPad 15; SvSet "header_size"; SvPack ["block_len"]; SvSet "res"; SvWrite 1; SvSet "particle"; SvPack ["block_len"]; SvWrite 0;
   SvSet "low_res"; SvWrite 0; SvSet "high_res"; SvWrite 3]%string.
