(* TextFieldsProofs.v -- quoted fields are read back by the tokenizer model of KV/KvLex.v. *)
From Coq Require Import List NArith Bool Lia.
From SV Require Import KV.KvBase KV.KvLex KV.KvSym KV.KvLexProofs Fmt.TextFields.
Import ListNotations.
Open Scope N_scope.

Lemma raw_run E v : raw_safe v = true -> forall acc l cr rest,
  lex_run E (mkL (MStr acc false) l cr) (v ++ rest) = lex_run E (mkL (MStr (rev v ++ acc) false) l cr) rest.
Proof.
  induction v as [|c v IH]; intros H acc l cr rest; [reflexivity|].
  cbn [raw_safe forallb] in H. apply andb_prop in H as [Hc Hv].
  unfold raw_char_ok in Hc. apply negb_true_iff in Hc. rewrite !orb_false_iff in Hc. destruct Hc as [[[H1 H2] H3] H4].
  cbn [app]. erewrite lex_run_cons.
  2:{ unfold lstep; cbn [l_mode l_line l_cr]. rewrite H1, H3, H4, H2. reflexivity. }
  rewrite tcons_nil, (IH Hv). cbn [rev]. rewrite <- app_assoc. reflexivity.
Qed.

Lemma lexes_raw_quoted E l v : raw_safe v = true -> lexes E l (DQ :: v ++ [DQ]) [TStr v] l.
Proof.
  intros H rest. cbn [app]. erewrite lex_run_cons by reflexivity. rewrite tcons_nil.
  rewrite <- app_assoc, (raw_run E v H). cbn [app].
  erewrite lex_run_cons by reflexivity. now rewrite app_nil_r, rev_involutive.
Qed.

(** a field of an escaped-and-quoted site is read back whatever its value; of a raw quoted site when the value
    has no quote, backslash or line break *)
Definition field_reads (c : fclass) (v : str) : bool :=
  match c with FEscQuoted => true | FRawQuoted => raw_safe v | _ => false end.

Theorem field_lexes E : esc_ok E = true -> forall c v l, field_reads c v = true ->
  lexes E l (render_field E c v) [TStr v] l.
Proof.
  intros HE c v l H. destruct c; cbn [field_reads render_field] in *; try discriminate.
  - apply lexes_quoted. exact HE.
  - apply lexes_raw_quoted. exact H.
Qed.

Theorem escaped_sites_read_back E sites : esc_ok E = true -> free_text_escaped sites = true ->
  forall s v l, In s sites -> is_free_text (fs_type s) = true -> lexes E l (render_field E (fs_class s) v) [TStr v] l.
Proof.
  intros HE H s v l Hin Ht. unfold free_text_escaped in H. rewrite forallb_forall in H. specialize (H s Hin).
  rewrite Ht in H. destruct (fs_class s); try discriminate. apply field_lexes; [exact HE|reflexivity].
Qed.

Theorem quoted_sites_read_back E sites : esc_ok E = true -> free_text_quoted sites = true ->
  forall s v l, In s sites -> is_free_text (fs_type s) = true -> raw_safe v = true ->
  lexes E l (render_field E (fs_class s) v) [TStr v] l.
Proof.
  intros HE H s v l Hin Ht Hv. unfold free_text_quoted in H. rewrite forallb_forall in H. specialize (H s Hin).
  rewrite Ht in H. destruct (fs_class s); try discriminate; apply field_lexes; try exact HE; cbn; auto.
Qed.

(** tokenizer.ESCAPES / ESCAPE_RE of the pinned tree (the table itself is tied to tokenizer.py by C01's translator) *)
Definition ex_escfg : escfg := {|
  e_table := [(110, 10); (116, 9); (118, 11); (98, 8); (114, 13); (102, 12); (97, 7); (34, 34); (39, 39);
              (47, 47); (92, 92); (63, 63)];
  e_excl := [63; 47] |}.

(** refuted: a raw quoted field holding a quote is not read back (the class of the repaired cctoken defect) *)
Example raw_quoted_quote_refuted :
  lex_all ex_escfg (render_field ex_escfg FRawQuoted [97; 34; 98])
  <> ([TStr [97; 34; 98]], None).
Proof. vm_compute. discriminate. Qed.

(** refuted: an unquoted pair "95, 110" (the repaired soundscript low-high defect) is not one string *)
Example bare_pair_refuted :
  fst (lex_all ex_escfg (render_field ex_escfg FRawBare [57; 53; 44; 32; 49; 49; 48] ++ [LF]))
  <> [TStr [57; 53; 44; 32; 49; 49; 48]; TNL].
Proof. vm_compute. discriminate. Qed.

Example ref_esc_ok : esc_ok ex_escfg = true.
Proof. vm_compute. reflexivity. Qed.

(** refuted: the stop stack written from the update stack (seeded-fault class) is not paired *)
Example stacks_crossed_refuted :
  stacks_paired [([1], [10], [10]); ([2], [11], [11]); ([3], [11], [11])] [([1], [10]); ([2], [11]); ([3], [12])] = false
  /\ stacks_paired [([1], [10], [10]); ([2], [11], [11]); ([3], [12], [12])] [([1], [10]); ([2], [11]); ([3], [12])] = true.
Proof. split; vm_compute; reflexivity. Qed.
