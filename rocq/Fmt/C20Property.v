(** C20, round 5: the hypotheses of the composed statement as ONE boolean over the objects the translators regenerate from today's
    source.  [gen_objects] collects them (one field per Gen definition); [premises] is the conjunction of the named booleans the
    check discharges one by one (so a failure still points at one site), and the check discharges [premises] itself for the record
    built from the Gen files.  Proof of what follows from it: Fmt/C20PropertyProofs.v. *)
From Coq Require Import List NArith ZArith Bool.
Import ListNotations.
From SV Require Fmt.CmdSeq Fmt.ScenesImageCfg Fmt.SndStacks Fmt.BspDedup Fmt.C20KeyTables Fmt.ChoreoQuant Fmt.VmtQuote Fmt.TextLines
  Fmt.SmdTpl Fmt.SmdWords Fmt.VmtBlocks.

Record gen_objects : Type := mkGen {
  g_cmdseq : Fmt.CmdSeq.cfg;                          (* Gen/CmdSeqFmt_gen.v  gen_cfg *)
  g_image : Fmt.ScenesImageCfg.icfg;                  (* Gen/ScenesImg_gen.v  si_gen_cfg *)
  g_snd_guard : list Fmt.SndStacks.gterm;             (* Gen/TextFields_gen.v snd_v2_guard *)
  g_snd_blocks : list Fmt.SndStacks.wblock;           (*                      snd_stack_blocks *)
  g_tables : list Fmt.BspDedup.dedup_table;           (* Gen/KeyTables_gen.v  kt_tables *)
  g_quant : list Fmt.ChoreoQuant.qsite;               (* Gen/QuantSites_gen.v map snd cq_sites *)
  g_vmt_nq : Fmt.VmtQuote.nqcfg;                      (* Gen/TextFields_gen.v vmt_nq *)
  g_snd_lines : list (list Fmt.TextLines.titem);      (*                      snd_lines *)
  g_cho_lines : list (list Fmt.TextLines.titem);      (*                      cho_lines *)
  g_smd_lines : list Fmt.SmdTpl.line;                 (* Gen/SmdTpl_gen.v     smd_lines *)
  g_vmt_blocks : Fmt.VmtBlocks.bcfg                   (* Gen/VmtBlocks_gen.v  vmt_bcfg *)
}.

(** an SMD line is either delimited (every conversion between whitespace) or the bone line  %i "%s" %i *)
Definition smd_line_okb (l : Fmt.SmdTpl.line) : bool := Fmt.SmdWords.delim true l || Fmt.SmdWords.nodes_line_shape l.

Definition premises (g : gen_objects) : bool :=
  Fmt.CmdSeq.cfg_okb (g_cmdseq g)
  && Fmt.ScenesImageCfg.icfg_okb (g_image g)
  && Fmt.SndStacks.guard_okb (g_snd_guard g) && Fmt.SndStacks.blocks_okb (g_snd_blocks g)
  && Fmt.C20KeyTables.tables_ok (g_tables g)
  && forallb Fmt.ChoreoQuant.all_stable (g_quant g)
  && Fmt.VmtQuote.nq_okb (g_vmt_nq g)
  && forallb Fmt.TextLines.items_ok (g_snd_lines g) && forallb Fmt.TextLines.items_ok (g_cho_lines g)
  && forallb smd_line_okb (g_smd_lines g)
  && Fmt.VmtBlocks.bcfg_okb (g_vmt_blocks g) && Fmt.VmtBlocks.bcfg_shape_okb (g_vmt_blocks g).
