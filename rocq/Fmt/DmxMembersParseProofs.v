(** Proofs for Fmt/DmxMembersParse.v: the dict a reader builds is keyed by the casefolded attribute names, every
    attribute is found under its name, it denotes the document element it was built from, and — composed with the
    export theorems of DmxMembersProofs.v — it is the canonical form of the dict that was exported. *)
From Coq Require Import NArith ZArith List Bool Lia.
From SV Require Import Fmt.DmxCodes Fmt.DmxBin Fmt.DmxBinLemmas Fmt.DmxBinProofs Fmt.DmxMembers Fmt.DmxMembersProofs Fmt.DmxMembersParse.
Import ListNotations.

Lemma mset_new : forall k a m, ~ In k (map fst m) -> mset k a m = m ++ [(k, a)].
Proof.
  induction m as [|[k' a'] r IH]; cbn [mset map fst In app]; intro H; [reflexivity|].
  destruct (str_eqb k k') eqn:E.
  - apply str_eqb_true in E. subst. exfalso. apply H. now left.
  - f_equal. apply IH. intro X. apply H. now right.
Qed.

Lemma fold_store_append : forall fold attrs pre,
  NoDup (map fst pre ++ map (fun a => fold (aname a)) attrs) ->
  fold_left (store fold KFolded) attrs pre = pre ++ map (fun a => (fold (aname a), a)) attrs.
Proof.
  induction attrs as [|a r IH]; intros pre H; cbn [fold_left map].
  - now rewrite app_nil_r.
  - unfold store at 2. cbn [key_of]. rewrite mset_new.
    + rewrite IH.
      * rewrite <- app_assoc. reflexivity.
      * rewrite map_app. cbn [map fst]. rewrite <- app_assoc. exact H.
    + cbn [map] in H. apply NoDup_remove_2 in H. intro X. apply H. apply in_or_app. now left.
Qed.

(** The dict built from a document element: the name member, then one member per record under its casefolded name. *)
Theorem parsed_members_shape : forall fold e, elem_names_ok fold e ->
  parsed_members fold KFolded e =
  (s_name, {| aname := s_name; adata := VStr (Scalar (ename e)) |}) :: map (fun a => (fold (aname a), a)) (eattrs e).
Proof.
  intros fold e [ND NN]. unfold parsed_members, init_members. rewrite fold_store_append; [reflexivity|].
  cbn [map fst app]. constructor; [|exact ND].
  intro X. apply in_map_iff in X. destruct X as [a [E I]]. rewrite Forall_forall in NN. exact (NN a I E).
Qed.

Theorem parsed_members_keyed : forall fold e, fold s_name = s_name -> elem_names_ok fold e ->
  keyed_by_fold fold (parsed_members fold KFolded e) /\ keys_nodup (parsed_members fold KFolded e).
Proof.
  intros fold e FN OK. rewrite (parsed_members_shape fold e OK). destruct OK as [ND NN]. split.
  - constructor; [cbn; now rewrite FN|]. apply Forall_forall. intros ka I. apply in_map_iff in I. destruct I as [a [E _]]. now subst.
  - unfold keys_nodup. cbn [map fst]. rewrite map_map. cbn [fst]. constructor; [|exact ND].
    intro X. apply in_map_iff in X. destruct X as [a [E I]]. rewrite Forall_forall in NN. exact (NN a I E).
Qed.

Lemma mget_map_in : forall fold (attrs : list attr) a,
  NoDup (map (fun a => fold (aname a)) attrs) -> In a attrs ->
  mget (fold (aname a)) (map (fun a => (fold (aname a), a)) attrs) = Some a.
Proof.
  induction attrs as [|b r IH]; intros a ND I; [destruct I|].
  cbn [map mget]. destruct I as [->|I].
  - now rewrite str_eqb_refl.
  - inversion ND as [|? ? NI ND']; subst. destruct (str_eqb (fold (aname a)) (fold (aname b))) eqn:E.
    + apply str_eqb_true in E. exfalso. apply NI. rewrite <- E. apply in_map_iff. now exists a.
    + now apply IH.
Qed.

(** elem[name] finds every attribute of the parsed element under its name (any spelling that casefolds alike). *)
Theorem parsed_lookup : forall fold e a, elem_names_ok fold e -> In a (eattrs e) ->
  lookup fold (parsed_members fold KFolded e) (aname a) = Some a.
Proof.
  intros fold e a OK I. unfold lookup. rewrite (parsed_members_shape fold e OK). destruct OK as [ND NN].
  cbn [mget]. destruct (str_eqb (fold (aname a)) s_name) eqn:E.
  - apply str_eqb_true in E. rewrite Forall_forall in NN. now destruct (NN a I).
  - now apply mget_map_in.
Qed.

Lemma records_name_map : forall fold (attrs : list attr), Forall (fun a => fold (aname a) <> s_name) attrs ->
  records (FKeyIs s_name) (map (fun a => (fold (aname a), a)) attrs) = map (fun a => (fold (aname a), a)) attrs.
Proof.
  intros fold attrs NN. apply records_key_absent. intro X. rewrite map_map in X. cbn [fst] in X.
  apply in_map_iff in X. destruct X as [a [E I]]. rewrite Forall_forall in NN. exact (NN a I E).
Qed.

(** The parsed element denotes the document element it was built from. *)
Theorem parsed_abstract : forall fold cc e, name_getter_ok cc = true -> elem_names_ok fold e ->
  abstract cc (parsed_relem fold KFolded e) = e.
Proof.
  intros fold cc e NG OK. unfold abstract, view, parsed_relem. cbn [r_type r_uuid r_members].
  rewrite (parsed_members_shape fold e OK). destruct OK as [ND NN].
  unfold name_getter_ok in NG. apply andb_true_iff in NG. destruct NG as [K D]. apply str_eqb_true in K.
  unfold rname. rewrite K. cbn [mget]. rewrite str_eqb_refl. cbn [adata].
  rewrite records_cons. unfold skipped at 1. cbn [fst]. rewrite str_eqb_refl.
  rewrite records_name_map by exact NN. rewrite map_map. cbn [snd]. rewrite map_id. now destruct e.
Qed.

(** The attributes of the element a well-keyed dict denotes meet [elem_names_ok]. *)
Lemma abstract_names_ok : forall fold cc m, keys_nodup m -> keyed_by_fold fold m ->
  elem_names_ok fold {| etype := []; ename := rname cc m; euuid := []; eattrs := map snd (records (FKeyIs s_name) m) |}.
Proof.
  intros fold cc m ND KB. unfold elem_names_ok. cbn [eattrs].
  assert (EQ : map (fun a => fold (aname a)) (map snd (records (FKeyIs s_name) m)) = map fst (records (FKeyIs s_name) m)).
  { rewrite map_map. apply map_ext_in. intros ka I. unfold records in I. apply filter_In in I. destruct I as [I _].
    unfold keyed_by_fold in KB. rewrite Forall_forall in KB. symmetry. exact (KB ka I). }
  split.
  - rewrite EQ. unfold records. clear EQ KB. unfold keys_nodup in ND. induction m as [|ka r IH]; [constructor|].
    cbn [filter]. inversion ND as [|? ? NI ND']; subst. destruct (negb (skipped (FKeyIs s_name) ka)).
    + cbn [map]. constructor; [|now apply IH]. intro X. apply NI. apply in_map_iff in X. destruct X as [x [E I]].
      apply filter_In in I. apply in_map_iff. exists x. tauto.
    + now apply IH.
  - apply Forall_forall. intros a I. apply in_map_iff in I. destruct I as [ka [E I]]. subst a.
    unfold records in I. apply filter_In in I. destruct I as [I S]. unfold keyed_by_fold in KB. rewrite Forall_forall in KB.
    rewrite <- (KB ka I). unfold skipped in S. apply negb_true_iff in S. apply str_eqb_false in S. exact S.
Qed.

(** Export a dict, read the document back, build the dict: the canonical form of the exported dict. *)
Theorem reader_dict_is_canonical : forall fold cc (r : relem), name_getter_ok cc = true ->
  keys_nodup (r_members r) -> keyed_by_fold fold (r_members r) ->
  parsed_members fold KFolded (abstract cc r) = canonical cc (r_members r).
Proof.
  intros fold cc r NG ND KB. pose proof (abstract_names_ok fold cc (r_members r) ND KB) as OK.
  unfold parsed_members, abstract, view. cbn [eattrs ename].
  destruct OK as [N1 N2]. cbn [eattrs] in N1, N2.
  unfold init_members. rewrite fold_store_append.
  - unfold canonical. cbn [app]. f_equal. rewrite map_map.
    transitivity (map (fun ka : str * attr => ka) (records (FKeyIs s_name) (r_members r))); [|apply map_id].
    apply map_ext_in. intros ka I. unfold records in I. apply filter_In in I. destruct I as [I _].
    unfold keyed_by_fold in KB. rewrite Forall_forall in KB. rewrite <- (KB ka I). now destruct ka.
  - cbn [map fst app]. constructor; [|exact N1].
    intro X. apply in_map_iff in X. destruct X as [a [E I]]. rewrite Forall_forall in N2. exact (N2 a I E).
Qed.

(** Every API history on a fresh element keeps the dict keyed by the casefolded names. *)
Lemma mset_keyed : forall fold k a m, k = fold (aname a) -> keyed_by_fold fold m -> keyed_by_fold fold (mset k a m).
Proof.
  intros fold k a m E. induction m as [|[k' a'] r IH]; intro KB; cbn [mset].
  - constructor; [exact E|constructor].
  - inversion KB as [|? ? H1 H2]; subst. destruct (str_eqb (fold (aname a)) k') eqn:Q.
    + apply str_eqb_true in Q. constructor; [cbn [fst snd]; now rewrite <- Q|exact H2].
    + constructor; [exact H1|now apply IH].
Qed.
Lemma mdel_keyed : forall fold k m, keyed_by_fold fold m -> keyed_by_fold fold (mdel k m).
Proof.
  intros fold k m. induction m as [|[k' a'] r IH]; intro KB; cbn [mdel]; [constructor|].
  inversion KB as [|? ? H1 H2]; subst. destruct (str_eqb k k'); [exact H2|constructor; [exact H1|now apply IH]].
Qed.
Lemma removelast_keyed : forall fold (m : members), keyed_by_fold fold m -> keyed_by_fold fold (removelast m).
Proof.
  intros fold m KB. unfold keyed_by_fold in *. rewrite Forall_forall in *. intros x I. apply KB.
  clear KB. induction m as [|y r IH]; [destruct I|]. cbn [removelast] in I. destruct r; [destruct I|].
  destruct I as [->|I]; [now left|right; now apply IH].
Qed.

Theorem apply_op_keyed : forall fold m op, fold s_name = s_name -> keyed_by_fold fold m -> keyed_by_fold fold (apply_op fold m op).
Proof.
  intros fold m op FN KB. destruct op; cbn [apply_op].
  - constructor.
  - now apply mdel_keyed.
  - now apply mdel_keyed.
  - now apply removelast_keyed.
  - destruct (mget s_name m) eqn:G.
    + (* the setter keeps the attribute object, hence its case-preserved name *)
      assert (H : s_name = fold (aname a)).
      { clear -G KB. induction m as [|[k' a'] r IH]; [discriminate|]. cbn [mget] in G. inversion KB as [|? ? H1 H2]; subst.
        destruct (str_eqb s_name k') eqn:Q.
        - apply str_eqb_true in Q. inversion G; subst. exact H1.
        - now apply IH. }
      apply mset_keyed; [exact H|exact KB].
    + unfold keyed_by_fold. apply Forall_app. split; [exact KB|]. constructor; [cbn; now rewrite FN|constructor].
  - apply mset_keyed; [reflexivity|exact KB].
  - destruct (has_key (fold name) m); [exact KB|]. unfold keyed_by_fold. apply Forall_app. split; [exact KB|].
    constructor; [reflexivity|constructor].
Qed.

Theorem history_keyed : forall fold ops name, fold s_name = s_name -> keyed_by_fold fold (run_ops fold ops (init_members name)).
Proof.
  intros fold ops name FN. unfold run_ops.
  assert (H : keyed_by_fold fold (init_members name)) by (constructor; [cbn; now rewrite FN|constructor]).
  revert H. generalize (init_members name). induction ops as [|op r IH]; intros m H; cbn [fold_left]; [exact H|].
  apply IH. now apply apply_op_keyed.
Qed.

(** Composition: for every API history on fresh elements, the dict the reader builds from the exported bytes is the
    canonical form of the dict that was exported (binary, versions 0-5). *)
Theorem members_bin_reader_roundtrip :
  forall (cenc : enc -> str -> bytes) (cdec : enc -> bytes -> option str) (cfg : dmxcfg) (cc : cntcfg) (fold : str -> str),
  cnt_cfg_ok cc = true -> bin_cfg_ok cfg = true ->
  forall v rd, Forall (fun r => keys_nodup (r_members r)) rd -> Forall (fun r => keyed_by_fold fold (r_members r)) rd ->
    expressible cenc cdec cfg v (map (abstract cc) rd) ->
    exists d, parse_bin cdec cfg v (export_raw cenc cfg cc v rd) = Some d /\
              map (parsed_members fold KFolded) d = map (fun r => canonical cc (r_members r)) rd.
Proof.
  intros cenc cdec cfg cc fold CC BC v rd ND KB EX. exists (map (abstract cc) rd). split.
  - now apply members_bin_roundtrip.
  - rewrite map_map. apply map_ext_in. intros r I. rewrite Forall_forall in ND, KB.
    apply reader_dict_is_canonical; [|now apply ND|now apply KB].
    unfold cnt_cfg_ok in CC. apply andb_true_iff in CC. tauto.
Qed.

(** A reader that stores a record under the name as written (no casefold): the attribute "Ab" is not found by elem["Ab"]. *)
Definition ab_elem : elem := {| etype := [84]%N; ename := [110]%N; euuid := []; eattrs := [int_attr [65; 98]%N 5] |}.
Theorem key_as_written_refuted :
  parse_keys_ok {| pk_bin := KAsWritten; pk_kv2_attr := KFolded; pk_kv2_inline := KFolded; pk_init_key := s_name; pk_init_name := s_name |} = false /\
  lookup ascii_lower (parsed_members ascii_lower KAsWritten ab_elem) [65; 98]%N = None /\
  keyed_by_foldb ascii_lower (parsed_members ascii_lower KAsWritten ab_elem) = false /\
  lookup ascii_lower (parsed_members ascii_lower KFolded ab_elem) [65; 98]%N = Some (int_attr [65; 98]%N 5) /\
  lookup ascii_lower (parsed_members ascii_lower KFolded ab_elem) [97; 66]%N = Some (int_attr [65; 98]%N 5) /\
  keyed_by_foldb ascii_lower (parsed_members ascii_lower KFolded ab_elem) = true.
Proof. vm_compute. repeat split. Qed.

Lemma good_parse_ok : parse_keys_ok good_parse && init_member_ok good_parse = true.
Proof. reflexivity. Qed.
Example names_ok_example : elem_names_ok ascii_lower ab_elem.
Proof. split; [repeat constructor; intros []|repeat constructor; discriminate]. Qed.
