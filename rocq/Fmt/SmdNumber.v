(** SMD bone numbering: the [nodes] section of [Mesh.export] (smd.py).

    [todo = dict.fromkeys(self.bones.values())] keeps the first bone per key (the key of a [Bone] is what [Bone.__eq__] /
    [__hash__] read: the name; census in Gen/KeyTables_gen.v).  Then passes over [todo]: a bone whose parent is [None] or
    already numbered (earlier passes or earlier in this pass) gets the next number, its line [(number, name, parent number)]
    is written and it leaves [todo]; a pass that numbers nobody raises [ValueError] (loop / parent outside the mesh).
    The reader ([_parse_smd_bones]) takes the lines in order and needs every parent number to be defined by an earlier line.
    Names are codes ([N]); a bone is (key, parent key).  Executable definitions; proofs in SmdNumberProofs.v. *)
From Coq Require Import List NArith Bool PeanoNat.
Import ListNotations.
Open Scope N_scope.

Record bone := mkBone { bkey : N; bpar : option N }.
Definition nline := (nat * N * option nat)%type.      (* number, name, parent number (None = -1) *)

Fixpoint lookup (k : N) (d : list (N * nat)) : option nat :=
  match d with
  | [] => None
  | (k', i) :: r => if k =? k' then Some i else lookup k r
  end.

(** [dict.fromkeys]: first occurrence of every key, in order *)
Fixpoint dedupe_aux (seen : list N) (bs : list bone) : list bone :=
  match bs with
  | [] => []
  | b :: r => if existsb (N.eqb (bkey b)) seen then dedupe_aux seen r else b :: dedupe_aux (bkey b :: seen) r
  end.
Definition dedupe := dedupe_aux [].

(** is the bone ready, and with which parent number *)
Definition ready (idx : list (N * nat)) (b : bone) : option (option nat) :=
  match bpar b with
  | None => Some None
  | Some p => match lookup p idx with Some i => Some (Some i) | None => None end
  end.

(** one [for bone in list(todo)] pass: remaining bones, table, next number, lines written *)
Fixpoint pass (todo : list bone) (idx : list (N * nat)) (next : nat) : list bone * list (N * nat) * nat * list nline :=
  match todo with
  | [] => ([], idx, next, [])
  | b :: r =>
      match ready idx b with
      | Some pi =>
          let '(rem, idx', next', ls) := pass r ((bkey b, next) :: idx) (S next) in
          (rem, idx', next', (next, bkey b, pi) :: ls)
      | None =>
          let '(rem, idx', next', ls) := pass r idx next in
          (b :: rem, idx', next', ls)
      end
  end.

(** [while todo]: [None] = ValueError (a pass without progress) *)
Fixpoint passes (fuel : nat) (todo : list bone) (idx : list (N * nat)) (next : nat) : option (list nline) :=
  match todo with
  | [] => Some []
  | _ =>
      match fuel with
      | O => None
      | S f =>
          let '(rem, idx', next', ls) := pass todo idx next in
          if Nat.eqb (List.length rem) (List.length todo) then None
          else option_map (app ls) (passes f rem idx' next')
      end
  end.

Definition number (bs : list bone) : option (list nline) := passes (S (List.length bs)) (dedupe bs) [] 0%nat.

(** the reader: lines in order; [nth_error names i] is the name defined by the line numbered [i] (numbers are consecutive
    from 0, checked); a parent number that is not defined yet is an error.  Result: (name, parent name) per line. *)
Fixpoint read_nodes (names : list N) (ls : list nline) : option (list (N * option N)) :=
  match ls with
  | [] => Some []
  | (i, k, pi) :: r =>
      if negb (Nat.eqb i (List.length names)) then None else
      match pi with
      | None => option_map (cons (k, None)) (read_nodes (names ++ [k]) r)
      | Some p =>
          match nth_error names p with
          | Some pk => option_map (cons (k, Some pk)) (read_nodes (names ++ [k]) r)
          | None => None
          end
      end
  end.

Definition bone_rec (b : bone) : N * option N := (bkey b, bpar b).
