(** C06 (round 2) — models of the field-level glue of VMF export/parse that sits between the keyvalue tree and the
    objects: how the reader recognises the [rowN] keys of displacement arrays, the value of an output line
    ([Output.as_keyvalue] / [Output.parse]: separator choice, splitting, recombination of extra commas), the
    [instance:name;command] form of output/input names, and instance fixups ([replaceNN] lines, index bookkeeping of
    [EntityFixup.__init__]).  Definitions only; proofs are in Fmt/VmfFieldsProofs.v. *)
From Coq Require Import NArith List Bool.
From SV Require Import Fmt.VmfText.
Import ListNotations.
Open Scope N_scope.

Definition is_digit (c : N) : bool := (48 <=? c) && (c <=? 57).
Fixpoint prefix_of (p s : list N) : bool :=
  match p, s with
  | [], _ => true
  | x :: p', y :: s' => (x =? y) && prefix_of p' s'
  | _ :: _, [] => false
  end.

(** * Row keys of displacement arrays (read side, Side._iter_disp_row) *)
(** The reader accepts a key that starts with [rr_prefix] (or fully matches prefix + digits, for a regular-expression
    reader) and takes the integer denoted by the characters from position [rr_skip] on, which must be between
    [rr_min] and [rr_max] digits (no upper limit when [rr_max] is None).  A reader that looks the key up in a precomputed
    table  { prefix + str(y) : y  for y in range(B) }  (round 5) knows the indexes below [rr_below = Some B] only. *)
Record rowreader := mk_rowreader { rr_prefix : list N; rr_skip : nat; rr_min : nat; rr_max : option nat; rr_below : option N }.
Definition digits_in_range (r : rowreader) (n : nat) : bool :=
  Nat.leb (rr_min r) n && match rr_max r with Some m => Nat.leb n m | None => true end.
Definition read_row (r : rowreader) (name : list N) : option N :=
  if prefix_of (rr_prefix r) name then
    let ds := skipn (rr_skip r) name in
    if forallb is_digit ds && digits_in_range r (List.length ds)
       && match rr_below r with Some b => parse_digits ds <? b | None => true end
    then Some (parse_digits ds) else None
  else None.
(** the writer's key for row y: literal prefix + str(y) *)
Definition row_key (wprefix : list N) (y : N) : list N := wprefix ++ digits y.
Fixpoint nrange (n : nat) : list N := match n with O => [] | S k => nrange k ++ [N.of_nat k] end.
Definition rows_recognised (r : rowreader) (wprefix : list N) (n : nat) : bool :=
  forallb (fun y => match read_row r (row_key wprefix y) with Some y' => y' =? y | None => false end) (nrange n).

(** * str.split(sep) / sep.join *)
Fixpoint split_on (c : N) (s : list N) : list (list N) :=
  match s with
  | [] => [[]]
  | x :: r =>
      if x =? c then [] :: split_on c r
      else match split_on c r with h :: t => (x :: h) :: t | [] => [[x]] end
  end.
Fixpoint join (c : N) (l : list (list N)) : list N :=
  match l with [] => [] | [a] => a | a :: r => a ++ c :: join c r end.
Definition has (c : N) (s : list N) : bool := existsb (N.eqb c) s.

(** * The value of an output line *)
Definition ESC : N := 27.
Definition COMMA : N := 44.
Record outv := mk_outv { ov_target : list N; ov_input : list N; ov_params : list N; ov_delay : list N; ov_times : list N;
                         ov_comma : bool }.
(** Output.as_keyvalue: target SEP exp_in SEP params SEP delay SEP times *)
Definition out_join (o : outv) : list N :=
  let sep := if ov_comma o then COMMA else ESC in
  join sep [ov_target o; ov_input o; ov_params o; ov_delay o; ov_times o].
(** Output.parse: ESC present -> split on ESC, exactly five fields; else split on commas, five fields or more (the
    extra ones are re-joined into the parameter). *)
Definition out_parse (v : list N) : option outv :=
  if has ESC v then
    match split_on ESC v with
    | [a; b; c; d; e] => Some (mk_outv a b c d e false)
    | _ => None
    end
  else
    match split_on COMMA v with
    | a :: b :: rest =>
        match rev rest with
        | e :: d :: mid_rev =>
            match mid_rev with
            | [] => None
            | _ => Some (mk_outv a b (join COMMA (rev mid_rev)) d e true)
            end
        | _ => None
        end
    | _ => None
    end.
Definition outv_ok (o : outv) : bool :=
  negb (has ESC (ov_target o)) && negb (has ESC (ov_input o)) && negb (has ESC (ov_params o))
  && negb (has ESC (ov_delay o)) && negb (has ESC (ov_times o))
  && (negb (ov_comma o) ||
      (negb (has COMMA (ov_target o)) && negb (has COMMA (ov_input o))
       && negb (has COMMA (ov_delay o)) && negb (has COMMA (ov_times o)))).

(** * instance:name;command *)
Definition inst_prefix : list N := [105; 110; 115; 116; 97; 110; 99; 101; 58].    (* "instance:" *)
Definition SEMI : N := 59.
(** Output.exp_out / exp_in *)
Definition exp_name (inst : option (list N)) (cmd : list N) : list N :=
  match inst with
  | Some (c :: i) => inst_prefix ++ (c :: i) ++ SEMI :: cmd
  | _ => cmd
  end.
(** name.split(';', 1) *)
Fixpoint split1 (c : N) (s : list N) : option (list N * list N) :=
  match s with
  | [] => None
  | x :: r => if x =? c then Some ([], r)
              else match split1 c r with Some (a, b) => Some (x :: a, b) | None => None end
  end.
Section ParseName.
  (** name.casefold().startswith('instance:') -- Unicode case folding is external *)
  Variable is_inst : list N -> bool.
  (** Output.parse_name; None = ValueError *)
  Definition parse_name (s : list N) : option (option (list N) * list N) :=
    if is_inst s then
      match split1 SEMI s with
      | Some (a, b) => Some (Some (skipn 9 a), b)
      | None => None
      end
    else Some (None, s).
End ParseName.

(** * Instance fixups *)
Definition fixup := (list N * list N * N)%type.     (* variable, value, index *)
Definition fx_var (f : fixup) := fst (fst f).
Definition fx_val (f : fixup) := snd (fst f).
Definition fx_id (f : fixup) := snd f.
Definition REPLACE : list N := [114; 101; 112; 108; 97; 99; 101].     (* "replace" *)
Definition DOLLAR : N := 36.
(** EntityFixup.export: "replace{id:02}" "${var} {value}" *)
Definition fixup_line (w : nat) (f : fixup) : list N * list N :=
  (REPLACE ++ fmt_index w (fx_id f), DOLLAR :: fx_var f ++ SP :: fx_val f).
Fixpoint lstrip (c : N) (s : list N) : list N :=
  match s with x :: r => if x =? c then lstrip c r else s | [] => [] end.
(** Entity.parse on a key that starts with "replace" whose last [r] characters are an integer:
    value.split(" ", 1); var = first.lstrip('$'); value = second or '' *)
Definition parse_fixup_line (r : nat) (kv : list N * list N) : fixup :=
  let idx := parse_digits (last_n r (fst kv)) in
  match split1 SP (snd kv) with
  | Some (a, b) => (lstrip DOLLAR a, b, idx)
  | None => (lstrip DOLLAR (snd kv), [], idx)
  end.

(** var[1:] if var[0] == '$' (EntityFixup.__setitem__ removes one dollar sign) *)
Definition strip1 (c : N) (s : list N) : list N := match s with x :: r => if x =? c then r else s | [] => [] end.
Fixpoint nlist_eqb (a b : list N) : bool :=
  match a, b with [], [] => true | x :: a', y :: b' => (x =? y) && nlist_eqb a' b' | _, _ => false end.

Section FixInit.
  (** casefold equality of variable names (external) *)
  Variable same_var : list N -> list N -> bool.
  (** EntityFixup.__init__, first loop: a value whose index is positive and not used yet is stored under its
      casefolded name -- replacing, in place, an earlier value of the same name (whose index stays used); the others
      are set aside *)
  Fixpoint put (k : list fixup) (f : fixup) : list fixup :=
    match k with
    | [] => [f]
    | g :: r => if same_var (fx_var g) (fx_var f) then f :: r else g :: put r f
    end.
  Definition init_step (st : list N * list fixup * list fixup) (f : fixup) : list N * list fixup * list fixup :=
    let '(used, k, e) := st in
    if (0 <? fx_id f) && negb (VmfText.mem (fx_id f) used) then (fx_id f :: used, put k f, e) else (used, k, e ++ [f]).
  (** __setitem__: overwrite the value of an existing variable, else insert with the lowest unused index *)
  Fixpoint lowest_unused (fuel : nat) (used : list N) (i : N) : N :=
    match fuel with O => i | S k => if VmfText.mem i used then lowest_unused k used (i + 1) else i end.
  Fixpoint set_value (l : list fixup) (var val : list N) : option (list fixup) :=
    match l with
    | [] => None
    | f :: r => if same_var (fx_var f) var then Some ((fx_var f, val, fx_id f) :: r)
                else match set_value r var val with Some r' => Some (f :: r') | None => None end
    end.
  Definition set_item (l : list fixup) (var val : list N) : list fixup :=
    match set_value l var val with
    | Some l' => l'
    | None => l ++ [(var, val, lowest_unused (S (List.length l)) (map fx_id l) 1)]
    end.
  Definition fix_init (l : list fixup) : list fixup :=
    let '(_, k, e) := fold_left init_step l ([], [], []) in
    fold_left (fun acc f => set_item acc (strip1 DOLLAR (fx_var f)) (fx_val f)) e k.
End FixInit.

Definition fixup_ok (f : fixup) : bool :=
  (1 <=? fx_id f) && (fx_id f <=? 99)
  && negb (has SP (fx_var f))
  && match fx_var f with c :: _ => negb (c =? DOLLAR) | [] => false end.
Fixpoint nodup_ids (seen : list N) (l : list fixup) : bool :=
  match l with [] => true | f :: r => negb (VmfText.mem (fx_id f) seen) && nodup_ids (fx_id f :: seen) r end.
Definition fixups_ok (l : list fixup) : bool := forallb fixup_ok l && nodup_ids [] l.
(** no two variables have the same (casefolded) name *)
Fixpoint vars_fresh (same_var : list N -> list N -> bool) (k l : list fixup) : bool :=
  match l with
  | [] => true
  | f :: r => forallb (fun g => negb (same_var (fx_var g) (fx_var f))) k && vars_fresh same_var (k ++ [f]) r
  end.
