(** C15 — proofs about the Frame life cycle (Fmt/VtfFrameSM.v). *)
From Coq Require Import List Bool Arith Lia NArith.
From SV Require Import Fmt.VtfFrameSM Fmt.VtfPixelExpr Fmt.VtfPixelExprProofs.
Import ListNotations.
Local Open Scope nat_scope.

(** boolean equality of tables is equality *)
Lemma dorigin_eqb_eq : forall a b, dorigin_eqb a b = true -> a = b.
Proof. destruct a, b; cbn; congruence. Qed.
Lemma sorigin_eqb_eq : forall a b, sorigin_eqb a b = true -> a = b.
Proof. destruct a, b; cbn; congruence. Qed.
Lemma outcome_eqb_eq : forall a b, outcome_eqb a b = true -> a = b.
Proof.
  intros [[d m] s] [[d' m'] s'] H. cbn in H.
  apply andb_true_iff in H. destruct H as [H Hs]. apply andb_true_iff in H. destruct H as [Hd Hm].
  apply dorigin_eqb_eq in Hd. apply sorigin_eqb_eq in Hs. apply eqb_prop in Hm. congruence.
Qed.
Lemma list_eqb_eq : forall A (eqb : A -> A -> bool), (forall a b, eqb a b = true -> a = b) ->
  forall a b, list_eqb eqb a b = true -> a = b.
Proof.
  intros A eqb H. induction a as [|x a IH]; destruct b as [|y b]; cbn; try congruence.
  intros E. apply andb_true_iff in E. destruct E as [E1 E2]. f_equal; auto.
Qed.
Lemma row_eqb_eq : forall a b, row_eqb a b = true -> a = b.
Proof.
  intros [[d s] l] [[d' s'] l'] H. unfold row_eqb in H. cbn [fst snd] in H.
  apply andb_true_iff in H. destruct H as [H Hl]. apply andb_true_iff in H. destruct H as [Hd Hs].
  apply eqb_prop in Hd. apply eqb_prop in Hs. apply (list_eqb_eq _ _ outcome_eqb_eq) in Hl. congruence.
Qed.
Lemma efftable_eqb_eq : forall a b, efftable_eqb a b = true -> a = b.
Proof. exact (list_eqb_eq _ _ row_eqb_eq). Qed.

Section Sem.
Variable pix fbytes : Type.
Notation fstate := (fstate pix fbytes).

(** The tables mean the operations. *)
Lemma run_ideal_load : forall blank decode newd scaled modf (st : fstate),
  run_table pix fbytes ideal_load blank decode newd scaled modf st = load pix fbytes blank decode st.
Proof. intros. destruct st as [[d|] [s|]]; reflexivity. Qed.
Lemma run_ideal_clear : forall blank decode newd scaled modf (st : fstate),
  run_table pix fbytes ideal_clear blank decode newd scaled modf st = clear pix fbytes st.
Proof. intros. destruct st as [[d|] [s|]]; reflexivity. Qed.
Lemma run_ideal_new : forall blank decode newd scaled modf (st : fstate),
  run_table pix fbytes ideal_new blank decode newd scaled modf st = set_new pix fbytes newd st.
Proof. intros. destruct st as [[d|] [s|]]; reflexivity. Qed.
Lemma run_ideal_rescale : forall blank decode newd scaled modf (st : fstate),
  run_table pix fbytes ideal_rescale blank decode newd scaled modf st = rescale pix fbytes scaled st.
Proof. intros. destruct st as [[d|] [s|]]; reflexivity. Qed.
Lemma run_ideal_setitem : forall blank decode newd scaled modf (st : fstate),
  run_table pix fbytes ideal_setitem blank decode newd scaled modf st = setitem pix fbytes blank decode modf st.
Proof. intros. destruct st as [[d|] [s|]]; reflexivity. Qed.
Lemma run_ideal_detach : forall blank decode newd scaled modf (st : fstate),
  run_table pix fbytes ideal_detach blank decode newd scaled modf st = detach pix fbytes st.
Proof. intros. destruct st as [[d|] [s|]]; reflexivity. Qed.

(** What the user sees ([view]) under each operation: reading never changes it, rescale_from does not change it
    while the frame still has its file source, the writers replace it, detaching the file loses unread pixels. *)
Lemma view_load : forall blank decode (st : fstate),
  view pix fbytes blank decode (load pix fbytes blank decode st) = view pix fbytes blank decode st.
Proof. intros. destruct st as [[d|] [s|]]; reflexivity. Qed.
Lemma load_idempotent : forall blank decode (st : fstate),
  load pix fbytes blank decode (load pix fbytes blank decode st) = load pix fbytes blank decode st.
Proof. intros. destruct st as [[d|] [s|]]; reflexivity. Qed.
Lemma load_result : forall blank decode (st : fstate),
  load pix fbytes blank decode st = {| f_data := Some (view pix fbytes blank decode st); f_src := None |}.
Proof. intros. destruct st as [[d|] [s|]]; reflexivity. Qed.
Lemma view_rescale_with_source : forall blank decode scaled (st : fstate) b, f_src st = Some b ->
  view pix fbytes blank decode (rescale pix fbytes scaled st) = decode b.
Proof. intros. unfold view, rescale. cbn. rewrite H. reflexivity. Qed.
Lemma view_rescale_without_source : forall blank decode scaled (st : fstate), f_src st = None ->
  view pix fbytes blank decode (rescale pix fbytes scaled st) = scaled.
Proof. intros. unfold view, rescale. cbn. rewrite H. reflexivity. Qed.
Lemma view_set_new : forall blank decode p (st : fstate), view pix fbytes blank decode (set_new pix fbytes p st) = p.
Proof. reflexivity. Qed.
Lemma view_setitem : forall blank decode modf (st : fstate),
  view pix fbytes blank decode (setitem pix fbytes blank decode modf st) = modf (view pix fbytes blank decode st).
Proof. intros. destruct st as [[d|] [s|]]; reflexivity. Qed.

(** * The chain *)
Variable blank : nat -> pix.
Variable decode : fbytes -> pix.
Variable encode : pix -> fbytes.
Variable scale : nat -> pix -> pix.
Variable cfg : chaincfg.

(** the pixels a frame holds or will hold, independent of the blank value; None only for a cleared frame *)
Definition view' (st : fstate) : option pix :=
  match f_src st with Some b => Some (decode b) | None => f_data st end.

Notation m_load := (m_load pix fbytes blank decode ideal_load).
Notation m_rescale := (m_rescale pix fbytes blank decode scale ideal_load ideal_rescale cfg).
Notation cm_levels := (cm_levels pix fbytes blank decode scale ideal_load ideal_rescale cfg).
Notation sv_levels := (sv_levels pix fbytes blank decode encode ideal_load cfg).
Notation sv_run := (sv_run pix fbytes blank decode encode ideal_load).

Lemma m_load_view' : forall m (st : fstate) pv, view' st = Some pv ->
  m_load m st = {| f_data := Some pv; f_src := None |}.
Proof.
  intros m st pv H. unfold VtfFrameSM.m_load. rewrite run_ideal_load.
  destruct st as [[d|] [s|]]; cbn in *; congruence.
Qed.

Definition steps_ok (l : list sstep) : Prop := l = [SvLoad; SvEncodeIfData; SvWrite] \/ l = [SvLoad; SvEncodeAlways; SvWrite].

Lemma sv_run_view' : forall m steps (st : fstate) pv, steps_ok steps -> view' st = Some pv ->
  sv_run m steps st None = Some (encode pv).
Proof.
  intros m steps st pv [-> | ->] H; cbn [VtfFrameSM.sv_run]; rewrite (m_load_view' m st pv H); reflexivity.
Qed.

Lemma chain_ok_inv : chain_ok cfg = true ->
  cm_loads_level0 cfg = true /\ (cm_guard cfg = GDataNone \/ cm_guard cfg = GDataNoneAndSrcNone)
  /\ rs_loads_parent cfg = true /\ sv_computes_first cfg = true /\ steps_ok (sv_steps cfg).
Proof.
  unfold chain_ok. intros H.
  repeat (apply andb_true_iff in H; destruct H as [H ?]).
  repeat split; auto.
  - destruct (cm_guard cfg); try discriminate; auto.
  - apply orb_true_iff in H0. unfold steps_ok.
    destruct H0 as [E | E]; [left | right];
      (apply (list_eqb_eq _ _) in E; [exact E|]); intros a b; destruct a, b; cbn; congruence.
Qed.

Hypothesis Hok : chain_ok cfg = true.

Lemma guard_true_data_none : forall (st : fstate), guard_eval pix fbytes (cm_guard cfg) st = true -> f_data st = None.
Proof.
  intros st H. destruct (chain_ok_inv Hok) as (_ & [E | E] & _); rewrite E in H; cbn in H;
    destruct (f_data st); cbn in H; try discriminate; reflexivity.
Qed.
Lemma guard_false_viewable : forall (st : fstate), guard_eval pix fbytes (cm_guard cfg) st = false ->
  exists p, view' st = Some p /\ p = match f_src st with Some b => decode b | None => match f_data st with Some d => d | None => p end end.
Proof.
  intros st H. destruct (chain_ok_inv Hok) as (_ & [E | E] & _); rewrite E in H; cbn in H; unfold view';
    destruct st as [[d|] [s|]]; cbn in *; try discriminate; eexists; split; reflexivity.
Qed.

Lemma cm_levels_written : forall rest k (parent : fstate) pv, view' parent = Some pv ->
  sv_levels k (cm_levels (S k) parent rest)
  = Some (encode pv) :: map (fun p => Some (encode p)) (final_pixels pix fbytes decode scale (S k) pv rest).
Proof.
  destruct (chain_ok_inv Hok) as (_ & _ & Hrl & _ & Hst).
  induction rest as [|st tl IH]; intros k parent pv Hv.
  - cbn [VtfFrameSM.cm_levels VtfFrameSM.sv_levels final_pixels map]. rewrite (sv_run_view' _ _ _ pv Hst Hv). reflexivity.
  - cbn [VtfFrameSM.cm_levels].
    destruct (guard_eval pix fbytes (cm_guard cfg) st) eqn:G.
    + pose proof (guard_true_data_none st G) as Hd.
      unfold VtfFrameSM.m_rescale. rewrite Hrl. replace (S k - 1)%nat with k by lia.
      rewrite (m_load_view' k parent pv Hv). cbn [f_data].
      rewrite run_ideal_rescale.
      cbn [VtfFrameSM.sv_levels].
      rewrite (sv_run_view' k _ {| f_data := Some pv; f_src := None |} pv Hst eq_refl).
      set (st' := rescale pix fbytes (scale (S k) pv) st).
      assert (Hv' : view' st' = Some (match f_src st with Some b => decode b | None => scale (S k) pv end)).
      { unfold view', st', rescale. cbn. destruct (f_src st); reflexivity. }
      rewrite (IH (S k) st' _ Hv'). cbn [final_pixels map]. rewrite Hd. reflexivity.
    + destruct (guard_false_viewable st G) as (p & Hp & Ep).
      cbn [VtfFrameSM.sv_levels]. rewrite (sv_run_view' k _ _ pv Hst Hv).
      rewrite (IH (S k) st p Hp). cbn [final_pixels map].
      assert (E : match f_src st with Some b => decode b | None => match f_data st with Some d => d | None => scale (S k) pv end end = p).
      { unfold view' in Hp. destruct (f_src st); [congruence|]. destruct (f_data st); congruence. }
      rewrite E. reflexivity.
Qed.

(** save() writes, for every level of the chain: the file's pixels (re-encoded) while the level still has its file
    source, else its data, else - cleared - blank for level 0 and the scaled pixels WRITTEN for the level above. *)
Theorem chain_written : forall chain,
  save_chain pix fbytes blank decode encode scale ideal_load ideal_rescale cfg chain
  = map (fun p => Some (encode p)) (final_chain pix fbytes blank decode scale chain).
Proof.
  destruct (chain_ok_inv Hok) as (Hl0 & _ & _ & Hcf & _).
  intros [|l0 tl]; unfold save_chain; rewrite Hcf; [reflexivity|].
  unfold VtfFrameSM.compute_mipmaps. rewrite Hl0. unfold final_chain.
  set (p0 := view pix fbytes (blank 0) decode l0).
  assert (H0 : view' (m_load 0 l0) = Some p0).
  { unfold VtfFrameSM.m_load. rewrite run_ideal_load, load_result. reflexivity. }
  rewrite (cm_levels_written tl 0 _ p0 H0). reflexivity.
Qed.

(** Every level that still has its file source and was not written to is saved as the re-encoded file bytes. *)
Corollary chain_keeps_file_levels : forall chain m st b,
  nth_error chain m = Some st -> f_src st = Some b ->
  nth_error (save_chain pix fbytes blank decode encode scale ideal_load ideal_rescale cfg chain) m = Some (Some (encode (decode b))).
Proof.
  intros chain m st b Hn Hs. rewrite chain_written.
  rewrite nth_error_map.
  assert (nth_error (final_chain pix fbytes blank decode scale chain) m = Some (decode b)) as ->; [|reflexivity].
  destruct chain as [|l0 tl]; [destruct m; discriminate|]. unfold final_chain.
  destruct m as [|m].
  - cbn in Hn. inversion Hn; subst. cbn. unfold view. rewrite Hs. reflexivity.
  - cbn [nth_error] in Hn |- *.
    generalize (view pix fbytes (blank 0%nat) decode l0) 1%nat. revert m Hn.
    induction tl as [|x tl IH]; intros m Hn pv k; [destruct m; discriminate|].
    destruct m as [|m]; cbn [nth_error final_pixels] in *.
    + inversion Hn; subst. rewrite Hs. reflexivity.
    + apply IH. exact Hn.
Qed.
End Sem.

(** * With the per-pixel codecs: a file written by save(), read lazily and saved again, keeps its bytes. *)
Section WithCodec.
Variable c : codec.
Variable canon : list expr.
Hypothesis Hsf : sf_ok c canon = true.
Definition frame_pixels := list (list N).     (* one list of 4 channels / of bpp bytes per texel *)
Definition dec_frame (b : frame_pixels) : frame_pixels := map (run (load_e c)) b.
Definition enc_frame (p : frame_pixels) : frame_pixels := map (run (save_e c)) p.

Lemma enc_dec_enc : forall p, Forall bytes p -> enc_frame (dec_frame (enc_frame p)) = enc_frame p.
Proof.
  intros p H. unfold enc_frame, dec_frame. rewrite !map_map. apply map_ext_in.
  intros x Hx. rewrite Forall_forall in H. apply (proj2 (sf_sound c canon Hsf)). auto.
Qed.
Lemma enc_dec_canon : forall b, Forall bytes b -> enc_frame (dec_frame b) = map (run canon) b.
Proof.
  intros b H. unfold enc_frame, dec_frame. rewrite map_map. apply map_ext_in.
  intros x Hx. rewrite Forall_forall in H. apply (proj1 (sf_sound c canon Hsf)). auto.
Qed.

Theorem lazy_resave_keeps_bytes : forall cfg blank scale, chain_ok cfg = true ->
  forall chain m st p, nth_error chain m = Some st -> f_src st = Some (enc_frame p) -> Forall bytes p ->
  nth_error (save_chain frame_pixels frame_pixels blank dec_frame enc_frame scale ideal_load ideal_rescale cfg chain) m
  = Some (Some (enc_frame p)).
Proof.
  intros cfg blank scale Hok chain m st p Hn Hs Hp.
  rewrite (chain_keeps_file_levels _ _ blank dec_frame enc_frame scale cfg Hok chain m st _ Hn Hs).
  rewrite enc_dec_enc by exact Hp. reflexivity.
Qed.
End WithCodec.

(** * The defective shapes, refuted on a small instance: pixels and bytes are numbers, decode/encode are the
    identity, scaling adds 100, blank is 0.  A lazily read frame holding file value v is [lazy v]. *)
Definition lazy (v : nat) : fstate nat nat := {| f_data := None; f_src := Some v |}.
Definition cleared : fstate nat nat := {| f_data := None; f_src := None |}.
Definition good_cfg : chaincfg :=
  {| cm_loads_level0 := true; cm_guard := GDataNone; cm_from_previous := true; rs_loads_parent := true;
     sv_computes_first := true; sv_steps := [SvLoad; SvEncodeIfData; SvWrite] |}.
Definition toy_save (t_rescale : efftable) (cfg : chaincfg) :=
  save_chain nat nat (fun _ => 0) (fun b => b) (fun p => p) (fun _ p => p + 100) ideal_load t_rescale cfg.

Example good_cfg_ok : chain_ok good_cfg = true.
Proof. reflexivity. Qed.
Example toy_good : toy_save ideal_rescale good_cfg [lazy 1; lazy 2; cleared] = [Some 1; Some 2; Some 102].
Proof. reflexivity. Qed.

(** rescale_from() forgetting the file source: the stored level 1 is replaced by an average of level 0. *)
Definition rescale_drops_source : efftable :=
  rows (DScaled, false, SNoneV) (DScaled, false, SNoneV) (DScaled, false, SNoneV) (DScaled, false, SNoneV).
Lemma rescale_drops_source_refuted :
  efftable_eqb rescale_drops_source ideal_rescale = false
  /\ toy_save rescale_drops_source good_cfg [lazy 1; lazy 2] = [Some 1; Some 101].
Proof. split; reflexivity. Qed.

(** rescale_from() not loading the larger frame (the tree before the repair): a cleared level below a lazily read
    one is made from the average of level 0 that compute_mipmaps had parked in level 1, not from the stored level 1. *)
Definition pinned_cfg : chaincfg :=
  {| cm_loads_level0 := true; cm_guard := GDataNone; cm_from_previous := true; rs_loads_parent := false;
     sv_computes_first := true; sv_steps := [SvLoad; SvEncodeIfData; SvWrite] |}.
Lemma parent_not_loaded_refuted :
  chain_ok pinned_cfg = false
  /\ toy_save ideal_rescale pinned_cfg [lazy 1; lazy 2; cleared] = [Some 1; Some 2; Some 201].
Proof. split; reflexivity. Qed.

(** save() writing before load(): a lazily read frame is written as nothing (the zero-filled buffer). *)
Lemma write_before_load_refuted :
  toy_save ideal_rescale {| cm_loads_level0 := true; cm_guard := GDataNoneAndSrcNone; cm_from_previous := true;
                             rs_loads_parent := true; sv_computes_first := true;
                             sv_steps := [SvEncodeIfData; SvLoad; SvWrite] |} [lazy 1; lazy 2] = [Some 1; None].
Proof. reflexivity. Qed.

(** * Stated over the generated objects: tables that pass the boolean comparison, a configuration that passes [chain_ok]. *)
Theorem chain_written_gen : forall pix fbytes blank decode encode scale t_load t_rescale cfg,
  efftable_eqb t_load ideal_load = true -> efftable_eqb t_rescale ideal_rescale = true -> chain_ok cfg = true ->
  forall chain,
    save_chain pix fbytes blank decode encode scale t_load t_rescale cfg chain
    = map (fun p => Some (encode p)) (final_chain pix fbytes blank decode scale chain).
Proof.
  intros pix fbytes blank decode encode scale t_load t_rescale cfg H1 H2 Hok chain.
  apply efftable_eqb_eq in H1. apply efftable_eqb_eq in H2. subst. apply chain_written. exact Hok.
Qed.

Theorem chain_keeps_file_levels_gen : forall pix fbytes blank decode encode scale t_load t_rescale cfg,
  efftable_eqb t_load ideal_load = true -> efftable_eqb t_rescale ideal_rescale = true -> chain_ok cfg = true ->
  forall chain m st b, nth_error chain m = Some st -> f_src st = Some b ->
    nth_error (save_chain pix fbytes blank decode encode scale t_load t_rescale cfg chain) m = Some (Some (encode (decode b))).
Proof.
  intros pix fbytes blank decode encode scale t_load t_rescale cfg H1 H2 Hok.
  apply efftable_eqb_eq in H1. apply efftable_eqb_eq in H2. subst. apply chain_keeps_file_levels. exact Hok.
Qed.

Theorem lazy_resave_keeps_bytes_gen : forall c canon, sf_ok c canon = true ->
  forall t_load t_rescale cfg blank scale,
  efftable_eqb t_load ideal_load = true -> efftable_eqb t_rescale ideal_rescale = true -> chain_ok cfg = true ->
  forall chain m st p, nth_error chain m = Some st -> f_src st = Some (enc_frame c p) -> Forall bytes p ->
  nth_error (save_chain frame_pixels frame_pixels blank (dec_frame c) (enc_frame c) scale t_load t_rescale cfg chain) m
  = Some (Some (enc_frame c p)).
Proof.
  intros c canon Hsf t_load t_rescale cfg blank scale H1 H2 Hok.
  apply efftable_eqb_eq in H1. apply efftable_eqb_eq in H2. subst. apply (lazy_resave_keeps_bytes c canon Hsf). exact Hok.
Qed.

(** Every table that passes [like_a_modelled_op] is one of the six operations. *)
Theorem modelled_op_cases : forall pix fbytes t, like_a_modelled_op t = true ->
  forall blank decode newd scaled modf (st : fstate pix fbytes),
    let r := run_table pix fbytes t blank decode newd scaled modf st in
    r = load pix fbytes blank decode st \/ r = clear pix fbytes st \/ r = set_new pix fbytes newd st
    \/ r = rescale pix fbytes scaled st \/ r = setitem pix fbytes blank decode modf st \/ r = detach pix fbytes st.
Proof.
  intros pix fbytes t H blank decode newd scaled modf st r. unfold like_a_modelled_op in H.
  repeat (apply orb_true_iff in H; destruct H as [H | H]); apply efftable_eqb_eq in H; subst t; subst r.
  - left. apply run_ideal_load.
  - right; left. apply run_ideal_clear.
  - right; right; left. apply run_ideal_new.
  - right; right; right; left. apply run_ideal_rescale.
  - right; right; right; right; left. apply run_ideal_setitem.
  - right; right; right; right; right. apply run_ideal_detach.
Qed.
