(** Cross-lump closure of save() (model in BspSaveOrder.v): if every reference goes to the writer's own lump or to a lump
    rebuilt later, then after all writers ran every object of every list has exactly one record, at its own index, and every
    index stored in any record resolves - in the FINAL list of the target lump - to the object referred to. *)
From Coq Require Import NArith List Bool PeanoNat Lia.
From SV Require Import Bin.FindInsert Bin.FindInsertProofs Fmt.BspWorklist Fmt.BspWorklistProofs Fmt.BspSaveOrder.
Import ListNotations.
Local Open Scope nat_scope.

Definition tinv (T : tables) : Prop := forall M, wl_inv (T M).
Definition text (T T' : tables) : Prop := forall M, exists e, items (T' M) = items (T M) ++ e.

Lemma text_refl : forall T, text T T.
Proof. intros T M. exists []. rewrite app_nil_r. reflexivity. Qed.
Lemma text_trans : forall A B C, text A B -> text B C -> text A C.
Proof. intros A B C H1 H2 M. destruct (H1 M) as [e1 E1]. destruct (H2 M) as [e2 E2]. exists (e1 ++ e2). rewrite E2, E1, app_assoc. reflexivity. Qed.

Lemma resolves_ext : forall T T' rs idx, text T T' -> resolves T rs idx -> resolves T' rs idx.
Proof.
  intros T T' rs idx Hx H. unfold resolves in *. induction H as [|r mi rs' idx' [H1 H2] _ IH]; constructor; [|exact IH].
  split; [exact H1|]. destruct (Hx (fst r)) as [e E]. rewrite E. apply nth_error_ext. exact H2.
Qed.

Lemma tupd_same : forall T M s, tupd T M s M = s.
Proof. intros. unfold tupd. rewrite Nat.eqb_refl. reflexivity. Qed.
Lemma tupd_other : forall T M s x, x <> M -> tupd T M s x = T x.
Proof. intros T M s x H. unfold tupd. destruct (Nat.eqb_spec x M); [contradiction|reflexivity]. Qed.

Lemma add_refs_spec : forall rs T T' idx, tinv T -> add_refs T rs = (T', idx) ->
  tinv T' /\ text T T' /\ resolves T' rs idx /\ (forall M, (forall k, ~ In (M, k) rs) -> T' M = T M).
Proof.
  induction rs as [|[M k] r IH]; intros T T' idx Ht H; cbn [add_refs] in H.
  - injection H as <- <-. split; [exact Ht|]. split; [apply text_refl|]. split; [constructor|]. reflexivity.
  - destruct (fi_find (T M) k) as [s' i] eqn:Ef. destruct (add_refs (tupd T M s') r) as [T2 is] eqn:Ea. injection H as <- <-.
    destruct (fi_find_step _ _ _ _ (Ht M) Ef) as (Hs' & Hn & e & He & _).
    assert (Ht1 : tinv (tupd T M s')).
    { intros x. unfold tupd. destruct (Nat.eqb x M); [exact Hs'|apply Ht]. }
    assert (Hx1 : text T (tupd T M s')).
    { intros x. unfold tupd. destruct (Nat.eqb_spec x M) as [->|]; [exists e; exact He|exists []; rewrite app_nil_r; reflexivity]. }
    destruct (IH _ _ _ Ht1 Ea) as (Ht2 & Hx2 & Hr2 & Hf2).
    split; [exact Ht2|]. split; [eapply text_trans; eassumption|]. split.
    + constructor; [|exact Hr2]. cbn [fst snd]. split; [reflexivity|]. destruct (Hx2 M) as [e2 E2]. rewrite E2, tupd_same. apply nth_error_ext. exact Hn.
    + intros M' Hno. rewrite Hf2; [apply tupd_other|].
      * intros ->. apply (Hno k). left. reflexivity.
      * intros k' Hin. apply (Hno k'). right. exact Hin.
Qed.

Section Loop.
Variable refs : nat -> N -> list ref.
Variable L : nat.
Variable T0 : tables.

Definition rec_ok (T : tables) (r : mrecord) : Prop := resolves T (refs L (fst r)) (snd r).

Record minv (T : tables) (pos : nat) (out : list mrecord) : Prop := {
  mi_t : tinv T;
  mi_out : map fst out = firstn pos (items (T L));
  mi_pos : pos <= List.length (items (T L));
  mi_refs : Forall (rec_ok T) out;
  mi_ext : text T0 T;
  mi_frame : forall M, (forall o k, ~ In (M, k) (refs L o)) -> T M = T0 M }.

Lemma mw_step : forall T pos out o T' idx, minv T pos out -> nth_error (items (T L)) pos = Some o ->
  add_refs T (refs L o) = (T', idx) -> minv T' (S pos) (out ++ [(o, idx)]).
Proof.
  intros T pos out o T' idx [Ht Ho Hp Hr Hx Hf] Hn E.
  destruct (add_refs_spec _ _ _ _ Ht E) as (Ht' & Hx' & Hr' & Hf').
  assert (Hlt : pos < List.length (items (T L))) by (apply nth_error_Some; rewrite Hn; discriminate).
  destruct (Hx' L) as [e He].
  constructor.
  - exact Ht'.
  - unfold mrecord in *. rewrite map_app. cbn [map fst]. change (@map (N * list (nat * nat)) N (@fst N (list (nat * nat))) out) with (map fst out).
    rewrite Ho, He. rewrite (firstn_snoc (items (T L) ++ e) pos o) by (apply nth_error_ext; exact Hn).
    f_equal. rewrite firstn_app. replace (pos - List.length (items (T L))) with 0 by lia. cbn [firstn]. rewrite app_nil_r. reflexivity.
  - rewrite He, app_length. lia.
  - apply Forall_app. split.
    + eapply Forall_impl; [|exact Hr]. intros r. apply resolves_ext. exact Hx'.
    + constructor; [|constructor]. exact Hr'.
  - eapply text_trans; eassumption.
  - intros M Hno. rewrite Hf'; [apply Hf; exact Hno|]. intros k. apply Hno.
Qed.

Lemma mw_loop_inv : forall fuel T pos out T' out', minv T pos out -> mw_loop refs fuel L T pos out = (T', out', true) ->
  minv T' (List.length (items (T' L))) out'.
Proof.
  induction fuel as [|f IH]; intros T pos out T' out' Hinv H; cbn [mw_loop] in H; [discriminate|].
  destruct (nth_error (items (T L)) pos) as [o|] eqn:En.
  - destruct (add_refs T (refs L o)) as [T1 idx] eqn:E. eapply IH; [|exact H]. eapply mw_step; eassumption.
  - injection H as <- <-. apply nth_error_None in En. destruct Hinv as [Ht Ho Hp Hr Hx Hf].
    assert (pos = List.length (items (T L))) as -> by lia. constructor; assumption.
Qed.
End Loop.

Lemma minv_init : forall refs L T, tinv T -> minv refs L T T 0 [].
Proof. intros refs L T Ht. constructor; [exact Ht|reflexivity|lia|constructor|apply text_refl|reflexivity]. Qed.

(** The writer of one lump. *)
Lemma mw_loop_spec : forall refs fuel L T T' out, tinv T -> mw_loop refs fuel L T 0 [] = (T', out, true) ->
  tinv T' /\ text T T' /\ map fst out = items (T' L) /\ Forall (rec_ok refs L T') out /\
  (forall M, (forall o k, ~ In (M, k) (refs L o)) -> T' M = T M).
Proof.
  intros refs fuel L T T' out Ht H. destruct (mw_loop_inv refs L T fuel T 0 [] T' out (minv_init refs L T Ht) H) as [A B _ D E F].
  rewrite firstn_all in B. split; [exact A|]. split; [exact E|]. split; [exact B|]. split; [exact D|exact F].
Qed.

Theorem msave_closure : forall refs fuel order T R T' R', NoDup order -> forward refs order -> tinv T ->
  msave refs fuel order T R = (T', R', true) ->
  tinv T' /\ text T T' /\ (forall M, ~ In M order -> T' M = T M /\ R' M = R M) /\
  forall L, In L order -> map fst (R' L) = items (T' L) /\ Forall (rec_ok refs L T') (R' L).
Proof.
  intros refs fuel. induction order as [|L r IH]; intros T R T' R' Hnd Hfw Ht H; cbn [msave] in H.
  - injection H as <- <-. split; [exact Ht|]. split; [apply text_refl|]. split; [intros; split; reflexivity|intros L []].
  - destruct (mw_loop refs fuel L T 0 []) as [[T1 out] ok] eqn:El. destruct ok; [|discriminate].
    destruct (mw_loop_spec _ _ _ _ _ _ Ht El) as (Ht1 & Hx1 & Hal & Hrs & Hf1).
    inversion Hnd as [|? ? HL Hr]; subst. cbn [forward] in Hfw. destruct Hfw as [HfL Hfr].
    destruct (IH _ _ _ _ Hr Hfr Ht1 H) as (Ht' & Hx' & Hfr' & Hrest).
    split; [exact Ht'|]. split; [eapply text_trans; eassumption|]. split.
    + intros M Hno. cbn [In] in Hno. destruct (Hfr' M) as [E1 E2]; [intro; apply Hno; right; assumption|].
      split.
      * rewrite E1. apply Hf1. intros o k Hin. destruct (HfL o M k Hin) as [->|Hin']; apply Hno; [left; reflexivity|right; exact Hin'].
      * rewrite E2. unfold rupd. destruct (Nat.eqb_spec M L) as [->|]; [exfalso; apply Hno; left; reflexivity|reflexivity].
    + intros L' [<-|Hin].
      * destruct (Hfr' L HL) as [E1 E2]. rewrite E2, E1. unfold rupd. rewrite Nat.eqb_refl. split; [exact Hal|].
        eapply Forall_impl; [|exact Hrs]. intros rc Hrc. unfold rec_ok in *. eapply resolves_ext; [|exact Hrc].
        intros M. destruct (Hx' M) as [e E]. exists e. exact E.
      * apply Hrest. exact Hin.
Qed.

(** A reference to a lump that was rebuilt EARLIER: the object is appended to a list whose records are already written.
    Lump 0 (no references) is written first, then lump 1 whose object 5 refers to the unlisted object 9 of lump 0. *)
Definition refs_back (L : nat) (o : N) : list ref := if Nat.eqb L 1 then [(0, 9%N)] else [].
Theorem msave_backward_refuted :
  let T0 : tables := fun L => if Nat.eqb L 1 then fi_init [5%N] else fi_init [] in
  let '(T', R', ok) := msave refs_back 5 [0; 1] T0 (fun _ => []) in
  ok = true /\ items (T' 0) = [9%N] /\ R' 0 = [] /\ R' 1 = [(5%N, [(0, 0)])].
Proof. vm_compute. repeat split. Qed.

(** * From the rebuild order read from the source to [forward] *)
(** Lumps are identified with their positions in LUMP_REBUILD_ORDER.  [respects]: every reference of the (arbitrary)
    reference structure is either inside the writer's own lump or along one of the (writer, owner) edges that the
    translator collected from the writers. *)
Definition respects (refs : nat -> N -> list ref) (order : list String.string) (edges : list (String.string * String.string)) : Prop :=
  forall i o j k, In (j, k) (refs i o) ->
    j = i \/ exists a b, In (a, b) edges /\ pos_of a order = Some i /\ pos_of b order = Some j.

Lemma pos_of_lt : forall x order i, pos_of x order = Some i -> i < List.length order.
Proof.
  induction order as [|y r IH]; intros i H; cbn [pos_of] in H; [discriminate|].
  destruct (String.eqb x y).
  - injection H as <-. cbn [List.length]. lia.
  - destruct (pos_of x r) as [p|]; [|discriminate]. cbn in H. injection H as <-. cbn [List.length]. specialize (IH p eq_refl). lia.
Qed.

Lemma forward_seq : forall refs len a, (forall i o j k, In (j, k) (refs i o) -> j = i \/ (i < j /\ j < a + len)) -> forward refs (seq a len).
Proof.
  intros refs. induction len as [|n IH]; intros a H; cbn [seq forward]; [exact I|]. split.
  - intros o M k Hin. destruct (H a o M k Hin) as [->|[H1 H2]]; [left; reflexivity|]. right. apply in_seq. lia.
  - apply IH. intros i o j k Hin. destruct (H i o j k Hin) as [->|[H1 H2]]; [left; reflexivity|right; lia].
Qed.

Theorem order_ok_forward : forall refs order edges, order_ok order edges = true -> respects refs order edges ->
  forward refs (seq 0 (List.length order)).
Proof.
  intros refs order edges Hok Hres. apply forward_seq. intros i o j k Hin.
  destruct (Hres i o j k Hin) as [->|(a & b & He & Ha & Hb)]; [left; reflexivity|]. right.
  destruct (order_ok_sound _ _ Hok a b He) as (i' & j' & Hi & Hj & Hlt). rewrite Ha in Hi. rewrite Hb in Hj.
  injection Hi as <-. injection Hj as <-. split; [exact Hlt|]. cbn [plus]. eapply pos_of_lt. exact Hb.
Qed.

(** The composed statement: the rebuild order and append edges read from the source pass [order_ok]; then for ANY
    reference structure that stays within those edges and any initial lists, after save() has run every writer
    (positions 0 .. n-1), every list entry of every lump has exactly one record at its own index and every stored index
    resolves in the final list of its target lump to the object referred to. *)
Theorem save_cross_reference_closure : forall refs order edges fuel T R T' R',
  order_ok order edges = true -> respects refs order edges -> tinv T ->
  msave refs fuel (seq 0 (List.length order)) T R = (T', R', true) ->
  forall L, L < List.length order -> map fst (R' L) = items (T' L) /\ Forall (rec_ok refs L T') (R' L).
Proof.
  intros refs order edges fuel T R T' R' Hok Hres Ht H L HL.
  destruct (msave_closure refs fuel _ T R T' R' (seq_NoDup _ _) (order_ok_forward _ _ _ Hok Hres) Ht H) as (_ & _ & _ & Hall).
  apply Hall. apply in_seq. lia.
Qed.
