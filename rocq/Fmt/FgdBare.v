(* C16, round 6: which keyvalue defaults KVDef.export writes WITHOUT quotes, and what the reader's Tokenizer makes of such text.

   Fmt/FgdLine.v works on tokens: a written default is `TStr (default_written k)`.  For a quoted default that is the long-string /
   escape model; for a default written bare it is a PREMISE: the characters must be lexed as ONE bare word equal to the string.
   That premise is stated here ([one_token]) and discharged for the test KVDef.export applies ([bare_test], read off the source by
   translate/c16_fgd.py as [gen_bare_test]): a character-set test is fine when every character of the set may start / continue a
   bare word; `try: int(default_str)` is not (explicit plus sign, surrounding blanks), refuted with a computed witness.
   Characters are code points (N); the int() model covers ASCII only (unicode digits are bare words that read back as themselves). *)
From Coq Require Import List NArith Bool.
Import ListNotations. Open Scope N_scope. Open Scope bool_scope.

Definition bstr := list N.
Definition memN (c : N) (l : list N) : bool := existsb (N.eqb c) l.
Fixpoint bstr_eqb (a b : bstr) : bool :=
  match a, b with [], [] => true | x :: a', y :: b' => (x =? y) && bstr_eqb a' b' | _, _ => false end.

(* tokenizer.BARE_DISALLOWED: both quote characters, { } ; , = [ ] ( ), CR, LF, TAB and the blank *)
Definition bare_disallowed : list N := [34; 39; 123; 125; 59; 44; 61; 91; 93; 40; 41; 13; 10; 9; 32].
(* inside a bare word ':' (colon_operator) and '+' (plus_operator) end it as well; at the start of a token '+' and ':' are operators,
   '#' opens a directive and '/' a comment *)
Definition word_inner (c : N) : bool := negb (memN c bare_disallowed) && negb (c =? 58) && negb (c =? 43).
Definition word_start (c : N) : bool := word_inner c && negb (c =? 35) && negb (c =? 47).

Fixpoint take_word (s : bstr) : bstr * bstr :=
  match s with
  | [] => ([], [])
  | c :: r => if word_inner c then (let (w, t) := take_word r in (c :: w, t)) else ([], s)
  end.
Fixpoint skip_blank (s : bstr) : bstr :=
  match s with c :: r => if (c =? 32) || (c =? 9) then skip_blank r else s | [] => [] end.
(* the token at the start of the text, when it is a bare word: the word and the text left after it *)
Definition lex_word (s : bstr) : option (bstr * bstr) :=
  match skip_blank s with
  | c :: r => if word_start c then Some (take_word (c :: r)) else None
  | [] => None
  end.
(* PREMISE of a bare default: the reader sees one STRING token with exactly these characters and nothing is left *)
Definition one_token (s : bstr) : bool :=
  match lex_word s with Some (w, []) => bstr_eqb w s | _ => false end.

(* the test KVDef.export applies before it writes ' : ' + default_str *)
Inductive bare_test := BChars (cs : list N) | BIntCall.

Definition is_digit (c : N) : bool := (48 <=? c) && (c <=? 57).
Definition is_ws (c : N) : bool := memN c [32; 9; 10; 13; 11; 12].
Fixpoint lstrip_ws (s : bstr) : bstr := match s with c :: r => if is_ws c then lstrip_ws r else s | [] => [] end.
Definition strip_ws (s : bstr) : bstr := rev (lstrip_ws (rev (lstrip_ws s))).
(* digits, single '_' only between two digits *)
Fixpoint int_body (s : bstr) (prev_digit : bool) : bool :=
  match s with
  | [] => prev_digit
  | c :: r => if is_digit c then int_body r true else if c =? 95 then prev_digit && int_body r false else false
  end.
(* Python's int(s) (base 10, ASCII): blanks around, one optional sign, digits with '_' grouping *)
Definition py_int_ok (s : bstr) : bool :=
  let t := strip_ws s in
  let t := match t with c :: r => if (c =? 43) || (c =? 45) then r else t | [] => [] end in
  match t with [] => false | _ => int_body t false end.

Definition writes_bare (t : bare_test) (s : bstr) : bool :=
  match t with
  | BChars cs => match s with [] => false | _ => forallb (fun c => memN c cs) s end
  | BIntCall => py_int_ok s
  end.

(* the decision procedure: a character-set test all of whose characters may start a bare word *)
Definition bare_test_ok (t : bare_test) : bool :=
  match t with BChars cs => forallb word_start cs | BIntCall => false end.

Lemma bstr_eqb_refl : forall s, bstr_eqb s s = true.
Proof. induction s as [|c s IH]; simpl; [reflexivity|]. rewrite N.eqb_refl, IH. reflexivity. Qed.

Lemma word_start_inner : forall c, word_start c = true -> word_inner c = true.
Proof. intros c H. unfold word_start in H. apply andb_prop in H. destruct H as [H _]. apply andb_prop in H. apply H. Qed.

Lemma word_inner_not_blank : forall c, word_inner c = true -> (c =? 32) || (c =? 9) = false.
Proof.
  intros c H.
  destruct (c =? 32) eqn:E1; [apply N.eqb_eq in E1; subst; vm_compute in H; discriminate H|].
  destruct (c =? 9) eqn:E2; [apply N.eqb_eq in E2; subst; vm_compute in H; discriminate H|].
  reflexivity.
Qed.

Lemma take_word_all : forall s, forallb word_inner s = true -> take_word s = (s, []).
Proof.
  induction s as [|c s IH]; simpl; intros H; [reflexivity|].
  apply andb_prop in H. destruct H as [Hc Hs]. rewrite Hc, (IH Hs). reflexivity.
Qed.

Lemma mem_word_start : forall cs c, forallb word_start cs = true -> memN c cs = true -> word_start c = true.
Proof.
  induction cs as [|a cs IH]; simpl; intros c H M; [discriminate M|].
  apply andb_prop in H. destruct H as [Ha Hcs].
  unfold memN in M. simpl in M. apply orb_prop in M. destruct M as [M|M].
  - apply N.eqb_eq in M. subst. exact Ha.
  - apply IH; assumption.
Qed.

Lemma all_mem_inner : forall cs s, forallb word_start cs = true -> forallb (fun c => memN c cs) s = true -> forallb word_inner s = true.
Proof.
  intros cs. induction s as [|c s IH]; simpl; intros H A; [reflexivity|].
  apply andb_prop in A. destruct A as [Ac As].
  rewrite (word_start_inner _ (mem_word_start _ _ H Ac)), (IH H As). reflexivity.
Qed.

(* every default that a passing test lets through bare is read back as one token equal to it *)
Theorem bare_written_is_one_token :
  forall t s, bare_test_ok t = true -> writes_bare t s = true -> one_token s = true.
Proof.
  intros [cs|] s Hok Hw; simpl in Hok; [|discriminate Hok].
  destruct s as [|c r]; simpl in Hw; [discriminate Hw|].
  pose proof Hw as Hw0. apply andb_prop in Hw. destruct Hw as [Hc Hr].
  pose proof (mem_word_start _ _ Hok Hc) as Hs.
  pose proof (word_start_inner _ Hs) as Hi.
  assert (Hall : forallb word_inner (c :: r) = true) by (apply (all_mem_inner cs); [exact Hok|exact Hw0]).
  unfold one_token, lex_word. simpl skip_blank. rewrite (word_inner_not_blank _ Hi). rewrite Hs.
  rewrite (take_word_all _ Hall). apply bstr_eqb_refl.
Qed.

(* a computed witness: the first text of at most three characters over {'+', '-', blank, '_', '7'} that the test writes bare and the
   reader does not see as that one token *)
Definition witness_alphabet : list N := [43; 45; 32; 95; 55].
Fixpoint texts_of_length (n : nat) : list bstr :=
  match n with O => [[]] | S k => flat_map (fun s => map (fun c => c :: s) witness_alphabet) (texts_of_length k) end.
Definition witness_texts : list bstr := texts_of_length 1 ++ texts_of_length 2 ++ texts_of_length 3.
Definition bare_witness (t : bare_test) : option bstr :=
  find (fun s => writes_bare t s && negb (one_token s)) witness_texts.

Definition digits_minus : list N := [48; 49; 50; 51; 52; 53; 54; 55; 56; 57; 45].
(* int() as the test is refuted (and the digits-and-minus test has no such witness) *)
Definition int_call_breaks : bool :=
  match bare_witness BIntCall with Some _ => true | None => false end
  && match bare_witness (BChars digits_minus) with Some _ => false | None => true end.
