(** C16 — token-level model of the FGD text lines that carry the fields of a definition:
      keyvalue lines      name[tags](type) readonly report : "display" : default : "description" [= [ items ]]
      spawnflag items     value : "name" : 0/1 [tags]          choices items    value : "name" [tags]
      input/output lines  input name[tags](type) : "description"
      resource blocks     @resources [ type "file" [tags] ... ]
    written by KVDef.export / IODef.export / EntityDef.export and read by _read_colon_list, read_tags,
    _parse_colon_array, _parse_flags, _parse_choices, KVDef._parse, IODef._parse and the @resources loop of
    EntityDef.parse (srctools/fgd.py).

    The model works on the token stream of srctools.tokenizer (STRING, PAREN_ARGS, ':', '=', '+', ',', '[', ']',
    NEWLINE); the characters of a quoted string and its '+' continuation lines are the subject of Fmt/LongString.v.
    A long string is written as one or more sections joined by '+' NEWLINE; the split is an input of the writer model
    here (the value is the concatenation of the sections), so the theorems hold for every split.

    Value types, tags and numbers are abstract: [vt_lookup] is the chain strip / leading '*' / casefold /
    VALUE_TYPE_LOOKUP of KVDef._parse, [dec]/[undec] are str(int)/int(str).  The decisive branches of the writers are
    fields of [line_cfg], read from the source by translate/c16_fgd.py. *)
From Coq Require Import List NArith Arith Bool.
Import ListNotations.
Open Scope N_scope.

Definition str := list N.
Inductive tok := TStr (s : str) | TParen (s : str) | TColon | TEq | TPlus | TNl | TBrOpen | TBrClose | TComma | TOther.

Fixpoint str_eqb (a b : str) : bool :=
  match a, b with [], [] => true | x :: a', y :: b' => (x =? y) && str_eqb a' b' | _, _ => false end.
Definition nil_b {T} (l : list T) : bool := match l with [] => true | _ => false end.
(** ASCII lower case (str.casefold on the keywords) *)
Definition lower (s : str) : str := map (fun c => if (65 <=? c) && (c <=? 90) then c + 32 else c) s.
Definition KW_READONLY : str := [114; 101; 97; 100; 111; 110; 108; 121].
Definition KW_REPORT : str := [114; 101; 112; 111; 114; 116].
Definition S0 : str := [48].
Definition S1 : str := [49].
Definition blankc (c : N) : bool := (c =? 32) || (c =? 9) || (c =? 10) || (c =? 13) || (c =? 11) || (c =? 12).
Fixpoint lstrip (s : str) : str := match s with c :: r => if blankc c then lstrip r else s | [] => [] end.
Definition strip (s : str) : str := rev (lstrip (rev (lstrip s))).
Fixpoint prefix (p s : str) : option str :=
  match p, s with
  | [], _ => Some s
  | x :: p', y :: s' => if x =? y then prefix p' s' else None
  | _, [] => None
  end.

(** * _read_colon_list (without @snippet) *)
(** [want]: a '+' was read, the next token other than NEWLINE must be a string (tok.expect(STRING)).
    None = the parser raises.  Returns the strings and the tokens that were not consumed. *)
Fixpoint snoc_last (l : list str) (v : str) : list str :=
  match l with [] => [] | [x] => [x ++ v] | x :: r => x :: snoc_last r v end.
Fixpoint rcl (strings : list str) (ready want : bool) (ts : list tok) : option (list str * list tok) :=
  match ts with
  | [] => None
  | t :: r =>
      if want then match t with
                   | TNl => rcl strings ready true r
                   | TStr v => rcl (snoc_last strings v) ready false r
                   | _ => None
                   end
      else match t with
           | TStr v => if ready then rcl (strings ++ [v]) false false r else None
           | TColon => rcl (if ready then strings ++ [[]] else strings) true false r
           | TPlus => if ready || nil_b strings then None else rcl strings ready true r
           | TNl => if ready then rcl strings ready false r
                    else match r with
                         | TPlus :: r' => if nil_b strings then None else rcl strings ready true r'
                         | _ => Some (strings, ts)
                         end
           | _ => if ready then None else Some (strings, ts)
           end
  end.
Definition read_colon_list (had_colon : bool) (ts : list tok) : option (list str * list tok) := rcl [] had_colon false ts.

(** a long string as written by _write_longstring: sections joined by ' +' NEWLINE *)
Fixpoint str_toks (secs : list str) : list tok :=
  match secs with
  | [] => []
  | [x] => [TStr x]
  | x :: r => TStr x :: TPlus :: TNl :: str_toks r
  end.

(** * Tags: `[A, !B, +C]`.  '+' is an operator token, so `+C` arrives as PLUS, STRING. *)
Definition PLUSC : N := 43.
Definition tag_toks1 (t : str) : list tok :=
  match t with c :: r => if c =? PLUSC then [TPlus; TStr r] else [TStr t] | [] => [TStr t] end.
Fixpoint tag_list_toks (tags : list str) : list tok :=
  match tags with
  | [] => []
  | [t] => tag_toks1 t
  | t :: r => tag_toks1 t ++ TComma :: tag_list_toks r
  end.
(** the writers' `[...]`, written only for a non-empty tag set *)
Definition tags_toks (tags : list str) : list tok :=
  match tags with [] => [] | _ => TBrOpen :: tag_list_toks tags ++ [TBrClose] end.

Definition LBR : N := 91.
Definition RBR : N := 93.
Fixpoint skip_nl (ts : list tok) : list tok := match ts with TNl :: r => skip_nl r | _ => ts end.

(** the decisive branches of the writers (translate/c16_fgd.py) *)
Record line_cfg := {
  colons_before_desc_without_default : nat;  (* ':' tokens KVDef.export writes before a description when there is no default: 2 *)
  bool_default_filled : bool;                (* an empty BOOL default is written as 0 *)
  res_block_if_defined : bool                (* @resources written when `resources != ()` (true) / only when non-empty (false) *)
}.

Section Lines.
Variable tag_norm : str -> str.          (* value.casefold() ... .upper() of read_tags / validate_tags *)
Variable tags_valid : list str -> bool.  (* validate_tags does not raise *)

(** read_tags, after the '[' *)
Fixpoint read_tags_aux (acc : list str) (plus : bool) (ts : list tok) : option (list str * list tok) :=
  match ts with
  | [] => None
  | t :: r =>
      match t with
      | TStr v => read_tags_aux (acc ++ [tag_norm (if plus then PLUSC :: v else v)]) false r
      | TPlus => if plus then None else read_tags_aux acc true r
      | TBrClose => if plus then None else if tags_valid acc then Some (acc, r) else None
      | TComma => read_tags_aux acc plus r
      | _ => None
      end
  end.
Definition read_tags (ts : list tok) : option (list str * list tok) := read_tags_aux [] false ts.
(** `end_token = tok(); if BRACK_OPEN: read_tags else: push back` *)
Definition opt_tags (ts : list tok) : option (list str * list tok) :=
  match ts with TBrOpen :: r => read_tags r | _ => Some ([], ts) end.

(** * Value types and numbers *)
Variable vt : Type.
Variable vt_text : vt -> str.                        (* ValueTypes.value *)
Variable vt_lookup : str -> option (bool * vt).      (* strip, leading '*' (= report), casefold, VALUE_TYPE_LOOKUP *)
Variables vt_is_bool vt_is_flags vt_is_choices : vt -> bool.
Variable io_text : vt -> str.                        (* what IODef.export writes: 'bool' / VALUE_TO_IO_DECAY[type].value *)
Variable io_lookup : str -> option vt.               (* 'ehandle' special case, strip, casefold, VALUE_TYPE_LOOKUP *)
Variable dec : N -> str.                             (* str(int) *)
Variable undec : str -> option N.                    (* int(str); None = ValueError *)
Variable pow2 : N -> bool.                           (* math.log2(n) is integral *)
Variable cfg : line_cfg.

(** * Keyvalue lines *)
Inductive vlist :=
  | NoList
  | Flags (items : list (N * list str * bool * list str))     (* value, name sections, default, tags *)
  | Choices (items : list (str * list str * list str)).      (* value, name sections, tags *)
(** display name and description as lists of sections; the field value is their concatenation *)
Record kvline := mk_kvl { l_name : str; l_tags : list str; l_type : vt; l_ro : bool; l_report : bool;
                          l_disp : list str; l_default : str; l_desc : list str; l_list : vlist }.

(** `f'[{index}] {name}' if label_spawnflags else name` *)
Definition label_of (n : N) : str := LBR :: dec n ++ [RBR].
Definition labelled (label : bool) (n : N) (name : list str) : list str :=
  if label then match name with [] => [label_of n ++ [32]] | x :: r => (label_of n ++ 32 :: x) :: r end else name.
Definition flag_item_toks (label custom : bool) (it : N * list str * bool * list str) : list tok :=
  let '(v, name, d, tags) := it in
  TStr (dec v) :: TColon :: str_toks (labelled label v name) ++ TColon :: TStr (if d then S1 else S0)
  :: (if custom then tags_toks tags else []) ++ [TNl].
Definition choice_item_toks (custom : bool) (it : str * list str * list str) : list tok :=
  let '(v, name, tags) := it in
  TStr v :: TColon :: str_toks name ++ (if custom then tags_toks tags else []) ++ [TNl].

Definition default_written (k : kvline) : str :=
  if nil_b (l_default k) && vt_is_bool (l_type k) && bool_default_filled cfg then S0 else l_default k.

Definition kv_toks (label custom : bool) (k : kvline) : list tok :=
  let desc := concat (l_desc k) in
  TStr (l_name k) :: (if custom then tags_toks (l_tags k) else [])
  ++ TParen (vt_text (l_type k)) :: (if l_ro k then [TStr KW_READONLY] else []) ++ (if l_report k then [TStr KW_REPORT] else [])
  ++ (if vt_is_flags (l_type k) then [] else TColon :: str_toks (l_disp k))
  ++ (if nil_b (default_written k)
      then (if nil_b desc then [] else repeat TColon (colons_before_desc_without_default cfg))
      else TColon :: TStr (default_written k) :: (if nil_b desc then [] else [TColon]))
  ++ (if nil_b desc then [] else str_toks (l_desc k))
  ++ match l_list k with
     | NoList => []
     | Flags items => TEq :: TNl :: TBrOpen :: TNl :: concat (map (flag_item_toks label custom) items) ++ [TBrClose]
     | Choices items => TEq :: TNl :: TBrOpen :: TNl :: concat (map (choice_item_toks custom) items) ++ [TBrClose]
     end
  ++ [TNl].

(** _parse_colon_array (without @snippet), after the '='; [item] turns (first value, strings, tags) into an item *)
Fixpoint parse_array {T} (fuel : nat) (item : str -> list str -> list str -> option T) (acc : list T) (ts : list tok)
  : option (list T * list tok) :=
  match fuel with
  | O => None
  | S f =>
      match skip_nl ts with
      | TBrClose :: r => Some (acc, r)
      | TStr first :: r =>
          match read_colon_list false r with
          | Some (vals, r1) =>
              match opt_tags r1 with
              | Some (tags, r2) => match item first vals tags with Some x => parse_array f item (acc ++ [x]) r2 | None => None end
              | None => None
              end
          | None => None
          end
      | _ => None
      end
  end.
Definition colon_array {T} (item : str -> list str -> list str -> option T) (ts : list tok) : option (list T * list tok) :=
  match skip_nl ts with TBrOpen :: r => parse_array (S (length r)) item [] r | _ => None end.

(** _parse_flags: an `[n]` label generated by the writer is removed (with the blanks after it) *)
Definition unlabel (n : N) (name : str) : str :=
  match prefix (label_of n) name with Some rest => lstrip rest | None => name end.
Definition parse_flag (first : str) (vals tags : list str) : option (N * list str * bool * list str) :=
  match undec first with
  | Some n =>
      if pow2 n then
        match vals with
        | [name] => Some (n, [unlabel n name], true, tags)
        | [name; d] => Some (n, [unlabel n name], str_eqb (strip d) S1, tags)
        | _ => None
        end
      else None
  | None => None
  end.
Definition parse_choice (first : str) (vals tags : list str) : option (str * list str * list str) :=
  match vals with [name] => Some (first, [name], tags) | _ => None end.

(** KVDef._parse, after the name token.  The result carries display name and description as single sections. *)
Definition yes_no (v : vt) (d : str) : str :=
  if vt_is_bool v then (if str_eqb (lower d) [121; 101; 115] then S1 else if str_eqb (lower d) [110; 111] then S0 else d) else d.
(** the part of KVDef._parse after the type and the readonly / report words *)
Definition kv_rest (name : str) (tags : list str) (ty : vt) (ro rep : bool) (ts4 : list tok) : option (kvline * list tok) :=
  (* kv_vals and has_equal *)
  let vals_eq : option (list str * tok * list tok) :=
    match ts4 with
    | TColon :: r => match read_colon_list true r with Some (v, t :: r') => Some (v, t, r') | _ => None end
    | TEq :: r => if vt_is_flags ty then Some ([], TEq, r)
                  else match read_colon_list false r with Some (v, t :: r') => Some (v, t, r') | _ => None end
    | TNl :: r => Some ([], TNl, r)
    | _ => None
    end in
  match vals_eq with None => None | Some (vals, he, ts5) =>
  let fields : option (str * str * str) :=
    match vals with
    | [a; b; c] => Some (a, b, c) | [a; b] => Some (a, b, []) | [a] => Some (a, [], []) | [] => Some (name, [], [])
    | _ => None
    end in
  match fields with None => None | Some (disp, dflt, desc) =>
  let is_eq := match he with TEq => true | _ => false end in
  let mk l := mk_kvl name tags ty ro rep [disp] (yes_no ty dflt) [desc] l in
  if vt_is_choices ty then
    (if is_eq then match colon_array parse_choice ts5 with Some (items, r) => Some (mk (Choices items), r) | None => None end else None)
  else if vt_is_flags ty then
    (if is_eq then match colon_array parse_flag ts5 with Some (items, r) => Some (mk (Flags items), r) | None => None end else None)
  else if is_eq then None else Some (mk NoList, ts5)
  end end.
Definition kv_parse (name : str) (ts : list tok) : option (kvline * list tok) :=
  match opt_tags ts with None => None | Some (tags, ts1) =>
  match ts1 with
  | TParen raw :: ts2 =>
      match vt_lookup raw with None => None | Some (star, ty) =>
      let '(ro, ts3) := match ts2 with TStr s :: r => if str_eqb (lower s) KW_READONLY then (true, r) else (false, ts2) | _ => (false, ts2) end in
      let '(rep, ts4) := match ts3 with TStr s :: r => if str_eqb (lower s) KW_REPORT then (true, r) else (false, ts3) | _ => (false, ts3) end in
      kv_rest name tags ty ro (star || rep) ts4
      end
  | _ => None
  end end.

(** * Input / output lines (after the `input` / `output` keyword) *)
Record ioline := mk_iol { o_name : str; o_tags : list str; o_type : vt; o_desc : list str }.
Definition io_toks (custom : bool) (o : ioline) : list tok :=
  TStr (o_name o) :: (if custom then tags_toks (o_tags o) else []) ++ TParen (io_text (o_type o))
  :: (if nil_b (concat (o_desc o)) then [] else TColon :: str_toks (o_desc o)) ++ [TNl].
Definition io_parse (ts : list tok) : option (ioline * list tok) :=
  match skip_nl ts with                  (* name = tok.expect(Token.STRING) skips NEWLINEs *)
  | TStr name :: ts0 =>
      match opt_tags ts0 with None => None | Some (tags, ts1) =>
      match ts1 with
      | t :: ts2 =>
          match io_lookup (match t with TParen raw => raw | TStr raw => raw | _ => [] end) with None => None | Some ty =>
          match read_colon_list false ts2 with
          | Some (vals, TNl :: r) =>
              match vals with
              | [] => Some (mk_iol name tags ty [[]], r)
              | [d] => Some (mk_iol name tags ty [d], r)
              | _ => None
              end
          | _ => None
          end end
      | [] => None
      end end
  | _ => None
  end.

(** * @resources blocks: [None] = no block (`resources == ()`), [Some l] = a defined, possibly empty list *)
Variable rt : Type.
Variable rt_text : rt -> str.             (* RESTYPE_TO_NAME *)
Variable rt_lookup : str -> option rt.    (* RESTYPE_BY_NAME[... .casefold()] *)
Definition AT_RESOURCES : str := [64; 114; 101; 115; 111; 117; 114; 99; 101; 115].
Definition res_item_toks (it : rt * str * list str) : list tok :=
  let '(ty, file, tags) := it in TStr (rt_text ty) :: TStr file :: tags_toks tags ++ [TNl].
Definition res_toks (custom : bool) (res : option (list (rt * str * list str))) : list tok :=
  match res with
  | None => []
  | Some l => if custom && (res_block_if_defined cfg || negb (nil_b l))
              then TNl :: TStr AT_RESOURCES :: TNl :: TBrOpen :: TNl :: concat (map res_item_toks l) ++ [TBrClose; TNl]
              else []
  end.
(** the loop of EntityDef.parse after the `@resources` token; [acc] = the resources the entity already has *)
Fixpoint res_loop (fuel : nat) (acc : list (rt * str * list str)) (ts : list tok) : option (list (rt * str * list str) * list tok) :=
  match fuel with
  | O => None
  | S f =>
      match ts with
      | [] => Some (acc, [])                 (* the for loop simply ends at EOF *)
      | TStr ty :: r =>
          match rt_lookup ty with None => None | Some t =>
          match skip_nl r with
          | TStr file :: r1 =>
              match r1 with
              | TBrOpen :: r2 => match read_tags r2 with Some (tags, r3) => res_loop f (acc ++ [(t, file, tags)]) r3 | None => None end
              | _ :: r2 => res_loop f (acc ++ [(t, file, [])]) r2       (* the token after the file name is dropped *)
              | [] => res_loop f (acc ++ [(t, file, [])]) []
              end
          | _ => None
          end end
      | TBrClose :: r => Some (acc, r)
      | _ :: r => res_loop f acc r
      end
  end.
Definition res_parse (acc : list (rt * str * list str)) (ts : list tok) : option (list (rt * str * list str) * list tok) :=
  match skip_nl ts with TBrOpen :: r => res_loop (S (length r)) acc r | _ => None end.

(** what the entity loop does with the tokens of [res_toks]: skips NEWLINEs, and on `@resources` reads the block;
    [None] = the attribute keeps its initial value `()` *)
Definition res_read (ts : list tok) : option (option (list (rt * str * list str)) * list tok) :=
  match skip_nl ts with
  | TStr s :: r => if str_eqb (lower s) AT_RESOURCES then match res_parse [] r with Some (l, r') => Some (Some l, r') | None => None end
                   else Some (None, skip_nl ts)
  | _ => Some (None, skip_nl ts)
  end.
End Lines.
