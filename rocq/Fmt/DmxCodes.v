(** Model of the DMX attribute type codes (srctools/dmx.py: VAL_TYPE_TO_IND, ARRAY_OFFSET, IND_TO_VALTYPE, SIZES and
    the scalar/array split test of [Element.parse_bin]).  Everything is defined over a configuration record that
    the translator translate/c14_dmx.py regenerates from the source (Gen/DmxCodes_gen.v).
    Executable definitions only; proofs are in DmxCodesProofs.v. *)
From Coq Require Import NArith List Bool.
Import ListNotations.
Open Scope N_scope.

(** [srctools.dmx.ValueType] *)
Inductive vtype := TElement | TInt | TFloat | TBool | TString | TBinary | TTime | TColor | TVec2 | TVec3 | TVec4
                 | TAngle | TQuat | TMatrix.

Definition all_vtypes : list vtype :=
  [TElement; TInt; TFloat; TBool; TString; TBinary; TTime; TColor; TVec2; TVec3; TVec4; TAngle; TQuat; TMatrix].

Definition vtype_tag (t : vtype) : N :=
  match t with
  | TElement => 0 | TInt => 1 | TFloat => 2 | TBool => 3 | TString => 4 | TBinary => 5 | TTime => 6 | TColor => 7
  | TVec2 => 8 | TVec3 => 9 | TVec4 => 10 | TAngle => 11 | TQuat => 12 | TMatrix => 13
  end.
Definition vtype_eqb (a b : vtype) : bool := vtype_tag a =? vtype_tag b.

(** Comparison operators that may appear at the decode site [if attr_type_data OP ARRAY_OFFSET]. *)
Inductive cmpop := CGe | CGt | CLe | CLt | CEq | CNe.
Definition cmp_eval (c : cmpop) (a b : N) : bool :=
  match c with
  | CGe => b <=? a | CGt => b <? a | CLe => a <=? b | CLt => a <? b | CEq => a =? b | CNe => negb (a =? b)
  end.

(** Which codec a string read/write site uses: the literal default ('ascii') or the [encoding] variable chosen
    from the file's unicode mode. *)
Inductive enc := EncAscii | EncFile.
Definition enc_eqb (a b : enc) : bool :=
  match a, b with EncAscii, EncAscii | EncFile, EncFile => true | _, _ => false end.

(** What the exporter writes after the stub index -2 (the reader always reads a NUL-terminated UUID string). *)
Inductive stubpay := StubNothing | StubUuidStr.

(** The six places where the binary format stores a string. *)
Inductive strsite := SiteTable | SiteElType | SiteElName | SiteAttrName | SiteScalarStr | SiteArrayStr.
Definition all_sites : list strsite := [SiteTable; SiteElType; SiteElName; SiteAttrName; SiteScalarStr; SiteArrayStr].

Record dmxcfg := {
  code_table : list (vtype * N);      (* VAL_TYPE_TO_IND, in source order *)
  array_offset : N;                   (* ARRAY_OFFSET *)
  split_cmp : cmpop;                  (* operator of [attr_type_data OP ARRAY_OFFSET] in parse_bin *)
  size_table : list (vtype * N);      (* SIZES: struct sizes of the fixed-width types *)
  stub_written : stubpay;             (* export_binary, after pack('<i', -2) *)
  enc_write : strsite -> enc;         (* export_binary: codec of each string write site *)
  enc_read : strsite -> enc;          (* parse_bin: codec of each string read site *)
}.

(** VAL_TYPE_TO_IND[t] (KeyError = None). *)
Fixpoint assoc_type {B} (t : vtype) (l : list (vtype * B)) : option B :=
  match l with
  | [] => None
  | (t', c) :: r => if vtype_eqb t t' then Some c else assoc_type t r
  end.
Definition code_of (cfg : dmxcfg) (t : vtype) : option N := assoc_type t (code_table cfg).
Definition size_of (cfg : dmxcfg) (t : vtype) : option N := assoc_type t (size_table cfg).

(** IND_TO_VALTYPE = {ind: t for t, ind in VAL_TYPE_TO_IND.items()}: for a duplicated index the LAST entry wins. *)
Fixpoint type_of_code_in (c : N) (l : list (vtype * N)) : option vtype :=
  match l with
  | [] => None
  | (t, c') :: r => match type_of_code_in c r with
                    | Some t' => Some t'
                    | None => if c =? c' then Some t else None
                    end
  end.
Definition type_of_code (cfg : dmxcfg) (c : N) : option vtype := type_of_code_in c (code_table cfg).

(** export_binary: [typ_ind = VAL_TYPE_TO_IND[attr.type]; if attr.is_array: typ_ind += ARRAY_OFFSET]. *)
Definition encode_code (cfg : dmxcfg) (t : vtype) (arr : bool) : option N :=
  match code_of cfg t with
  | Some c => Some (if arr then c + array_offset cfg else c)
  | None => None
  end.

(** parse_bin: [if attr_type_data OP ARRAY_OFFSET: attr_type_data -= ARRAY_OFFSET; array] then IND_TO_VALTYPE[..].
    The byte is unsigned, so the subtraction is only modelled where the test guarantees it is non-negative or the
    result is looked up anyway (a negative Python index is a KeyError; truncated subtraction gives a code that is
    looked up in the same table — the proofs never rely on that case). *)
Definition decode_code (cfg : dmxcfg) (b : N) : option (vtype * bool) :=
  if cmp_eval (split_cmp cfg) b (array_offset cfg)
  then (if b <? array_offset cfg then None else
        match type_of_code cfg (b - array_offset cfg) with Some t => Some (t, true) | None => None end)
  else match type_of_code cfg b with Some t => Some (t, false) | None => None end.

(** Named, separately checkable conditions on a configuration. *)
Definition opt_test {A} (o : option A) (f : A -> bool) : bool := match o with Some a => f a | None => false end.

Definition code_total (cfg : dmxcfg) : bool :=
  forallb (fun t => opt_test (code_of cfg t) (fun _ => true)) all_vtypes.
Definition code_invertible (cfg : dmxcfg) : bool :=
  forallb (fun t => opt_test (code_of cfg t) (fun c => opt_test (type_of_code cfg c) (vtype_eqb t))) all_vtypes.
Definition scalar_codes_not_split (cfg : dmxcfg) : bool :=
  forallb (fun t => opt_test (code_of cfg t) (fun c => negb (cmp_eval (split_cmp cfg) c (array_offset cfg)))) all_vtypes.
Definition array_codes_split (cfg : dmxcfg) : bool :=
  forallb (fun t => opt_test (code_of cfg t)
                      (fun c => cmp_eval (split_cmp cfg) (c + array_offset cfg) (array_offset cfg))) all_vtypes.
Definition codes_fit_byte (cfg : dmxcfg) : bool :=
  forallb (fun t => opt_test (code_of cfg t) (fun c => c + array_offset cfg <? 256)) all_vtypes.

Definition codes_ok (cfg : dmxcfg) : bool :=
  code_total cfg && code_invertible cfg && scalar_codes_not_split cfg && array_codes_split cfg && codes_fit_byte cfg.

(** String sites: every reader uses the codec of its writer. *)
Definition site_enc_agrees (cfg : dmxcfg) (s : strsite) : bool := enc_eqb (enc_write cfg s) (enc_read cfg s).
Definition encodings_ok (cfg : dmxcfg) : bool := forallb (site_enc_agrees cfg) all_sites.

(** Fixed-width types: exactly the types other than element/string/binary have a size. *)
Definition is_var_type (t : vtype) : bool :=
  match t with TElement | TString | TBinary => true | _ => false end.
Definition sizes_ok (cfg : dmxcfg) : bool :=
  forallb (fun t => if is_var_type t then true else opt_test (size_of cfg t) (fun _ => true)) all_vtypes.

Definition stub_ok (cfg : dmxcfg) : bool :=
  match stub_written cfg with StubUuidStr => true | StubNothing => false end.

Definition bin_cfg_ok (cfg : dmxcfg) : bool := codes_ok cfg && encodings_ok cfg && sizes_ok cfg && stub_ok cfg.

(** The configuration of the pinned (unrepaired) tree, kept for the refutation theorems. *)
Definition pinned_cfg : dmxcfg := {|
  code_table := [(TElement, 1); (TInt, 2); (TFloat, 3); (TBool, 4); (TString, 5); (TBinary, 6); (TTime, 7);
                 (TColor, 8); (TVec2, 9); (TVec3, 10); (TVec4, 11); (TAngle, 12); (TQuat, 13); (TMatrix, 14)];
  array_offset := 14;
  split_cmp := CGe;
  size_table := [(TInt, 4); (TFloat, 4); (TBool, 1); (TTime, 4); (TColor, 4); (TVec2, 8); (TVec3, 12); (TVec4, 16);
                 (TAngle, 12); (TQuat, 16); (TMatrix, 64)];
  stub_written := StubNothing;
  enc_write := fun _ => EncFile;
  enc_read := fun s => match s with SiteElType | SiteArrayStr => EncAscii | _ => EncFile end;
|}.
