(** C14 — proofs about the unicode modes (Fmt/DmxHeader.v). *)
From Coq Require Import List Bool.
From SV Require Import Fmt.DmxHeader.
Import ListNotations.

Theorem codec_agreement_gen c : hdr_bin_ok c = true -> hdr_kv2_ok c = true ->
  forall m, reader_bin_utf8 c m = hb_utf8 c m /\ reader_kv2_utf8 c m = hk_utf8 c m.
Proof.
  intros Hb Hk m. unfold hdr_bin_ok, hdr_kv2_ok in *. rewrite forallb_forall in Hb, Hk.
  assert (Hin : In m all_umodes) by (destruct m; cbn; tauto).
  split; apply Bool.eqb_prop; [apply Hb|apply Hk]; exact Hin.
Qed.
Example hdr_example : hdr_bin_ok pinned_hdr && hdr_kv2_ok pinned_hdr && hdr_modes_ok pinned_hdr = true.
Proof. reflexivity. Qed.
Example hdr_unmarked_refuted : hdr_bin_ok unmarked_hdr = false /\ reader_bin_utf8 unmarked_hdr UFormat = false /\ hb_utf8 unmarked_hdr UFormat = true.
Proof. repeat split; reflexivity. Qed.
