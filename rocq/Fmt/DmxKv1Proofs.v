(** Proofs about the KeyValues1 <-> DMX bridge model (Fmt/DmxKv1.v). *)
From Coq Require Import NArith List Bool Lia.
From SV Require Import Fmt.DmxKv1.
Import ListNotations.

Lemma kstr_eqb_eq : forall a b, kstr_eqb a b = true <-> a = b.
Proof.
  induction a as [|x a IH]; destruct b as [|y b]; cbn; split; intros H; try reflexivity; try discriminate.
  - apply andb_prop in H. destruct H as [H1 H2]. apply N.eqb_eq in H1. apply IH in H2. now subst.
  - inversion H; subst. rewrite N.eqb_refl. cbn. now apply IH.
Qed.
Lemma kstr_eqb_refl : forall a, kstr_eqb a a = true.
Proof. intros a. now apply kstr_eqb_eq. Qed.
Lemma kstr_eqb_neq : forall a b, kstr_eqb a b = false <-> a <> b.
Proof.
  intros a b. split; intros H.
  - intros E. apply kstr_eqb_eq in E. congruence.
  - destruct (kstr_eqb a b) eqn:E; [apply kstr_eqb_eq in E; contradiction | reflexivity].
Qed.
Lemma kmem_In : forall s l, kmem s l = true <-> In s l.
Proof.
  intros s l. unfold kmem. rewrite existsb_exists. split.
  - intros (x & Hx & E). apply kstr_eqb_eq in E. now subst.
  - intros H. exists s. split; [exact H | apply kstr_eqb_refl].
Qed.
Lemma kmem_false : forall s l, kmem s l = false <-> ~ In s l.
Proof.
  intros s l. split; intros H.
  - intros Hin. apply kmem_In in Hin. congruence.
  - destruct (kmem s l) eqn:E; [apply kmem_In in E; contradiction | reflexivity].
Qed.

(** Induction principle for the nested tree type. *)
Fixpoint kv_ind' (P : kv -> Prop)
    (Hl : forall n v, P (KLeaf n v))
    (Hb : forall on ch, Forall P ch -> P (KBlock on ch)) (t : kv) : P t :=
  match t with
  | KLeaf n v => Hl n v
  | KBlock on ch =>
      Hb on ch ((fix go (l : list kv) : Forall P l :=
                   match l with
                   | [] => Forall_nil P
                   | x :: r => Forall_cons x (kv_ind' P Hl Hb x) (go r)
                   end) ch)
  end.

(** dict lemmas *)
Definition keys (m : list member) : list kstr := map fst m.

Lemma dset_fresh : forall k v m, ~ In k (keys m) -> dset k v m = m ++ [(k, v)].
Proof.
  induction m as [|[k' v'] m IH]; cbn; intros H; [reflexivity|].
  destruct (kstr_eqb k k') eqn:E.
  - apply kstr_eqb_eq in E. subst. exfalso. apply H. now left.
  - rewrite IH; [reflexivity|]. intros Hin. apply H. now right.
Qed.

Lemma dget_app_fresh : forall k m m', ~ In k (keys m) -> dget k (m ++ m') = dget k m'.
Proof.
  induction m as [|[k' v'] m IH]; cbn; intros m' H; [reflexivity|].
  destruct (kstr_eqb k k') eqn:E.
  - apply kstr_eqb_eq in E. subst. exfalso. apply H. now left.
  - apply IH. intros Hin. apply H. now right.
Qed.

Section Proofs.
  Variable fold : kstr -> kstr.
  Variable cfg : kv1cfg.
  Hypothesis Hcfg : kv1_cfg_ok cfg = true.
  Hypothesis Hfold : fold_ok fold cfg.

  Let Hparts : (t_leaf cfg <> t_block cfg /\ t_leaf cfg <> t_root cfg /\ t_block cfg <> t_root cfg) /\
               (k_value_r cfg = k_value_w cfg /\ k_subkeys_r cfg = k_subkeys_w cfg /\ k_name_r cfg = c_name) /\
               (In c_name (reserved cfg) /\ In (k_subkeys_w cfg) (reserved cfg) /\ k_subkeys_w cfg <> c_name).
  Proof.
    pose proof Hcfg as H0.
    unfold kv1_cfg_ok, kv1_types_distinct, kv1_keys_agree, kv1_reserved_covers in H0.
    repeat match goal with
           | H : _ && _ = true |- _ => apply andb_prop in H; destruct H
           end.
    repeat match goal with
           | H : negb _ = true |- _ => apply negb_true_iff in H; apply kstr_eqb_neq in H
           | H : kstr_eqb _ _ = true |- _ => apply kstr_eqb_eq in H
           | H : kmem _ _ = true |- _ => apply kmem_In in H
           end.
    tauto.
  Qed.

  Notation scan := (fold_left (scan_step fold cfg)).

  (** Invariants of the first loop. *)
  Lemma scan_has_block : forall ch st, has_block (scan ch st) = has_block st || existsb is_block ch.
  Proof.
    induction ch as [|c ch IH]; intros st; cbn [fold_left existsb]; [now rewrite orb_false_r|].
    rewrite IH. destruct c as [n v|on l]; cbn [scan_step is_block].
    - destruct (kmem (fold n) (leaf_names st)); cbn; reflexivity.
    - cbn. now rewrite orb_true_r.
  Qed.
  Lemma scan_has_leaf : forall ch st, has_leaf (scan ch st) = has_leaf st || existsb (fun c => negb (is_block c)) ch.
  Proof.
    induction ch as [|c ch IH]; intros st; cbn [fold_left existsb]; [now rewrite orb_false_r|].
    rewrite IH. destruct c as [n v|on l]; cbn [scan_step is_block negb].
    - destruct (kmem (fold n) (leaf_names st)); cbn; now rewrite orb_true_r.
    - cbn. reflexivity.
  Qed.

  Definition leaf_fnames (ch : list kv) : list kstr :=
    flat_map (fun c => match c with KLeaf n _ => [fold n] | KBlock _ _ => [] end) ch.

  (** If the loop ends with no_inline unset, the folded leaf names are pairwise distinct, distinct from the names
      seen before, and none is reserved. *)
  Lemma scan_no_inline : forall ch st, no_inline (scan ch st) = false ->
    no_inline st = false /\ NoDup (leaf_fnames ch) /\
    (forall x, In x (leaf_fnames ch) -> ~ In x (leaf_names st) /\ ~ In x (reserved cfg)).
  Proof.
    induction ch as [|c ch IH]; intros st H; cbn [fold_left] in H.
    - cbn. repeat split; [exact H | constructor | contradiction | contradiction].
    - apply IH in H. destruct H as (Hni & Hnd & Hfresh).
      destruct c as [n v|on l]; cbn [scan_step] in Hni, Hfresh |- *.
      + cbn [leaf_fnames flat_map app].
        destruct (kmem (fold n) (leaf_names st)) eqn:Em; cbn in Hni; [discriminate|].
        destruct (kmem (fold n) (reserved cfg)) eqn:Er; [discriminate|].
        cbn [leaf_names] in Hfresh.
        apply kmem_false in Em. apply kmem_false in Er.
        split; [exact Hni|]. split.
        * constructor; [|exact Hnd]. intros Hin. apply Hfresh in Hin. destruct Hin as [Hin _]. apply Hin. now left.
        * intros x [Hx|Hx]; [subst; tauto|].
          apply Hfresh in Hx. destruct Hx as [Hx1 Hx2]. split; [|exact Hx2]. intros Hin. apply Hx1. now right.
      + cbn [leaf_fnames flat_map app]. cbn [leaf_names] in Hfresh. cbn in Hni. tauto.
  Qed.

  (** Second loop, nested case: every child is appended to the subkeys array. *)
  Lemma place_all_sub : forall (f : kv -> el) ch no_inl pre n0 acc,
    (forall c, In c ch -> no_inl || is_block c = true) ->
    ~ In (fold (k_subkeys_w cfg)) (keys pre) ->
    fold_left (place fold cfg no_inl) (map (fun c => (c, f c)) ch)
              (pre ++ [(fold (k_subkeys_w cfg), (n0, inr acc))]) =
    pre ++ [(fold (k_subkeys_w cfg), (n0, inr (acc ++ map f ch)))].
  Proof.
    intros f. induction ch as [|c ch IH]; intros no_inl pre n0 acc Hall Hpre; cbn [map fold_left].
    - now rewrite app_nil_r.
    - unfold place at 2. rewrite (Hall c (or_introl eq_refl)).
      assert (Hd : forall x, dappend (fold (k_subkeys_w cfg)) x (pre ++ [(fold (k_subkeys_w cfg), (n0, inr acc))]) =
                             pre ++ [(fold (k_subkeys_w cfg), (n0, inr (acc ++ [x])))]).
      { intros x. clear -Hpre. induction pre as [|[k' [n' v']] pre IHp]; cbn.
        - now rewrite kstr_eqb_refl.
        - destruct (kstr_eqb (fold (k_subkeys_w cfg)) k') eqn:E.
          + apply kstr_eqb_eq in E. subst. exfalso. apply Hpre. now left.
          + rewrite IHp; [reflexivity|]. intros Hin. apply Hpre. now right. }
      rewrite Hd. rewrite IH; [|intros c' Hc'; apply Hall; now right|exact Hpre].
      now rewrite <- app_assoc.
  Qed.

  (** Second loop, inline case: every child is a leaf with a fresh key and is appended as a string attribute. *)
  Definition inline_members (ch : list kv) : list member :=
    flat_map (fun c => match c with KLeaf n v => [(fold n, (n, inl v))] | KBlock _ _ => [] end) ch.

  Lemma place_all_inline : forall (f : kv -> el) ch pre,
    (forall c, In c ch -> is_block c = false) ->
    NoDup (leaf_fnames ch) -> (forall x, In x (leaf_fnames ch) -> ~ In x (keys pre)) ->
    fold_left (place fold cfg false) (map (fun c => (c, f c)) ch) pre = pre ++ inline_members ch.
  Proof.
    intros f. induction ch as [|c ch IH]; intros pre Hall Hnd Hfresh; cbn [map fold_left].
    - cbn. now rewrite app_nil_r.
    - destruct c as [n v|on l]; [|specialize (Hall _ (or_introl eq_refl)); discriminate].
      unfold place at 2. cbn [is_block orb].
      cbn [leaf_fnames flat_map app] in Hnd, Hfresh. inversion Hnd as [|? ? Hn1 Hn2]; subst.
      rewrite dset_fresh by (apply Hfresh; now left).
      rewrite IH.
      + cbn [inline_members flat_map app]. now rewrite <- app_assoc.
      + intros c' Hc'. apply Hall. now right.
      + exact Hn2.
      + intros x Hx. unfold keys. rewrite map_app. cbn. rewrite in_app_iff. intros [Hin|[Hin|[]]].
        * apply (Hfresh x); [now right | exact Hin].
        * subst. contradiction.
  Qed.

  (** to_kv1's member loop, written as named functions (they are local fixes in the model). *)
  Notation tk := (to_kv1 fold cfg).
  Definition mp_el (f : el -> option kv) : list el -> option (list kv) :=
    fix mp (l : list el) : option (list kv) :=
      match l with
      | [] => Some []
      | x :: l' => match f x, mp l' with Some a, Some b => Some (a :: b) | _, _ => None end
      end.
  Definition go_members (f : el -> option kv) : list member -> option (list kv * option (list kv)) :=
    fix go (ms : list member) : option (list kv * option (list kv)) :=
      match ms with
      | [] => Some ([], None)
      | (_, (an, v)) :: r =>
          match go r with
          | None => None
          | Some (ls, sub) =>
              if kstr_eqb an (k_subkeys_r cfg) then
                match v with
                | inr l => match mp_el f l with
                           | Some kl => Some (ls, Some (match sub with Some s => s | None => kl end))
                           | None => None
                           end
                | inl _ => None
                end
              else if kstr_eqb an (k_name_r cfg) then Some (ls, sub)
              else match v with inl s => Some (KLeaf an s :: ls, sub) | inr _ => None end
          end
      end.
  Lemma to_kv1_unfold : forall ty ms, tk (El ty ms) =
    if kstr_eqb ty (t_leaf cfg) then
      match el_name ms, dget (fold (k_value_r cfg)) ms with
      | Some n, Some (_, inl v) => Some (KLeaf n v)
      | _, _ => None
      end
    else if kstr_eqb ty (t_block cfg) || kstr_eqb ty (t_root cfg) then
      match go_members tk ms with
      | Some (ls, sub) =>
          let kids := ls ++ match sub with Some s => flatten_roots s | None => [] end in
          if kstr_eqb ty (t_block cfg)
          then match el_name ms with Some n => Some (KBlock (Some n) kids) | None => None end
          else Some (KBlock None kids)
      | None => None
      end
    else None.
  Proof. reflexivity. Qed.

  Lemma wf_children : forall on ch, wf_kv (KBlock on ch) = true -> Forall (fun c => named c = true /\ wf_kv c = true) ch.
  Proof.
    intros on ch. cbn [wf_kv]. induction ch as [|c ch IH]; intros H; [constructor|].
    apply andb_prop in H. destruct H as [H H2]. apply andb_prop in H. destruct H as [H0 H1].
    constructor; [split; assumption | apply IH; exact H2].
  Qed.
  Lemma flatten_named : forall ch, Forall (fun c => named c = true /\ wf_kv c = true) ch -> flatten_roots ch = ch.
  Proof.
    induction 1 as [|c ch [Hn _] _ IH]; [reflexivity|]. unfold flatten_roots in *. cbn [flat_map]. rewrite IH.
    destruct c as [n v|[n|] l]; cbn in *; [reflexivity | reflexivity | discriminate].
  Qed.

  Lemma to_kv1_leaf : forall n v, tk (from_kv1 fold cfg (KLeaf n v)) = Some (KLeaf n v).
  Proof.
    intros n v. destruct Hparts as (_ & (Hv & _ & _) & _). destruct Hfold as (_ & _ & Hfv).
    cbn [from_kv1]. rewrite to_kv1_unfold. rewrite kstr_eqb_refl.
    unfold new_members. rewrite dset_fresh by (cbn; intros [E|[]]; congruence).
    unfold el_name. cbn [app dget]. rewrite kstr_eqb_refl.
    rewrite Hv.
    destruct (kstr_eqb (fold (k_value_w cfg)) c_name) eqn:E; [apply kstr_eqb_eq in E; contradiction|].
    now rewrite kstr_eqb_refl.
  Qed.

  Theorem kv1_bridge_roundtrip_gen : forall t, wf_kv t = true -> tk (from_kv1 fold cfg t) = Some t.
  Proof.
    induction t as [n v|on ch IH] using kv_ind'; intros Hwf; [apply to_kv1_leaf|].
    apply wf_children in Hwf.
    destruct Hparts as ((Hlb & Hlr & Hbr) & (Hv & Hs & Hn) & (Hrn & Hrs & Hsn)).
    destruct Hfold as (Hfn & Hfs & Hfv).
    cbn [from_kv1].
    set (st := fold_left (scan_step fold cfg) ch (scan_init)).
    set (no_inl := no_inline st || has_block st && has_leaf st).
    set (nm := match on with Some n => n | None => [] end).
    set (ty := match on with Some _ => t_block cfg | None => t_root cfg end).
    assert (Hty1 : kstr_eqb ty (t_leaf cfg) = false).
    { apply kstr_eqb_neq. subst ty. destruct on; congruence. }
    assert (Hty2 : kstr_eqb ty (t_block cfg) || kstr_eqb ty (t_root cfg) = true).
    { subst ty. destruct on; rewrite kstr_eqb_refl; [reflexivity | apply orb_true_r]. }
    (* children convert back *)
    assert (Hmp : mp_el tk (map (from_kv1 fold cfg) ch) = Some ch).
    { clear -IH Hwf. induction IH as [|c ch Hc _ IHl]; cbn [map mp_el]; [reflexivity|].
      inversion Hwf as [|? ? [_ Hw] Hwf']; subst. rewrite (Hc Hw), (IHl Hwf'). reflexivity. }
    destruct (no_inl || has_block st) eqn:Huse.
    - (* nested: everything goes to subkeys *)
      assert (Hall : forall c, In c ch -> no_inl || is_block c = true).
      { intros c Hc. destruct no_inl eqn:Eni; [reflexivity|]. cbn in Huse |- *.
        subst no_inl. apply orb_false_iff in Eni. destruct Eni as [_ Eni]. rewrite Huse in Eni. cbn in Eni.
        subst st. rewrite scan_has_leaf in Eni. cbn in Eni.
        destruct (is_block c) eqn:Eb; [reflexivity|].
        assert (existsb (fun c => negb (is_block c)) ch = true).
        { apply existsb_exists. exists c. split; [exact Hc | now rewrite Eb]. }
        congruence. }
      unfold new_members. rewrite dset_fresh by (cbn; intros [E|[]]; congruence).
      rewrite (place_all_sub (from_kv1 fold cfg) ch no_inl [(c_name, (c_name, inl nm))] (k_subkeys_w cfg) [] Hall)
        by (cbn; intros [E|[]]; congruence).
      cbn [app]. rewrite Hfs.
      rewrite to_kv1_unfold. rewrite Hty1, Hty2.
      cbn [go_members]. rewrite Hs, Hn. rewrite kstr_eqb_refl.
      rewrite Hmp.
      destruct (kstr_eqb c_name (k_subkeys_w cfg)) eqn:E1; [apply kstr_eqb_eq in E1; congruence|].
      rewrite kstr_eqb_refl. cbn [app]. rewrite (flatten_named ch Hwf).
      unfold el_name. cbn [dget]. rewrite kstr_eqb_refl.
      subst ty nm. destruct on as [n|].
      + rewrite kstr_eqb_refl. reflexivity.
      + destruct (kstr_eqb (t_root cfg) (t_block cfg)) eqn:E2; [apply kstr_eqb_eq in E2; congruence|]. reflexivity.
    - (* inline: no blocks, no duplicates, no reserved names *)
      apply orb_false_iff in Huse. destruct Huse as [Hni Hhb].
      assert (Hni' : no_inline st = false).
      { subst no_inl. apply orb_false_iff in Hni. tauto. }
      rewrite Hni.
      assert (Hleaves : forall c, In c ch -> is_block c = false).
      { intros c Hc. subst st. rewrite scan_has_block in Hhb. cbn in Hhb.
        destruct (is_block c) eqn:Eb; [|reflexivity].
        assert (existsb is_block ch = true) by (apply existsb_exists; exists c; tauto). congruence. }
      subst st. apply scan_no_inline in Hni'. destruct Hni' as (_ & Hnd & Hfresh).
      rewrite (place_all_inline (from_kv1 fold cfg) ch (new_members nm) Hleaves Hnd).
      2:{ intros x Hx. apply Hfresh in Hx. destruct Hx as [_ Hx]. cbn. intros [E|[]]. subst. contradiction. }
      rewrite to_kv1_unfold. rewrite Hty1, Hty2.
      assert (Hgo : go_members tk (inline_members ch) = Some (ch, None)).
      { clear -Hleaves Hfresh Hs Hn Hrn Hrs Hfn Hfs.
        induction ch as [|c ch IHc]; [reflexivity|].
        destruct c as [n v|on l]; [|specialize (Hleaves _ (or_introl eq_refl)); discriminate].
        cbn [inline_members flat_map app go_members]. fold (inline_members ch).
        rewrite IHc.
        - assert (Hres : ~ In (fold n) (reserved cfg)).
          { destruct (Hfresh (fold n)) as [_ Hr]; [cbn; now left | exact Hr]. }
          destruct (kstr_eqb n (k_subkeys_r cfg)) eqn:E1.
          { apply kstr_eqb_eq in E1. subst n. rewrite Hs, Hfs in Hres. contradiction. }
          destruct (kstr_eqb n (k_name_r cfg)) eqn:E2.
          { apply kstr_eqb_eq in E2. subst n. rewrite Hn, Hfn in Hres. contradiction. }
          reflexivity.
        - intros x Hx. apply Hfresh. cbn [leaf_fnames flat_map app]. now right.
        - intros c Hc. apply Hleaves. now right. }
      unfold new_members. cbn [app go_members]. rewrite Hgo. rewrite Hn.
      destruct (kstr_eqb c_name (k_subkeys_r cfg)) eqn:E1; [apply kstr_eqb_eq in E1; congruence|].
      rewrite kstr_eqb_refl. rewrite app_nil_r.
      unfold el_name. cbn [dget]. rewrite kstr_eqb_refl.
      subst ty nm. destruct on as [n|].
      + rewrite kstr_eqb_refl. reflexivity.
      + destruct (kstr_eqb (t_root cfg) (t_block cfg)) eqn:E2; [apply kstr_eqb_eq in E2; congruence|]. reflexivity.
  Qed.
End Proofs.

(** The generated constants of the unchanged source satisfy the premise (non-vacuity), with ASCII lower-casing
    standing in for casefold. *)
Definition sample_cfg : kv1cfg := {|
  t_block := [68; 109]%N; t_leaf := [68; 76]%N; t_root := [68; 82]%N;
  reserved := [c_name; [115]%N]; k_value_w := [118]%N; k_subkeys_w := [115]%N;
  k_value_r := [118]%N; k_subkeys_r := [115]%N; k_name_r := c_name |}.
Example kv1_premises_satisfiable : kv1_cfg_ok sample_cfg = true /\ fold_ok (fun s => s) sample_cfg.
Proof. split; [reflexivity|]. unfold fold_ok; cbn. repeat split; try reflexivity. unfold c_name. discriminate. Qed.

(** Without the reserved-name rule the bridge loses a leaf called "name": the rule is necessary. *)
Definition no_reserved_cfg : kv1cfg := {|
  t_block := [68; 109]%N; t_leaf := [68; 76]%N; t_root := [68; 82]%N;
  reserved := []; k_value_w := [118]%N; k_subkeys_w := [115]%N;
  k_value_r := [118]%N; k_subkeys_r := [115]%N; k_name_r := c_name |}.
Example kv1_reserved_rule_needed :
  to_kv1 (fun s => s) no_reserved_cfg (from_kv1 (fun s => s) no_reserved_cfg (KBlock (Some [66]%N) [KLeaf c_name [120]%N]))
  <> Some (KBlock (Some [66]%N) [KLeaf c_name [120]%N]).
Proof. vm_compute. discriminate. Qed.

(** A root (name None) nested inside a block is merged into its parent by Keyvalues.append: [wf_kv] is necessary. *)
Example kv1_nested_root_is_flattened :
  to_kv1 (fun s => s) sample_cfg (from_kv1 (fun s => s) sample_cfg (KBlock (Some [66]%N) [KBlock None [KLeaf [97]%N [98]%N]]))
  = Some (KBlock (Some [66]%N) [KLeaf [97]%N [98]%N]).
Proof. vm_compute. reflexivity. Qed.
