(** C16 — a whole entity definition at token level: the header (Fmt/FgdHead.v), the NEWLINE after the `[`, the body
    (Fmt/FgdBody.v).  [entity_read] is EntityDef.parse from the token after `@PointClass` to the closing `]`. *)
From Coq Require Import List NArith Arith Bool.
From SV Require Import Fmt.FgdLine Fmt.FgdBody Fmt.FgdHead.
Import ListNotations.
Open Scope N_scope.

Section Entity.
Variable tag_norm : str -> str.
Variable tags_valid : list str -> bool.
Variable vt : Type.
Variable vt_text : vt -> str.
Variable vt_lookup : str -> option (bool * vt).
Variables vt_is_bool vt_is_flags vt_is_choices : vt -> bool.
Variable io_text : vt -> str.
Variable io_lookup : str -> option vt.
Variable dec : N -> str.
Variable undec : str -> option N.
Variable pow2 : N -> bool.
Variable cfg : line_cfg.
Variable rt : Type.
Variable rt_text : rt -> str.
Variable rt_lookup : str -> option rt.
Variable H : Type.
Variable known : str -> bool.
Variable hparse : str -> list str -> option H.
Variable hunknown : str -> list str -> H.

Definition entity_toks (label custom alias : bool) (bases : list str) (forms : list hform) (hidden : bool) (cls : str) (secs : list str)
                       (items : list (nat * item vt)) (res : resources rt) : list tok :=
  head_toks custom alias bases forms hidden cls secs
  ++ TNl :: body_toks vt vt_text vt_is_bool vt_is_flags io_text dec cfg rt rt_text label custom items res.

Definition entity_read (ts : list tok) : option (head H * body vt rt * list tok) :=
  match head_read H known hparse hunknown ts with
  | None => None
  | Some (h, r) =>
      match body_read tag_norm tags_valid vt vt_lookup vt_is_bool vt_is_flags vt_is_choices io_lookup dec undec pow2 rt rt_lookup r with
      | Some (b, r') => Some (h, b, r')
      | None => None
      end
  end.
End Entity.
