(** C11: proofs about the static-prop format selection tables (Fmt/BspPropVersion.v). *)
From Coq Require Import List String NArith Bool Lia.
From SV Require Import Fmt.BspPropVersion.
Import ListNotations.
Open Scope N_scope.

(** what [reread_ok] means: the writer writes in [w] with ladder [lw] and header number [h'] (the one it sets, or [h]); the fresh
    reader of (BSP version, [h'], size of [w]) records [w], decodes with [w], runs the same ladder *)
Lemma reread_ok_spec : forall c bv h st, reread_ok (save_reread c bv h st) = true ->
  exists r w lw h' sz, write_props c st h = Some (Some (r, w, lw, h')) /\ size_of c w = Some sz /\
                       read_sized c bv h' sz 0 = Some (Some (w, w, lw)).
Proof.
  intros c bv h st Hok. unfold save_reread in Hok.
  destruct (write_props c st h) as [[[[[r w] lw] h']|]|] eqn:Hw; try discriminate.
  destruct (size_of c w) as [sz|] eqn:Hs; try discriminate.
  destruct (read_sized c bv h' sz 0) as [[[[r' d] ld]|]|] eqn:Hr; try discriminate.
  cbn in Hok.
  apply andb_true_iff in Hok. destruct Hok as [Hok H3]. apply andb_true_iff in Hok. destruct Hok as [H1 H2].
  apply N.eqb_eq in H1, H2, H3. subst. exists r, w, lw, h', sz. auto.
Qed.

(** History 1 for every point of the domain: whatever format the reader of the empty lump settles on, the writer writes in a
    format [w] (with ladder [lw]) such that a fresh reader of the written file - same BSP version, the header number save() writes,
    records of the size of [w] - records [w], decodes with [w] and uses the same ladder. *)
Theorem from_empty_stable : forall c, pv_from_empty_ok c = true ->
  forall bv h, In bv (c_bsp c) -> In h pv_hdrs ->
  forall st, read_empty c bv h 0 = Some (Some st) ->
  exists r w lw h' sz, write_props c st h = Some (Some (r, w, lw, h')) /\ size_of c w = Some sz /\
                       read_sized c bv h' sz 0 = Some (Some (w, w, lw)).
Proof.
  intros c Hok bv h Hbv Hh st Hre.
  unfold pv_from_empty_ok in Hok. rewrite forallb_forall in Hok. specialize (Hok bv Hbv).
  rewrite forallb_forall in Hok. specialize (Hok h Hh).
  unfold hist_from_empty_ok, hist_from_empty in Hok. rewrite Hre in Hok.
  destruct (save_reread c bv h st) as [x|] eqn:Hsr; cbn in Hok; try discriminate.
  apply reread_ok_spec. rewrite Hsr. exact Hok.
Qed.

(** History 3: props assigned to an object that never read the lump - no format recorded -, saved, read by a fresh object. *)
Theorem never_read_stable : forall c, pv_never_read_ok c = true ->
  forall bv h, In bv (c_bsp c) -> In h pv_hdrs ->
  exists r w lw h' sz, write_props c 0 h = Some (Some (r, w, lw, h')) /\ size_of c w = Some sz /\
                       read_sized c bv h' sz 0 = Some (Some (w, w, lw)).
Proof.
  intros c Hok bv h Hbv Hh.
  unfold pv_never_read_ok in Hok. rewrite forallb_forall in Hok. specialize (Hok bv Hbv).
  rewrite forallb_forall in Hok. specialize (Hok h Hh).
  apply reread_ok_spec. exact Hok.
Qed.

(** an empty lump is either rejected or leads to the above: no third outcome, and every row exists *)
Theorem from_empty_total : forall c, pv_from_empty_ok c = true ->
  forall bv h, In bv (c_bsp c) -> In h pv_hdrs ->
  read_empty c bv h 0 = Some None \/ exists st, read_empty c bv h 0 = Some (Some st).
Proof.
  intros c Hok bv h Hbv Hh.
  unfold pv_from_empty_ok in Hok. rewrite forallb_forall in Hok. specialize (Hok bv Hbv).
  rewrite forallb_forall in Hok. specialize (Hok h Hh).
  unfold hist_from_empty_ok, hist_from_empty in Hok.
  destruct (read_empty c bv h 0) as [[st|]|]; try discriminate; eauto.
Qed.

Lemma member_ids_in : forall c m, In m (member_ids c) <-> (1 <= m /\ m <= N.of_nat (List.length (c_members c))).
Proof.
  intros c m. unfold member_ids. rewrite in_map_iff. split.
  - intros [k [Hk Hin]]. apply in_seq in Hin. lia.
  - intros [H1 H2]. exists (N.to_nat (m - 1)). split; [lia|]. apply in_seq. lia.
Qed.

(** History 2: the format named by the caller is the format written; a fresh reader settles on a format with the same header
    number and record size and decodes with the format it records, with the writer's ladder; named to the reader, [m] is believed. *)
Theorem named_detected : forall c, pv_named_ok c = true ->
  forall bv m, In bv (c_bsp c) -> 1 <= m <= N.of_nat (List.length (c_members c)) ->
  exists lw h sz d ld,
    hdr_of c m = Some h /\ size_of c m = Some sz /\ write_props c m h = Some (Some (m, m, lw, h)) /\
    read_sized c bv h sz 0 = Some (Some (d, d, ld)) /\ (d = m -> ld = lw) /\ hdr_of c d = Some h /\ size_of c d = Some sz /\
    read_sized c bv h sz m = Some (Some (m, m, lw)) /\ read_empty c bv h m = Some (Some m).
Proof.
  intros c Hok bv m Hbv Hm.
  unfold pv_named_ok in Hok. rewrite forallb_forall in Hok. specialize (Hok bv Hbv).
  rewrite forallb_forall in Hok. specialize (Hok m (proj2 (member_ids_in c m) Hm)).
  unfold hist_named_ok in Hok.
  destruct (hdr_of c m) as [h|]; try discriminate.
  destruct (size_of c m) as [sz|]; try discriminate.
  destruct (write_props c m h) as [[[[[r w] lw] h'']|]|] eqn:Hwp; try discriminate.
  apply andb_true_iff in Hok. destruct Hok as [Hok H12].
  apply andb_true_iff in Hok. destruct Hok as [Hok H4].
  apply andb_true_iff in Hok. destruct Hok as [Hok H3].
  apply andb_true_iff in Hok. destruct Hok as [Hok H0].
  apply andb_true_iff in Hok. destruct Hok as [H1 H2].
  destruct (read_sized c bv h sz 0) as [[[[r' d] ld]|]|] eqn:Hr0; try discriminate.
  destruct (read_sized c bv h sz m) as [[[[r'' d''] ld'']|]|] eqn:Hrm; try discriminate.
  apply andb_true_iff in H3. destruct H3 as [H3 H7].
  apply andb_true_iff in H3. destruct H3 as [H5 H6].
  destruct (hdr_of c d) as [h'|] eqn:Hhd; try discriminate.
  destruct (size_of c d) as [sz'|] eqn:Hsd; try discriminate.
  apply andb_true_iff in H7. destruct H7 as [H7 H8].
  apply andb_true_iff in H4. destruct H4 as [H4 H11].
  apply andb_true_iff in H4. destruct H4 as [H9 H10].
  destruct (read_empty c bv h m) as [[re|]|] eqn:Hre; try discriminate.
  apply N.eqb_eq in H0, H1, H2, H5, H7, H8, H9, H10, H11, H12.
  subst. exists lw, h, sz, d, ld.
  refine (conj _ (conj _ (conj _ (conj _ (conj _ (conj _ (conj _ (conj _ _)))))))); auto.
  intros Hdm. subst d. rewrite N.eqb_refl in H6. cbn in H6. apply N.eqb_eq in H6. exact H6.
Qed.

(** ... and when no other member has that (header number, record size), the fresh reader settles on [m] itself. *)
Theorem named_detected_unique : forall c, pv_named_ok c = true ->
  forall bv m, In bv (c_bsp c) -> 1 <= m <= N.of_nat (List.length (c_members c)) -> unique_pair c m = true ->
  exists lw h sz, hdr_of c m = Some h /\ size_of c m = Some sz /\ write_props c m h = Some (Some (m, m, lw, h)) /\
                  read_sized c bv h sz 0 = Some (Some (m, m, lw)).
Proof.
  intros c Hok bv m Hbv Hm Hu.
  destruct (named_detected c Hok bv m Hbv Hm) as [lw [h [sz [d [ld [Hh [Hs [Hw [Hr [Hl [Hhd [Hsd _]]]]]]]]]]]].
  exists lw, h, sz. repeat split; auto.
  assert (Hd : d = m).
  { unfold unique_pair in Hu. rewrite Hh, Hs in Hu. rewrite forallb_forall in Hu.
    assert (Hdin : In d (member_ids c)).
    { apply member_ids_in. unfold hdr_of, member_of in Hhd.
      destruct (d =? 0) eqn:Hd0; [discriminate|]. apply N.eqb_neq in Hd0.
      destruct (nth_error (c_members c) (N.to_nat (d - 1))) eqn:Hn; [|discriminate].
      assert (Hlt : (N.to_nat (d - 1) < List.length (c_members c))%nat) by (apply nth_error_Some; congruence). lia. }
    specialize (Hu d Hdin). rewrite Hhd, Hsd, !N.eqb_refl in Hu. cbn in Hu.
    rewrite orb_false_r in Hu. apply N.eqb_eq in Hu. exact Hu. }
  subst d. rewrite (Hl eq_refl) in Hr. exact Hr.
Qed.

(** the first-match guess: written in format 1, decoded as format 2 *)
Theorem first_match_refuted :
  hist_from_empty_ok pv_first_match_cfg 20 11 = false /\
  hist_from_empty pv_first_match_cfg 20 11 = Some (Some (1, 11, Some (2, 2, 7))) /\
  hist_from_empty_ok pv_last_match_cfg 20 11 = true.
Proof. vm_compute. repeat split. Qed.

(** the header number left as the opened file had it while the records are in the fallback format: the fresh reader raises *)
Theorem header_left_refuted :
  hist_never_read_ok pv_header_left_cfg 20 10 = false /\
  hist_never_read pv_header_left_cfg 20 10 = Some (1, 5, None) /\
  hist_never_read_ok pv_header_set_cfg 20 10 = true.
Proof. vm_compute. repeat split. Qed.

(** The three histories together.  [found_again c bv h st]: an object that holds format [st] (0 = none) for a file opened with
    header number [h] writes props in some format [w], and a fresh object of the same BSP version that reads the saved file
    records [w], decodes the records with [w] and runs the writer's field ladder. *)
Definition found_again (c : pv_cfg) (bv h st : N) : Prop :=
  exists r w lw h' sz, write_props c st h = Some (Some (r, w, lw, h')) /\ size_of c w = Some sz /\
                       read_sized c bv h' sz 0 = Some (Some (w, w, lw)).

Theorem pv_property : forall c, pv_ok c = true ->
  forall bv, In bv (c_bsp c) ->
  (* the lump was empty when read: rejected, or the format recorded then is found again *)
  (forall h, In h pv_hdrs -> read_empty c bv h 0 = Some None \/
                             exists st, read_empty c bv h 0 = Some (Some st) /\ found_again c bv h st) /\
  (* the lump was never read *)
  (forall h, In h pv_hdrs -> found_again c bv h 0) /\
  (* the caller named the format: kept by the reader of an empty lump, written under its own header number, and a fresh
     reader finds a format of that header number and record size - the same one when no other member shares the pair *)
  (forall m, 1 <= m <= N.of_nat (List.length (c_members c)) ->
     exists h sz lw, hdr_of c m = Some h /\ size_of c m = Some sz /\ read_empty c bv h m = Some (Some m) /\
                     write_props c m h = Some (Some (m, m, lw, h)) /\ read_sized c bv h sz m = Some (Some (m, m, lw)) /\
                     (unique_pair c m = true -> read_sized c bv h sz 0 = Some (Some (m, m, lw)))).
Proof.
  intros c Hok bv Hbv. unfold pv_ok in Hok.
  apply andb_true_iff in Hok. destruct Hok as [Hok _].
  apply andb_true_iff in Hok. destruct Hok as [Hok Hnr].
  apply andb_true_iff in Hok. destruct Hok as [Hfe Hnm].
  split; [|split].
  - intros h Hh. destruct (from_empty_total c Hfe bv h Hbv Hh) as [Hr|[st Hst]]; [left; exact Hr|right].
    exists st. split; [exact Hst|]. exact (from_empty_stable c Hfe bv h Hbv Hh st Hst).
  - intros h Hh. exact (never_read_stable c Hnr bv h Hbv Hh).
  - intros m Hm.
    destruct (named_detected c Hnm bv m Hbv Hm) as [lw [h [sz [d [ld [Hh [Hs [Hw [Hr [Hl [Hhd [Hsd [Hrm Hre]]]]]]]]]]]]].
    exists h, sz, lw. repeat split; auto.
    intros Hu. destruct (named_detected_unique c Hnm bv m Hbv Hm Hu) as [lw' [h' [sz' [Hh' [Hs' [Hw' Hr']]]]]].
    rewrite Hh in Hh'. rewrite Hs in Hs'. injection Hh' as <-. injection Hs' as <-.
    rewrite Hw in Hw'. injection Hw' as <-. exact Hr'.
Qed.
