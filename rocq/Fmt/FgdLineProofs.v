(** C16 — proofs about Fmt/FgdLine.v: every line the writers emit re-parses to the field values. *)
From Coq Require Import List NArith Arith Bool Lia.
From SV Require Import Fmt.FgdLine.
Import ListNotations.
Open Scope N_scope.

(** * _read_colon_list on what _write_longstring produced *)
Lemma snoc_last_app l a v : snoc_last (l ++ [a]) v = l ++ [a ++ v].
Proof.
  induction l as [|x l IH]; [reflexivity|]. cbn [app].
  assert (H : forall y r, snoc_last (x :: y :: r) v = x :: snoc_last (y :: r) v) by reflexivity.
  destruct (l ++ [a]) as [|y r] eqn:E; [destruct l; discriminate|]. rewrite H, IH. reflexivity.
Qed.
Lemma nil_b_app {T} (l : list T) x : nil_b (l ++ [x]) = false.
Proof. destruct l; reflexivity. Qed.

(** the sections after the first one, each behind '+' NEWLINE, are appended to the last string *)
Lemma rcl_more secs : forall l a rest,
  rcl (l ++ [a]) false false (concat (map (fun s => [TPlus; TNl; TStr s]) secs) ++ rest)
  = rcl (l ++ [a ++ concat secs]) false false rest.
Proof.
  induction secs as [|s secs IH]; intros l a rest; cbn [map concat app].
  - rewrite app_nil_r. reflexivity.
  - cbn [rcl]. rewrite nil_b_app. cbn [orb]. cbn [rcl]. rewrite snoc_last_app, IH, app_assoc. reflexivity.
Qed.
Lemma str_toks_cons x secs : str_toks (x :: secs) = TStr x :: concat (map (fun s => [TPlus; TNl; TStr s]) secs).
Proof.
  revert x. induction secs as [|s secs IH]; intros x; [reflexivity|].
  change (str_toks (x :: s :: secs)) with (TStr x :: TPlus :: TNl :: str_toks (s :: secs)). rewrite IH. reflexivity.
Qed.
(** a '+'-joined string where a string is allowed reads as the concatenation of its sections *)
Lemma rcl_str secs l rest : secs <> [] ->
  rcl l true false (str_toks secs ++ rest) = rcl (l ++ [concat secs]) false false rest.
Proof.
  destruct secs as [|x secs]; [congruence|]. intros _. rewrite str_toks_cons. cbn [app rcl concat].
  apply rcl_more.
Qed.
Lemma rcl_colon_str secs l rest : secs <> [] ->
  rcl l false false (TColon :: str_toks secs ++ rest) = rcl (l ++ [concat secs]) false false rest.
Proof. intros H. cbn [rcl]. apply rcl_str, H. Qed.

(** where the list ends: at a NEWLINE not followed by '+', or at '=' / '[' / ']' *)
Definition ends_line (rest : list tok) : Prop := match rest with TPlus :: _ => False | _ => True end.
Lemma rcl_end_nl l rest : ends_line rest -> rcl l false false (TNl :: rest) = Some (l, TNl :: rest).
Proof. intros H. cbn [rcl]. destruct rest as [|[]]; try reflexivity. destruct H. Qed.

Section Proofs.
Variable tag_norm : str -> str.
Variable tags_valid : list str -> bool.
Local Notation read_tags_aux := (read_tags_aux tag_norm tags_valid).
Local Notation read_tags := (read_tags tag_norm tags_valid).
Local Notation opt_tags := (opt_tags tag_norm tags_valid).

(** * Tags *)
Definition tag_ok (t : str) : Prop := tag_norm t = t.
Lemma read_tag1 t acc rest : tag_ok t -> read_tags_aux acc false (tag_toks1 t ++ rest) = read_tags_aux (acc ++ [t]) false rest.
Proof.
  unfold tag_ok, tag_toks1. intros H. destruct t as [|c r]; cbn [app FgdLine.read_tags_aux]; [rewrite H; reflexivity|].
  destruct (c =? PLUSC) eqn:E; cbn [app FgdLine.read_tags_aux].
  - apply N.eqb_eq in E. subst c. rewrite H. reflexivity.
  - rewrite H. reflexivity.
Qed.
Lemma read_tag_list tags : forall acc rest, Forall tag_ok tags -> tags <> [] ->
  read_tags_aux acc false (tag_list_toks tags ++ TBrClose :: rest)
  = if tags_valid (acc ++ tags) then Some (acc ++ tags, rest) else None.
Proof.
  induction tags as [|t tags IH]; intros acc rest Hok Hne; [congruence|].
  inversion Hok as [|? ? Ht Hts]; subst. destruct tags as [|t2 tags].
  - cbn [tag_list_toks]. rewrite read_tag1 by exact Ht. cbn [FgdLine.read_tags_aux]. reflexivity.
  - change (tag_list_toks (t :: t2 :: tags)) with (tag_toks1 t ++ TComma :: tag_list_toks (t2 :: tags)).
    rewrite <- app_assoc, read_tag1 by exact Ht. cbn [app FgdLine.read_tags_aux].
    rewrite IH by (auto; discriminate). rewrite <- app_assoc. reflexivity.
Qed.
(** `[tags]` written for a non-empty valid tag set reads back; nothing is written for the empty set, and then the
    reader must not find a '[' *)
Definition no_bracket (rest : list tok) : Prop := match rest with TBrOpen :: _ => False | _ => True end.
Lemma opt_tags_ok tags rest : Forall tag_ok tags -> tags_valid tags = true -> (tags = [] -> no_bracket rest) ->
  opt_tags (tags_toks tags ++ rest) = Some (tags, rest).
Proof.
  intros Hok Hv Hr. destruct tags as [|t tags].
  - cbn [tags_toks app]. specialize (Hr eq_refl). unfold FgdLine.opt_tags. destruct rest as [|[]]; try reflexivity. destruct Hr.
  - unfold tags_toks. cbn [app FgdLine.opt_tags]. unfold FgdLine.read_tags. rewrite <- app_assoc. cbn [app].
    rewrite read_tag_list by (auto; discriminate). cbn [app]. rewrite Hv. reflexivity.
Qed.

(** * Keyvalue lines *)
Variable vt : Type.
Variable vt_text : vt -> str.
Variable vt_lookup : str -> option (bool * vt).
Variables vt_is_bool vt_is_flags vt_is_choices : vt -> bool.
Variable io_text : vt -> str.
Variable io_lookup : str -> option vt.
Variable io_decay : vt -> vt.                  (* VALUE_TO_IO_DECAY *)
Variable dec : N -> str.
Variable undec : str -> option N.
Variable pow2 : N -> bool.
Variable cfg : line_cfg.
Hypothesis vt_lookup_text : forall v, vt_lookup (vt_text v) = Some (false, v).
Hypothesis io_lookup_text : forall v, io_lookup (io_text v) = Some (io_decay v).
Hypothesis undec_dec : forall n, undec (dec n) = Some n.
Hypothesis two_colons : colons_before_desc_without_default cfg = 2%nat.

Local Notation kvline := (kvline vt).
Local Notation kv_toks := (kv_toks vt vt_text vt_is_bool vt_is_flags dec cfg).
Local Notation kv_parse := (kv_parse tag_norm tags_valid vt vt_lookup vt_is_bool vt_is_flags vt_is_choices dec undec pow2).
Local Notation default_written := (default_written vt vt_is_bool cfg).
Local Notation yes_no := (yes_no vt vt_is_bool).
Local Notation parse_flag := (parse_flag dec undec pow2).
Local Notation flag_item_toks := (flag_item_toks dec).

(** the fields after the type and the readonly/report words: kv_vals and the token taken as `has_equal` *)
Definition fields_toks (k : kvline) : list tok :=
  (if vt_is_flags (l_type vt k) then [] else TColon :: str_toks (l_disp vt k))
  ++ (if nil_b (default_written k)
      then (if nil_b (concat (l_desc vt k)) then [] else repeat TColon (colons_before_desc_without_default cfg))
      else TColon :: TStr (default_written k) :: (if nil_b (concat (l_desc vt k)) then [] else [TColon]))
  ++ (if nil_b (concat (l_desc vt k)) then [] else str_toks (l_desc vt k)).

Definition stop_tok (t : tok) : Prop := match t with TNl | TEq => True | _ => False end.
Definition vals_of (k : kvline) : list str :=
  [concat (l_disp vt k)]
  ++ (if nil_b (default_written k) then (if nil_b (concat (l_desc vt k)) then [] else [[]; concat (l_desc vt k)])
      else default_written k :: (if nil_b (concat (l_desc vt k)) then [] else [concat (l_desc vt k)])).

Lemma nil_b_concat_ne (l : list str) : nil_b (concat l) = false -> l <> [].
Proof. destruct l; [discriminate|discriminate]. Qed.

(** for a keyvalue that is not a spawnflags list: the colon list reads as display name, default, description *)
Lemma fields_read (k : kvline) t rest : vt_is_flags (l_type vt k) = false -> l_disp vt k <> [] ->
  (t = TEq \/ (t = TNl /\ ends_line rest)) ->
  rcl [] false false (fields_toks k ++ t :: rest) = Some (vals_of k, t :: rest).
Proof.
  intros Hf Hd Ht. unfold fields_toks, vals_of. rewrite Hf. rewrite <- !app_assoc. cbn [app].
  rewrite (rcl_colon_str (l_disp vt k) [] _ Hd). cbn [app].
  assert (Hend : forall l, rcl l false false (t :: rest) = Some (l, t :: rest)).
  { intros l. destruct Ht as [->|[-> He]]; [reflexivity|apply rcl_end_nl, He]. }
  destruct (nil_b (default_written k)) eqn:Edw.
  - destruct (nil_b (concat (l_desc vt k))) eqn:Eds; cbn [app].
    + apply Hend.
    + rewrite two_colons. cbn [repeat app rcl]. rewrite (rcl_str (l_desc vt k) _ _ (nil_b_concat_ne _ Eds)). cbn [app]. apply Hend.
  - cbn [app rcl]. destruct (nil_b (concat (l_desc vt k))) eqn:Eds; cbn [app].
    + apply Hend.
    + cbn [rcl]. rewrite (rcl_str (l_desc vt k) _ _ (nil_b_concat_ne _ Eds)). cbn [app]. apply Hend.
Qed.

Definition head_toks (custom : bool) (k : kvline) : list tok :=
  (if custom then tags_toks (l_tags vt k) else [])
  ++ TParen (vt_text (l_type vt k)) :: (if l_ro vt k then [TStr KW_READONLY] else []) ++ (if l_report vt k then [TStr KW_REPORT] else []).
Definition list_toks (label custom : bool) (k : kvline) : list tok :=
  match l_list vt k with
  | NoList => []
  | Flags items => TEq :: TNl :: TBrOpen :: TNl :: concat (map (flag_item_toks label custom) items) ++ [TBrClose]
  | Choices items => TEq :: TNl :: TBrOpen :: TNl :: concat (map (choice_item_toks custom) items) ++ [TBrClose]
  end.
Lemma kv_toks_split label custom k :
  kv_toks label custom k = TStr (l_name vt k) :: head_toks custom k ++ fields_toks k ++ list_toks label custom k ++ [TNl].
Proof.
  unfold FgdLine.kv_toks, head_toks, fields_toks, list_toks. cbn [app]. f_equal. rewrite <- !app_assoc. cbn [app].
  rewrite <- !app_assoc. reflexivity.
Qed.

(** the tags a reader sees: none when the plain syntax was written *)
Definition seen_tags (custom : bool) (tags : list str) : list str := if custom then tags else [].
Definition tags_wf (tags : list str) : Prop := Forall tag_ok tags /\ tags_valid tags = true.
Hypothesis no_tags_valid : tags_valid [] = true.

(** what the head of the line (tags, type, readonly, report) leaves for the field reader; [nxt] is what follows *)
Definition not_word (rest : list tok) : Prop := match rest with TStr _ :: _ => False | _ => True end.
Local Notation kv_rest := (kv_rest tag_norm tags_valid vt vt_is_bool vt_is_flags vt_is_choices dec undec pow2).
Lemma head_read custom k nxt : tags_wf (l_tags vt k) -> not_word nxt ->
  kv_parse (l_name vt k) (head_toks custom k ++ nxt)
  = kv_rest (l_name vt k) (seen_tags custom (l_tags vt k)) (l_type vt k) (l_ro vt k) (l_report vt k) nxt.
Proof.
  intros [Hok Hv] Hn.
  unfold FgdLine.kv_parse, head_toks. rewrite <- app_assoc.
  assert (Ht : opt_tags ((if custom then tags_toks (l_tags vt k) else []) ++ (TParen (vt_text (l_type vt k))
                :: (if l_ro vt k then [TStr KW_READONLY] else []) ++ (if l_report vt k then [TStr KW_REPORT] else [])) ++ nxt)
               = Some (seen_tags custom (l_tags vt k), (TParen (vt_text (l_type vt k))
                :: (if l_ro vt k then [TStr KW_READONLY] else []) ++ (if l_report vt k then [TStr KW_REPORT] else [])) ++ nxt)).
  { unfold seen_tags. destruct custom; [apply opt_tags_ok; [exact Hok|exact Hv|intros _; exact I]|reflexivity]. }
  rewrite Ht. cbn [app]. rewrite vt_lookup_text.
  destruct (l_ro vt k), (l_report vt k); cbn [app orb].
  - change (str_eqb (lower KW_READONLY) KW_READONLY) with true. cbn iota.
    change (str_eqb (lower KW_REPORT) KW_REPORT) with true. cbn iota. reflexivity.
  - change (str_eqb (lower KW_READONLY) KW_READONLY) with true. cbn iota.
    destruct nxt as [|[] nxt]; try reflexivity. destruct Hn.
  - change (str_eqb (lower KW_REPORT) KW_READONLY) with false. cbn iota.
    change (str_eqb (lower KW_REPORT) KW_REPORT) with true. cbn iota. reflexivity.
  - destruct nxt as [|[] nxt]; try reflexivity; destruct Hn.
Qed.

Lemma nil_b_true {T} (l : list T) : nil_b l = true -> l = [].
Proof. destruct l; [reflexivity|discriminate]. Qed.
Lemma yes_no_nil ty : yes_no ty [] = [].
Proof. unfold FgdLine.yes_no. destruct (vt_is_bool ty); reflexivity. Qed.

(** what is read back: long strings as one section, the default as written, no tags in the plain syntax *)
Definition kv_norm (custom : bool) (k : kvline) (l : vlist) : kvline :=
  mk_kvl vt (l_name vt k) (seen_tags custom (l_tags vt k)) (l_type vt k) (l_ro vt k) (l_report vt k)
         [concat (l_disp vt k)] (default_written k) [concat (l_desc vt k)] l.

(** the common part of every keyvalue that writes a display name: after the colon list the parser holds [vals_of k] *)
Lemma kv_rest_fields (k : kvline) tags t rest :
  vt_is_flags (l_type vt k) = false -> l_disp vt k <> [] -> yes_no (l_type vt k) (default_written k) = default_written k ->
  (t = TEq \/ (t = TNl /\ ends_line rest)) ->
  kv_rest (l_name vt k) tags (l_type vt k) (l_ro vt k) (l_report vt k) (fields_toks k ++ t :: rest)
  = let mk l := mk_kvl vt (l_name vt k) tags (l_type vt k) (l_ro vt k) (l_report vt k)
                       [concat (l_disp vt k)] (default_written k) [concat (l_desc vt k)] l in
    let is_eq := match t with TEq => true | _ => false end in
    if vt_is_choices (l_type vt k) then
      (if is_eq then match colon_array tag_norm tags_valid parse_choice rest with Some (items, r) => Some (mk (Choices items), r) | None => None end else None)
    else if is_eq then None else Some (mk NoList, rest).
Proof.
  intros Hf Hd Hy Ht. pose proof (fields_read k t rest Hf Hd Ht) as Hr.
  unfold FgdLine.kv_rest. unfold fields_toks in *. rewrite Hf in *. cbn [app] in *.
  unfold read_colon_list. cbn [rcl] in Hr. rewrite Hr. unfold vals_of.
  destruct (nil_b (default_written k)) eqn:Edw.
  - apply nil_b_true in Edw. destruct (nil_b (concat (l_desc vt k))) eqn:Eds; cbn [app].
    + apply nil_b_true in Eds. rewrite Eds, Edw, yes_no_nil. reflexivity.
    + rewrite Edw, yes_no_nil. reflexivity.
  - destruct (nil_b (concat (l_desc vt k))) eqn:Eds; cbn [app].
    + apply nil_b_true in Eds. rewrite Eds, Hy. reflexivity.
    + rewrite Hy. reflexivity.
Qed.

(** Keyvalue lines without a value list: every line KVDef.export writes — with or without tags, readonly, report,
    display name and description split into any number of '+' sections, default present or not, description present
    or not — is read back by KVDef._parse as the same name, tags, type, flags, display name, default and description,
    and the parser stops exactly at the end of the line. *)
Theorem kv_plain_roundtrip label custom (k : kvline) rest :
  tags_wf (l_tags vt k) -> vt_is_flags (l_type vt k) = false -> vt_is_choices (l_type vt k) = false -> l_list vt k = NoList ->
  l_disp vt k <> [] -> yes_no (l_type vt k) (default_written k) = default_written k -> ends_line rest ->
  kv_parse (l_name vt k) (tl (kv_toks label custom k) ++ rest) = Some (kv_norm custom k NoList, rest).
Proof.
  intros Ht Hf Hc Hl Hd Hy He. rewrite kv_toks_split. cbn [tl]. unfold list_toks. rewrite Hl. cbn [app].
  rewrite <- !app_assoc. rewrite head_read; [|exact Ht|unfold fields_toks; rewrite Hf; exact I].
  cbn [app]. rewrite (kv_rest_fields k _ TNl rest Hf Hd Hy (or_intror (conj eq_refl He))). cbn zeta. rewrite Hc. reflexivity.
Qed.

(** * Value lists *)
Local Notation parse_array := (parse_array tag_norm tags_valid).
Local Notation colon_array := (colon_array tag_norm tags_valid).
Definition next_ok (rest : list tok) : Prop := match rest with TStr _ :: _ | TBrClose :: _ => True | _ => False end.
Lemma next_ok_ends rest : next_ok rest -> ends_line rest.
Proof. destruct rest as [|[]]; cbn; auto. Qed.
Lemma next_ok_skip rest : next_ok rest -> skip_nl rest = rest.
Proof. destruct rest as [|[]]; cbn; tauto. Qed.
Lemma parse_array_nl {T} f (item : str -> list str -> list str -> option T) acc ts :
  parse_array f item acc (TNl :: ts) = parse_array f item acc ts.
Proof. destruct f; reflexivity. Qed.

Section Items.
Variables X T : Type.
Variable item : str -> list str -> list str -> option T.
Variable itoks : X -> list tok.          (* the tokens of one item line without its NEWLINE *)
Variable ires : X -> T.
Variable iwf : X -> Prop.
Hypothesis itoks_first : forall it, iwf it -> exists v r, itoks it = TStr v :: r.
Hypothesis step : forall it acc f rest, iwf it -> next_ok rest ->
  parse_array (S f) item acc (itoks it ++ TNl :: rest) = parse_array f item (acc ++ [ires it]) (TNl :: rest).

Lemma items_next_ok items rest : Forall iwf items -> next_ok (concat (map (fun it => itoks it ++ [TNl]) items) ++ TBrClose :: rest).
Proof.
  destruct items as [|it items]; cbn [map concat app]; [intros _; exact I|]. intros H. inversion H as [|? ? Hit _]; subst.
  destruct (itoks_first it Hit) as [v [r ->]]. exact I.
Qed.
Lemma parse_items items : forall acc f rest, Forall iwf items -> (length items < f)%nat ->
  parse_array f item acc (concat (map (fun it => itoks it ++ [TNl]) items) ++ TBrClose :: rest)
  = Some (acc ++ map ires items, rest).
Proof.
  induction items as [|it items IH]; intros acc f rest Hwf Hf.
  - cbn [map concat app]. destruct f; [cbn [length] in Hf; lia|]. cbn. rewrite app_nil_r. reflexivity.
  - inversion Hwf as [|? ? Hit Hrest]; subst. destruct f as [|f]; [cbn [length] in Hf; lia|].
    cbn [map concat]. rewrite <- !app_assoc. cbn [app].
    rewrite step; [|exact Hit|apply items_next_ok, Hrest]. rewrite parse_array_nl.
    rewrite IH; [|exact Hrest|cbn [length] in Hf; lia]. cbn [map]. rewrite <- app_assoc. reflexivity.
Qed.
Lemma concat_len items : Forall iwf items -> (length items <= length (concat (map (fun it => itoks it ++ [TNl]) items)))%nat.
Proof.
  induction items as [|it items IH]; intros H; cbn [map concat length]; [lia|]. inversion H; subst.
  rewrite !app_length. cbn [length]. specialize (IH H3). lia.
Qed.
(** ` =` NEWLINE `[` NEWLINE items `]` *)
Lemma array_read items rest : Forall iwf items ->
  colon_array item (TNl :: TBrOpen :: TNl :: concat (map (fun it => itoks it ++ [TNl]) items) ++ TBrClose :: rest)
  = Some (map ires items, rest).
Proof.
  intros H. unfold FgdLine.colon_array. cbn [skip_nl]. rewrite parse_array_nl.
  rewrite parse_items; [reflexivity|exact H|]. cbn [length]. rewrite app_length. pose proof (concat_len items H). lia.
Qed.
End Items.

(** the optional `[tags]` at the end of an item line *)
Definition opt_tag_toks (custom : bool) (tags : list str) : list tok := if custom then tags_toks tags else [].
Lemma rcl_before_tags l custom tags rest : ends_line rest ->
  rcl l false false (opt_tag_toks custom tags ++ TNl :: rest) = Some (l, opt_tag_toks custom tags ++ TNl :: rest).
Proof.
  intros He. unfold opt_tag_toks. destruct custom; [|apply rcl_end_nl, He].
  destruct tags as [|t tags]; [apply rcl_end_nl, He|reflexivity].
Qed.
Lemma opt_tags_item custom tags rest : tags_wf tags ->
  opt_tags (opt_tag_toks custom tags ++ TNl :: rest) = Some (seen_tags custom tags, TNl :: rest).
Proof.
  intros [Hok Hv]. unfold opt_tag_toks, seen_tags. destruct custom; [|reflexivity].
  apply opt_tags_ok; [exact Hok|exact Hv|intros _; exact I].
Qed.

(** choices items *)
Definition citoks (custom : bool) (it : str * list str * list str) : list tok :=
  let '(v, name, tags) := it in TStr v :: TColon :: str_toks name ++ opt_tag_toks custom tags.
Definition cires (custom : bool) (it : str * list str * list str) : str * list str * list str :=
  let '(v, name, tags) := it in (v, [concat name], seen_tags custom tags).
Definition ciwf (it : str * list str * list str) : Prop := let '(v, name, tags) := it in name <> [] /\ tags_wf tags.
Lemma choice_toks_eq custom it : choice_item_toks custom it = citoks custom it ++ [TNl].
Proof. destruct it as [[v name] tags]. unfold choice_item_toks, citoks, opt_tag_toks. cbn [app]. rewrite <- app_assoc. reflexivity. Qed.
Lemma choice_step custom it acc f rest : ciwf it -> next_ok rest ->
  parse_array (S f) parse_choice acc (citoks custom it ++ TNl :: rest)
  = parse_array f parse_choice (acc ++ [cires custom it]) (TNl :: rest).
Proof.
  destruct it as [[v name] tags]. intros [Hn Ht] Hr. unfold citoks, cires. cbn [app FgdLine.parse_array skip_nl].
  unfold read_colon_list. rewrite <- app_assoc, (rcl_colon_str name [] _ Hn). cbn [app].
  rewrite (rcl_before_tags _ custom tags rest (next_ok_ends _ Hr)), (opt_tags_item custom tags rest Ht). reflexivity.
Qed.

(** spawnflag items *)
Local Notation labelled := (labelled dec).
Local Notation label_of := (label_of dec).
Local Notation unlabel := (unlabel dec).
Definition fitoks (label custom : bool) (it : N * list str * bool * list str) : list tok :=
  let '(v, name, d, tags) := it in
  TStr (dec v) :: TColon :: str_toks (labelled label v name) ++ TColon :: TStr (if d then S1 else S0) :: opt_tag_toks custom tags.
Definition fires (custom : bool) (it : N * list str * bool * list str) : N * list str * bool * list str :=
  let '(v, name, d, tags) := it in (v, [concat name], d, seen_tags custom tags).
(** the name does not start with a blank (the reader strips after a label) and, when no label is written, does not
    itself start with `[value]` *)
Definition fiwf (label : bool) (it : N * list str * bool * list str) : Prop :=
  let '(v, name, d, tags) := it in
  pow2 v = true /\ name <> [] /\ lstrip (concat name) = concat name
  /\ (label = false -> prefix (label_of v) (concat name) = None) /\ tags_wf tags.
Lemma flag_toks_eq label custom it : flag_item_toks label custom it = fitoks label custom it ++ [TNl].
Proof.
  destruct it as [[[v name] d] tags]. unfold FgdLine.flag_item_toks, fitoks, opt_tag_toks. cbn [app].
  rewrite <- app_assoc. cbn [app]. reflexivity.
Qed.
Lemma prefix_app p s : prefix p (p ++ s) = Some s.
Proof. induction p as [|x p IH]; cbn [app prefix]; [reflexivity|]. rewrite N.eqb_refl. exact IH. Qed.
Lemma labelled_ne label v name : name <> [] -> labelled label v name <> [].
Proof. unfold FgdLine.labelled. destruct label, name; congruence. Qed.
Lemma unlabel_labelled label v name : name <> [] -> lstrip (concat name) = concat name ->
  (label = false -> prefix (label_of v) (concat name) = None) -> unlabel v (concat (labelled label v name)) = concat name.
Proof.
  intros Hn Hl Hp. unfold FgdLine.unlabel, FgdLine.labelled. destruct label.
  - destruct name as [|x r]; [congruence|]. cbn [concat]. rewrite <- !app_assoc. cbn [app].
    rewrite prefix_app. change (32 :: x ++ concat r) with (32 :: concat (x :: r)).
    cbn [lstrip]. change (blankc 32) with true. cbn iota. exact Hl.
  - rewrite (Hp eq_refl). reflexivity.
Qed.
Lemma flag_step label custom it acc f rest : fiwf label it -> next_ok rest ->
  parse_array (S f) parse_flag acc (fitoks label custom it ++ TNl :: rest)
  = parse_array f parse_flag (acc ++ [fires custom it]) (TNl :: rest).
Proof.
  destruct it as [[[v name] d] tags]. intros [Hp [Hn [Hl [Hx Ht]]]] Hr. unfold fitoks, fires.
  cbn [app FgdLine.parse_array skip_nl]. unfold read_colon_list.
  rewrite <- app_assoc, (rcl_colon_str _ [] _ (labelled_ne label v name Hn)). cbn [app rcl].
  rewrite (rcl_before_tags _ custom tags rest (next_ok_ends _ Hr)), (opt_tags_item custom tags rest Ht).
  unfold FgdLine.parse_flag. rewrite undec_dec, Hp, (unlabel_labelled label v name Hn Hl Hx).
  destruct d; reflexivity.
Qed.

Lemma citoks_first custom it : ciwf it -> exists v r, citoks custom it = TStr v :: r.
Proof. destruct it as [[v name] tags]. intros _. unfold citoks. eauto. Qed.
Lemma fitoks_first label custom it : fiwf label it -> exists v r, fitoks label custom it = TStr v :: r.
Proof. destruct it as [[[v name] d] tags]. intros _. unfold fitoks. eauto. Qed.

(** Choices keyvalues: the line and its value list read back, every item with its value, display name and tags *)
Theorem kv_choices_roundtrip label custom (k : kvline) items rest :
  tags_wf (l_tags vt k) -> vt_is_flags (l_type vt k) = false -> vt_is_choices (l_type vt k) = true ->
  l_list vt k = Choices items -> Forall ciwf items ->
  l_disp vt k <> [] -> yes_no (l_type vt k) (default_written k) = default_written k ->
  kv_parse (l_name vt k) (tl (kv_toks label custom k) ++ rest)
  = Some (kv_norm custom k (Choices (map (cires custom) items)), TNl :: rest).
Proof.
  intros Ht Hf Hc Hl Hi Hd Hy. rewrite kv_toks_split. cbn [tl]. unfold list_toks. rewrite Hl.
  rewrite <- !app_assoc. rewrite head_read; [|exact Ht|unfold fields_toks; rewrite Hf; exact I].
  cbn [app]. rewrite (kv_rest_fields k _ TEq _ Hf Hd Hy (or_introl eq_refl)). cbn zeta. rewrite Hc.
  rewrite (map_ext _ _ (choice_toks_eq custom)). rewrite <- !app_assoc. cbn [app].
  rewrite (array_read _ _ parse_choice (citoks custom) (cires custom) ciwf (citoks_first custom)
             (fun it acc f r => choice_step custom it acc f r) items _ Hi). reflexivity.
Qed.

(** Spawnflags keyvalues (no display name, default or description of their own) *)
Theorem kv_flags_roundtrip label custom (k : kvline) items rest :
  tags_wf (l_tags vt k) -> vt_is_flags (l_type vt k) = true -> vt_is_choices (l_type vt k) = false ->
  l_list vt k = Flags items -> Forall (fiwf label) items ->
  default_written k = [] -> concat (l_desc vt k) = [] ->
  kv_parse (l_name vt k) (tl (kv_toks label custom k) ++ rest)
  = Some (mk_kvl vt (l_name vt k) (seen_tags custom (l_tags vt k)) (l_type vt k) (l_ro vt k) (l_report vt k)
                 [l_name vt k] [] [[]] (Flags (map (fires custom) items)), TNl :: rest).
Proof.
  intros Ht Hf Hc Hl Hi Hd Hs. rewrite kv_toks_split. cbn [tl]. unfold list_toks, fields_toks. rewrite Hl, Hf, Hd, Hs.
  cbn [nil_b app]. rewrite <- !app_assoc. rewrite head_read; [|exact Ht|exact I].
  cbn [app]. unfold FgdLine.kv_rest. rewrite Hf, Hc, yes_no_nil.
  rewrite (map_ext _ _ (flag_toks_eq label custom)). rewrite <- !app_assoc. cbn [app].
  rewrite (array_read _ _ parse_flag (fitoks label custom) (fires custom) (fiwf label) (fitoks_first label custom)
             (fun it acc f r => flag_step label custom it acc f r) items _ Hi). reflexivity.
Qed.

(** * Input / output lines *)
Local Notation io_toks := (io_toks vt io_text).
Local Notation io_parse := (io_parse tag_norm tags_valid vt io_lookup).
Theorem io_roundtrip custom (o : ioline vt) rest : tags_wf (o_tags vt o) -> ends_line rest ->
  io_parse (io_toks custom o ++ rest)
  = Some (mk_iol vt (o_name vt o) (seen_tags custom (o_tags vt o)) (io_decay (o_type vt o)) [concat (o_desc vt o)], rest).
Proof.
  intros [Hok Hv] He. unfold FgdLine.io_toks, FgdLine.io_parse. cbn [app skip_nl]. rewrite <- !app_assoc.
  assert (Ht : opt_tags ((if custom then tags_toks (o_tags vt o) else []) ++ (TParen (io_text (o_type vt o))
                 :: (if nil_b (concat (o_desc vt o)) then [] else TColon :: str_toks (o_desc vt o)) ++ [TNl]) ++ rest)
               = Some (seen_tags custom (o_tags vt o), (TParen (io_text (o_type vt o))
                 :: (if nil_b (concat (o_desc vt o)) then [] else TColon :: str_toks (o_desc vt o)) ++ [TNl]) ++ rest)).
  { unfold seen_tags. destruct custom; [apply opt_tags_ok; [exact Hok|exact Hv|intros _; exact I]|reflexivity]. }
  rewrite Ht. cbn [app]. rewrite io_lookup_text. unfold read_colon_list.
  destruct (nil_b (concat (o_desc vt o))) eqn:Ed.
  - apply nil_b_true in Ed. cbn [app]. rewrite (rcl_end_nl [] rest He), Ed. reflexivity.
  - cbn [app]. rewrite <- app_assoc. rewrite (rcl_colon_str _ [] _ (nil_b_concat_ne _ Ed)). cbn [app]. rewrite (rcl_end_nl _ rest He). reflexivity.
Qed.

(** * @resources *)
Variable rt : Type.
Variable rt_text : rt -> str.
Variable rt_lookup : str -> option rt.
Hypothesis rt_lookup_text : forall t, rt_lookup (rt_text t) = Some t.
Local Notation res_toks := (res_toks cfg rt rt_text).
Local Notation res_loop := (res_loop tag_norm tags_valid rt rt_lookup).
Local Notation res_read := (res_read tag_norm tags_valid rt rt_lookup).
Local Notation res_item_toks := (res_item_toks rt rt_text).
Definition riwf (it : rt * str * list str) : Prop := tags_wf (snd it).

Lemma res_skip_nl g acc more : res_loop (S g) acc (TNl :: more) = res_loop g acc more.
Proof. reflexivity. Qed.
Lemma res_step_plain g acc t file more :
  res_loop (S g) acc (TStr (rt_text t) :: TStr file :: TNl :: more) = res_loop g (acc ++ [(t, file, [])]) more.
Proof. cbn [FgdLine.res_loop]. rewrite rt_lookup_text. reflexivity. Qed.
Lemma res_step_tags g acc t file tags more : Forall tag_ok tags -> tags_valid tags = true -> tags <> [] ->
  res_loop (S g) acc (TStr (rt_text t) :: TStr file :: TBrOpen :: tag_list_toks tags ++ TBrClose :: TNl :: more)
  = res_loop g (acc ++ [(t, file, tags)]) (TNl :: more).
Proof.
  intros Hok Hv Hne. cbn [FgdLine.res_loop]. rewrite rt_lookup_text. cbn [skip_nl]. unfold FgdLine.read_tags.
  rewrite (read_tag_list tags [] _ Hok Hne). cbn [app]. rewrite Hv. reflexivity.
Qed.

Lemma res_items items : forall acc f rest, Forall riwf items -> (2 * length items < f)%nat ->
  res_loop f acc (concat (map res_item_toks items) ++ TBrClose :: rest) = Some (acc ++ items, rest).
Proof.
  induction items as [|[[t file] tags] items IH]; intros acc f rest Hwf Hf.
  - destruct f; [cbn [length] in Hf; lia|]. cbn. rewrite app_nil_r. reflexivity.
  - inversion Hwf as [|? ? [Hok Hv] Hrest]; subst. cbn [snd] in Hok, Hv.
    destruct f as [|g]; [cbn [length] in Hf; lia|].
    cbn [map concat FgdLine.res_item_toks]. rewrite <- !app_assoc. cbn [app].
    destruct tags as [|tg tags].
    + cbn [tags_toks app]. rewrite res_step_plain.
      rewrite IH; [rewrite <- app_assoc; reflexivity|exact Hrest|cbn [length] in Hf; lia].
    + unfold tags_toks. cbn [app]. rewrite <- !app_assoc. cbn [app].
      rewrite (res_step_tags g acc t file (tg :: tags) _ Hok Hv) by discriminate.
      destruct g as [|g]; [cbn [length] in Hf; lia|]. rewrite res_skip_nl.
      rewrite IH; [rewrite <- app_assoc; reflexivity|exact Hrest|cbn [length] in Hf; lia].
Qed.

Lemma res_items_len items : (2 * length items <= length (concat (map res_item_toks items)))%nat.
Proof.
  induction items as [|[[t file] tags] items IH]; cbn [map concat length]; [lia|].
  unfold FgdLine.res_item_toks at 1. cbn [app length]. rewrite !app_length. cbn [length]. lia.
Qed.

(** what the entity loop reads from what EntityDef.export wrote for the resources (extended syntax), up to the
    entity's closing bracket: [None] (`resources == ()`, nothing written) stays undefined, a defined list — empty or
    not — comes back as that list *)
Theorem res_roundtrip res rest : res_block_if_defined cfg = true ->
  match res with Some l => Forall riwf l | None => True end ->
  res_read (res_toks true res ++ TBrClose :: rest)
  = Some (res, match res with Some _ => TNl :: TBrClose :: rest | None => TBrClose :: rest end).
Proof.
  intros Hc Hwf. destruct res as [l|]; [|reflexivity].
  unfold FgdLine.res_toks. rewrite Hc. cbn [andb orb app]. unfold FgdLine.res_read. cbn [skip_nl].
  change (str_eqb (lower AT_RESOURCES) AT_RESOURCES) with true. cbn iota.
  unfold FgdLine.res_parse. cbn [skip_nl]. rewrite res_skip_nl.
  rewrite <- app_assoc. cbn [app]. rewrite res_items; [reflexivity|exact Hwf|].
  cbn [length]. rewrite app_length. pose proof (res_items_len l). cbn [length]. lia.
Qed.
End Proofs.
