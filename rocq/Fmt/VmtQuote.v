(* VmtQuote.v -- VMT parameters are written `\t<name> <value>\n`, each of the two quoted ON DEMAND: vmt._needs_quotes
   decides, the decision table is regenerated from vmt.py / tokenizer.py (Gen/TextFields_gen.v: vmt_nq).  Model of the
   decision and of the written line.  Definitions only; lemmas in VmtQuoteProofs.v. *)
From Coq Require Import List NArith Bool.
From SV Require Import KV.KvBase KV.KvLex.
Import ListNotations.
Open Scope N_scope.

(** `not text or text[0] in LEADING or any(c in DISALLOWED for c in text)` *)
Record nqcfg := mkNq { nq_empty : bool; nq_leading : list char; nq_disallowed : list char }.

Definition needs_quotes (c : nqcfg) (v : str) : bool :=
  match v with
  | [] => nq_empty c
  | h :: _ => mem h (nq_leading c) || existsb (fun x => mem x (nq_disallowed c)) v
  end.

(** what the decision must cover for the tokenizer: the empty string (it would vanish), a leading '/' (comment) or
    '#' (directive), and every character that ends a bare string *)
Definition kvlex_delims : list char := [34; 39; 123; 125; 59; 44; 61; 91; 93; 40; 41; 13; 10; 9; 32].
Definition nq_okb (c : nqcfg) : bool :=
  nq_empty c && mem 47 (nq_leading c) && mem 35 (nq_leading c) && forallb (fun d => mem d (nq_disallowed c)) kvlex_delims.

Definition quote_on_demand (c : nqcfg) (v : str) : str := if needs_quotes c v then DQ :: v ++ [DQ] else v.
(** one parameter line of Material.export *)
Definition param_line (c : nqcfg) (name value : str) : str :=
  [TAB] ++ quote_on_demand c name ++ [SP] ++ quote_on_demand c value ++ [LF].
