(* VmtQuote.v -- VMT parameters are written `\t<name> <value>\n`, each of the two quoted ON DEMAND: vmt._needs_quotes
   decides, the decision table is regenerated from vmt.py / tokenizer.py (Gen/TextFields_gen.v: vmt_nq).  Model of the
   decision and of the written line.  Definitions only; lemmas in VmtQuoteProofs.v. *)
From Coq Require Import List NArith Bool.
From SV Require Import KV.KvBase KV.KvLex.
Import ListNotations.
Open Scope N_scope.

(** `not text or text[0] in LEADING or any(c in DISALLOWED for c in text)` *)
Record nqcfg := mkNq { nq_empty : bool; nq_leading : list char; nq_disallowed : list char }.

Definition needs_quotes (c : nqcfg) (v : str) : bool :=
  match v with
  | [] => nq_empty c
  | h :: _ => mem h (nq_leading c) || existsb (fun x => mem x (nq_disallowed c)) v
  end.

(** what the decision must cover for the tokenizer: the empty string (it would vanish), a leading '/' (comment) or
    '#' (directive), and every character that ends a bare string *)
Definition kvlex_delims : list char := [34; 39; 123; 125; 59; 44; 61; 91; 93; 40; 41; 13; 10; 9; 32].
Definition nq_okb (c : nqcfg) : bool :=
  nq_empty c && mem 47 (nq_leading c) && mem 35 (nq_leading c) && forallb (fun d => mem d (nq_disallowed c)) kvlex_delims.

Definition quote_on_demand (c : nqcfg) (v : str) : str := if needs_quotes c v then DQ :: v ++ [DQ] else v.
(** one parameter line of Material.export *)
Definition param_line (c : nqcfg) (name value : str) : str :=
  [TAB] ++ quote_on_demand c name ++ [SP] ++ quote_on_demand c value ++ [LF].

(** the whole file of a material that has parameters only (no sub-blocks, no proxies): Material.export writes
    `<shader>\n\t{\n`, one parameter line per parameter, `\t}\n`; the shader is written as it is *)
Definition params_text (c : nqcfg) (ps : list (str * str)) : str := flat_map (fun p => param_line c (fst p) (snd p)) ps.
Definition vmt_file (c : nqcfg) (shader : str) (ps : list (str * str)) : str :=
  shader ++ [LF; TAB; 123; LF] ++ params_text c ps ++ [TAB; 125; LF].
(** the token stream Material.parse has to see: shader, newline, `{`, newline, (name, value, newline)*, `}`, newline *)
Definition param_tokens (ps : list (str * str)) : list tok := flat_map (fun p => [TStr (fst p); TStr (snd p); TNL]) ps.
Definition vmt_tokens (shader : str) (ps : list (str * str)) : list tok :=
  [TStr shader; TNL; TBO; TNL] ++ param_tokens ps ++ [TBC; TNL].
