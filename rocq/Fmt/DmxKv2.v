(** C14 — model of the KeyValues2 text form of DMX (srctools/dmx.py [Element.export_kv2] / [_export_kv2] /
    [parse_kv2] / [_parse_kv2_element]) on the shared text layer (Text/Escape.v, Text/Tokenizer.v).

    Part 1: the decision which form an element-valued item is written in ([""element" """], [""element" "uuid""] or an
    inline block) — a table per site (scalar attribute, array item) that the translator regenerates.
    Part 2: the text of a document in the *flat* layout (every element at the top level, element values written as
    references): the writer as a list of lexemes (leading blanks + quoted escaped string / raw quoted text / CR LF /
    brace / bracket / comma), the tokenizer run over the whole text ([lex_all], the real [get_token] model), and the
    parser of [parse_kv2] / [_parse_kv2_element] over the token list (push-back = cons).
    Values are kept as the *strings* between the quotes: the conversion between a typed value and its string
    ([TYPE_CONVERT[t, STRING]] / [TYPE_CONVERT[STRING, t]]), UUID text <-> UUID, the UUID fix-up pass and inline
    (nested) element blocks are outside this model.
    Executable definitions only; proofs are in DmxKv2Proofs.v. *)
From Coq Require Import NArith List Bool.
From SV Require Import Text.Str Text.Prog Text.Escape Text.Tokenizer.
Import ListNotations.
Open Scope N_scope.

(** * Part 1: reference decision tables *)
Inductive rcond := CNull | CStub | CRoot | COr (a b : rcond) | CAnd (a b : rcond) | CNot (a : rcond) | CTrue.
Inductive raction := ANullRef | AUuidRef | AInline.
Definition rtable := list (rcond * raction).

Fixpoint rc_eval (c : rcond) (is_null is_stub in_roots : bool) : bool :=
  match c with
  | CNull => is_null | CStub => is_stub | CRoot => in_roots
  | COr a b => rc_eval a is_null is_stub in_roots || rc_eval b is_null is_stub in_roots
  | CAnd a b => rc_eval a is_null is_stub in_roots && rc_eval b is_null is_stub in_roots
  | CNot a => negb (rc_eval a is_null is_stub in_roots)
  | CTrue => true
  end.
(** the if / elif / else chain: first condition that holds *)
Fixpoint decide (t : rtable) (is_null is_stub in_roots : bool) : option raction :=
  match t with
  | [] => None
  | (c, a) :: r => if rc_eval c is_null is_stub in_roots then Some a else decide r is_null is_stub in_roots
  end.
(** What the format needs: NULL as the empty reference; stubs (never written as elements) and elements written at
    the top level by reference; everything else inline. *)
Definition ref_spec (is_null is_stub in_roots : bool) : raction :=
  if is_null then ANullRef else if is_stub || in_roots then AUuidRef else AInline.
Definition raction_eqb (a b : raction) : bool :=
  match a, b with ANullRef, ANullRef | AUuidRef, AUuidRef | AInline, AInline => true | _, _ => false end.
Definition oaction_eqb (a b : option raction) : bool :=
  match a, b with Some x, Some y => raction_eqb x y | None, None => true | _, _ => false end.
Definition all_bool3 : list (bool * bool * bool) :=
  [(false,false,false);(false,false,true);(false,true,false);(false,true,true);
   (true,false,false);(true,false,true);(true,true,false);(true,true,true)].
Definition rtable_ok (t : rtable) : bool :=
  forallb (fun x : bool * bool * bool => let '(n, s, r) := x in oaction_eqb (decide t n s r) (Some (ref_spec n s r))) all_bool3.
Definition rtables_agree (a b : rtable) : bool :=
  forallb (fun x : bool * bool * bool => let '(n, s, r) := x in oaction_eqb (decide a n s r) (decide b n s r)) all_bool3.
Definition stub_by_reference (t : rtable) : bool :=
  oaction_eqb (decide t false true false) (Some AUuidRef) && oaction_eqb (decide t false true true) (Some AUuidRef).

(** the table of the pinned tree, and the array-site table with [or child.is_stub] dropped (seeded fault class) *)
Definition pinned_rtable : rtable := [(CNull, ANullRef); (COr CRoot CStub, AUuidRef); (CTrue, AInline)].
Definition no_stub_rtable : rtable := [(CNull, ANullRef); (CRoot, AUuidRef); (CTrue, AInline)].

(** * Part 2: flat-layout text *)
Definition LBRACE : char := 123.
Definition RBRACE : char := 125.
Definition COMMAC : char := 44.

Fixpoint str_eqb (a b : str) : bool :=
  match a, b with
  | [], [] => true
  | x :: a', y :: b' => (x =? y) && str_eqb a' b'
  | _, _ => false
  end.
Definition tok_tag (t : tok) : N :=
  match t with
  | EOF => 0 | STRING => 1 | NEWLINE => 2 | PAREN_ARGS => 3 | DIRECTIVE => 4 | COMMENT => 5 | BRACE_OPEN => 6
  | BRACE_CLOSE => 7 | PAREN_OPEN => 8 | PAREN_CLOSE => 9 | PROP_FLAG => 10 | BRACK_OPEN => 11 | BRACK_CLOSE => 12
  | COLON => 13 | EQUALS => 14 | PLUS => 15 | COMMA => 16
  end.
Definition tok_eqb (a b : tok) : bool := tok_tag a =? tok_tag b.

(** Literal texts *)
Definition s_element : str := [101;108;101;109;101;110;116].                 (* element *)
Definition s_elementid : str := [101;108;101;109;101;110;116;105;100].       (* elementid *)
Definition s_id : str := [105;100].                                          (* id *)
Definition s_name : str := [110;97;109;101].                                 (* name *)
Definition s_string : str := [115;116;114;105;110;103].                      (* string *)
Definition s_array : str := [95;97;114;114;97;121].                          (* _array *)

(** ** Documents at the level of the text: values are the strings between the quotes *)
Inductive kitem := KStr (s : str) | KNull | KRef (uuid_text : str).
Record kattr := { ka_name : str; ka_type : str; ka_arr : bool; ka_items : list kitem }.
Record kelem := { ke_type : str; ke_id : option str; ke_name : str; ke_attrs : list kattr }.
Definition kdoc := list kelem.

(** ** Lexemes: what the writer emits between two token boundaries *)
Inductive ltok :=
| LQ (s : str)        (* ["%b"] of escape_text(s) *)
| LRaw (s : str)      (* ["%b"] of a text written without escape_text (type keywords, UUID text) *)
| LNl                 (* CR LF *)
| LBraceO | LBraceC | LBrackO | LBrackC | LComma.
Definition lexeme := (str * ltok)%type.       (* leading blanks (tabs / spaces), then the token text *)

Section Kv2.
Variable T : tables.
Variable o : opts.

Definition ltok_text (t : ltok) : str :=
  match t with
  | LQ s => DQ :: escape T false s ++ [DQ]
  | LRaw s => DQ :: s ++ [DQ]
  | LNl => [CR; LF]
  | LBraceO => [LBRACE] | LBraceC => [RBRACE] | LBrackO => [LBRACK] | LBrackC => [RBRACK] | LComma => [COMMAC]
  end.
Definition render_lex (ls : list lexeme) : str := flat_map (fun l : lexeme => fst l ++ ltok_text (snd l)) ls.
Definition ltok_tok (t : ltok) : tok * str :=
  match t with
  | LQ s => (STRING, s) | LRaw s => (STRING, s) | LNl => (NEWLINE, [LF])
  | LBraceO => (BRACE_OPEN, [LBRACE]) | LBraceC => (BRACE_CLOSE, [RBRACE])
  | LBrackO => (BRACK_OPEN, [LBRACK]) | LBrackC => (BRACK_CLOSE, [RBRACK]) | LComma => (COMMA, [COMMAC])
  end.
Definition toks_of (ls : list lexeme) : list (tok * str) := map (fun l : lexeme => ltok_tok (snd l)) ls.

(** ** The writer ([export_kv2(flat=True)] after the header line; [_export_kv2] with [indent = b''];
    element values are always references in this layout) *)
Definition T1 : str := [TAB].
Definition T2 : str := [TAB; TAB].
Definition lex_ref (w : str) (it : kitem) : list lexeme :=
  match it with
  | KStr s => [(w, LQ s)]
  | KNull => [(w, LRaw s_element); ([SP], LRaw [])]
  | KRef u => [(w, LRaw s_element); ([SP], LRaw u)]
  end.
Fixpoint lex_items (its : list kitem) : list lexeme :=
  match its with
  | [] => []
  | [it] => lex_ref T2 it ++ [([], LNl)]
  | it :: r => lex_ref T2 it ++ [([], LComma); ([], LNl)] ++ lex_items r
  end.
Definition is_elem_type (t : str) : bool := str_eqb t s_element.
Definition lex_attr (a : kattr) : list lexeme :=
  if ka_arr a then
    [(T1, LQ (ka_name a)); ([SP], LRaw (ka_type a ++ s_array)); ([], LNl); (T1, LBrackO); ([], LNl)] ++
    lex_items (ka_items a) ++ [(T1, LBrackC); ([], LNl)]
  else match ka_items a with
       | [it] => if is_elem_type (ka_type a)
                 then (T1, LQ (ka_name a)) :: lex_ref [SP] it ++ [([], LNl)]
                 else match it with
                      | KStr v => [(T1, LQ (ka_name a)); ([SP], LRaw (ka_type a)); ([SP], LQ v); ([], LNl)]
                      | _ => []
                      end
       | _ => []
       end.
Definition lex_elem (e : kelem) : list lexeme :=
  [([], LQ (ke_type e)); ([], LNl); ([], LBraceO); ([], LNl)] ++
  match ke_id e with
  | Some u => [(T1, LRaw s_id); ([SP], LRaw s_elementid); ([SP], LRaw u); ([], LNl)]
  | None => []
  end ++
  [(T1, LRaw s_name); ([SP], LRaw s_string); ([SP], LQ (ke_name e)); ([], LNl)] ++
  flat_map lex_attr (ke_attrs e) ++ [([], LBraceC)].
(** [for elem in elements: if elem is not self: write(CRLF); elem._export_kv2(...); write(CRLF)] *)
Definition lex_doc (d : kdoc) : list lexeme :=
  match d with
  | [] => []
  | e :: r => lex_elem e ++ [([], LNl)] ++ flat_map (fun x => ([], LNl) :: lex_elem x ++ [([], LNl)]) r
  end.
Definition render_doc (d : kdoc) : str := render_lex (lex_doc d).

(** ** The tokenizer over the whole text: [tok()] until EOF.  [n] bounds the number of tokens, [F] is the fuel of one
    [_get_token] call; [None] = TokenSyntaxError (or fuel, excluded in the theorems). *)
Fixpoint lex_all (n F : nat) (line : N) (lcr : bool) (l : str) : option (list (tok * str)) :=
  match n with
  | O => None
  | S n' =>
      match run_flat (get_token T o F line lcr) l with
      | (RTok EOF _ _ _, _) => Some []
      | (RTok k v line' lcr', l') => option_map (cons (k, v)) (lex_all n' F line' lcr' l')
      | _ => None
      end
  end.
Definition tokenize (text : str) : option (list (tok * str)) :=
  lex_all (S (length text)) (length text + 2) 1 false text.

(** ** The parser over the token list.  [tok()] on the empty list is EOF; [push_back] is cons. *)
Definition tl := list (tok * str).
Variable fold : str -> str.           (* str.casefold *)
Variable vtnames : list str.          (* the values of the ValueType enum *)

(** [tok.expect(want)] with skip_newline (want is never NEWLINE here) *)
Fixpoint expect (want : tok) (l : tl) : option (str * tl) :=
  match l with
  | [] => None
  | (k, v) :: r => if tok_eqb k want then Some (v, r) else if tok_eqb k NEWLINE then expect want r else None
  end.
Fixpoint skip_nl (l : tl) : tl :=
  match l with
  | (k, v) :: r => if tok_eqb k NEWLINE then skip_nl r else l
  | [] => []
  end.
(** [next_tok = tok(); while next_tok is NEWLINE: next_tok = tok(); if next_tok is not COMMA: push_back] *)
Definition skip_comma (l : tl) : tl :=
  match skip_nl l with
  | (k, v) :: r => if tok_eqb k COMMA then r else (k, v) :: r
  | [] => []
  end.
Definition ref_of (u : str) : kitem := match u with [] => KNull | _ => KRef u end.

(** the array loop of [_parse_kv2_element] (after BRACK_OPEN) *)
Fixpoint array_loop (n : nat) (is_elem : bool) (acc : list kitem) (l : tl) : option (list kitem * tl) :=
  match n with
  | O => None
  | S n' =>
      match skip_nl l with
      | [] => None                                        (* 'Unterminated array!' *)
      | (k, v) :: r =>
          if tok_eqb k BRACK_CLOSE then Some (rev acc, r)
          else if tok_eqb k STRING then
            if is_elem then
              if str_eqb v s_element then
                match expect STRING r with
                | Some (u, r1) => array_loop n' is_elem (ref_of u :: acc) (skip_comma r1)
                | None => None
                end
              else None                                   (* inline compound element: outside this model *)
            else array_loop n' is_elem (KStr v :: acc) (skip_comma r)
          else None
      end
  end.

Fixpoint ends_with (s suf : str) : bool :=
  str_eqb s suf || match s with [] => false | _ :: r => ends_with r suf end.
Definition mem_str (s : str) (l : list str) : bool := existsb (str_eqb s) l.

(** one attribute after its name and type tokens: [typ] is the casefolded type token *)
Definition read_value (name typ : str) (l : tl) : option (kattr * tl) :=
  let is_arr := ends_with typ s_array in
  let base := if is_arr then firstn (length typ - 6) typ else typ in
  if mem_str base vtnames then
    if is_arr then
      match expect BRACK_OPEN l with
      | Some (_, r) =>
          match array_loop (S (length r)) (is_elem_type base) [] r with
          | Some (its, r1) => Some ({| ka_name := name; ka_type := base; ka_arr := true; ka_items := its |}, r1)
          | None => None
          end
      | None => None
      end
    else
      match expect STRING l with
      | Some (v, r) =>
          Some ({| ka_name := name; ka_type := base; ka_arr := false;
                   ka_items := [if is_elem_type base then ref_of v else KStr v] |}, r)
      | None => None
      end
  else None.                                              (* inline compound element: outside this model *)

(** [for attr_name in tok.block(name)] after the BRACE_OPEN *)
Fixpoint body_loop (n : nat) (id : option str) (name : str) (attrs : list kattr) (l : tl)
  : option (option str * str * list kattr * tl) :=
  match n with
  | O => None
  | S n' =>
      match l with
      | [] => None                                        (* 'Unclosed block!' *)
      | (k, an) :: r =>
          if tok_eqb k BRACE_CLOSE then Some (id, name, rev attrs, r)
          else if tok_eqb k NEWLINE then body_loop n' id name attrs r
          else if tok_eqb k STRING then
            match expect STRING r with
            | Some (orig, r1) =>
                let typ := fold orig in
                if str_eqb an s_id && str_eqb typ s_elementid then
                  match expect STRING r1, id with
                  | Some (u, r2), None => body_loop n' (Some u) name attrs r2
                  | _, _ => None                          (* 'Duplicate UUID definition!' *)
                  end
                else if str_eqb an s_name then
                  if str_eqb typ s_string then
                    match expect STRING r1 with
                    | Some (nm, r2) => body_loop n' id nm attrs r2
                    | None => None
                    end
                  else None
                else match read_value an typ r1 with
                     | Some (a, r2) => body_loop n' id name (a :: attrs) r2
                     | None => None
                     end
            | None => None
            end
          else None
      end
  end.

(** the top-level loop of [parse_kv2] *)
Fixpoint doc_loop (n : nat) (acc : list kelem) (l : tl) : option kdoc :=
  match n with
  | O => None
  | S n' =>
      match l with
      | [] => match acc with [] => None | _ => Some (rev acc) end     (* 'No elements in DMX file!' *)
      | (k, v) :: r =>
          if tok_eqb k STRING then
            match expect BRACE_OPEN r with
            | Some (_, r1) =>
                match body_loop (S (length r1)) None [] [] r1 with
                | Some (id, nm, attrs, r2) =>
                    doc_loop n' ({| ke_type := v; ke_id := id; ke_name := nm; ke_attrs := attrs |} :: acc) r2
                | None => None
                end
            | None => None
            end
          else if tok_eqb k NEWLINE then doc_loop n' acc r
          else None
      end
  end.
Definition parse_tokens (l : tl) : option kdoc := doc_loop (S (length l)) [] l.
Definition parse_text (text : str) : option kdoc :=
  match tokenize text with Some l => parse_tokens l | None => None end.

(** [_kv2_type_is_keyword]: would the parser read this element type as an attribute type keyword?  The same tests
    [_parse_kv2_element] makes on the (casefolded) token after an attribute name. *)
Definition type_is_keyword (t : str) : bool :=
  let typ := fold t in
  str_eqb typ s_elementid ||
  mem_str (if ends_with typ s_array then firstn (length typ - 6) typ else typ) vtnames.

(** ** Conditions *)
(** on the tokenizer tables and options *)
Definition is_none {A} (x : option A) : bool := match x with None => true | Some _ => false end.
Definition op_is (c : char) (k : tok) : bool :=
  match lookup c (operators T) with Some k' => tok_eqb k k' | None => false end.
Definition kv2_tables_ok : bool :=
  tbl_ok T false &&
  forallb (fun c => is_none (lookup c (operators T))) [DQ; CR; LF; TAB; SP; LBRACK; RBRACK] &&
  op_is LBRACE BRACE_OPEN && op_is RBRACE BRACE_CLOSE && op_is COMMAC COMMA.
Definition kv2_opts_ok : bool := allow_escapes o && negb (string_bracket o).

(** on the type keywords: fixed by casefold and by escape_text, with and without [_array]; none ends in [_array];
    [element] is one of them and [elementid] is not *)
Definition vtname_ok (t : str) : bool :=
  str_eqb (fold t) t && str_eqb (fold (t ++ s_array)) (t ++ s_array) && negb (ends_with t s_array) &&
  str_eqb (escape T false t) t && str_eqb (escape T false (t ++ s_array)) (t ++ s_array) &&
  negb (str_eqb t s_elementid) && negb (str_eqb (t ++ s_array) s_elementid).
Definition literal_ok (s : str) : bool := str_eqb (escape T false s) s.
Definition vtnames_ok : bool :=
  forallb vtname_ok vtnames && mem_str s_element vtnames && negb (mem_str s_elementid vtnames) &&
  mem_str s_string vtnames &&
  forallb literal_ok [s_element; s_elementid; s_id; s_name; s_string; []] &&
  str_eqb (fold s_elementid) s_elementid && str_eqb (fold s_string) s_string.

(** on a document: what the flat layout can carry at this level *)
Definition blank_free_uuid (u : str) : bool := literal_ok u && negb (str_eqb u []).
Definition item_ok (is_elem : bool) (it : kitem) : bool :=
  match it with
  | KStr _ => negb is_elem
  | KNull => is_elem
  | KRef u => is_elem && blank_free_uuid u
  end.
Definition attr_ok (a : kattr) : bool :=
  mem_str (ka_type a) vtnames && negb (str_eqb (ka_name a) s_name) &&
  forallb (item_ok (is_elem_type (ka_type a))) (ka_items a) &&
  (ka_arr a || Nat.eqb (length (ka_items a)) 1).
Definition elem_ok (e : kelem) : bool :=
  match ke_id e with Some u => blank_free_uuid u | None => true end && forallb attr_ok (ke_attrs e).
Definition doc_ok (d : kdoc) : bool := negb (match d with [] => true | _ => false end) && forallb elem_ok d.

End Kv2.

(** * Part 3: the element graph behind a flat document *)
Inductive gref := GElem (i : nat) | GNull | GStub (uuid_text : str).
Inductive gitem := GStr (s : str) | GRef (r : gref).
Record gattr := { ga_name : str; ga_type : str; ga_arr : bool; ga_items : list gitem }.
Record gelem := { ge_type : str; ge_id : str; ge_name : str; ge_attrs : list gattr }.
Definition gdoc := list gelem.

(** writer: references become the UUID text of the element referred to *)
Definition flat_item (ids : list str) (it : gitem) : kitem :=
  match it with
  | GStr s => KStr s
  | GRef (GElem i) => KRef (nth i ids [])
  | GRef GNull => KNull
  | GRef (GStub u) => KRef u
  end.
Definition flat_attr (ids : list str) (a : gattr) : kattr :=
  {| ka_name := ga_name a; ka_type := ga_type a; ka_arr := ga_arr a; ka_items := map (flat_item ids) (ga_items a) |}.
Definition flat_elem (ids : list str) (e : gelem) : kelem :=
  {| ke_type := ge_type e; ke_id := Some (ge_id e); ke_name := ge_name e; ke_attrs := map (flat_attr ids) (ge_attrs e) |}.
Definition flatten (g : gdoc) : kdoc := map (flat_elem (map ge_id g)) g.

(** reader: [id_to_elem[elem.uuid] = elem] while parsing (a later element with the same id replaces an earlier
    one), then the fix-up pass: a referenced id that is in the table becomes that element, any other stays a stub *)
Fixpoint last_index (u : str) (ids : list str) (base : nat) : option nat :=
  match ids with
  | [] => None
  | x :: r => match last_index u r (S base) with
              | Some i => Some i
              | None => if str_eqb u x then Some base else None
              end
  end.
Definition link_item (ids : list str) (it : kitem) : gitem :=
  match it with
  | KStr s => GStr s
  | KNull => GRef GNull
  | KRef u => GRef (match last_index u ids 0 with Some i => GElem i | None => GStub u end)
  end.
Definition link_attr (ids : list str) (a : kattr) : gattr :=
  {| ga_name := ka_name a; ga_type := ka_type a; ga_arr := ka_arr a; ga_items := map (link_item ids) (ka_items a) |}.
Fixpoint all_ids (d : kdoc) : option (list str) :=
  match d with
  | [] => Some []
  | e :: r => match ke_id e, all_ids r with Some u, Some l => Some (u :: l) | _, _ => None end
  end.
(** [None]: an element without an id (it would get a random UUID) *)
Definition link (d : kdoc) : option gdoc :=
  match all_ids d with
  | Some ids => Some (map (fun e => {| ge_type := ke_type e; ge_id := match ke_id e with Some u => u | None => [] end;
                                       ge_name := ke_name e; ge_attrs := map (link_attr ids) (ke_attrs e) |}) d)
  | None => None
  end.

(** what a graph must satisfy: ids pairwise distinct, element references in range, stub ids not ids of elements *)
Fixpoint nodup_str (l : list str) : bool :=
  match l with [] => true | x :: r => negb (existsb (str_eqb x) r) && nodup_str r end.
Definition gitem_ok (ids : list str) (it : gitem) : bool :=
  match it with
  | GRef (GElem i) => Nat.ltb i (length ids)
  | GRef (GStub u) => negb (existsb (str_eqb u) ids)
  | _ => true
  end.
Definition graph_ok (g : gdoc) : bool :=
  let ids := map ge_id g in
  nodup_str ids && forallb (fun e => forallb (fun a => forallb (gitem_ok ids) (ga_items a)) (ge_attrs e)) g.


(** * Hand copies of the pinned tree's tables, for examples (the check discharges the same conditions for the
    regenerated ones) *)
Definition pinned_tables : tables := {|
  esc_table := [(110,10);(116,9);(118,11);(98,8);(114,13);(102,12);(97,7);(34,34);(39,39);(47,47);(92,92);(63,63)];
  excl_single := [63;47]; excl_multi := [63;47;10];
  bare_disallowed := [34;39;123;125;59;44;61;91;93;40;41;13;10;9;32];
  operators := [(123, BRACE_OPEN); (125, BRACE_CLOSE); (61, EQUALS); (44, COMMA)];
  casefold := fun c => [c] |}.
Definition pinned_kv2_opts : opts := {|
  string_bracket := false; string_parens := true; allow_escapes := true; allow_star_comments := false;
  preserve_comments := false; colon_operator := false; plus_operator := false |}.
Definition pinned_vtnames : list str :=
  [s_element; [105;110;116]; [102;108;111;97;116]; [98;111;111;108]; s_string; [98;105;110;97;114;121]; [116;105;109;101];
   [99;111;108;111;114]; [118;101;99;116;111;114;50]; [118;101;99;116;111;114;51]; [118;101;99;116;111;114;52];
   [113;97;110;103;108;101]; [113;117;97;116;101;114;110;105;111;110]; [118;109;97;116;114;105;120]].
(** an element with an id, a name needing escapes, a scalar, a string array with quote / empty / comma items, an
    element array with NULL, a stub-like and a self reference, a scalar NULL, an empty array; and a second element *)
Definition ex_kdoc : kdoc := [
 {| ke_type := [84;34]; ke_id := Some [97;45;49]; ke_name := [110;10;92];
    ke_attrs := [ {| ka_name := [120]; ka_type := [105;110;116]; ka_arr := false; ka_items := [KStr [53]] |};
                  {| ka_name := [121;9]; ka_type := s_string; ka_arr := true; ka_items := [KStr [34]; KStr []; KStr [97;44]] |};
                  {| ka_name := [122]; ka_type := s_element; ka_arr := true; ka_items := [KNull; KRef [98]; KRef [97;45;49]] |};
                  {| ka_name := [119]; ka_type := s_element; ka_arr := false; ka_items := [KNull] |};
                  {| ka_name := [118]; ka_type := [105;110;116]; ka_arr := true; ka_items := [] |} ] |};
 {| ke_type := [85]; ke_id := None; ke_name := []; ke_attrs := [] |} ].

(** the graph behind [ex_kdoc]-like data: a self reference, a reference to the second element, NULL, a stub *)
Definition ex_gdoc : gdoc := [
 {| ge_type := [84;34]; ge_id := [97;45;49]; ge_name := [110;10;92];
    ge_attrs := [ {| ga_name := [120]; ga_type := [105;110;116]; ga_arr := false; ga_items := [GStr [53]] |};
                  {| ga_name := [122]; ga_type := s_element; ga_arr := true;
                     ga_items := [GRef GNull; GRef (GStub [98]); GRef (GElem 0); GRef (GElem 1); GRef (GElem 1)] |};
                  {| ga_name := [119]; ga_type := s_element; ga_arr := false; ga_items := [GRef (GElem 1)] |} ] |};
 {| ge_type := [85]; ge_id := [99;45;50]; ge_name := [];
    ge_attrs := [ {| ga_name := [98;97;99;107]; ga_type := s_element; ga_arr := false; ga_items := [GRef (GElem 0)] |} ] |} ].
