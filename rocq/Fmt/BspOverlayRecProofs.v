(** Proofs: an overlay record whose generated labels pass [overlay_rec_ok] is read back position by position. *)
From Coq Require Import List String NArith ZArith Bool PeanoNat Lia.
From SV Require Import Bin.LE Bin.Struct Bin.StructProofs Fmt.BspFormatsSpec Fmt.BspFormatsProofs Fmt.BspRecords Fmt.BspRecordsProofs
  Fmt.BspOverlayRec.
Import ListNotations.
Open Scope string_scope.
Open Scope list_scope.

(** If the labels read from the source agree, the reader's format [r] is well-formed with exactly one value per label,
    and for ANY assignment of values to labels and any face list of at most [count] indexes: packing the block (the
    writer's values, the padding seen as zero integers) with [r] succeeds with [calcsize r] bytes, and unpacking gives the
    reader every attribute from the position the writer put it in, the faces in order, and zeros behind them. *)
Theorem overlay_record_roundtrip : forall reader count rh rf rt wh wf wt,
  overlay_rec_ok reader count (rh, rf, rt, (wh, wf, wt)) = true ->
  rh = wh /\ rf = wf /\ rt = wt /\
  exists r, parse_fmt reader = Some r /\ wf_fmt r = true /\ nvalues r = (List.length rh + count + List.length rt)%nat /\
    forall (field : slot -> value) (faces : list Z), (List.length faces <= count)%nat ->
      List.length (overlay_values field wh wt faces count) = nvalues r /\
      (fits r (overlay_values field wh wt faces count) = true ->
       exists bs, pack r (overlay_values field wh wt faces count) = Some bs /\ List.length bs = calcsize r /\
                  unpack r bs = Some (overlay_values field rh rt faces count)).
Proof.
  intros reader count rh rf rt wh wf wt H. cbn [overlay_rec_ok] in H.
  destruct (parse_fmt reader) as [r|] eqn:Er; [|discriminate].
  repeat (apply andb_prop in H; let H' := fresh "H" in destruct H as [H H']).
  apply slots_eqb_eq in H. apply strs_eqb_eq in H5. apply slots_eqb_eq in H4. subst wh wf wt.
  apply Nat.eqb_eq in H0.
  split; [reflexivity|]. split; [reflexivity|]. split; [reflexivity|].
  exists r. split; [reflexivity|]. split; [exact H3|]. split; [exact H0|].
  intros field faces Hn. split.
  - unfold overlay_values. rewrite !app_length, !map_length, repeat_length. lia.
  - intros Hfit. destruct (unpack_pack r _ H3 Hfit) as (bs & Hp & Hu).
    exists bs. split; [exact Hp|]. split; [eapply pack_length; eauto | exact Hu].
Qed.

(** The order matters: with the second and third label of the head exchanged on one side the obligation fails. *)
Theorem overlay_record_swapped_refuted :
  overlay_rec_ok "<ihH2i1f" 2 ([["id"]; ["a"]; ["b"]], ["faces"], [["u"]], ([["id"]; ["b"]; ["a"]], ["faces"], [["u"]])) = false /\
  overlay_rec_ok "<ihH2i1f" 2 ([["id"]; ["a"]; ["b"]], ["faces"], [["u"]], ([["id"]; ["a"]; ["b"]], ["faces"], [["u"]])) = true.
Proof. vm_compute. split; reflexivity. Qed.

(** * The bytes the writer emits are the block the reader unpacks *)

Lemma nvalues_cons_pad : forall f, nvalues (KPad :: f) = nvalues f.
Proof. reflexivity. Qed.

Lemma pack_prefix_congr : forall A B X Y, pack A X = pack B Y ->
  forall pre pv, List.length pv = nvalues pre -> pack (pre ++ A) (pv ++ X) = pack (pre ++ B) (pv ++ Y).
Proof.
  intros A B X Y H. induction pre as [|k pre IH]; intros pv Hl.
  - destruct pv; [exact H|discriminate].
  - destruct k; cbn [app pack];
      try (destruct pv as [|v pv']; [cbn in Hl; discriminate|]; cbn in Hl; injection Hl as Hl;
           cbn [app]; rewrite (IH pv' Hl); reflexivity).
    rewrite (IH pv Hl). reflexivity.
Qed.

Lemma pack_app : forall f1 v1 f2 v2, List.length v1 = nvalues f1 ->
  pack (f1 ++ f2) (v1 ++ v2) = match pack f1 v1, pack f2 v2 with Some a, Some b => Some (a ++ b) | _, _ => None end.
Proof.
  induction f1 as [|k f1 IH]; intros v1 f2 v2 Hl.
  - destruct v1; [|discriminate]. cbn. destruct (pack f2 v2); reflexivity.
  - destruct k; cbn [app pack];
      try (destruct v1 as [|v v1']; [cbn in Hl; discriminate|]; cbn in Hl; injection Hl as Hl;
           cbn [app]; rewrite (IH v1' f2 v2 Hl); destruct (pack1 _ v); [|reflexivity];
           destruct (pack f1 v1'); [|reflexivity]; destruct (pack f2 v2); [rewrite app_assoc; reflexivity|reflexivity]).
    rewrite (IH v1 f2 v2 Hl). destruct (pack f1 v1); cbn; [|reflexivity]. destruct (pack f2 v2); reflexivity.
Qed.

Lemma pack_pad_zero_ints : forall k t tv,
  pack (repeat KPad (4 * k) ++ t) tv = pack (repeat int32 k ++ t) (repeat (VInt 0) k ++ tv).
Proof.
  induction k as [|k IH]; intros t tv; [reflexivity|].
  replace (4 * S k)%nat with (S (S (S (S (4 * k))))) by lia.
  cbn [repeat app pack]. rewrite IH.
  change (pack1 int32 (VInt 0)) with (Some [0; 0; 0; 0]%N).
  destruct (pack (repeat int32 k ++ t) (repeat (VInt 0) k ++ tv)); reflexivity.
Qed.

Lemma nvalues_repeat_int32 : forall n, nvalues (repeat int32 n) = n.
Proof. induction n; [reflexivity|]. cbn [repeat]. unfold nvalues in *. cbn. rewrite IHn. reflexivity. Qed.

Theorem overlay_writer_block_is_reader_block : forall h t count (fs : list Z) hv tv,
  (List.length fs <= count)%nat -> List.length hv = nvalues h ->
  pack (overlay_writer_fmt h t count (List.length fs)) (hv ++ map VInt fs ++ tv) =
  pack (overlay_reader_fmt h t count) (hv ++ map VInt fs ++ repeat (VInt 0) (count - List.length fs) ++ tv).
Proof.
  intros h t count fs hv tv Hn Hh. unfold overlay_writer_fmt, overlay_reader_fmt.
  replace count with (List.length fs + (count - List.length fs))%nat at 2 by lia.
  rewrite repeat_app, <- app_assoc.
  apply pack_prefix_congr; [|exact Hh].
  apply pack_prefix_congr; [|rewrite map_length, nvalues_repeat_int32; reflexivity].
  apply pack_pad_zero_ints.
Qed.

(** Whole overlay block, from the two obligations about today's source: [overlay_ok] (formats of the four pack calls and
    of the reader for every face count, BspFormatsSpec) and [overlay_rec_ok] (labels).  For every face count [n] the
    writer admits, every assignment of values to labels whose head part has one value per head field: the writer's
    formats for [n] faces concatenate to [h ++ f ++ t]; packing the writer's values with it gives exactly the bytes of
    the reader's format applied to the same values with zeros behind the faces; and if those fit, the reader's unpack
    returns every attribute from its own position, the faces in order, and [count - n] zeros (which the reader slices
    off with the stored face count, [overlay_bits_roundtrip]). *)
Theorem overlay_block_roundtrip : forall reader head tail count wmax rmax ffmts rh rf rt wh wf wt,
  overlay_ok reader head tail count wmax rmax ffmts = true ->
  overlay_rec_ok reader count (rh, rf, rt, (wh, wf, wt)) = true ->
  exists r h t, parse_fmt reader = Some r /\ parse_fmt head = Some h /\ strs_fmt tail = Some t /\
  forall (field : slot -> value) (faces : list Z), (List.length faces <= wmax)%nat -> List.length wh = nvalues h ->
    exists s f, In (List.length faces, s) ffmts /\ parse_fmt s = Some f /\
      pack (h ++ f ++ t) (map field wh ++ map VInt faces ++ map field wt) = pack r (overlay_values field wh wt faces count) /\
      (fits r (overlay_values field wh wt faces count) = true ->
       exists bs, pack (h ++ f ++ t) (map field wh ++ map VInt faces ++ map field wt) = Some bs /\
                  List.length bs = calcsize r /\ unpack r bs = Some (overlay_values field rh rt faces count)).
Proof.
  intros reader head tail count wmax rmax ffmts rh rf rt wh wf wt Hf Hr.
  destruct (overlay_formats _ _ _ _ _ _ _ Hf) as (r & h & t & Er & Eh & Et & -> & Hw & Hn).
  destruct (overlay_record_roundtrip _ _ _ _ _ _ _ _ Hr) as (-> & -> & -> & r' & Er' & Hwf & Hnv & Hrt).
  rewrite Er in Er'. injection Er' as <-.
  exists (overlay_reader_fmt h t count), h, t. split; [exact Er|]. split; [exact Eh|]. split; [exact Et|].
  intros field faces Hlen Hh. destruct (Hn _ Hlen) as (s & f & Hin & Ef & Hcat & _).
  exists s, f. split; [exact Hin|]. split; [exact Ef|].
  assert (Hb : pack (h ++ f ++ t) (map field wh ++ map VInt faces ++ map field wt) =
               pack (overlay_reader_fmt h t count) (overlay_values field wh wt faces count)).
  { rewrite Hcat. unfold overlay_values. apply overlay_writer_block_is_reader_block; [lia|]. rewrite map_length. exact Hh. }
  split; [exact Hb|]. intros Hfit.
  destruct (Hrt field faces ltac:(lia)) as [_ Hgo]. destruct (Hgo Hfit) as (bs & Hp & Hl & Hu).
  exists bs. rewrite Hb. split; [exact Hp|]. split; [exact Hl|exact Hu].
Qed.
