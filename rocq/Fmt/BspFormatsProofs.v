(** Generic theorems over the objects generated from bsp.py: when the boolean obligations of
    BspFormatsSpec hold for a configuration, the writer's records are read back unchanged. *)
From Coq Require Import List String NArith Bool PeanoNat Lia.
From SV Require Import Bin.LE Bin.Struct Bin.StructProofs Fmt.BspFormatsSpec.
Import ListNotations.
Open Scope string_scope.
Open Scope list_scope.

Lemma kind_eqb_eq : forall a b, kind_eqb a b = true -> a = b.
Proof.
  intros a b H. destruct a, b; cbn [kind_eqb] in H; try discriminate; try reflexivity.
  - apply andb_prop in H. destruct H as [H1 H2]. apply Bool.eqb_prop in H1. apply Nat.eqb_eq in H2. subst. reflexivity.
  - apply Nat.eqb_eq in H. subst. reflexivity.
Qed.

Lemma fmt_eqb_eq : forall a b, fmt_eqb a b = true -> a = b.
Proof.
  induction a as [|x a IH]; intros b H; destruct b as [|y b]; cbn [fmt_eqb] in H; try discriminate; [reflexivity|].
  apply andb_prop in H. destruct H as [H1 H2]. apply kind_eqb_eq in H1. apply IH in H2. subst. reflexivity.
Qed.

Definition roundtrips (r w : fmt) : Prop :=
  forall vs, fits w vs = true -> exists bs, pack w vs = Some bs /\ unpack r bs = Some vs /\ List.length bs = calcsize r.

Lemma same_fmt_roundtrips : forall f, wf_fmt f = true -> roundtrips f f.
Proof.
  intros f Hw vs Hf. destruct (unpack_pack f vs Hw Hf) as (bs & Hp & Hu).
  exists bs. split; [exact Hp|]. split; [exact Hu|]. eapply pack_length; eauto.
Qed.

Lemma alt_is_eq : forall lay f0 a, alt_is lay f0 a = true -> alt_fmt lay a = Some f0.
Proof.
  intros lay f0 a H. unfold alt_is in H. destruct (alt_fmt lay a) as [f|]; [|discriminate].
  apply fmt_eqb_eq in H. subst. reflexivity.
Qed.

(** One layout table: whatever alternative the writer used and whatever alternative the reader uses, the
    formats are one well-formed format, hence every fitting record is read back unchanged. *)
Theorem stream_roundtrip : forall lay n appl ralts walts,
  stream_ok_in lay (n, appl, ralts, walts) = true ->
  forall ra wa, In ra ralts -> In wa walts ->
  exists r w, alt_fmt lay ra = Some r /\ alt_fmt lay wa = Some w /\ r = w /\ roundtrips r w.
Proof.
  intros lay n appl ralts walts H ra wa Hra Hwa. cbn [stream_ok_in] in H.
  destruct ralts as [|r0 rr]; [discriminate|]. destruct walts as [|w0 ww]; [discriminate|].
  destruct (alt_fmt lay r0) as [f0|] eqn:E0; [|discriminate].
  apply andb_prop in H. destruct H as [H Hw]. apply andb_prop in H. destruct H as [Hwf Hr].
  rewrite forallb_forall in Hr, Hw.
  exists f0, f0. split; [apply alt_is_eq, Hr, Hra|]. split; [apply alt_is_eq, Hw, Hwa|]. split; [reflexivity|].
  apply same_fmt_roundtrips. exact Hwf.
Qed.

Theorem lump_formats_agree : forall layouts n appl ralts walts,
  stream_ok layouts (n, appl, ralts, walts) = true ->
  forall lname lay, In (lname, lay) layouts -> applies appl lname = true ->
  forall ra wa, In ra ralts -> In wa walts ->
  exists r w, alt_fmt lay ra = Some r /\ alt_fmt lay wa = Some w /\ r = w /\ roundtrips r w.
Proof.
  intros layouts n appl ralts walts H lname lay Hin Happ. cbn [stream_ok] in H.
  apply andb_prop in H. destruct H as [_ H]. rewrite forallb_forall in H. specialize (H _ Hin).
  cbn [fst snd] in H. rewrite Happ in H. eapply stream_roundtrip; eauto.
Qed.

Theorem prop_layout_agree : forall name size rd wr, prop_ok (name, size, rd, wr) = true ->
  exists r w, strs_fmt rd = Some r /\ strs_fmt wr = Some w /\ r = w /\ calcsize w = size /\ roundtrips r w.
Proof.
  intros name size rd wr H. cbn [prop_ok] in H.
  destruct (strs_fmt rd) as [r|]; [|discriminate]. destruct (strs_fmt wr) as [w|]; [|discriminate].
  apply andb_prop in H. destruct H as [H Hs]. apply andb_prop in H. destruct H as [He Hw].
  apply fmt_eqb_eq in He. subst w. apply Nat.eqb_eq in Hs.
  exists r, r. repeat split; auto. apply same_fmt_roundtrips. exact Hw.
Qed.

(** A guarded Ns site never truncates: every value the guard lets through is stored whole. *)
Theorem ns_guarded_no_truncation : forall name width lo hi l,
  ns_ok (name, width, Some (lo, hi)) = true -> all_bytes l = true -> (List.length l <= hi)%nat ->
  pack [KBytes width] [VBytes l] = Some (l ++ repeat 0%N (width - List.length l)).
Proof.
  intros name width lo hi l H Hb Hl. cbn [ns_ok] in H. apply Nat.leb_le in H.
  apply pack_s_pads; [exact Hb | lia].
Qed.
Theorem ns_unguarded_truncates : forall width l, all_bytes l = true -> (width < List.length l)%nat ->
  pack [KBytes width] [VBytes l] = Some (firstn width l).
Proof. exact pack_s_truncates. Qed.

(** Detail props: an object of each instantiable class is written by its own branch, with type codes that the
    reader maps back to the same class. *)
Theorem detail_kind_dispatch : forall h tests rd, dispatch_ok h tests rd = true ->
  forall c, In c (concrete h) ->
  exists codes, writer_branch h tests c = Some (c, codes) /\ codes <> [] /\
                forall code, In code codes -> assoc_nat code rd = Some c.
Proof.
  intros h tests rd H c Hc. unfold dispatch_ok in H. apply andb_prop in H. destruct H as [_ H].
  rewrite forallb_forall in H. specialize (H c Hc). unfold class_dispatch_ok in H.
  destruct (writer_branch h tests c) as [[c' codes]|]; [|discriminate]. cbn [fst snd] in H.
  apply andb_prop in H. destruct H as [H Hcodes]. apply andb_prop in H. destruct H as [Hc' Hne].
  apply String.eqb_eq in Hc'. subst c'. exists codes. split; [reflexivity|]. split.
  - intros ->. discriminate.
  - intros code Hin. rewrite forallb_forall in Hcodes. specialize (Hcodes code Hin).
    destruct (assoc_nat code rd) as [c'|]; [|discriminate]. apply String.eqb_eq in Hcodes. subst. reflexivity.
Qed.

(** Overlay face block: n indexes followed by 4*(count-n) pad bytes occupy exactly the reader's count ints. *)
Lemma calcsize_app : forall a b, calcsize (a ++ b) = (calcsize a + calcsize b)%nat.
Proof. induction a; intros; cbn [app calcsize fold_right]; [reflexivity|]. fold (calcsize (a0 ++ b)). fold (calcsize a0). rewrite IHa. lia. Qed.
Lemma calcsize_repeat : forall k n, calcsize (repeat k n) = (n * ksize k)%nat.
Proof. induction n; cbn [repeat calcsize fold_right]; [reflexivity|]. fold (calcsize (repeat k n)). rewrite IHn. lia. Qed.

Theorem overlay_block_size : forall h t count n, (n <= count)%nat ->
  calcsize (overlay_writer_fmt h t count n) = calcsize (overlay_reader_fmt h t count).
Proof.
  intros. unfold overlay_writer_fmt, overlay_reader_fmt. rewrite !calcsize_app, !calcsize_repeat. cbn [ksize int32]. lia.
Qed.

Theorem overlay_formats : forall reader head tail count wmax rmax faces,
  overlay_ok reader head tail count wmax rmax faces = true ->
  exists r h t, parse_fmt reader = Some r /\ parse_fmt head = Some h /\ strs_fmt tail = Some t /\
    r = overlay_reader_fmt h t count /\ (wmax <= count)%nat /\
    forall n, (n <= wmax)%nat -> exists s f, In (n, s) faces /\ parse_fmt s = Some f /\
       h ++ f ++ t = overlay_writer_fmt h t count n /\ calcsize (h ++ f ++ t) = calcsize r.
Proof.
  intros reader head tail count wmax rmax faces H. unfold overlay_ok in H.
  destruct (parse_fmt reader) as [r|]; [|discriminate]. destruct (parse_fmt head) as [h|]; [|discriminate].
  destruct (strs_fmt tail) as [t|]; [|discriminate].
  repeat (apply andb_prop in H; let H' := fresh "H" in destruct H as [H H']).
  apply fmt_eqb_eq in H. apply Nat.leb_le in H4.
  exists r, h, t. repeat split; auto.
  intros n Hn. rewrite forallb_forall in H0, H1.
  assert (Hs : In n (seq 0 (S wmax))) by (apply in_seq; lia).
  specialize (H0 n Hs). apply existsb_exists in H0. destruct H0 as ([n' s] & Hin & En). cbn [fst] in En.
  apply Nat.eqb_eq in En. subst n'. specialize (H1 _ Hin). cbn [fst snd] in H1.
  destruct (parse_fmt s) as [f|] eqn:Ef; [|discriminate]. apply andb_prop in H1. destruct H1 as [_ H1]. apply fmt_eqb_eq in H1.
  exists s, f. split; [exact Hin|]. split; [exact Ef|]. subst f r.
  split; [unfold overlay_writer_fmt; rewrite <- !app_assoc; reflexivity|].
  rewrite <- app_assoc. apply (overlay_block_size h t count n). lia.
Qed.
