(** Per-record field orders of the BSP lumps (placeholder). *)
From Coq Require Import List String.
