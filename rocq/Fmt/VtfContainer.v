(** C15 — the VTF container (vtf.py: VTF.save / VTF.read) and the particle-sheet resource
    (SheetSequence.make_data / from_resource) over the [struct] model of Bin/Struct.v.

    A [site] is one place where values are written with [struct.pack] and read back with [struct.unpack]: the two format
    strings, the order of the values on both sides as field names, and the number of bytes the reader asks for.  The
    sites are regenerated from the source by translate/c15_container.py (Gen/VtfContainer_gen.v); [site_ok] is the
    closed boolean condition under which a site is a round trip (VtfContainerProofs.site_roundtrip).
    [encode_file] / [decode_file] are the whole container with the image data as opaque byte blocks; the formats are
    parameters ([cfmts]) filled from the generated sites.  Floats are carried as their 32-bit patterns ([VFloat]).
    Executable definitions only; proofs are in VtfContainerProofs.v. *)
From Coq Require Import NArith ZArith List Bool String Ascii.
From SV Require Import Bin.LE Bin.Struct.
Import ListNotations.

Record site := { w_fmt : string; w_fields : list string; r_fmt : string; r_fields : list string; r_len : Z }.

Fixpoint strs_eqb (a b : list string) : bool :=
  match a, b with
  | [], [] => true
  | x :: a', y :: b' => String.eqb x y && strs_eqb a' b'
  | _, _ => false
  end.
Fixpoint nodupb (l : list string) : bool :=
  match l with [] => true | x :: r => negb (existsb (String.eqb x) r) && nodupb r end.

Definition site_ok (s : site) : bool :=
  fmt_known (w_fmt s) && fmt_known (r_fmt s)
  && fmt_eqb (fmt_of (w_fmt s)) (fmt_of (r_fmt s)) && wf_fmt (fmt_of (w_fmt s))
  && strs_eqb (w_fields s) (r_fields s) && nodupb (w_fields s)
  && Nat.eqb (nvalues (fmt_of (w_fmt s))) (List.length (w_fields s))
  && (Z.eqb (r_len s) (-1) || Z.eqb (r_len s) (Z.of_nat (calcsize (fmt_of (r_fmt s))))).

(** * Byte blocks at offsets *)
Open Scope nat_scope.
Definition slice (bs : list N) (off len : nat) : list N := firstn len (skipn off bs).
(** running offsets of consecutive blocks that start at [start] *)
Fixpoint offsets (start : nat) (lens : list nat) : list nat :=
  match lens with [] => [] | n :: r => start :: offsets (start + n) r end.

(** * The container *)
Inductive resval := RInline (v : Z) | RData (d : list N).
Record vfile := {
  v_minor : Z;
  v_header : list value;                 (* the 15 values of _HEADER, header_size first *)
  v_depth : Z;
  v_res : list (list N * Z * resval);    (* 3-byte id, flags, value *)
  v_sheet : option (list N);
  v_low : list N;                        (* thumbnail bytes ([] when the thumbnail format is NONE) *)
  v_high : list (list N);                (* the frames in the order they are written *)
}.
Record cfmts := { f_version : fmt; f_header : fmt; f_depth : fmt; f_count : fmt; f_entry : fmt; f_len : fmt }.

Definition ID_LOW : list N := [1; 0; 0]%N.
Definition ID_HIGH : list N := [48; 0; 0]%N.
Definition ID_SHEET : list N := [16; 0; 0]%N.

Definition opt_app (a b : option (list N)) : option (list N) :=
  match a, b with Some x, Some y => Some (x ++ y) | _, _ => None end.
Fixpoint opt_concat (l : list (option (list N))) : option (list N) :=
  match l with [] => Some [] | x :: r => opt_app x (opt_concat r) end.

Definition clear2 (fl : Z) : Z := Z.land fl (Z.lnot 2).
Definition set2 (fl : Z) : Z := Z.lor fl 2.

(** ** Resource flags.  Bit 0x02 of a directory entry says "the 4-byte value is the data itself".  What [VTF.save]
    stores for an out-of-line entry, for an inline entry and for the fixed entries, and the test by which [VTF.read]
    decides to fetch a data block, are regenerated from the source as expression trees over the resource's flags
    ([fexpr] / [ftest]) and judged semantically: [flags_ok] enumerates the whole domain of the one-byte field. *)
Inductive fexpr := FVar | FConst (z : Z) | FNot (a : fexpr) | FAnd (a b : fexpr) | FOr (a b : fexpr) | FXor (a b : fexpr).
Fixpoint fl_eval (e : fexpr) (f : Z) : Z :=
  match e with
  | FVar => f
  | FConst z => z
  | FNot a => Z.lnot (fl_eval a f)
  | FAnd a b => Z.land (fl_eval a f) (fl_eval b f)
  | FOr a b => Z.lor (fl_eval a f) (fl_eval b f)
  | FXor a b => Z.lxor (fl_eval a f) (fl_eval b f)
  end.
(** [ft_eval t f = true]: the reader looks for the data elsewhere in the file *)
Inductive ftest := TIsZero (e : fexpr) | TEq (a b : fexpr) | TNot (t : ftest).
Fixpoint ft_eval (t : ftest) (f : Z) : bool :=
  match t with
  | TIsZero e => Z.eqb (fl_eval e f) 0
  | TEq a b => Z.eqb (fl_eval a f) (fl_eval b f)
  | TNot t' => negb (ft_eval t' f)
  end.
Record flagcfg := { fl_offset : fexpr; fl_inline : fexpr; fl_fixed : list fexpr; fl_test : ftest }.
Definition all_bytes : list Z := map Z.of_nat (seq 0 256).
Definition offset_flags_ok (c : flagcfg) : bool := forallb (fun f => Z.eqb (fl_eval (fl_offset c) f) (clear2 f)) all_bytes.
Definition inline_flags_ok (c : flagcfg) : bool := forallb (fun f => Z.eqb (fl_eval (fl_inline c) f) (set2 f)) all_bytes.
Definition read_test_ok (c : flagcfg) : bool := forallb (fun f => Bool.eqb (ft_eval (fl_test c) f) (Z.eqb (Z.land f 2) 0)) all_bytes.
Definition fixed_flags_ok (c : flagcfg) : bool := forallb (fun e => Z.eqb (fl_eval e 0) 0) (fl_fixed c).
Definition flags_ok (c : flagcfg) : bool := offset_flags_ok c && inline_flags_ok c && read_test_ok c && fixed_flags_ok c.
Definition good_flagcfg : flagcfg :=
  {| fl_offset := FAnd FVar (FNot (FConst 2)); fl_inline := FOr FVar (FConst 2); fl_fixed := [FConst 0; FConst 0; FConst 0];
     fl_test := TIsZero (FAnd FVar (FConst 2)) |}.
(** the shape of a seeded fault: the out-of-line entry keeps ONLY bit 2 (the `~` lost) *)
Definition masked_flagcfg : flagcfg :=
  {| fl_offset := FAnd FVar (FConst 2); fl_inline := fl_inline good_flagcfg; fl_fixed := fl_fixed good_flagcfg; fl_test := fl_test good_flagcfg |}.

(** a data block: 4-byte length, then the data *)
Definition block (F : cfmts) (d : list N) : option (list N) :=
  opt_app (pack (f_len F) [VInt (Z.of_nat (List.length d))]) (Some d).
Definition res_blocks (v : vfile) : list (list N) :=
  flat_map (fun r => match snd r with RData d => [d] | RInline _ => [] end) (v_res v)
  ++ match v_sheet v with Some d => [d] | None => [] end.

(** directory entries; [offs] are the offsets of the data blocks, consumed in order *)
Fixpoint res_entries (F : cfmts) (G : flagcfg) (rs : list (list N * Z * resval)) (offs : list nat) : option (list N) * list nat :=
  match rs with
  | [] => (Some [], offs)
  | (id, fl, RInline x) :: r =>
      let '(rest, o') := res_entries F G r offs in
      (opt_app (pack (f_entry F) [VBytes id; VInt (fl_eval (fl_inline G) fl); VInt x]) rest, o')
  | (id, fl, RData _) :: r =>
      let o := hd 0 offs in
      let '(rest, o') := res_entries F G r (tl offs) in
      (opt_app (pack (f_entry F) [VBytes id; VInt (fl_eval (fl_offset G) fl); VInt (Z.of_nat o)]) rest, o')
  end.

Definition set_header_size (h : list value) (hs : nat) : list value :=
  match h with _ :: r => VInt (Z.of_nat hs) :: r | [] => [] end.

Definition encode_file (F : cfmts) (G : flagcfg) (v : vfile) : option (list N) :=
  let m := v_minor v in
  let n_res := (List.length (v_res v) + 2 + (if v_sheet v then 1 else 0))%nat in
  let fixed := (4 + calcsize (f_version F) + calcsize (f_header F) + (if (2 <=? m)%Z then calcsize (f_depth F) else 0))%nat in
  let hs := if (3 <=? m)%Z then (fixed + calcsize (f_count F) + n_res * calcsize (f_entry F))%nat else (fixed + 15)%nat in
  let blocks := if (3 <=? m)%Z then res_blocks v else [] in
  let boffs := offsets hs (map (fun d => 4 + List.length d) blocks) in
  let low_off := (hs + list_sum (map (fun d => 4 + List.length d) blocks))%nat in
  let high_off := (low_off + List.length (v_low v))%nat in
  let '(entries, rest_offs) := res_entries F G (v_res v) boffs in
  let dir :=
    if (3 <=? m)%Z then
      opt_concat [pack (f_count F) [VInt (Z.of_nat n_res)]; entries;
                  pack (f_entry F) [VBytes ID_LOW; VInt 0; VInt (Z.of_nat low_off)];
                  pack (f_entry F) [VBytes ID_HIGH; VInt 0; VInt (Z.of_nat high_off)];
                  match v_sheet v with
                  | Some _ => pack (f_entry F) [VBytes ID_SHEET; VInt 0; VInt (Z.of_nat (hd 0 rest_offs))]
                  | None => Some []
                  end]
    else Some (repeat 0%N 15) in
  opt_concat [Some [86; 84; 70; 0]%N; pack (f_version F) [VInt 7; VInt m];
              pack (f_header F) (set_header_size (v_header v) hs);
              (if (2 <=? m)%Z then pack (f_depth F) [VInt (v_depth v)] else Some []);
              dir; opt_concat (map (block F) blocks); Some (v_low v); Some (List.concat (v_high v))].

(** ** reading *)
Definition getZ (v : value) : Z := match v with VInt z => z | _ => 0%Z end.
Definition read_at (f : fmt) (bs : list N) (off : nat) : option (list value) := unpack f (slice bs off (calcsize f)).

Fixpoint read_entries (F : cfmts) (bs : list N) (off n : nat) : option (list (list N * Z * Z)) :=
  match n with
  | O => Some []
  | S k =>
      match read_at (f_entry F) bs off, read_entries F bs (off + calcsize (f_entry F)) k with
      | Some [VBytes id; VInt fl; VInt x], Some r => Some ((id, fl, x) :: r)
      | _, _ => None
      end
  end.
Definition bytes_eqb (a b : list N) : bool :=
  Nat.eqb (List.length a) (List.length b) && forallb (fun p => N.eqb (fst p) (snd p)) (combine a b).
Definition read_block (F : cfmts) (bs : list N) (off : nat) : option (list N) :=
  match read_at (f_len F) bs off with
  | Some [VInt size] => Some (slice bs (off + calcsize (f_len F)) (Z.to_nat size))
  | _ => None
  end.

(** what [VTF.read] gets out of the container: (minor, header values, depth, resources, sheet bytes, offset of the
    thumbnail, offset of the first frame).  [low_size] is the size of the thumbnail (needed below 7.3 only). *)
Definition decode_file (F : cfmts) (G : flagcfg) (low_size : nat) (bs : list N)
  : option (Z * list value * Z * list (list N * Z * resval) * option (list N) * nat * nat) :=
  if negb (bytes_eqb (slice bs 0 4) [86; 84; 70; 0]%N) then None else
  match read_at (f_version F) bs 4 with
  | Some [VInt 7%Z; VInt m] =>
      let o1 := (4 + calcsize (f_version F))%nat in
      match read_at (f_header F) bs o1 with
      | Some hdr =>
          let o2 := (o1 + calcsize (f_header F))%nat in
          let dep := if (2 <=? m)%Z then option_map (fun l => getZ (hd (VInt 0) l)) (read_at (f_depth F) bs o2) else Some 1%Z in
          let o3 := if (2 <=? m)%Z then (o2 + calcsize (f_depth F))%nat else o2 in
          match dep with
          | None => None
          | Some d =>
              if (3 <=? m)%Z then
                match read_at (f_count F) bs o3 with
                | Some [VInt n] =>
                    match read_entries F bs (o3 + calcsize (f_count F)) (Z.to_nat n) with
                    | None => None
                    | Some es =>
                        let lows := filter (fun e => bytes_eqb (fst (fst e)) ID_LOW) es in
                        let highs := filter (fun e => bytes_eqb (fst (fst e)) ID_HIGH) es in
                        let others := filter (fun e => negb (bytes_eqb (fst (fst e)) ID_LOW || bytes_eqb (fst (fst e)) ID_HIGH)) es in
                        let res := map (fun e => let '(id, fl, x) := e in
                                                 if ft_eval (fl_test G) fl
                                                 then match read_block F bs (Z.to_nat x) with Some dta => Some (id, fl, RData dta) | None => None end
                                                 else Some (id, fl, RInline x)) others in
                        if existsb (fun r => match r with None => true | _ => false end) res then None else
                        let res' := flat_map (fun r => match r with Some x => [x] | None => [] end) res in
                        let sheet := find (fun r => bytes_eqb (fst (fst r)) ID_SHEET) res' in
                        let plain := filter (fun r => negb (bytes_eqb (fst (fst r)) ID_SHEET)) res' in
                        match highs with
                        | h :: _ =>
                            Some (m, hdr, d, plain,
                                  match sheet with Some (_, _, RData dta) => Some dta | _ => None end,
                                  match lows with l :: _ => Z.to_nat (snd l) | [] => 0 end, Z.to_nat (snd h))
                        | [] => None
                        end
                    end
                | _ => None
                end
              else
                let hs := Z.to_nat (getZ (hd (VInt 0) hdr)) in
                Some (m, hdr, d, [], None, hs, (hs + low_size)%nat)
          end
      | None => None
      end
  | _ => None
  end.

(** * Particle sheets: make_data / from_resource *)
Definition texcoord := list N.     (* 4 float patterns: left, top, right, bottom *)
Record sheet_frame := { sf_duration : N; sf_coords : list texcoord (* 4 of them *) }.
Record sheet_seq := { sq_num : Z; sq_clamp : bool; sq_total : N; sq_frames : list sheet_frame }.
Record sfmts := { s_head : fmt; s_seq : fmt; s_dur : fmt; s_tex : fmt }.

Definition pack_tex (S : sfmts) (t : texcoord) : option (list N) := pack (s_tex S) (map VFloat t).
Definition sheet_frame_bytes (S : sfmts) (ver : Z) (f : sheet_frame) : option (list N) :=
  opt_app (pack (s_dur S) [VFloat (sf_duration f)])
          (opt_concat (map (pack_tex S) (if Z.eqb ver 1 then sf_coords f else firstn 1 (sf_coords f)))).
Definition sheet_seq_bytes (S : sfmts) (ver : Z) (q : sheet_seq) : option (list N) :=
  opt_app (pack (s_seq S) [VInt (sq_num q); VBool (sq_clamp q); VInt (Z.of_nat (List.length (sq_frames q))); VFloat (sq_total q)])
          (opt_concat (map (sheet_frame_bytes S ver) (sq_frames q))).
Definition make_sheet (S : sfmts) (ver : Z) (qs : list sheet_seq) : option (list N) :=
  if (1 <? ver)%Z then None else
  opt_app (pack (s_head S) [VInt ver; VInt (Z.of_nat (List.length qs))]) (opt_concat (map (sheet_seq_bytes S ver) qs)).

Definition getF (v : value) : N := match v with VFloat b => b | _ => 0%N end.
Definition read_tex (S : sfmts) (bs : list N) (off : nat) : option texcoord := option_map (map getF) (read_at (s_tex S) bs off).
Fixpoint read_frames (S : sfmts) (ver : Z) (bs : list N) (off n : nat) : option (list sheet_frame * nat) :=
  match n with
  | O => Some ([], off)
  | S k =>
      match read_at (s_dur S) bs off with
      | Some [VFloat d] =>
          let o := (off + calcsize (s_dur S))%nat in
          let ts := calcsize (s_tex S) in
          let coords :=
            if Z.eqb ver 0 then match read_tex S bs o with Some t => Some [t; t; t; t] | None => None end
            else match read_tex S bs o, read_tex S bs (o + ts), read_tex S bs (o + 2 * ts), read_tex S bs (o + 3 * ts) with
                 | Some a, Some b, Some c, Some d' => Some [a; b; c; d']
                 | _, _, _, _ => None
                 end in
          match coords with
          | None => None
          | Some cs =>
              match read_frames S ver bs (o + (if Z.eqb ver 0 then ts else 4 * ts)) k with
              | Some (r, o') => Some ({| sf_duration := d; sf_coords := cs |} :: r, o')
              | None => None
              end
          end
      | _ => None
      end
  end.
Fixpoint read_seqs (S : sfmts) (ver : Z) (bs : list N) (off n : nat) : option (list sheet_seq) :=
  match n with
  | O => Some []
  | S k =>
      match read_at (s_seq S) bs off with
      | Some [VInt num; VBool cl; VInt fc; VFloat tot] =>
          if negb ((0 <=? num)%Z && (num <? 64)%Z) then None else
          match read_frames S ver bs (off + calcsize (s_seq S)) (Z.to_nat fc) with
          | Some (fr, o') =>
              match read_seqs S ver bs o' k with
              | Some r => if existsb (fun q => Z.eqb (sq_num q) num) r then None
                          else Some ({| sq_num := num; sq_clamp := cl; sq_total := tot; sq_frames := fr |} :: r)
              | None => None
              end
          | None => None
          end
      | _ => None
      end
  end.
Definition read_sheet (S : sfmts) (bs : list N) : option (Z * list sheet_seq) :=
  match read_at (s_head S) bs 0 with
  | Some [VInt ver; VInt n] =>
      if (1 <? ver)%Z || (64 <? n)%Z then None
      else option_map (fun qs => (ver, qs)) (read_seqs S ver bs (calcsize (s_head S)) (Z.to_nat n))
  | _ => None
  end.
