(** C15 — model of the mipmap table built by [VTF.__init__], walked by [VTF.save]/[VTF.read]
    (vtf.py:689-704, 831-844, 951-963), and of the bounds test of [Frame.__getitem__]/[__setitem__]
    (vtf.py:490-494, 505-508).  The decisive constants and comparison operators are NOT written here:
    they are fields of [mipcfg] / lists of [atom]s which translate/c15_pixel.py regenerates from the source
    (Gen/VtfLayout_gen.v).  Executable definitions only; proofs are in VtfLayoutProofs.v. *)
From Coq Require Import ZArith NArith List Bool.
Import ListNotations.

Inductive cmp := CLt | CLe | CGt | CGe | CEq | CNe.

Definition cmp_eqb (a b : cmp) : bool :=
  match a, b with
  | CLt, CLt | CLe, CLe | CGt, CGt | CGe, CGe | CEq, CEq | CNe, CNe => true
  | _, _ => false
  end.

Definition cmpN (c : cmp) (a b : N) : bool :=
  match c with
  | CLt => N.ltb a b | CLe => N.leb a b | CGt => N.ltb b a | CGe => N.leb b a
  | CEq => N.eqb a b | CNe => negb (N.eqb a b)
  end.

Definition cmpZ (c : cmp) (a b : Z) : bool :=
  match c with
  | CLt => Z.ltb a b | CLe => Z.leb a b | CGt => Z.ltb b a | CGe => Z.leb b a
  | CEq => Z.eqb a b | CNe => negb (Z.eqb a b)
  end.

(** * The mipmap table *)
Section Mip.
Open Scope N_scope.

(** [for mip_count in itertools.count(): <create frames (w,h)>; if w OP c or h OP c: break; w >>= s; h >>= s]
    then [self.mipmap_count = mip_count + count_delta]. *)
Record mipcfg := {
  brk_w : cmp * N;
  brk_h : cmp * N;
  brk_or : bool;          (* the two tests are joined by [or] (true) or [and] (false) *)
  shr_w : N;
  shr_h : N;
  count_delta : N;
}.

Definition brk (cfg : mipcfg) (w h : N) : bool :=
  let bw := cmpN (fst (brk_w cfg)) w (snd (brk_w cfg)) in
  let bh := cmpN (fst (brk_h cfg)) h (snd (brk_h cfg)) in
  if brk_or cfg then bw || bh else bw && bh.

(** Levels created as (index, width, height), and the final value of the loop variable.  [itertools.count()]
    is unbounded; the loop is run on explicit fuel and the theorems hold for every sufficient fuel. *)
Fixpoint init_loop (cfg : mipcfg) (fuel : nat) (k w h : N) : list (N * N * N) * N :=
  match fuel with
  | O => ([], k)
  | S f =>
      if brk cfg w h then ([(k, w, h)], k)
      else let '(l, last) := init_loop cfg f (k + 1) (N.shiftr w (shr_w cfg)) (N.shiftr h (shr_h cfg)) in
           ((k, w, h) :: l, last)
  end.

Definition declared_count (cfg : mipcfg) (last : N) : N := last + count_delta cfg.

(** [save] and [read] both walk [reversed(range(mipmap_count))]; [read] gives level m the size
    [max(width >> m, 1)] x [max(height >> m, 1)]; [save] looks the level up in the table built above. *)
Definition NrangeL (n : nat) : list N := map N.of_nat (seq 0 n).
Definition read_levels (w h : N) (mc : nat) : list (N * N * N) :=
  map (fun m => (m, N.max (N.shiftr w m) 1, N.max (N.shiftr h m) 1)) (rev (NrangeL mc)).

(** The table a power-of-two texture 2^a x 2^b should have: level i is 2^(a-i) x 2^(b-i), i = 0 .. min a b. *)
Definition level_of (a b : nat) (k : N) (i : nat) : N * N * N :=
  (k + N.of_nat i, 2 ^ N.of_nat (a - i), 2 ^ N.of_nat (b - i)).
Definition ideal_levels (a b : nat) : list (N * N * N) := map (level_of a b 0) (seq 0 (S (Nat.min a b))).

Definition mip_loop_ok (cfg : mipcfg) : bool :=
  cmp_eqb (fst (brk_w cfg)) CLe && N.eqb (snd (brk_w cfg)) 1
  && cmp_eqb (fst (brk_h cfg)) CLe && N.eqb (snd (brk_h cfg)) 1
  && brk_or cfg && N.eqb (shr_w cfg) 1 && N.eqb (shr_h cfg) 1.
Definition mip_count_ok (cfg : mipcfg) : bool := N.eqb (count_delta cfg) 1.

(** the pinned tree: [self.mipmap_count = mip_count] *)
Definition pinned_mipcfg : mipcfg :=
  {| brk_w := (CLe, 1); brk_h := (CLe, 1); brk_or := true; shr_w := 1; shr_h := 1; count_delta := 0 |}.
End Mip.

(** * Bounds test of pixel access *)
Section Bounds.
Open Scope Z_scope.

Inductive bvar := BX | BY.
Inductive bbnd := BZero | BWidth | BHeight | BConst (z : Z).
(** one disjunct of the rejection test: [var OP bound] raises IndexError *)
Definition atom := (bvar * cmp * bbnd)%type.

Definition bvar_eqb (a b : bvar) : bool := match a, b with BX, BX | BY, BY => true | _, _ => false end.
Definition bbnd_eqb (a b : bbnd) : bool :=
  match a, b with
  | BZero, BZero | BWidth, BWidth | BHeight, BHeight => true
  | BConst u, BConst v => Z.eqb u v
  | _, _ => false
  end.
Definition atom_eqb (a b : atom) : bool :=
  let '(v, c, n) := a in let '(v', c', n') := b in bvar_eqb v v' && cmp_eqb c c' && bbnd_eqb n n'.

Definition atom_eval (a : atom) (x y w h : Z) : bool :=
  let '(v, c, n) := a in
  cmpZ c (match v with BX => x | BY => y end)
         (match n with BZero => 0 | BWidth => w | BHeight => h | BConst z => z end).

Definition rejects (ds : list atom) (x y w h : Z) : bool := existsb (fun a => atom_eval a x y w h) ds.
Definition has (ds : list atom) (a : atom) : bool := existsb (atom_eqb a) ds.

Definition rejects_x_low (ds : list atom) := has ds (BX, CLt, BZero).
Definition rejects_x_high (ds : list atom) := has ds (BX, CGe, BWidth).
Definition rejects_y_low (ds : list atom) := has ds (BY, CLt, BZero).
Definition rejects_y_high (ds : list atom) := has ds (BY, CGe, BHeight).
Definition bounds_ok (ds : list atom) : bool :=
  rejects_x_low ds && rejects_x_high ds && rejects_y_low ds && rejects_y_high ds.

(** the pinned tree: [if x > self.width or y > self.height: raise IndexError] *)
Definition pinned_bounds : list atom := [(BX, CGt, BWidth); (BY, CGt, BHeight)].
Definition pixel_off (x y w : Z) : Z := (y * w + x) * 4.
End Bounds.

(** * scale_down (mipmap generation), index arithmetic of _py_vtf_readwrite.scale_down *)
Section Scale.
Open Scope Z_scope.
(** What the source computes from (src_width, src_height, width, height): the byte offsets of the second
    column / second row of the source block and the strides per destination column / row, in pixels.
    The four values are regenerated from the source as functions (Gen/VtfLayout_gen.v). *)
Record scalecfg := {
  horiz_off : Z -> Z -> Z -> Z -> Z;
  per_column : Z -> Z -> Z -> Z -> Z;
  vert_off : Z -> Z -> Z -> Z -> Z;
  per_row : Z -> Z -> Z -> Z -> Z;
}.
(** byte offset in [src] of the four texels averaged into destination texel (x, y), channel 0 *)
Definition src_offsets (c : scalecfg) (sw sh w h x y : Z) : list Z :=
  let off2 := 4 * (per_row c sw sh w h * y + per_column c sw sh w h * x) in
  [off2; off2 + horiz_off c sw sh w h; off2 + vert_off c sw sh w h; off2 + vert_off c sw sh w h + horiz_off c sw sh w h].
Definition texel_off (w x y : Z) : Z := 4 * (w * y + x).

(** The bilinear branch: [dest[off + ch] = (sum of src[off2 + ch (+ horiz_off) (+ vert_off)]) // div], the addends
    given as (uses horiz_off, uses vert_off) pairs read from the source. *)
Definition term_off (c : scalecfg) (sw sh w h : Z) (t : bool * bool) : Z :=
  (if fst t then horiz_off c sw sh w h else 0) + (if snd t then vert_off c sw sh w h else 0).
Definition bilinear (c : scalecfg) (terms : list (bool * bool)) (div : Z) (src : Z -> Z) (sw sh w h x y ch : Z) : Z :=
  let off2 := 4 * (per_row c sw sh w h * y + per_column c sw sh w h * x) in
  fold_right Z.add 0 (map (fun t => src (off2 + ch + term_off c sw sh w h t)) terms) / div.
Definition terms_eqb (a b : list (bool * bool)) : bool :=
  Nat.eqb (length a) (length b) && forallb (fun p => Bool.eqb (fst (fst p)) (fst (snd p)) && Bool.eqb (snd (fst p)) (snd (snd p))) (combine a b).
Definition block_terms : list (bool * bool) := [(false, false); (true, false); (false, true); (true, true)].
End Scale.
