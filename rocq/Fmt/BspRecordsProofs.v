(** Proofs: a record whose generated field orders pass [record_ok] is read back field by field, in every layout table
    it applies to; bit-field packing is inverted by shift and mask. *)
From Coq Require Import List String NArith Bool PeanoNat Lia.
From SV Require Import Bin.LE Bin.Struct Bin.StructProofs Fmt.BspFormatsSpec Fmt.BspFormatsProofs Fmt.BspRecords.
Import ListNotations.
Open Scope string_scope.
Open Scope list_scope.

Lemma strs_eqb_eq : forall a b, strs_eqb a b = true -> a = b.
Proof.
  induction a as [|x a IH]; intros [|y b] H; cbn [strs_eqb] in H; try discriminate; [reflexivity|].
  apply andb_prop in H. destruct H as [H1 H2]. apply String.eqb_eq in H1. apply IH in H2. subst. reflexivity.
Qed.
Lemma slots_eqb_eq : forall a b, slots_eqb a b = true -> a = b.
Proof.
  induction a as [|x a IH]; intros [|y b] H; cbn [slots_eqb] in H; try discriminate; [reflexivity|].
  apply andb_prop in H. destruct H as [H1 H2]. apply strs_eqb_eq in H1. apply IH in H2. subst. reflexivity.
Qed.

Lemma assoc_in : forall (A : Type) k (l : list (string * A)) v, assoc k l = Some v -> In (k, v) l.
Proof.
  induction l as [|[k' v'] l IH]; intros v H; cbn [assoc] in H; [discriminate|].
  destruct (String.eqb k k') eqn:E.
  - injection H as <-. apply String.eqb_eq in E. subst. left. reflexivity.
  - right. apply IH. exact H.
Qed.

(** The record as a whole: both sides name the same attribute in every position, the struct format has exactly that
    many values in every applicable layout table, every writing alternative uses that format, and for ANY assignment
    of values to the labels that fits the format the bytes written are read back as the same values under the same
    labels. *)
Theorem record_roundtrip : forall layouts sts name sname lays rs ws,
  record_ok layouts sts (name, sname, lays, rs, ws) = true ->
  rs = ws /\
  forall lname, In lname lays ->
  exists lay f n appl ralts walts,
    stream_named sname sts = Some (n, appl, ralts, walts) /\ In (lname, lay) layouts /\
    record_fmt layouts sts sname lname = Some f /\ wf_fmt f = true /\ nvalues f = List.length rs /\
    (forall ra, In ra ralts -> alt_fmt lay ra = Some f) /\ (forall wa, In wa walts -> alt_fmt lay wa = Some f) /\
    forall field : slot -> value, fits f (map field ws) = true ->
      exists bs, pack f (map field ws) = Some bs /\ List.length bs = calcsize f /\ unpack f bs = Some (map field rs).
Proof.
  intros layouts sts name sname lays rs ws H. cbn [record_ok] in H.
  repeat (apply andb_prop in H; let H' := fresh "H" in destruct H as [H H']).
  apply slots_eqb_eq in H. subst ws. split; [reflexivity|].
  intros lname Hin. rewrite forallb_forall in H0. specialize (H0 lname Hin).
  apply andb_prop in H0. destruct H0 as [Happ Hn].
  unfold stream_ok_named in H1. unfold stream_appl in Happ. unfold record_fmt in Hn |- *.
  destruct (stream_named sname sts) as [[[[n appl] ralts] walts]|] eqn:Es; [|discriminate].
  destruct ralts as [|r0 rr]; [destruct (assoc lname layouts); discriminate|].
  destruct (assoc lname layouts) as [lay|] eqn:El; [|discriminate].
  destruct (alt_fmt lay r0) as [f|] eqn:Ef; [|discriminate]. apply Nat.eqb_eq in Hn.
  apply assoc_in in El.
  assert (Hwalts : exists w0, In w0 walts).
  { cbn [stream_ok] in H1. apply andb_prop in H1. destruct H1 as [_ H1]. rewrite forallb_forall in H1.
    specialize (H1 _ El). cbn [fst snd] in H1. rewrite Happ in H1. cbn [stream_ok_in] in H1.
    destruct walts as [|w0 ww]; [discriminate|]. exists w0. left. reflexivity. }
  destruct Hwalts as [w0 Hw0].
  pose proof (lump_formats_agree layouts n appl (r0 :: rr) walts H1 lname lay El Happ) as A.
  assert (Hwf : wf_fmt f = true).
  { cbn [stream_ok] in H1. apply andb_prop in H1. destruct H1 as [_ H1]. rewrite forallb_forall in H1.
    specialize (H1 _ El). cbn [fst snd] in H1. rewrite Happ in H1. cbn [stream_ok_in] in H1.
    destruct walts as [|w1 ww]; [discriminate|]. rewrite Ef in H1.
    apply andb_prop in H1. destruct H1 as [H1 _]. apply andb_prop in H1. destruct H1 as [H1 _]. exact H1. }
  exists lay, f, n, appl, (r0 :: rr), walts. split; [reflexivity|]. split; [exact El|]. split; [reflexivity|].
  split; [exact Hwf|]. split; [exact Hn|]. split; [|split].
  - intros ra Hra. destruct (A ra w0 Hra Hw0) as (r & w & Er & Ew & -> & _).
    destruct (A r0 w0 (or_introl eq_refl) Hw0) as (r' & w' & Er' & Ew' & -> & _).
    rewrite Ef in Er'. injection Er' as <-. rewrite Ew in Ew'. injection Ew' as <-. exact Er.
  - intros wa Hwa. destruct (A r0 wa (or_introl eq_refl) Hwa) as (r & w & Er & Ew & -> & _).
    rewrite Ef in Er. injection Er as <-. exact Ew.
  - intros field Hfit. destruct (unpack_pack f (map field rs) Hwf Hfit) as (bs & Hp & Hu).
    exists bs. split; [exact Hp|]. split; [eapply pack_length; eauto | exact Hu].
Qed.

(** * Bit fields *)
Open Scope N_scope.

Lemma high_bits_of_small : forall lo k m, lo < 2 ^ k -> k <= m -> N.testbit lo m = false.
Proof.
  intros lo k m Hlo Hm. rewrite <- (N.mod_small lo (2 ^ k) Hlo). apply N.mod_pow2_bits_high. exact Hm.
Qed.

Theorem bitpack_roundtrip : forall k hi lo, lo < 2 ^ k ->
  bit_hi k (bitpack k hi lo) = hi /\ bit_lo k (bitpack k hi lo) = lo.
Proof.
  intros k hi lo Hlo. unfold bit_hi, bit_lo, bitpack. split; apply N.bits_inj; intros n.
  - rewrite N.shiftr_spec', N.lor_spec, N.shiftl_spec_high' by lia.
    replace (n + k - k) with n by lia. rewrite (high_bits_of_small lo k (n + k) Hlo) by lia. apply orb_false_r.
  - rewrite N.land_spec, N.lor_spec. destruct (N.lt_ge_cases n k) as [Hn|Hn].
    + rewrite N.shiftl_spec_low by exact Hn. rewrite N.ones_spec_low by exact Hn. cbn [orb]. apply andb_true_r.
    + rewrite N.ones_spec_high by exact Hn. rewrite (high_bits_of_small lo k n Hlo Hn). apply andb_false_r.
Qed.

(** The reader's mask [(1 << k) - 1] is [N.ones k]. *)
Lemma mask_is_ones : forall k, N.shiftl 1 k - 1 = N.ones k.
Proof. intros k. rewrite N.shiftl_1_l, N.ones_equiv, N.sub_1_r. reflexivity. Qed.

(** Overlays: with equal constants on both sides and a face count below [2^k] both attributes come back. *)
Theorem overlay_bits_roundtrip : forall rs rm ws maxf, overlay_bits_ok (rs, rm, ws) maxf = true ->
  forall order cnt, (cnt <= maxf)%nat ->
  let x := bitpack (N.of_nat ws) order (N.of_nat cnt) in
  bit_hi (N.of_nat rs) x = order /\ bit_lo (N.of_nat rm) x = N.of_nat cnt.
Proof.
  intros rs rm ws maxf H order cnt Hc. cbn [overlay_bits_ok] in H.
  apply andb_prop in H. destruct H as [H H3]. apply andb_prop in H. destruct H as [H1 H2].
  apply Nat.eqb_eq in H1. apply Nat.eqb_eq in H2. subst rs rm. apply N.ltb_lt in H3.
  apply bitpack_roundtrip. lia.
Qed.

(** Faces: count below the flag bit, the flag bit itself. *)
Theorem face_prim_bits_roundtrip : forall rmask rflag wmax wflag, face_prim_bits_ok (rmask, rflag, wmax, wflag) = true ->
  forall cnt (flag : bool), cnt <= wmax ->
  let x := N.lor cnt (if flag then wflag else 0) in
  N.land x rmask = cnt /\ (negb (N.land x rflag =? 0)) = flag.
Proof.
  intros rmask rflag wmax wflag H cnt flag Hc. cbn [face_prim_bits_ok] in H.
  apply andb_prop in H. destruct H as [H Hpow]. apply andb_prop in H. destruct H as [H Hones].
  apply andb_prop in H. destruct H as [H Hdisj]. apply andb_prop in H. destruct H as [H Hsucc].
  apply andb_prop in H. destruct H as [Hmax Hflag].
  apply N.eqb_eq in Hpow, Hones, Hdisj, Hsucc, Hmax, Hflag. subst wmax wflag.
  set (k := N.log2 rflag) in *.
  assert (Hlt : cnt < 2 ^ k) by (rewrite <- Hpow, <- Hsucc; lia).
  cbn zeta. rewrite N.lor_comm.
  replace (if flag then rflag else 0) with (N.shiftl (if flag then 1 else 0) k)
    by (destruct flag; [rewrite N.shiftl_1_l; symmetry; exact Hpow | apply N.shiftl_0_l]).
  pose proof (bitpack_roundtrip k (if flag then 1 else 0) cnt Hlt) as [Bh Bl]. unfold bitpack, bit_hi, bit_lo in Bh, Bl.
  split.
  - rewrite Hones. exact Bl.
  - assert (T : N.testbit (N.lor (N.shiftl (if flag then 1 else 0) k) cnt) k = flag).
    { replace k with (0 + k) at 2 by lia. rewrite <- N.shiftr_spec', Bh. destruct flag; reflexivity. }
    rewrite Hpow.
    destruct flag.
    + apply negb_true_iff. apply N.eqb_neq. intros E.
      assert (F : N.testbit (N.land (N.lor (N.shiftl 1 k) cnt) (2 ^ k)) k = false) by (rewrite E; apply N.bits_0).
      rewrite N.land_spec, T, N.pow2_bits_true in F. discriminate.
    + apply negb_false_iff. apply N.eqb_eq. apply N.bits_inj. intros n. rewrite N.bits_0, N.land_spec.
      destruct (N.eq_dec n k) as [->|Hn]; [rewrite T; reflexivity|].
      rewrite N.pow2_bits_false by congruence. apply andb_false_r.
Qed.
