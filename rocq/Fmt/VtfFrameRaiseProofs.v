(** C15 — proofs about the exits by exception of the Frame methods (Fmt/VtfFrameRaise.v). *)
From Coq Require Import List Bool Arith Lia String.
From SV Require Import Fmt.VtfFrameSM Fmt.VtfFrameSMProofs Fmt.VtfFrameRaise.
Import ListNotations.
Local Open Scope nat_scope.

Section Sem.
Variable pix fbytes : Type.
Notation fstate := (fstate pix fbytes).
Notation view' := (view' pix fbytes).
Notation view := (view pix fbytes).
Notation load := (load pix fbytes).
Notation apply_outcome := (apply_outcome pix fbytes).

(** One exit: what save() will write for the frame ([view']: the file's pixels while the source is there, else the data,
    None for a cleared frame) is what it was, or what it is after an explicit load(). *)
Lemma raise_ok_view' : forall blank decode newd scaled modf (st : fstate) o,
  raise_outcome_ok (present (f_data st)) (present (f_src st)) o = true ->
  let st' := apply_outcome o blank decode newd scaled modf st in
  view' decode st' = view' decode st \/ view' decode st' = view' decode (load blank decode st).
Proof.
  intros blank decode newd scaled modf [[d|] [s|]] [[dd m] ss] H; cbn in H |- *;
    destruct ss; cbn in H; try discriminate; destruct dd, m; cbn in H |- *; try discriminate; auto.
Qed.

(** ... and what the user sees through frame[x, y] / the buffer / to_PIL ([view]) is exactly what it was. *)
Lemma raise_ok_view : forall blank decode newd scaled modf (st : fstate) o,
  raise_outcome_ok (present (f_data st)) (present (f_src st)) o = true ->
  view blank decode (apply_outcome o blank decode newd scaled modf st) = view blank decode st.
Proof.
  intros blank decode newd scaled modf [[d|] [s|]] [[dd m] ss] H; cbn in H |- *;
    destruct ss; cbn in H; try discriminate; destruct dd, m; cbn in H |- *; try discriminate; auto.
Qed.

(** A frame that still waits to be read from the file keeps its file source or has exactly the file's pixels. *)
Lemma raise_ok_lazy_frame : forall blank decode newd scaled modf (st : fstate) b o,
  f_src st = Some b ->
  raise_outcome_ok (present (f_data st)) true o = true ->
  view' decode (apply_outcome o blank decode newd scaled modf st) = Some (decode b).
Proof.
  intros blank decode newd scaled modf [[d|] [s|]] b [[dd m] ss] Hs H; cbn in Hs; inversion Hs; subst; cbn in H |- *;
    destruct ss; cbn in H; try discriminate; destruct dd, m; cbn in H |- *; try discriminate; auto.
Qed.

Lemma in_find_row : forall (t : efftable) d s o, raise_table_ok t = true -> In o (find_row t d s) ->
  raise_outcome_ok d s o = true.
Proof.
  intros t d s o Ht Hin. unfold find_row in Hin.
  destruct (find _ t) as [r|] eqn:F; [|destruct Hin].
  apply find_some in F. destruct F as [Hr Hk].
  unfold raise_table_ok in Ht. rewrite forallb_forall in Ht. specialize (Ht r Hr).
  unfold raise_row_ok in Ht. rewrite forallb_forall in Ht. specialize (Ht o Hin).
  apply andb_true_iff in Hk. destruct Hk as [Hd Hs]. apply eqb_prop in Hd. apply eqb_prop in Hs. subst. exact Ht.
Qed.

(** * The chain: a raising call on one level changes what save() writes no more than load() of that level does *)
Variable blank : nat -> pix.
Variable decode : fbytes -> pix.
Variable encode : pix -> fbytes.
Variable scale : nat -> pix -> pix.

Lemma final_pixels_view' : forall (c1 c2 : list fstate), map (view' decode) c1 = map (view' decode) c2 ->
  forall m p, final_pixels pix fbytes decode scale m p c1 = final_pixels pix fbytes decode scale m p c2.
Proof.
  induction c1 as [|a c1 IH]; destruct c2 as [|b c2]; cbn [map]; intros E m p; try discriminate; [reflexivity|].
  inversion E as [[Ea Et]]. cbn [final_pixels].
  assert (Ep : match f_src a with Some x => decode x | None => match f_data a with Some d => d | None => scale m p end end
             = match f_src b with Some x => decode x | None => match f_data b with Some d => d | None => scale m p end end).
  { unfold VtfFrameSMProofs.view' in Ea. destruct (f_src a), (f_src b), (f_data a), (f_data b); congruence. }
  rewrite Ep. f_equal. apply IH. exact Et.
Qed.

Lemma final_chain_view' : forall (c1 c2 : list fstate), map (view' decode) c1 = map (view' decode) c2 ->
  final_chain pix fbytes blank decode scale c1 = final_chain pix fbytes blank decode scale c2.
Proof.
  intros [|a c1] [|b c2] E; cbn [map] in E; try discriminate; [reflexivity|].
  inversion E as [[Ea Et]]. unfold final_chain.
  assert (Ev : view (blank 0) decode a = view (blank 0) decode b).
  { unfold VtfFrameSMProofs.view' in Ea. unfold VtfFrameSM.view, or_blank. destruct (f_src a), (f_src b), (f_data a), (f_data b); congruence. }
  rewrite Ev. f_equal. apply final_pixels_view'. exact Et.
Qed.

Lemma map_upd_ext : forall A B (f : A -> B) (g h : A -> A) (l : list A) m,
  (forall x, nth_error l m = Some x -> f (g x) = f (h x)) -> map f (upd l m g) = map f (upd l m h).
Proof.
  induction l as [|x l IH]; intros m H; [reflexivity|].
  destruct m as [|m]; cbn [upd map].
  - f_equal. apply H. reflexivity.
  - f_equal. apply IH. intros y Hy. apply H. exact Hy.
Qed.
Lemma upd_id : forall A (l : list A) m, upd l m (fun x => x) = l.
Proof. induction l as [|x l IH]; intros [|m]; cbn; try reflexivity. f_equal. apply IH. Qed.

Variable cfg : chaincfg.
Hypothesis Hok : chain_ok cfg = true.
Notation save_chain := (save_chain pix fbytes blank decode encode scale ideal_load ideal_rescale cfg).

(** [t] is the raise table of some method; the call is made on level [m] of the chain, leaves by an exception at an exit
    [o] of the row of the level's state, the caller catches it, and the texture is saved. *)
Theorem rejected_call_then_save : forall (t : efftable), raise_table_ok t = true ->
  forall chain m newd scaled modf,
    let after o := upd chain m (apply_outcome o (blank m) decode newd scaled modf) in
    forall o, (forall st, nth_error chain m = Some st -> In o (find_row t (present (f_data st)) (present (f_src st)))) ->
      save_chain (after o) = save_chain chain
      \/ save_chain (after o) = save_chain (upd chain m (load (blank m) decode)).
Proof.
  intros t Ht chain m newd scaled modf after o Hin.
  rewrite !(chain_written pix fbytes blank decode encode scale cfg Hok).
  destruct (nth_error chain m) as [st|] eqn:N.
  - pose proof (in_find_row t _ _ o Ht (Hin st eq_refl)) as Hoo.
    destruct (raise_ok_view' (blank m) decode newd scaled modf st o Hoo) as [E | E].
    + left. f_equal. apply final_chain_view'. unfold after.
      rewrite <- (upd_id _ chain m) at 2. apply map_upd_ext. intros x Hx. rewrite N in Hx. inversion Hx; subst. exact E.
    + right. f_equal. apply final_chain_view'. unfold after.
      apply map_upd_ext. intros x Hx. rewrite N in Hx. inversion Hx; subst. exact E.
  - left. f_equal. apply final_chain_view'. unfold after.
    rewrite <- (upd_id _ chain m) at 2. apply map_upd_ext. intros x Hx. rewrite N in Hx. discriminate.
Qed.

(** For a level that still waits to be read from the file nothing changes at all: the bytes of the file are written. *)
Theorem rejected_call_on_lazy_level_then_save : forall (t : efftable), raise_table_ok t = true ->
  forall chain m st b newd scaled modf o,
    nth_error chain m = Some st -> f_src st = Some b ->
    In o (find_row t (present (f_data st)) true) ->
    nth_error (save_chain (upd chain m (apply_outcome o (blank m) decode newd scaled modf))) m = Some (Some (encode (decode b))).
Proof.
  intros t Ht chain m st b newd scaled modf o N Hs Hin.
  pose proof (in_find_row t _ _ o Ht Hin) as Hoo.
  pose proof (raise_ok_lazy_frame (blank m) decode newd scaled modf st b o Hs Hoo) as Hv.
  rewrite (chain_written pix fbytes blank decode encode scale cfg Hok).
  rewrite nth_error_map.
  set (st' := apply_outcome o (blank m) decode newd scaled modf st) in *.
  set (chain2 := upd chain m (fun _ => {| f_data := None; f_src := Some b |})).
  assert (E : map (view' decode) (upd chain m (apply_outcome o (blank m) decode newd scaled modf)) = map (view' decode) chain2).
  { unfold chain2. apply map_upd_ext. intros x Hx. rewrite N in Hx. inversion Hx; subst. exact Hv. }
  rewrite (final_chain_view' _ _ E).
  assert (N2 : nth_error chain2 m = Some {| f_data := None; f_src := Some b |}).
  { unfold chain2. clear -N. revert m N. induction chain as [|x l IH]; intros [|m] N; cbn in *; try discriminate; auto. }
  pose proof (chain_keeps_file_levels pix fbytes blank decode encode scale cfg Hok chain2 m _ b N2 eq_refl) as K.
  rewrite (chain_written pix fbytes blank decode encode scale cfg Hok) in K. rewrite nth_error_map in K. exact K.
Qed.
End Sem.

(** * Over generated objects *)
Theorem rejected_call_then_save_gen : forall pix fbytes blank decode encode scale t_load t_rescale cfg,
  efftable_eqb t_load ideal_load = true -> efftable_eqb t_rescale ideal_rescale = true -> chain_ok cfg = true ->
  forall ts name, method_raises_cleanly ts name = true ->
  forall (chain : list (fstate pix fbytes)) m newd scaled modf o,
    (forall st, nth_error chain m = Some st -> In o (find_row (raise_table_of ts name) (present (f_data st)) (present (f_src st)))) ->
    let after := upd chain m (apply_outcome pix fbytes o (blank m) decode newd scaled modf) in
    save_chain pix fbytes blank decode encode scale t_load t_rescale cfg after
      = save_chain pix fbytes blank decode encode scale t_load t_rescale cfg chain
    \/ save_chain pix fbytes blank decode encode scale t_load t_rescale cfg after
      = save_chain pix fbytes blank decode encode scale t_load t_rescale cfg (upd chain m (load pix fbytes (blank m) decode)).
Proof.
  intros pix fbytes blank decode encode scale t_load t_rescale cfg H1 H2 Hok ts name Hm chain m newd scaled modf o Hin.
  apply efftable_eqb_eq in H1. apply efftable_eqb_eq in H2. subst.
  unfold method_raises_cleanly in Hm. apply andb_true_iff in Hm. destruct Hm as [_ Ht].
  exact (rejected_call_then_save pix fbytes blank decode encode scale cfg Hok _ Ht chain m newd scaled modf o Hin).
Qed.

Theorem rejected_call_on_lazy_level_then_save_gen : forall pix fbytes blank decode encode scale t_load t_rescale cfg,
  efftable_eqb t_load ideal_load = true -> efftable_eqb t_rescale ideal_rescale = true -> chain_ok cfg = true ->
  forall ts name, method_raises_cleanly ts name = true ->
  forall (chain : list (fstate pix fbytes)) m st b newd scaled modf o,
    nth_error chain m = Some st -> f_src st = Some b ->
    In o (find_row (raise_table_of ts name) (present (f_data st)) true) ->
    nth_error (save_chain pix fbytes blank decode encode scale t_load t_rescale cfg
                 (upd chain m (apply_outcome pix fbytes o (blank m) decode newd scaled modf))) m
    = Some (Some (encode (decode b))).
Proof.
  intros pix fbytes blank decode encode scale t_load t_rescale cfg H1 H2 Hok ts name Hm chain m st b newd scaled modf o N Hs Hin.
  apply efftable_eqb_eq in H1. apply efftable_eqb_eq in H2. subst.
  unfold method_raises_cleanly in Hm. apply andb_true_iff in Hm. destruct Hm as [_ Ht].
  exact (rejected_call_on_lazy_level_then_save pix fbytes blank decode encode scale cfg Hok _ Ht chain m st b newd scaled modf o N Hs Hin).
Qed.

Theorem rejected_call_shows_the_same_pixels_gen : forall ts name, method_raises_cleanly ts name = true ->
  forall pix fbytes blank decode newd scaled modf (st : fstate pix fbytes) o,
    In o (find_row (raise_table_of ts name) (present (f_data st)) (present (f_src st))) ->
    view pix fbytes blank decode (apply_outcome pix fbytes o blank decode newd scaled modf st) = view pix fbytes blank decode st.
Proof.
  intros ts name Hm pix fbytes blank decode newd scaled modf st o Hin.
  unfold method_raises_cleanly in Hm. apply andb_true_iff in Hm. destruct Hm as [_ Ht].
  apply raise_ok_view. exact (in_find_row _ _ _ o Ht Hin).
Qed.

(** * The defective shapes are refuted, with what they do to a toy texture (decode/encode identity, scaling adds 100):
    level 1 of a lazily read two-level chain is the target of a rejected call *)
Definition toy_after_raise (o : outcome) (chain : list (fstate nat nat)) :=
  toy_save ideal_rescale good_cfg (upd chain 1 (apply_outcome nat nat o 0 (fun b => b) 0 0 (fun p => p))).

Lemma copy_from_source_dropped_first_refuted :
  raise_table_ok raise_copy_from_source_dropped_first = false
  /\ In (DNoneV, false, SNoneV) (find_row raise_copy_from_source_dropped_first false true)
  /\ toy_after_raise (DNoneV, false, SNoneV) [lazy 1; lazy 2] = [Some 1; Some 101]
  /\ toy_save ideal_rescale good_cfg [lazy 1; lazy 2] = [Some 1; Some 2].
Proof. repeat split; try reflexivity. cbn. auto. Qed.

Lemma load_source_dropped_first_refuted :
  raise_table_ok raise_load_source_dropped_first = false
  /\ toy_after_raise (DBlank, false, SNoneV) [lazy 1; lazy 2] = [Some 1; Some 0].
Proof. split; reflexivity. Qed.

Definition raise_example_name : string := "copy_from".
Definition raise_example : list (string * efftable) :=
  [(raise_example_name,
    [((false, false), [(DNoneV, false, SNoneV); (DBlank, false, SNoneV)]); ((false, true), [(DNoneV, false, SKeep); (DBlank, false, SKeep); (DFile, false, SNoneV)]);
     ((true, false), [(DKeep, false, SNoneV)]); ((true, true), [(DKeep, false, SKeep); (DFile, false, SNoneV)])])].
Example raise_tables_inhabited : method_raises_cleanly raise_example raise_example_name = true.
Proof. reflexivity. Qed.
