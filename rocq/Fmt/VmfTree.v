(** C06, round 4: composition of the per-class object-level tables (Fmt/VmfLite.v) over the containment tree
    VMF > Entity > Solid > Side (> dispinfo lines, which belong to Side's table).
    An object is a node with its class, the values of its scalar attributes (attributes carried by a written line with a
    literal key and exactly one attribute), and child objects, each tagged with the attribute of the parent that holds it.
    Exporting a node writes the lines of its class table and, recursively, the children held in attributes the writer exports;
    parsing a block reads every scalar line through the reader's entry for the same key and, recursively, the child blocks
    the reader builds objects from.  Definitions only; proofs in Fmt/VmfTreeProofs.v. *)
From Coq Require Import List String Bool.
From SV Require Import Fmt.VmfLite.
Import ListNotations.
Open Scope string_scope.

Definition is_scalar (w : lentry) : bool :=
  (negb (le_dyn w) && match le_attrs w with [_] => true | _ => false end)%bool.
Definition scalar_attr (w : lentry) : string := hd "" (le_attrs w).
Definition scalars (c : liteclass) : list lentry := filter is_scalar (lc_written c).

Section Tree.
  Variables V T : Type.
  Variable dflt : V.
  Variable enc : lentry -> list V -> T.      (* text of a written line, from the entry and the values of its attributes *)
  Variable dec : lentry -> T -> V.           (* what the reader's entry makes of the text it finds *)
  Variable tbl : list liteclass.

  Definition cls_of (c : string) : option liteclass := find (fun lc => String.eqb (lc_name lc) c) tbl.

  Inductive otree := ONode (attr c : string) (fs : list (string * V)) (ks : list otree).
  Inductive dtree := DNode (attr c : string) (lines : list ((string * string) * T)) (ks : list dtree).

  Definition o_attr (x : otree) : string := match x with ONode a _ _ _ => a end.
  Definition d_attr (d : dtree) : string := match d with DNode a _ _ _ => a end.

  Fixpoint fs_get (a : string) (fs : list (string * V)) : V :=
    match fs with [] => dflt | (a', v) :: r => if String.eqb a' a then v else fs_get a r end.

  Fixpoint export_t (x : otree) : dtree :=
    match x with
    | ONode a c fs ks =>
        match cls_of c with
        | Some lc => DNode a c (export_lines V T enc lc (fun at_ => fs_get at_ fs))
                       (filter (fun d => smem (d_attr d) (lc_kids_written lc)) (map export_t ks))
        | None => DNode a c [] []
        end
    end.

  Definition read_scalar (lc : liteclass) (lines : list ((string * string) * T)) (w : lentry) : string * V :=
    (scalar_attr w,
     match find_entry (le_block w) (le_key w) (lc_read lc) with
     | Some r => match llookup T (le_block r) (le_key r) lines with Some t => dec r t | None => dflt end
     | None => dflt
     end).

  Fixpoint parse_t (d : dtree) : otree :=
    match d with
    | DNode a c lines ks =>
        match cls_of c with
        | Some lc => ONode a c (map (read_scalar lc lines) (scalars lc))
                       (filter (fun k => smem (o_attr k) (lc_kids_read lc)) (map parse_t ks))
        | None => ONode a c [] []
        end
    end.

  (** A well-formed object: its class is in the table and paired; it has exactly one value per scalar attribute of the
      class; its children sit in attributes that the writer exports and the reader fills, and are well formed. *)
  Fixpoint wf (x : otree) : Prop :=
    match x with
    | ONode a c fs ks =>
        exists lc, cls_of c = Some lc /\ lite_paired lc = true /\
          map fst fs = map scalar_attr (scalars lc) /\ NoDup (map fst fs) /\
          (fix all (l : list otree) : Prop :=
             match l with
             | [] => True
             | k :: r => (In (o_attr k) (lc_kids_written lc) /\ In (o_attr k) (lc_kids_read lc) /\ wf k) /\ all r
             end) ks
    end.

  (** The field codecs invert: what the reader's entry for a key makes of the text the writer's entry for that key
      produces from a value is that value (supplied per field by the string, number, flag, output and ID theorems). *)
  Definition codecs_invert : Prop :=
    forall lc w r v, In lc tbl -> In w (scalars lc) ->
      find_entry (le_block w) (le_key w) (lc_read lc) = Some r -> dec r (enc w [v]) = v.
End Tree.

(** The containment edges of a table: (parent class, attribute, child class); an edge is usable by the tree theorem when
    the attribute is exported by the parent's writer and filled by the parent's reader, and both classes are paired. *)
Definition edge_ok (tbl : list liteclass) (e : (string * string) * string) : bool :=
  let '((p, a), c) := e in
  match find (fun lc => String.eqb (lc_name lc) p) tbl, find (fun lc => String.eqb (lc_name lc) c) tbl with
  | Some lp, Some lcc => (lite_paired lp && lite_paired lcc && smem a (lc_kids_written lp) && smem a (lc_kids_read lp))%bool
  | _, _ => false
  end.
Definition has_edge (edges : list ((string * string) * string)) (p c : string) : bool :=
  existsb (fun e => let '((p', _), c') := e in (String.eqb p' p && String.eqb c' c)%bool) edges.
Fixpoint chain_ok (tbl : list liteclass) (edges : list ((string * string) * string)) (chain : list string) : bool :=
  match chain with
  | p :: ((c :: _) as r) => (has_edge (filter (edge_ok tbl) edges) p c && chain_ok tbl edges r)%bool
  | _ => true
  end.
