(** The program of write_dirfile means [enc_file] (Fmt/VpkDirProg.v, Fmt/VpkDir.v). *)
From Coq Require Import List NArith Bool Lia.
From SV Require Import Fmt.VpkDir Fmt.VpkDirProofs Fmt.VpkDirProg.
Import ListNotations.
Open Scope N_scope.

Definition sapp (s : wst) (d : bytes) : wst := mkW (fb s ++ d) None (fmark s) (fdl s).

Lemma sapp_sapp s a b : sapp (sapp s a) b = sapp s (a ++ b).
Proof. unfold sapp. cbn. now rewrite app_assoc. Qed.
Lemma sapp_nil s : fc s = None -> sapp s [] = s.
Proof. destruct s as [b c m d]. cbn. intros ->. unfold sapp. cbn. now rewrite app_nil_r. Qed.
Lemma fwrite_end s d : fc s = None -> fwrite s d = sapp s d.
Proof. unfold fwrite, sapp. now intros ->. Qed.
Lemma fc_sapp s d : fc (sapp s d) = None.
Proof. reflexivity. Qed.

Section exec.
  Variable c : dcfg.
  Variable footer : bytes.

  Lemma pack_entry x :
    pack (map (fun f => (fval_of c x (fst f), snd f)) entry_fields_pinned)
    = if entry_fits c (x_info x)
      then Some (le32 (icrc (x_info x)) ++ le16 (len (ipre (x_info x))) ++ le16 (idx_code c (x_info x)) ++ le32 (ioff (x_info x))
                 ++ le32 (ilen (x_info x)) ++ le16 (c_term c) ++ [])
      else None.
  Proof.
    unfold entry_fields_pinned, entry_fits. cbn [map fst snd fval_of pack N.eqb Pos.eqb].
    destruct (fits32 (icrc (x_info x))); [|reflexivity].
    destruct (fits16 (len (ipre (x_info x)))); [|reflexivity].
    destruct (fits16 (idx_code c (x_info x))); [|reflexivity].
    destruct (fits32 (ioff (x_info x))); [|reflexivity].
    destruct (fits32 (ilen (x_info x))); [|reflexivity].
    destruct (fits16 (c_term c)); reflexivity.
  Qed.

  Lemma file_body_run e d f s : fc s = None ->
    wrun c footer (mkCtx e d (fst f) (snd f)) (w_file_body wprog_pinned) s
    = if entry_fits c (snd f) then Some (sapp s (write_cstr (fst f) ++ enc_entry c (snd f))) else None.
  Proof.
    intros Hs. cbn [wprog_pinned w_file_body wrun wop_step x_name x_info].
    rewrite (fwrite_end _ _ Hs). rewrite pack_entry. cbn [x_info].
    destruct (entry_fits c (snd f)); [|reflexivity].
    rewrite (fwrite_end _ _ (fc_sapp _ _)), (fwrite_end _ _ (fc_sapp _ _)), !sapp_sapp.
    unfold enc_entry. do 2 f_equal; rewrite ?app_nil_r, <- ?app_assoc; reflexivity.
  Qed.

  Lemma files_loop e d fs : forall s, fc s = None ->
    wloop (fun f s => wrun c footer (mkCtx e d (fst f) (snd f)) (w_file_body wprog_pinned) s) fs s
    = if forallb (fun f => entry_fits c (snd f)) fs
      then Some (sapp s (flat_map (fun f => write_cstr (fst f) ++ enc_entry c (snd f)) fs)) else None.
  Proof.
    induction fs as [|f fs IH]; intros s Hs; cbn [wloop forallb flat_map].
    - now rewrite (sapp_nil _ Hs).
    - rewrite (file_body_run _ _ _ _ Hs). destruct (entry_fits c (snd f)); [|reflexivity]. cbn [andb].
      rewrite (IH _ (fc_sapp _ _)). destruct (forallb _ fs); [|reflexivity]. now rewrite sapp_sapp, <- app_assoc.
  Qed.

  Definition dir_bytes (d : bytes * list (bytes * info)) : bytes :=
    match snd d with [] => [] | _ => write_cstr (fst d) ++ enc_files c (snd d) end.
  Definition ext_bytes (e : bytes * list (bytes * list (bytes * info))) : bytes :=
    match snd e with [] => [] | _ => write_cstr (fst e) ++ enc_dirs c (snd e) end.

  Definition dir_body (e : bytes) (d : bytes * list (bytes * info)) (s : wst) : option wst :=
    if w_dir_skip wprog_pinned && lnil (snd d) then Some s else
    let xd := mkCtx e (fst d) [] (x_info x0) in
    obind (wrun c footer xd (w_dir_pre wprog_pinned) s) (fun s =>
    obind (wloop (fun f s => wrun c footer (mkCtx e (fst d) (fst f) (snd f)) (w_file_body wprog_pinned) s) (snd d) s) (fun s =>
    wrun c footer xd (w_dir_post wprog_pinned) s)).

  Lemma dir_body_run e d s : fc s = None ->
    dir_body e d s = if forallb (fun f => entry_fits c (snd f)) (snd d) then Some (sapp s (dir_bytes d)) else None.
  Proof.
    intros Hs. unfold dir_body, dir_bytes. destruct d as [dn fs]. cbn [fst snd].
    destruct fs as [|f0 fs'].
    - cbn. now rewrite (sapp_nil _ Hs).
    - cbn [wprog_pinned w_dir_skip w_dir_pre w_dir_post lnil andb wrun wop_step obind x_dir].
      rewrite (fwrite_end _ _ Hs). rewrite (files_loop _ _ _ _ (fc_sapp _ _)).
      destruct (forallb (fun f => entry_fits c (snd f)) (f0 :: fs')); [|reflexivity].
      cbn [obind]. rewrite (fwrite_end _ _ (fc_sapp _ _)), !sapp_sapp. unfold enc_files. reflexivity.
  Qed.

  Lemma dirs_loop e ds : forall s, fc s = None ->
    wloop (dir_body e) ds s
    = if forallb (fun d => forallb (fun f => entry_fits c (snd f)) (snd d)) ds
      then Some (sapp s (flat_map dir_bytes ds)) else None.
  Proof.
    induction ds as [|d ds IH]; intros s Hs; cbn [wloop forallb flat_map].
    - now rewrite (sapp_nil _ Hs).
    - rewrite (dir_body_run _ _ _ Hs). destruct (forallb (fun f => entry_fits c (snd f)) (snd d)); [|reflexivity]. cbn [andb].
      rewrite (IH _ (fc_sapp _ _)). destruct (forallb _ ds); [|reflexivity]. now rewrite sapp_sapp.
  Qed.

  Definition ext_body (e : bytes * list (bytes * list (bytes * info))) (s : wst) : option wst :=
    if w_ext_skip wprog_pinned && lnil (snd e) then Some s else
    let xe := mkCtx (fst e) [] [] (x_info x0) in
    obind (wrun c footer xe (w_ext_pre wprog_pinned) s) (fun s =>
    obind (wloop (dir_body (fst e)) (snd e) s) (fun s =>
    wrun c footer xe (w_ext_post wprog_pinned) s)).

  Lemma ext_body_run e s : fc s = None ->
    ext_body e s = if forallb (fun d => forallb (fun f => entry_fits c (snd f)) (snd d)) (snd e) then Some (sapp s (ext_bytes e)) else None.
  Proof.
    intros Hs. unfold ext_body, ext_bytes. destruct e as [en ds]. cbn [fst snd].
    destruct ds as [|d0 ds'].
    - cbn. now rewrite (sapp_nil _ Hs).
    - cbn [wprog_pinned w_ext_skip w_ext_pre w_ext_post lnil andb wrun wop_step obind x_ext].
      rewrite (fwrite_end _ _ Hs). rewrite (dirs_loop _ _ _ (fc_sapp _ _)).
      destruct (forallb (fun d => forallb (fun f => entry_fits c (snd f)) (snd d)) (d0 :: ds')); [|reflexivity].
      cbn [obind]. rewrite (fwrite_end _ _ (fc_sapp _ _)), !sapp_sapp. unfold enc_dirs. reflexivity.
  Qed.

  Lemma exts_loop t : forall s, fc s = None ->
    wloop ext_body t s = if tree_fits c t then Some (sapp s (flat_map ext_bytes t)) else None.
  Proof.
    unfold tree_fits. induction t as [|e t IH]; intros s Hs; cbn [wloop forallb flat_map].
    - now rewrite (sapp_nil _ Hs).
    - rewrite (ext_body_run _ _ Hs). destruct (forallb (fun d => forallb (fun f => entry_fits c (snd f)) (snd d)) (snd e)); [|reflexivity]. cbn [andb].
      rewrite (IH _ (fc_sapp _ _)). destruct (forallb _ t); [|reflexivity]. now rewrite sapp_sapp.
  Qed.

  Lemma wexec_st_pinned_unfold t :
    wexec_st c footer wprog_pinned t
    = obind (wrun c footer x0 (w_before wprog_pinned) (mkW [] None 0 0)) (fun s1 =>
      obind (wloop ext_body t s1) (fun s2 => wrun c footer x0 (w_after wprog_pinned) s2)).
  Proof. reflexivity. Qed.

  Theorem wexec_pinned t : wexec c footer wprog_pinned t = enc_file c t footer.
  Proof.
    unfold wexec. rewrite wexec_st_pinned_unfold. unfold enc_file.
    cbn [wprog_pinned w_before wrun wop_step map fst snd hval_of pack N.eqb Pos.eqb].
    destruct (fits32 (c_sig c)); [|reflexivity].
    change (fits32 1) with true. change (fits32 0) with true. cbn [obind fwrite fc app tell fb fmark fdl].
    rewrite exts_loop by reflexivity.
    destruct (tree_fits c t); [|reflexivity]. cbn [andb obind].
    cbn [wprog_pinned w_after wrun wop_step].
    rewrite (fwrite_end _ _ (fc_sapp _ _)), sapp_sapp.
    change (flat_map ext_bytes t ++ [0]) with (enc_tree c t).
    set (T := enc_tree c t).
    unfold sapp. cbn [fb fc fmark fdl tell fwrite map fst snd hval_of pack N.eqb Pos.eqb].
    assert (Hl : N.of_nat (length ((le32 (c_sig c) ++ le32 1 ++ le32 0 ++ []) ++ T) - length (le32 (c_sig c) ++ le32 1 ++ le32 0 ++ [])) = len T).
    { rewrite app_length. unfold len. f_equal; lia. }
    rewrite !Hl. destruct (fits32 (len T)); [|reflexivity].
    cbn [option_map fb]. f_equal; (change (N.to_nat 8) with 8%nat; unfold le32; cbn [app firstn skipn length Nat.add];
      rewrite <- ?app_assoc; reflexivity).
  Qed.
End exec.

(** Every program accepted by [wprog_ok] writes exactly [enc_file], for every format instance, tree and footer. *)
Theorem wprog_ok_is_enc_file p : wprog_ok p = true -> forall c t footer, wexec c footer p t = enc_file c t footer.
Proof.
  unfold wprog_ok. destruct (wprog_eq_dec p wprog_pinned) as [->|]; [|discriminate]. intros _ c t footer. apply wexec_pinned.
Qed.

Definition ex_c : dcfg := {| c_sig := 1437209140; c_dir_index := 32767; c_term := 65535 |}.
Definition ex_t : tree := [([116], [([97], [([120], mkInfo 7 [1; 2] None 0 0); ([121], mkInfo 8 [] (Some 3) 5 9)]); ([], [([122], mkInfo 9 [3] None 0 4)])]); ([], [])].

(** The pinned program is accepted and its output decodes; three nearby wrong programs are rejected: without the folder terminator
    or with the preload before the entry the file does not decode; with the tree length taken after footer_data the header is wrong (the
    lenient reader of the library still loads such a file, a strict reader does not: own mutation N5 of round 2). *)
Lemma wprogs_computed :
  wprog_ok wprog_pinned = true
  /\ match wexec ex_c [5; 6] wprog_pinned ex_t with Some b => dec_file ex_c b | None => None end = Some (nmap (flat_tree ex_t), [5; 6])
  /\ wprog_ok wprog_no_dir_term = false
  /\ match wexec ex_c [5; 6] wprog_no_dir_term ex_t with Some b => dec_file ex_c b | None => None end <> Some (nmap (flat_tree ex_t), [5; 6])
  /\ wprog_ok wprog_len_after_footer = false
  /\ wexec ex_c [5; 6] wprog_len_after_footer ex_t <> enc_file ex_c ex_t [5; 6]
  /\ wprog_ok wprog_preload_first = false
  /\ match wexec ex_c [5; 6] wprog_preload_first ex_t with Some b => dec_file ex_c b | None => None end <> Some (nmap (flat_tree ex_t), [5; 6]).
Proof. vm_compute. repeat split; try reflexivity; intros H; discriminate. Qed.
