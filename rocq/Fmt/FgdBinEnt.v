(** C16 — model of the entity records of the binary FGD database (srctools._engine_db):
    kv_serialise / kv_unserialise, iodef_serialise / iodef_unserialise, the resource entries,
    ent_serialise / ent_unserialise and the sequence of entities of one block, over bytes ([list N]).

    It is the composition of the small codecs of Fmt/FgdBin.v: the order tables ([encode_type]/[decode_type]),
    "index | 128" ([pack_flag7]), EntFlags ([pack_entflags]), spawnflag powers ([pack_spawnflag]) and the string
    dictionary, which enters as the pair [enc]/[dec] (BinStrDict.__call__ / make_lookup; instantiated with
    [sd_encode]/[sd_decode] + the little-endian 16-bit index in [dict_enc]/[dict_dec]).

    A serialiser returns [None] where the implementation raises (count or index above 255 in struct.pack('<B'),
    string missing from the dictionary, type missing from the order table, CHOICES keyvalue, spawnflag 0 or >= 2^128).
    What the format does not carry is not part of the records: descriptions, helpers, tags on keyvalues, kv_order,
    `reportable`.  The class name of a definition is stored in the block header, not in the record. *)
From Coq Require Import List NArith Arith Bool String.
From SV Require Import Fmt.FgdBin.
Import ListNotations.
Open Scope N_scope.

Section Ent.
Variable A : Type.                       (* strings *)
Variable enc : A -> option (N * N).      (* BinStrDict.__call__: the two bytes of the index; None = KeyError *)
Variable dec : N * N -> option A.        (* make_lookup *)
Variable empty : A.                      (* '' *)
Variables vt_order ft_order : list string.   (* VALUE_TYPE_ORDER, FILE_TYPE_ORDER (member names) *)
Variables list_type choices_type : string.   (* ValueTypes.SPAWNFLAGS, ValueTypes.CHOICES *)
Variable kinds : list (string * N).      (* the TYPE_ members of EntFlags *)
Variables mask alias_bit : N.            (* EntFlags.MASK_TYPE, EntFlags.IS_ALIAS *)

Record kvdef := mk_kv { kv_name : A; kv_disp : A; kv_type : string; kv_ro : bool; kv_default : A;
                        kv_flags : list (N * A * bool) }.     (* (mask, name, default) *)
Record iodef := mk_io { io_name : A; io_type : string }.
Record resdef := mk_res { res_file : A; res_type : string; res_tags : list A }.
Record entdef := mk_ent { e_kind : string; e_alias : bool; e_bases : list A; e_kvs : list kvdef;
                          e_ins : list iodef; e_outs : list iodef; e_res : list resdef }.

(** * Writers *)
Definition cat (a b : option (list N)) : option (list N) :=
  match a, b with Some x, Some y => Some (x ++ y) | _, _ => None end.
Definition cat_all (l : list (option (list N))) : option (list N) := fold_right cat (Some []) l.
Definition byte (n : N) : option (list N) := if n <? 256 then Some [n] else None.
Definition str_b (s : A) : option (list N) := option_map (fun p => [fst p; snd p]) (enc s).
Definition count_b {T} (l : list T) : option (list N) := byte (N.of_nat (List.length l)).

Definition flag_ser (f : N * A * bool) : option (list N) :=
  let '(m, name, d) := f in
  if (m =? 0) || (128 <=? N.log2 m) then None        (* math.log2(0) raises; `assert power < 128` *)
  else cat (byte (pack_spawnflag m d)) (str_b name).

Definition kv_ser (k : kvdef) : option (list N) :=
  match encode_type vt_order (kv_type k) with
  | None => None
  | Some i =>
      cat_all [str_b (kv_name k); str_b (kv_disp k); byte (pack_flag7 (N.of_nat i) (kv_ro k));
               if String.eqb (kv_type k) list_type
               then cat (count_b (kv_flags k)) (cat_all (map flag_ser (kv_flags k)))
               else if String.eqb (kv_type k) choices_type then None
               else str_b (kv_default k)]
  end.

Definition io_ser (o : iodef) : option (list N) :=
  match encode_type vt_order (io_type o) with
  | None => None
  | Some i => cat (str_b (io_name o)) (byte (N.of_nat i))
  end.

Definition res_ser (r : resdef) : option (list N) :=
  match encode_type ft_order (res_type r) with
  | None => None
  | Some i =>
      match res_tags r with
      | [] => cat (byte (N.of_nat i)) (str_b (res_file r))
      | tags => cat_all [byte (pack_flag7 (N.of_nat i) true); count_b tags; cat_all (map str_b tags); str_b (res_file r)]
      end
  end.

Definition ent_ser (e : entdef) : option (list N) :=
  match flag_of_name (e_kind e) kinds with
  | None => None
  | Some ty =>
      cat_all [byte (pack_entflags ty alias_bit (e_alias e));
               count_b (e_bases e); count_b (e_kvs e); count_b (e_ins e); count_b (e_outs e); count_b (e_res e);
               cat_all (map str_b (e_bases e)); cat_all (map kv_ser (e_kvs e)); cat_all (map io_ser (e_ins e));
               cat_all (map io_ser (e_outs e)); cat_all (map res_ser (e_res e))]
  end.

(** the entity records of one block, in the order of the class names of the block header *)
Definition block_ser (es : list entdef) : option (list N) := cat_all (map ent_ser es).

(** * Readers *)
Definition reader (T : Type) : Type := list N -> option (T * list N).
Definition rd_byte : reader N := fun bs => match bs with b :: r => Some (b, r) | [] => None end.
Definition rd_str : reader A :=
  fun bs => match bs with a :: b :: r => match dec (a, b) with Some s => Some (s, r) | None => None end | _ => None end.
Fixpoint rd_n {T} (n : nat) (rd : reader T) : reader (list T) :=
  fun bs => match n with
            | O => Some ([], bs)
            | S m => match rd bs with
                     | Some (x, r) => match rd_n m rd r with Some (xs, r') => Some (x :: xs, r') | None => None end
                     | None => None
                     end
            end.

Definition flag_unser : reader (N * A * bool) :=
  fun bs => match rd_byte bs with
            | Some (b, r) => let '(m, d) := unpack_spawnflag b in
                             match rd_str r with Some (name, r') => Some ((m, name, d), r') | None => None end
            | None => None
            end.

Definition kv_unser : reader kvdef :=
  fun bs =>
  match rd_str bs with None => None | Some (name, r1) =>
  match rd_str r1 with None => None | Some (disp, r2) =>
  match rd_byte r2 with None => None | Some (b, r3) =>
  let '(idx, ro) := unpack_flag7 b in
  match decode_type vt_order (N.to_nat idx) with None => None | Some ty =>
  if String.eqb ty list_type then
    match rd_byte r3 with None => None | Some (n, r4) =>
    match rd_n (N.to_nat n) flag_unser r4 with None => None | Some (fl, r5) =>
    Some (mk_kv name disp ty ro empty fl, r5) end end
  else
    match rd_str r3 with None => None | Some (dflt, r4) => Some (mk_kv name disp ty ro dflt [], r4) end
  end end end end.

Definition io_unser : reader iodef :=
  fun bs =>
  match rd_str bs with None => None | Some (name, r1) =>
  match rd_byte r1 with None => None | Some (b, r2) =>
  match decode_type vt_order (N.to_nat b) with None => None | Some ty => Some (mk_io name ty, r2) end end end.

Definition res_unser : reader resdef :=
  fun bs =>
  match rd_byte bs with None => None | Some (b, r1) =>
  let '(idx, has_tags) := unpack_flag7 b in
  match decode_type ft_order (N.to_nat idx) with None => None | Some ty =>
  if has_tags then
    match rd_byte r1 with None => None | Some (n, r2) =>
    match rd_n (N.to_nat n) rd_str r2 with None => None | Some (tags, r3) =>
    match rd_str r3 with None => None | Some (f, r4) => Some (mk_res f ty tags, r4) end end end
  else
    match rd_str r1 with None => None | Some (f, r2) => Some (mk_res f ty [], r2) end
  end end.

Definition ent_unser : reader entdef :=
  fun bs =>
  match bs with
  | fl :: nb :: nk :: ni :: no :: nr :: r0 =>
      let '(ty, al) := unpack_entflags mask alias_bit fl in
      match name_of_flag ty kinds with None => None | Some kind =>
      match rd_n (N.to_nat nb) rd_str r0 with None => None | Some (bases, r1) =>
      match rd_n (N.to_nat nk) kv_unser r1 with None => None | Some (kvs, r2) =>
      match rd_n (N.to_nat ni) io_unser r2 with None => None | Some (ins, r3) =>
      match rd_n (N.to_nat no) io_unser r3 with None => None | Some (outs, r4) =>
      match rd_n (N.to_nat nr) res_unser r4 with None => None | Some (res, r5) =>
      Some (mk_ent kind al bases kvs ins outs res, r5) end end end end end end
  | _ => None
  end.

Definition block_unser (n : nat) : reader (list entdef) := rd_n n ent_unser.

(** * What the writer does not check but the format assumes *)
Definition flag_wf (f : N * A * bool) : Prop := exists p, p < 128 /\ fst (fst f) = 2 ^ p.
Definition kv_wf (k : kvdef) : Prop :=
  if String.eqb (kv_type k) list_type then kv_default k = empty /\ Forall flag_wf (kv_flags k) else kv_flags k = [].
Definition ent_wf (e : entdef) : Prop := Forall kv_wf (e_kvs e).
End Ent.

Arguments mk_kv {A}. Arguments mk_io {A}. Arguments mk_res {A}. Arguments mk_ent {A}.

(** * The dictionary of one block as [enc]/[dec]: BinStrDict.__call__ = the little-endian 16-bit form of
      [sd_encode], make_lookup(file, base + inv_list) = [sd_decode] of the 16-bit index *)
Section Dict.
Variable A : Type.
Variable eqb : A -> A -> bool.
Variables base own : list A.
Variable shared : nat.
Definition dict_enc (s : A) : option (N * N) :=
  match sd_encode A eqb base own shared s with
  | Some i => if N.of_nat i <? 65536 then Some (pack16 (N.of_nat i)) else None     (* struct.pack('<H') raises *)
  | None => None
  end.
Definition dict_dec (p : N * N) : option A := sd_decode A base own (N.to_nat (unpack16 p)).
End Dict.

(** * Boolean equality of records over numbered strings (used by the correspondence of checks/c16.py) *)
Fixpoint list_eqb {T} (f : T -> T -> bool) (a b : list T) : bool :=
  match a, b with [] , [] => true | x :: a', y :: b' => f x y && list_eqb f a' b' | _, _ => false end.
Definition flagN_eqb (a b : N * N * bool) : bool :=
  (fst (fst a) =? fst (fst b)) && (snd (fst a) =? snd (fst b)) && Bool.eqb (snd a) (snd b).
Definition kvN_eqb (a b : kvdef N) : bool :=
  (kv_name N a =? kv_name N b) && (kv_disp N a =? kv_disp N b) && String.eqb (kv_type N a) (kv_type N b)
  && Bool.eqb (kv_ro N a) (kv_ro N b) && (kv_default N a =? kv_default N b) && list_eqb flagN_eqb (kv_flags N a) (kv_flags N b).
Definition ioN_eqb (a b : iodef N) : bool := (io_name N a =? io_name N b) && String.eqb (io_type N a) (io_type N b).
Fixpoint insertN (x : N) (l : list N) : list N :=
  match l with [] => [x] | y :: r => if x <=? y then x :: l else y :: insertN x r end.
Definition sortN (l : list N) : list N := fold_right insertN [] l.
(** resource tags are a frozenset: compared as sets *)
Definition resN_eqb (a b : resdef N) : bool :=
  (res_file N a =? res_file N b) && String.eqb (res_type N a) (res_type N b)
  && list_eqb N.eqb (sortN (res_tags N a)) (sortN (res_tags N b)).
Definition entN_eqb (a b : entdef N) : bool :=
  String.eqb (e_kind N a) (e_kind N b) && Bool.eqb (e_alias N a) (e_alias N b) && list_eqb N.eqb (e_bases N a) (e_bases N b)
  && list_eqb kvN_eqb (e_kvs N a) (e_kvs N b) && list_eqb ioN_eqb (e_ins N a) (e_ins N b)
  && list_eqb ioN_eqb (e_outs N a) (e_outs N b) && list_eqb resN_eqb (e_res N a) (e_res N b).
(** strings numbered by their first position in the look-up list: BinStrDict.__call__ is the 16-bit form of
    the number itself, make_lookup reads position [i] of the list *)
Definition encN (s : N) : option (N * N) := if s <? 65536 then Some (pack16 s) else None.
Definition decN (canon : list N) (p : N * N) : option N := nth_error canon (N.to_nat (unpack16 p)).

(** * The file header of the database: 'FGD', format version, number of blocks, and per block the class names
      (one UTF-8 string joined with STRING_SEP) with the position and size of the block's data (`<BI`, `<H`, `<IH`) *)
Definition le16 (n : N) : list N := [n mod 256; n / 256].
Definition le32 (n : N) : list N := [n mod 256; (n / 256) mod 256; (n / 65536) mod 256; n / 16777216].
Definition un32 (a b c d : N) : N := a + 256 * b + 65536 * c + 16777216 * d.
Definition MAGIC : list N := [70; 71; 68].
Record bpos := mk_bpos { bp_names : list N; bp_off : N; bp_size : N }.
Definition bpos_ser (b : bpos) : option (list N) :=
  if (N.of_nat (List.length (bp_names b)) <? 65536) && (bp_off b <? 4294967296) && (bp_size b <? 65536)
  then Some (le16 (N.of_nat (List.length (bp_names b))) ++ bp_names b ++ le32 (bp_off b) ++ le16 (bp_size b)) else None.
Definition header_ser (version : N) (bs : list bpos) : option (list N) :=
  if (version <? 256) && (N.of_nat (List.length bs) <? 4294967296)
  then cat (Some (MAGIC ++ version :: le32 (N.of_nat (List.length bs)))) (cat_all (map bpos_ser bs)) else None.
Definition bpos_unser : reader bpos :=
  fun bs => match bs with
            | a :: b :: r =>
                let n := N.to_nat (a + 256 * b) in
                if (n <=? List.length r)%nat then
                  match skipn n r with
                  | o0 :: o1 :: o2 :: o3 :: s0 :: s1 :: r' => Some (mk_bpos (firstn n r) (un32 o0 o1 o2 o3) (s0 + 256 * s1), r')
                  | _ => None
                  end
                else None
            | _ => None
            end.
Definition header_unser (version : N) : reader (list bpos) :=
  fun bs => match bs with
            | 70 :: 71 :: 68 :: v :: a :: b :: c :: d :: r => if v =? version then rd_n (N.to_nat (un32 a b c d)) bpos_unser r else None
            | _ => None
            end.
(** unserialise(): `file.seek(off); file.read(size)` *)
Definition slice (file : list N) (off size : N) : list N := firstn (N.to_nat size) (skipn (N.to_nat off) file).
(** serialise(): the blocks are written one after the other behind what precedes them; positions as DeferredWrites fills them in *)
Fixpoint positions (start : N) (blocks : list (list N * list N)) : list bpos :=
  match blocks with
  | [] => []
  | (names, data) :: r => mk_bpos names start (N.of_nat (List.length data)) :: positions (start + N.of_nat (List.length data)) r
  end.
