(** The two name helpers of vpk.py as objects read from the source (Gen/VpkNames_gen.v, translate/c13_names.py):

    - [_join_file_parts] executed on symbolic strings for the eight combinations "path empty? / stem empty? / extension empty?":
      one [jrow] per combination holding the pieces of the result in order ([g_join_table]);
    - [_get_file_parts] executed for the three name forms (string, 2-tuple, 3-tuple) with relative_to = '': where folder, file name and
      extension come from before the split statement, whether the split statement is reached, the chain of string operations applied to
      the folder, the order of the returned triple ([g_parts], a [gparts]).

    Both get a meaning here ([join_k], [file_parts_g]); VpkNameJoinProofs.v shows that every object accepted by [join_table_ok] /
    [gparts_ok] is [join_parts] / [file_parts_k] of the hand model on all inputs, and that joining inverts splitting on the names that can
    be listed. *)
From Coq Require Import List NArith Bool.
From SV Require Import Fmt.VpkDir SM.Vpk Fmt.VpkName Fmt.VpkNameSplit.
Import ListNotations.
Open Scope N_scope.

(** ---- _join_file_parts ---- *)
Inductive jpiece := JPath | JName | JExt | JLit (b : bytes).
Record jrow := mkJRow { j_pe : bool; j_ne : bool; j_ee : bool; j_out : list jpiece }.

Definition jnil {A} (l : list A) : bool := match l with [] => true | _ => false end.

Definition jpiece_val (k : key) (p : jpiece) : bytes :=
  let '(e, d, n) := k in match p with JPath => d | JName => n | JExt => e | JLit b => b end.
Definition jeval (k : key) (ps : list jpiece) : bytes := flat_map (jpiece_val k) ps.

Definition jrow_matches (k : key) (r : jrow) : bool :=
  let '(e, d, n) := k in Bool.eqb (j_pe r) (jnil d) && Bool.eqb (j_ne r) (jnil n) && Bool.eqb (j_ee r) (jnil e).

(** the meaning of a table: the row of the key's emptiness pattern, evaluated; [None] = no such row *)
Definition join_k (tb : list jrow) (k : key) : option bytes :=
  match find (jrow_matches k) tb with Some r => Some (jeval k (j_out r)) | None => None end.

(** pieces as atoms: a part that is empty in the row's scenario contributes nothing, literals are spelled out byte by byte *)
Inductive jatom := APath | AName | AExt | AByte (b : N).
Definition jatoms (pe ne ee : bool) (p : jpiece) : list jatom :=
  match p with
  | JPath => if pe then [] else [APath]
  | JName => if ne then [] else [AName]
  | JExt => if ee then [] else [AExt]
  | JLit b => map AByte b
  end.
Definition jatom_eqb (a b : jatom) : bool :=
  match a, b with APath, APath | AName, AName | AExt, AExt => true | AByte x, AByte y => x =? y | _, _ => false end.
Fixpoint jatoms_eqb (a b : list jatom) : bool :=
  match a, b with [] , [] => true | x :: a', y :: b' => jatom_eqb x y && jatoms_eqb a' b' | _, _ => false end.

(** what the result has to be: folder and '/' when there is a folder, the stem, '.' and the extension when there is an extension *)
Definition want_atoms (pe ne ee : bool) : list jatom :=
  (if pe then [] else [APath; AByte 47]) ++ (if ne then [] else [AName]) ++ (if ee then [] else [AByte 46; AExt]).

Definition jrow_ok (r : jrow) : bool :=
  jatoms_eqb (flat_map (jatoms (j_pe r) (j_ne r) (j_ee r)) (j_out r)) (want_atoms (j_pe r) (j_ne r) (j_ee r)).
Definition all_jscen : list (bool * bool * bool) :=
  [(false, false, false); (false, false, true); (false, true, false); (false, true, true);
   (true, false, false); (true, false, true); (true, true, false); (true, true, true)].
Definition join_table_ok (tb : list jrow) : bool :=
  forallb jrow_ok tb
  && forallb (fun s => let '(pe, ne, ee) := s in
                existsb (fun r => Bool.eqb (j_pe r) pe && Bool.eqb (j_ne r) ne && Bool.eqb (j_ee r) ee) tb) all_jscen.

(** the pinned code: f"{path}{'/' if path else ''}{filename}{'.' if ext else ''}{ext}" *)
Definition jrow_pinned (pe ne ee : bool) : jrow :=
  mkJRow pe ne ee [JPath; JLit (if pe then [] else [47]); JName; JLit (if ee then [] else [46]); JExt].
Definition join_table_pinned : list jrow := map (fun s => let '(pe, ne, ee) := s in jrow_pinned pe ne ee) all_jscen.
(** seeded fault c13_5: '/'.join(filter(None, (path, filename))) + '.ext' — the separator goes with the blank stem *)
Definition jrow_c13_5 (pe ne ee : bool) : jrow :=
  mkJRow pe ne ee ([JPath; JLit (if pe || ne then [] else [47]); JName] ++ (if ee then [] else [JLit [46]; JExt])).
Definition join_table_c13_5 : list jrow := map (fun s => let '(pe, ne, ee) := s in jrow_c13_5 pe ne ee) all_jscen.

(** ---- _get_file_parts ---- *)
Inductive psrc := SHead | STail | SElem (i : N) | SEmpty.
Inductive pathop := PRepl (a b : N) | PNorm | PRstrip (c : N) | PDotEmpty.
Record gparts := mkGParts {
  gp_str : psrc * psrc * psrc;          (* (folder, file name, extension) before the split statement, for a string *)
  gp_pair : psrc * psrc * psrc;         (* for a 2-tuple *)
  gp_triple : psrc * psrc * psrc;       (* for a 3-tuple *)
  gp_split : bool;                      (* the split statement `if not ext and c in filename: filename, ext = ...` is reached, on (file name, extension) *)
  gp_chain : list pathop;               (* operations applied to the folder, in order *)
  gp_ret_ok : bool }.                   (* the function returns (folder, file name, extension) *)

Definition form_elems (f : nameform) : list bytes :=
  match f with NStr s => [s] | NPair d x => [d; x] | NTriple d n e => [d; n; e] end.
Definition psrc_val (f : nameform) (s : psrc) : bytes :=
  match s with
  | SHead => match f with NStr x => fst (split_path x) | _ => [] end
  | STail => match f with NStr x => snd (split_path x) | _ => [] end
  | SElem i => nth (N.to_nat i) (form_elems f) []
  | SEmpty => []
  end.
Definition pathop_val (normpath : bytes -> bytes) (o : pathop) (p : bytes) : bytes :=
  match o with
  | PRepl a b => map (fun x => if x =? a then b else x) p
  | PNorm => normpath p
  | PRstrip c => rstrip c p
  | PDotEmpty => match p with [46] => [] | _ => p end
  end.

Definition file_parts_g (normpath : bytes -> bytes) (k : split_kind) (g : gparts) (f : nameform) : key :=
  let '(sp, sn, se) := match f with NStr _ => gp_str g | NPair _ _ => gp_pair g | NTriple _ _ _ => gp_triple g end in
  let '(n, e) := if gp_split g then split_ext_k k (psrc_val f sn) (psrc_val f se) else (psrc_val f sn, psrc_val f se) in
  (e, fold_left (fun p o => pathop_val normpath o p) (gp_chain g) (psrc_val f sp), n).

Definition gparts_pinned : gparts :=
  mkGParts (SHead, STail, SEmpty) (SElem 0, SElem 1, SEmpty) (SElem 0, SElem 1, SElem 2) true
           [PRepl 92 47; PNorm; PRepl 92 47; PRstrip 47; PDotEmpty] true.

Definition psrc_eq_dec (a b : psrc) : {a = b} + {a <> b}.
Proof. decide equality; apply N.eq_dec. Defined.
Definition pathop_eq_dec (a b : pathop) : {a = b} + {a <> b}.
Proof. decide equality; apply N.eq_dec. Defined.
Definition gparts_eq_dec (a b : gparts) : {a = b} + {a <> b}.
Proof.
  decide equality; try apply Bool.bool_dec; try (apply list_eq_dec; apply pathop_eq_dec);
  repeat (decide equality; try apply psrc_eq_dec).
Defined.
Definition gparts_ok (g : gparts) : bool := if gparts_eq_dec g gparts_pinned then true else false.

(** a 3-tuple whose extension is ignored (taken as '') — a nearby wrong shape *)
Definition gparts_triple_ext_dropped : gparts :=
  mkGParts (SHead, STail, SEmpty) (SElem 0, SElem 1, SEmpty) (SElem 0, SElem 1, SEmpty) true
           [PRepl 92 47; PNorm; PRepl 92 47; PRstrip 47; PDotEmpty] true.

(** ---- names that can be listed ---- *)
Definition jhas (c : N) (s : bytes) : bool := existsb (fun x => x =? c) s.
(** A key whose listed name resolves back to it: the folder is already in the form _get_file_parts returns, stem and extension contain
    no '/', the extension no '.', and a stem containing '.' has an extension (the carve-out: keys with extension '' and a '.' in the stem
    are what names ending in '.' are stored as — known finding name-trailing-dot). *)
Definition key_listable (normpath : bytes -> bytes) (k : key) : Prop :=
  let '(e, d, n) := k in
  norm_dir normpath d = d /\ jhas 47 n = false /\ jhas 47 e = false /\ jhas 46 e = false /\ (e = [] -> jhas 46 n = false).
