(** C14 — the nested KeyValues2 layout, graph to graph: with the root rule of [export_kv2] every element reachable from
    the exported one is written exactly once (sharing and cycles become references by id to top-level blocks), the
    tree of blocks can be carried by the text ([ndoc_ok], so the text theorem applies), and what the reader registers
    is, up to the order of the blocks, the flat document of the graph — whose references resolve to the same
    elements ([link_flatten]). *)
From Coq Require Import NArith List Bool Lia PeanoNat Permutation.
From SV Require Import Text.Str Text.Escape Text.Tokenizer Fmt.DmxKv2 Fmt.DmxKv2Proofs Fmt.DmxKv2Nested Fmt.DmxKv2NestedProofs
  Fmt.DmxKv2Graph Fmt.DmxKv2GraphProofs Fmt.DmxKv2GraphUnique Fmt.DmxKv2GraphFuel Fmt.DmxKv2GraphLink.
Import ListNotations.
Open Scope nat_scope.

Lemma nodup_str_NoDup l : nodup_str l = true -> NoDup l.
Proof.
  induction l as [|x l IH]; intros H; [constructor|]. cbn [nodup_str] in H. apply andb_prop in H. destruct H as [Hx Hl].
  constructor; [|now apply IH]. intros Hin. apply negb_true_iff in Hx.
  assert (existsb (str_eqb x) l = true) by (apply existsb_exists; exists x; split; [assumption|apply str_eqb_refl]). congruence.
Qed.
Lemma NoDup_nodup_str l : NoDup l -> nodup_str l = true.
Proof.
  induction 1 as [|x l Hx Hl IH]; [reflexivity|]. cbn [nodup_str]. rewrite IH, andb_true_r. apply negb_true_iff.
  destruct (existsb (str_eqb x) l) eqn:E; [|reflexivity]. apply existsb_exists in E. destruct E as [y [Hy E]].
  apply str_eqb_eq in E. subst y. contradiction.
Qed.

Lemma NoDup_map_inj_in {A B} (f : A -> B) l : (forall x y, In x l -> In y l -> f x = f y -> x = y) -> NoDup l -> NoDup (map f l).
Proof.
  intros Hinj Hn. induction Hn as [|x l Hx Hl IH]; [constructor|]. cbn [map]. constructor.
  - intros Hin. apply in_map_iff in Hin. destruct Hin as [y [Hy Hin]]. assert (y = x) by (apply Hinj; [now right|now left|assumption]).
    subst y. contradiction.
  - apply IH. intros a b Ha Hb. apply Hinj; now right.
Qed.

Section Whole.
Variable g : gdoc.

Lemma graph_ok_parts : graph_ok g = true -> NoDup (ids g) /\ refs_in_range g.
Proof.
  unfold graph_ok. intros H. apply andb_prop in H. destruct H as [Hn Hr]. split; [now apply nodup_str_NoDup|].
  intros i a j Ha Hj. destruct (Nat.lt_ge_cases i (length g)) as [Li|Li].
  - rewrite forallb_forall in Hr. specialize (Hr (nth i g dflt_gelem) (nth_In g dflt_gelem Li)).
    rewrite forallb_forall in Hr. specialize (Hr a Ha). rewrite forallb_forall in Hr. specialize (Hr _ Hj).
    cbn [gitem_ok] in Hr. apply Nat.ltb_lt in Hr. now rewrite map_length in Hr.
  - rewrite nth_overflow in Ha by assumption. destruct Ha.
Qed.

Lemma ids_flatk l : map id_text (map (fun i => flat_elem (ids g) (nth i g dflt_gelem)) l) = map (fun i => nth i (ids g) []) l.
Proof. rewrite map_map. apply map_ext. intros i. unfold id_text. cbn [flat_elem ke_id]. symmetry. apply nth_ids. Qed.

Lemma ids_inj : NoDup (ids g) -> forall i j, i < length g -> j < length g -> nth i (ids g) [] = nth j (ids g) [] -> i = j.
Proof. intros Hn i j Li Lj. apply (proj1 (NoDup_nth (ids g) []) Hn); unfold ids; now rewrite map_length. Qed.

Section Rule.
Variable T : tables.
Variable fold : str -> str.
Variable vtnames : list str.
Variable c : rootcfg.
Hypothesis Hc : root_rule_ok c = true.
Hypothesis Hg : graph_ok g = true.
Notation isroot := (is_root fold vtnames c false g).

Lemma rule_nodup : NoDup (K g isroot (seq 0 (length g))).
Proof.
  apply non_roots_used_once_nodup. intros j Hj. apply (non_root_used_at_most_once fold vtnames c Hc false g j Hj).
Qed.

(** the writer's recursion ends: the tree of blocks exists *)
Theorem nest_total : exists d, nest_doc g isroot false = Some d.
Proof. destruct (graph_ok_parts Hg) as [_ Hr]. exact (nest_doc_total g isroot Hr rule_nodup). Qed.

(** sharing: no element is written twice *)
Theorem nest_written_once d : nest_doc g isroot false = Some d -> written_once d = true.
Proof.
  intros H. destruct (graph_ok_parts Hg) as [Hn Hr]. unfold written_once. rewrite (unnest_nest g isroot d H).
  unfold flatk. rewrite ids_flatk. apply NoDup_nodup_str. apply NoDup_map_inj_in.
  - pose proof (all_blocks_in_range g isroot d H) as F. rewrite Forall_forall in F.
    intros x y Hx Hy. apply (ids_inj Hn); now apply F.
  - apply (all_blocks_nodup g isroot Hr rule_nodup).
Qed.

(** the whole step: the reader registers exactly the elements of the graph, each once, the exported one first *)
Theorem nest_is_flatten_permuted d : g <> [] -> (forall j, j < length g -> reach g j) ->
  nest_doc g isroot false = Some d ->
  Permutation (unnest d) (flatten g) /\ exists rest, unnest d = flat_elem (ids g) (nth 0 g dflt_gelem) :: rest.
Proof.
  intros Hne Hreach H. destruct (graph_ok_parts Hg) as [Hn Hr].
  pose proof (exported_element_is_root fold vtnames c Hc false g) as R0. split.
  - apply NoDup_Permutation.
    + apply (NoDup_map_inv id_text). apply nodup_str_NoDup. apply (nest_written_once d H).
    + apply (NoDup_map_inv id_text). unfold flatten. rewrite map_map. cbn [id_text flat_elem ke_id]. exact Hn.
    + intros k. split; intros Hk.
      * destruct (nest_only_graph_elements g isroot d H k Hk) as [i [Li ->]]. unfold flatten. apply in_map. now apply nth_In.
      * unfold flatten in Hk. apply in_map_iff in Hk. destruct Hk as [e [<- He]]. destruct (In_nth g e dflt_gelem He) as [i [Li <-]].
        apply (nest_complete g isroot d R0 Hne Hr H i (Hreach i Li)).
  - apply (nest_root_first g isroot d R0 Hne H).
Qed.

(** the graph the reader builds from the registered elements: its flat document is what was registered *)
Theorem nest_reader_graph d : nest_doc g isroot false = Some d -> exists g', link (unnest d) = Some g' /\ flatten g' = unnest d.
Proof.
  intros H. rewrite (unnest_nest g isroot d H). unfold link.
  replace (map (flatk g) (all_blocks g isroot)) with (map (flat_elem (ids g)) (map (fun i => nth i g dflt_gelem) (all_blocks g isroot)))
    by (rewrite map_map; reflexivity).
  rewrite all_ids_flatten. eexists. split; [reflexivity|].
  apply flatten_link. unfold link. now rewrite all_ids_flatten.
Qed.

(** the tree of blocks can be carried by the text: no inline block has an attribute type keyword as its type *)
Hypothesis Hdoc : doc_ok T vtnames (flatten g) = true.

Lemma flat_elem_ok i : i < length g -> elem_ok T vtnames (flat_elem (ids g) (nth i g dflt_gelem)) = true.
Proof.
  intros Li. unfold doc_ok in Hdoc. apply andb_prop in Hdoc. destruct Hdoc as [_ H]. rewrite forallb_forall in H.
  apply H. unfold flatten. apply in_map. now apply nth_In.
Qed.

Definition okf (f : nat) : Prop := forall i t top, nest_elem g isroot false f i = Some t -> (top = true \/ isroot i = false) ->
  nelem_ok T fold vtnames top t = true.

Lemma items_okf f : okf f -> forall is_elem items its, map_opt (item_fn g isroot f) items = Some its ->
  forallb (item_ok T is_elem) (map (flat_item (ids g)) items) = true -> forallb (nitem_ok T fold vtnames is_elem) its = true.
Proof.
  intros IH is_elem. induction items as [|it r IHr]; intros its H Hok.
  - injection H as <-. reflexivity.
  - cbn [map_opt] in H. destruct (item_fn g isroot f it) as [ni|] eqn:Hi; [|discriminate].
    destruct (map_opt (item_fn g isroot f) r) as [nr|] eqn:Hr; [|discriminate]. injection H as <-.
    cbn [map forallb] in Hok. apply andb_prop in Hok. destruct Hok as [Hit Hrest]. cbn [forallb]. rewrite (IHr nr eq_refl Hrest), andb_true_r.
    destruct it as [s|[j| |u]]; cbn [item_fn] in Hi; cbn [flat_item item_ok] in Hit.
    + injection Hi as <-. now rewrite nitem_ok_str.
    + destruct (isroot j) eqn:Rj.
      * injection Hi as <-. now rewrite nitem_ok_ref.
      * destruct (nest_elem g isroot false f j) as [t|] eqn:Nj; [|discriminate]. injection Hi as <-.
        rewrite nitem_ok_inline. apply andb_prop in Hit. destruct Hit as [-> _]. cbn [andb]. apply (IH j t false Nj). now right.
    + injection Hi as <-. now rewrite nitem_ok_null.
    + injection Hi as <-. now rewrite nitem_ok_ref.
Qed.

Lemma nest_okf : forall f, okf f.
Proof.
  induction f as [|f IH]; intros i t top H Htop; [discriminate|].
  rewrite nest_elem_S in H. destruct (nth_error g i) as [e|] eqn:Ne; [|discriminate].
  assert (Li : i < length g) by (apply nth_error_Some; congruence).
  pose proof (flat_elem_ok i Li) as Hok. rewrite (nth_error_nth _ _ dflt_gelem Ne) in Hok.
  fold (item_fn g isroot f) in H. destruct (map_opt _ (ge_attrs e)) as [attrs|] eqn:Ha; [|discriminate]. injection H as <-.
  unfold elem_ok in Hok. cbn [flat_elem ke_id ke_attrs] in Hok. apply andb_prop in Hok. destruct Hok as [Hid Hattrs].
  cbn [nelem_ok]. rewrite (attrs_ok_forallb T fold vtnames), Hid, andb_true_r.
  assert (Hk : top || negb (type_is_keyword fold vtnames (ge_type e)) = true).
  { destruct Htop as [->|Hnr]; [reflexivity|].
    destruct (non_root_used_at_most_once fold vtnames c Hc false g i Hnr) as [_ [_ [Hkw _]]].
    rewrite (nth_error_nth _ _ dflt_gelem Ne) in Hkw. rewrite Hkw. now rewrite orb_true_r. }
  rewrite Hk. cbn [andb].
  clear Hid Hk Ne. revert attrs Ha Hattrs. induction (ge_attrs e) as [|a r IHr]; intros attrs Ha Hattrs.
  - injection Ha as <-. reflexivity.
  - cbn [map_opt] in Ha. destruct (map_opt (item_fn g isroot f) (ga_items a)) as [its|] eqn:Hi; [|discriminate].
    destruct (map_opt _ r) as [nr|] eqn:Hr; [|discriminate]. injection Ha as <-.
    cbn [map forallb] in Hattrs. apply andb_prop in Hattrs. destruct Hattrs as [Hatt Hrest].
    cbn [forallb]. rewrite (IHr nr eq_refl Hrest), andb_true_r.
    unfold attr_ok in Hatt. cbn [flat_attr ka_type ka_name ka_items ka_arr] in Hatt.
    apply andb_prop in Hatt. destruct Hatt as [Hatt Hshape]. apply andb_prop in Hatt. destruct Hatt as [Hatt Hitems].
    cbn [nattr_ok]. rewrite (items_ok_forallb T fold vtnames), Hatt. cbn [andb].
    rewrite (items_okf f IH _ _ _ Hi Hitems). cbn [andb].
    assert (length its = length (ga_items a)) as ->.
    { clear - Hi. revert its Hi. induction (ga_items a) as [|x l IHl]; intros its Hi; [injection Hi as <-; reflexivity|].
      cbn [map_opt] in Hi. destruct (item_fn g isroot f x); [|discriminate]. destruct (map_opt _ l) as [bs|]; [|discriminate].
      injection Hi as <-. cbn [length]. now rewrite (IHl bs eq_refl). }
    rewrite map_length in Hshape. exact Hshape.
Qed.

Theorem nest_ndoc_ok d : g <> [] -> nest_doc g isroot false = Some d -> ndoc_ok T fold vtnames d = true.
Proof.
  intros Hne H. unfold ndoc_ok. apply andb_true_intro. split.
  - pose proof (exported_element_is_root fold vtnames c Hc false g) as R0.
    destruct (nest_root_first g isroot d R0 Hne H) as [rest Hrest]. destruct d; [discriminate Hrest|reflexivity].
  - apply forallb_forall. intros t Ht. unfold nest_doc in H.
    assert (exists i, nest_elem g isroot false (S (length g)) i = Some t) as [i Hi].
    { clear - H Ht. revert d H Ht. induction (root_list g isroot) as [|r l IHl]; intros d H Ht.
      - injection H as <-. destruct Ht.
      - cbn [map_opt] in H. destruct (nest_elem g isroot false (S (length g)) r) as [tr|] eqn:Hr; [|discriminate].
        destruct (map_opt _ l) as [ts|] eqn:Hl; [|discriminate]. injection H as <-. destruct Ht as [<-|Ht]; [now exists r|].
        now apply (IHl ts). }
    apply (nest_okf _ i t true Hi). now left.
Qed.
End Rule.
End Whole.

(** * Examples and refutations *)
Definition ex_isroot (c : rootcfg) (g : gdoc) : nat -> bool := is_root (fun s => s) pinned_vtnames c false g.

(** the example graph (sharing, a self reference, a cycle through an inline block, depth 2, a stub, NULL): four elements,
    two top-level blocks, each element written once, the exported element first *)
Lemma ex_graph_nested :
  graph_ok ex_graph = true /\ root_rule_ok pinned_rootcfg = true /\
  (match nest_doc ex_graph (ex_isroot pinned_rootcfg ex_graph) false with
  | Some d => (length d =? 2) && (length (unnest d) =? 4) && written_once d &&
              ndoc_ok pinned_tables (fun s => s) pinned_vtnames d
  | None => false
  end) = true.
Proof. vm_compute. repeat split. Qed.

(** [count > 2]: an element used twice is not a root, it is written inline at both places and the reader gets two
    elements where the graph has one: sharing is lost (the class of fault the obligation [root_rule_ok] excludes) *)
Lemma late_root_rule_refuted :
  root_rule_ok late_rootcfg = false /\
  (match nest_doc ex_shared (ex_isroot late_rootcfg ex_shared) false with
  | Some d => (length (unnest d) =? 3) && negb (written_once d)
  | None => false
  end) = true /\
  (match nest_doc ex_shared (ex_isroot pinned_rootcfg ex_shared) false with
  | Some d => (length (unnest d) =? 2) && written_once d
  | None => false
  end) = true.
Proof. vm_compute. repeat split. Qed.

(** an inline block starts with the name of the attribute that holds it ([_parse_kv2_element(..., attr_name, ...)]): a writer
    that leaves the name line out for an empty name gets the attribute name back (the class of seeded fault c14_6) *)
Open Scope N_scope.
Definition nameless_inline_tokens : tl :=
  [(STRING, [84]); (NEWLINE, [10]); (BRACE_OPEN, [123]); (NEWLINE, [10]);
   (STRING, [99]); (STRING, [67]); (NEWLINE, [10]); (BRACE_OPEN, [123]); (NEWLINE, [10]); (BRACE_CLOSE, [125]); (NEWLINE, [10]);
   (BRACE_CLOSE, [125]); (NEWLINE, [10])].
Lemma nameless_inline_block_takes_attribute_name :
  parsen_tokens (fun s => s) pinned_vtnames nameless_inline_tokens =
  Some [NElem [84%N] None [] [NAttr [99%N] s_element false [NInline (NElem [67%N] None [99%N] [])]]].
Proof. vm_compute. reflexivity. Qed.
